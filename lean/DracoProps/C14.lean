import DracoProofs.Dedup
import DracoProofs.Cleanup
import DracoProofs.CleanupValid
import DracoProofs.Builders
import DracoProofs.BuildersSpec
import DracoProofs.StripsGeometry
import DracoModel.C14Check
import DracoProofs.C14Verify
import DracoProofs.C14Strips
import DracoProofs.C14Cleanup
import DracoProps.C13
/-
  C14 — mesh-building and clean-up utilities preserve the described geometry.

  `describes g` = list of triangles (three per-corner tuples of attribute value bytes, in corner
  order) of a mesh / list of points (one tuple each) of a point cloud.

  Attribute value deduplication (`PointCloud::DeduplicateAttributeValues`)
    * `dedupValues_preserves`        every point sees the same bytes in every attribute, `describes`
                                     is unchanged (as a LIST), validity is kept.
    * `dedupValues_no_duplicates`    no two byte-equal entries remain — for the attribute types the
                                     code handles (8/16/32-bit components, 1..4 components).
    * `dedupValues_unsupported_counterexample` … the clause is FALSE of the code for 64-bit
                                     components and for more than 4 components (replayed on the library).
    * `dedupValues_is_bitwise`       equality is on bit patterns: `-0.0f`/`+0.0f` stay apart, two NaNs
                                     with the same payload are merged.
    * `dedupValues_idempotent`.
  Point id deduplication (`PointCloud::DeduplicatePointIds`, `Mesh::ApplyPointIdDeduplication`)
    * `dedupPointIds_preserves`      the triangles are equal as LISTS; point clouds keep the same set
                                     of points through the explicit, surjective index map.
    * `dedupPointIds_no_duplicates`  no two points with the same tuple of value indices.
    * `dedupPointIds_idempotent`.
  Mesh cleanup (`MeshCleanup::Cleanup`), all 16 option subsets
    * `cleanup_describes`            triangles of the result = triangles of the surviving original
                                     faces, in order, each up to its first corner (orientation kept);
      `cleanup_describes_exact`      equal as lists when `remove_duplicate_faces` is off;
      `cleanup_survivors_*`          which faces survive: exactly the documented removals;
      `cleanup_valid`, `cleanup_nothing_unused`  the result is valid; with `remove_unused_attributes`
                                     every point is a face corner and every value is referenced.
    * `cleanup_*_witness`            deviations of the code from its header, replayed on the library.
  Triangle strips (`MeshStripifier`, both output modes)
    * `strips_describe_table`        for EVERY opposite-corner table that is an involution: the
                                     triangles read back from the stream (`Strips.triangles`, OpenGL
                                     strip rule; zero-area triangles dropped in the degenerate mode)
                                     are a permutation of the faces, each up to its first corner.
    * `strips_describe`              the same for `Strips.generate?` on a valid mesh, in terms of
                                     point ids and of per-corner attribute tuples.  Hypothesis
                                     `Strips.CreateSymm` = clause I1 of C13 (proved as
                                     `c13_opposite_symm` with the corner table model).
  Builders
    * `buildMesh_describes`, `buildPointCloud_describes`.
  The executable oracle of the check (DracoModel/C14Verify.lean, evaluated by tools/props/C14.py on the
  IMPLEMENTATION's result) demands no more than what is proved of the model:
    * `oracle_accepts_dedupValues`, `oracle_accepts_dedupPointIds`, `oracle_accepts_dedupBoth`,
      `oracle_accepts_buildMesh`, `oracle_accepts_buildPointCloud`: every demanded clause evaluates to
      `true` on (input, model's result) for every valid / well-formed input;
    * `oracle_accepts_cleanup` (all 16 option sets, success and error status) and
      `oracle_accepts_strips` (both modes) likewise.
  `cleanup_idempotent`: a second `MeshCleanup::Cleanup` with the same options returns its input.
-/
namespace Draco

/-! ## DeduplicateAttributeValues -/

/-- `DeduplicateAttributeValues` keeps the structure, the validity, the bytes every point sees in
    every attribute, and hence what the geometry describes (as a list, a fortiori as a multiset). -/
theorem dedupValues_preserves (g : Geometry) (hv : g.valid = true) :
    g.dedupValues.valid = true ∧ g.dedupValues.numPoints = g.numPoints ∧ g.dedupValues.faces = g.faces ∧
    (∀ p, p < g.numPoints → g.dedupValues.pointTuple p = g.pointTuple p) ∧
    describes g.dedupValues = describes g := by
  refine ⟨Geometry.dedupValues_valid hv, g.dedupValues_numPoints, g.dedupValues_faces,
    fun p hp => Geometry.dedupValues_pointTuple hv hp, ?_⟩
  unfold describes
  rw [g.dedupValues_isMesh]
  split
  · exact Geometry.dedupValues_triangles hv
  · exact Geometry.dedupValues_points hv

/-- a mesh of two triangles over four points with a duplicate-heavy float attribute -/
def exDedup : Geometry :=
  { isMesh := true, numPoints := 4, faces := [(0, 1, 2), (2, 1, 3)],
    atts := [{ attType := 0, dataType := 9, numComponents := 1, normalized := false, uniqueId := 0,
               numValues := 4, map := none,
               values := [0,0,0,0, 0,0,0,0x80, 0,0,0,0, 0,0,0xc0,0x7f] }] }

example : exDedup.valid = true ∧ exDedup.dedupValues ≠ exDedup ∧
    describes exDedup.dedupValues = describes exDedup := by decide

/-- after `DeduplicateAttributeValues` no two value entries of an attribute are byte-equal —
    for the attributes `DeduplicateValues` handles (`Attribute.dedupSupported`: component types
    INT8/UINT8/INT16/UINT16/INT32/UINT32/FLOAT32/BOOL, 1..4 components) and a non-empty geometry
    (`num_points() == 0` returns early). -/
theorem dedupValues_no_duplicates (g : Geometry) (hv : g.valid = true) (hn : g.numPoints ≠ 0) :
    ∀ a ∈ g.dedupValues.atts, a.dedupSupported = true → a.entries.Nodup := by
  intro a ha hs
  unfold Geometry.dedupValues at ha
  simp only [hn, if_false, List.mem_map] at ha
  obtain ⟨a0, ha0, rfl⟩ := ha
  have hs0 : a0.dedupSupported = true := by
    rcases Attribute.dedupValues_cases g.numPoints a0 with hc | ⟨h1, _, _⟩
    · rw [hc] at hs; exact hs
    · exact h1
  exact Attribute.dedupValues_nodup (Geometry.valid_atts hv a0 ha0) hs0

example : ∀ a ∈ exDedup.dedupValues.atts, a.dedupSupported = true → a.entries.Nodup :=
  dedupValues_no_duplicates exDedup (by decide) (by decide)

example : exDedup.dedupValues.atts.map (·.entries) = [[[0,0,0,0], [0,0,0,0x80], [0,0,0xc0,0x7f]]] := by decide

/-- two equal INT64 values -/
def exInt64 : Geometry :=
  { isMesh := false, numPoints := 2, faces := [],
    atts := [{ attType := 0, dataType := 7, numComponents := 1, normalized := false, uniqueId := 0,
               numValues := 2, map := none, values := List.replicate 16 0 }] }

/-- two equal values of 5 FLOAT32 components -/
def exFive : Geometry :=
  { isMesh := false, numPoints := 2, faces := [],
    atts := [{ attType := 0, dataType := 9, numComponents := 5, normalized := false, uniqueId := 0,
               numValues := 2, map := none, values := List.replicate 40 0 }] }

/-- The clause "no two identical values" is FALSE of the code for component types
    INT64/UINT64/FLOAT64 and for more than four components: `DeduplicateValues` returns −1, the
    caller tests `!(-1)` and goes on, the attribute keeps its duplicates.  Inputs (text form):
    `pc 2 0 - 1 0 7 1 0 0 2 id 00000000000000000000000000000000 none` (INT64) and
    `pc 2 0 - 1 0 9 5 0 0 2 id <40 zero bytes> none` (5 × FLOAT32); the library returns both unchanged. -/
theorem dedupValues_unsupported_counterexample :
    exInt64.valid = true ∧ exInt64.dedupValues = exInt64 ∧ C14.checkDedupValuesNoDupStrict exInt64 = false ∧
    exFive.valid = true ∧ exFive.dedupValues = exFive ∧ C14.checkDedupValuesNoDupStrict exFive = false := by
  decide

/-- `+0.0f, -0.0f, NaN(7fc00000), NaN(7fc00000), NaN(7fc00001)` -/
def exFloats : Geometry :=
  { isMesh := false, numPoints := 5, faces := [],
    atts := [{ attType := 0, dataType := 9, numComponents := 1, normalized := false, uniqueId := 0,
               numValues := 5, map := none,
               values := [0,0,0,0, 0,0,0,0x80, 0,0,0xc0,0x7f, 0,0,0xc0,0x7f, 1,0,0xc0,0x7f] }] }

/-- Values are compared by their BYTES (the hash-map key is the `memcpy`-ed unsigned integer
    array): `+0.0f` (00000000) and `-0.0f` (00000080) stay two values, the two NaNs with the same
    bits (0000c07f) are merged, the NaN with another payload (0100c07f) stays. -/
theorem dedupValues_is_bitwise :
    exFloats.dedupValues.atts.map (fun a => (a.entries, a.map)) =
      [([[0,0,0,0], [0,0,0,0x80], [0,0,0xc0,0x7f], [1,0,0xc0,0x7f]], some [0, 1, 2, 2, 3])] := by decide

/-- `DeduplicateAttributeValues` is idempotent -/
theorem dedupValues_idempotent (g : Geometry) (hv : g.valid = true) :
    g.dedupValues.dedupValues = g.dedupValues := Geometry.dedupValues_idem hv

example : exDedup.dedupValues.dedupValues = exDedup.dedupValues ∧ exDedup.dedupValues ≠ exDedup := by decide

/-! ## DeduplicatePointIds -/

/-- `DeduplicatePointIds`: with `m = Geometry.pointIdMap g` (the `index_map` of the C++) every old
    point `p` becomes the point `m p` of the result carrying the same bytes in every attribute,
    every point of the result is such an image, the value buffers are untouched, the faces are
    remapped by `m`, and the triangles are equal as LISTS. -/
theorem dedupPointIds_preserves (g : Geometry) (hv : g.valid = true) :
    (∀ p, p < g.numPoints → g.pointIdMap p < g.dedupPointIds.numPoints ∧
        g.dedupPointIds.pointTuple (g.pointIdMap p) = g.pointTuple p) ∧
    (∀ q, q < g.dedupPointIds.numPoints → ∃ p, p < g.numPoints ∧ g.pointIdMap p = q) ∧
    g.dedupPointIds.atts.map Attribute.entries = g.atts.map Attribute.entries ∧
    g.dedupPointIds.faces = g.faces.map (fun f => (g.pointIdMap f.1, g.pointIdMap f.2.1, g.pointIdMap f.2.2)) ∧
    g.dedupPointIds.triangles = g.triangles :=
  ⟨fun _ hp => ⟨g.pointIdMap_lt hp, g.dedupPointIds_pointTuple hp⟩, fun _ hq => g.pointIdMap_surj hq,
    g.dedupPointIds_entries, g.dedupPointIds_faces, Geometry.dedupPointIds_triangles hv⟩

/-- for a mesh: `describes` is unchanged as a list -/
theorem dedupPointIds_describes_mesh (g : Geometry) (hv : g.valid = true) (hm : g.isMesh = true) :
    describes g.dedupPointIds = describes g := by
  unfold describes
  rw [g.dedupPointIds_isMesh, hm]
  exact Geometry.dedupPointIds_triangles hv

/-- for a point cloud: the same set of points (duplicates are what gets removed) -/
theorem dedupPointIds_describes_cloud (g : Geometry) (hc : g.isMesh = false) (t : List (List Bytes)) :
    t ∈ describes g.dedupPointIds ↔ t ∈ describes g := by
  unfold describes
  rw [g.dedupPointIds_isMesh, hc]
  simp only [Bool.false_eq_true, if_false, Geometry.points, List.mem_map, List.mem_range]
  constructor
  · rintro ⟨q, hq, rfl⟩
    obtain ⟨p, hp, rfl⟩ := g.pointIdMap_surj hq
    exact ⟨p, hp, by rw [g.dedupPointIds_pointTuple hp]⟩
  · rintro ⟨p, hp, rfl⟩
    exact ⟨g.pointIdMap p, g.pointIdMap_lt hp, by rw [g.dedupPointIds_pointTuple hp]⟩

/-- a quad as two triangles over six points (value indices 0,1,2 / 2,1,3) -/
def exPoints : Geometry :=
  { isMesh := true, numPoints := 6, faces := [(0, 1, 2), (3, 4, 5)],
    atts := [{ attType := 0, dataType := 2, numComponents := 1, normalized := false, uniqueId := 0,
               numValues := 4, map := some [0, 1, 2, 2, 1, 3], values := [10, 20, 30, 40] }] }

example : exPoints.valid = true ∧ exPoints.dedupPointIds.numPoints = 4 ∧
    exPoints.dedupPointIds.faces = [(0, 1, 2), (2, 1, 3)] ∧
    describes exPoints.dedupPointIds = describes exPoints := by decide

/-- after `DeduplicatePointIds` no two points have the same value index in every attribute -/
theorem dedupPointIds_no_duplicates (g : Geometry) :
    ((List.range g.dedupPointIds.numPoints).map g.dedupPointIds.pointKey).Nodup :=
  g.dedupPointIds_nodup

example : (List.range exPoints.dedupPointIds.numPoints).map exPoints.dedupPointIds.pointKey =
    [[0], [1], [2], [3]] := by decide

/-- `DeduplicatePointIds` is idempotent -/
theorem dedupPointIds_idempotent (g : Geometry) : g.dedupPointIds.dedupPointIds = g.dedupPointIds :=
  g.dedupPointIds_idem

example : exPoints.dedupPointIds ≠ exPoints ∧
    exPoints.dedupPointIds.dedupPointIds = exPoints.dedupPointIds := by decide

/-- both deduplications together (what the builders run): no two points with the same bytes in
    every attribute, provided every attribute is of a supported type -/
theorem dedup_no_identical_points (g : Geometry) (hv : g.valid = true) (hn : g.numPoints ≠ 0)
    (hs : ∀ a ∈ g.atts, a.dedupSupported = true) :
    ((List.range g.dedupValues.dedupPointIds.numPoints).map g.dedupValues.dedupPointIds.pointTuple).Nodup := by
  have hv1 := Geometry.dedupValues_valid hv
  have hnd : ∀ a ∈ g.dedupValues.atts, a.entries.Nodup := by
    intro a ha
    have hsup : a.dedupSupported = true := by
      unfold Geometry.dedupValues at ha
      simp only [hn, if_false, List.mem_map] at ha
      obtain ⟨a0, ha0, rfl⟩ := ha
      rcases Attribute.dedupValues_cases g.numPoints a0 with hc | ⟨_, _, hc⟩
      · rw [hc]; exact hs a0 ha0
      · rw [hc]; exact hs a0 ha0
    exact dedupValues_no_duplicates g hv hn a ha hsup
  exact Geometry.pointTuples_nodup (Geometry.dedupPointIds_valid hv1)
    (g.dedupValues.dedupPointIds_entries_nodup hnd) g.dedupValues.dedupPointIds_nodup

/-- six soup corners of a quad: positions 10,20,30 / 30,20,40 -/
def exSoup : Geometry :=
  { isMesh := true, numPoints := 6, faces := [(0, 1, 2), (3, 4, 5)],
    atts := [{ attType := 0, dataType := 2, numComponents := 1, normalized := false, uniqueId := 0,
               numValues := 6, map := none, values := [10, 20, 30, 30, 20, 40] }] }

example : exSoup.valid = true ∧ exSoup.dedupValues.dedupPointIds.numPoints = 4 ∧
    (List.range 4).map exSoup.dedupValues.dedupPointIds.pointTuple = [[[10]], [[20]], [[30]], [[40]]] ∧
    describes exSoup.dedupValues.dedupPointIds = describes exSoup := by decide

/-! ## MeshCleanup::Cleanup -/

/-- two triangles of a strip, one degenerate face, one rotated duplicate, one isolated point -/
def exCleanup : Geometry :=
  { isMesh := true, numPoints := 6,
    faces := [(0, 1, 2), (1, 1, 3), (1, 2, 0), (2, 1, 3)],
    atts := [{ attType := 0, dataType := 2, numComponents := 1, normalized := false, uniqueId := 0,
               numValues := 5, map := some [0, 1, 2, 3, 4, 4], values := [10, 20, 30, 40, 50] }] }

open Cleanup in
/-- **Cleanup preserves the described triangles** (every subset of the four options, every valid
    mesh on which the call succeeds): the triangles of the result are, in order, the triangles of
    the original faces `survivorsOf o g` that survive the documented removals, each up to the choice
    of its first corner (`TriRot`: same three corner tuples, same orientation).
    `RemoveUnusedAttributes` renumbers points and values but changes no triangle. -/
theorem cleanup_describes (o : CleanupOpts) (g g' : Geometry) (hv : g.valid = true) (hm : g.isMesh = true)
    (h : Cleanup.run o g = some g') :
    List.Forall₂ TriRot (describes g') ((survivorsOf o g).map g.triangleOf) := by
  have hm' : g'.isMesh = true := by
    rcases run_eq h with ⟨_, _, _, _, hg⟩ | ⟨pos, _, hg⟩
    · rw [hg]; exact hm
    · rw [hg]
      split
      · rw [removeUnused_eq]; exact hm
      · exact hm
  unfold describes
  rw [hm']
  exact run_triangles hv h

open Cleanup in
/-- when `remove_duplicate_faces` is off nothing is rotated: equality as lists -/
theorem cleanup_describes_exact (o : CleanupOpts) (g g' : Geometry) (hv : g.valid = true)
    (hm : g.isMesh = true) (h : Cleanup.run o g = some g') (hd : o.removeDuplicateFaces = false) :
    describes g' = (survivorsOf o g).map g.triangleOf := by
  have hm' : g'.isMesh = true := by
    rcases run_eq h with ⟨_, _, _, _, hg⟩ | ⟨pos, _, hg⟩
    · rw [hg]; exact hm
    · rw [hg]
      split
      · rw [removeUnused_eq]; exact hm
      · exact hm
  unfold describes
  rw [hm']
  exact run_triangles_nodup hv h hd

open Cleanup in
/-- **exactly the documented removals.**  With `pos` the POSITION attribute:
    (1) `remove_degenerated_faces` drops exactly the faces with a repeated position value index;
    (2) `remove_duplicate_faces` then keeps a subsequence whose canonical rotations
        (`canonFace`: smallest point id first) are the FIRST OCCURRENCES of the canonical rotations
        of the remaining faces — pairwise different, and every canonical form is still represented;
    (3) `remove_unused_attributes` and `make_geometry_manifold` remove no face. -/
theorem cleanup_survivors_spec (o : CleanupOpts) (pos : Attribute) (fs : List Face) :
    let fs1 := if o.removeDegeneratedFaces then fs.filter (fun f => !Cleanup.isDegenerate pos f) else fs
    (o.removeDuplicateFaces = false → survivors o pos fs = fs1) ∧
    (o.removeDuplicateFaces = true →
      (survivors o pos fs).Sublist fs1 ∧
      ((survivors o pos fs).map canonFace).Nodup ∧
      (∀ c, c ∈ (survivors o pos fs).map canonFace ↔ c ∈ fs1.map canonFace) ∧
      (survivors o pos fs).map canonFace = firstOccFrom [] (fs1.map canonFace)) := by
  intro fs1
  refine ⟨?_, ?_⟩
  · intro hd
    simp only [survivors, hd]
    rfl
  · intro hd
    have hs : survivors o pos fs = keptOrig [] fs1 := by
      simp only [survivors, hd]
      rfl
    rw [hs, keptOrig_canon]
    refine ⟨keptOrig_sublist _ _, (firstOccFrom_nodup _ _).1, ?_, rfl⟩
    intro c
    rw [firstOccFrom_mem]
    simp

/-- the result of a successful clean-up is a valid mesh -/
theorem cleanup_valid (o : CleanupOpts) (g g' : Geometry) (hv : g.valid = true)
    (h : Cleanup.run o g = some g') : g'.valid = true := Cleanup.run_valid hv h

example : ∃ g', Cleanup.run {} exCleanup = some g' ∧ g'.valid = true :=
  ⟨_, rfl, cleanup_valid {} exCleanup _ (by decide) rfl⟩

open Cleanup in
/-- with `remove_unused_attributes` exactly the unused items are gone: afterwards every point is a
    corner of some face and every value entry of every attribute is the value of some point
    (while `cleanup_describes` shows that no used item was lost) -/
theorem cleanup_nothing_unused (o : CleanupOpts) (g g' : Geometry) (hv : g.valid = true)
    (h : Cleanup.run o g = some g') (hu : o.removeUnusedAttributes = true) :
    (∀ q, q < g'.numPoints → q ∈ corners g'.faces) ∧
    (∀ a ∈ g'.atts, ∀ w, w < a.numValues → ∃ q, q < g'.numPoints ∧ a.mappedIndex q = w) := by
  rcases run_eq h with ⟨_, h2, _, _, _⟩ | ⟨pos, _, hg⟩
  · rw [hu] at h2; cases h2
  · have hok := storedFaces_ok o pos g.faces (facesOk_of_valid hv)
    have hv1 : ({ g with faces := storedFaces o pos g.faces } : Geometry).valid = true := valid_of_faces hv _ hok
    rw [hu] at hg
    simp only [if_true] at hg
    rw [hg]
    exact ⟨removeUnused_points_used _ hv1, removeUnused_values_used _ hv1⟩

example : (Cleanup.run {} exCleanup).map (fun g => (g.numPoints, g.atts.map (·.numValues))) = some (4, [4]) ∧
    exCleanup.numPoints = 6 ∧ exCleanup.atts.map (·.numValues) = [5] := by decide

example : exCleanup.valid = true ∧
    (Cleanup.run {} exCleanup).map (·.numPoints) = some 4 ∧
    (Cleanup.run {} exCleanup).map (·.faces) = some [(0, 1, 2), (1, 3, 2)] ∧
    (Cleanup.run {} exCleanup).map (fun g => g.atts.map (·.values)) = some [[10, 20, 30, 40]] ∧
    (Cleanup.run {} exCleanup).map describes = some [[[[10]], [[20]], [[30]]], [[[20]], [[40]], [[30]]]] ∧
    Cleanup.survivorsOf {} exCleanup = [(0, 1, 2), (2, 1, 3)] := by decide

example : ∃ g', Cleanup.run {} exCleanup = some g' ∧
    List.Forall₂ Cleanup.TriRot (describes g') ((Cleanup.survivorsOf {} exCleanup).map exCleanup.triangleOf) :=
  ⟨_, rfl, cleanup_describes {} exCleanup _ (by decide) (by decide) rfl⟩

/-- `canonFace` (the rotation loop of the C++) is a rotation-invariant normal form only for faces
    with three different point ids … -/
theorem cleanup_canon_rotation_invariant (f : Face) (hd : f.1 ≠ f.2.1 ∧ f.1 ≠ f.2.2 ∧ f.2.1 ≠ f.2.2) :
    Cleanup.canonFace (Cleanup.rotL f) = Cleanup.canonFace f := Cleanup.canonFace_rotL hd

example : Cleanup.canonFace (5, 3, 7) = (3, 7, 5) ∧ Cleanup.canonFace (7, 5, 3) = (3, 7, 5) := by decide

/-- … for faces with a repeated point id it is not: `(0,1,0)` and `(0,0,1)` are rotations of each
    other, yet `remove_duplicate_faces` (without `remove_degenerated_faces`) keeps both.
    Input: `cleanup 2 mesh 3 2 0,1,0,0,0,1 1 0 9 3 0 0 3 id <36 zero bytes> none`; the library
    returns both faces as well. -/
theorem cleanup_duplicate_rotation_witness :
    Cleanup.rotL (0, 0, 1) = (0, 1, 0) ∧
    Cleanup.canonFace (0, 1, 0) ≠ Cleanup.canonFace (0, 0, 1) ∧
    Cleanup.dupLoop [] false [(0, 1, 0), (0, 0, 1)] = [(0, 1, 0), (0, 0, 1)] := by decide

/-- two faces over different points with the same three positions -/
def exSamePositions : Geometry :=
  { isMesh := true, numPoints := 6, faces := [(0, 1, 2), (3, 4, 5)],
    atts := [{ attType := 0, dataType := 9, numComponents := 3, normalized := false, uniqueId := 0,
               numValues := 3, map := some [0, 1, 2, 0, 1, 2], values := List.replicate 36 0 }] }

/-- The header documents duplicate faces as faces with the same POSITION indices; the code compares
    POINT ids.  Two faces over different points with the same positions are both kept.
    Input: `cleanup 2 mesh 6 2 0,1,2,3,4,5 1 0 9 3 0 0 3 0,1,2,0,1,2 <36 zero bytes> none`. -/
theorem cleanup_duplicate_by_point_id_witness :
    exSamePositions.valid = true ∧
    (Cleanup.run { removeDegeneratedFaces := false, removeUnusedAttributes := false } exSamePositions).map (·.faces)
      = some [(0, 1, 2), (3, 4, 5)] := by decide

/-- one triangle with a NORMAL attribute only -/
def exNoPosition : Geometry :=
  { isMesh := true, numPoints := 3, faces := [(0, 1, 2)],
    atts := [{ attType := 1, dataType := 9, numComponents := 3, normalized := false, uniqueId := 0,
               numValues := 3, map := none, values := List.replicate 36 0 }] }

/-- Any enabled option — also `remove_unused_attributes` or `make_geometry_manifold` alone, which
    never look at positions — makes `Cleanup` fail on a mesh without POSITION attribute.
    Input: `cleanup 4 mesh 3 1 0,1,2 1 1 9 3 0 0 3 id <36 zero bytes> none` → error status. -/
theorem cleanup_needs_position_witness :
    exNoPosition.valid = true ∧
    Cleanup.run { removeDegeneratedFaces := false, removeDuplicateFaces := false } exNoPosition = none ∧
    Cleanup.run { removeDegeneratedFaces := false, removeDuplicateFaces := false,
                  removeUnusedAttributes := false, makeGeometryManifold := true } exNoPosition = none ∧
    Cleanup.run { removeDegeneratedFaces := false, removeDuplicateFaces := false,
                  removeUnusedAttributes := false } exNoPosition = some exNoPosition := by decide

/-! ## MeshStripifier -/

/-- **Strips describe the mesh — for every opposite-corner table that is an involution.**
    `restart = true` (`GenerateTriangleStripsWithPrimitiveRestart`): the triangles read from the
    stream are a permutation of ALL faces.  `restart = false`
    (`GenerateTriangleStripsWithDegenerateTriangles`): the consumer drops zero-area triangles, so
    he gets a permutation of the faces with three different point ids.  Every triangle read is the
    face up to the choice of its first corner (`FaceRot`), i.e. the orientation is preserved. -/
theorem strips_describe_table (opp : Array (Option Nat)) (restart : Bool) (faces : List Face)
    (hinv : Strips.OppInv { faces := faces.toArray, opp := opp })
    (hR : ∀ f ∈ faces, f.1 ≠ Strips.restartIndex ∧ f.2.1 ≠ Strips.restartIndex ∧ f.2.2 ≠ Strips.restartIndex) :
    ∃ l, l.Perm (Strips.expectedFaces restart faces) ∧
      List.Forall₂ Strips.FaceRot (Strips.triangles restart (Strips.generateWith opp restart faces)) l := by
  cases restart
  · exact Strips.generateWith_degenerate_spec opp faces hinv
  · exact Strips.generateWith_restart_spec opp faces hinv hR

/-- the same for the stripifier run on a valid mesh (corner table of the POSITION attribute);
    also in terms of what is described: the per-corner attribute tuples of the triangles read from
    the strip are those of the expected faces, as a multiset, with the orientation -/
theorem strips_describe (hs : Strips.CreateSymm) (restart : Bool) (g : Geometry) (hv : g.valid = true)
    (hn : g.numPoints ≤ Strips.restartIndex) (s : List Nat) (h : Strips.generate? restart g = some s) :
    ∃ l, l.Perm (Strips.expectedFaces restart g.faces) ∧
      List.Forall₂ Strips.FaceRot (Strips.triangles restart s) l ∧
      List.Forall₂ Cleanup.TriRot ((Strips.triangles restart s).map g.triangleOf) (l.map g.triangleOf) := by
  obtain ⟨l, h1, h2⟩ := Strips.generate?_spec hs restart g s (Strips.faces_ne_restart hv hn) h
  exact ⟨l, h1, h2, Strips.forall₂_triangleOf g h2⟩

/-- a fan/strip of four triangles given in scrambled order, an isolated triangle and a face with a
    repeated point -/
def exStrip : Geometry :=
  { isMesh := true, numPoints := 9,
    faces := [(2, 1, 3), (0, 1, 2), (3, 4, 2), (6, 7, 8), (3, 5, 4), (7, 7, 8)],
    atts := [{ attType := 0, dataType := 2, numComponents := 1, normalized := false, uniqueId := 0,
               numValues := 9, map := none, values := [10, 20, 30, 40, 50, 60, 70, 80, 90] }] }

set_option maxRecDepth 100000 in
example : exStrip.valid = true ∧
    Strips.generate? true exStrip = some [5, 4, 3, 2, 1, 0, 4294967295, 6, 7, 8, 4294967295, 7, 7, 8] ∧
    Strips.triangles true [5, 4, 3, 2, 1, 0, 4294967295, 6, 7, 8, 4294967295, 7, 7, 8] =
      [(5, 4, 3), (3, 4, 2), (3, 2, 1), (1, 2, 0), (6, 7, 8), (7, 7, 8)] ∧
    Strips.generate? false exStrip = some [5, 4, 3, 2, 1, 0, 0, 6, 6, 7, 8, 8, 7, 7, 7, 7, 8] ∧
    Strips.triangles false [5, 4, 3, 2, 1, 0, 0, 6, 6, 7, 8, 8, 7, 7, 7, 7, 8] =
      [(5, 4, 3), (3, 4, 2), (3, 2, 1), (1, 2, 0), (6, 7, 8)] := by decide

-- the hypothesis of `strips_describe_table` holds for the table of the example
set_option maxRecDepth 100000 in
example : ∃ opp, Strips.positionOpp exStrip = some opp ∧ Strips.oppInvB opp = true := by
  refine ⟨_, rfl, ?_⟩
  decide

/-! ## builders -/

/-- **`TriangleSoupMeshBuilder`**: for every well-formed input (every attribute has a value for
    every face — per corner or per face —, a component type of positive size and ≥ 1 component) the
    finalized mesh is valid and describes exactly the triangles handed to the builder
    (`MeshSpec.triangles`: per face the three per-corner tuples of value bytes), in order, with the
    orientation — as a list, a fortiori as a multiset.  Holds for every attribute type, also the
    ones `DeduplicateValues` skips. -/
theorem buildMesh_describes (s : MeshSpec) (hw : s.wellFormed = true) :
    (buildMesh s).valid = true ∧ describes (buildMesh s) = s.triangles := by
  obtain ⟨h1, h2, h3⟩ := buildMesh_triangles s (s.soup_valid hw)
  refine ⟨h1, ?_⟩
  unfold describes
  rw [h2, h3, if_pos rfl]
  exact s.soup_triangles hw

/-- two triangles sharing an edge, a per-corner position and a per-face colour -/
def exSpec : MeshSpec :=
  { numFaces := 2,
    atts := [({ attType := 0, dataType := 2, numComponents := 1 },
                [.corners [10] [20] [30], .corners [30] [20] [40]]),
             ({ attType := 2, dataType := 2, numComponents := 2 },
                [.perFace [1, 2], .perFace [1, 2]])] }

example : exSpec.wellFormed = true ∧ (buildMesh exSpec).numPoints = 4 ∧
    (buildMesh exSpec).faces = [(0, 1, 2), (2, 1, 3)] ∧
    describes (buildMesh exSpec) = exSpec.triangles ∧
    describes (buildMesh exSpec) =
      [[[[10], [1, 2]], [[20], [1, 2]], [[30], [1, 2]]], [[[30], [1, 2]], [[20], [1, 2]], [[40], [1, 2]]]] := by
  decide

/-- **`PointCloudBuilder`**: for every well-formed input, without deduplication the cloud describes
    exactly the points handed in (as a list); with deduplication it describes exactly the same SET of
    points (duplicates are what the operation removes) -/
theorem buildPointCloud_describes (s : PointCloudSpec) (hw : s.wellFormed = true) :
    (buildPointCloud s).valid = true ∧
    (s.dedup = false → describes (buildPointCloud s) = s.points) ∧
    (∀ t, t ∈ describes (buildPointCloud s) ↔ t ∈ s.points) := by
  obtain ⟨h1, h2, h3⟩ := buildPointCloud_points s (s.raw_valid hw)
  have hm : (buildPointCloud s).isMesh = false := by
    unfold buildPointCloud
    split
    · rw [Geometry.dedupPointIds_isMesh, Geometry.dedupValues_isMesh]; rfl
    · rfl
  have hraw : describes s.raw = s.points := by
    unfold describes
    rw [if_neg (by simp [PointCloudSpec.raw])]
    exact s.raw_points hw
  refine ⟨h1, fun hd => by rw [h2 hd, hraw], ?_⟩
  intro t
  rw [← s.raw_points hw]
  unfold describes
  rw [hm]
  exact h3 t

def exCloud : PointCloudSpec :=
  { numPoints := 4, dedup := true,
    atts := [({ attType := 0, dataType := 2, numComponents := 1 }, [[10], [20], [10], [30]])] }

example : exCloud.wellFormed = true ∧ describes (buildPointCloud exCloud) = [[[[10]]], [[[20]]], [[[30]]]] ∧
    exCloud.points = [[[[10]]], [[[20]]], [[[10]]], [[[30]]]] := by
  decide

/-- With an attribute of an unsupported type the builders remove NO duplicate point: the
    attribute keeps its identity mapping, which makes every point unique for `DeduplicatePointIds`.
    Input: `buildpc 2 1 1 0 7 1 0 0 <16 zero bytes>` → two identical points remain (the library
    returns `pc 2 0 - 1 0 7 1 0 0 2 id 00…00 none`). -/
theorem buildPointCloud_unsupported_counterexample :
    C14.checkBuildPointCloudStrict
      { numPoints := 2, dedup := true,
        atts := [({ attType := 0, dataType := 7, numComponents := 1 }, [List.replicate 8 0, List.replicate 8 0])] }
      = false := by decide

/-! ## the oracle of the check is implied by the theorems above -/

/-- every clause the check demands of `DeduplicateAttributeValues` holds of the model's result -/
theorem oracle_accepts_dedupValues (g : Geometry) (hv : g.valid = true) :
    (C14.demandedDedupValues g g.dedupValues).allTrue :=
  C14.demandedDedupValues_model g hv (fun hn => dedupValues_no_duplicates g hv hn)

example : (C14.demandedDedupValues exDedup exDedup.dedupValues).allTrue :=
  oracle_accepts_dedupValues exDedup (by decide)

/-- … of `DeduplicatePointIds` -/
theorem oracle_accepts_dedupPointIds (g : Geometry) (hv : g.valid = true) :
    (C14.verifyDedupPointIds g g.dedupPointIds).allTrue :=
  C14.verifyDedupPointIds_model g hv

example : (C14.verifyDedupPointIds exPoints exPoints.dedupPointIds).allTrue :=
  oracle_accepts_dedupPointIds exPoints (by decide)

/-- … of both in sequence -/
theorem oracle_accepts_dedupBoth (g : Geometry) (hv : g.valid = true) :
    (C14.demandedDedupBoth g g.dedupValues.dedupPointIds).allTrue :=
  C14.demandedDedupBoth_model g hv (fun hn => dedupValues_no_duplicates g hv hn)

example : (C14.demandedDedupBoth exSoup exSoup.dedupValues.dedupPointIds).allTrue :=
  oracle_accepts_dedupBoth exSoup (by decide)

/-- … of `TriangleSoupMeshBuilder` -/
theorem oracle_accepts_buildMesh (s : MeshSpec) (hw : s.wellFormed = true) :
    (C14.demandedBuildMesh s (buildMesh s)).allTrue :=
  C14.demandedBuildMesh_model s hw (fun hn => dedupValues_no_duplicates s.soup (s.soup_valid hw) hn)

example : (C14.demandedBuildMesh exSpec (buildMesh exSpec)).allTrue := oracle_accepts_buildMesh exSpec (by decide)

/-- … of `PointCloudBuilder` (with and without deduplication) -/
theorem oracle_accepts_buildPointCloud (s : PointCloudSpec) (hw : s.wellFormed = true) :
    (C14.demandedBuildPointCloud s (buildPointCloud s)).allTrue :=
  C14.demandedBuildPointCloud_model s hw (fun hn => dedupValues_no_duplicates s.raw (s.raw_valid hw) hn)

example : (C14.demandedBuildPointCloud exCloud (buildPointCloud exCloud)).allTrue :=
  oracle_accepts_buildPointCloud exCloud (by decide)

/-- the hypothesis of `strips_describe` is clause I1 of C13, proved for every input -/
theorem strips_createSymm : Strips.CreateSymm :=
  fun _ _ h c o hco => (C13.c13_opposite_symm h c o hco).2.2.1

/-- `strips_describe` without hypotheses about the corner table -/
theorem strips_describe_unconditional (restart : Bool) (g : Geometry) (hv : g.valid = true)
    (hn : g.numPoints ≤ Strips.restartIndex) (s : List Nat) (h : Strips.generate? restart g = some s) :
    ∃ l, l.Perm (Strips.expectedFaces restart g.faces) ∧
      List.Forall₂ Strips.FaceRot (Strips.triangles restart s) l ∧
      List.Forall₂ Cleanup.TriRot ((Strips.triangles restart s).map g.triangleOf) (l.map g.triangleOf) :=
  strips_describe strips_createSymm restart g hv hn s h

/-- every clause the check demands of `MeshCleanup::Cleanup` (all 16 option sets; result or error
    status) holds of the model's answer: `valid`, `only-input-triangles`,
    `documented-removals-only`, `no-degenerate-face-left`, `no-duplicate-face-left`,
    `nothing-unused-left`, `points-and-values-kept`, `status` -/
theorem oracle_accepts_cleanup (o : CleanupOpts) (g : Geometry) (hv : g.valid = true) (hm : g.isMesh = true) :
    (C14.verifyCleanup o g (Cleanup.run o g)).allTrue :=
  C14.verifyCleanup_model o g hv hm

example : (C14.verifyCleanup {} exCleanup (Cleanup.run {} exCleanup)).allTrue :=
  oracle_accepts_cleanup {} exCleanup (by decide) (by decide)

example : (C14.verifyCleanup { removeDegeneratedFaces := false, removeDuplicateFaces := false } exNoPosition
    (Cleanup.run { removeDegeneratedFaces := false, removeDuplicateFaces := false } exNoPosition)).allTrue :=
  oracle_accepts_cleanup _ exNoPosition (by decide) (by decide)

/-- every clause the check demands of a strip stream (`indices`, `describes`; both output modes)
    holds of the model's stream -/
theorem oracle_accepts_strips (restart : Bool) (g : Geometry) (hv : g.valid = true)
    (hn : g.numPoints ≤ Strips.restartIndex) :
    (C14.verifyStrips restart g (Strips.generate? restart g)).allTrue :=
  C14.verifyStrips_model strips_createSymm restart g hv hn

example : (C14.verifyStrips true exStrip (Strips.generate? true exStrip)).allTrue ∧
    (C14.verifyStrips false exStrip (Strips.generate? false exStrip)).allTrue :=
  ⟨oracle_accepts_strips true exStrip (by decide) (by decide),
   oracle_accepts_strips false exStrip (by decide) (by decide)⟩

/-- **`MeshCleanup::Cleanup` is idempotent**: running it again with the same options on its own
    result changes nothing (every option subset) -/
theorem cleanup_idempotent (o : CleanupOpts) (g g' : Geometry) (hv : g.valid = true)
    (h : Cleanup.run o g = some g') : Cleanup.run o g' = some g' :=
  C14.run_idempotent hv h

example : ∃ g', Cleanup.run {} exCleanup = some g' ∧ g' ≠ exCleanup ∧ Cleanup.run {} g' = some g' :=
  ⟨_, rfl, by decide, cleanup_idempotent {} exCleanup _ (by decide) rfl⟩

end Draco
