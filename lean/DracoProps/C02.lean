import DracoProofs.RobustSuffix
import DracoProofs.RobustBasic
/-
  C02 — decoding arbitrary bytes returns a Status (partial).
-/
namespace Draco.C02
open Draco Draco.Robust

/-- the model decoder is a total function of (options, bytes): there is no input on which it has no value -/
theorem decode_total (opts : DecOpts) (bs : Bytes) :
    ∃ r s', decodeGeometry opts { rest := bs } = (r, s') := ⟨_, _, rfl⟩

end Draco.C02
