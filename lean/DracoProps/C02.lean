import DracoProofs.RobustStatus
import DracoProofs.RobustAllocWalk
import DracoProofs.RobustLengths
import DracoProofs.MetadataStatus
import DracoProofs.RansTable
import DracoProps.C03
import DracoProofs.SeqStream
/-
  C02 — decoding arbitrary bytes is memory-safe, UB-free and returns a Status.      (PARTIAL)

  What can and cannot be a theorem here.  The model is written in Lean: every definition is a
  total, terminating function on immutable values, so "terminates", "does not read or write out
  of bounds", "does not modify the caller's bytes" hold for the *model* by construction and say
  nothing about the compiled C++.  For the C++ these are OBSERVED, not proved: every decoding entry
  point runs under ASan + UBSan on every stream of the corruption campaign, with the input in a
  read-only mapping between guard pages, a watchdog and an allocation cap (tools/props/C02.py,
  harness/ops_robust.cc, harness/robust_main.cc).

  What remains as logic, and is proved below for the model of the sequential decoders:
  * status discipline: for every byte string the decoder returns a geometry and status `ok`, or no
    geometry and a status different from `ok` — never neither, never both (`decode_returns_status`);
  * the version gate: a well-formed header with an unknown version yields `unknownVersion`
    whatever follows (`unknown_version_rejected`);
  * purity: the decoder only advances in the input — what is left is a suffix of the caller's bytes
    (`decode_consumes_prefix`), and the outcome is a function of (options, bytes) (`decode_total`);
  * termination: the fuel-driven loops of the decoding paths never run out of fuel
    (`metadata_nesting_fuel_sufficient`, `symbol_table_fuel_sufficient`, `le_groups_fuel_sufficient`,
    `delta_decode_fuel_sufficient`); all other loops are structural recursion on lists.
-/
namespace Draco.C02
open Draco Draco.Robust

/-- the model decoder is a total function of (options, bytes): every byte string has an outcome -/
theorem decode_total (opts : DecOpts) (bs : Bytes) :
    ∃ r s', decodeGeometry opts { rest := bs } = (r, s') := ⟨_, _, rfl⟩

/-- status discipline of the dispatcher for arbitrary disciplined body decoders -/
theorem decode_returns_status_with (eb kd : DecOpts → DecM Geometry) (opts : DecOpts) (bs : Bytes)
    (heb : Disc (eb opts)) (hkd : Disc (kd opts)) :
    (∃ r s', decodeStreamWith eb kd opts { rest := bs } = (some r, s') ∧ s'.status = .ok) ∨
    (∃ s', decodeStreamWith eb kd opts { rest := bs } = (none, s') ∧ s'.status ≠ .ok) := by
  have h := (disc_decodeStreamWith eb kd opts heb hkd).prop { rest := bs } rfl
  rcases hr : decodeStreamWith eb kd opts { rest := bs } with ⟨r, s'⟩
  cases r with
  | none => exact Or.inr ⟨s', rfl, h.1 s' hr⟩
  | some a => exact Or.inl ⟨a, s', rfl, h.2 a s' hr⟩

/-- **Status discipline.** For every byte string and option set: either a geometry is returned and
    the status is `ok`, or nothing is returned and the status is an error (`error`,
    `unknownVersion` or `unsupported`). -/
theorem decode_returns_status (opts : DecOpts) (bs : Bytes) :
    (∃ r s', decodeGeometrySeq opts { rest := bs } = (some r, s') ∧ s'.status = .ok) ∨
    (∃ s', decodeGeometrySeq opts { rest := bs } = (none, s') ∧ s'.status ≠ .ok) :=
  decode_returns_status_with _ _ opts bs (disc_failWith _ (by simp)) (disc_failWith _ (by simp))

/-- a returned geometry implies status ok and (C03) a valid geometry -/
theorem decode_some_ok_valid (opts : DecOpts) (bs : Bytes) (r : DecodeResult) (s' : DSt)
    (h : decodeGeometrySeq opts { rest := bs } = (some r, s')) : s'.status = .ok ∧ r.geometry.valid = true :=
  ⟨((disc_decodeStreamWith _ _ opts (disc_failWith _ (by simp)) (disc_failWith _ (by simp))).prop { rest := bs } rfl).2 r s' h,
   C03.decode_bytes_ok_valid opts bs s' r h⟩

/-- **Purity / forward-only reads.** Whatever the bytes, the input left over after the run is a
    suffix of the caller's bytes: the decoder consumes a prefix, never looks elsewhere, and (the
    bytes being an immutable value) cannot change them. -/
theorem decode_consumes_prefix (opts : DecOpts) (bs : Bytes) (hb : IsBytes bs) :
    (decodeGeometrySeq opts { rest := bs }).2.rest <:+ bs := by
  have h0 : Inv bs 0 { rest := bs } := ⟨List.suffix_refl _, Nat.le_refl _, by simp⟩
  have h := tr_decodeStreamWith hb (fun _ => DecM.failWith (.unsupported "edgebreaker")) (fun _ => DecM.failWith (.unsupported "kd-tree")) opts
    tr_failWith tr_failWith _ h0
  rcases hr : decodeGeometrySeq opts { rest := bs } with ⟨r, s'⟩
  cases r with
  | none => exact (h.1 s' hr).suf
  | some a => exact (h.2 a s' hr).1.suf

/-- the number of consumed bytes reported by the driver (`bs.length - rest.length`) is well defined -/
theorem consumed_le_length (opts : DecOpts) (bs : Bytes) (hb : IsBytes bs) :
    (decodeGeometrySeq opts { rest := bs }).2.rest.length ≤ bs.length :=
  (decode_consumes_prefix opts bs hb).length_le

theorem readBytes5 (a b c d e : Nat) (t : Bytes) :
    readBytes 5 (a :: b :: c :: d :: e :: t) = some ([a, b, c, d, e], t) := by
  unfold readBytes
  rw [if_neg (by simp only [List.length_cons]; omega)]
  rfl

theorem readLE2 (a b : Nat) (t : Bytes) : readLE 2 (a :: b :: t) = some (a + 256 * (b + 256 * 0), t) := by
  unfold readLE readBytes
  rw [if_neg (by simp only [List.length_cons]; omega)]
  rfl

/-- the header prefix "DRACO", version, geometry type, method, flags -/
def headerBytes (major minor et em f0 f1 : Nat) : Bytes := [68, 82, 65, 67, 79, major, minor, et, em, f0, f1]

/-- **Version gate.** A stream with the magic, a known geometry type and method, and a major version
    0 or above the supported one is rejected with `unknownVersion`, whatever follows the header. -/
theorem unknown_major_rejected (eb kd : DecOpts → DecM Geometry) (opts : DecOpts) (major minor et em f0 f1 : Nat) (rest : Bytes)
    (het : et < 2) (hem : em ≤ 1)
    (hv : major < 1 ∨ major > (if et = 1 then Generated.kDracoMeshBitstreamVersionMajor.toNat
                                else Generated.kDracoPointCloudBitstreamVersionMajor.toNat)) :
    (decodeStreamWith eb kd opts { rest := headerBytes major minor et em f0 f1 ++ rest }).1 = none ∧
    (decodeStreamWith eb kd opts { rest := headerBytes major minor et em f0 f1 ++ rest }).2.status = .unknownVersion := by
  have hv' : major = 0 ∨ (if et = 1 then Generated.kDracoMeshBitstreamVersionMajor.toNat
      else Generated.kDracoPointCloudBitstreamVersionMajor.toNat) < major := by
    rcases hv with h | h
    · left; omega
    · right; exact h
  simp [headerBytes, decodeStreamWith, decodeHeader, bind, DecM.andThen, DecM.bytes, DecM.lift, readBytes5, readLE2,
    DecM.require, DecM.ret, DecM.rdU8, DecM.rdU16, readU8, het, hem, hv', DecM.failWith, pure]

/-- … and the same for a minor version above the supported one of the newest major version -/
theorem unknown_minor_rejected (eb kd : DecOpts → DecM Geometry) (opts : DecOpts) (minor et em f0 f1 : Nat) (rest : Bytes)
    (het : et < 2) (hem : em ≤ 1)
    (hv : minor > (if et = 1 then Generated.kDracoMeshBitstreamVersionMinor.toNat
                    else Generated.kDracoPointCloudBitstreamVersionMinor.toNat)) :
    let major := if et = 1 then Generated.kDracoMeshBitstreamVersionMajor.toNat
                 else Generated.kDracoPointCloudBitstreamVersionMajor.toNat
    (decodeStreamWith eb kd opts { rest := headerBytes major minor et em f0 f1 ++ rest }).2.status = .unknownVersion := by
  intro major
  have hm : 1 ≤ major := by
    simp only [major]; split <;> decide
  have hm1 : major = (if et = 1 then Generated.kDracoMeshBitstreamVersionMajor.toNat
      else Generated.kDracoPointCloudBitstreamVersionMajor.toNat) := rfl
  have hv' : (if et = 1 then Generated.kDracoMeshBitstreamVersionMinor.toNat
      else Generated.kDracoPointCloudBitstreamVersionMinor.toNat) < minor := hv
  simp [headerBytes, decodeStreamWith, decodeHeader, bind, DecM.andThen, DecM.bytes, DecM.lift, readBytes5, readLE2,
    DecM.require, DecM.ret, DecM.rdU8, DecM.rdU16, readU8, het, hem, ← hm1, hv', DecM.failWith, pure]

/-! ### termination: no fuel-driven loop of the decoding paths runs out of fuel -/

/-- metadata nesting (`MetadataDecoder::DecodeMetadata`): the fuel `kMaxSubmetadataLevel + 3` used by
    the decoder gives the same result as any larger amount — the level check stops the descent first -/
theorem metadata_nesting_fuel_sufficient (allowEmpty : Bool) (extra : Nat) :
    decodeNode allowEmpty (kMaxSubmetadataLevel + 3 + extra) false 0 =
    decodeNode allowEmpty (kMaxSubmetadataLevel + 3) false 0 :=
  decodeNode_fuel allowEmpty _ _ false 0 (by omega) (by omega)
    (by simp only [Bool.false_eq_true, if_false]; omega) (by simp only [Bool.false_eq_true, if_false]; omega)

/-- probability table of `RAnsSymbolDecoder::Create`: fuel `num_symbols_` is never exhausted -/
theorem symbol_table_fuel_sufficient (n : Nat) (acc : List Nat) (bs : Bytes) :
    decTableGo (n + 1) n acc bs = decTableGo n n acc bs :=
  decTableGo_fuel n n acc bs (Nat.le_refl _)

/-- raw value groups: with fuel `bs.length + 1` every whole group is produced -/
theorem le_groups_fuel_sufficient (n k : Nat) (hn : 0 < n) (bs : Bytes) (hb : bs.length = k * n) :
    (leGroups n bs).length = k := leGroups_length n k hn bs hb

/-- delta decoding: with fuel `corr.length + 1` every entry is produced -/
theorem delta_decode_fuel_sufficient (dec : List Int → List Int → List Int) (nc k : Nat) (hnc : 0 < nc)
    (hdec : ∀ p c, p.length = nc → c.length = nc → (dec p c).length = nc)
    (corr : List Int) (hc : corr.length = k * nc) : (deltaDecode dec nc corr).length = k * nc :=
  deltaDecode_length dec nc k hnc hdec corr hc

/-! ### non-vacuity -/

section
set_option maxRecDepth 8000
open DecM
/-- both outcomes of `decode_returns_status` occur: the mesh of C03 is accepted with status ok … -/
example : ∃ r s', decodeGeometrySeq {} { rest := C03.meshStream } = (some r, s') ∧ s'.status = .ok := by
  simp +decide [C03.meshStream, decodeGeometrySeq, decodeStreamWith, decodeSequentialAttributesV, decodeHeader, decodeSeqConnectivity, decodePointAttributesSeq,
    decodeSequentialAttributes, decodeAttDescs, bind, DecM.andThen, DecM.version, DecM.setVersion, DecM.varint, DecM.lift,
    decVarint, decVarintAux, varintMaxDepth, bsVersion, DecM.require, DecM.ret, DecM.remaining, DecM.alloc, DecM.declare,
    replicateM', mapM', rdU8, rdU16, rdU32, readU8, readLE, leValue, pure, DecM.bytes, readBytes, dataTypeLength,
    AttDesc.toAttribute, Generated.geometryAttribute_NAMED_ATTRIBUTES_COUNT, Generated.DT_TYPES_COUNT, triples]
end

/-- … and a version-3.0 mesh header is rejected with `unknownVersion` -/
example : (decodeGeometry {} { rest := headerBytes 3 0 1 0 0 0 ++ [1, 2, 3] }).2.status = .unknownVersion :=
  (unknown_major_rejected _ _ {} 3 0 1 0 0 0 [1, 2, 3] (by decide) (by decide) (by decide)).2

example : IsBytes C03.pcStream := by unfold IsBytes C03.pcStream; decide

end Draco.C02
