import DracoProofs.EbBasic
import DracoProofs.EbEncCoders
import DracoProofs.EbEncPredict
import DracoProofs.EbLayer
import DracoProofs.EbIntSqrt
import DracoProofs.EbCTIso
import DracoProofs.EbHyps
import DracoProofs.EbChain
import DracoProofs.EbSeams
import DracoProofs.EbCreateProps
import DracoProofs.EbAttViews
import DracoProofs.EbRoundtripExample
import DracoProofs.EbConnNoOpp
import DracoProofs.EbFinal3
import DracoProofs.EbSplitFreeLink
import DracoProofs.EbFinal6
import DracoProofs.EbFinal7
import DracoProofs.EbNoSLink
import DracoProofs.EbTraceS4
import DracoProofs.EbConnGlueS2
import DracoProofs.EbWithSLink
import DracoProofs.EbStartFaceCount
import DracoProofs.EbCTIsoComplete
/-
  C01 (staging) — facts about the Edgebreaker mesh decoder model (DracoModel/Eb*.lean).
  The model is tied to the real decoder by the correspondence of C01 (tools/props/ebcases.py);
  no claim is made here that the Edgebreaker traversal itself is correct.  Proved:

  * `eb_decode_ok_valid_partial`: the part of C03-validity that the decoder *checks* while it
    builds the point → value map of an attribute (`UpdatePointToAttributeIndexMapping`): when
    that step succeeds, every corner of every face refers to a point below `numPoints`, the map
    has one entry per point and every entry is below `numPoints` (none stays invalid: checked by the
    decoder since the `fix:` commit dcc9947).
  * corner arithmetic used by every table operation (`Next`/`Previous` are mutually inverse,
    stay inside the face, `Next³ = id`).
  * the standard traversal decoder yields only the five topology symbols, ≤ 3 bits each.
  * `IntSqrt` is the floor square root of every 64-bit argument (`intSqrt_floor`).
-/
namespace Draco.C01Eb
open Draco Draco.Eb

/-- `UpdatePointToAttributeIndexMapping` succeeded ⇒ faces and map entries are in range (no entry
    stays invalid since the `fix:` commit dcc9947). -/
theorem eb_decode_ok_valid_partial (t : TView) (faces : Array Nat) (np : Nat) (v2d m : Array Nat)
    (h : pointToValueMap t faces np v2d = .ok m) :
    m.size = np ∧
    (∀ p (hp : p < m.size), m[p] < np) ∧
    (∀ k, k < 3 * t.numFaces → ∃ hk : k < faces.size, faces[k] < np) :=
  pointToValueMap_ok h

/-- non-vacuity: one triangle, identity vertex → value map -/
example :
    pointToValueMap { c2v := #[0, 1, 2], opp := #[inv, inv, inv], seam := #[], lm := #[0, 1, 2],
                      isAtt := false, numFaces := 1 } #[0, 1, 2] 3 #[2, 0, 1] = .ok #[2, 0, 1] := by
  have h : (((Array.replicate 3 4294967295).setIfInBounds 0 2).setIfInBounds 1 0).setIfInBounds 2 1 = #[2, 0, 1] := by
    decide
  simp +decide [h, pointToValueMap, pointToValueLoop, pointToValueStep, rd, TView.vertex, bind, Except.bind, pure,
    Except.pure, raise, inv]

/-- a face index beyond the number of points is rejected -/
example :
    pointToValueMap { c2v := #[0, 1, 2], opp := #[inv, inv, inv], seam := #[], lm := #[0, 1, 2],
                      isAtt := false, numFaces := 1 } #[0, 1, 7] 3 #[2, 0, 1] = .error .fail := by
  simp +decide [pointToValueMap, pointToValueLoop, pointToValueStep, rd, TView.vertex, bind, Except.bind, pure,
    Except.pure, raise, inv, throw, throwThe, MonadExceptOf.throw]

/-- `Previous(Next(c)) = c` -/
theorem corner_prev_next (c : Nat) (h : c < inv) : Eb.prevC (Eb.nextC c) = c := Eb.prevC_nextC c h
/-- `Next(Previous(c)) = c` -/
theorem corner_next_prev (c : Nat) (h : c < inv) : Eb.nextC (Eb.prevC c) = c := Eb.nextC_prevC c h
/-- `Next(Next(Next(c))) = c` -/
theorem corner_next_three (c : Nat) (h : c < inv) : Eb.nextC (Eb.nextC (Eb.nextC c)) = c := Eb.nextC_three c h
/-- `Next` and `Previous` stay in the face `c / 3` -/
theorem corner_same_face (c : Nat) (h : c ≠ inv) : Eb.nextC c / 3 = c / 3 ∧ Eb.prevC c / 3 = c / 3 :=
  ⟨Eb.nextC_face c h, Eb.prevC_face c h⟩

example : Eb.prevC (Eb.nextC 5) = 5 ∧ Eb.nextC 5 = 3 ∧ Eb.nextC (Eb.nextC (Eb.nextC 4)) = 4 := by decide

/-- the invalid corner is a fixed point of both (the C++ returns the argument) -/
theorem corner_invalid_fixed : Eb.nextC inv = inv ∧ Eb.prevC inv = inv := by decide

/-- `MeshEdgebreakerTraversalDecoder::DecodeSymbol` returns one of TOPOLOGY_C/S/L/R/E (the "unknown
    symbol" exit of the connectivity loop is dead for the standard traversal) and consumes at most
    three bits, also past the end of the data -/
theorem eb_standard_symbol_spec (r : BitReader) :
    (decodeSymbolStd r).1 ∈ [topoC, topoS, topoL, topoR, topoE] ∧
    (decodeSymbolStd r).2.decoded ≤ r.decoded + 3 := decodeSymbolStd_spec r

example : (decodeSymbolStd (BitReader.start [7])).1 = topoE ∧ (decodeSymbolStd (BitReader.start [])).1 = topoC
    ∧ (decodeSymbolStd (BitReader.start [5])).1 = topoR := by decide

set_option maxRecDepth 20000 in
/-- `IntSqrt` is the floor square root for every argument below 200 -/
theorem intSqrt_floor_small : ∀ n < 200, intSqrt n ^ 2 ≤ n ∧ n < (intSqrt n + 1) ^ 2 := by
  decide

/-- `IntSqrt` (the integer Newton iteration of the tex-coords predictor) is the floor square root of every
    `uint64_t` argument -/
theorem intSqrt_floor (n : Nat) (h : n < 2 ^ 64) : intSqrt n ^ 2 ≤ n ∧ n < (intSqrt n + 1) ^ 2 :=
  intSqrt_correct n h

example : intSqrt 1000000 = 1000 ∧ intSqrt 999999 = 999 ∧ intSqrt (2 ^ 64 - 1) = 2 ^ 32 - 1 := by
  decide


/-! ## Edgebreaker ENCODER model (DracoModel/EbEnc*.lean) against the decoder model

  The encoder model is tied BYTE FOR BYTE to the real encoder (`tools/props/ebenc_cases.py`, driver op
  `ebenc`); on every case the op also evaluates `rt-ok` (the model decoder applied to the model encoder's
  stream satisfies `Spec.checkCore .edgebreaker`), `iso-ok` (`EbEnc.ctIso`, the decidable predicate CTIso) and
  `counts-ok`.  Proved below — for the functions of the two models themselves:

  (a) the side coders of the connectivity: standard traversal symbols, every `RAnsBitEncoder` buffer (start
      faces, attribute seams, normal flips, tex-coord orientations, crease flags), the topology split event
      table, one valence context;
  (b) toward `eb_roundtrip_conditional` (IF CTIso THEN the decoded geometry satisfies RoundTripOK):
      * the prediction layer on the SAME mesh data — the decoder loops invert the encoder loops for delta coding
        (wrap transform), delta coding of normals (canonicalized octahedron transform), PARALLELOGRAM,
        CONSTRAINED MULTI-PARALLELOGRAM (every choice of crease flags), TEX-COORDS PORTABLE (`IntSqrt` correct
        for every 64-bit argument: `intSqrt_floor`) and GEOMETRIC NORMAL prediction, whenever the encoder loop
        succeeds;
      * `eb_prediction_layer_roundtrip`: the whole attribute value block (scheme bytes, symbol / raw coded
        corrections, crease / orientation / flip bit buffers, wrap / octahedron transform data) of every scheme
        is read back by `decodeIntegerValuesEb`, which consumes exactly the block;
      * `eb_value_block_conditional`: encoder and decoder each on their OWN mesh data — IF the executable checker
        `valueBlockHyps` (block invariance under the change of mesh data, the decoder's parent attribute, ranges,
        counts) reports nothing THEN the block is read back; the op evaluates the checker on every block
        (`hyp-ok`);
      * `eb_traversal_equivariant`, `eb_prediction_equivariant`, `eb_value_block_conditional_iso`: the depth-first and
        prediction-degree traversers visit corresponding corners on isomorphic views; the value block does not depend
        on which of two isomorphic mesh data the encoder runs on; hence from the isomorphism of the VIEWS
        (`tvIso` checked; for the base table it follows from CTIso: `tviso_of_ctiso`) the decoder on its own
        sequence reads back the block the encoder wrote on its own sequence;
      * `eb_seams_correspond`, `eb_seam_flags_correspond`, `eb_att_views_iso`: from CTIso and the bit buffers to the
        decoder's seam flags, and from there (equivariance of `RecomputeVertices`) to the isomorphism of the
        ATTRIBUTE views; `eb_base_view_structural`: `OppInvol` / `Hedge` from `CornerTable.create`;
      * `eb_roundtrip_conditional_partial`: the STREAM-LEVEL conditional round trip (both decodes consume exactly the
        stream, RoundTripOK accepts) from the connectivity link, decoder-side structural facts, value conditions, the
        row correspondence and traversal coverage — with a fully discharged instance on a one-triangle stream;
      * `eb_ctiso_sound`: the Boolean `ctIso` the op evaluates implies the Prop-level isomorphism `CTIso`.
      In the proof library, feeding the hypotheses of `eb_roundtrip_conditional_partial` (follow-ups 3 and 4 of
      notes/ebenc.md): `assign_points_correspond` (`assignPoints_consistent`, `posAgree_of_setup`: the decoder's
      point ids realise the encoder's corner → attribute value relation; the formerly checked hypothesis
      `decParent` follows from the view isomorphism), the row correspondence of every attribute kind
      (`row_of_item_kind0…3`), `values_refine_vertices`, the attribute section as a whole (`runs_decodeAttributes`,
      `planOK_of_setup`, `eb_stream_decodes`) and the step from the portable values to `Spec.checkCore`
      (`checkCore_edgebreaker_of_faces`, `faceCorr_of_rows`).
      Still missing for the unconditional implication (evaluated per case — `iso-ok`, `coverage`, `hyp-ok`,
      `rt-ok` —, not proved): the connectivity round trip itself (that the decoder builds a table with `ctIso`
      from the encoder's symbols: hypotheses `hconn` / `hnf`; proved on one concrete stream,
      DracoProofs/EbConnExample.lean) and traversal coverage (`hcover`: `processed.size = num_faces −
      NumDegeneratedFaces`).
  (c) `eb_encoded_counts_partial`: under CTIso the decoder's face count is the number of faces the encoder
      processed; that this is `num_faces − NumDegeneratedFaces` (what the encoder reports) is the coverage fact
      above (`encodeConnectivity_faces` in DracoProofs/EbEncCounts.lean proves `≤`, with equality iff coverage);
      the statement about points is split into DracoProps/C09Eb.lean (`eb_decoded_points_fans`,
      `eb_encoded_points_fans`) and DracoProofs/EbCountsIso.lean (`eb_encoded_points_eq_decoded`, all links as
      hypotheses); both counts are also evaluated per case (`counts-ok`).
-/

open Draco.EbEnc in
/-- (a) **standard traversal symbols**: written in reverse by `EncodeTraversalSymbols`, read back in
    decoding order by `symbols.size` calls of `DecodeSymbol`; the stored size is the number of bytes of the
    bit sequence (what `EndBitDecoding` skips) -/
theorem eb_standard_symbols_roundtrip (symbols : Array Nat) (rest : Bytes)
    (hs : ∀ s ∈ symbols.toList, IsTopo s)
    (hlen : ((traversalBits symbols).length + 7) / 8 < 2 ^ 64) :
    ∃ body : Bytes,
      readBitRegionSize false (encodeTraversalSymbols symbols ++ rest) = some (body.length, body ++ rest) ∧
      body.length = ((traversalBits symbols).length + 7) / 8 ∧
      (readStdSymbols symbols.size (BitReader.start (body ++ rest))).1 = symbols.toList.reverse ∧
      (readStdSymbols symbols.size (BitReader.start (body ++ rest))).2.decoded = (traversalBits symbols).length :=
  standard_symbols_roundtrip symbols rest hs hlen

open Draco.EbEnc in
/-- non-vacuity: C, R, E, S written, read back as S, E, R, C -/
example : ∃ body : Bytes,
    readBitRegionSize false (encodeTraversalSymbols #[0, 5, 7, 1] ++ [255]) = some (body.length, body ++ [255]) ∧
    body.length = 2 ∧
    (readStdSymbols 4 (BitReader.start (body ++ [255]))).1 = [1, 7, 5, 0] ∧
    (readStdSymbols 4 (BitReader.start (body ++ [255]))).2.decoded = 10 :=
  eb_standard_symbols_roundtrip #[0, 5, 7, 1] [255] (by decide) (by decide)

open Draco.EbEnc in
/-- (a) **bit buffers** (start faces, seams of every attribute, normal flips, tex-coord orientations, crease
    flags): `StartEncoding`, `EncodeBit*`, `EndEncoding` is opened by `StartDecoding`, which consumes exactly the
    written bytes, and `DecodeNextBit` delivers the bits in order — for every value of `zero_prob_raw` -/
theorem eb_bit_buffer_roundtrip (ch : ConnChoices) (bits : List Bool) (hlen : bits.length + 3 < 2 ^ 32)
    (rest : Bytes) :
    ∃ d, ransBitStart false (finishBits ch (encodeBits bits) ++ rest) = some (d, rest) ∧
      Yields RAnsBitDec.nextBit d bits :=
  bit_buffer_roundtrip ch bits hlen rest

open Draco.EbEnc in
example : ∃ d, ransBitStart false (finishBits ⟨fun n0 tot => (512 * n0 + tot) / (2 * tot), ProbOracle.exact, fun _ => .tagged⟩
      (encodeBits [true, false, false, true]) ++ [7]) = some (d, [7]) ∧
    Yields RAnsBitDec.nextBit d [true, false, false, true] :=
  eb_bit_buffer_roundtrip _ _ (by decide) _

open Draco.EbEnc in
/-- (a) **topology split events**: `EncodeSplitData` → `DecodeHoleAndTopologySplitEvents` (bitstream 2.2)
    returns the events last one first (the order the decoder consumes them in) and consumes exactly the
    table.  `SplitsOK`: source ids non-decreasing and < 2^32, split id ≤ source id, edge 0/1. -/
theorem eb_split_events_roundtrip (splits : List TopoSplit) (numFaces : Nat) (hok : SplitsOK 0 splits)
    (hn : splits.length ≤ numFaces) (hlen : splits.length < 2 ^ 32) :
    Runs (decodeTopologySplits 514 numFaces) 514 (encodeSplitData splits.toArray) splits.reverse 514 :=
  split_events_runs splits numFaces hok hn hlen

open Draco.EbEnc in
example : Runs (decodeTopologySplits 514 9) 514 (encodeSplitData #[⟨3, 1, 1⟩, ⟨3, 0, 0⟩, ⟨8, 5, 1⟩])
    [⟨8, 5, 1⟩, ⟨3, 0, 0⟩, ⟨3, 1, 1⟩] 514 :=
  eb_split_events_roundtrip [⟨3, 1, 1⟩, ⟨3, 0, 0⟩, ⟨8, 5, 1⟩] 9 (by decide) (by decide) (by decide)

open Draco.EbEnc in
/-- (a) **one valence context**: size varint + `EncodeSymbols(…, 1, nullptr, …)` is read back by
    `DecodeVarint` + `DecodeSymbols(size, 1, …)`, for either symbol scheme and any oracle -/
theorem eb_valence_context_roundtrip (ch : ConnChoices) (i : Nat) (syms : List Nat) (bs rest : Bytes)
    (hlen : syms.length < 2 ^ 32)
    (h : encodeSymbolsWith ch.oracle (ch.ctxScheme i) 7 1 syms = some bs) :
    decVarint 32 (encVarint (syms.length % 2 ^ 32) ++ (bs ++ rest)) = some (syms.length, bs ++ rest) ∧
    decodeSymbolsV false syms.length 1 (bs ++ rest) = some (syms, rest) :=
  valence_context_roundtrip ch i syms bs rest hlen h

example : decodeSymbolsV false 5 1 ([1, 2, 5, 205, 12, 3, 205, 12, 3, 105, 38, 3, 53, 92, 157] ++ [9]) =
    some ([4, 2, 4, 0, 4], [9]) := by
  have e : encodeSymbolsWith ProbOracle.exact .raw 7 1 [4, 2, 4, 0, 4] =
      some [1, 2, 5, 205, 12, 3, 205, 12, 3, 105, 38, 3, 53, 92, 157] := by
    decide +kernel
  exact (eb_valence_context_roundtrip ⟨fun _ _ => 128, ProbOracle.exact, fun _ => .raw⟩ 0 [4, 2, 4, 0, 4] _ [9]
    (by decide) e).2

open Draco.EbEnc in
/-- (b) **delta prediction, wrap transform**: decoder loop ∘ encoder loop = identity on value arrays of
    `n ≥ 1` entries × `nc ≥ 1` components inside the range the transform was initialised with -/
theorem eb_prediction_delta_roundtrip (wt : WrapT) (lo hi : Int) (nc n : Nat) (data : Array Int)
    (hnc : 0 < nc) (hn : 0 < n) (hsz : data.size = n * nc)
    (hinit : Wrap.init lo hi = some wt) (hlo : -2 ^ 31 ≤ lo) (hhi : hi < 2 ^ 31)
    (hrange : ∀ i (h : i < data.size), lo ≤ data[i] ∧ data[i] ≤ hi) :
    ∃ corr, deltaEncodeWrap wt nc data = .ok corr ∧ deltaDecodeWrap wt nc corr = .ok data :=
  delta_wrap_roundtrip wt lo hi nc n data hnc hn hsz hinit hlo hhi hrange

open Draco.EbEnc in
example : ∃ corr, deltaEncodeWrap ⟨-5, 9, 15, 7, -7⟩ 2 #[3, -5, 9, 0, -1, 4] = .ok corr ∧
    deltaDecodeWrap ⟨-5, 9, 15, 7, -7⟩ 2 corr = .ok #[3, -5, 9, 0, -1, 4] :=
  eb_prediction_delta_roundtrip _ (-5) 9 2 3 _ (by decide) (by decide) (by decide) (by decide) (by decide) (by decide)
    (by decide)

open Draco.EbEnc in
/-- (b) **delta prediction of normals** (canonicalized octahedron transform): the decoder's `deltaDecode`
    on the corrections of `deltaEncodeOcta`, for entries that are canonical grid points -/
theorem eb_prediction_octahedron_delta_roundtrip (q : Nat) (t : OctaT) (hq : Octa.init q = some t) (n : Nat)
    (data : Array Int) (hlen : data.size = n * 2)
    (hent : ∀ e ∈ SeqEnc.entriesOf 2 data.size data.toList, OctaEntry t e) :
    deltaDecode (octaDecEntry t) 2 (deltaEncodeOcta t data).toList = data.toList :=
  delta_octa_roundtrip q t hq n data hlen hent

open Draco.EbEnc in
example : deltaDecode (octaDecEntry ⟨4, 15, 14, 7⟩) 2 (deltaEncodeOcta ⟨4, 15, 14, 7⟩ #[7, 7, 3, 5, 10, 4]).toList =
    [7, 7, 3, 5, 10, 4] :=
  eb_prediction_octahedron_delta_roundtrip 4 _ (by decide) 3 #[7, 7, 3, 5, 10, 4] rfl (by
    intro e he
    have : e ∈ [[7, 7], [3, 5], [10, 4]] := by simpa [SeqEnc.entriesOf] using he
    simp only [List.mem_cons, List.mem_nil_iff, or_false] at this
    rcases this with rfl | rfl | rfl
    · exact ⟨7, 7, rfl, by decide, by decide⟩
    · exact ⟨3, 5, rfl, by decide, by decide⟩
    · exact ⟨10, 4, rfl, by decide, by decide⟩)

open Draco.EbEnc in
/-- (b) **parallelogram prediction**: on the same mesh data (corner table view, data-to-corner map,
    vertex-to-data map), whenever the encoder loop returns corrections the decoder loop returns the values
    (and a count of parallelogram-predicted entries).  Values inside the range of the wrap transform. -/
theorem eb_prediction_parallelogram_roundtrip (md : MeshData) (wt : WrapT) (lo hi : Int) (nc n : Nat)
    (data corr : Array Int)
    (hnc : 0 < nc) (hn : 0 < n) (hd : md.d2c.size = n) (hsz : data.size = n * nc)
    (hinit : Wrap.init lo hi = some wt) (hlo : -2 ^ 31 ≤ lo) (hhi : hi < 2 ^ 31)
    (hrange : ∀ i (h : i < data.size), lo ≤ data[i] ∧ data[i] ≤ hi)
    (henc : parallelogramEncode md wt nc data = .ok corr) :
    ∃ used, parallelogramDecode md wt nc corr = .ok (data, used) :=
  parallelogram_roundtrip_of_encode md wt lo hi nc n data corr hnc hn hd hsz hinit hlo hhi hrange henc


/-- two triangles `(0,1,2)`, `(2,1,3)`; values are coded in the order of the corners 1, 2, 0, 5; the last entry
    has a parallelogram -/
def exMesh : MeshData :=
  { t := { c2v := #[0, 1, 2, 2, 1, 3], opp := #[5, inv, inv, inv, inv, 0], seam := #[], lm := #[0, 1, 2, 5],
           isAtt := false, numFaces := 2 },
    d2c := #[1, 2, 0, 5], v2d := #[2, 0, 1, 3] }

open Draco.EbEnc in
set_option maxRecDepth 4000 in
theorem exParallelogramEnc :
    parallelogramEncode exMesh ⟨0, 20, 21, 10, -10⟩ 1 #[3, 7, 12, 16] = .ok #[3, 4, 5, -5] := by
  simp [parallelogramEncode, encodeBackward, parallelogramCorrAt, parallelogramPredictionE, checkParallelogramEntries,
    corrWrap, parallelogramPrediction, exMesh, TView.opposite, TView.vertex, rd, rdI, wrI, inv, Eb.nextC, Eb.prevC,
    Std.Legacy.Range.forIn_eq_forIn_range', Std.Legacy.Range.size, bind, Except.bind, pure, Except.pure, wrap32,
    Wrap.encCorr, Wrap.clamp, List.range'_succ]
  decide

open Draco.EbEnc in
/-- non-vacuity: the last entry is predicted by a parallelogram (3 + 7 − 12, clamped to 0, correction wrapped) -/
example : ∃ used, parallelogramDecode exMesh ⟨0, 20, 21, 10, -10⟩ 1 #[3, 4, 5, -5] = .ok (#[3, 7, 12, 16], used) :=
  eb_prediction_parallelogram_roundtrip exMesh ⟨0, 20, 21, 10, -10⟩ 0 20 1 4 #[3, 7, 12, 16] _ (by decide) (by decide)
    (by decide) (by decide) (by decide) (by decide) (by decide) (by decide) exParallelogramEnc

open Draco.EbEnc in
/-- (b) **geometric normal prediction**: whenever the encoder loop succeeds, the decoder loop — given the
    encoder's corrections and a bit decoder that yields the encoder's flip bits (`eb_bit_buffer_roundtrip`)
    — returns the octahedral coordinates (entries = canonical grid points, what
    `AttributeOctahedronTransform` produces) -/
theorem eb_prediction_geometric_normal_roundtrip (md : MeshData) (ps : PosSource) (q : Nat) (ot : OctaT)
    (hq : Octa.init q = some ot) (data : Array Int) (n : Nat) (hd : md.d2c.size = n) (hsz : data.size = 2 * n)
    (hent : ∀ p, p < n → Octa.inGrid ot (data.getD (2 * p) 0, data.getD (2 * p + 1) 0) ∧
      Octa.canonical ot (data.getD (2 * p) 0, data.getD (2 * p + 1) 0))
    (corr : Array Int) (flips : Array Bool) (henc : geometricNormalEncode md ps ot data = .ok (corr, flips))
    (fd : RAnsBitDec) (hfd : Yields RAnsBitDec.nextBit fd flips.toList) :
    ∃ k, geometricNormalDecode md ps ot (Leaf.octaDec ot) false fd corr = .ok (data, k) :=
  geometric_normal_roundtrip md ps q ot hq data n hd hsz hent corr flips henc fd hfd


/-- one triangle in the plane z = 0 (positions (0,0,0), (4,0,0), (0,4,0)), 4 bit octahedral coordinates -/
def exTriangle : MeshData :=
  { t := { c2v := #[0, 1, 2], opp := #[inv, inv, inv], seam := #[], lm := #[0, 1, 2], isAtt := false, numFaces := 1 },
    d2c := #[1, 2, 0], v2d := #[2, 0, 1] }
def exPositions : PosSource := { pointIds := #[1, 2, 0], map := #[0, 1, 2], values := #[0, 0, 0, 4, 0, 0, 0, 4, 0] }
def exOcta : OctaT := { q := 4, maxQ := 15, maxV := 14, center := 7 }

open Draco.EbEnc in
set_option maxRecDepth 8000 in
theorem exNormalEnc :
    geometricNormalEncode exTriangle exPositions exOcta #[7, 7, 3, 5, 10, 4] = .ok (#[7, 0, 5, 4, 4, 12], #[true, true, true]) := by
  simp [geometricNormalEncode, normalPredict, normalCorrection, exTriangle, exPositions, exOcta, PosSource.get, TView.opposite, TView.vertex,
    TView.swingLeft, TView.swingRight, rd, rdI, wrI, inv, Eb.nextC, Eb.prevC,
    Std.Legacy.Range.forIn_eq_forIn_range', Std.Legacy.Range.size, bind, Except.bind, pure, Except.pure, wrap32,
    List.range'_succ, Octa.canonicalizeIntVec, Octa.intVecToCoords, Octa.encCorr, Octa.modMax, Octa.makePositive,
    Octa.canonicalize, Octa.isInDiamond, Octa.invertDiamond, Octa.rotationCount, Octa.rotatePoint, Octa.isInBottomLeft,
    absSum3, Eb.iabs, u64, s64, toUnsigned, toSigned, Draco.iabs, u32, s32, tdiv2]
  all_goals decide

open Draco.EbEnc in
/-- non-vacuity: three normals against the face normal (0,0,1) · 16, all coded with the flipped prediction; the
    bit decoder is the one `eb_bit_buffer_roundtrip` provides for the flip bits -/
example : ∃ fd k, geometricNormalDecode exTriangle exPositions exOcta (Leaf.octaDec exOcta) false fd #[7, 0, 5, 4, 4, 12] =
    .ok (#[7, 7, 3, 5, 10, 4], k) := by
  obtain ⟨d, _, hy⟩ := eb_bit_buffer_roundtrip ⟨fun n0 tot => (512 * n0 + tot) / (2 * tot), ProbOracle.exact, fun _ => .tagged⟩
    [true, true, true] (by decide) []
  obtain ⟨k, hk⟩ := eb_prediction_geometric_normal_roundtrip exTriangle exPositions 4 exOcta (by decide) #[7, 7, 3, 5, 10, 4] 3 rfl rfl
    (by decide) _ _ exNormalEnc d hy
  exact ⟨d, k, hk⟩


open Draco.EbEnc in
/-- (b) **constrained multi-parallelogram prediction**: for every choice of crease flags the encoder may take
    (`crease`: what the entropy tracker decided), whenever the encoder loop succeeds the decoder loop — given the
    encoder's corrections and the encoder's flags in stream order (`creaseStreamOrder`, what
    `encodeCreaseFlags` writes: `encodeCreaseFlags_eq`) — returns the values -/
theorem eb_prediction_constrained_multi_roundtrip (md : MeshData) (wt : WrapT) (lo hi : Int) (nc n : Nat)
    (crease : Array (Array Bool)) (data corr : Array Int) (isCrease : Array (Array Bool))
    (hnc : 0 < nc) (hn : 0 < n) (hd : md.d2c.size = n) (hsz : data.size = n * nc)
    (hinit : Wrap.init lo hi = some wt) (hlo : -2 ^ 31 ≤ lo) (hhi : hi < 2 ^ 31)
    (hrange : ∀ i (h : i < data.size), lo ≤ data[i] ∧ data[i] ≤ hi)
    (henc : constrainedMultiEncode md wt nc crease data = .ok (corr, isCrease)) :
    ∃ maxPar, constrainedMultiDecode md wt nc (creaseStreamOrder isCrease) corr = .ok (data, maxPar) :=
  constrained_multi_roundtrip md wt lo hi nc n crease data corr isCrease hnc hn hd hsz hinit hlo hhi hrange henc

open Draco.EbEnc in
/-- non-vacuity: on `exMesh` with the choice "use the parallelogram of the last entry" (run `exCMEnc`) -/
example : ∃ maxPar, constrainedMultiDecode exMeshCM ⟨0, 20, 21, 10, -10⟩ 1
    (creaseStreamOrder #[#[false], #[], #[], #[]]) #[3, 4, 5, -5] = .ok (#[3, 7, 12, 16], maxPar) :=
  eb_prediction_constrained_multi_roundtrip exMeshCM ⟨0, 20, 21, 10, -10⟩ 0 20 1 4 #[#[false], #[], #[], #[]]
    #[3, 7, 12, 16] _ _ (by decide) (by decide) (by decide) (by decide) (by decide) (by decide) (by decide) (by decide)
    exCMEnc

open Draco.EbEnc in
/-- (b) **tex-coords (portable) prediction**: whenever the encoder loop succeeds, the decoder loop — given the
    encoder's corrections and orientation flags — returns the values.  (Both sides compute the same integer
    predictor, `IntSqrt` included; the encoder picks the orientation, the decoder follows the flag.) -/
theorem eb_prediction_tex_coords_roundtrip (md : MeshData) (ps : PosSource) (wt : WrapT) (lo hi : Int) (n : Nat)
    (data : Array Int) (hd : md.d2c.size = n) (hsz : data.size = n * 2)
    (hinit : Wrap.init lo hi = some wt) (hlo : -2 ^ 31 ≤ lo) (hhi : hi < 2 ^ 31)
    (hrange : ∀ i (h : i < data.size), lo ≤ data[i] ∧ data[i] ≤ hi)
    (corr : Array Int) (orient : Array Bool) (henc : texCoordsEncode md ps wt 2 data = .ok (corr, orient)) :
    ∃ used, texCoordsDecode md ps wt 2 orient corr = .ok (data, used) :=
  tex_coords_roundtrip md ps wt lo hi n data hd hsz hinit hlo hhi hrange corr orient henc

open Draco.EbEnc in
set_option maxRecDepth 16000 in
/-- the triangle of `exTriangle` with uv coordinates (0,0), (8,0), (1,7): the third entry is predicted from the
    positions (`IntSqrt 256`), orientation flag `false` -/
theorem exTexEnc : texCoordsEncode exTriangle exPositions ⟨0, 8, 9, 4, -4⟩ 2 #[0, 0, 8, 0, 1, 7] =
    .ok (#[0, 0, -1, 0, -3, 3], #[false]) := by
  simp [texCoordsEncode, texPredictEnc, exTriangle, exPositions, PosSource.get, TView.vertex,
    corrWrap, rd, rdI, wrI, inv, Eb.nextC, Eb.prevC, dot3, i64,
    Std.Legacy.Range.forIn_eq_forIn_range', Std.Legacy.Range.size, bind, Except.bind, pure, Except.pure, wrap32,
    List.range'_succ, Wrap.encCorr, Wrap.clamp, Eb.iabs, (by decide : intSqrt 256 = 16)]
  decide

open Draco.EbEnc in
/-- non-vacuity -/
example : ∃ used, texCoordsDecode exTriangle exPositions ⟨0, 8, 9, 4, -4⟩ 2 #[false] #[0, 0, -1, 0, -3, 3] =
    .ok (#[0, 0, 8, 0, 1, 7], used) :=
  eb_prediction_tex_coords_roundtrip exTriangle exPositions ⟨0, 8, 9, 4, -4⟩ 0 8 3 #[0, 0, 8, 0, 1, 7] rfl rfl
    (by decide) (by decide) (by decide) (by decide) _ _ exTexEnc

open Draco.EbEnc in
/-- (b) **the attribute value block of an Edgebreaker stream** (`SequentialIntegerAttributeEncoder::EncodeValues`
    with a mesh prediction scheme → `SequentialIntegerAttributeDecoder::DecodeValues`, bitstream 2.2): for EVERY
    scheme the encoder can select — none, difference, parallelogram, constrained multi-parallelogram, tex-coords
    portable with the wrap transform; difference and geometric normal with the canonicalized octahedron
    transform — and whatever choices it takes (entropy coder, crease flags, `zero_prob`), the decoder, given the
    same `MeshData` and the same parent attribute, reads the scheme bytes, the coded corrections (C08), the
    prediction data (bit buffers, transform data: C16) back, returns the portable values and stops exactly
    behind the block.  Hypotheses (each evaluated on every generated case by the op `ebenc`, `hyp-ok`):
    `hk` — the (encoder kind, scheme) pairs `createScheme` produces; `hpar` — the decoder's parent attribute is
    the encoder's; `hr` — portable values are int32; `hk3` — normals are canonical grid points with valid
    quantization bits; `hd`/`hcorners`/`hF` — one entry per data id, not more entries than corners, corner
    count below 2³¹; `hcrease` — (constrained multi-parallelogram) the decoder's `num_flags ≤ num_corners` check passes on the
    encoder's flags. -/
theorem eb_prediction_layer_roundtrip (ch : EbChoices) (o : SeqEnc.EncOpts) (attId kind nc numValues n attComponents : Nat)
    (scheme : PScheme) (md : MeshData) (pointIds : Array Nat) (parentE : Option ParentAtt) (parentD : Option Parent)
    (portable : Array Int) (sch' : PScheme) (bs : Bytes)
    (hnv : numValues ≠ 0) (hk : SchemeKindOK kind scheme) (hpar : ParentAgree parentE parentD)
    (hnc : 0 < nc) (hn : 0 < n) (hlen : portable.size = n * nc) (hd : md.d2c.size = n) (h32 : n * nc < 2 ^ 32)
    (hr : ∀ x ∈ portable.toList, -2 ^ 31 ≤ x ∧ x < 2 ^ 31)
    (hk3 : kind = 3 → NormalsOK o attId nc n portable)
    (hF : 3 * md.t.numFaces + 3 < 2 ^ 31) (hcorners : n ≤ 3 * md.t.numFaces)
    (hcrease : scheme = .constrainedMulti → CreaseCountOK ch attId nc md portable)
    (henc : encodeIntegerValuesEb ch o attId kind nc numValues scheme md pointIds parentE portable = .ok (sch', bs))
    (s : DSt) (extra : Bytes) (hs : s.rest = bs ++ extra) (hsv : s.version = 514) :
    ∃ s', decodeIntegerValuesEb kind n nc attComponents md pointIds parentD s =
      (some (portable, TransformData.none), s') ∧ s'.rest = extra :=
  let ⟨s', h1, h2, _⟩ := (runs_encodeIntegerValuesEb ch o attId kind nc numValues n attComponents scheme md pointIds
    parentE parentD portable sch' bs hnv hk hpar hnc hn hlen hd h32 hr hk3 hF hcorners hcrease henc).2.run s extra hs hsv
  ⟨s', h1, h2⟩

open Draco.EbEnc in
def exCh : EbChoices :=
  ⟨⟨fun n0 tot => (512 * n0 + tot) / (2 * tot), ProbOracle.exact, fun _ => .tagged⟩, fun _ => .tagged, fun _ => #[]⟩
open Draco.EbEnc in
/-- the position attribute of `exTriangle` as the encoder (portable attribute) and the decoder hold it -/
def exParentE : ParentAtt := ⟨1, 3, 9, #[0, 1, 2], #[0, 0, 0, 4, 0, 0, 0, 4, 0]⟩
def exParentD : Parent := ⟨3, #[0, 1, 2], #[0, 0, 0, 4, 0, 0, 0, 4, 0], true, #[], false⟩

open Draco.EbEnc in
set_option maxRecDepth 16000 in
/-- the value block of the uv attribute of `exTexEnc` (tex-coords prediction, raw value bytes) -/
theorem exTexBlock : encodeIntegerValuesEb exCh ({ builtin := false } : SeqEnc.EncOpts) 0 1 2 3 .texCoords exTriangle #[1, 2, 0]
    (some exParentE) #[0, 0, 8, 0, 1, 7] =
    .ok (.texCoords, [5, 1, 0, 1, 0, 0, 1, 0, 5, 6, 1, 0, 0, 0, 255, 1, 17, 0, 0, 0, 0, 8, 0, 0, 0]) := by
  have h1 : effectiveScheme .texCoords #[0, 0, 8, 0, 1, 7] = .texCoords := by rfl
  have h2 : encParentSource .texCoords #[1, 2, 0] (some exParentE) = .ok exPositions := by rfl
  have h3 : wrapInitOf #[0, 0, 8, 0, 1, 7] = some ⟨0, 8, 9, 4, -4⟩ := by decide
  unfold encodeIntegerValuesEb encodeSchemeBlock
  simp only [h1, h2, h3, exTexEnc, bind, Except.bind, pure, Except.pure]
  rfl

open Draco.EbEnc in
/-- non-vacuity: the decoder reads the 25 bytes of `exTexBlock` (method 5, wrap transform, raw corrections, one
    orientation bit in a rANS buffer, wrap bounds) back as the uv values, whatever follows (`[9]`) -/
example : ∃ s', decodeIntegerValuesEb 1 3 2 2 exTriangle #[1, 2, 0] (some exParentD)
      { rest := [5, 1, 0, 1, 0, 0, 1, 0, 5, 6, 1, 0, 0, 0, 255, 1, 17, 0, 0, 0, 0, 8, 0, 0, 0] ++ [9], version := 514 } =
      (some (#[0, 0, 8, 0, 1, 7], TransformData.none), s') ∧ s'.rest = [9] :=
  eb_prediction_layer_roundtrip exCh ({ builtin := false } : SeqEnc.EncOpts) 0 1 2 3 3 2 .texCoords exTriangle #[1, 2, 0] (some exParentE)
    (some exParentD) #[0, 0, 8, 0, 1, 7] _ _ (by decide) (by simp [SchemeKindOK])
    (fun p hp => ⟨exParentD, rfl, by cases hp; rfl, rfl, by cases hp; rfl, by cases hp; rfl⟩)
    (by decide) (by decide) rfl rfl (by decide) (by decide) (fun h => absurd h (by decide)) (by decide) (by decide)
    (fun h => by cases h)
    exTexBlock _ [9] rfl rfl

open Draco.EbEnc in
/-- (b) **conditional round trip of a value block, encoder and decoder each on their own mesh data**
    (`eb_roundtrip_conditional` at the level of one attribute value block): the encoder ran on its corner table
    (`b.md`, `b.pointIds`, `b.parent`: recorded in `Encoded.blocks`), the decoder works on the table it decoded
    (`mdD`, `pointIdsD`, `parentD`).  IF the executable checker `valueBlockHyps` reports no failing hypothesis —
    `blockInvariant` (the block the encoder writes does not change when the encoder's mesh data are replaced by
    the decoder's: what `CTIso` + `seams_correspond` + `traversal_equivariant` + equivariance of the predictions
    are to deliver), `decParent` (the decoder's position attribute shows, entry by entry, the positions the encoder
    predicted from: `assign_points_correspond` for the parent), `schemeKind`, `sizes`, `int32`, `normals`,
    `corners`, `creaseCount` — THEN the decoder reads the block back: portable values, exactly the block consumed.
    The op `ebenc` evaluates `valueBlockHyps` (and this conclusion) on every block of every generated case
    (`hyp-ok`), so no hypothesis is unchecked there. -/
theorem eb_value_block_conditional (ch : EbChoices) (o : SeqEnc.EncOpts) (b : ValueBlock) (n attComponents : Nat)
    (mdD : MeshData) (pointIdsD : Array Nat) (parentD : Option Parent)
    (hy : valueBlockHyps ch o b n mdD pointIdsD parentD = [])
    (henc : encodeIntegerValuesEb ch o b.attId b.kind b.nc b.numValues b.scheme b.md b.pointIds b.parent b.portable =
      .ok (b.outScheme, b.bytes))
    (s : DSt) (extra : Bytes) (hs : s.rest = b.bytes ++ extra) (hsv : s.version = 514) :
    ∃ s', decodeIntegerValuesEb b.kind n b.nc attComponents mdD pointIdsD parentD s =
      (some (b.portable, TransformData.none), s') ∧ s'.rest = extra :=
  let ⟨s', h1, h2, _⟩ := (value_block_checked ch o b n attComponents mdD pointIdsD parentD hy henc).run s extra hs hsv
  ⟨s', h1, h2⟩

open Draco.EbEnc in
/-- the value block of `exTexBlock` as the encoder records it -/
def exBlock : ValueBlock :=
  { ctrl := 0, attId := 0, kind := 1, nc := 2, numValues := 3, scheme := .texCoords, md := exTriangle,
    pointIds := #[1, 2, 0], parent := some exParentE, portable := #[0, 0, 8, 0, 1, 7], outScheme := .texCoords,
    bytes := [5, 1, 0, 1, 0, 0, 1, 0, 5, 6, 1, 0, 0, 0, 255, 1, 17, 0, 0, 0, 0, 8, 0, 0, 0] }

open Draco.EbEnc in
/-- the checker accepts it -/
theorem exBlockHyps : valueBlockHyps exCh ({ builtin := false } : SeqEnc.EncOpts) exBlock 3 exTriangle #[1, 2, 0]
    (some exParentD) = [] := by
  have h1 : effectiveScheme .texCoords #[0, 0, 8, 0, 1, 7] = .texCoords := by rfl
  have h2 : encParentSource .texCoords #[1, 2, 0] (some exParentE) = .ok exPositions := by rfl
  have hself : ∀ a : Eb.R Bytes, resEq a a = true := fun a => by cases a <;> simp [resEq]
  unfold valueBlockHyps
  simp only [exBlock, h1, h2, hself]
  rfl

open Draco.EbEnc in
/-- non-vacuity -/
example : ∃ s', decodeIntegerValuesEb 1 3 2 2 exTriangle #[1, 2, 0] (some exParentD)
      { rest := exBlock.bytes ++ [9], version := 514 } =
      (some (#[0, 0, 8, 0, 1, 7], TransformData.none), s') ∧ s'.rest = [9] :=
  eb_value_block_conditional exCh ({ builtin := false } : SeqEnc.EncOpts) exBlock 3 2 exTriangle #[1, 2, 0]
    (some exParentD) exBlockHyps exTexBlock _ [9] rfl rfl

open Draco.EbEnc in
/-- (b) **traversal equivariance** (`traversal_equivariant`): on isomorphic views (`TVIso`: corner map `φ` with
    `φ (3 i) = order[i]`, vertex map `ψ`) the decoder's depth-first traversal from every face and the encoder's
    traversal along `order` — both successful — visit corresponding corners in the same order: the entry → corner
    maps correspond under `φ`, every visited vertex has the same entry index on both sides, and the point id of an
    entry is the point of its corner.  (`traversal_equivariant_mpd`: the same for the prediction-degree traverser.) -/
theorem eb_traversal_equivariant {d e : TView} {φ ψ : Nat → Nat} {facesD facesE : Array Nat} (h : TVIso d e φ ψ)
    (order v2dInit : Array Nat) (v2dSize : Nat) (hsize : order.size = d.numFaces)
    (horder : ∀ i, i < d.numFaces → order[i]! = φ (3 * i)) (outD outE : SeqOut)
    (hD : depthFirst d facesD v2dSize = .ok outD) (hE : depthFirstOrder e facesE order v2dInit = .ok outE) :
    (outE.d2c.size = outD.d2c.size ∧
      ∀ p (hp : p < outD.d2c.size), outD.d2c[p] < 3 * d.numFaces ∧ outE.d2c[p]! = φ outD.d2c[p]) ∧
    (∀ p (hp : p < outD.d2c.size) v, d.vertex outD.d2c[p] = .ok v → outD.v2d[v]? = some p ∧ outE.v2d[ψ v]? = some p) :=
  let r := traversal_equivariant h order v2dInit v2dSize hsize horder outD outE hD hE
  ⟨r.1, r.2.1⟩

open Draco.EbEnc in
/-- (b) **the predictions are equivariant** (`encodeSchemeBlock_iso`): on isomorphic mesh data (`MDIso`) — the decoder's
    view having an involutive `Opposite` — the encoder writes the same value block, for every scheme -/
theorem eb_prediction_equivariant {d e : MeshData} {φ ψ : Nat → Nat} (h : MDIso d e φ ψ) (hinv : OppInvol d.t)
    (ch : EbChoices) (o : SeqEnc.EncOpts) (attId kind nc : Nat) (s : PScheme) (pos : PosSource) (portable : Array Int) :
    encodeSchemeBlock ch o attId kind nc s e pos portable = encodeSchemeBlock ch o attId kind nc s d pos portable :=
  encodeSchemeBlock_iso h hinv ch o attId kind nc s pos portable

open Draco.EbEnc in
/-- (b) **conditional round trip of a value block from the isomorphism of the VIEWS** (the chain `TVIso`
    —`traversal_mdIso`→ `MDIso` —`encodeSchemeBlock_iso`→ block invariance —`runs_valueBlock`→ decode): the encoder
    generated its sequence `seqE` on its view `b.md.t` along `processed` and wrote the block `b`; the decoder
    generated `seqD` on ITS view `viewD` from every face (same traverser).  IF the checker `valueBlockHypsIso`
    reports nothing — `tvIso` (the views are isomorphic under the corner map of `processed`: for the base table this
    is `CTIso` (`tviso_of_ctiso`), for an attribute table it additionally says that the decoded seams are the images of
    the encoder's seams, `seams_correspond`), `hedge` / `oppInvol` (the decoder's view is a consistent corner
    table), `decParent` (`assign_points_correspond` for the parent attribute), `schemeKind`, `sizes`, `int32`,
    `normals`, `corners`, `creaseCount` — THEN the decoder, on its own sequence, reads the block back.
    Neither block invariance nor the correspondence of the two sequences is a hypothesis any more.
    Evaluated by the op on every block of every case (`hyp-ok`). -/
theorem eb_value_block_conditional_iso (ch : EbChoices) (o : SeqEnc.EncOpts) (b : ValueBlock) (attComponents : Nat)
    (viewD : TView) (seqD seqE : SeqOut) (parentD : Option Parent) (processed psi back cback : Array Nat)
    (facesD facesE v2dInit : Array Nat) (v2dSize : Nat)
    (hy : valueBlockHypsIso ch o b viewD seqD parentD (phiOf processed) psi back cback = [])
    (hsize : processed.size = viewD.numFaces)
    (htrav : TraversalRuns viewD b.md.t facesD facesE processed v2dInit v2dSize seqD seqE)
    (hmd : b.md = ⟨b.md.t, seqE.d2c, seqE.v2d⟩) (hpid : b.pointIds = seqE.pointIds)
    (henc : encodeIntegerValuesEb ch o b.attId b.kind b.nc b.numValues b.scheme b.md b.pointIds b.parent b.portable =
      .ok (b.outScheme, b.bytes))
    (s : DSt) (extra : Bytes) (hs : s.rest = b.bytes ++ extra) (hsv : s.version = 514) :
    ∃ s', decodeIntegerValuesEb b.kind seqD.pointIds.size b.nc attComponents ⟨viewD, seqD.d2c, seqD.v2d⟩ seqD.pointIds
        parentD s = (some (b.portable, TransformData.none), s') ∧ s'.rest = extra :=
  let ⟨s', h1, h2, _⟩ := (value_block_checked_iso ch o b attComponents viewD seqD seqE parentD processed psi back cback
    facesD facesE v2dInit v2dSize hy hsize htrav hmd hpid henc).run s extra hs hsv
  ⟨s', h1, h2⟩

open Draco.EbEnc in
set_option maxRecDepth 100000 in
set_option maxHeartbeats 4000000 in
/-- the decoder's traversal of the triangle -/
theorem exTravD : depthFirst exTriangle.t #[0, 1, 2] 3 = .ok ⟨#[1, 2, 0], #[1, 2, 0], #[2, 0, 1]⟩ := by
  simp [depthFirst, dfStack, Eb.dfInner, visitVertex, onNewVertex, faceVisited, faceOfCorner, exTriangle, TView.vertex, TView.opposite, TView.rightCorner,
    TView.leftCorner, TView.isOnBoundary, TView.swingLeft, TView.numVertices, rd, wr, rdB, wrB, inv, Eb.nextC, Eb.prevC,
    Std.Legacy.Range.forIn_eq_forIn_range', Std.Legacy.Range.size, bind, Except.bind, pure, Except.pure, List.range'_succ]
  decide

open Draco.EbEnc in
set_option maxRecDepth 100000 in
set_option maxHeartbeats 4000000 in
/-- the encoder's traversal along `processed = [0]` -/
theorem exTravE : depthFirstOrder exTriangle.t #[0, 1, 2] #[0] #[inv, inv, inv] =
    .ok ⟨#[1, 2, 0], #[1, 2, 0], #[2, 0, 1]⟩ := by
  simp [depthFirstOrder, onNewVertex, faceVisited, faceOfCorner, exTriangle, TView.vertex, TView.opposite, TView.rightCorner,
    TView.leftCorner, TView.isOnBoundary, TView.swingLeft, TView.numVertices, rd, wr, rdB, wrB, inv, Eb.nextC, Eb.prevC,
    Std.Legacy.Range.forIn_eq_forIn_range', Std.Legacy.Range.size, bind, Except.bind, pure, Except.pure, List.range'_succ]

open Draco.EbEnc in
/-- the checker accepts the block of `exTexBlock` against the decoder's traversal -/
theorem exBlockHypsIso : valueBlockHypsIso exCh ({ builtin := false } : SeqEnc.EncOpts) exBlock exTriangle.t
    ⟨#[1, 2, 0], #[1, 2, 0], #[2, 0, 1]⟩ (some exParentD) (phiOf #[0]) #[0, 1, 2] #[0, 1, 2] #[0, 1, 2] = [] := by
  have h1 : effectiveScheme .texCoords #[0, 0, 8, 0, 1, 7] = .texCoords := by rfl
  have h2 : encParentSource .texCoords #[1, 2, 0] (some exParentE) = .ok exPositions := by rfl
  unfold valueBlockHypsIso
  simp only [exBlock, h1, h2]
  rfl

open Draco.EbEnc in
/-- non-vacuity: the triangle, traversed by both sides, tex-coords block -/
example : ∃ s', decodeIntegerValuesEb 1 3 2 2 exTriangle #[1, 2, 0] (some exParentD)
      { rest := exBlock.bytes ++ [9], version := 514 } =
      (some (#[0, 0, 8, 0, 1, 7], TransformData.none), s') ∧ s'.rest = [9] :=
  eb_value_block_conditional_iso exCh ({ builtin := false } : SeqEnc.EncOpts) exBlock 2 exTriangle.t
    ⟨#[1, 2, 0], #[1, 2, 0], #[2, 0, 1]⟩ ⟨#[1, 2, 0], #[1, 2, 0], #[2, 0, 1]⟩ (some exParentD) #[0] #[0, 1, 2] #[0, 1, 2]
    #[0, 1, 2] #[0, 1, 2] #[0, 1, 2] #[inv, inv, inv] 3 exBlockHypsIso rfl (Or.inl ⟨exTravD, exTravE⟩) rfl rfl exTexBlock
    _ [9] rfl rfl

open Draco.EbEnc in
/-- (b) **seams_correspond**: under `CTIso` the encoder's loop over `processed` (`encodeSeamBits`: one bit per
    attribute and interior edge, taken from the side whose face comes first) and the decoder's loop over its faces
    (`decodeSeams`, bit decoders that yield the encoder's bits: `eb_bit_buffer_roundtrip`) meet the SAME edges in the
    same order: the decoder succeeds and its seam corners of attribute `i` are exactly the boundary corners and the
    corners — of the first of the two faces — whose image carries the encoder's seam flag.  `NoSelfOpp`: no corner
    of the decoder's table is opposite to a corner of its own face (needed: there the decoder would read a bit the
    encoder did not write; follows from the same property of the encoder's table, `CTIso.noSelfOpp`). -/
theorem eb_seams_correspond {t : CT} {p : Array Nat} {n : Nat} {dc2v dopp : Array Nat}
    (h : CTIso t p n dc2v dopp) (hC : t.numCorners ≤ inv) (hns : NoSelfOpp dopp n)
    (edgeSeams : Array (Array Bool)) (encs : Array RAnsBitEnc) (seamBits : Array (Array Bool)) (decs : Array RAnsBitDec)
    (he : encodeSeamBits t p edgeSeams = .ok (encs, seamBits))
    (hds : decs.size = edgeSeams.size)
    (hy : ∀ i (hi : i < decs.size), Yields RAnsBitDec.nextBit decs[i] (seamBits[i]!).toList) :
    ∃ seams tags, decodeSeams false dopp n edgeSeams.size decs = .ok (seams, tags) ∧ seams.size = edgeSeams.size ∧
      ∀ i, i < edgeSeams.size → ∀ c, c < 3 * n →
        (c ∈ seams[i]! ↔
          (dopp[c]! = inv ∨ (dopp[c]! ≠ inv ∧ c / 3 < dopp[c]! / 3 ∧ edgeSeams[i]![phi p c]! = true))) :=
  seams_correspond h hC hns edgeSeams encs seamBits decs he hds hy

open Draco.EbEnc in
/-- (b) … and the seam FLAGS of the decoder's attribute table (`buildAttConn`, which marks the seam corners and their
    opposites) are the images of the encoder's flags, when the encoder's flags are symmetric across an edge and set on
    the boundary edges of the processed faces (what `InitFromAttribute` produces) and the encoder's `Opposite` is an
    involution -/
theorem eb_seam_flags_correspond {t : CT} {p : Array Nat} {n : Nat} {dc2v dopp : Array Nat}
    (h : CTIso t p n dc2v dopp) (hC : t.numCorners ≤ inv) (hns : NoSelfOpp dopp n) (hinvol : CTOppInvol t)
    (edgeSeams : Array (Array Bool)) (encs : Array RAnsBitEnc) (seamBits : Array (Array Bool)) (decs : Array RAnsBitDec)
    (he : encodeSeamBits t p edgeSeams = .ok (encs, seamBits))
    (hds : decs.size = edgeSeams.size)
    (hy : ∀ i (hi : i < decs.size), Yields RAnsBitDec.nextBit decs[i] (seamBits[i]!).toList) :
    ∃ seams tags, decodeSeams false dopp n edgeSeams.size decs = .ok (seams, tags) ∧ seams.size = edgeSeams.size ∧
      ∀ i, i < edgeSeams.size →
        (∀ c, c < t.numCorners → t.opp[c]! ≠ inv → edgeSeams[i]![t.opp[c]!]! = edgeSeams[i]![c]!) →
        (∀ d, d < 3 * n → t.opp[phi p d]! = inv → edgeSeams[i]![phi p d]! = true) →
        ∀ dvc a, buildAttConn dc2v dopp dvc seams[i]! = .ok a →
          a.edgeSeam.size = 3 * n ∧ ∀ d, d < 3 * n → a.edgeSeam[d]! = edgeSeams[i]![phi p d]! :=
  seam_flags_correspond h hC hns hinvol edgeSeams encs seamBits decs he hds hy

open Draco.EbEnc Draco.EbEnc.Seams in
/-- non-vacuity: two triangles sharing an edge, two attribute data (the edge is a seam of the first only); with
    bit decoders opened on the encoder's buffers the decoder finds the corners 0 1 2 3 4 resp. 0 1 3 4 -/
example : ∃ decs seams tags, decs.size = 2 ∧ decodeSeams false exDopp 2 2 decs = .ok (seams, tags) ∧
    seams[0]!.toList = [0, 1, 2, 3, 4] ∧ seams[1]!.toList = [0, 1, 3, 4] := exA

open Draco.EbEnc Draco.EbEnc.Seams in
example : ∃ s, markSeams exDc2v exDopp #[0, 1, 2, 5] #[0, 1, 2, 3, 4] = .ok s ∧
    ∀ d, d < 6 → s.1[d]! = exES[0]![phi #[3, 1] d]! := exB

open Draco.EbEnc in
/-- (b) the structural hypotheses `oppInvol` / `hedge` of `eb_value_block_conditional_iso` hold for every decoder view
    that is `TVIso` to the BASE view of a table made by the proved `CornerTable.create` (the encoder's table) -/
theorem eb_base_view_structural {faces : Faces} {table : CornerTable}
    (hc : CornerTable.create faces = some table) {d : TView} {φ ψ : Nat → Nat}
    (h : TVIso d (CT.ofTable table).view φ ψ) : OppInvol d ∧ Hedge d :=
  structural_of_create hc h

open Draco.EbEnc in
/-- (b) **the ATTRIBUTE views are isomorphic** (equivariance of `RecomputeVertices`): base views `TVIso` (from CTIso:
    `tviso_of_ctiso`), the encoder's table made by `CornerTable.create` with the images of the decoder's faces
    non-degenerate, seam flags that correspond (`eb_seam_flags_correspond`), seam edges marked at their vertices
    on both sides, and the two runs of `RecomputeVertices` (second loop of `buildAttConn` / `recomputeVertices`)
    successful ⇒ the attribute views — what the per-corner attribute sequencers and prediction schemes work on —
    are `TVIso` under the SAME corner map.  Table invariants taken as hypotheses: the recorded left-most corner of a
    vertex is a corner of that vertex (`hvcD`, `hvcE`) and reaches every corner of the vertex by swinging right on the
    decoder's side (`hcovD`; on the encoder's side this is `createF_fan_complete`). -/
theorem eb_att_views_iso {faces : Faces} {table : CornerTable} (hc : CornerTable.create faces = some table)
    (t : CT) (htab : t = CT.ofTable table)
    (n : Nat) (dc2v dopp dvc : Array Nat) (φ ψ : Nat → Nat)
    (hB : TVIso (baseViewD n dc2v dopp dvc) t.view φ ψ)
    (hszc : dc2v.size = 3 * n) (hszo : dopp.size = 3 * n)
    (hvcD : ∀ v, v < dvc.size → dvc[v]! ≠ inv → dvc[v]! < 3 * n ∧ dc2v[dvc[v]!]! = v)
    (hcovD : ∀ d, d < 3 * n → ∃ k, iter (AttViews.sRP dopp) k dvc[dc2v[d]!]! = d)
    (hvcE : ∀ v, v < t.vc.size → t.vc[v]! ≠ inv → t.vc[v]! < t.numCorners ∧ t.c2v[t.vc[v]!]! = v)
    (hnd : ∀ d, d < 3 * n → faceDegenerate faces (φ d / 3) = false)
    (seamCorners : Array Nat) (aD : AttConn) (hrD : buildAttConn dc2v dopp dvc seamCorners = .ok aD)
    (esE vsE : Array Bool) (hesE : esE.size = t.numCorners)
    (hflag : ∀ d, d < 3 * n → aD.edgeSeam[d]! = esE[φ d]!)
    (hsvD : ∀ c, c < 3 * n → aD.edgeSeam[c]! = true → aD.vertSeam[dc2v[Eb.prevC c]!]! = true)
    (hsvE : ∀ c, c < t.numCorners → esE[c]! = true → vsE[t.c2v[Eb.prevC c]!]! = true)
    (c2vE lmE : Array Nat) (hrE : recomputeVertices t esE vsE = .ok (c2vE, lmE)) :
    ∃ ψ', TVIso { c2v := aD.c2v, opp := dopp, seam := aD.edgeSeam, lm := aD.lm, isAtt := true, numFaces := n }
      { c2v := c2vE, opp := t.opp, seam := esE, lm := lmE, isAtt := true, numFaces := t.numFaces } φ ψ' :=
  att_views_iso_nondeg hc t htab n dc2v dopp dvc φ ψ hB hszc hszo hvcD hcovD hvcE hnd seamCorners aD hrD esE vsE hesE
    hflag hsvD hsvE c2vE lmE hrE

section AttViewsExample
open Draco.EbEnc

def exFaces1 : Faces := #[(0, 1, 2)]
def exTable1 : CornerTable := (CornerTable.create exFaces1).get (by decide +kernel)
theorem exCreate1 : CornerTable.create exFaces1 = some exTable1 := by simp [exTable1]
def exCT1 : CT := ⟨#[0, 1, 2], #[inv, inv, inv], #[0, 1, 2], 0, 0⟩
theorem exCT1_eq : exCT1 = CT.ofTable exTable1 := by
  have h : (CT.ofTable exTable1).c2v = #[0, 1, 2] ∧ (CT.ofTable exTable1).opp = #[inv, inv, inv] ∧
    (CT.ofTable exTable1).vc = #[0, 1, 2] ∧ (CT.ofTable exTable1).numDegenerated = 0 ∧
    (CT.ofTable exTable1).numIsolated = 0 := by decide +kernel
  rcases hh : CT.ofTable exTable1 with ⟨a, b, c, d, e⟩
  rw [hh] at h
  obtain ⟨rfl, rfl, rfl, rfl, rfl⟩ := h
  rfl

set_option maxRecDepth 20000 in
theorem exBuild1 : buildAttConn #[0, 1, 2] #[inv, inv, inv] #[0, 1, 2] #[0, 1, 2] =
    .ok ⟨#[true, true, true], #[true, true, true], #[0, 1, 2], #[0, 1, 2], true⟩ := by
  simp [buildAttConn, wrB, rdB, wr, rd, Eb.vertex, Eb.opposite, Eb.swingRight, inv, Eb.nextC, Eb.prevC,
    Std.Legacy.Range.forIn_eq_forIn_range', Std.Legacy.Range.size, bind, Except.bind, pure, Except.pure, List.range'_succ]
  decide

set_option maxRecDepth 20000 in
theorem exRecompute1 : recomputeVertices exCT1 #[true, true, true] #[true, true, true] = .ok (#[0, 1, 2], #[0, 1, 2]) := by
  simp [recomputeVertices, exCT1, CT.numCorners, rdB, wr, rd, Eb.opposite, Eb.swingRight, inv, Eb.nextC, Eb.prevC,
    Std.Legacy.Range.forIn_eq_forIn_range', Std.Legacy.Range.size, bind, Except.bind, pure, Except.pure, List.range'_succ]
  decide

theorem three (d : Nat) (h : d < 3 * 1) : d = 0 ∨ d = 1 ∨ d = 2 := by omega

/-- non-vacuity of `eb_att_views_iso`: one triangle, all three edges boundary seams -/
example : ∃ ψ', TVIso { c2v := #[0, 1, 2], opp := #[inv, inv, inv], seam := #[true, true, true], lm := #[0, 1, 2], isAtt := true, numFaces := 1 }
      { c2v := #[0, 1, 2], opp := exCT1.opp, seam := #[true, true, true], lm := #[0, 1, 2], isAtt := true, numFaces := exCT1.numFaces }
      (phiOf #[0]) ψ' :=
  eb_att_views_iso exCreate1 exCT1 exCT1_eq 1 #[0, 1, 2] #[inv, inv, inv] #[0, 1, 2] (phiOf #[0]) (fun v => #[0, 1, 2][v]!)
    (tvIsoCheck_sound _ _ _ #[0, 1, 2] #[0, 1, 2] #[0, 1, 2] (by rfl)) rfl rfl
    (by intro v hv; have : v = 0 ∨ v = 1 ∨ v = 2 := by (have : v < 3 := hv); omega
        rcases this with rfl | rfl | rfl <;> decide)
    (by intro d hd; rcases three d hd with rfl | rfl | rfl <;> exact ⟨0, by decide⟩)
    (by intro v hv; have : v = 0 ∨ v = 1 ∨ v = 2 := by (have : v < 3 := hv); omega
        rcases this with rfl | rfl | rfl <;> decide)
    (by intro d hd; rcases three d hd with rfl | rfl | rfl <;> decide)
    #[0, 1, 2] _ exBuild1 #[true, true, true] #[true, true, true] rfl
    (by intro d hd; rcases three d hd with rfl | rfl | rfl <;> decide)
    (by intro d hd; rcases three d hd with rfl | rfl | rfl <;> decide)
    (by intro d hd; have : d = 0 ∨ d = 1 ∨ d = 2 := by (have : d < 3 := hd); omega
        rcases this with rfl | rfl | rfl <;> decide)
    _ _ exRecompute1

end AttViewsExample

open Draco.EbEnc Draco.EbEnc.FaceCorr in
/-- (b) **eb_roundtrip_conditional_partial** — the stream-level conditional round trip.  For a successful run of the
    Edgebreaker encoder model, IF the CONNECTIVITY LINK holds (`hconn`: the decoder's connectivity stage reads the encoder's
    connectivity bytes and builds `mesh`, `hnf`: with as many faces as the encoder processed — the only hypothesis about
    running a codec stage on bytes; evaluated per case as `iso-ok`), the decoder-side structural facts (`hdec`: ids in range
    and `sides` are the decoder's own sequences / point maps; `hids`), the value conditions (`hvals`: raw lengths; value
    blocks = `eb_value_block_conditional_iso`, `valuesOK_of_item`), the input inside the format's domain (`hatt`, `huid`,
    `hproc`, `hfits`), `hs` (the plan's attributes are the input attributes in stream order), the ROW CORRESPONDENCE `hrows`
    of every attribute (`row_of_item_kind0…3` from `TupleSetup`) and `hcover` (the traversal reached every non-degenerate
    face; evaluated as `coverage`), THEN both decodes of the stream followed by arbitrary bytes succeed, consume exactly
    the stream, return the metadata, and `Spec.checkCore .edgebreaker` (RoundTripOK) accepts.  Proved inside: the byte
    layout of the attribute section, descriptors, transform parameters, the whole attribute section of the decoder, the
    `matchOne` bookkeeping, the tuple and face correspondences, the multiset argument. -/
theorem eb_roundtrip_conditional_partial (ch : EbChoices) (g : Geometry) (md : Option GeometryMetadata) (o : EbOpts)
    (enc : Encoded) (henc : encodeEdgebreaker ch g md o = .ok enc) (hmd : ∀ m, md = some m → m.WF')
    (mesh : Mesh) (sides : List (SeqOut × Array Nat)) (hsides : enc.couts.size = sides.length)
    (hconn : ∀ coder, traversalCoder o g.faces.length = some coder →
      Runs decodeConnectivity 514 ([coder] ++ enc.conn.bytes) mesh 514)
    (hnf : mesh.numFaces = enc.conn.processed.size)
    (plan : AttPlan) (hplan : plan = planOf o g.atts.toArray enc.conn enc.controllers enc.couts.toList sides)
    (hatt : ∀ a, a < g.atts.toArray.size → EbAttOK (g.atts.toArray[a]!) (o.base.att a))
    (hids : plan.Pairwise fun a b =>
      (0 ≤ b.dec.attDataId → a.dec.attDataId ≠ b.dec.attDataId) ∧ (b.dec.attDataId < 0 → 0 ≤ a.dec.attDataId))
    (hdec : ∀ d ∈ plan, DecoderOK mesh d)
    (hvals : ∀ (i k : Nat) (hi : i < plan.length) (hk : k < plan[i].items.length),
      ValuesOK mesh plan[i] (parentAt plan i k) plan[i].items[k])
    (huid : (g.atts.map (·.uniqueId)).Nodup)
    {item : Nat → Nat × Array Nat × AttItem} {encI : Nat → EncItem} (hs : PlanSetting g o plan item encI)
    (hrows : RowsCorr g item mesh.faces (SeqEnc.flattenFaces g.faces).toArray mesh.numFaces (phi enc.conn.processed))
    (hproc : ∀ i, i < enc.conn.processed.size → enc.conn.processed[i]! < 3 * g.faces.length)
    (hfits : 3 * g.faces.length ≤ inv)
    (hcover : ∀ j (hj : j < g.faces.length), nondegFace g (g.faces[j]) = true →
      ∃ i, i < (facesOf mesh).length ∧ enc.conn.processed[i]! / 3 = j)
    (extra : Bytes) :
    ∃ st st',
      decodeGeometry {} { rest := enc.bytes ++ extra } = (some ⟨planGeometry {} mesh plan, md⟩, st) ∧ st.rest = extra ∧
      decodeGeometry { skip := SeqEnc.allTypes } { rest := enc.bytes ++ extra } =
        (some ⟨planGeometry { skip := SeqEnc.allTypes } mesh plan, md⟩, st') ∧ st'.rest = extra ∧
      Spec.checkCore .edgebreaker (SeqEnc.quantReq g o.base) g (planGeometry {} mesh plan)
        (planGeometry { skip := SeqEnc.allTypes } mesh plan) = true :=
  Draco.EbEnc.eb_roundtrip_conditional_partial ch g md o enc henc hmd mesh sides hsides hconn hnf plan hplan hatt hids hdec
    hvals huid hs hrows hproc hfits hcover extra

open Draco.EbEnc Draco.EbEnc.ConnExample in
/-- non-vacuity: ONE TRIANGLE with an int32 POSITION attribute — EVERY hypothesis is discharged (the connectivity link
    `exHconn` by stepping the decoder through its connectivity stage for every continuation of the stream, the rest by
    kernel evaluation): the 58-byte stream `exBytes` followed by arbitrary bytes decodes, with and without transforms
    skipped, to the explicit geometry `exDecoded` (points renumbered in traversal order), and RoundTripOK accepts -/
example (extra : Bytes) : ∃ st st',
    decodeGeometry {} { rest := exBytes ++ extra } = (some ⟨exDecoded, none⟩, st) ∧ st.rest = extra ∧
    decodeGeometry { skip := SeqEnc.allTypes } { rest := exBytes ++ extra } = (some ⟨exDecoded, none⟩, st') ∧
    st'.rest = extra ∧
    Spec.checkCore .edgebreaker (SeqEnc.quantReq exG exO.base) exG exDecoded exDecoded = true :=
  exRoundtrip' extra

open Draco.EbEnc Draco.EbEnc.FaceCorr Draco.EbEnc.PlanSettingP Draco.EbEnc.Final2 Draco.EbEnc.Final3 in
/-- (b') **eb_roundtrip_of_link_partial** — `eb_roundtrip_conditional_partial` with everything that follows from the
    ENCODER'S RUN discharged (follow-up 5): `PlanSetting` (the plan's attributes are the input's in stream order:
    `planSetting_of_run`), `hproc`, `hfits`, `hcover` (traversal completeness, `Coverage.encodeConnectivity_coverage`), `hids`
    and the static part of `DecoderOK` (attribute data ids of `generateControllers`: `EbCtrlIds`), `AttDataNonPos`, `hsides`,
    `hnf`; `sides` are by construction the decoder's own sequencer / point-map runs (`sidesOfDecoder`).
    Hypotheses left: the run (`henc`, `hmd`), the input inside the format's domain (`hatt`, `huid`, `hn128`: the attribute data
    id is one signed byte), the CONNECTIVITY LINK (`hconn`, `hiso` as the Prop `CTIso` — from `ctIso = true` by
    `eb_ctiso_sound` —, `hmatts`), `hseq` (the decoder's sequencers SUCCEED on `mesh`; equivariance is proved for two
    successful runs), `hvals` (value blocks: `valuesOK_of_item` / `eb_value_block_conditional_iso`) and `hrows` (row
    correspondence; `Final2.hrows_of_setups` reduces it to one `TupleSetup` per attribute). -/
theorem eb_roundtrip_of_link_partial (ch : EbChoices) (g : Geometry) (md : Option GeometryMetadata) (o : EbOpts)
    (enc : Encoded) (henc : encodeEdgebreaker ch g md o = .ok enc) (hmd : ∀ m, md = some m → m.WF')
    (hatt : ∀ a, a < g.atts.toArray.size → EbAttOK (g.atts.toArray[a]!) (o.base.att a))
    (huid : (g.atts.map (·.uniqueId)).Nodup)
    (hn128 : g.atts.length ≤ 128)
    (mesh : Mesh)
    (hconn : ∀ coder, traversalCoder o g.faces.length = some coder →
      Runs decodeConnectivity 514 ([coder] ++ enc.conn.bytes) mesh 514)
    (hiso : CTIso enc.conn.ct enc.conn.processed mesh.numFaces mesh.c2v mesh.opp)
    (hmatts : mesh.atts.size = enc.conn.atts.size)
    (sides : List (SeqOut × Array Nat))
    (hseq : sidesOfDecoder mesh enc.conn enc.controllers enc.couts.toList = .ok sides)
    (hvals : ∀ (i k : Nat)
      (hi : i < (planOf o g.atts.toArray enc.conn enc.controllers enc.couts.toList sides).length)
      (hk : k < (planOf o g.atts.toArray enc.conn enc.controllers enc.couts.toList sides)[i].items.length),
      ValuesOK mesh (planOf o g.atts.toArray enc.conn enc.controllers enc.couts.toList sides)[i]
        (parentAt (planOf o g.atts.toArray enc.conn enc.controllers enc.couts.toList sides) i k)
        (planOf o g.atts.toArray enc.conn enc.controllers enc.couts.toList sides)[i].items[k])
    (hrows : RowsCorr g (itemOfRun o g.atts.toArray enc.couts.toList sides) mesh.faces (SeqEnc.flattenFaces g.faces).toArray
      mesh.numFaces (phi enc.conn.processed))
    (extra : Bytes) :
    ∃ st st',
      decodeGeometry {} { rest := enc.bytes ++ extra } =
        (some ⟨planGeometry {} mesh (planOf o g.atts.toArray enc.conn enc.controllers enc.couts.toList sides), md⟩, st) ∧
      st.rest = extra ∧
      decodeGeometry { skip := SeqEnc.allTypes } { rest := enc.bytes ++ extra } =
        (some ⟨planGeometry { skip := SeqEnc.allTypes } mesh
          (planOf o g.atts.toArray enc.conn enc.controllers enc.couts.toList sides), md⟩, st') ∧
      st'.rest = extra ∧
      Spec.checkCore .edgebreaker (SeqEnc.quantReq g o.base) g
        (planGeometry {} mesh (planOf o g.atts.toArray enc.conn enc.controllers enc.couts.toList sides))
        (planGeometry { skip := SeqEnc.allTypes } mesh
          (planOf o g.atts.toArray enc.conn enc.controllers enc.couts.toList sides)) = true :=
  eb_roundtrip_of_link_rows ch g md o enc henc hmd hatt huid hn128 mesh hconn hiso hmatts sides hseq hvals hrows extra

open Draco.EbEnc Draco.EbEnc.FaceCorr Draco.EbEnc.PlanSettingP Draco.EbEnc.Final2 Draco.EbEnc.Final3
  Draco.EbEnc.ConnExample in
/-- non-vacuity: the one-triangle stream again, now through `eb_roundtrip_of_link_partial` (every hypothesis discharged:
    `hiso` by `ctIso_sound` from the evaluated checker, `hseq` and `hrows` by kernel evaluation) -/
example (extra : Bytes) : ∃ st st',
    decodeGeometry {} { rest := exBytes ++ extra } = (some ⟨planGeometry {} ConnExample.exMesh exPlan, none⟩, st) ∧ st.rest = extra ∧
    decodeGeometry { skip := SeqEnc.allTypes } { rest := exBytes ++ extra } =
      (some ⟨planGeometry { skip := SeqEnc.allTypes } ConnExample.exMesh exPlan, none⟩, st') ∧ st'.rest = extra ∧
    Spec.checkCore .edgebreaker (SeqEnc.quantReq exG exO.base) exG (planGeometry {} ConnExample.exMesh exPlan)
      (planGeometry { skip := SeqEnc.allTypes } ConnExample.exMesh exPlan) = true := by
  have hiso : CTIso exEnc.conn.ct exEnc.conn.processed ConnExample.exMesh.numFaces ConnExample.exMesh.c2v ConnExample.exMesh.opp :=
    ctIso_sound _ _ _ _ _ (by decide +kernel) (by decide +kernel) (by decide +kernel) exIso
  have hseq : sidesOfDecoder ConnExample.exMesh exEnc.conn exEnc.controllers exEnc.couts.toList = .ok exSides := by
    have h : (match sidesOfDecoder ConnExample.exMesh exEnc.conn exEnc.controllers exEnc.couts.toList with
        | .ok s => decide (s = exSides) | .error _ => false) = true := by
      decide +kernel
    split at h
    · rename_i s hs; rw [hs, of_decide_eq_true h]
    · exact absurd h (by decide)
  have hrows : RowsCorr exG (itemOfRun exO exG.atts.toArray exEnc.couts.toList exSides) ConnExample.exMesh.faces
      (SeqEnc.flattenFaces exG.faces).toArray ConnExample.exMesh.numFaces (phi exEnc.conn.processed) := by
    unfold RowsCorr
    decide +kernel
  have h := eb_roundtrip_of_link_partial exCh exG none exO exEnc exEncode (fun m h => by cases h) exHatt exHuid
    (by decide +kernel) ConnExample.exMesh exHconn hiso (by decide +kernel) exSides hseq exHvals hrows extra
  rw [exEnc_bytes] at h
  exact h

open Draco.EbEnc in
/-- (b) **CTIso as a proposition**: the Boolean checker the op evaluates on every case (`iso-ok`) implies the
    Prop-level isomorphism `CTIso` (corner map injective into the encoder's table, opposite corners and boundary
    edges correspond, two decoder corners carry the same vertex exactly when their images do) for tables that fit
    the `uint32_t` index types and decoder corners that carry valid vertices -/
theorem eb_ctiso_sound (t : CT) (processed : Array Nat) (numFaces : Nat) (dc2v dopp : Array Nat)
    (hC : t.numCorners ≤ inv) (hV : t.numVertices ≤ inv) (hdv : ∀ d, d < 3 * numFaces → dc2v[d]! ≠ inv)
    (h : ctIso t processed numFaces dc2v dopp = true) : CTIso t processed numFaces dc2v dopp :=
  ctIso_sound t processed numFaces dc2v dopp hC hV hdv h

open Draco.EbEnc in
set_option maxRecDepth 8000 in
/-- non-vacuity: two triangles sharing an edge, faces visited in the order 1, 0, the decoder's vertices renamed -/
example : CTIso ⟨#[0, 1, 2, 2, 1, 3], #[5, inv, inv, inv, inv, 0], #[0, 1, 2, 5], 0, 0⟩ #[3, 1] 2
    #[10, 11, 12, 11, 10, 13] #[inv, inv, 5, inv, inv, 2] := by
  apply eb_ctiso_sound
  · decide
  · decide
  · intro d hd
    have : d = 0 ∨ d = 1 ∨ d = 2 ∨ d = 3 ∨ d = 4 ∨ d = 5 := by omega
    rcases this with rfl | rfl | rfl | rfl | rfl | rfl <;> decide
  · simp [ctIso, CT.numCorners, CT.numVertices, Id.run, Std.Legacy.Range.forIn_eq_forIn_range',
      Std.Legacy.Range.size, List.range'_succ, inv, Eb.nextC, Eb.prevC, bind, pure]

open Draco.EbEnc in
/-- (c) under CTIso the decoder's corner table has exactly one face per face the encoder processed
    (`processed_connectivity_corners_`) -/
theorem eb_encoded_counts_partial (t : CT) (processed : Array Nat) (nf : Nat) (dc2v dopp : Array Nat)
    (h : ctIso t processed nf dc2v dopp = true) :
    nf = processed.size ∧ dc2v.size = 3 * nf ∧ dopp.size = 3 * nf :=
  ctIso_faces t processed nf dc2v dopp h

open Draco.EbEnc in
set_option maxRecDepth 8000 in
/-- non-vacuity: one triangle, processed from its corner 1, decoder vertex ids 7, 8, 9 -/
example : ctIso ⟨#[0, 1, 2], #[inv, inv, inv], #[0, 1, 2], 0, 0⟩ #[1] 1 #[7, 8, 9] #[inv, inv, inv] = true := by
  simp [ctIso, CT.numCorners, CT.numVertices, Id.run, Std.Legacy.Range.forIn_eq_forIn_range', Std.Legacy.Range.size,
    List.range'_succ, inv, Eb.nextC, Eb.prevC, bind, pure]

section LinkBase
open Draco Draco.SeqEnc DecM Draco.EbEnc
open Draco.Eb hiding iabs nextC prevC
open Draco.EbEnc.PosAgreeP Draco.EbEnc.Tuples Draco.EbEnc.FaceCorr Draco.EbEnc.PlanSettingP Draco.EbEnc.Final2 Draco.EbEnc.Final3
  Draco.EbEnc.Final4 Draco.EbEnc.Final5 Draco.EbEnc.Final6 Draco.EbEnc.Final7 Draco.EbEnc.EncCounts Draco.EbEnc.ConnExample

/-- (b'') **eb_roundtrip_of_link_base_partial** — the stream-level round trip for the class "EVERY CONTROLLER IS ON THE BASE
    TABLE" (`hclass`: `onAttTable = false` for every controller output — single connectivity, position-only geometries,
    attributes without interior seams; either traversal method): compared with `eb_roundtrip_of_link_partial` there is NO
    `hseq` (the decoder's sequencers and `UpdatePointToAttributeIndexMapping` SUCCEED: success transfer from the encoder's
    traversal, `depthFirst_success_transfer` / `maxPredictionDegree_success_transfer`, `pointToValueMap_success`) and NO
    `hrows` (the row correspondence is derived from the link for every item on the base table under a single connectivity and
    for the POSITION attribute otherwise; `hrest` asks for the `TupleSetup` of the remaining items only and is vacuous under a
    single connectivity and for position-only geometries).  Hypotheses left: the run (`henc`, `hmd`), the domain (`hatt`,
    `huid`, `hn128`, `hbytes`, `hgv`), the CONNECTIVITY LINK (`hconn`, `hiso`, `hmatts`), the decoder-table facts `DecBaseOK`
    (vertex ids index `vc`, `IsOnBoundary` agrees, points refine vertices) and `DecSeqOK` (`EbDecSeqOK.decSeqOK_of_stages`
    derives it from the decoder's stages), `hVS : ValueSideOK` (follow-up 5b: `hvals` resolved — the isomorphism, `Hedge`, `OppInvol`, traversal
    and encoder-run hypotheses of every value block are derived from the link, `Final7.hvals_of_link`; `ValueSideOK` keeps, per
    block, the evaluated side conditions: scheme kinds, int32 range, canonical normals, crease counts, the parent attribute),
    `hrest`. -/
theorem eb_roundtrip_of_link_base_partial (ch : EbChoices) (g : Geometry) (md : Option GeometryMetadata) (o : EbOpts)
    (enc : Encoded) (henc : encodeEdgebreaker ch g md o = .ok enc) (hmd : ∀ m, md = some m → m.WF')
    (hatt : ∀ a, a < g.atts.toArray.size → EbAttOK (g.atts.toArray[a]!) (o.base.att a))
    (huid : (g.atts.map (·.uniqueId)).Nodup) (hn128 : g.atts.length ≤ 128)
    (hbytes : ∀ a ∈ g.atts, IsBytes a.values) (hgv : g.valid = true)
    (mesh : Mesh)
    (hconn : ∀ coder, traversalCoder o g.faces.length = some coder →
      Runs decodeConnectivity 514 ([coder] ++ enc.conn.bytes) mesh 514)
    (hiso : CTIso enc.conn.ct enc.conn.processed mesh.numFaces mesh.c2v mesh.opp)
    (hmatts : mesh.atts.size = enc.conn.atts.size)
    (hD : DecBaseOK enc mesh) (hS : DecSeqOK mesh)
    (hclass : ∀ c ∈ enc.couts.toList, (enc.controllers[c.ctrl]!).onAttTable = false)
    (hVS : ValueSideOK ch o g enc mesh)
    (hrest : ∀ sides, sidesOfDecoder mesh enc.conn enc.controllers enc.couts.toList = .ok sides →
      ∀ c side it, (c, side) ∈ enc.couts.toList.zip sides → it ∈ c.items.toList →
      ¬ (useSingleConnectivity o = true ∨
        (((g.atts.toArray[(enc.controllers[c.ctrl]!).attIds[0]!]!).attType == posType) = true ∧
         ((g.atts.toArray[it.attId]!).attType == posType) = true)) →
      ∃ (dC : TView) (ψC : Nat → Nat) (np npD : Nat), dC.numFaces = mesh.numFaces ∧
        TupleSetup (g.atts.toArray[it.attId]!) np (flattenFaces g.faces).toArray mesh.faces npD dC c.view
          (phi enc.conn.processed) ψC side.1 c.seq side.2)
    (extra : Bytes) :
    ∃ sides, sidesOfDecoder mesh enc.conn enc.controllers enc.couts.toList = .ok sides ∧ ∃ st st',
      decodeGeometry {} { rest := enc.bytes ++ extra } =
        (some ⟨planGeometry {} mesh (planOf o g.atts.toArray enc.conn enc.controllers enc.couts.toList sides), md⟩, st) ∧
      st.rest = extra ∧
      decodeGeometry { skip := allTypes } { rest := enc.bytes ++ extra } =
        (some ⟨planGeometry { skip := allTypes } mesh
          (planOf o g.atts.toArray enc.conn enc.controllers enc.couts.toList sides), md⟩, st') ∧
      st'.rest = extra ∧
      Spec.checkCore .edgebreaker (quantReq g o.base) g
        (planGeometry {} mesh (planOf o g.atts.toArray enc.conn enc.controllers enc.couts.toList sides))
        (planGeometry { skip := allTypes } mesh
          (planOf o g.atts.toArray enc.conn enc.controllers enc.couts.toList sides)) = true :=
  Final7.eb_roundtrip_of_link_base''' ch g md o enc henc hmd hatt huid hn128 hbytes hgv mesh hconn hiso hmatts hD hS hclass
    hVS hrest extra

/-- non-vacuity: the one-triangle stream; `DecBaseOK`, `DecSeqOK`, `hclass`, `ValueSideOK` proved (closed decidable facts),
    `hrest` vacuous: the round trip rests only on the encoder's run, the connectivity link `exHconn`/`exIso` -/
example (extra : Bytes) :
    ∃ st st',
      decodeGeometry {} { rest := exBytes ++ extra } = (some ⟨planGeometry {} ConnExample.exMesh exPlan, none⟩, st) ∧ st.rest = extra ∧
      decodeGeometry { skip := allTypes } { rest := exBytes ++ extra } =
        (some ⟨planGeometry { skip := allTypes } ConnExample.exMesh exPlan, none⟩, st') ∧ st'.rest = extra ∧
      Spec.checkCore .edgebreaker (quantReq exG exO.base) exG (planGeometry {} ConnExample.exMesh exPlan)
        (planGeometry { skip := allTypes } ConnExample.exMesh exPlan) = true := by
  have hiso : CTIso exEnc.conn.ct exEnc.conn.processed ConnExample.exMesh.numFaces ConnExample.exMesh.c2v ConnExample.exMesh.opp :=
    ctIso_sound _ _ _ _ _ (by decide +kernel) (by decide +kernel) (by decide +kernel) exIso
  have hseq0 : sidesOfDecoder ConnExample.exMesh exEnc.conn exEnc.controllers exEnc.couts.toList = .ok exSides := by
    have h : (match sidesOfDecoder ConnExample.exMesh exEnc.conn exEnc.controllers exEnc.couts.toList with
        | .ok s => decide (s = exSides) | .error _ => false) = true := by
      decide +kernel
    split at h
    · rename_i s hs; rw [hs, of_decide_eq_true h]
    · exact absurd h (by decide)
  have hsides : ∀ sides, sidesOfDecoder ConnExample.exMesh exEnc.conn exEnc.controllers exEnc.couts.toList = .ok sides →
      sides = exSides := by
    intro sides h
    rw [hseq0] at h
    exact (Except.ok.inj h).symm
  have hD : DecBaseOK exEnc ConnExample.exMesh :=
    { hdv := by decide +kernel
      hbd := by
        intro d hd
        have h3 : d < 3 := by
          have : ConnExample.exMesh.numFaces = 1 := by decide +kernel
          omega
        have : d = 0 ∨ d = 1 ∨ d = 2 := by omega
        rcases this with rfl | rfl | rfl <;> exact ⟨true, by decide +kernel, by decide +kernel⟩
      refines := by
        intro c c' hc hc'
        have hn : (baseViewD ConnExample.exMesh.numFaces ConnExample.exMesh.c2v ConnExample.exMesh.opp ConnExample.exMesh.vc).numFaces = 1 := by decide +kernel
        rw [hn] at hc hc'
        have h1 : c = 0 ∨ c = 1 ∨ c = 2 := by omega
        have h2 : c' = 0 ∨ c' = 1 ∨ c' = 2 := by omega
        rcases h1 with rfl | rfl | rfl <;> rcases h2 with rfl | rfl | rfl <;> decide +kernel }
  have hS : DecSeqOK ConnExample.exMesh :=
    { hNV := by decide +kernel, hnp := by decide +kernel, hfa := by decide +kernel, hfp := by decide +kernel,
      hcov := by decide +kernel }
  have hbytes : ∀ a ∈ exG.atts, IsBytes a.values := by
    have hb : (exG.atts.all fun a => a.values.all fun b => decide (b < 256)) = true := by decide +kernel
    intro a ha b hb'
    have h1 := List.all_eq_true.mp hb a ha
    have h2 := List.all_eq_true.mp h1 b hb'
    simpa using h2
  have hall : (exEnc.couts.toList.all fun c => c.items.toList.all fun it =>
      ((exG.atts.toArray[(exEnc.controllers[c.ctrl]!).attIds[0]!]!).attType == posType) &&
      ((exG.atts.toArray[it.attId]!).attType == posType)) = true := by decide +kernel
  have hcl : (exEnc.couts.toList.all fun c => !(exEnc.controllers[c.ctrl]!).onAttTable) = true := by decide +kernel
  -- the value-side conditions of the single block
  have hVS : ValueSideOK ConnExample.exCh exO exG exEnc ConnExample.exMesh := by
    intro sides hs i k hi hsl hk hne b hb
    have e0 := hsides sides hs
    subst e0
    have hlen1 : exEnc.couts.toList.length = 1 := by decide +kernel
    have hi0 : i = 0 := by omega
    subst hi0
    have hc0 : exEnc.couts.toList[0]'hi = exEnc.couts.toList[0]! := (getElem!_pos _ 0 hi).symm
    have hsd : exSides[0]'hsl = (exSeqD, exMapD) := rfl
    generalize exEnc.couts.toList[0]'hi = c0 at hc0 hk hne hb ⊢
    generalize exSides[0]'hsl = sd at hsd ⊢
    subst hc0 hsd
    have hsz1 : (exEnc.couts.toList[0]!).items.size = 1 := by decide +kernel
    have hk0 : k = 0 := by omega
    subst hk0
    have hit0 : (exEnc.couts.toList[0]!).items[0]'hk = (exEnc.couts.toList[0]!).items[0]! :=
      (getElem!_pos _ 0 hk).symm
    generalize (exEnc.couts.toList[0]!).items[0]'hk = it0 at hit0 hne hb
    subst hit0
    have hbk : b = Final7.exBlk := by
      unfold Final7.exBlk
      rw [hb]
      rfl
    subst hbk
    have hpar : parentAt (planOf exO exG.atts.toArray exEnc.conn exEnc.controllers exEnc.couts.toList exSides) 0 0 = none := by
      have : planOf exO exG.atts.toArray exEnc.conn exEnc.controllers exEnc.couts.toList exSides = [ConnExample.exD] :=
        exPlan_eq
      rw [this]; rfl
    rw [hpar]
    exact {
      numValues := by decide +kernel
      kindOK := schemeKindOk_sound _ _ (by decide +kernel)
      parent := fun h => absurd h (by decide +kernel)
      nc := by decide +kernel
      n := by decide +kernel
      len := by decide +kernel
      h32 := by decide +kernel
      range := int32All_sound _ (by decide +kernel)
      normals := fun h => absurd h (by decide +kernel)
      faces := by decide +kernel
      corners := by decide +kernel
      crease := fun h => by
        have h0 : (Final7.exBlk.scheme == PScheme.constrainedMulti) = false := by decide +kernel
        rw [h] at h0
        exact absurd h0 (by decide) }
  obtain ⟨sides, hs, h⟩ := eb_roundtrip_of_link_base_partial ConnExample.exCh exG none exO exEnc exEncode (fun m h => by cases h) exHatt
    exHuid (by decide +kernel) hbytes (by decide +kernel) ConnExample.exMesh exHconn hiso (by decide +kernel) hD hS
    (by
      intro c hc
      have := List.all_eq_true.mp hcl c hc
      simpa using this)
    hVS
    (by
      intro sides hs c side it hz hit hn
      exfalso
      apply hn
      right
      have hc := (List.of_mem_zip hz).1
      have h1 := List.all_eq_true.mp hall c hc
      have h2 := List.all_eq_true.mp h1 it hit
      simpa using h2) extra
  rw [hsides sides hs, exEnc_bytes] at h
  exact h

end LinkBase

section ConnectivityLink
open Draco Draco.EbEnc
open Draco.Eb hiding iabs nextC prevC
open Draco.EbEnc.ConnTri Draco.EbEnc.ConnNoOpp Draco.EbEnc.ConnExample

/-- (c) **THE CONNECTIVITY LINK**, full statement (`ConnTri.EbConnectivityRoundtrip ch valence posFaces acv`, NOT proved in
    general; evaluated on every case as `iso-ok`): for EVERY successful `encodeConnectivity ch valence posFaces acv = .ok conn`
    there is a `mesh` such that the decoder's connectivity stage, on the traversal-coder byte followed by the encoder's
    connectivity bytes and then anything, returns `mesh` having consumed exactly those bytes
    (`Runs decodeConnectivity 514 ([if valence then 2 else 0] ++ conn.bytes) mesh 514`), the decoder's corner table is
    isomorphic to the encoder's under the corner map of `processed_connectivity_corners_`
    (`ctIso conn.ct conn.processed mesh.numFaces mesh.c2v mesh.opp = true`), and there is one attribute connectivity per
    attribute data.  It is the `hconn` + `hnf` (+ `ctIso`) hypothesis of `eb_roundtrip_conditional_partial`.

    **eb_connectivity_roundtrip_partial** — PROVED for the class "every component is a single triangle": `1 ≤ k ≤ 2^21`
    non-degenerate faces with ARBITRARY vertex ids whose corner table (`CornerTable.create`) has no opposite link (faces may
    share vertices, e.g. a bow tie, but no two faces are joined along an edge), standard traversal, no attribute data,
    EVERY encoder choice `ch`.  Encoder half symbolically (`encode_noopp`: every vertex is a hole vertex, one symbol E and
    one boundary start-face bit per face, processed corners `3(k−1), …, 3, 0`), decoder half symbolically for every `k`
    (`runs_decodeConnectivity_tri`: two loop invariants over `connLoop`), and the checker accepts (`ctIso_true_noopp`). -/
theorem eb_connectivity_roundtrip_partial (ch : ConnChoices) {pf : Faces} {tbl : CornerTable} (h : NoOpp pf tbl)
    (hk1 : 1 ≤ pf.size) (hk : pf.size ≤ 2 ^ 21) (conn : ConnEnc)
    (henc : encodeConnectivity ch false pf #[] = .ok conn) :
    ∃ mesh, Runs decodeConnectivity 514 ([0] ++ conn.bytes) mesh 514 ∧
      ctIso conn.ct conn.processed mesh.numFaces mesh.c2v mesh.opp = true ∧ mesh.atts.size = conn.atts.size :=
  eb_connectivity_roundtrip_noopp ch h hk1 hk conn henc

/-- a bow tie: two triangles sharing the vertex 0 and no edge -/
def bowTie : Faces := #[(0, 1, 2), (0, 3, 4)]
def bowTieTable : CornerTable := match CornerTable.create bowTie with | some t => t | none => default

theorem bowTie_noopp : NoOpp bowTie bowTieTable := by
  refine ⟨?_, ?_, ?_⟩
  · have h : (CornerTable.create bowTie).isSome = true := by decide +kernel
    unfold bowTieTable
    split
    · rename_i t ht; exact ht
    · rename_i hn; rw [hn] at h; exact absurd h (by decide)
  · intro f hf
    have hf' : f < 2 := hf
    obtain rfl | rfl : f = 0 ∨ f = 1 := by omega
    all_goals decide +kernel
  · intro c hc
    have hc' : c < 6 := hc
    obtain rfl | rfl | rfl | rfl | rfl | rfl : c = 0 ∨ c = 1 ∨ c = 2 ∨ c = 3 ∨ c = 4 ∨ c = 5 := by omega
    all_goals decide +kernel

/-- non-vacuity: the bow tie is in the class, the encoder's run on it succeeds, and the link holds for it -/
example : ∃ conn mesh, encodeConnectivity exCh.conn false bowTie #[] = .ok conn ∧
    Runs decodeConnectivity 514 ([0] ++ conn.bytes) mesh 514 ∧
    ctIso conn.ct conn.processed mesh.numFaces mesh.c2v mesh.opp = true := by
  have h : (match encodeConnectivity exCh.conn false bowTie #[] with | .ok _ => true | .error _ => false) = true := by
    decide +kernel
  split at h
  · rename_i conn he
    obtain ⟨mesh, h1, h2, _⟩ := eb_connectivity_roundtrip_partial exCh.conn bowTie_noopp (by decide) (by decide) conn he
    exact ⟨conn, mesh, he, h1, h2⟩
  · exact absurd h (by decide)

/-- corollary: pairwise vertex-disjoint non-degenerate triangles with arbitrary vertex ids; in particular
    `ConnTri.TriRoundtripGoal` (`ConnNoOpp.triRoundtripGoal`) -/
theorem eb_connectivity_roundtrip_partial_disjoint (ch : ConnChoices) (pf : Faces) (hk1 : 1 ≤ pf.size)
    (hk : pf.size ≤ 2 ^ 21) (hnd : ∀ f, f < pf.size → faceDegenerate pf f = false)
    (hdis : ∀ c c', c < 3 * pf.size → c' < 3 * pf.size → c / 3 ≠ c' / 3 → inputVertex pf c ≠ inputVertex pf c')
    (conn : ConnEnc) (henc : encodeConnectivity ch false pf #[] = .ok conn) :
    ∃ mesh, Runs decodeConnectivity 514 ([0] ++ conn.bytes) mesh 514 ∧
      ctIso conn.ct conn.processed mesh.numFaces mesh.c2v mesh.opp = true ∧ mesh.atts.size = conn.atts.size :=
  eb_connectivity_roundtrip_disjoint ch pf hk1 hk hnd hdis conn henc

example (ch : ConnChoices) : EbConnectivityRoundtrip ch false (triFaces 5) #[] :=
  triRoundtripGoal ch 5 (by decide) (by decide)

/-- **eb_connectivity_roundtrip_splitfree_partial** — the connectivity link for SPLIT-FREE traversals of ARBITRARY meshes:
    a successful `encodeConnectivity` (standard traversal, no attribute data, every encoder choice `ch`) whose symbols contain
    no S (`hnoS`; then no topology split event is recorded: `noS_of_main`) and whose start faces are all boundary starts
    (`hstart`) — i.e. components traversed with C / R / L / E only: strips, fans, discs —, inside the decoder's domain checks
    (`hnf`, `hnv`, the edge-count check `hedge`) ⇒ the decoder's connectivity stage reads exactly the encoder's bytes and
    rebuilds a corner table ISOMORPHIC to the encoder's — both as the Prop `CTIso` and in the checker form `ctIso = true`
    (checker completeness `CTIsoComplete.ctIso_complete`: `CTIso ⇒ ctIso = true`, no side condition).  No hypothesis about
    running the decoder; "one start-face flag per symbol E" is proved (`StartFaceCount.hE_of_run`).  Proof: encoder trace
    (`EncTrace.trace_of_run`: timestamped invariant through the encoder's loops) → pure decoder simulation
    (`DecSim.inv_step`, `ctIso_of_inv`: the decoder's `opp` is the induced sub-table on the faces decoded so far) → monadic
    glue (`DecSim.connLoop_St`: `connLoop` on any reader state delivering the symbols returns the pure state) → stream level
    (`ConnGlue.link_of_loop'`, `encode_bytes_splitfree'`). -/
theorem eb_connectivity_roundtrip_splitfree_partial (ch : ConnChoices) (pf : Faces) (conn : ConnEnc)
    (h : encodeConnectivity ch false pf #[] = .ok conn)
    (hnoS : ∀ x, x ∈ conn.symbols.toList → x ≠ topoS)
    (hstart : ∀ b, b ∈ conn.startFaces.toList → b = false)
    (hnf : conn.processed.size ≤ 2 ^ 21)
    (hnv : conn.ct.numVertices - conn.ct.numIsolated ≤ 3 * 2 ^ 21)
    (hedge : 3 * conn.processed.size / 2 ≤
      (conn.ct.numVertices - conn.ct.numIsolated) * (conn.ct.numVertices - conn.ct.numIsolated - 1) / 2) :
    ∃ mesh, Runs decodeConnectivity 514 ([0] ++ conn.bytes) mesh 514 ∧
      ctIso conn.ct conn.processed mesh.numFaces mesh.c2v mesh.opp = true ∧
      CTIso conn.ct conn.processed mesh.numFaces mesh.c2v mesh.opp ∧ mesh.atts.size = conn.atts.size := by
  obtain ⟨mesh, h1, h2, h3⟩ := StartFaceCount.eb_connectivity_roundtrip_splitfree_closed' ch pf conn h hnoS hstart hnf hnv hedge
  exact ⟨mesh, h1, CTIsoComplete.ctIso_complete h2, h2, h3⟩

/-- a closed fan of four triangles around the interior vertex 0 (symbols C R R E) glued to nothing else -/
def fan4 : Faces := #[(0, 1, 2), (0, 2, 3), (0, 3, 4), (0, 4, 1)]
def fan4Conn : ConnEnc :=
  match encodeConnectivity exCh.conn false fan4 #[] with
  | .ok c => c
  | .error _ => default

theorem fan4Encode : encodeConnectivity exCh.conn false fan4 #[] = .ok fan4Conn := by
  have h : (match encodeConnectivity exCh.conn false fan4 #[] with | .ok _ => true | .error _ => false) = true := by
    decide +kernel
  unfold fan4Conn
  split at h
  · rename_i e he; rw [he]
  · exact absurd h (by decide)

/-- non-vacuity: the fan (a C symbol closes it), the model's own run; every hypothesis by kernel evaluation -/
example : fan4Conn.symbols = #[0, 5, 5, 7] ∧ ∃ mesh, Runs decodeConnectivity 514 ([0] ++ fan4Conn.bytes) mesh 514 ∧
    CTIso fan4Conn.ct fan4Conn.processed mesh.numFaces mesh.c2v mesh.opp :=
  ⟨by decide +kernel, by
    obtain ⟨mesh, h1, _, h2, _⟩ := eb_connectivity_roundtrip_splitfree_partial exCh.conn fan4 fan4Conn fan4Encode
      (by decide +kernel) (by decide +kernel) (by decide +kernel) (by decide +kernel) (by decide +kernel)
    exact ⟨mesh, h1, h2⟩⟩

/-- **eb_connectivity_roundtrip_noS_partial** — the connectivity link for EVERY run without the symbol S, start faces
    ARBITRARY (interior start-face configurations included: closed meshes such as the tetrahedron): `hnoS`, the decoder's domain
    checks (`hnf`, `hnv`, `hedge`, and `hsz2`: `num_faces ≤ num_symbols + num_symbols / 3`, a check the decoder makes and the
    encoder does not guarantee when an interior start face has an already visited neighbour) ⇒ `Runs decodeConnectivity` on
    the encoder's bytes, `ctIso = true` and `CTIso`.  Encoder: `EncTraceI.traceI_of_run` (`TraceI`: the init face is glued to the
    stack corner of its component, the fans of its three vertices are closed and consist of symbol faces); decoder:
    `DecSim.inv_stepI`, `connStart_I`, `connLoop_StI`, `ctIso_StI'`; assembly `ConnSplitFreeI.eb_connectivity_roundtrip_noS`. -/
theorem eb_connectivity_roundtrip_noS_partial (ch : ConnChoices) (pf : Faces) (conn : ConnEnc)
    (h : encodeConnectivity ch false pf #[] = .ok conn)
    (hnoS : ∀ x, x ∈ conn.symbols.toList → x ≠ topoS)
    (hnf : conn.processed.size ≤ 2 ^ 21)
    (hnv : conn.ct.numVertices - conn.ct.numIsolated ≤ 3 * 2 ^ 21)
    (hedge : 3 * conn.processed.size / 2 ≤
      (conn.ct.numVertices - conn.ct.numIsolated) * (conn.ct.numVertices - conn.ct.numIsolated - 1) / 2)
    (hsz2 : conn.processed.size ≤ conn.symbols.size + conn.symbols.size / 3) :
    ∃ mesh, Runs decodeConnectivity 514 ([0] ++ conn.bytes) mesh 514 ∧
      ctIso conn.ct conn.processed mesh.numFaces mesh.c2v mesh.opp = true ∧
      CTIso conn.ct conn.processed mesh.numFaces mesh.c2v mesh.opp ∧ mesh.atts.size = conn.atts.size := by
  obtain ⟨mesh, h1, h2, h3⟩ := NoSLink.eb_connectivity_roundtrip_noS_closed ch pf conn h hnoS hnf hnv hedge hsz2
  exact ⟨mesh, h1, CTIsoComplete.ctIso_complete h2, h2, h3⟩

/-- non-vacuity with an INTERIOR start face: the model's own run on the tetrahedron (symbols C R E, start-face flag `true`);
    every hypothesis by kernel evaluation -/
example : NoSLink.tetraConn.startFaces = #[true] ∧
    ∃ mesh, Runs decodeConnectivity 514 ([0] ++ NoSLink.tetraConn.bytes) mesh 514 ∧
      ctIso NoSLink.tetraConn.ct NoSLink.tetraConn.processed mesh.numFaces mesh.c2v mesh.opp = true :=
  ⟨by decide +kernel, by
    obtain ⟨mesh, h1, h2, _⟩ := eb_connectivity_roundtrip_noS_partial exCh.conn NoSLink.tetra NoSLink.tetraConn
      NoSLink.tetraEncode (by decide +kernel) (by decide +kernel) (by decide +kernel) (by decide +kernel)
      (by decide +kernel)
    exact ⟨mesh, h1, h2⟩⟩

/-- **eb_connectivity_roundtrip_withS_partial** — the connectivity link for ARBITRARY runs of the standard traversal without
    attribute data, S symbols and topology split events included, RESTRICTED BY ONE NAMED HYPOTHESIS about the decoder loop:
    `hrun : ConnGlueS.DecLoopIsoS conn` := there is ONE `co` such that `connLoop ⟨num_faces, num_encoded_vertices + num_split_symbols,
    num_symbols, the split events (decoder order), true⟩ tr = .ok co` for every reader state `tr` delivering the reversed symbols
    and the start-face bits, and `CTIso conn.ct conn.processed num_faces co.c2v co.opp`.  Everything at the STREAM level is
    proved from the run: the byte layout incl. the split-event data (`encode_bytes_S`, `runs_splitEvents`: the decoder reads the
    events in reversed encoding order), `EvsOK conn.splits` and `splits.size ≤ symbols.size` (`evs_of_run`, from the encoder-side
    `EncTraceS.events_of_run`), all symbols topological, `num_split_symbols ≤ num_symbols`; left: the decoder's domain checks
    (`hnf`, `hnv`, `hedge`, `hsz2`).  `DecLoopIsoS` is a THEOREM for runs without S (`NoSLink.decLoopIso_of_run` +
    `decLoopIsoS_of_noS`, instance below).  For runs WITH S its parts are proved separately (DracoProofs, see notes/ebenc.md
    "Follow-up 6"): the pure decoder state with S and split events is `CTIso` to the encoder's table
    (`eb_connectivity_withS_pure_partial` below), `connMain` computes the pure state given the per-symbol guards
    (`DecSim.connMain_StS`), `CTIso` is invariant under the compaction's renumbering (`Compact.ctIso_renumber`); not yet
    connected: the guards of the relabelling walk from the invariant, `connStart` after S, the loop of `connCompact`, and on the
    encoder's side the no-event left neighbour, `comps`, `¬ FanEarlier` of `TraceS`. -/
theorem eb_connectivity_roundtrip_withS_partial (ch : ConnChoices) (pf : Faces) (conn : ConnEnc)
    (h : encodeConnectivity ch false pf #[] = .ok conn)
    (hnf : conn.processed.size ≤ 2 ^ 21)
    (hnv : conn.ct.numVertices - conn.ct.numIsolated + conn.numSplitSymbols ≤ 3 * 2 ^ 21)
    (hedge : 3 * conn.processed.size / 2 ≤
      (conn.ct.numVertices - conn.ct.numIsolated) * (conn.ct.numVertices - conn.ct.numIsolated - 1) / 2)
    (hsz2 : conn.processed.size ≤ conn.symbols.size + conn.symbols.size / 3)
    (hrun : ConnGlueS.DecLoopIsoS conn) :
    ∃ mesh, Runs decodeConnectivity 514 ([0] ++ conn.bytes) mesh 514 ∧
      ctIso conn.ct conn.processed mesh.numFaces mesh.c2v mesh.opp = true ∧
      CTIso conn.ct conn.processed mesh.numFaces mesh.c2v mesh.opp ∧ mesh.atts.size = conn.atts.size := by
  obtain ⟨mesh, h1, h2, h3⟩ := ConnGlueS.eb_connectivity_roundtrip_withS' ch pf conn h hnf hnv hedge hsz2 hrun
  exact ⟨mesh, h1, CTIsoComplete.ctIso_complete h2, h2, h3⟩

/-- non-vacuity (a run WITHOUT S: the tetrahedron; the decoder-loop hypothesis is the theorem `NoSLink.decLoopIso_of_run`) -/
example : ∃ mesh, Runs decodeConnectivity 514 ([0] ++ NoSLink.tetraConn.bytes) mesh 514 ∧
    ctIso NoSLink.tetraConn.ct NoSLink.tetraConn.processed mesh.numFaces mesh.c2v mesh.opp = true := by
  obtain ⟨mesh, h1, h2, _⟩ := eb_connectivity_roundtrip_withS_partial exCh.conn NoSLink.tetra NoSLink.tetraConn
    NoSLink.tetraEncode (by decide +kernel) (by decide +kernel) (by decide +kernel) (by decide +kernel)
    (ConnGlueS.decLoopIsoS_of_noS _ _ _ NoSLink.tetraEncode (by decide +kernel)
      (NoSLink.decLoopIso_of_run _ _ _ NoSLink.tetraEncode (by decide +kernel)))
  exact ⟨mesh, h1, h2⟩

/-- **eb_connectivity_withS_pure_partial** — WITH S symbols and topology split events, at the level of the decoder's PURE
    state: for a table `t` with the invariants of `CornerTable.create` (`TblOK`), gate corners `P`, symbols and split events in
    decoder order satisfying the abstract encoder trace `TraceS` (per face: which neighbours are decoded earlier / later; for S:
    the right neighbour is the previous face, the left neighbour is the component below on the decoder's stack or the corner a
    split event names, and the tip's fan is not completed by this face), without interior start face (`hn`), the pure decoder
    run `StS` (steps `stepE/R/L/C/S`, `mergeV`, `applySplits`) builds tables `CTIso` (and `ctIso = true`) to `t`.  Invariant:
    the decoder's `opp` is the induced sub-table of the encoder's on the faces decoded so far (`OInv.stepS`), the vertex
    invariant is UNCHANGED by the merge (`vinv_stepS`, `vN_ne_vP` from the `¬ FanEarlier` clause), the stack / `splitActive`
    invariant `StkInv` through all five symbols. -/
theorem eb_connectivity_withS_pure_partial {t : CT} {P : Array Nat} {syms : List Nat} {evs : List TopoSplit}
    {starts : List (Bool × Nat)} (hT : Coverage.TblOK t) (hTr : DecSim.TraceS t P syms evs starts)
    (hn : P.size = syms.length) (maxV : Nat)
    (hcov : ∀ d, d < 3 * P.size → ∃ k, iter (AttViews.sRP t.opp) k t.vc[t.c2v[phi P d]!]! = phi P d)
    (hvlt : ∀ d, d < 3 * P.size → t.c2v[phi P d]! < t.numVertices) :
    CTIso t P P.size (DecSim.StS syms evs P.size maxV syms.length).c2v (DecSim.StS syms evs P.size maxV syms.length).opp ∧
    ctIso t P P.size (DecSim.StS syms evs P.size maxV syms.length).c2v (DecSim.StS syms evs P.size maxV syms.length).opp = true :=
  ⟨DecSim.ctIso_StS_closed hT hTr hn maxV hcov hvlt, DecSim.ctIso_StS_closed_check hT hTr hn maxV hcov hvlt⟩

/-- non-vacuity WITH a genuine topology split event: the annulus (3×3 quad grid minus the middle quad, 16 faces; the model's own
    run, `TraceS` by kernel evaluation on it): one split event, and the pure decoder state is `CTIso` to the encoder's table -/
example : DecSim.annConn.splits.size = 1 ∧
    CTIso DecSim.annConn.ct DecSim.annConn.processed DecSim.annConn.processed.size
      (DecSim.StS DecSim.annConn.symbols.toList.reverse DecSim.annConn.splits.toList.reverse DecSim.annConn.processed.size 19
        DecSim.annConn.symbols.toList.reverse.length).c2v
      (DecSim.StS DecSim.annConn.symbols.toList.reverse DecSim.annConn.splits.toList.reverse DecSim.annConn.processed.size 19
        DecSim.annConn.symbols.toList.reverse.length).opp :=
  DecSim.annulusPure

/-- **eb_connectivity_roundtrip_withS_boundary_partial** — the connectivity link WITH S symbols and topology split events
    (standard traversal, no attribute data, boundary start faces), `DecLoopIsoS` INSTANTIATED from its parts
    (`DecSim.decLoopIsoS_of_parts`: `connMain_StS` + `connStart_ok` + the compaction + `ctIso_StS_closed` +
    `Compact.ctIso_compact`).  Hypotheses left, each named:
    * decoder's domain checks `hnf`, `hnv`, `hedge`, `hsz2`;
    * ENCODER side `hTr : TraceS …` (the abstract trace with S; from the run: `EncTraceS2.traceS_of_run_boundary` proves it GIVEN
      `hwit` (a witness corner for `¬ FanEarlier` at every S), `hnoev` (the no-event left neighbour) and `hcomps`; everything else
      of `TraceS` — non-S faces, gate / non-degeneracy / right neighbour of S, the full `EvOK`, the event clause — is proved from
      the run, `EncTraceS.traceS_base_of_run`, `events_of_run`), `hn` and `hflags` (no interior start face);
    * DECODER side, all DECIDABLE statements about the pure decoder states (discharged by kernel evaluation on instances):
      `hG : GuardsS` at every symbol (`DecSim.GuardsSD` is its decidable form; the E / R / L checks are derived from the trace
      when `3·faces ≤ vertex bound`, `guardERL_of_inv`; the C checks and the S checks incl. the relabelling walk — `RelabelWalkOK`:
      the swing-left walk from `Next(cornerB)` on the updated `opp` ends at the boundary within the fuel, never returns, and visits
      exactly the corners of the merged vertex — are NOT derived), `hv` (the vertex bound `vc.size ≤ num_encoded_vertices +
      num_split_symbols`; reduced to two invariants in `EbVcBoundS.lean`), `hcomp` (`CompactSpec`: the compaction renumbers
      injectively; `Compact.compactCheck` is a sound decidable checker; general loop proof not done). -/
theorem eb_connectivity_roundtrip_withS_boundary_partial (ch : ConnChoices) (pf : Faces) (conn : ConnEnc)
    (h : encodeConnectivity ch false pf #[] = .ok conn)
    (hnf : conn.processed.size ≤ 2 ^ 21)
    (hnv : conn.ct.numVertices - conn.ct.numIsolated + conn.numSplitSymbols ≤ 3 * 2 ^ 21)
    (hedge : 3 * conn.processed.size / 2 ≤
      (conn.ct.numVertices - conn.ct.numIsolated) * (conn.ct.numVertices - conn.ct.numIsolated - 1) / 2)
    (hsz2 : conn.processed.size ≤ conn.symbols.size + conn.symbols.size / 3)
    (starts : List (Bool × Nat))
    (hTr : DecSim.TraceS conn.ct conn.processed conn.symbols.toList.reverse conn.splits.toList.reverse starts)
    (hn : conn.processed.size = conn.symbols.size)
    (hflags : conn.startFaces.toList = List.replicate starts.length false)
    (hG : ∀ j, j < conn.symbols.toList.reverse.length → DecSim.GuardsS conn.symbols.toList.reverse conn.splits.toList.reverse
      conn.processed.size (conn.ct.numVertices - conn.ct.numIsolated + conn.numSplitSymbols) j)
    (hv : (DecSim.StS conn.symbols.toList.reverse conn.splits.toList.reverse conn.processed.size
      (conn.ct.numVertices - conn.ct.numIsolated + conn.numSplitSymbols) conn.symbols.toList.reverse.length).vc.size ≤
        conn.ct.numVertices - conn.ct.numIsolated + conn.numSplitSymbols)
    (hcomp : ∃ co, Compact.CompactSpec ⟨conn.processed.size, conn.ct.numVertices - conn.ct.numIsolated + conn.numSplitSymbols,
        conn.symbols.toList.reverse.length, conn.splits.toList.reverse, true⟩
      (DecSim.mainS conn.symbols.toList.reverse conn.splits.toList.reverse conn.processed.size
        (conn.ct.numVertices - conn.ct.numIsolated + conn.numSplitSymbols))
      (DecSim.startOf (DecSim.mainS conn.symbols.toList.reverse conn.splits.toList.reverse conn.processed.size
        (conn.ct.numVertices - conn.ct.numIsolated + conn.numSplitSymbols))) co) :
    ∃ mesh, Runs decodeConnectivity 514 ([0] ++ conn.bytes) mesh 514 ∧
      ctIso conn.ct conn.processed mesh.numFaces mesh.c2v mesh.opp = true ∧
      CTIso conn.ct conn.processed mesh.numFaces mesh.c2v mesh.opp ∧ mesh.atts.size = conn.atts.size := by
  obtain ⟨mesh, h1, h2, h3⟩ := DecSim.eb_connectivity_roundtrip_withS_of_parts ch pf conn h hnf hnv hedge hsz2 starts hTr hn
    hflags hG hv hcomp
  exact ⟨mesh, h1, CTIsoComplete.ctIso_complete h2, h2, h3⟩

/-- non-vacuity WITH a genuine topology split event, END TO END AT THE STREAM LEVEL: the annulus (3×3 quad grid minus the middle
    quad, 16 faces; symbols contain S, one split event; the model's own run): the decoder's connectivity stage reads exactly
    the encoder's bytes and rebuilds a corner table isomorphic to the encoder's.  Every hypothesis of the theorem is discharged
    (`WithSLink.annLink`: `TraceS`, `GuardsS` via its decidable form, the vertex bound and the compaction check by kernel
    evaluation on the run). -/
example : DecSim.annConn.splits.size = 1 ∧
    ∃ mesh, Runs decodeConnectivity 514 ([0] ++ DecSim.annConn.bytes) mesh 514 ∧
      CTIso DecSim.annConn.ct DecSim.annConn.processed mesh.numFaces mesh.c2v mesh.opp :=
  ⟨WithSLink.annLink.1, by obtain ⟨mesh, h1, h2, _⟩ := WithSLink.annLink.2; exact ⟨mesh, h1, h2⟩⟩

end ConnectivityLink

end Draco.C01Eb
