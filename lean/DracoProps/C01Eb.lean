import DracoProofs.EbBasic
/-
  C01 (staging) — facts about the Edgebreaker mesh decoder model (DracoModel/Eb*.lean).
  The model is tied to the real decoder by the correspondence of C01 (tools/props/ebcases.py);
  no claim is made here that the Edgebreaker traversal itself is correct.  Proved:

  * `eb_decode_ok_valid_partial`: the part of C03-validity that the decoder *checks* while it
    builds the point → value map of an attribute (`UpdatePointToAttributeIndexMapping`): when
    that step succeeds, every corner of every face refers to a point below `numPoints`, the map
    has one entry per point and every entry is the invalid index or below `numPoints`.
    What is missing for the full `eb_decode_ok_valid` (ok ⇒ `Geometry.valid`): that every point
    occurs in some face (no entry stays invalid) and that entries are below the number of decoded
    values; both need invariants of the connectivity loop and the traversal.
  * corner arithmetic used by every table operation (`Next`/`Previous` are mutually inverse,
    stay inside the face, `Next³ = id`).
  * the standard traversal decoder yields only the five topology symbols, ≤ 3 bits each.
  * `IntSqrt` is the floor square root on an initial segment (n < 200) (by evaluation).
-/
namespace Draco.C01Eb
open Draco Draco.Eb

/-- `UpdatePointToAttributeIndexMapping` succeeded ⇒ faces and map entries are in range. -/
theorem eb_decode_ok_valid_partial (t : TView) (faces : Array Nat) (np : Nat) (v2d m : Array Nat)
    (h : pointToValueMap t faces np v2d = .ok m) :
    m.size = np ∧
    (∀ p (hp : p < m.size), m[p] = inv ∨ m[p] < np) ∧
    (∀ k, k < 3 * t.numFaces → ∃ hk : k < faces.size, faces[k] < np) := by
  unfold pointToValueMap at h
  obtain ⟨hm, hf⟩ := pointToValueLoop_ok (3 * t.numFaces) 0 _ m (mapOk_replicate np) h
  exact ⟨hm.1, hm.2, fun k hk => hf k (Nat.zero_le _) (by omega)⟩

/-- non-vacuity: one triangle, identity vertex → value map -/
example :
    pointToValueMap { c2v := #[0, 1, 2], opp := #[inv, inv, inv], seam := #[], lm := #[0, 1, 2],
                      isAtt := false, numFaces := 1 } #[0, 1, 2] 3 #[2, 0, 1] = .ok #[2, 0, 1] := by
  rfl

/-- a face index beyond the number of points is rejected -/
example :
    pointToValueMap { c2v := #[0, 1, 2], opp := #[inv, inv, inv], seam := #[], lm := #[0, 1, 2],
                      isAtt := false, numFaces := 1 } #[0, 1, 7] 3 #[2, 0, 1] = .error .fail := by
  rfl

/-- `Previous(Next(c)) = c` -/
theorem corner_prev_next (c : Nat) (h : c < inv) : prevC (nextC c) = c := prevC_nextC c h
/-- `Next(Previous(c)) = c` -/
theorem corner_next_prev (c : Nat) (h : c < inv) : nextC (prevC c) = c := nextC_prevC c h
/-- `Next(Next(Next(c))) = c` -/
theorem corner_next_three (c : Nat) (h : c < inv) : nextC (nextC (nextC c)) = c := nextC_three c h
/-- `Next` and `Previous` stay in the face `c / 3` -/
theorem corner_same_face (c : Nat) (h : c ≠ inv) : nextC c / 3 = c / 3 ∧ prevC c / 3 = c / 3 :=
  ⟨nextC_face c h, prevC_face c h⟩

example : prevC (nextC 5) = 5 ∧ nextC 5 = 3 ∧ nextC (nextC (nextC 4)) = 4 := by decide

/-- the invalid corner is a fixed point of both (the C++ returns the argument) -/
theorem corner_invalid_fixed : nextC inv = inv ∧ prevC inv = inv := by decide

/-- `MeshEdgebreakerTraversalDecoder::DecodeSymbol` returns one of TOPOLOGY_C/S/L/R/E (the "unknown
    symbol" exit of the connectivity loop is dead for the standard traversal) and consumes at most
    three bits, also past the end of the data -/
theorem eb_standard_symbol_spec (r : BitReader) :
    (decodeSymbolStd r).1 ∈ [topoC, topoS, topoL, topoR, topoE] ∧
    (decodeSymbolStd r).2.decoded ≤ r.decoded + 3 := decodeSymbolStd_spec r

example : (decodeSymbolStd (BitReader.start [7])).1 = topoE ∧ (decodeSymbolStd (BitReader.start [])).1 = topoC
    ∧ (decodeSymbolStd (BitReader.start [5])).1 = topoR := by decide

set_option maxRecDepth 20000 in
/-- `IntSqrt` is the floor square root for every argument below 200 -/
theorem intSqrt_floor_small : ∀ n < 200, intSqrt n ^ 2 ≤ n ∧ n < (intSqrt n + 1) ^ 2 := by
  decide

example : intSqrt 1000000 = 1000 ∧ intSqrt 999999 = 999 ∧ intSqrt (2 ^ 64 - 1) = 2 ^ 32 - 1 := by
  decide

end Draco.C01Eb
