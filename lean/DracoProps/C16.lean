import DracoProofs.Wrap
import DracoProofs.Octahedron
import DracoProofs.GeneratedFuncs
import DracoProofs.GeneratedPred
/-
  C16 — prediction-correction transforms are exactly invertible.

  Wrap transform (`PredictionSchemeWrap{Encoding,Decoding}Transform<int32_t>`):
    * `wrap_roundtrip`          — the FULL property (any [min,max] with max−min < 2^31−1, any 32-bit
      prediction) for the decoder as written after the `fix:` commit for finding F1;
    * history (model `Wrap.decOrigUnfixed` of the decoder before the fix):
      `wrap_roundtrip_prefix_partial` (needed two no-overflow hypotheses), `wrap_counterexample`,
      `wrap_roundtrip_false` (without them the property was FALSE of the code; replayed on the
      real classes), `wrap_fix_agrees_with_prefix` (the fix changes nothing where no overflow occurs);
    * `wrap_corr_in_range`      — corrections lie in `[min_correction, max_correction]`
      (encoder only, no overflow hypothesis), `wrap_init_defined` — `InitCorrectionBounds`
      succeeds exactly when `0 ≤ max − min < 2^31 − 1`.
  Octahedral transforms:
    * `octa_roundtrip` (every center value `1 ≤ c < 2^29`), `octa_roundtrip_q` (every
      `q = 2..30`), `octa_legacy_roundtrip_q` (legacy transform), and
      `octa_noncanonical_counterexample` (why `canonical` is a hypothesis).
-/
namespace Draco

/-! ## wrap transform -/

/-- `InitCorrectionBounds` succeeds on the whole declared domain `0 ≤ max − min < 2^31 − 1`
    (and only there). -/
theorem wrap_init_defined (lo hi : Int) :
    (∃ t, Wrap.init lo hi = some t) ↔ (lo ≤ hi ∧ hi - lo < 2^31 - 1) := by
  rw [Wrap.init_some_iff]; constructor <;> (intro h; omega)

example : ∃ t, Wrap.init (-2^31) (-3) = some t := (wrap_init_defined _ _).2 (by decide)

/-- The decoder **as written**: for every range `[lo, hi]` of int32 values accepted by
    `InitCorrectionBounds`, every original value in the range and every predicted value
    (`pred` is an arbitrary integer, in particular any int32, also far outside the range),
    PROVIDED the two sums below do not leave int32, decoding the correction returns the original,
    and the correction lies in the announced interval. -/
theorem wrap_roundtrip_prefix_partial (t : WrapT) (lo hi orig pred : Int)
    (hinit : Wrap.init lo hi = some t)
    (hlo : -2^31 ≤ lo) (hhi : hi < 2^31) (ho1 : lo ≤ orig) (ho2 : orig ≤ hi)
    (hov1 : hi + t.maxCorr < 2^31) (hov2 : -2^31 ≤ lo + t.minCorr) :
    Wrap.decOrigUnfixed t pred (Wrap.encCorr t orig pred) = orig ∧
      t.minCorr ≤ Wrap.encCorr t orig pred ∧ Wrap.encCorr t orig pred ≤ t.maxCorr := by
  obtain ⟨hb, hd0, hd⟩ := Wrap.init_bounds hinit
  exact ⟨Wrap.decOrigUnfixed_encCorr hb hd0 hd hlo hhi orig pred ho1 ho2 hov1 hov2,
    Wrap.encCorr_bounds hb hd0 hd hlo hhi orig pred ho1 ho2⟩

/-- non-vacuity: a range around 0, a prediction far outside of it -/
example : Wrap.decOrigUnfixed ⟨-1000, 3000, 4001, 2000, -2000⟩ (2^31 - 1)
      (Wrap.encCorr ⟨-1000, 3000, 4001, 2000, -2000⟩ (-999) (2^31 - 1)) = -999 :=
  (wrap_roundtrip_prefix_partial ⟨-1000, 3000, 4001, 2000, -2000⟩ (-1000) 3000 (-999) (2^31 - 1)
    (by decide) (by decide) (by decide) (by decide) (by decide) (by decide) (by decide)).1

/-- The full statement (without the two overflow hypotheses) is FALSE of the code as written:
    `min = 2^30, max = 2^31−1, orig = 2^30, pred = 2^31−11` gives correction `11` and decodes
    to `−2^30` (the uint32 sum `2^31−1 + 11` is converted to int32 before the range test).
    Replayed on the real `PredictionSchemeWrap{Encoding,Decoding}Transform<int,int>`. -/
theorem wrap_counterexample :
    Wrap.init (2^30) (2^31 - 1) = some ⟨2^30, 2^31 - 1, 2^30, 2^29 - 1, -2^29⟩ ∧
    Wrap.encCorr ⟨2^30, 2^31 - 1, 2^30, 2^29 - 1, -2^29⟩ (2^30) (2^31 - 11) = 11 ∧
    Wrap.decOrigUnfixed ⟨2^30, 2^31 - 1, 2^30, 2^29 - 1, -2^29⟩ (2^31 - 11) 11 = -2^30 := by
  decide

/-- … hence the unconditional round trip does not hold for `Wrap.decOrigUnfixed`. -/
theorem wrap_roundtrip_false :
    ¬ ∀ (t : WrapT) (lo hi orig pred : Int), Wrap.init lo hi = some t →
        -2^31 ≤ lo → hi < 2^31 → lo ≤ orig → orig ≤ hi → -2^31 ≤ pred → pred < 2^31 →
        Wrap.decOrigUnfixed t pred (Wrap.encCorr t orig pred) = orig := by
  intro h
  have := h ⟨2^30, 2^31 - 1, 2^30, 2^29 - 1, -2^29⟩ (2^30) (2^31 - 1) (2^30) (2^31 - 11)
    (by decide) (by decide) (by decide) (by decide) (by decide) (by decide) (by decide)
  revert this
  decide

/-- The FULL property for the repaired decoder (sum formed in 64 bits before the range test):
    any `[lo, hi]` of int32 values with `hi − lo < 2^31 − 1` (that is: `init` succeeds), any
    original in the range, any prediction — no overflow hypotheses. -/
theorem wrap_roundtrip (t : WrapT) (lo hi orig pred : Int)
    (hinit : Wrap.init lo hi = some t)
    (hlo : -2^31 ≤ lo) (hhi : hi < 2^31) (ho1 : lo ≤ orig) (ho2 : orig ≤ hi) :
    Wrap.decOrig t pred (Wrap.encCorr t orig pred) = orig ∧
      t.minCorr ≤ Wrap.encCorr t orig pred ∧ Wrap.encCorr t orig pred ≤ t.maxCorr := by
  obtain ⟨hb, hd0, hd⟩ := Wrap.init_bounds hinit
  exact ⟨Wrap.decOrig_encCorr hb hd0 hd hlo hhi orig pred ho1 ho2,
    Wrap.encCorr_bounds hb hd0 hd hlo hhi orig pred ho1 ho2⟩

/-- non-vacuity: exactly the input on which the decoder as written fails -/
example : Wrap.decOrig ⟨2^30, 2^31 - 1, 2^30, 2^29 - 1, -2^29⟩ (2^31 - 11)
      (Wrap.encCorr ⟨2^30, 2^31 - 1, 2^30, 2^29 - 1, -2^29⟩ (2^30) (2^31 - 11)) = 2^30 :=
  (wrap_roundtrip _ (2^30) (2^31 - 1) (2^30) (2^31 - 11)
    (by decide) (by decide) (by decide) (by decide) (by decide)).1

/-- componentwise version for whole entries (`num_components` values) -/
theorem wrap_roundtrip_vec (t : WrapT) (lo hi : Int) (orig pred : List Int)
    (hinit : Wrap.init lo hi = some t) (hlo : -2^31 ≤ lo) (hhi : hi < 2^31)
    (hlen : orig.length = pred.length) (ho : ∀ x ∈ orig, lo ≤ x ∧ x ≤ hi) :
    Wrap.decOrigV t pred (Wrap.encCorrV t orig pred) = orig := by
  unfold Wrap.decOrigV Wrap.encCorrV
  induction orig generalizing pred with
  | nil => cases pred <;> simp
  | cons o os ih =>
    cases pred with
    | nil => simp at hlen
    | cons p ps =>
      simp only [List.zipWith_cons_cons, List.cons.injEq]
      refine ⟨(wrap_roundtrip t lo hi o p hinit hlo hhi
        (ho o (by simp)).1 (ho o (by simp)).2).1, ?_⟩
      exact ih ps (by simpa using hlen) (fun x hx => ho x (by simp [hx]))

example : Wrap.decOrigV ⟨0, 10, 11, 5, -5⟩ [100, -100, 3]
    (Wrap.encCorrV ⟨0, 10, 11, 5, -5⟩ [0, 10, 7] [100, -100, 3]) = [0, 10, 7] :=
  wrap_roundtrip_vec _ 0 10 _ _ (by decide) (by decide) (by decide) rfl (by decide)

/-- where no overflow occurs the two decoders agree (so the repair does not change the
    decoding of any stream the old encoder/decoder pair handled correctly) -/
theorem wrap_fix_agrees_with_prefix (t : WrapT) (lo hi pred corr : Int)
    (hinit : Wrap.init lo hi = some t) (hlo : -2^31 ≤ lo) (hhi : hi < 2^31)
    (hs1 : -2^31 ≤ Wrap.clamp t pred + corr) (hs2 : Wrap.clamp t pred + corr < 2^31) :
    Wrap.decOrig t pred corr = Wrap.decOrigUnfixed t pred corr := by
  obtain ⟨hb, hd0, hd⟩ := Wrap.init_bounds hinit
  exact Wrap.decOrig_eq_decOrigUnfixed hb hd0 hd hlo hhi pred corr hs1 hs2

example : Wrap.decOrig ⟨0, 10, 11, 5, -5⟩ 100 (-4) = Wrap.decOrigUnfixed ⟨0, 10, 11, 5, -5⟩ 100 (-4) :=
  wrap_fix_agrees_with_prefix _ 0 10 100 (-4) (by decide) (by decide) (by decide) (by decide) (by decide)

/-- `EncodeTransformData` / `DecodeTransformData`: the decoder reconstructs the same transform
    and consumes exactly the 8 bytes written -/
theorem wrap_transform_data_roundtrip (t : WrapT) (lo hi : Int) (rest : Bytes)
    (hinit : Wrap.init lo hi = some t) (hlo : -2^31 ≤ lo) (hhi : hi < 2^31) :
    Wrap.decodeTransformData (Wrap.encodeTransformData t ++ rest) = some (t, rest) :=
  Wrap.transformData_roundtrip hinit hlo hhi rest

example : Wrap.decodeTransformData (Wrap.encodeTransformData ⟨-3, 10, 14, 6, -7⟩ ++ [1, 2]) =
    some (⟨-3, 10, 14, 6, -7⟩, [1, 2]) :=
  wrap_transform_data_roundtrip _ (-3) 10 _ (by decide) (by decide) (by decide)

/-! ## octahedral transforms -/

/-- `InvertDiamond` on center-relative coordinates in `[-c, c]²` is the reflection of each
    quadrant triangle along its diamond edge (no uint32 wrap, all halved values even). -/
theorem invertDiamond_closed_form (c : Int) (h0 : 0 ≤ c) (h29 : c < 2^29) (s t : Int)
    (h1 : -c ≤ s) (h2 : s ≤ c) (h3 : -c ≤ t) (h4 : t ≤ c) :
    Octa.invertDiamond (Octa.ofCenter c) (s, t) =
      if s ≥ 0 ∧ t ≥ 0 then (c - t, c - s)
      else if s ≤ 0 ∧ t ≤ 0 then (-c - t, -c - s)
      else if s > 0 then (t + c, s - c)
      else (t - c, s + c) := by
  have _ := h0
  exact Octa.invertDiamond_closed_form (Octa.ofCenter c) h29 (s, t) h1 h2 h3 h4

example : Octa.invertDiamond (Octa.ofCenter 3) (3, -1) = (2, 0) := by
  rw [invertDiamond_closed_form 3 (by decide) (by decide) 3 (-1)
    (by decide) (by decide) (by decide) (by decide)]
  decide

/-- C16 for the canonicalized octahedral transform, for EVERY center value `1 ≤ c < 2^29`
    (the bound is where the model's explicit uint32 arithmetic would start to wrap; it covers
    every `c = 2^(q−1) − 1`, `q = 2..30`): for every canonical original in the grid and every
    predicted point of the grid `[0, 2c]²` (canonical or not) the decoder returns the original
    and both correction components lie in `[0, 2c]`. -/
theorem octa_roundtrip (c : Int) (h1 : 1 ≤ c) (h29 : c < 2^29) (orig pred : Int × Int)
    (hcan : Octa.canonical (Octa.ofCenter c) orig)
    (ho : Octa.inGrid (Octa.ofCenter c) orig) (hp : Octa.inGrid (Octa.ofCenter c) pred) :
    Octa.decOrig (Octa.ofCenter c) pred (Octa.encCorr (Octa.ofCenter c) orig pred) = orig ∧
      0 ≤ (Octa.encCorr (Octa.ofCenter c) orig pred).1 ∧
      (Octa.encCorr (Octa.ofCenter c) orig pred).1 ≤ 2 * c ∧
      0 ≤ (Octa.encCorr (Octa.ofCenter c) orig pred).2 ∧
      (Octa.encCorr (Octa.ofCenter c) orig pred).2 ≤ 2 * c :=
  Octa.octa_roundtrip_wf (Octa.ofCenter c) ⟨rfl, rfl, h1, h29⟩ orig pred hcan ho hp

/-- non-vacuity: `c = 3`, an original on the right edge, a non-canonical corner prediction -/
example : Octa.decOrig (Octa.ofCenter 3) (0, 6) (Octa.encCorr (Octa.ofCenter 3) (6, 4) (0, 6))
    = (6, 4) :=
  (octa_roundtrip 3 (by decide) (by decide) (6, 4) (0, 6) (by decide) (by decide) (by decide)).1

/-- … in particular for every quantization `q = 2..30` accepted by `SetQuantizationBits`. -/
theorem octa_roundtrip_q (q : Nat) (t : OctaT) (hinit : Octa.init q = some t)
    (orig pred : Int × Int)
    (hcan : Octa.canonical t orig) (ho : Octa.inGrid t orig) (hp : Octa.inGrid t pred) :
    Octa.decOrig t pred (Octa.encCorr t orig pred) = orig ∧
      Octa.inGrid t (Octa.encCorr t orig pred) :=
  Octa.octa_roundtrip_wf t (Octa.init_wf hinit).1 orig pred hcan ho hp

example : Octa.init 30 = some ⟨30, 2^30 - 1, 2^30 - 2, 2^29 - 1⟩ := by decide

example : Octa.decOrig ⟨30, 2^30 - 1, 2^30 - 2, 2^29 - 1⟩ (2^30 - 2, 0)
    (Octa.encCorr ⟨30, 2^30 - 1, 2^30 - 2, 2^29 - 1⟩ (0, 5) (2^30 - 2, 0)) = (0, 5) :=
  (octa_roundtrip_q 30 _ (by decide) (0, 5) (2^30 - 2, 0) (by decide) (by decide) (by decide)).1

/-- `SetQuantizationBits` accepts exactly `q = 2..30`. -/
theorem octa_init_defined (q : Nat) : (∃ t, Octa.init q = some t) ↔ (2 ≤ q ∧ q ≤ 30) := by
  unfold Octa.init
  constructor
  · rintro ⟨t, h⟩; split at h
    · cases h
    · omega
  · intro h
    have : ¬ (q < 2 ∨ q > 30) := by omega
    simp only [this, if_false]; exact ⟨_, rfl⟩

example : ∃ t, Octa.init 2 = some t := (octa_init_defined 2).2 (by decide)

/-- the same for the legacy (non canonicalized) transform -/
theorem octa_legacy_roundtrip_q (q : Nat) (t : OctaT) (hinit : Octa.init q = some t)
    (orig pred : Int × Int)
    (hcan : Octa.canonical t orig) (ho : Octa.inGrid t orig) (hp : Octa.inGrid t pred) :
    Octa.legacyDecOrig t pred (Octa.legacyEncCorr t orig pred) = orig ∧
      Octa.inGrid t (Octa.legacyEncCorr t orig pred) :=
  Octa.legacy_roundtrip_wf t (Octa.init_wf hinit).1 orig pred hcan ho hp

example : Octa.legacyDecOrig ⟨3, 7, 6, 3⟩ (0, 6) (Octa.legacyEncCorr ⟨3, 7, 6, 3⟩ (6, 4) (0, 6))
    = (6, 4) :=
  (octa_legacy_roundtrip_q 3 _ (by decide) (6, 4) (0, 6) (by decide) (by decide) (by decide)).1

/-- Why `canonical` is a hypothesis: the non-canonical grid point `(6, 2)` (`c = 3`, relative
    `(3, −1)`) with a prediction outside the diamond decodes to its canonical twin `(6, 4)`:
    `InvertDiamond` maps `(3,−1) ↦ (2,0) ↦ (3,1)`. The encoder never emits such an original
    (`octa_coords_in_square`, C07). -/
theorem octa_noncanonical_counterexample :
    Octa.inGrid (Octa.ofCenter 3) (6, 2) ∧ ¬ Octa.canonical (Octa.ofCenter 3) (6, 2) ∧
    Octa.decOrig (Octa.ofCenter 3) (0, 0) (Octa.encCorr (Octa.ofCenter 3) (6, 2) (0, 0))
      = (6, 4) := by
  decide

/-! ## the source functions *are* the model functions

  `Generated.*` (lean/Generated/Funcs.lean) is translated mechanically from clang's typed AST of /repo's
  working tree on every run (tools/vlib/xlate.py), with the C integer semantics explicit.  Each theorem
  below states that the translated C++ function equals the hand-written model function the theorems
  above are about — on the range of its C argument types, resp. on the documented precondition in which
  the C++ has no signed overflow.  A change of one of these functions in /repo changes the generated
  definition and breaks the theorem. -/
open Generated in
/-- `OctahedronToolBox::ModMax` is `Octa.modMax` (every `int32_t` argument) -/
theorem source_modMax_is_model (t : OctaT) (x : Int) (hwf : t.WF) (hx : I32 x) :
    OctahedronToolBox.ModMax (ofOctaT t) x = Octa.modMax t x := ModMax_eq_model t x hwf hx
example : Generated.OctahedronToolBox.ModMax (Generated.ofOctaT (Octa.ofCenter 127)) 200 = -55 := by
  rw [source_modMax_is_model _ _ (by unfold OctaT.WF Octa.ofCenter; decide) (by decide)]; decide

open Generated in
/-- `OctahedronToolBox::MakePositive` is `Octa.makePositive` -/
theorem source_makePositive_is_model (t : OctaT) (x : Int) (hwf : t.WF) (hx : I32 x) :
    OctahedronToolBox.MakePositive (ofOctaT t) x = Octa.makePositive t x := MakePositive_eq_model t x hwf hx
example : Generated.OctahedronToolBox.MakePositive (Generated.ofOctaT (Octa.ofCenter 127)) (-5) = 250 := by
  rw [source_makePositive_is_model _ _ (by unfold OctaT.WF Octa.ofCenter; decide) (by decide)]; decide

open Generated in
/-- `OctahedronToolBox::IsInDiamond` is `Octa.isInDiamond` (all arguments) -/
theorem source_isInDiamond_is_model (t : OctaT) (s tt : Int) (hwf : t.WF) :
    OctahedronToolBox.IsInDiamond (ofOctaT t) s tt = Octa.isInDiamond t s tt := IsInDiamond_eq_model t s tt hwf
example : Generated.OctahedronToolBox.IsInDiamond (Generated.ofOctaT (Octa.ofCenter 127)) 100 (-28) = false := by
  rw [source_isInDiamond_is_model _ _ _ (by unfold OctaT.WF Octa.ofCenter; decide)]; decide

open Generated in
/-- `OctahedronToolBox::InvertDiamond` is `Octa.invertDiamond` (every pair of `int32_t`) -/
theorem source_invertDiamond_is_model (t : OctaT) (s tt : Int) (hwf : t.WF) (hs : I32 s) (ht : I32 tt) :
    OctahedronToolBox.InvertDiamond (ofOctaT t) s tt = Octa.invertDiamond t (s, tt) :=
  InvertDiamond_eq_model t s tt hwf hs ht
example : Generated.OctahedronToolBox.InvertDiamond (Generated.ofOctaT (Octa.ofCenter 127)) 100 (-90) = (37, -27) := by
  rw [source_invertDiamond_is_model _ _ _ (by unfold OctaT.WF Octa.ofCenter; decide) (by decide) (by decide)]; decide

open Generated in
/-- `…CanonicalizedTransformBase::GetRotationCount` is `Octa.rotationCount` -/
theorem source_rotationCount_is_model (p : Int × Int) :
    PredictionSchemeNormalOctahedronCanonicalizedTransformBase.GetRotationCount p = (Octa.rotationCount p : Int) :=
  GetRotationCount_eq_model p

open Generated in
/-- `…CanonicalizedTransformBase::RotatePoint` is `Octa.rotatePoint` (components: `int32_t` other than `INT_MIN`,
    whose negation is undefined) -/
theorem source_rotatePoint_is_model (p : Int × Int) (r : Nat)
    (h1 : -2^31 < p.1 ∧ p.1 < 2^31) (h2 : -2^31 < p.2 ∧ p.2 < 2^31) :
    PredictionSchemeNormalOctahedronCanonicalizedTransformBase.RotatePoint p r = Octa.rotatePoint p r :=
  RotatePoint_eq_model p r h1 h2
example : Generated.PredictionSchemeNormalOctahedronCanonicalizedTransformBase.RotatePoint (3, -4) (3 : Nat) = (4, 3) := by
  rw [source_rotatePoint_is_model _ _ (by decide) (by decide)]; decide

open Generated in
/-- `…CanonicalizedTransformBase::IsInBottomLeft` is `Octa.isInBottomLeft` -/
theorem source_isInBottomLeft_is_model (p : Int × Int) :
    PredictionSchemeNormalOctahedronCanonicalizedTransformBase.IsInBottomLeft p = Octa.isInBottomLeft p :=
  IsInBottomLeft_eq_model p

open Generated in
/-- one iteration of `PredictionSchemeWrapTransformBase::ClampPredictedValue` on component i is `Wrap.clamp` -/
theorem source_wrapClamp_is_model (t : WrapT) (nc p : Int) :
    PredictionSchemeWrapTransformBase.ClampPredictedValue_elem (ofWrapT t nc) p = Wrap.clamp t p :=
  ClampPredictedValue_eq_model t nc p

open Generated in
/-- `PredictionSchemeWrapTransformBase::InitCorrectionBounds` is `Wrap.init` (result flag and new state), for
    every `int32_t` `min_value_`, `max_value_` -/
theorem source_wrapInit_is_model (self : PredictionSchemeWrapTransformBase)
    (hmin : I32 self.min_value_) (hmax : I32 self.max_value_) :
    PredictionSchemeWrapTransformBase.InitCorrectionBounds self = initResult self :=
  InitCorrectionBounds_eq_model self hmin hmax
example : (Generated.PredictionSchemeWrapTransformBase.InitCorrectionBounds ⟨3, -1000, 3000, 0, 0, 0⟩) =
    (true, ⟨3, -1000, 3000, 4001, 2000, -2000⟩) := by
  rw [source_wrapInit_is_model _ (by decide) (by decide)]; decide

open Generated in
/-- one iteration of `PredictionSchemeWrapDecodingTransform::ComputeOriginalValue` on component i is
    `Wrap.decOrig`, for every `int32_t` prediction, correction and bounds -/
theorem source_wrapDecode_is_model (t : WrapT) (nc pred corr : Int)
    (hmin : I32 t.minV) (hmax : I32 t.maxV) (hp : I32 pred) (hc : I32 corr) :
    PredictionSchemeWrapDecodingTransform.ComputeOriginalValue_elem (ofWrapT t nc) pred corr = Wrap.decOrig t pred corr :=
  ComputeOriginalValue_eq_model t nc pred corr hmin hmax hp hc
example : Generated.PredictionSchemeWrapDecodingTransform.ComputeOriginalValue_elem
    (Generated.ofWrapT ⟨-1000, 3000, 4001, 2000, -2000⟩ 3) (2^31 - 1) (-3999) = -999 := by
  rw [source_wrapDecode_is_model _ _ _ _ (by decide) (by decide) (by decide) (by decide)]; decide

open Generated in
/-- one iteration of `PredictionSchemeWrapEncodingTransform::ComputeCorrection` on component i is
    `Wrap.encCorr`, in every state produced by a successful `InitCorrectionBounds` on `int32_t` bounds -/
theorem source_wrapEncode_is_model (t : WrapT) (lo hi nc orig pred : Int) (hinit : Wrap.init lo hi = some t)
    (hlo : I32 lo) (hhi : I32 hi) (ho : I32 orig) (hp : I32 pred) :
    PredictionSchemeWrapEncodingTransform.ComputeCorrection_elem (ofWrapT t nc) orig pred = Wrap.encCorr t orig pred :=
  ComputeCorrection_eq_model t lo hi nc orig pred hinit hlo hhi ho hp
example : Generated.PredictionSchemeWrapEncodingTransform.ComputeCorrection_elem
    (Generated.ofWrapT ⟨-1000, 3000, 4001, 2000, -2000⟩ 3) (-999) (2^31 - 1) = -3999 + 4001 := by
  rw [source_wrapEncode_is_model _ (-1000) 3000 _ _ _ (by decide) (by decide) (by decide) (by decide) (by decide)]; decide

open Generated in
/-- `AddAsUnsigned<int32_t>` is the `uint32_t` sum converted back (`wrap32`) -/
theorem source_addAsUnsigned_is_model (a b : Int) : AddAsUnsigned a b = wrap32 (a + b) :=
  AddAsUnsigned_eq_model a b

open Generated in
/-- `MostSignificantBit` (gcc/clang: `31 ^ __builtin_clz(n)`) is `Octa.msb` for every non-zero `uint32_t` -/
theorem source_msb_is_model (n : Int) (hn : U32 n) (h0 : n ≠ 0) :
    MostSignificantBit n = (Octa.msb n.toNat : Int) := MostSignificantBit_eq_model n hn h0
example : Generated.MostSignificantBit 255 = 7 := by
  rw [source_msb_is_model _ (by decide) (by decide)]; decide

open Generated in
/-- `PredictionSchemeNormalOctahedronCanonicalizedDecodingTransform::ComputeOriginalValue(Point2, Point2)` — the whole
    function, with its calls of `IsInDiamond`, `InvertDiamond`, `IsInBottomLeft`, `GetRotationCount`, `RotatePoint`,
    `AddAsUnsigned`, `ModMax` — is `Octa.decOrig`, for every prediction on the grid and every correction -/
theorem source_octaDecode_is_model (t : OctaT) (pred corr : Int × Int) (hwf : t.WF) (hg : Octa.inGrid t pred) :
    PredictionSchemeNormalOctahedronCanonicalizedDecodingTransform.ComputeOriginalValue (ofOctaT t) pred corr =
      Octa.decOrig t pred corr := octaDecode_eq_model t pred corr hwf hg
example : Generated.PredictionSchemeNormalOctahedronCanonicalizedDecodingTransform.ComputeOriginalValue
    (Generated.ofOctaT (Octa.ofCenter 127)) (200, 13) (7, 250) = Octa.decOrig (Octa.ofCenter 127) (200, 13) (7, 250) :=
  source_octaDecode_is_model _ _ _ (by unfold OctaT.WF Octa.ofCenter; decide) (by unfold Octa.inGrid Octa.ofCenter; decide)

open Generated in
/-- `PredictionSchemeNormalOctahedronCanonicalizedEncodingTransform::ComputeCorrection(Point2, Point2)` is
    `Octa.encCorr`, for every original and prediction on the grid -/
theorem source_octaEncode_is_model (t : OctaT) (orig pred : Int × Int) (hwf : t.WF)
    (ho : Octa.inGrid t orig) (hg : Octa.inGrid t pred) :
    PredictionSchemeNormalOctahedronCanonicalizedEncodingTransform.ComputeCorrection (ofOctaT t) orig pred =
      Octa.encCorr t orig pred := octaEncode_eq_model t orig pred hwf ho hg
example : Generated.PredictionSchemeNormalOctahedronCanonicalizedEncodingTransform.ComputeCorrection
    (Generated.ofOctaT (Octa.ofCenter 127)) (3, 77) (200, 13) = Octa.encCorr (Octa.ofCenter 127) (3, 77) (200, 13) :=
  source_octaEncode_is_model _ _ _ (by unfold OctaT.WF Octa.ofCenter; decide) (by unfold Octa.inGrid Octa.ofCenter; decide) (by unfold Octa.inGrid Octa.ofCenter; decide)

open Generated in
/-- the legacy (bitstream < 2.2) `PredictionSchemeNormalOctahedronDecodingTransform::ComputeOriginalValue(Point2, Point2)`
    — with the `VectorD<uint32_t,2>` round trips of its additions — is `Octa.legacyDecOrig`, for EVERY prediction and
    correction -/
theorem source_octaLegacyDecode_is_model (t : OctaT) (pred corr : Int × Int) (hwf : t.WF) :
    PredictionSchemeNormalOctahedronDecodingTransform.ComputeOriginalValue (ofOctaT t) pred corr =
      Octa.legacyDecOrig t pred corr := legacyDecode_eq_model t pred corr hwf
example : Generated.PredictionSchemeNormalOctahedronDecodingTransform.ComputeOriginalValue
    (Generated.ofOctaT (Octa.ofCenter 127)) (200, 13) (7, 250) = Octa.legacyDecOrig (Octa.ofCenter 127) (200, 13) (7, 250) :=
  source_octaLegacyDecode_is_model _ _ _ (by unfold OctaT.WF Octa.ofCenter; decide)

open Generated in
/-- the legacy `PredictionSchemeNormalOctahedronEncodingTransform::ComputeCorrection(Point2, Point2)` is
    `Octa.legacyEncCorr` on the grid -/
theorem source_octaLegacyEncode_is_model (t : OctaT) (orig pred : Int × Int) (hwf : t.WF)
    (ho : Octa.inGrid t orig) (hg : Octa.inGrid t pred) :
    PredictionSchemeNormalOctahedronEncodingTransform.ComputeCorrection (ofOctaT t) orig pred =
      Octa.legacyEncCorr t orig pred := legacyEncode_eq_model t orig pred hwf ho hg
example : Generated.PredictionSchemeNormalOctahedronEncodingTransform.ComputeCorrection
    (Generated.ofOctaT (Octa.ofCenter 127)) (3, 77) (200, 13) = Octa.legacyEncCorr (Octa.ofCenter 127) (3, 77) (200, 13) :=
  source_octaLegacyEncode_is_model _ _ _ (by unfold OctaT.WF Octa.ofCenter; decide) (by unfold Octa.inGrid Octa.ofCenter; decide) (by unfold Octa.inGrid Octa.ofCenter; decide)

open Generated in
/-- the loop body of `ComputeParallelogramPrediction<CornerTable, int32_t>` (five statements, cut out of the translated
    function by AST position): component `c` of the prediction is `next + prev − opp` formed in `int64_t` and converted to
    `int32_t` (`wrap32`) — what the model's `parallelogramPrediction` pushes — for all `int32_t` data and in-range indices -/
theorem source_parallelogramComponent_is_model (inData : Int → Int) (vn vp vo c : Int)
    (hd : ∀ i, I32 (inData i)) (h1 : I32 (vn + c)) (h2 : I32 (vp + c)) (h3 : I32 (vo + c)) :
    (ComputeParallelogramPrediction_component inData vn c vp vo).2.2.2.2 =
      [(c, wrap32 (inData (vn + c) + inData (vp + c) - inData (vo + c)))] ∧
    (ComputeParallelogramPrediction_component inData vn c vp vo).2.2.2.1 =
      inData (vn + c) + inData (vp + c) - inData (vo + c) :=
  ComputeParallelogramPrediction_component_eq_model inData vn vp vo c hd h1 h2 h3
example : (Generated.ComputeParallelogramPrediction_component (fun i => 2^31 - 1 - i) 0 1 3 6).2.2.2.2 = [(1, -2147483647)] := by
  decide

end Draco
