import DracoProofs.KdAllocWalk
import DracoProps.C18
/-
  C18 on the kd-tree path (staging file of the kd-tree slice, to be merged into DracoProps/C18.lean).

  The hypothesis `C18.alloc_bounded_with` carries for the kd-tree body decoder —
  `Tr bs 0 (Kd.decodeKdGeometry opts) …`, every event within `A + K·(length + declared)` — is FALSE of the
  code (`kd_alloc_linear_bound_false`; known finding
  `peak:draco::DynamicIntegerPointsKdTreeDecoder::DynamicIntegerPointsKdTreeDecoder`): the constructor of the
  tree decoder sizes `p_`, `axes_`, `base_stack_`, `levels_stack_` by the declared total dimension `d`
  (sum of the component counts of the attribute descriptors, up to 255 per 5 input bytes) BEFORE reading the
  tree: `(32·d+1)·(24+4·d)` bytes per stack, quadratic in `d`.

  What IS true and proved: every OTHER allocation of the kd-tree path (attribute id tables, the tuple vector,
  `PointAttribute::Reset` of the attributes and of the portable attributes, the output iterator's scratch
  buffer, the `bits_` of the direct bit decoders) is within the linear bound with the constants of C18, on
  every byte string, accepted or rejected; and the four exceptional events are bounded by
  `(32·D+1)·(24+4·D)` with `D = 1275 · length` (`d ≤ 255 · #attributes ≤ 255 · 5 · length`).
-/
namespace Draco.C18Kd
open Draco Draco.Robust

/-- one stack of the tree decoder for dimension `d`: `128·d² + 772·d + 24` bytes -/
theorem kdStackBytes_eq (d : Nat) : kdStackBytes d = 128 * d * d + 772 * d + 24 := by
  unfold kdStackBytes; ring

example : kdStackBytes 2000 = 513544024 := by decide

/-- **C18 for the complete decoder with the real kd-tree body**, classified: for every byte string
    `bs` (bytes < 256) and option set, every allocation event logged by
    `decodeStreamWith eb Kd.decodeKdGeometry` on `bs` — accepted or rejected — requests at most
    `A + K·(bs.length + declared)` bytes (A = 4 259 840, K = 2048), OR it is one of the four
    dimension-sized members of `DynamicIntegerPointsKdTreeDecoder` and requests at most
    `kdStackBytes (1275 · bs.length)` bytes.  The Edgebreaker body `eb` is a parameter that has to keep
    the linear invariant (as in `C18.alloc_bounded_with`). -/
theorem kd_alloc_bounded (eb : DecOpts → DecM Geometry) (opts : DecOpts) (bs : Bytes) (hb : IsBytes bs)
    (heb : Tr bs 0 (eb opts) (fun _ => 0) (fun _ => True)) :
    ∀ e ∈ (decodeStreamWith eb Kd.decodeKdGeometry opts { rest := bs }).2.allocs,
      e.2 ≤ 4259840 + 2048 * (bs.length + (decodeStreamWith eb Kd.decodeKdGeometry opts { rest := bs }).2.declared) ∨
      ((e.1 = "kd_tree_decoder.p" ∨ e.1 = "kd_tree_decoder.axes" ∨ e.1 = "kd_tree_decoder.base_stack" ∨
          e.1 = "kd_tree_decoder.levels_stack") ∧
        e.2 ≤ kdStackBytes (1275 * bs.length)) :=
  decodeStreamWith_kd_alloc_classified eb opts bs hb heb

/-- … as one number: linear part + the quadratic term of the known finding -/
theorem kd_alloc_bounded_total (eb : DecOpts → DecM Geometry) (opts : DecOpts) (bs : Bytes) (hb : IsBytes bs)
    (heb : Tr bs 0 (eb opts) (fun _ => 0) (fun _ => True)) :
    ∀ e ∈ (decodeStreamWith eb Kd.decodeKdGeometry opts { rest := bs }).2.allocs,
      e.2 ≤ 4259840 + 2048 * (bs.length + (decodeStreamWith eb Kd.decodeKdGeometry opts { rest := bs }).2.declared)
        + (128 * (1275 * bs.length) * (1275 * bs.length) + 772 * (1275 * bs.length) + 24) := by
  intro e he
  rcases kd_alloc_bounded eb opts bs hb heb e he with h | ⟨_, h⟩
  · omega
  · rw [kdStackBytes_eq] at h; omega

/-- the kd-tree body decoder alone, from any state satisfying the invariant, all outcomes -/
theorem kd_body_alloc_invariant (opts : DecOpts) (bs : Bytes) (hb : IsBytes bs) :
    TrC bs (kdX (1275 * bs.length)) 0 (Kd.decodeKdGeometry opts) (fun _ => 0) (fun _ => True) :=
  trc_decodeKdGeometry hb opts

/-- body of a kd-tree point cloud stream: 1 point, 8 attributes of 250 uint8 components (d = 2000) -/
def wideBody : Bytes :=
  [1, 0, 0, 0, 1, 8, 4, 2, 250, 0, 0, 4, 2, 250, 0, 1, 4, 2, 250, 0, 2, 4, 2, 250, 0, 3, 4, 2, 250, 0, 4,
   4, 2, 250, 0, 5, 4, 2, 250, 0, 6, 4, 2, 250, 0, 7, 0, 1, 0, 0, 0, 1, 0, 0, 0, 4, 0, 0, 0, 0, 0, 0, 0,
   4, 0, 0, 0, 0, 0, 0, 0, 4, 0, 0, 0, 0, 0, 0, 0, 4, 0, 0, 0, 0, 0, 0, 0]

/-- **the linear bound is FALSE on the kd-tree path** (the known finding, on the model): an 87-byte
    body declaring 1 point makes the decoder request 513 544 024 bytes for `base_stack_` (and again
    for `levels_stack_`), far above `A + K·(87 + 1)` = 4 440 064.  Also non-vacuity of `kd_alloc_bounded`:
    the exceptional disjunct is inhabited. -/
theorem kd_alloc_linear_bound_false :
    ("kd_tree_decoder.base_stack", 513544024) ∈
        (Kd.decodeKdGeometry {} { rest := wideBody, version := 515 }).2.allocs ∧
      ¬ 513544024 ≤ 4259840 + 2048 * (wideBody.length +
          (Kd.decodeKdGeometry {} { rest := wideBody, version := 515 }).2.declared) := by
  decide +kernel

/-! ### bitstreams older than 2.3

  `Kd.decodeKdGeometry` dispatches to `Kd.decodeKdGeometryLegacy` below 2.3; `kd_alloc_bounded`,
  `kd_body_alloc_invariant` (and `C18Eb.alloc_classified`, `C18Eb.decode_consumes_prefix` built on them)
  therefore cover the legacy paths since the dispatch was added.  The legacy part on its own: -/

/-- **C18 on legacy (1.0 … 2.2) kd-tree streams, classified.**  The legacy body decoder keeps the
    allocation invariant from any state that satisfies it, on every outcome: every event is within
    `A + K·(length + declared)` — the attribute id tables, the tuple vector, `Reset(num_points)` of every
    attribute (the count equals the header's since 0596d06), the output iterator's scratch buffer, the
    `reserve(num_points_)` of the float tree's quantized points (equal to the header's count since
    d17d15d also when that is 0; at most that many points are appended since 63027a3), the four
    members of the embedded three-dimensional tree decoder of the float method (constant), the `bits_`
    of the direct bit decoders — OR it is one of the four dimension-sized members of the integer
    method's `DynamicIntegerPointsKdTreeDecoder(total_dimensionality)` (the known finding, same
    constructor as on 2.3 streams), bounded by `kdStackBytes (1275 · length)`. -/
theorem kd_alloc_bounded_legacy (bs : Bytes) (hb : IsBytes bs) :
    TrC bs (kdX (1275 * bs.length)) 0 Kd.decodeKdGeometryLegacy (fun _ => 0) (fun _ => True) :=
  trc_decodeKdGeometryLegacy hb

/-- the same as a statement about the allocation log of a run on the bytes `bs` entered at version
    `v`: every event is within the linear bound or in the exceptional class -/
theorem kd_alloc_bounded_legacy_log (bs : Bytes) (hb : IsBytes bs) (v : Nat) :
    ∀ e ∈ (Kd.decodeKdGeometryLegacy { rest := bs, version := v }).2.allocs,
      e.2 ≤ 4259840 + 2048 * (bs.length + (Kd.decodeKdGeometryLegacy { rest := bs, version := v }).2.declared) ∨
      ((e.1 = "kd_tree_decoder.p" ∨ e.1 = "kd_tree_decoder.axes" ∨ e.1 = "kd_tree_decoder.base_stack" ∨
          e.1 = "kd_tree_decoder.levels_stack") ∧
        e.2 ≤ kdStackBytes (1275 * bs.length)) := by
  have h0 : InvC bs (kdX (1275 * bs.length)) 0 { rest := bs, version := v } :=
    ⟨List.suffix_refl _, Nat.le_refl _, by simp⟩
  have h := kd_alloc_bounded_legacy bs hb _ h0
  intro e he
  rcases hr : Kd.decodeKdGeometryLegacy { rest := bs, version := v } with ⟨r, s'⟩
  rw [hr] at he
  cases r with
  | none => exact (h.1 s' hr).allocs e he
  | some a => exact (h.2 a s' hr).1.allocs e he

/-- **forward-only reads on the legacy paths** (C02 purity): whatever the bytes and the outcome, what
    the legacy kd-tree body decoder leaves unread is a suffix of the bytes it was given — this
    includes the rANS sections handed to the bit decoders at `StartDecoding`, which are cut out of the
    remaining input and never extend past it -/
theorem kd_legacy_consumes_prefix (bs : Bytes) (hb : IsBytes bs) (v : Nat) :
    (Kd.decodeKdGeometryLegacy { rest := bs, version := v }).2.rest <:+ bs := by
  have h0 : InvC bs (kdX (1275 * bs.length)) 0 { rest := bs, version := v } :=
    ⟨List.suffix_refl _, Nat.le_refl _, by simp⟩
  have h := kd_alloc_bounded_legacy bs hb _ h0
  rcases hr : Kd.decodeKdGeometryLegacy { rest := bs, version := v } with ⟨r, s'⟩
  cases r with
  | none => exact (h.1 s' hr).suf
  | some a => exact (h.2 a s' hr).1.suf

/-- the quadratic stacks are reached on the legacy integer path too: the 2.3 witness body with the
    legacy layout (8 × 250 components, integer method) logs the same 513 544 024-byte event.
    Non-vacuity of the exceptional disjunct of `kd_alloc_bounded_legacy_log`. -/
def wideBodyLegacy : Bytes :=
  [1, 0, 0, 0, 1, 8, 4, 2, 250, 0, 0, 4, 2, 250, 0, 1, 4, 2, 250, 0, 2, 4, 2, 250, 0, 3, 4, 2, 250, 0, 4,
   4, 2, 250, 0, 5, 4, 2, 250, 0, 6, 4, 2, 250, 0, 7, 1, 0, 1, 0, 0, 0, 1, 0, 0, 0, 1, 0, 0, 0]

theorem kd_alloc_linear_bound_false_legacy :
    ("kd_tree_decoder.base_stack", 513544024) ∈
        (Kd.decodeKdGeometryLegacy { rest := wideBodyLegacy, version := 514 }).2.allocs ∧
      ¬ 513544024 ≤ 4259840 + 2048 * (wideBodyLegacy.length +
          (Kd.decodeKdGeometryLegacy { rest := wideBodyLegacy, version := 514 }).2.declared) := by
  decide +kernel

end Draco.C18Kd
