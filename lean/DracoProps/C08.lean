import DracoProofs.Tagged
/-
  C08 — rANS symbol entropy coder (`EncodeSymbols` / `DecodeSymbols`,
  src/draco/compression/entropy/{ans.h, rans_symbol_*.h, symbol_encoding.cc, symbol_decoding.cc}).

  "Encoding any array of unsigned symbols with the rANS symbol coder (tagged or raw scheme, any
   compression level, any component grouping) and decoding it with the symbol count returns
   exactly the original array, and the decoder consumes exactly the bytes the encoder produced.
   If the encoder cannot represent the input it reports failure instead of emitting a block
   that decodes differently."

  All theorems hold for EVERY `ProbOracle` (the two `double` expressions of
  `RAnsSymbolEncoder::Create`), in particular for `ProbOracle.float`, and for every choice of
  the scheme, hence also for the floating point heuristic `chooseScheme`.

  Scope of the model's `none` (see `encodeSymbolsWith`): besides the genuine `return false`
  (more than 2^18-1 distinct symbols in the raw scheme) it covers inputs on which the C++ has
  no defined result, which the theorems therefore do not speak about:
  * `num_values` not a multiple of `num_components` (encoder reads past the input; decoder
    writes past the output),
  * a symbol ≥ 2^31 (finding F2: `ComputeShannonEntropy` allocates `int(max_value) + 1`
    counters; the tagged coder additionally does `++frequencies[32]` on a 32 entry array),
  * `RAnsSymbolEncoder::Create` returning false — its result is IGNORED by
    `EncodeTaggedSymbols` / `EncodeRawSymbolsInternal`, which would go on with an unfinished
    table.  No input with this behaviour is known; in ~4000 random comparisons against the
    library `Create` never failed.  Not proved unreachable: that needs monotonicity facts about
    the floating point oracle and the correctness of the sort.
-/
namespace Draco

/-! ### 1. rANS stream -/

/-- A stream produced by the rANS coder for a valid probability table (entries sum to
    `2^pb`, every coded symbol has probability ≥ 1) decodes to the coded symbols and the decoder
    consumes exactly the coder's bytes (varint length prefix, `write_end` / `read_init` state
    tail and reverse order included).  `before` = arbitrary preceding bytes of the
    `DecoderBuffer` (only looked at by the `x == 3` quirk of `read_init`). -/
theorem rans_roundtrip (pb : Nat) (hpb : 12 ≤ pb ∧ pb ≤ 20) (probs syms : List Nat)
    (hsum : probs.sum = 2 ^ pb) (hsyms : ∀ s ∈ syms, 1 ≤ probs.getD s 0)
    (hlen : syms.length < 2 ^ 32) :
    ∃ bs t, encodeRans pb probs syms = some bs ∧ ransBuildLookup pb probs = some t ∧
      ∀ before rest, decodeRans pb t before syms.length (bs ++ rest) = some (syms, rest) := by
  obtain ⟨t, ht⟩ := ransBuildLookup_of_sum pb probs hsum
  obtain ⟨bs, he, hd⟩ := rans_roundtrip_aux pb hpb.2 probs syms t ht hsyms (by omega)
  exact ⟨bs, t, he, ht, hd⟩

example : ∃ t, encodeRans 12 [1000, 0, 3000, 96] [0, 2, 2, 3, 0, 2] = some [4, 224, 63, 161, 129] ∧
    ransBuildLookup 12 [1000, 0, 3000, 96] = some t ∧
    decodeRans 12 t [] 6 ([4, 224, 63, 161, 129] ++ [7, 7]) = some ([0, 2, 2, 3, 0, 2], [7, 7]) := by
  obtain ⟨bs, t, h1, h2, h3⟩ := rans_roundtrip 12 (by decide) [1000, 0, 3000, 96] [0, 2, 2, 3, 0, 2]
    (by decide) (by decide) (by decide)
  have e : encodeRans 12 [1000, 0, 3000, 96] [0, 2, 2, 3, 0, 2] = some [4, 224, 63, 161, 129] := by
    decide +kernel
  rw [e] at h1
  simp only [Option.some.injEq] at h1; subst h1
  exact ⟨t, e, h2, h3 [] [7, 7]⟩

/-! ### 2. probability table -/

/-- `RAnsSymbolDecoder::Create` reads back the table written by `EncodeTable` (zero runs of up
    to 64 entries per token, 1–3 byte entries) and stops exactly behind it. -/
theorem table_roundtrip (probs : List Nat) (hlen : probs.length < 2 ^ 32)
    (h22 : ∀ p ∈ probs, p < 2 ^ 22) (hlast : probs.getLast? ≠ some 0) :
    ∃ bs, encodeTable probs = some bs ∧ ∀ rest, decodeTable (bs ++ rest) = some (probs, rest) :=
  table_roundtrip_aux probs hlen ⟨h22, hlast⟩

example : encodeTable ([3000, 0, 0, 70] ++ List.replicate 70 0 ++ [1026]) =
      some [75, 225, 46, 7, 25, 1, 255, 23, 9, 16] ∧
    decodeTable ([75, 225, 46, 7, 25, 1, 255, 23, 9, 16] ++ [9]) =
      some ([3000, 0, 0, 70] ++ List.replicate 70 0 ++ [1026], [9]) := by
  decide +kernel

/-! ### 3. Create -/

/-- Whatever the two floating point expressions evaluate to, a table returned by
    `RAnsSymbolEncoder::Create` sums to the rANS precision, is not longer than the frequency
    table and gives every symbol that occurs a probability ≥ 1. -/
theorem create_sound (o : ProbOracle) (pb : Nat) (freqs probs : List Nat) (tbl : Bytes)
    (h : ransSymbolEncoderCreate o pb freqs = some (probs, tbl)) :
    probs.sum = 2 ^ pb ∧ probs.length ≤ freqs.length ∧
      (∀ i, 0 < freqs.getD i 0 → 1 ≤ probs.getD i 0) ∧ encodeTable probs = some tbl := by
  simp only [ransSymbolEncoderCreate] at h
  split at h
  · simp at h
  · rename_i ps hc
    split at h
    · simp at h
    · rename_i bs he
      simp only [Option.some.injEq, Prod.mk.injEq] at h
      obtain ⟨rfl, rfl⟩ := h
      obtain ⟨h1, h2, h3⟩ := createProbs_sound o pb freqs ps hc
      exact ⟨h1, h2, h3, he⟩

/-- over-allocation (6 × 683 = 4098 > 4096): the rescaling loop runs -/
example : ransSymbolEncoderCreate ProbOracle.exact 12 [1, 1, 0, 1, 1, 1, 1, 0, 0] =
    some ([683, 683, 0, 683, 683, 682, 682], [7, 173, 10, 173, 10, 3, 173, 10, 173, 10, 169, 10, 169, 10]) := by
  decide +kernel

/-- under-allocation (1755 + 1755 + 585 = 4095 < 4096): the most frequent symbol is raised -/
example : createProbs ProbOracle.exact 12 [3, 3, 1] = some [1755, 1756, 585] := by decide +kernel

/-! ### 4. schemes and `EncodeSymbols` -/

/-- raw scheme (`EncodeRawSymbols` → `DecodeRawSymbols`), any level, any oracle -/
theorem raw_roundtrip (o : ProbOracle) (level : Nat) (syms : List Nat) (maxValue numUnique : Nat)
    (bs : Bytes) (hmax : ∀ s ∈ syms, s ≤ maxValue) (hmv : maxValue < 2 ^ 31)
    (hlen : syms.length < 2 ^ 32)
    (h : encodeRawSymbols o level syms maxValue numUnique = some bs) :
    ∀ before rest, decodeRawSymbols before syms.length (bs ++ rest) = some (syms, rest) :=
  raw_roundtrip_aux o level syms maxValue numUnique bs hmax hmv hlen h

/-- tagged scheme (`EncodeTaggedSymbols` → `DecodeTaggedSymbols`): `groups` are the
    `num_components` sized chunks of the input -/
theorem tagged_roundtrip (o : ProbOracle) (comps : Nat) (groups : List (List Nat)) (bs : Bytes)
    (hc : 0 < comps) (hg : ∀ g ∈ groups, g.length = comps) (hlen : groups.length < 2 ^ 32)
    (h : encodeTaggedSymbols o groups (groups.map fun g => bitLength (listMax g)) = some bs) :
    ∀ before rest, decodeTaggedSymbols before (groups.length * comps) comps (bs ++ rest)
      = some (groups.flatten, rest) :=
  tagged_roundtrip_aux o comps groups bs hc hg hlen h

/-- `EncodeSymbols` → `DecodeSymbols`: whenever the encoder returns a block — for either
    scheme, any compression level, any component count ≥ 1 and ANY oracle — decoding it with
    the symbol count gives back the input and consumes exactly the block.  In particular the
    encoder never emits a block that decodes differently; inputs it cannot encode (more than
    2^18 - 1 distinct symbols in the raw scheme) give `none` = `return false`. -/
theorem symbols_roundtrip (o : ProbOracle) (choice : Scheme) (level comps : Nat)
    (syms : List Nat) (bs : Bytes) (hc : 0 < comps) (hlen : syms.length < 2 ^ 32)
    (h : encodeSymbolsWith o choice level comps syms = some bs) :
    ∀ rest, decodeSymbols syms.length comps (bs ++ rest) = some (syms, rest) :=
  symbols_roundtrip_aux o choice level comps syms bs hc hlen h

/-- the executable default instance (binary64 oracle, `chooseScheme` or a forced scheme) -/
theorem symbols_roundtrip_float (level : Nat) (forced : Option Scheme) (comps : Nat)
    (syms : List Nat) (bs : Bytes) (hc : 0 < comps) (hlen : syms.length < 2 ^ 32)
    (h : encodeSymbols level forced comps syms = some bs) :
    ∀ rest, decodeSymbols syms.length comps (bs ++ rest) = some (syms, rest) := by
  simp only [encodeSymbols] at h
  exact symbols_roundtrip_aux ProbOracle.float _ level comps syms bs hc hlen h

example : encodeSymbolsWith ProbOracle.exact .raw 7 1 [3, 1, 4, 1, 5, 9, 2, 6, 5, 3, 5] =
    some [1, 3, 10, 3, 165, 11, 209, 5, 165, 11, 209, 5, 121, 17, 209, 5, 7, 209, 5, 6, 233, 24,
      200, 18, 199, 139] := by decide +kernel

example : encodeSymbolsWith ProbOracle.exact .tagged 7 2 [3, 1, 4, 1, 5, 9, 2, 6, 5, 3] =
    some [0, 5, 7, 205, 12, 105, 38, 205, 12, 3, 59, 80, 156, 199, 84, 202, 29] := by
  decide +kernel

example : decodeSymbols 10 2 ([0, 5, 7, 205, 12, 105, 38, 205, 12, 3, 59, 80, 156, 199, 84, 202, 29]
    ++ [1, 2]) = some ([3, 1, 4, 1, 5, 9, 2, 6, 5, 3], [1, 2]) := by
  have e : encodeSymbolsWith ProbOracle.exact .tagged 7 2 [3, 1, 4, 1, 5, 9, 2, 6, 5, 3] =
      some [0, 5, 7, 205, 12, 105, 38, 205, 12, 3, 59, 80, 156, 199, 84, 202, 29] := by
    decide +kernel
  exact symbols_roundtrip ProbOracle.exact .tagged 7 2 [3, 1, 4, 1, 5, 9, 2, 6, 5, 3]
    [0, 5, 7, 205, 12, 105, 38, 205, 12, 3, 59, 80, 156, 199, 84, 202, 29]
    (by decide) (by decide) e [1, 2]

/-- the genuine failure: 2^18 distinct symbols cannot be raw coded (`return false`) -/
example (o : ProbOracle) (level : Nat) (syms : List Nat) (maxValue : Nat) :
    encodeRawSymbols o level syms maxValue (2 ^ 18) = none := by
  have : bitLength (2 ^ 18) > 18 := by decide +kernel
  simp only [encodeRawSymbols, this, if_true]

/-! ### 5. the component count 0

  `EncodeSymbols` replaces `num_components ≤ 0` by 1, `DecodeTaggedSymbols` does not:
  `for (i = 0; i < num_values; i += num_components)` never terminates for 0 (the model answers
  `none`).  The hypothesis `0 < comps` of `symbols_roundtrip` is therefore necessary: -/
theorem decodeTaggedSymbols_zero_components (before bs : Bytes) (n : Nat) :
    decodeTaggedSymbols before n 0 bs = none := by
  simp only [decodeTaggedSymbols]
  split
  · rfl
  · split
    · rfl
    · split <;> simp

theorem symbols_roundtrip_zero_components_fails :
    encodeSymbolsWith ProbOracle.exact .tagged 7 0 [5] = some [0, 4, 11, 1, 64, 1, 0, 5] ∧
    decodeSymbols 1 0 [0, 4, 11, 1, 64, 1, 0, 5] = none ∧
    decodeSymbols 1 1 [0, 4, 11, 1, 64, 1, 0, 5] = some ([5], []) := by
  refine ⟨by decide +kernel, ?_, ?_⟩
  · simp only [decodeSymbols, Nat.one_ne_zero, if_false, if_true,
      decodeTaggedSymbols_zero_components]
  · have e : encodeSymbolsWith ProbOracle.exact .tagged 7 1 [5] = some [0, 4, 11, 1, 64, 1, 0, 5] := by
      decide +kernel
    have := symbols_roundtrip ProbOracle.exact .tagged 7 1 [5] _ (by decide) (by decide) e []
    simpa using this

end Draco
