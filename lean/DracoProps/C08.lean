import DracoProofs.Tagged
import DracoProofs.SymbolComplete
import Generated.Constants
import DracoProofs.GeneratedCore
import DracoProofs.GeneratedTable
/-
  C08 — rANS symbol entropy coder (`EncodeSymbols` / `DecodeSymbols`,
  src/draco/compression/entropy/{ans.h, rans_symbol_*.h, symbol_encoding.cc, symbol_decoding.cc}).

  "Encoding any array of unsigned symbols with the rANS symbol coder (tagged or raw scheme, any
   compression level, any component grouping) and decoding it with the symbol count returns
   exactly the original array, and the decoder consumes exactly the bytes the encoder produced.
   If the encoder cannot represent the input it reports failure instead of emitting a block
   that decodes differently."

  All theorems hold for EVERY `ProbOracle` (the two `double` expressions of
  `RAnsSymbolEncoder::Create`), in particular for `ProbOracle.float`, and for every choice of
  the scheme, hence also for the floating point heuristic `chooseScheme`.

  Scope of the model's `none` (see `encodeSymbolsWith`): besides the genuine `return false`
  (more than 2^18-1 distinct symbols in the raw scheme) it covers inputs on which the C++ has
  no defined result, which the theorems therefore do not speak about:
  * `num_values` not a multiple of `num_components` (encoder reads past the input; decoder
    writes past the output),
  * a symbol ≥ 2^31 (finding F2: `ComputeShannonEntropy` allocates `int(max_value) + 1`
    counters; the tagged coder additionally does `++frequencies[32]` on a 32 entry array),
  * `RAnsSymbolEncoder::Create` returning false — its result is IGNORED by
    `EncodeTaggedSymbols` / `EncodeRawSymbolsInternal`, which would go on with an unfinished
    table.  Sections 6–8 prove this unreachable for every oracle with the five properties listed
    at `create_complete` (`ProbOracle.exact` has them, `exactOracle_regular`); that binary64
    arithmetic has them is an assumption about IEEE 754 (rounding is monotone, `x/x = 1`,
    relative error 2^-53), not a theorem: `Float` is opaque to Lean.

  Sections 6–9 (added by slice c08plus): `create_complete` (no failure, loop fuel adequate),
  `precision_suffices`, `symbols_failure_characterised`, `scheme_choice_irrelevant`.
-/
namespace Draco

/-! ### 1. rANS stream -/

/-- A stream produced by the rANS coder for a valid probability table (entries sum to
    `2^pb`, every coded symbol has probability ≥ 1) decodes to the coded symbols and the decoder
    consumes exactly the coder's bytes (varint length prefix, `write_end` / `read_init` state
    tail and reverse order included).  `before` = arbitrary preceding bytes of the
    `DecoderBuffer` (only looked at by the `x == 3` quirk of `read_init`). -/
theorem rans_roundtrip (pb : Nat) (hpb : 12 ≤ pb ∧ pb ≤ 20) (probs syms : List Nat)
    (hsum : probs.sum = 2 ^ pb) (hsyms : ∀ s ∈ syms, 1 ≤ probs.getD s 0)
    (hlen : syms.length < 2 ^ 32) :
    ∃ bs t, encodeRans pb probs syms = some bs ∧ ransBuildLookup pb probs = some t ∧
      ∀ before rest, decodeRans pb t before syms.length (bs ++ rest) = some (syms, rest) := by
  obtain ⟨t, ht⟩ := ransBuildLookup_of_sum pb probs hsum
  obtain ⟨bs, he, hd⟩ := rans_roundtrip_aux pb hpb.2 probs syms t ht hsyms (by omega)
  exact ⟨bs, t, he, ht, hd⟩

example : ∃ t, encodeRans 12 [1000, 0, 3000, 96] [0, 2, 2, 3, 0, 2] = some [4, 224, 63, 161, 129] ∧
    ransBuildLookup 12 [1000, 0, 3000, 96] = some t ∧
    decodeRans 12 t [] 6 ([4, 224, 63, 161, 129] ++ [7, 7]) = some ([0, 2, 2, 3, 0, 2], [7, 7]) := by
  obtain ⟨bs, t, h1, h2, h3⟩ := rans_roundtrip 12 (by decide) [1000, 0, 3000, 96] [0, 2, 2, 3, 0, 2]
    (by decide) (by decide) (by decide)
  have e : encodeRans 12 [1000, 0, 3000, 96] [0, 2, 2, 3, 0, 2] = some [4, 224, 63, 161, 129] := by
    decide +kernel
  rw [e] at h1
  simp only [Option.some.injEq] at h1; subst h1
  exact ⟨t, e, h2, h3 [] [7, 7]⟩

/-! ### 2. probability table -/

/-- `RAnsSymbolDecoder::Create` reads back the table written by `EncodeTable` (zero runs of up
    to 64 entries per token, 1–3 byte entries) and stops exactly behind it. -/
theorem table_roundtrip (probs : List Nat) (hlen : probs.length < 2 ^ 32)
    (h22 : ∀ p ∈ probs, p < 2 ^ 22) (hlast : probs.getLast? ≠ some 0) :
    ∃ bs, encodeTable probs = some bs ∧ ∀ rest, decodeTable (bs ++ rest) = some (probs, rest) :=
  table_roundtrip_aux probs hlen ⟨h22, hlast⟩

example : encodeTable ([3000, 0, 0, 70] ++ List.replicate 70 0 ++ [1026]) =
      some [75, 225, 46, 7, 25, 1, 255, 23, 9, 16] ∧
    decodeTable ([75, 225, 46, 7, 25, 1, 255, 23, 9, 16] ++ [9]) =
      some ([3000, 0, 0, 70] ++ List.replicate 70 0 ++ [1026], [9]) := by
  decide +kernel

/-! ### 3. Create -/

/-- Whatever the two floating point expressions evaluate to, a table returned by
    `RAnsSymbolEncoder::Create` sums to the rANS precision, is not longer than the frequency
    table and gives every symbol that occurs a probability ≥ 1. -/
theorem create_sound (o : ProbOracle) (pb : Nat) (freqs probs : List Nat) (tbl : Bytes)
    (h : ransSymbolEncoderCreate o pb freqs = some (probs, tbl)) :
    probs.sum = 2 ^ pb ∧ probs.length ≤ freqs.length ∧
      (∀ i, 0 < freqs.getD i 0 → 1 ≤ probs.getD i 0) ∧ encodeTable probs = some tbl := by
  simp only [ransSymbolEncoderCreate] at h
  split at h
  · simp at h
  · rename_i ps hc
    split at h
    · simp at h
    · rename_i bs he
      simp only [Option.some.injEq, Prod.mk.injEq] at h
      obtain ⟨rfl, rfl⟩ := h
      obtain ⟨h1, h2, h3⟩ := createProbs_sound o pb freqs ps hc
      exact ⟨h1, h2, h3, he⟩

/-- over-allocation (6 × 683 = 4098 > 4096): the rescaling loop runs -/
example : ransSymbolEncoderCreate ProbOracle.exact 12 [1, 1, 0, 1, 1, 1, 1, 0, 0] =
    some ([683, 683, 0, 683, 683, 682, 682], [7, 173, 10, 173, 10, 3, 173, 10, 173, 10, 169, 10, 169, 10]) := by
  decide +kernel

/-- under-allocation (1755 + 1755 + 585 = 4095 < 4096): the most frequent symbol is raised -/
example : createProbs ProbOracle.exact 12 [3, 3, 1] = some [1755, 1756, 585] := by decide +kernel

/-! ### 4. schemes and `EncodeSymbols` -/

/-- raw scheme (`EncodeRawSymbols` → `DecodeRawSymbols`), any level, any oracle -/
theorem raw_roundtrip (o : ProbOracle) (level : Nat) (syms : List Nat) (maxValue numUnique : Nat)
    (bs : Bytes) (hmax : ∀ s ∈ syms, s ≤ maxValue) (hmv : maxValue < 2 ^ 31)
    (hlen : syms.length < 2 ^ 32)
    (h : encodeRawSymbols o level syms maxValue numUnique = some bs) :
    ∀ before rest, decodeRawSymbols before syms.length (bs ++ rest) = some (syms, rest) :=
  raw_roundtrip_aux o level syms maxValue numUnique bs hmax hmv hlen h

/-- tagged scheme (`EncodeTaggedSymbols` → `DecodeTaggedSymbols`): `groups` are the
    `num_components` sized chunks of the input -/
theorem tagged_roundtrip (o : ProbOracle) (comps : Nat) (groups : List (List Nat)) (bs : Bytes)
    (hc : 0 < comps) (hg : ∀ g ∈ groups, g.length = comps) (hlen : groups.length < 2 ^ 32)
    (h : encodeTaggedSymbols o groups (groups.map fun g => bitLength (listMax g)) = some bs) :
    ∀ before rest, decodeTaggedSymbols before (groups.length * comps) comps (bs ++ rest)
      = some (groups.flatten, rest) :=
  tagged_roundtrip_aux o comps groups bs hc hg hlen h

/-- `EncodeSymbols` → `DecodeSymbols`: whenever the encoder returns a block — for either
    scheme, any compression level, any component count ≥ 1 and ANY oracle — decoding it with
    the symbol count gives back the input and consumes exactly the block.  In particular the
    encoder never emits a block that decodes differently; inputs it cannot encode (more than
    2^18 - 1 distinct symbols in the raw scheme) give `none` = `return false`. -/
theorem symbols_roundtrip (o : ProbOracle) (choice : Scheme) (level comps : Nat)
    (syms : List Nat) (bs : Bytes) (hc : 0 < comps) (hlen : syms.length < 2 ^ 32)
    (h : encodeSymbolsWith o choice level comps syms = some bs) :
    ∀ rest, decodeSymbols syms.length comps (bs ++ rest) = some (syms, rest) :=
  symbols_roundtrip_aux o choice level comps syms bs hc hlen h

/-- the executable default instance (binary64 oracle, `chooseScheme` or a forced scheme) -/
theorem symbols_roundtrip_float (level : Nat) (forced : Option Scheme) (comps : Nat)
    (syms : List Nat) (bs : Bytes) (hc : 0 < comps) (hlen : syms.length < 2 ^ 32)
    (h : encodeSymbols level forced comps syms = some bs) :
    ∀ rest, decodeSymbols syms.length comps (bs ++ rest) = some (syms, rest) := by
  simp only [encodeSymbols] at h
  exact symbols_roundtrip_aux ProbOracle.float _ level comps syms bs hc hlen h

example : encodeSymbolsWith ProbOracle.exact .raw 7 1 [3, 1, 4, 1, 5, 9, 2, 6, 5, 3, 5] =
    some [1, 3, 10, 3, 165, 11, 209, 5, 165, 11, 209, 5, 121, 17, 209, 5, 7, 209, 5, 6, 233, 24,
      200, 18, 199, 139] := by decide +kernel

example : encodeSymbolsWith ProbOracle.exact .tagged 7 2 [3, 1, 4, 1, 5, 9, 2, 6, 5, 3] =
    some [0, 5, 7, 205, 12, 105, 38, 205, 12, 3, 59, 80, 156, 199, 84, 202, 29] := by
  decide +kernel

example : decodeSymbols 10 2 ([0, 5, 7, 205, 12, 105, 38, 205, 12, 3, 59, 80, 156, 199, 84, 202, 29]
    ++ [1, 2]) = some ([3, 1, 4, 1, 5, 9, 2, 6, 5, 3], [1, 2]) := by
  have e : encodeSymbolsWith ProbOracle.exact .tagged 7 2 [3, 1, 4, 1, 5, 9, 2, 6, 5, 3] =
      some [0, 5, 7, 205, 12, 105, 38, 205, 12, 3, 59, 80, 156, 199, 84, 202, 29] := by
    decide +kernel
  exact symbols_roundtrip ProbOracle.exact .tagged 7 2 [3, 1, 4, 1, 5, 9, 2, 6, 5, 3]
    [0, 5, 7, 205, 12, 105, 38, 205, 12, 3, 59, 80, 156, 199, 84, 202, 29]
    (by decide) (by decide) e [1, 2]

/-- the genuine failure: 2^18 distinct symbols cannot be raw coded (`return false`) -/
example (o : ProbOracle) (level : Nat) (syms : List Nat) (maxValue : Nat) :
    encodeRawSymbols o level syms maxValue (2 ^ 18) = none := by
  have : bitLength (2 ^ 18) > 18 := by decide +kernel
  simp only [encodeRawSymbols, this, if_true]

/-! ### 5. the component count 0

  `EncodeSymbols` replaces `num_components ≤ 0` by 1, `DecodeTaggedSymbols` does not:
  `for (i = 0; i < num_values; i += num_components)` never terminates for 0 (the model answers
  `none`).  The hypothesis `0 < comps` of `symbols_roundtrip` is therefore necessary: -/
theorem decodeTaggedSymbols_zero_components (before bs : Bytes) (n : Nat) :
    decodeTaggedSymbols before n 0 bs = none := by
  simp only [decodeTaggedSymbols]
  split
  · rfl
  · split
    · rfl
    · split <;> simp

theorem symbols_roundtrip_zero_components_fails :
    encodeSymbolsWith ProbOracle.exact .tagged 7 0 [5] = some [0, 4, 11, 1, 64, 1, 0, 5] ∧
    decodeSymbols 1 0 [0, 4, 11, 1, 64, 1, 0, 5] = none ∧
    decodeSymbols 1 1 [0, 4, 11, 1, 64, 1, 0, 5] = some ([5], []) := by
  refine ⟨by decide +kernel, ?_, ?_⟩
  · simp only [decodeSymbols, Nat.one_ne_zero, if_false, if_true,
      decodeTaggedSymbols_zero_components]
  · have e : encodeSymbolsWith ProbOracle.exact .tagged 7 1 [5] = some [0, 4, 11, 1, 64, 1, 0, 5] := by
      decide +kernel
    have := symbols_roundtrip ProbOracle.exact .tagged 7 1 [5] _ (by decide) (by decide) e []
    simpa using this

/-! ### 6. `Create` does not fail and its rescaling loop terminates

  The model's `createProbs` answers `none` for `return false` AND when the fuel of
  `rescaleLoop` (= the initial `error`) runs out; so `some` below means: the C++ `while (error >
  0)` loop ends after at most `error` runs of its `for` loop and no `return false` is taken. -/

/-- `RAnsSymbolEncoder::Create` succeeds for total frequency `T > 0` and precision `P = 2^pb`
    when fewer than `P` symbols occur and the two `double` expressions satisfy
    * `est 0 = 0`                     (a zero frequency gets probability 0),
    * `est T ≤ P`                     (`T/T·P + 0.5` truncates to at most `P`; `x/x = 1`),
    * `T·est f ≤ f·P + T`             (the estimate is at most 1 above the exact `f·P/T`),
    * `rescale A p ≤ p` for `P < A`   (multiplying by `P/A < 1` and flooring does not increase),
    * `rescale A` monotone for `P < A`(monotone rounding).
    The returned table sums to `P`, is positive on every occurring symbol and has been
    accepted by `EncodeTable`.  The bound `#used < P` is sharp for these hypotheses
    (`create_fails_at_full_alphabet`); the code only ever has `4·#used ≤ P`
    (`precision_suffices`) resp. `#used ≤ 32`, `P = 4096` (tag coder). -/
theorem create_complete (o : ProbOracle) (pb : Nat) (freqs : List Nat) (hpb : pb ≤ 21)
    (hlen : freqs.length < 2 ^ 32) (hT : 0 < sumNat freqs)
    (hest0 : o.est 0 (sumNat freqs) (2 ^ pb) = 0)
    (hestT : o.est (sumNat freqs) (sumNat freqs) (2 ^ pb) ≤ 2 ^ pb)
    (hest : ∀ f, 0 < f → f ≤ sumNat freqs →
      sumNat freqs * o.est f (sumNat freqs) (2 ^ pb) ≤ f * 2 ^ pb + sumNat freqs)
    (hres_le : ∀ A p, 2 ^ pb < A → o.rescale (2 ^ pb) A p ≤ p)
    (hres_mono : ∀ A p q, 2 ^ pb < A → p ≤ q → o.rescale (2 ^ pb) A p ≤ o.rescale (2 ^ pb) A q)
    (hused : (freqs.filter (· > 0)).length < 2 ^ pb) :
    ∃ probs tbl, ransSymbolEncoderCreate o pb freqs = some (probs, tbl) ∧
      probs.sum = 2 ^ pb ∧ (∀ i, 0 < freqs.getD i 0 → 1 ≤ probs.getD i 0) := by
  obtain ⟨probs, tbl, h⟩ := encoderCreate_complete o pb hpb freqs hlen hT
    ⟨hest0, hestT, hest, hres_le, hres_mono⟩ hused
  obtain ⟨h1, _, h3, _⟩ := create_sound o pb freqs probs tbl h
  exact ⟨probs, tbl, h, h1, h3⟩

/-- non-vacuity: the exact oracle has the five properties; the over-allocating input of
    section 3 (six symbols of equal frequency, 6 × 683 = 4098 > 4096) runs the loop -/
example : ∃ probs tbl, ransSymbolEncoderCreate ProbOracle.exact 12 [1, 1, 0, 1, 1, 1, 1, 0, 0]
    = some (probs, tbl) ∧ probs.sum = 2 ^ 12 := by
  have ok := exactOracle_ok (sumNat [1, 1, 0, 1, 1, 1, 1, 0, 0]) (2 ^ 12) (by decide)
  obtain ⟨probs, tbl, h, hs, _⟩ := create_complete ProbOracle.exact 12 [1, 1, 0, 1, 1, 1, 1, 0, 0]
    (by decide) (by decide) (by decide) ok.est_zero ok.est_full ok.est_le ok.rescale_le
    ok.rescale_mono (by decide)
  exact ⟨probs, tbl, h, hs⟩

/-- an oracle that over-estimates by exactly one (`⌊f·P/T⌋ + 1`, allowed by the third
    hypothesis) and rescales exactly -/
def ProbOracle.plusOne : ProbOracle where
  est := fun f T P => if f = 0 then 0 else if f = T then P else f * P / T + 1
  rescale := fun P A p => P * p / A

/-- Sharpness of `#used < P`: with `P = 4` and four symbols of equal frequency the oracle
    `plusOne` (which satisfies the five hypotheses) drives `Create` into
    "Most frequent symbol would be empty" (`return false`). -/
theorem create_fails_at_full_alphabet :
    createProbs ProbOracle.plusOne 2 [1, 1, 1, 1] = none ∧
    ProbOracle.plusOne.est 0 4 4 = 0 ∧ ProbOracle.plusOne.est 4 4 4 ≤ 4 ∧
    (∀ f, 0 < f → f ≤ 4 → 4 * ProbOracle.plusOne.est f 4 4 ≤ f * 4 + 4) ∧
    (∀ A p, 4 < A → ProbOracle.plusOne.rescale 4 A p ≤ p) ∧
    (∀ A p q, 4 < A → p ≤ q → ProbOracle.plusOne.rescale 4 A p ≤ ProbOracle.plusOne.rescale 4 A q) := by
  refine ⟨by decide +kernel, by decide, by decide, ?_, ?_, ?_⟩
  · intro f h1 h2
    have : f = 1 ∨ f = 2 ∨ f = 3 ∨ f = 4 := by omega
    rcases this with rfl | rfl | rfl | rfl <;> decide
  · intro A p hA
    exact (exactOracle_ok 1 4 (by decide)).rescale_le A p hA
  · intro A p q hA hpq
    exact (exactOracle_ok 1 4 (by decide)).rescale_mono A p q hA hpq

/-! ### 7. the precision of the raw scheme -/

/-- the level adjustment and clamp of `EncodeRawSymbols` as a function of the bit length of
    `num_unique_symbols` -/
def rawBitLengthOfBits (b level : Nat) : Nat :=
  let b' := if level < 4 then b - 2 else if level < 6 then b - 1
            else if level > 9 then b + 2 else if level > 7 then b + 1 else b
  min (max 1 b') 18

theorem rawBitLength_eq (u level : Nat) :
    rawBitLength u level = rawBitLengthOfBits (bitLength u) level := rfl

/-- `ComputeRAnsPrecisionFromUniqueSymbolsBitLength` of the model = the values obtained by
    running the C++ function (regenerated from the source on every run), and the raw limit -/
theorem precision_table_generated :
    (∀ b, b ≤ 32 → (ransPrecisionBits b : Int) = Generated.ransPrecisionTable.getD b 0) ∧
    Generated.kMaxRawEncodingBitLength = 18 := by
  decide

/-- Finite form over the generated table: for every compression level 0..10 and every bit
    length 1..18 of the number of distinct symbols (the raw scheme rejects more), the precision
    the C++ selects is at least `bit length + 2`. -/
theorem precision_suffices_table :
    ∀ level : Nat, level ≤ 10 → ∀ b : Nat, b ≤ 18 → 1 ≤ b →
      ((b : Nat) : Int) + 2 ≤ Generated.ransPrecisionTable.getD (rawBitLengthOfBits b level) 0 := by
  decide

/-- For every compression level (0..10 and beyond) and every number `u` of distinct symbols the
    raw scheme admits (`bitLength u ≤ 18`, i.e. `u < 2^18`) the rANS precision chosen satisfies
    `4·u ≤ 2^precision`; in particular `u < 2^precision`, the hypothesis of `create_complete`. -/
theorem precision_suffices (level u : Nat) (h : bitLength u ≤ 18) :
    4 * u ≤ 2 ^ ransPrecisionBits (rawBitLength u level) ∧
    u < 2 ^ ransPrecisionBits (rawBitLength u level) := by
  have h1 := rawPrecision_suffices u level h
  have : 0 < 2 ^ ransPrecisionBits (rawBitLength u level) := Nat.two_pow_pos _
  exact ⟨h1, by omega⟩

/-- non-vacuity: 2^18 - 1 distinct symbols at the lowest level: 16 bits → precision 20 -/
example : bitLength (2 ^ 18 - 1) ≤ 18 ∧ rawBitLength (2 ^ 18 - 1) 0 = 16 ∧
    ransPrecisionBits (rawBitLength (2 ^ 18 - 1) 0) = 20 := by decide +kernel

/-! ### 8. when `EncodeSymbols` fails -/

/-- For an oracle with the properties of `create_complete` (for all totals and precisions:
    `ProbOracle.Regular`) and fewer than 2^32 symbols, `encodeSymbolsWith` answers `none`
    exactly when the input is non-empty and
    * the raw scheme is requested and a symbol is ≥ 2^31            (C++ `return false`, fix 4efb996),
    * the raw scheme is requested and `num_unique_symbols ≥ 2^18`   (C++ `return false`),
    * `num_values` is not a multiple of `num_components`            (C++ undefined: reads past the input),
    * a symbol is ≥ 2^32                                            (not a `uint32_t`).
    Nothing else fails: `Create`'s ignored result is always true, the rANS coder and
    `EncodeTable` accept the table.  `numUniqueSymbols` = number of non-empty bins of the
    histogram.  (An unknown `symbol_encoding_method` is not representable in `Scheme`; the
    driver op maps it to failure like the C++ does.) -/
theorem symbols_failure_characterised (o : ProbOracle) (hreg : o.Regular) (choice : Scheme)
    (level comps : Nat) (syms : List Nat) (hlen : syms.length < 2 ^ 32) :
    encodeSymbolsWith o choice level comps syms = none ↔
      syms ≠ [] ∧
      (syms.length % (if comps = 0 then 1 else comps) ≠ 0 ∨ listMax syms ≥ 2 ^ 32 ∨
        (choice = .raw ∧ (listMax syms ≥ 2 ^ 31 ∨ bitLength (numUniqueSymbols syms) > 18))) :=
  encodeSymbolsWith_none_iff o hreg choice level comps syms hlen

/-- non-vacuity, both directions (exact oracle): a symbol 2^31 fails with the raw scheme and
    is coded by the tagged scheme -/
example : encodeSymbolsWith ProbOracle.exact .raw 7 1 [5, 2 ^ 31] = none ∧
    ∃ bs, encodeSymbolsWith ProbOracle.exact .tagged 7 1 [5, 2 ^ 31] = some bs := by
  have hm : listMax [5, 2 ^ 31] = 2 ^ 31 := by decide
  constructor
  · rw [symbols_failure_characterised _ exactOracle_regular _ _ _ _ (by decide)]
    refine ⟨by simp, Or.inr (Or.inr ⟨rfl, Or.inl ?_⟩)⟩
    rw [hm]
  · cases h : encodeSymbolsWith ProbOracle.exact .tagged 7 1 [5, 2 ^ 31] with
    | some bs => exact ⟨bs, rfl⟩
    | none =>
      rw [symbols_failure_characterised _ exactOracle_regular _ _ _ _ (by decide)] at h
      rw [hm] at h
      simp at h

/-! ### 9. the choice of the scheme -/

/-- The Shannon entropy estimate that picks the scheme (floating point, `chooseScheme`) — or
    any other rule `choose` — has no influence on decodability: whatever scheme it returns, a
    block that is emitted decodes to the input and is consumed exactly.  (`DecodeSymbols`
    reads the scheme from the first byte.) -/
theorem scheme_choice_irrelevant (o : ProbOracle) (choose : Nat → List Nat → Scheme)
    (level comps : Nat) (syms : List Nat) (bs : Bytes) (hc : 0 < comps)
    (hlen : syms.length < 2 ^ 32)
    (h : encodeSymbolsWith o (choose comps syms) level comps syms = some bs) :
    ∀ rest, decodeSymbols syms.length comps (bs ++ rest) = some (syms, rest) :=
  symbols_roundtrip o (choose comps syms) level comps syms bs hc hlen h

/-- the blocks of the two schemes decode to the same values -/
theorem scheme_choice_same_values (o : ProbOracle) (level comps : Nat) (syms : List Nat)
    (b1 b2 : Bytes) (hc : 0 < comps) (hlen : syms.length < 2 ^ 32)
    (h1 : encodeSymbolsWith o .tagged level comps syms = some b1)
    (h2 : encodeSymbolsWith o .raw level comps syms = some b2) :
    (decodeSymbols syms.length comps b1).map Prod.fst
      = (decodeSymbols syms.length comps b2).map Prod.fst := by
  have e1 := symbols_roundtrip o .tagged level comps syms b1 hc hlen h1 []
  have e2 := symbols_roundtrip o .raw level comps syms b2 hc hlen h2 []
  simp only [List.append_nil] at e1 e2
  rw [e1, e2]

/-- non-vacuity: the automatic (floating point) choice as `choose` -/
example (level comps : Nat) (syms : List Nat) (bs : Bytes) (hc : 0 < comps)
    (hlen : syms.length < 2 ^ 32) (h : encodeSymbols level none comps syms = some bs) :
    ∀ rest, decodeSymbols syms.length comps (bs ++ rest) = some (syms, rest) :=
  scheme_choice_irrelevant ProbOracle.float chooseScheme level comps syms bs hc hlen h

/-- non-vacuity of `scheme_choice_same_values`: both schemes succeed on the same input, with
    different blocks -/
example : encodeSymbolsWith ProbOracle.exact .tagged 7 1 [3, 1, 4, 1, 5]
      = some [0, 4, 3, 153, 25, 205, 12, 157, 25, 3, 32, 215, 176, 231, 2] ∧
    encodeSymbolsWith ProbOracle.exact .raw 7 1 [3, 1, 4, 1, 5]
      = some [1, 3, 6, 3, 157, 25, 3, 205, 12, 205, 12, 205, 12, 4, 254, 55, 136, 128] := by
  constructor <;> decide +kernel

/-! ## the source functions *are* the model functions

  `Generated.*` (lean/Generated/Funcs.lean) is translated mechanically from clang's typed AST of /repo's
  working tree on every run (tools/vlib/xlate.py). -/
open Generated in
/-- `ComputeRAnsUnclampedPrecision` is `3 n / 2` where the `int` product does not overflow -/
theorem source_ransUnclampedPrecision_is_model (n : Int) (h0 : 0 ≤ n) (h1 : 3 * n < 2^31) :
    ComputeRAnsUnclampedPrecision n = 3 * n / 2 := ComputeRAnsUnclampedPrecision_eq_model n h0 h1
example : Generated.ComputeRAnsUnclampedPrecision 13 = 19 := by
  rw [source_ransUnclampedPrecision_is_model _ (by decide) (by decide)]; decide

open Generated in
/-- `ComputeRAnsPrecisionFromUniqueSymbolsBitLength` is `ransPrecisionBits` -/
theorem source_ransPrecision_is_model (n : Nat) (h1 : 3 * n < 2^31) :
    ComputeRAnsPrecisionFromUniqueSymbolsBitLength n = (ransPrecisionBits n : Int) :=
  ComputeRAnsPrecisionFromUniqueSymbolsBitLength_eq_model n h1
example : Generated.ComputeRAnsPrecisionFromUniqueSymbolsBitLength (18 : Nat) = 20 := by
  rw [source_ransPrecision_is_model _ (by decide)]; decide

open Generated in
/-- `MostSignificantBit` (gcc/clang: `31 ^ __builtin_clz(n)`) is `Nat.log2` for every non-zero `uint32_t`
    (`bitLength n = MostSignificantBit n + 1`) -/
theorem source_msb_is_log2 (n : Int) (hn : U32 n) (h0 : n ≠ 0) :
    MostSignificantBit n = (Nat.log2 n.toNat : Int) := MostSignificantBit_eq_model n hn h0
example : Generated.MostSignificantBit 256 = 8 := by
  rw [source_msb_is_log2 _ (by decide) (by decide)]; decide

open Generated in
/-- the size-class branch of `RAnsSymbolEncoder::EncodeTable` (the statements `int num_extra_bytes = 0; if (prob >= (1 << 6))
    { … return false; … }` of the loop body, cut out of the translated method by AST position): `return false` exactly for
    `prob ≥ 2^22`, otherwise 0/1/2 extra bytes for `prob < 2^6`, `< 2^14`, else -/
theorem source_tableSizeClass_is_model (p : Int) (hp : U32 p) :
    RAnsSymbolEncoder.EncodeTable_sizeClass p = sizeClass p := EncodeTable_sizeClass_eq_model p hp
example : Generated.RAnsSymbolEncoder.EncodeTable_sizeClass 16384 = (none, 2) := by
  rw [source_tableSizeClass_is_model _ (by decide)]; decide

open Generated in
/-- … and these are the size classes of the model's table encoder: a non-zero entry fails when the class says
    `return false`, otherwise it is the first byte `(p << 2) | k` followed by `k` extra bytes -/
theorem table_entry_uses_sizeClass (p : Nat) (ps : List Nat) (hp : p ≠ 0) :
    encTableGo (p :: ps) 0 =
      match sizeClass p with
      | (some _, _) => none
      | (none, k) => (encTableGo ps 0).map (fun bs => entryBytes p k.toNat ++ bs) := encTableGo_sizeClass p ps hp
example : encTableGo [16384] 0 = some [2, 0, 1] := by decide

open Generated in
/-- `RAnsDecoder<12>::read_init` (ans.h; with `mem_get_le32`) on a four byte buffer whose last byte announces the
    four-byte state class (`x == 3`): the state is the little-endian value masked to 30 bits plus `l_rans_base`, and the
    call fails exactly when it is not below `l_rans_base * 256` — what `ransReadInit` computes
    (`Generated.ransReadInit_x3`).  Partial: the classes `x = 0, 1, 2` and longer buffers are translated
    (`Generated.RAnsDecoder.read_init`) but tied by correspondence only. -/
theorem source_ransReadInit_x3_is_model (a : Generated.AnsDecoder) (buf : Int → Int) (hb : ∀ i, 0 ≤ buf i ∧ buf i < 256)
    (h3 : buf 3 / 64 = 3) :
    RAnsDecoder.read_init a buf 4 =
      (if (buf 3 * 16777216 + buf 2 * 65536 + buf 1 * 256 + buf 0) % 1073741824 + 16384 ≥ 4194304 then 1 else 0,
        { buf_offset := 0, state := (buf 3 * 16777216 + buf 2 * 65536 + buf 1 * 256 + buf 0) % 1073741824 + 16384 }) :=
  RAnsDecoder_read_init_x3 a buf hb h3
example : (Generated.RAnsDecoder.read_init ⟨0, 0⟩ (fun i => if i = 3 then 192 else if i = 1 then 7 else 0) 4).2.state = 7 * 256 + 16384 := by
  rw [source_ransReadInit_x3_is_model _ _ (by intro i; split <;> (try split) <;> omega) (by decide)]; decide

open Generated in
/-- `RAnsDecoder<12>::read_init` on any buffer `pre ++ [top]` whose last byte announces size class 0: failure ↔ the model's `none`;
    on success the state and `buf_offset` are the model's (`Generated.readInitAgrees`) -/
theorem source_ransReadInit_is_model_x0 (a : Generated.AnsDecoder) (pre : List Nat) (top : Nat)
    (hpre : ∀ b ∈ pre, b < 256) (htop : top < 256) (hx : top / 64 = 0) (hlen : pre.length + 1 < 2^31) :
    readInitAgrees (RAnsDecoder.read_init a (bufOf (pre ++ [top])) ((pre ++ [top]).length : Nat)) (ransReadInit 12 [] (pre ++ [top])) :=
  read_init_agrees_x0 a pre top hpre htop hx hlen
open Generated in
/-- `RAnsDecoder<12>::read_init` on any buffer `pre ++ [b1, top]` whose last byte announces size class 1: failure ↔ the model's `none`;
    on success the state and `buf_offset` are the model's (`Generated.readInitAgrees`) -/
theorem source_ransReadInit_is_model_x1 (a : Generated.AnsDecoder) (pre : List Nat) (b1 top : Nat)
    (hpre : ∀ b ∈ pre, b < 256) (hb1 : b1 < 256) (htop : top < 256) (hx : top / 64 = 1) (hlen : pre.length + 2 < 2^31) :
    readInitAgrees (RAnsDecoder.read_init a (bufOf (pre ++ [b1, top])) ((pre ++ [b1, top]).length : Nat)) (ransReadInit 12 [] (pre ++ [b1, top])) :=
  read_init_agrees_x1 a pre b1 top hpre hb1 htop hx hlen
open Generated in
/-- `RAnsDecoder<12>::read_init` on any buffer `pre ++ [b2, b1, top]` whose last byte announces size class 2: failure ↔ the model's `none`;
    on success the state and `buf_offset` are the model's (`Generated.readInitAgrees`) -/
theorem source_ransReadInit_is_model_x2 (a : Generated.AnsDecoder) (pre : List Nat) (b2 b1 top : Nat)
    (hpre : ∀ b ∈ pre, b < 256) (hb2 : b2 < 256) (hb1 : b1 < 256) (htop : top < 256) (hx : top / 64 = 2) (hlen : pre.length + 3 < 2^31) :
    readInitAgrees (RAnsDecoder.read_init a (bufOf (pre ++ [b2, b1, top])) ((pre ++ [b2, b1, top]).length : Nat)) (ransReadInit 12 [] (pre ++ [b2, b1, top])) :=
  read_init_agrees_x2 a pre b2 b1 top hpre hb2 hb1 htop hx hlen
open Generated in
/-- `RAnsDecoder<12>::read_init` on any buffer `pre ++ [b3, b2, b1, top]` whose last byte announces size class 3: failure ↔ the model's `none`;
    on success the state and `buf_offset` are the model's (`Generated.readInitAgrees`) -/
theorem source_ransReadInit_is_model_x3 (a : Generated.AnsDecoder) (pre : List Nat) (b3 b2 b1 top : Nat)
    (hpre : ∀ b ∈ pre, b < 256) (hb3 : b3 < 256) (hb2 : b2 < 256) (hb1 : b1 < 256) (htop : top < 256) (hx : top / 64 = 3) (hlen : pre.length + 4 < 2^31) :
    readInitAgrees (RAnsDecoder.read_init a (bufOf (pre ++ [b3, b2, b1, top])) ((pre ++ [b3, b2, b1, top]).length : Nat)) (ransReadInit 12 [] (pre ++ [b3, b2, b1, top])) :=
  read_init_agrees_x3 a pre b3 b2 b1 top hpre hb3 hb2 hb1 htop hx hlen
example : Generated.readInitAgrees (Generated.RAnsDecoder.read_init ⟨0, 0⟩ (Generated.bufOf ([9] ++ [0, 7, 0, 192])) (5 : Nat))
    (ransReadInit 12 [] ([9] ++ [0, 7, 0, 192])) :=
  source_ransReadInit_is_model_x3 _ [9] 0 7 0 192 (by decide) (by decide) (by decide) (by decide) (by decide) (by decide) (by decide)

end Draco
