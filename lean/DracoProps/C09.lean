import DracoProofs.EbCounts
import DracoProofs.SeqCounts
/-
  C09 — "When tracking of encoded properties is enabled, the number of points and faces the
         encoder reports after a successful encode equals the number of points and faces of the
         geometry obtained by decoding that stream, for every method and option set."

  Part 1, sequential methods (`MeshSequentialEncoder`, `PointCloudSequentialEncoder` report
  `num_points()` / `num_faces()` of the input: `Counts.seqReportedCounts`):
    * `seq_counts_mesh_connectivity`  the decoder model run on the bytes written by
        `MeshSequentialEncoder::EncodeConnectivity` (uncompressed indices, all four index
        widths u8 / u16 / varint / u32) returns exactly `(num_points, faces)` and stops at the end
        of what was written;  `seq_counts_mesh_connectivity_reported`: = the reported counts.
    * `seq_counts_mesh_stream`, `seq_counts_pc_stream`  the same at the level of the complete
        decoder `decodeGeometry` (header + connectivity / int32 num_points, no metadata): every
        successful decode of such a stream yields the reported counts, whatever attribute data
        follows and whatever the decoder options are.
    * `seq_counts`  every successful `decodeGeometry` of a sequential stream (`IsSeqStream`:
        the header announces encoder method 0; Edgebreaker attributes carry explicit maps):
        each attribute has exactly one value per decoded point (identity map), faces refer to
        decoded points, point clouds have no faces.  `seq_counts_independent_of_skip`: counts
        do not depend on the decoder options.  `…_seq`: the same for `decodeGeometrySeq` (the
        dispatcher with the Edgebreaker / kd-tree bodies rejected) on every stream.
    Not covered in part 1: `compress_connectivity` (method byte 0, entropy coded indices),
    metadata in front of the connectivity, bitstreams < 2.2.

  Part 2, Edgebreaker: the per-vertex point count of
  `MeshEdgebreakerEncoder::ComputeNumberOfEncodedPoints` against the number of points
  `MeshEdgebreakerDecoderImpl::AssignPointsToCorners` creates, on an abstract vertex fan
  (`DracoModel/EbCounts.lean`):
    * `eb_point_count_fan`  equal for the encoder as written after the `fix:` commit (seams are
        found from the attribute corner tables only) under H2 (the decoder's seam flags are
        sound) — no hypothesis on point ids;  closed forms `dec_points_interior`,
        `dec_points_boundary`, `enc_seams_eq_changes`;  `eb_point_count_mesh` sums over vertices.
    * history (`encPointsPreFix`: formula before fix: commit 49d6567, which also counted a seam
        whenever the point id changed): `eb_point_count_fan_prefix_agrees` — under H1 (point ids
        are deduplicated: consecutive corners with different point ids differ in some attribute
        corner table) the old formula equals the repaired one, hence the decoder's count;
        `eb_point_count_fan_nondedup_witness`, `…_boundary_witness`,
        `eb_point_count_fan_prefix_false`: without H1 the property was FALSE of the old code
        (replayed on the real library: a closed 4-triangle fan whose centre is referenced
        through two point ids with identical attribute values: the old encoder reported 6
        points, the decoder produces 5).
    * `eb_point_count_fan_unsound_flag_witness`: H2 cannot be dropped in the abstract model.
    Not modelled: how the fan is obtained from the corner table (`LeftMostCorner`,
    `SwingRight`, `IsOnBoundary(v)` = `is_vert_hole_[v]` = ¬closed), the position-only
    configuration (`num_attributes() ≤ 1` / `attribute_data_.empty()`: both sides use the number
    of non-isolated vertices), and `ComputeNumberOfEncodedFaces`.
-/
namespace Draco.C09
open Draco Draco.DecM Draco.Counts

/-! ## Part 1: sequential encoders -/

/-- `MeshSequentialDecoder::DecodeConnectivity` (model) on the bytes of
    `MeshSequentialEncoder::EncodeConnectivity` without `compress_connectivity`, bitstream 2.2,
    all four index widths: the decoder returns the encoder's `num_points` and faces and leaves
    exactly `tail`. The decoder's plausibility check `num_faces ≤ remaining / 3` needs no
    hypothesis: every index occupies at least one byte. -/
theorem seq_counts_mesh_connectivity (s : DSt) (np : Nat) (faces : List (Nat × Nat × Nat))
    (tail : Bytes) (hv : s.version = bsVersion 2 2)
    (hrest : s.rest = encodeSeqConnectivityRaw np faces ++ tail)
    (hidx : ∀ f ∈ faces, f.1 < np ∧ f.2.1 < np ∧ f.2.2 < np)
    (hnp : np < 2^32) (hnf : faces.length ≤ 0xffffffff / 3) :
    ∃ s', decodeSeqConnectivity s = (some (np, faces), s') ∧ s'.rest = tail := by
  obtain ⟨s', e, hr, _⟩ := decodeSeqConnectivity_raw s np faces tail hv hrest hidx hnp hnf
  exact ⟨s', e, hr⟩

/-- non-vacuity: u16 indices (300 points), two faces, one trailing byte -/
example : ∃ s', decodeSeqConnectivity
      { rest := encodeSeqConnectivityRaw 300 [(0, 1, 299), (2, 299, 5)] ++ [9],
        version := bsVersion 2 2 } = (some (300, [(0, 1, 299), (2, 299, 5)]), s') ∧
    s'.rest = [9] :=
  seq_counts_mesh_connectivity _ 300 [(0, 1, 299), (2, 299, 5)] [9] rfl rfl (by decide)
    (by decide) (by decide)

/-- non-vacuity of the varint path: 70000 points -/
example : ∃ s', decodeSeqConnectivity
      { rest := encodeSeqConnectivityRaw 70000 [(69999, 1, 300)] ++ [],
        version := bsVersion 2 2 } = (some (70000, [(69999, 1, 300)]), s') ∧ s'.rest = [] :=
  seq_counts_mesh_connectivity _ 70000 [(69999, 1, 300)] [] rfl rfl (by decide)
    (by decide) (by decide)

/-- … hence the decoded counts are the counts `MeshSequentialEncoder` reports
    (`ComputeNumberOfEncodedPoints/Faces`). -/
theorem seq_counts_mesh_connectivity_reported (g : Geometry) (s : DSt) (tail : Bytes)
    (hv : s.version = bsVersion 2 2)
    (hrest : s.rest = encodeSeqConnectivityRaw g.numPoints g.faces ++ tail)
    (hidx : ∀ f ∈ g.faces, f.1 < g.numPoints ∧ f.2.1 < g.numPoints ∧ f.2.2 < g.numPoints)
    (hnp : g.numPoints < 2^32) (hnf : g.faces.length ≤ 0xffffffff / 3) :
    ∃ r s', decodeSeqConnectivity s = (some r, s') ∧ s'.rest = tail ∧
      (r.1, r.2.length) = seqReportedCounts g := by
  obtain ⟨s', e, hr⟩ := seq_counts_mesh_connectivity s g.numPoints g.faces tail hv hrest hidx hnp hnf
  exact ⟨_, s', e, hr, rfl⟩

example : ∃ r s', decodeSeqConnectivity
      { rest := encodeSeqConnectivityRaw 4 [(0, 1, 2), (2, 1, 3)] ++ [0],
        version := bsVersion 2 2 } = (some r, s') ∧ s'.rest = [0] ∧
    (r.1, r.2.length) = seqReportedCounts
      { isMesh := true, numPoints := 4, faces := [(0, 1, 2), (2, 1, 3)], atts := [] } :=
  seq_counts_mesh_connectivity_reported
    { isMesh := true, numPoints := 4, faces := [(0, 1, 2), (2, 1, 3)], atts := [] } _ [0]
    rfl rfl (by decide) (by decide) (by decide)

/-- Whole mesh stream (`EncodeHeader`, no metadata, `EncodeConnectivity`, then arbitrary
    attribute data `tail`) through the complete decoder: every successful decode, under every
    decoder option set, yields a mesh with exactly the reported number of points and faces
    (indeed the same faces). -/
theorem seq_counts_mesh_stream (opts : DecOpts) (g : Geometry) (s s' : DSt) (tail : Bytes)
    (r : DecodeResult)
    (hrest : s.rest = encodeSeqHeader true ++ (encodeSeqConnectivityRaw g.numPoints g.faces ++ tail))
    (hidx : ∀ f ∈ g.faces, f.1 < g.numPoints ∧ f.2.1 < g.numPoints ∧ f.2.2 < g.numPoints)
    (hnp : g.numPoints < 2^32) (hnf : g.faces.length ≤ 0xffffffff / 3)
    (hdec : decodeGeometry opts s = (some r, s')) :
    r.geometry.isMesh = true ∧ r.geometry.faces = g.faces ∧
      (r.geometry.numPoints, r.geometry.faces.length) = seqReportedCounts g := by
  obtain ⟨h1, h2, h3⟩ :=
    decodeGeometry_mesh_stream opts s g.numPoints g.faces tail hrest hidx hnp hnf r s' hdec
  refine ⟨h1, h3, ?_⟩
  rw [h2, h3]; rfl

/-- non-vacuity: 4 points, 2 faces, `tail = [0]` (no attribute decoder): the decode succeeds -/
example : (decodeGeometry {} { rest := encodeSeqHeader true ++
        (encodeSeqConnectivityRaw 4 [(0, 1, 2), (2, 1, 3)] ++ [0]) }).1.isSome = true ∧
    ∀ r s', decodeGeometry {} { rest := encodeSeqHeader true ++
        (encodeSeqConnectivityRaw 4 [(0, 1, 2), (2, 1, 3)] ++ [0]) } = (some r, s') →
      (r.geometry.numPoints, r.geometry.faces.length) = (4, 2) :=
  ⟨by decide +kernel, fun r s' h => (seq_counts_mesh_stream {}
    { isMesh := true, numPoints := 4, faces := [(0, 1, 2), (2, 1, 3)], atts := [] } _ s' [0] r rfl
    (by decide) (by decide) (by decide) h).2.2⟩

/-- Whole point cloud stream (`EncodeHeader`, no metadata,
    `PointCloudSequentialEncoder::EncodeGeometryData`, then arbitrary attribute data) through the
    complete decoder: every successful decode yields a point cloud with the reported number of
    points and no faces. -/
theorem seq_counts_pc_stream (opts : DecOpts) (g : Geometry) (s s' : DSt) (tail : Bytes)
    (r : DecodeResult) (hpc : g.faces = [])
    (hrest : s.rest = encodeSeqHeader false ++ (encodePcGeometryData g.numPoints ++ tail))
    (hnp : g.numPoints < 2^32)
    (hdec : decodeGeometry opts s = (some r, s')) :
    r.geometry.isMesh = false ∧ r.geometry.faces = [] ∧
      (r.geometry.numPoints, r.geometry.faces.length) = seqReportedCounts g := by
  obtain ⟨h1, h2, h3⟩ := decodeGeometry_pc_stream opts s g.numPoints tail hrest hnp r s' hdec
  refine ⟨h1, h3, ?_⟩
  rw [h2, h3]; unfold seqReportedCounts; rw [hpc]

/-- non-vacuity: 2 points, one generic UINT8 position-type attribute with values 7, 9 -/
example : (decodeGeometry {} { rest := encodeSeqHeader false ++
        (encodePcGeometryData 2 ++ [1, 1, 0, 2, 1, 0, 0, 0, 7, 9]) }).1.isSome = true ∧
    ∀ r s', decodeGeometry {} { rest := encodeSeqHeader false ++
        (encodePcGeometryData 2 ++ [1, 1, 0, 2, 1, 0, 0, 0, 7, 9]) } = (some r, s') →
      (r.geometry.numPoints, r.geometry.faces.length) = (2, 0) :=
  ⟨by decide +kernel, fun r s' h => (seq_counts_pc_stream {}
    { isMesh := false, numPoints := 2, faces := [], atts := [] } _ s'
    [1, 1, 0, 2, 1, 0, 0, 0, 7, 9] r rfl rfl (by decide) h).2.2⟩

/-- Every successful `decodeGeometrySeq` (any stream, any options): (i) each attribute has one
    value per decoded point, in stream order (`numValues = numPoints`, identity map); (ii) all
    face indices refer to decoded points; (iii) a point cloud has no faces. So the decoder
    returns exactly the number of points it read from the stream, for every attribute. -/
theorem seq_counts_seq (opts : DecOpts) (s s' : DSt) (r : DecodeResult)
    (hdec : decodeGeometrySeq opts s = (some r, s')) :
    (∀ a ∈ r.geometry.atts, a.numValues = r.geometry.numPoints ∧ a.map = none) ∧
    r.geometry.faces.all (fun (a, b, c) =>
      decide (a < r.geometry.numPoints) && decide (b < r.geometry.numPoints) &&
        decide (c < r.geometry.numPoints)) = true ∧
    (r.geometry.isMesh = false → r.geometry.faces = []) := by
  obtain ⟨h1, h2, h3⟩ := decodeGeometrySeq_post opts s r s' hdec
  exact ⟨h1, facesBelow_all _ _ h2, h3⟩

example : (decodeGeometrySeq {} { rest := encodeSeqHeader false ++
        (encodePcGeometryData 2 ++ [1, 1, 0, 2, 1, 0, 0, 0, 7, 9]) }).1.isSome = true ∧
    ∀ r s', decodeGeometrySeq {} { rest := encodeSeqHeader false ++
        (encodePcGeometryData 2 ++ [1, 1, 0, 2, 1, 0, 0, 0, 7, 9]) } = (some r, s') →
      (∀ a ∈ r.geometry.atts, a.numValues = r.geometry.numPoints ∧ a.map = none) :=
  ⟨by decide +kernel, fun r s' h => (seq_counts_seq {} _ s' r h).1⟩

/-- The same for the complete decoder on every sequential stream (header readable, encoder
    method byte 0). Edgebreaker / kd-tree streams are excluded: their attributes carry explicit
    point-to-value maps. -/
theorem seq_counts (opts : DecOpts) (s s' : DSt) (r : DecodeResult) (hs : IsSeqStream s)
    (hdec : decodeGeometry opts s = (some r, s')) :
    (∀ a ∈ r.geometry.atts, a.numValues = r.geometry.numPoints ∧ a.map = none) ∧
    r.geometry.faces.all (fun (a, b, c) =>
      decide (a < r.geometry.numPoints) && decide (b < r.geometry.numPoints) &&
        decide (c < r.geometry.numPoints)) = true ∧
    (r.geometry.isMesh = false → r.geometry.faces = []) := by
  obtain ⟨h1, h2, h3⟩ := decodeGeometry_post opts s hs r s' hdec
  exact ⟨h1, facesBelow_all _ _ h2, h3⟩

/-- non-vacuity: the point cloud stream from above is sequential and decodes, its attribute
    has 2 values -/
example : IsSeqStream { rest := encodeSeqHeader false ++
        (encodePcGeometryData 2 ++ [1, 1, 0, 2, 1, 0, 0, 0, 7, 9]) } ∧
    (decodeGeometry {} { rest := encodeSeqHeader false ++
        (encodePcGeometryData 2 ++ [1, 1, 0, 2, 1, 0, 0, 0, 7, 9]) }).1.map
      (fun r => r.geometry.atts.map (·.numValues)) = some [2] ∧
    ∀ r s', decodeGeometry {} { rest := encodeSeqHeader false ++
        (encodePcGeometryData 2 ++ [1, 1, 0, 2, 1, 0, 0, 0, 7, 9]) } = (some r, s') →
      (∀ a ∈ r.geometry.atts, a.numValues = r.geometry.numPoints ∧ a.map = none) :=
  ⟨isSeqStream_of_header _ false _ rfl, by decide +kernel,
    fun r s' h => (seq_counts {} _ s' r (isSeqStream_of_header _ false _ rfl) h).1⟩

/-- two successful `decodeGeometrySeq` runs on one stream under different option sets (`skip`
    lists) yield the same kind of geometry, number of points, faces and number of attributes -/
theorem seq_counts_independent_of_skip_seq (o1 o2 : DecOpts) (s s1 s2 : DSt)
    (r1 r2 : DecodeResult)
    (h1 : decodeGeometrySeq o1 s = (some r1, s1)) (h2 : decodeGeometrySeq o2 s = (some r2, s2)) :
    r1.geometry.isMesh = r2.geometry.isMesh ∧ r1.geometry.numPoints = r2.geometry.numPoints ∧
      r1.geometry.faces = r2.geometry.faces ∧
      r1.geometry.atts.length = r2.geometry.atts.length :=
  decodeGeometrySeq_opts_indep o1 o2 s r1 s1 r2 s2 h1 h2

example : (decodeGeometrySeq {} { rest := encodeSeqHeader false ++
        (encodePcGeometryData 2 ++ [1, 1, 1, 1, 1, 0, 0, 1, 254, 0, 1, 14, 18]) }).1.isSome = true ∧
    (decodeGeometrySeq { skip := [1] } { rest := encodeSeqHeader false ++
        (encodePcGeometryData 2 ++ [1, 1, 1, 1, 1, 0, 0, 1, 254, 0, 1, 14, 18]) }).1.isSome = true ∧
    ∀ r1 s1 r2 s2,
      decodeGeometrySeq {} { rest := encodeSeqHeader false ++
        (encodePcGeometryData 2 ++ [1, 1, 1, 1, 1, 0, 0, 1, 254, 0, 1, 14, 18]) } = (some r1, s1) →
      decodeGeometrySeq { skip := [1] } { rest := encodeSeqHeader false ++
        (encodePcGeometryData 2 ++ [1, 1, 1, 1, 1, 0, 0, 1, 254, 0, 1, 14, 18]) } = (some r2, s2) →
      r1.geometry.numPoints = r2.geometry.numPoints :=
  ⟨by decide +kernel, by decide +kernel, fun r1 s1 r2 s2 h1 h2 =>
    (seq_counts_independent_of_skip_seq {} { skip := [1] } _ s1 s2 r1 r2 h1 h2).2.1⟩

/-- the same for the complete decoder on every sequential stream -/
theorem seq_counts_independent_of_skip (o1 o2 : DecOpts) (s s1 s2 : DSt) (r1 r2 : DecodeResult)
    (hs : IsSeqStream s)
    (h1 : decodeGeometry o1 s = (some r1, s1)) (h2 : decodeGeometry o2 s = (some r2, s2)) :
    r1.geometry.isMesh = r2.geometry.isMesh ∧ r1.geometry.numPoints = r2.geometry.numPoints ∧
      r1.geometry.faces = r2.geometry.faces ∧
      r1.geometry.atts.length = r2.geometry.atts.length :=
  decodeGeometry_opts_indep o1 o2 s hs r1 s1 r2 s2 h1 h2

/-- non-vacuity: a sequential stream with one INT8 attribute (type 1, integer decoder) decoded
    with and without skipping its transform: the attributes differ (INT8 `[7, 9]` vs INT32), the
    counts agree -/
example : (decodeGeometry {} { rest := encodeSeqHeader false ++
        (encodePcGeometryData 2 ++ [1, 1, 1, 1, 1, 0, 0, 1, 254, 0, 1, 14, 18]) }).1.isSome = true ∧
    (decodeGeometry { skip := [1] } { rest := encodeSeqHeader false ++
        (encodePcGeometryData 2 ++ [1, 1, 1, 1, 1, 0, 0, 1, 254, 0, 1, 14, 18]) }).1.isSome = true ∧
    ∀ r1 s1 r2 s2,
      decodeGeometry {} { rest := encodeSeqHeader false ++
        (encodePcGeometryData 2 ++ [1, 1, 1, 1, 1, 0, 0, 1, 254, 0, 1, 14, 18]) } = (some r1, s1) →
      decodeGeometry { skip := [1] } { rest := encodeSeqHeader false ++
        (encodePcGeometryData 2 ++ [1, 1, 1, 1, 1, 0, 0, 1, 254, 0, 1, 14, 18]) } = (some r2, s2) →
      r1.geometry.numPoints = r2.geometry.numPoints :=
  ⟨by decide +kernel, by decide +kernel, fun r1 s1 r2 s2 h1 h2 =>
    (seq_counts_independent_of_skip {} { skip := [1] } _ s1 s2 r1 r2
      (isSeqStream_of_header _ false _ rfl) h1 h2).2.1⟩

/-! ## Part 2: Edgebreaker, one vertex fan -/

/-- The encoder's `num_attribute_seams` of a vertex is the number of (cyclically) consecutive
    corner pairs whose attribute vertices differ. -/
theorem enc_seams_eq_changes (f : Fan)
    (hlen : ∀ c ∈ f.corners, c.av.length = f.onSeam.length) :
    encSeams f = f.avChanges :=
  encSeams_eq_avChanges f hlen

example : encSeams ⟨[⟨0, [1]⟩, ⟨0, [1]⟩, ⟨1, [2]⟩, ⟨1, [2]⟩], true, [true]⟩ = 2 ∧
    (⟨[⟨0, [1]⟩, ⟨0, [1]⟩, ⟨1, [2]⟩, ⟨1, [2]⟩], true, [true]⟩ : Fan).avChanges = 2 :=
  ⟨enc_seams_eq_changes _ (by decide), by decide⟩

/-- boundary vertex: the decoder creates one point plus one per attribute change -/
theorem dec_points_boundary (f : Fan) (hk : f.corners ≠ []) (ho : f.closed = false)
    (hlen : ∀ c ∈ f.corners, c.av.length = f.onSeam.length) :
    decPoints f = f.avChanges + 1 :=
  decPoints_open f hk ho hlen

example : decPoints ⟨[⟨0, [5, 1]⟩, ⟨1, [5, 2]⟩, ⟨1, [5, 2]⟩, ⟨2, [6, 2]⟩], false, [false, true]⟩ = 3 :=
  dec_points_boundary _ (by decide) rfl (by decide)

/-- interior vertex with sound seam flags (H2): with `s` the number of cyclically consecutive
    corner pairs whose attribute vertices differ the decoder creates `s` points when `s > 0`
    and one point when `s = 0` -/
theorem dec_points_interior (f : Fan) (hk : f.corners ≠ []) (hc : f.closed = true)
    (hlen : ∀ c ∈ f.corners, c.av.length = f.onSeam.length)
    (h2 : ∀ i, i < f.onSeam.length →
      (∃ a ∈ f.corners, ∃ b ∈ f.corners, a.av.getD i 0 ≠ b.av.getD i 0) →
      f.onSeam.getD i false = true) :
    (f.avChanges > 0 → decPoints f = f.avChanges) ∧ (f.avChanges = 0 → decPoints f = 1) := by
  have h := decPoints_closed f hk hc hlen h2
  constructor
  · intro hs; rw [h, if_pos hs]
  · intro hs; rw [h, if_neg (by omega)]

/-- non-vacuity: three seams (in two different attributes), and a seamless interior vertex -/
example : decPoints ⟨[⟨0, [1, 4]⟩, ⟨1, [2, 4]⟩, ⟨2, [2, 5]⟩, ⟨2, [2, 5]⟩], true, [true, true]⟩ = 3 :=
  (dec_points_interior _ (by decide) rfl (by decide) (by decide)).1 (by decide)
example : decPoints ⟨[⟨0, [1, 4]⟩, ⟨0, [1, 4]⟩, ⟨0, [1, 4]⟩], true, [false, true]⟩ = 1 :=
  (dec_points_interior _ (by decide) rfl (by decide) (by decide)).2 (by decide)

/-- **Point count of one vertex** (encoder as written after the `fix:` commit). Hypotheses: at
    least one corner; every corner carries one vertex per attribute corner table; H2 "seam flags
    are sound" (interior vertices only): an attribute that is not constant around the vertex has
    `IsCornerOnSeam(c₀)` set. No hypothesis on point ids. Then the contribution of the vertex to
    the encoder's `num_encoded_points` equals the number of points the decoder creates for it. -/
theorem eb_point_count_fan (f : Fan) (hk : f.corners ≠ [])
    (hlen : ∀ c ∈ f.corners, c.av.length = f.onSeam.length)
    (h2 : f.closed = true → ∀ i, i < f.onSeam.length →
      (∃ a ∈ f.corners, ∃ b ∈ f.corners, a.av.getD i 0 ≠ b.av.getD i 0) →
      f.onSeam.getD i false = true) :
    encPoints f = decPoints f := by
  unfold encPoints
  rw [encSeams_eq_avChanges f hlen]
  cases hc : f.closed with
  | false =>
    rw [decPoints_open f hk hc hlen]
    simp only [Bool.false_and, Bool.false_eq_true, if_false]
    omega
  | true =>
    rw [decPoints_closed f hk hc hlen (h2 hc)]
    by_cases hs : f.avChanges > 0
    · simp only [Bool.true_and, decide_eq_true_eq, hs, if_true]
      omega
    · simp only [Bool.true_and, decide_eq_true_eq, hs, if_false]
      omega

/-- non-vacuity: a closed fan with two seams of one attribute (the decoder starts at c₂) -/
example : encPoints ⟨[⟨0, [1]⟩, ⟨0, [1]⟩, ⟨1, [2]⟩, ⟨1, [2]⟩], true, [true]⟩ =
    decPoints ⟨[⟨0, [1]⟩, ⟨0, [1]⟩, ⟨1, [2]⟩, ⟨1, [2]⟩], true, [true]⟩ :=
  eb_point_count_fan _ (by decide) (by decide) (by decide)
example : encPoints ⟨[⟨0, [1]⟩, ⟨0, [1]⟩, ⟨1, [2]⟩, ⟨1, [2]⟩], true, [true]⟩ = 2 ∧
    dedupStart ⟨0, [1]⟩ [⟨0, [1]⟩, ⟨1, [2]⟩, ⟨1, [2]⟩] 0 [true] = 2 := by decide

/-- non-vacuity: an open fan with a seam in the second attribute only -/
example : encPoints ⟨[⟨0, [5, 1]⟩, ⟨1, [5, 2]⟩, ⟨1, [5, 2]⟩], false, [false, true]⟩ =
    decPoints ⟨[⟨0, [5, 1]⟩, ⟨1, [5, 2]⟩, ⟨1, [5, 2]⟩], false, [false, true]⟩ :=
  eb_point_count_fan _ (by decide) (by decide) (by decide)
example : decPoints ⟨[⟨0, [5, 1]⟩, ⟨1, [5, 2]⟩, ⟨1, [5, 2]⟩], false, [false, true]⟩ = 2 := by decide

/-- non-vacuity: the input on which the encoder before the fix miscounted (two point ids with
    identical attribute vertices) -/
example : encPoints ⟨[⟨0, [7]⟩, ⟨0, [7]⟩, ⟨5, [7]⟩, ⟨5, [7]⟩], true, [false]⟩ =
    decPoints ⟨[⟨0, [7]⟩, ⟨0, [7]⟩, ⟨5, [7]⟩, ⟨5, [7]⟩], true, [false]⟩ :=
  eb_point_count_fan _ (by decide) (by decide) (by decide)

/-- summed over the non-isolated vertices of a mesh: `num_encoded_points` (encoder) =
    `point_to_corner_map.size()` (decoder) -/
theorem eb_point_count_mesh (fans : List Fan)
    (h : ∀ f ∈ fans, f.corners ≠ [] ∧
      (∀ c ∈ f.corners, c.av.length = f.onSeam.length) ∧
      (f.closed = true → ∀ i, i < f.onSeam.length →
        (∃ a ∈ f.corners, ∃ b ∈ f.corners, a.av.getD i 0 ≠ b.av.getD i 0) →
        f.onSeam.getD i false = true)) :
    (fans.map encPoints).sum = (fans.map decPoints).sum := by
  induction fans with
  | nil => rfl
  | cons f fs ih =>
    obtain ⟨a, b, c⟩ := h f (by simp)
    simp only [List.map_cons, List.sum_cons, eb_point_count_fan f a b c,
      ih (fun g hg => h g (by simp [hg]))]

example : ([⟨[⟨0, [1]⟩, ⟨0, [1]⟩, ⟨1, [2]⟩, ⟨1, [2]⟩], true, [true]⟩,
      ⟨[⟨3, [1]⟩, ⟨3, [2]⟩], false, [true]⟩].map encPoints).sum =
    ([⟨[⟨0, [1]⟩, ⟨0, [1]⟩, ⟨1, [2]⟩, ⟨1, [2]⟩], true, [true]⟩,
      ⟨[⟨3, [1]⟩, ⟨3, [2]⟩], false, [true]⟩].map decPoints).sum :=
  eb_point_count_mesh _ (by decide)

/-! ### history: the formula before fix: commit 49d6567 -/

/-- Under H1 "deduplicated points" ((cyclically, for an interior vertex) consecutive corners
    with different point ids differ in some attribute corner table) the pre-fix formula equals
    the repaired one — the repair changes nothing on deduplicated inputs — and hence, with H2,
    the decoder's count. -/
theorem eb_point_count_fan_prefix_agrees (f : Fan) (hk : f.corners ≠ [])
    (hlen : ∀ c ∈ f.corners, c.av.length = f.onSeam.length)
    (h1 : ∀ p ∈ f.pairs, p.1.pid ≠ p.2.pid → p.1.av ≠ p.2.av)
    (h2 : f.closed = true → ∀ i, i < f.onSeam.length →
      (∃ a ∈ f.corners, ∃ b ∈ f.corners, a.av.getD i 0 ≠ b.av.getD i 0) →
      f.onSeam.getD i false = true) :
    encPointsPreFix f = encPoints f ∧ encPointsPreFix f = decPoints f := by
  have e := encPointsPreFix_eq f hlen h1
  exact ⟨e, e.trans (eb_point_count_fan f hk hlen h2)⟩

/-- non-vacuity: point ids change exactly where the attribute vertices change -/
example : encPointsPreFix ⟨[⟨0, [1]⟩, ⟨0, [1]⟩, ⟨1, [2]⟩, ⟨1, [2]⟩], true, [true]⟩ =
      encPoints ⟨[⟨0, [1]⟩, ⟨0, [1]⟩, ⟨1, [2]⟩, ⟨1, [2]⟩], true, [true]⟩ ∧
    encPointsPreFix ⟨[⟨0, [1]⟩, ⟨0, [1]⟩, ⟨1, [2]⟩, ⟨1, [2]⟩], true, [true]⟩ =
      decPoints ⟨[⟨0, [1]⟩, ⟨0, [1]⟩, ⟨1, [2]⟩, ⟨1, [2]⟩], true, [true]⟩ :=
  eb_point_count_fan_prefix_agrees _ (by decide) (by decide) (by decide) (by decide)
/-- non-vacuity: same point id, different attribute vertices (the old else-branch) -/
example : encPointsPreFix ⟨[⟨3, [5, 1]⟩, ⟨3, [5, 2]⟩, ⟨4, [6, 2]⟩], false, [false, true]⟩ =
      decPoints ⟨[⟨3, [5, 1]⟩, ⟨3, [5, 2]⟩, ⟨4, [6, 2]⟩], false, [false, true]⟩ :=
  (eb_point_count_fan_prefix_agrees _ (by decide) (by decide) (by decide) (by decide)).2

/-- Without H1 the old code miscounted: a closed 4-corner fan whose vertex is referenced
    through two point ids (0 and 5) with identical attribute vertices everywhere. The old
    encoder counted two seams (0→5, 5→0) and reported 2 points for the vertex; the repaired
    encoder reports 1 and the decoder creates 1. (Replayed on the real library before the fix:
    4-triangle closed fan, encoder reported 6 points, decoded mesh has 5.) -/
theorem eb_point_count_fan_nondedup_witness :
    encPointsPreFix ⟨[⟨0, [7]⟩, ⟨0, [7]⟩, ⟨5, [7]⟩, ⟨5, [7]⟩], true, [false]⟩ = 2 ∧
    encPoints ⟨[⟨0, [7]⟩, ⟨0, [7]⟩, ⟨5, [7]⟩, ⟨5, [7]⟩], true, [false]⟩ = 1 ∧
    decPoints ⟨[⟨0, [7]⟩, ⟨0, [7]⟩, ⟨5, [7]⟩, ⟨5, [7]⟩], true, [false]⟩ = 1 := by decide

/-- the same on a boundary vertex: old encoder 2 points, repaired encoder and decoder 1 -/
theorem eb_point_count_fan_nondedup_boundary_witness :
    encPointsPreFix ⟨[⟨0, [7]⟩, ⟨5, [7]⟩], false, [false]⟩ = 2 ∧
    encPoints ⟨[⟨0, [7]⟩, ⟨5, [7]⟩], false, [false]⟩ = 1 ∧
    decPoints ⟨[⟨0, [7]⟩, ⟨5, [7]⟩], false, [false]⟩ = 1 := by decide

/-- … hence the statement for the pre-fix formula without H1 was FALSE of the code (all other
    hypotheses hold at the witness: its seam flags are sound since every attribute is
    constant). -/
theorem eb_point_count_fan_prefix_false :
    ¬ ∀ f : Fan, f.corners ≠ [] → (∀ c ∈ f.corners, c.av.length = f.onSeam.length) →
      (f.closed = true → ∀ i, i < f.onSeam.length →
        (∃ a ∈ f.corners, ∃ b ∈ f.corners, a.av.getD i 0 ≠ b.av.getD i 0) →
        f.onSeam.getD i false = true) →
      encPointsPreFix f = decPoints f := by
  intro h
  have := h ⟨[⟨0, [7]⟩, ⟨0, [7]⟩, ⟨5, [7]⟩, ⟨5, [7]⟩], true, [false]⟩ (by decide) (by decide)
    (by decide)
  revert this
  decide

/-- H2 cannot be dropped in the abstract model (also for the repaired encoder): with an unsound
    seam flag the decoder starts at c₀ in the middle of a sector and creates 3 points where the
    encoder reports 2. In the real decoder the flags are computed from the decoded seams. -/
theorem eb_point_count_fan_unsound_flag_witness :
    encPoints ⟨[⟨0, [1]⟩, ⟨1, [2]⟩, ⟨0, [1]⟩], true, [false]⟩ = 2 ∧
    decPoints ⟨[⟨0, [1]⟩, ⟨1, [2]⟩, ⟨0, [1]⟩], true, [false]⟩ = 3 ∧
    (∀ c ∈ (⟨[⟨0, [1]⟩, ⟨1, [2]⟩, ⟨0, [1]⟩], true, [false]⟩ : Fan).corners,
      c.av.length = (⟨[⟨0, [1]⟩, ⟨1, [2]⟩, ⟨0, [1]⟩], true, [false]⟩ : Fan).onSeam.length) := by
  decide

end Draco.C09
