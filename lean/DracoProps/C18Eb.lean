import DracoProps.C18
import DracoProps.C18Kd
import DracoProps.C03Eb
import DracoProofs.EbAlloc
import DracoProofs.EbConnInv
import DracoProofs.EbTraversalFuel
/-
  C18 — decoder memory on the Edgebreaker path (staging file of the Edgebreaker slice, to be merged into
  DracoProps/C18.lean).

  `C18.alloc_bounded_with` carries `Tr bs 0 (eb opts) …` — every allocation event of the Edgebreaker body within
  `A + K·(length + declared)` — as a hypothesis.  Proved here, for every byte string and option set, accepted and
  rejected streams, every bitstream version:

    `eb_connectivity_alloc_invariant`   the connectivity decoder (`DecodeConnectivity`: corner table, vertex tables,
                                        valence contexts, split events, attribute data, the face array) keeps the
                                        LINEAR invariant, no exception: each of its tables is sized by a declared
                                        count (faces, vertices: `declare (num_faces + num_vertices)`) or by a count the
                                        C++ checks against one (`n ≤ num_faces`, uint8 counts)
    `eb_body_alloc_invariant`           the whole body decoder keeps the invariant with the exceptional class `ebX`
    `eb_alloc_bounded`                  the complete decoder with the real Edgebreaker body (any kd-tree body that
                                        keeps the linear invariant): every event ≤ A + K·(length + declared), A =
                                        4 259 840, K = 2048, or it is one of the four sites of `ebX`
    `alloc_classified`                  the complete decoder `decodeGeometry` with both real bodies: linear bound,
                                        or `kdX` (the known kd-tree finding), or `ebX`
    `decode_consumes_prefix`            (C02, purity) the complete decoder with both real bodies only advances in the
                                        input: what is left is a suffix of the caller's bytes

  `ebX`: mesh_traversal_sequencer.point_ids, attribute.indices_map, attribute.Reset,
  integer_decoder.portable_attribute — sized by the number of vertices of the (attribute) corner table / the
  number of points / the length of the traversal sequence, i.e. by tables the connectivity decoder computes, times
  a declared stride.  Those numbers are below the declared counts when the decoded corner table is consistent
  (vertices ≤ max_num_vertices is checked by the C++ right after the symbol loop; attribute vertices and points
  are at most the number of corners); that is not proved — no size hypothesis is hidden, the events are
  simply classified.  On the implementation the same sites are measured by the allocation monitor
  (tools/props/C18.py) with the linear bound, no violation observed.

  The guards, one lemma each (every one a check of the C++): `guard_*` below.
-/
namespace Draco.C18Eb
open Draco Draco.Robust Draco.Eb

/-- the connectivity decoder alone, from any state satisfying the linear invariant, all outcomes (`X := False`) -/
theorem eb_connectivity_alloc_invariant (bs : Bytes) (hb : IsBytes bs) (d : Nat) :
    TrC bs (fun _ => False) d Eb.decodeConnectivity (fun mesh => d + mesh.numFaces) (fun _ => True) :=
  trc_decodeConnectivity hb

/-- the body decoder, from any state satisfying the invariant, all outcomes -/
theorem eb_body_alloc_invariant (opts : DecOpts) (bs : Bytes) (hb : IsBytes bs) :
    TrC bs ebX 0 (Eb.decodeEdgebreaker opts) (fun _ => 0) (fun _ => True) :=
  trc_decodeEdgebreaker hb (fun _ h => h) opts

/-! ### the guards -/

/-- `num_faces > max/3 → false`, `declare`: the two corner maps (4 bytes per corner each) -/
theorem guard_corner_table (L d numFaces numVerts : Nat) : 4 * 3 * numFaces ≤ allocBound L (d + (numFaces + numVerts)) := by
  unfold allocBound allocA allocK; omega

/-- vertex tables: `vertex_corners_`, `is_vert_hole_`, the valence arrays of the predictive / valence decoders -/
theorem guard_vertex_tables (L d numFaces numVerts : Nat) :
    4 * numVerts ≤ allocBound L (d + (numFaces + numVerts)) ∧ numVerts / 8 ≤ allocBound L (d + (numFaces + numVerts)) := by
  unfold allocBound allocA allocK; omega

/-- `num_attribute_data` is a uint8 -/
theorem guard_attribute_data (L d numAtt : Nat) (h : numAtt < 256) : 200 * numAtt ≤ allocBound L d := by
  unfold allocBound allocA allocK; omega

/-- valence decoder: `num_symbols > num_faces → false` for each of the 6 contexts -/
theorem guard_valence_context (L d n numFaces : Nat) (h : n ≤ numFaces) (hd : numFaces ≤ d) : 4 * n ≤ allocBound L d := by
  unfold allocBound allocA allocK; omega

/-- constrained multi-parallelogram: `num_flags > num_corners → false`;
    tex-coord predictors: `num_orientations > num_corners → false` (portable variant since 008c24a) -/
theorem guard_flags (L d n numFaces : Nat) (h : n ≤ 3 * numFaces) (hd : numFaces ≤ d) : n / 8 ≤ allocBound L d := by
  unfold allocBound allocA allocK; omega

/-- `num_attributes > 5 · remaining → false` (`DecodeAttributesDecoderData`) -/
theorem guard_attribute_count (L d n : Nat) (h : n ≤ 5 * L) : 8 * n ≤ allocBound L d := by
  unfold allocBound allocA allocK; omega

/-! ### the table-sized sites `ebX`: what bounds the tables

  The four sites are sized by `view.numVertices` (point_ids), by the length of the traversal sequence (attribute.Reset,
  portable_attribute) and by the number of points (indices_map).  Proved, for every input:
    * `guard_vertex_table`: the vertex table of an accepted connectivity has at most `max_num_vertices` (= the declared
      number of vertices) entries — the check `num_vertices() > max_num_vertices → -1` after the symbol loop; the
      vertex compaction keeps the size, and the number of vertices it reports is at most that;
    * `guard_sequence_length`: the traversal sequence (either traverser, any corner table) has at most
      `view.numVertices` entries — a vertex is appended exactly when it is marked visited;
    * `base_view_vertices`: a per-vertex decoder traverses the base table, whose `numVertices` is that vertex table.
  Hence for a per-vertex attribute decoder point_ids, attribute.Reset and portable_attribute are within the linear
  bound (`ebX_sites_per_vertex_linear`: at most 2040 bytes per declared vertex), and so is indices_map for a mesh
  without attribute data (points = reported vertices).  NOT bounded: the same sites for a per-corner decoder (vertices
  of the attribute corner table) and the points of a mesh with attribute seams: `≤ 3·faces` for a consistent
  corner table, an invariant of the symbol loop that is not proved. -/

/-- `num_vertices() > max_num_vertices → -1`; the compaction keeps the table size -/
theorem guard_vertex_table (ci : Eb.ConnIn) (tr : Eb.Trav) (co : Eb.ConnOut) (h : Eb.connLoop ci tr = .ok co) :
    co.vc.size ≤ ci.maxNumVertices ∧ co.numConnVerts ≤ co.vc.size := Eb.connLoop_vc ci tr co h

/-- the traversal sequence of an attribute decoder is at most as long as the vertex table of its corner table -/
theorem guard_sequence_length (mesh : Eb.Mesh) (dec : Eb.AttDecoder) (seq : Eb.SeqOut)
    (h : Eb.sequenceOfDecoder mesh dec = .ok seq) :
    seq.pointIds.size ≤ (Eb.viewOfDecoder mesh dec).numVertices ∧ seq.d2c.size = seq.pointIds.size := by
  unfold Eb.sequenceOfDecoder at h
  dsimp only at h
  split at h
  · exact Eb.maxPredictionDegree_size h
  · exact Eb.depthFirst_size h

/-- a per-vertex decoder works on the base corner table -/
theorem base_view_vertices (mesh : Eb.Mesh) (dec : Eb.AttDecoder) (h : dec.cornerDecoder = false) :
    (Eb.viewOfDecoder mesh dec).numVertices = mesh.vc.size := by
  unfold Eb.viewOfDecoder Eb.TView.numVertices
  simp [h]

/-- the three sequence-sized sites for a per-vertex decoder: `n` entries (`n ≤` vertices `≤` declared), a stride of
    at most 255 components of 8 bytes -/
theorem ebX_sites_per_vertex_linear (L d nv n stride nc : Nat) (hn : n ≤ nv) (hnv : nv ≤ d) (hs : stride ≤ 2040)
    (hnc : nc ≤ 255) :
    4 * nv ≤ allocBound L d ∧ n * stride ≤ allocBound L d ∧ 4 * (n * nc) ≤ allocBound L d := by
  unfold allocBound allocA allocK
  have h1 : n * stride ≤ d * 2040 := Nat.mul_le_mul (Nat.le_trans hn hnv) hs
  have h2 : n * nc ≤ d * 255 := Nat.mul_le_mul (Nat.le_trans hn hnv) hnc
  omega

/-- non-vacuity: a per-vertex depth-first decoder on one triangle: three entries for three vertices -/
example :
    let mesh : Eb.Mesh := { numFaces := 1, c2v := #[0, 1, 2], opp := #[Eb.inv, Eb.inv, Eb.inv], vc := #[0, 1, 2],
                            atts := #[], faces := #[0, 1, 2], numPoints := 3, tags := 0 }
    let dec : Eb.AttDecoder := { attDataId := -1, cornerDecoder := false, traversalMethod := 0 }
    (Eb.sequenceOfDecoder mesh dec).toOption.map (·.pointIds.size) = some 3 ∧
      (Eb.viewOfDecoder mesh dec).numVertices = 3 := by
  decide +kernel

example : 4 * 3 ≤ allocBound 70 4 ∧ 3 * 12 ≤ allocBound 70 4 ∧ 4 * (3 * 3) ≤ allocBound 70 4 :=
  ebX_sites_per_vertex_linear 70 4 3 3 12 3 (by decide) (by decide) (by decide) (by decide)

/-! ### the complete decoder -/

/-- Edgebreaker / kd-tree bodies that accept everything without reading: their run shows in which state the
    real body is entered -/
def ebStub : DecOpts → DecM Geometry := fun _ => pure { isMesh := true, numPoints := 0, faces := [], atts := [] }

/-- **C18 for the complete decoder with the real Edgebreaker body**, classified; the kd-tree body `kd` is a
    parameter that has to keep the linear invariant (as in `C18.alloc_bounded_with`) -/
theorem eb_alloc_bounded (kd : DecOpts → DecM Geometry) (opts : DecOpts) (bs : Bytes) (hb : IsBytes bs)
    (hkd : Tr bs 0 (kd opts) (fun _ => 0) (fun _ => True)) :
    ∀ e ∈ (decodeStreamWith Eb.decodeEdgebreaker kd opts { rest := bs }).2.allocs,
      e.2 ≤ 4259840 + 2048 * (bs.length + (decodeStreamWith Eb.decodeEdgebreaker kd opts { rest := bs }).2.declared) ∨
        ebX e := by
  have h0 : Inv bs 0 { rest := bs } := ⟨List.suffix_refl _, Nat.le_refl _, by simp⟩
  have hstub := tr_decodeStreamWith hb ebStub kd opts (tr_pure trivial) hkd _ h0
  rw [decodeStreamWith_eq] at hstub ⊢
  simp only [bind] at hstub ⊢
  cases hf : streamFront { rest := bs } with
  | mk fo s1 =>
    simp only [DecM.andThen, hf] at hstub ⊢
    cases fo with
    | none =>
      simp only at hstub ⊢
      intro e he
      exact Or.inl ((hstub.1 s1 rfl).allocs e he)
    | some fg =>
      simp only at hstub ⊢
      cases fg with
      | seq fr =>
        simp only [finishStream] at hstub ⊢
        intro e he
        rcases hr : finishGeom opts fr s1 with ⟨r, s'⟩
        rw [hr] at he
        cases r with
        | none => exact Or.inl ((hstub.1 s' hr).allocs e he)
        | some a => exact Or.inl ((hstub.2 a s' hr).1.allocs e he)
      | kd md =>
        simp only [finishStream] at hstub ⊢
        intro e he
        rcases hr : (do let g ← kd opts; pure (⟨g, md⟩ : DecodeResult)) s1 with ⟨r, s'⟩
        rw [hr] at he ⊢
        cases r with
        | none => exact Or.inl ((hstub.1 s' hr).allocs e he)
        | some a => exact Or.inl ((hstub.2 a s' hr).1.allocs e he)
      | eb md =>
        have hs1 : Inv bs 0 s1 := by
          have := hstub.2 ⟨{ isMesh := true, numPoints := 0, faces := [], atts := [] }, md⟩ s1 rfl
          exact this.1
        have hbody := (trc_bind (eb_body_alloc_invariant opts bs hb)
          (fun g _ => trc_weaken (trc_pure (F := fun _ => True) (a := (⟨g, md⟩ : DecodeResult)) trivial)
            (fun _ _ => Nat.le_refl _) (fun _ h => h))) s1 hs1.toC
        simp only [finishStream]
        intro e he
        rcases hr : (do let g ← Eb.decodeEdgebreaker opts; pure (⟨g, md⟩ : DecodeResult)) s1 with ⟨r, s'⟩
        rw [hr] at he ⊢
        cases r with
        | none => exact (hbody.1 s' hr).allocs e he
        | some a => exact (hbody.2 a s' hr).1.allocs e he

/-- **C18 for the complete decoder `decodeGeometry`** — sequential, kd-tree and Edgebreaker bodies, every bitstream
    version, accepted and rejected streams: every allocation event is within `A + K·(length + declared)`, or it
    is one of the four dimension-sized members of the kd-tree decoder (`kdX`, the known finding), or one of
    the four table-sized sites of the Edgebreaker attribute decoders (`ebX`). -/
theorem alloc_classified (opts : DecOpts) (bs : Bytes) (hb : IsBytes bs) :
    ∀ e ∈ (decodeGeometry opts { rest := bs }).2.allocs,
      e.2 ≤ 4259840 + 2048 * (bs.length + (decodeGeometry opts { rest := bs }).2.declared) ∨
        kdX (1275 * bs.length) e ∨ ebX e := by
  have h0 : Inv bs 0 { rest := bs } := ⟨List.suffix_refl _, Nat.le_refl _, by simp⟩
  have hstub := tr_decodeStreamWith hb ebStub kdStub opts (tr_pure trivial) (tr_pure trivial) _ h0
  unfold decodeGeometry
  rw [decodeStreamWith_eq] at hstub ⊢
  simp only [bind] at hstub ⊢
  cases hf : streamFront { rest := bs } with
  | mk fo s1 =>
    simp only [DecM.andThen, hf] at hstub ⊢
    cases fo with
    | none =>
      simp only at hstub ⊢
      intro e he
      exact Or.inl ((hstub.1 s1 rfl).allocs e he)
    | some fg =>
      simp only at hstub ⊢
      cases fg with
      | seq fr =>
        simp only [finishStream] at hstub ⊢
        intro e he
        rcases hr : finishGeom opts fr s1 with ⟨r, s'⟩
        rw [hr] at he
        cases r with
        | none => exact Or.inl ((hstub.1 s' hr).allocs e he)
        | some a => exact Or.inl ((hstub.2 a s' hr).1.allocs e he)
      | kd md =>
        have hs1 : Inv bs 0 s1 := by
          have := hstub.2 ⟨{ isMesh := false, numPoints := 0, faces := [], atts := [] }, md⟩ s1 rfl
          exact this.1
        have hbody := (trc_bind (trc_decodeKdGeometry hb opts)
          (fun g _ => trc_weaken (trc_pure (F := fun _ => True) (a := (⟨g, md⟩ : DecodeResult)) trivial)
            (fun _ _ => Nat.le_refl _) (fun _ h => h))) s1 hs1.toC
        simp only [finishStream]
        intro e he
        rcases hr : (do let g ← Kd.decodeKdGeometry opts; pure (⟨g, md⟩ : DecodeResult)) s1 with ⟨r, s'⟩
        rw [hr] at he ⊢
        cases r with
        | none => exact ((hbody.1 s' hr).allocs e he).imp id Or.inl
        | some a => exact ((hbody.2 a s' hr).1.allocs e he).imp id Or.inl
      | eb md =>
        have hs1 : Inv bs 0 s1 := by
          have := hstub.2 ⟨{ isMesh := true, numPoints := 0, faces := [], atts := [] }, md⟩ s1 rfl
          exact this.1
        have hbody := (trc_bind (eb_body_alloc_invariant opts bs hb)
          (fun g _ => trc_weaken (trc_pure (F := fun _ => True) (a := (⟨g, md⟩ : DecodeResult)) trivial)
            (fun _ _ => Nat.le_refl _) (fun _ h => h))) s1 hs1.toC
        simp only [finishStream]
        intro e he
        rcases hr : (do let g ← Eb.decodeEdgebreaker opts; pure (⟨g, md⟩ : DecodeResult)) s1 with ⟨r, s'⟩
        rw [hr] at he ⊢
        cases r with
        | none => exact ((hbody.1 s' hr).allocs e he).imp id Or.inr
        | some a => exact ((hbody.2 a s' hr).1.allocs e he).imp id Or.inr

/-- **C02 purity / forward-only reads for the complete decoder** (sequential, kd-tree, Edgebreaker): whatever the
    bytes, what is left of the input after the run is a suffix of the caller's bytes -/
theorem decode_consumes_prefix (opts : DecOpts) (bs : Bytes) (hb : IsBytes bs) :
    (decodeGeometry opts { rest := bs }).2.rest <:+ bs := by
  have h0 : Inv bs 0 { rest := bs } := ⟨List.suffix_refl _, Nat.le_refl _, by simp⟩
  have hstub := tr_decodeStreamWith hb ebStub kdStub opts (tr_pure trivial) (tr_pure trivial) _ h0
  unfold decodeGeometry
  rw [decodeStreamWith_eq] at hstub ⊢
  simp only [bind] at hstub ⊢
  cases hf : streamFront { rest := bs } with
  | mk fo s1 =>
    simp only [DecM.andThen, hf] at hstub ⊢
    cases fo with
    | none =>
      simp only at hstub ⊢
      exact (hstub.1 s1 rfl).suf
    | some fg =>
      simp only at hstub ⊢
      cases fg with
      | seq fr =>
        simp only [finishStream] at hstub ⊢
        rcases hr : finishGeom opts fr s1 with ⟨r, s'⟩
        cases r with
        | none => exact (hstub.1 s' hr).suf
        | some a => exact (hstub.2 a s' hr).1.suf
      | kd md =>
        have hs1 : Inv bs 0 s1 := by
          have := hstub.2 ⟨{ isMesh := false, numPoints := 0, faces := [], atts := [] }, md⟩ s1 rfl
          exact this.1
        have hbody := (trc_bind (trc_decodeKdGeometry hb opts)
          (fun g _ => trc_weaken (trc_pure (F := fun _ => True) (a := (⟨g, md⟩ : DecodeResult)) trivial)
            (fun _ _ => Nat.le_refl _) (fun _ h => h))) s1 hs1.toC
        simp only [finishStream]
        rcases hr : (do let g ← Kd.decodeKdGeometry opts; pure (⟨g, md⟩ : DecodeResult)) s1 with ⟨r, s'⟩
        rw [hr]
        cases r with
        | none => exact (hbody.1 s' hr).suf
        | some a => exact (hbody.2 a s' hr).1.suf
      | eb md =>
        have hs1 : Inv bs 0 s1 := by
          have := hstub.2 ⟨{ isMesh := true, numPoints := 0, faces := [], atts := [] }, md⟩ s1 rfl
          exact this.1
        have hbody := (trc_bind (eb_body_alloc_invariant opts bs hb)
          (fun g _ => trc_weaken (trc_pure (F := fun _ => True) (a := (⟨g, md⟩ : DecodeResult)) trivial)
            (fun _ _ => Nat.le_refl _) (fun _ h => h))) s1 hs1.toC
        simp only [finishStream]
        rcases hr : (do let g ← Eb.decodeEdgebreaker opts; pure (⟨g, md⟩ : DecodeResult)) s1 with ⟨r, s'⟩
        rw [hr]
        cases r with
        | none => exact (hbody.1 s' hr).suf
        | some a => exact (hbody.2 a s' hr).1.suf


/-! ### non-vacuity -/

/-- the allocation log of the model on the one-triangle Edgebreaker stream of C03Eb: connectivity tables, then the
    attribute decoder; the exceptional disjunct is inhabited (`attribute.Reset`, 36 bytes) and so is the linear one -/
theorem triStream_log :
    ((decodeGeometry {} { rest := C03Eb.triStream }).2.allocs.map (·.1)).contains "attribute.Reset" = true ∧
    ((decodeGeometry {} { rest := C03Eb.triStream }).2.allocs.map (·.1)).contains "corner_table.opposite_corners" = true ∧
    (decodeGeometry {} { rest := C03Eb.triStream }).2.declared = 4 := by
  decide +kernel

example : ebX ("attribute.Reset", 36) := Or.inr (Or.inr (Or.inl rfl))

end Draco.C18Eb
