import DracoProps.C02
import DracoProps.C03Eb
import DracoProofs.EbStatus
/-
  C02 — status discipline with the Edgebreaker body decoder inside (staging file of the Edgebreaker slice, to be
  merged into DracoProps/C02.lean).

  `C02.decode_returns_status_with` carries `Disc (eb opts)` as a hypothesis; `eb_disciplined` discharges it for
  `Eb.decodeEdgebreaker` (a structural walk over the whole body decoder, DracoProofs/EbStatus.lean): for every
  input and every bitstream version the body returns a geometry and leaves the status `ok`, or returns nothing and
  leaves `error` / `unsupported`.  `unsupported` is where the model's own limits end up (`ub:` — an access
  the C++ performs out of bounds; `fuel:` — a loop of the C++ without a termination argument that ran longer
  than the model's fuel; table sizes beyond `modelCap`); tools/props/ebcases.py treats such an outcome of a
  generated or corrupted stream as a finding candidate, none has been observed.
-/
namespace Draco.C02Eb
open Draco Draco.Robust

/-- **status discipline of the Edgebreaker body decoder**, all inputs, all versions, all options -/
theorem eb_disciplined (opts : DecOpts) : Disc (Eb.decodeEdgebreaker opts) := Eb.disc_decodeEdgebreaker opts

/-- the dispatcher with the real Edgebreaker body: status `ok` with a geometry, or an error status without —
    for every byte string (the kd-tree body `kd` stays a parameter) -/
theorem decode_returns_status_eb (kd : DecOpts → DecM Geometry) (opts : DecOpts) (bs : Bytes) (hkd : Disc (kd opts)) :
    (∃ r s', decodeStreamWith Eb.decodeEdgebreaker kd opts { rest := bs } = (some r, s') ∧ s'.status = .ok) ∨
    (∃ s', decodeStreamWith Eb.decodeEdgebreaker kd opts { rest := bs } = (none, s') ∧ s'.status ≠ .ok) :=
  C02.decode_returns_status_with _ kd opts bs (eb_disciplined opts) hkd

/-- sequential and Edgebreaker streams (kd-tree bodies rejected as unsupported): status discipline, and
    (C03) every attribute of a returned geometry is valid, the geometry is valid when it has an attribute -/
theorem decode_seq_eb_some_ok_valid (opts : DecOpts) (bs : Bytes) (r : DecodeResult) (s' : DSt)
    (h : decodeStreamWith Eb.decodeEdgebreaker (fun _ => DecM.failWith (.unsupported "kd-tree")) opts { rest := bs } =
      (some r, s')) :
    s'.status = .ok ∧ (∀ a ∈ r.geometry.atts, a.valid r.geometry.numPoints = true) ∧
      (r.geometry.atts ≠ [] → r.geometry.valid = true) := by
  refine ⟨((disc_decodeStreamWith _ _ opts (eb_disciplined opts) (disc_failWith _ (by simp))).prop { rest := bs } rfl).2
    r s' h, ?_⟩
  exact C03Eb.decodeStreamWith_post_upToFaces _ _ opts (Eb.decodeEdgebreaker_post opts)
    (fun _ _ _ hk => (failWith_ok hk).elim) _ r s' h

/-- non-vacuity: an accepted Edgebreaker stream ends with status `ok` … -/
example : ((decodeGeometry {} { rest := C03Eb.triStream }).1.isSome,
    (decodeGeometry {} { rest := C03Eb.triStream }).2.status) = (true, .ok) := by decide +kernel

/-- … and the same stream cut after 40 bytes is rejected with status `error` -/
example : ((decodeGeometry {} { rest := C03Eb.triStream.take 40 }).1.isSome,
    (decodeGeometry {} { rest := C03Eb.triStream.take 40 }).2.status) = (false, .error) := by decide +kernel

end Draco.C02Eb
