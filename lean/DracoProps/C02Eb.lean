import DracoProps.C02
import DracoProps.C03Eb
import DracoProofs.EbStatus
import DracoProofs.EbTraversalFuel
/-
  C02 — status discipline with the Edgebreaker body decoder inside (staging file of the Edgebreaker slice, to be
  merged into DracoProps/C02.lean).

  `C02.decode_returns_status_with` carries `Disc (eb opts)` as a hypothesis; `eb_disciplined` discharges it for
  `Eb.decodeEdgebreaker` (a structural walk over the whole body decoder, DracoProofs/EbStatus.lean): for every
  input and every bitstream version the body returns a geometry and leaves the status `ok`, or returns nothing and
  leaves `error` / `unsupported`.  `unsupported` is where the model's own limits end up (`ub:` — an access
  the C++ performs out of bounds; `fuel:` — a loop of the C++ without a termination argument that ran longer
  than the model's fuel; table sizes beyond `modelCap`); tools/props/ebcases.py treats such an outcome of a
  generated or corrupted stream as a finding candidate, none has been observed.
-/
namespace Draco.C02Eb
open Draco Draco.Robust

/-- **status discipline of the Edgebreaker body decoder**, all inputs, all versions, all options -/
theorem eb_disciplined (opts : DecOpts) : Disc (Eb.decodeEdgebreaker opts) := Eb.disc_decodeEdgebreaker opts

/-- the dispatcher with the real Edgebreaker body: status `ok` with a geometry, or an error status without —
    for every byte string (the kd-tree body `kd` stays a parameter) -/
theorem decode_returns_status_eb (kd : DecOpts → DecM Geometry) (opts : DecOpts) (bs : Bytes) (hkd : Disc (kd opts)) :
    (∃ r s', decodeStreamWith Eb.decodeEdgebreaker kd opts { rest := bs } = (some r, s') ∧ s'.status = .ok) ∨
    (∃ s', decodeStreamWith Eb.decodeEdgebreaker kd opts { rest := bs } = (none, s') ∧ s'.status ≠ .ok) :=
  C02.decode_returns_status_with _ kd opts bs (eb_disciplined opts) hkd

/-- sequential and Edgebreaker streams (kd-tree bodies rejected as unsupported): status discipline, and
    (C03) every attribute of a returned geometry is valid, the geometry is valid when it has an attribute -/
theorem decode_seq_eb_some_ok_valid (opts : DecOpts) (bs : Bytes) (r : DecodeResult) (s' : DSt)
    (h : decodeStreamWith Eb.decodeEdgebreaker (fun _ => DecM.failWith (.unsupported "kd-tree")) opts { rest := bs } =
      (some r, s')) :
    s'.status = .ok ∧ (∀ a ∈ r.geometry.atts, a.valid r.geometry.numPoints = true) ∧
      (r.geometry.atts ≠ [] → r.geometry.valid = true) := by
  refine ⟨((disc_decodeStreamWith _ _ opts (eb_disciplined opts) (disc_failWith _ (by simp))).prop { rest := bs } rfl).2
    r s' h, ?_⟩
  exact C03Eb.decodeStreamWith_post_upToFaces _ _ opts (Eb.decodeEdgebreaker_post opts)
    (fun _ _ _ hk => (failWith_ok hk).elim) _ r s' h

/-! ### fuel adequacy of the vertex traversals

  The model bounds the `while (true)` / `while (!stack.empty())` loops of `DepthFirstTraverser` and
  `MaxPredictionDegreeTraverser` by `4·(faces + vertices) + 16` iterations and reports `fuel:` (→ `unsupported`)
  beyond.  That exit is unreachable — for EVERY corner table and face array, consistent or not: an iteration of
  the depth-first inner loop marks a face or a vertex visited that was not, the stack loop pops or enters the inner
  loop on an unvisited face (which pushes at most one corner); an iteration of the max-prediction-degree inner loop
  marks a new face visited and pushes at most two corners, the stack loop pops one.  (DracoProofs/EbTraversalFuel.lean,
  loop invariants with `mvcgen`.)  So the C++ loops terminate on every input, within these bounds.

  NOT proved: the fuel exits of the loops that walk around a vertex (`SwingLeft` / `SwingRight` until the start
  corner or a boundary is reached: TOPOLOGY_S, the vertex compaction, `RecomputeVertices`, `AssignPointsToCorners`,
  the multi-parallelogram / geometric-normal predictors).  They terminate when `opposite_corners_` is a partial
  involution (then a swing orbit is a simple path or a cycle through the start) — which the connectivity decoder
  maintains by its `Opposite(c) != kInvalidCornerIndex → return false` checks, an invariant of the symbol loop that
  is not proved here.  tools/props/ebcases.py reports a `fuel:` outcome of any generated or corrupted stream as a
  finding candidate; none has been observed. -/

/-- `MeshTraversalSequencer<DepthFirstTraverser>::GenerateSequence` never exhausts the model's fuel -/
theorem depth_first_fuel_sufficient (t : Eb.TView) (faces : Array Nat) (v2dSize : Nat) (s : String) :
    Eb.depthFirst t faces v2dSize ≠ .error (.fuel s) := Eb.depthFirst_noFuel t faces v2dSize s

/-- `MeshTraversalSequencer<MaxPredictionDegreeTraverser>::GenerateSequence` never exhausts the model's fuel -/
theorem max_prediction_degree_fuel_sufficient (t : Eb.TView) (faces : Array Nat) (v2dSize : Nat) (s : String) :
    Eb.maxPredictionDegree t faces v2dSize ≠ .error (.fuel s) := Eb.maxPredictionDegree_noFuel t faces v2dSize s

/-- non-vacuity: both traversers on one triangle (3 vertices) visit the three corners -/
example :
    let t : Eb.TView := { c2v := #[0, 1, 2], opp := #[Eb.inv, Eb.inv, Eb.inv], seam := #[], lm := #[0, 1, 2],
                          isAtt := false, numFaces := 1 }
    (Eb.depthFirst t #[0, 1, 2] 3).toOption.map (·.d2c) = some #[1, 2, 0] ∧
    (Eb.maxPredictionDegree t #[0, 1, 2] 3).toOption.map (·.d2c) = some #[1, 2, 0] := by
  decide +kernel

/-- non-vacuity: an accepted Edgebreaker stream ends with status `ok` … -/
example : ((decodeGeometry {} { rest := C03Eb.triStream }).1.isSome,
    (decodeGeometry {} { rest := C03Eb.triStream }).2.status) = (true, .ok) := by decide +kernel

/-- … and the same stream cut after 40 bytes is rejected with status `error` -/
example : ((decodeGeometry {} { rest := C03Eb.triStream.take 40 }).1.isSome,
    (decodeGeometry {} { rest := C03Eb.triStream.take 40 }).2.status) = (false, .error) := by decide +kernel

end Draco.C02Eb
