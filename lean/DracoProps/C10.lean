import DracoProofs.SkipEquiv
/-
  C10 — `SetSkipAttributeTransform`.

  "Decoding with the attribute transform skipped for an attribute type returns, for each such
   attribute and under its original unique id, the integer (quantized / octahedral) values
   together with a transform description, and applying that described transform to those values
   yields bit-identical results to an ordinary decode of the same stream; all other attributes
   and the connectivity are unaffected by the option."

  Model: the complete decoder `decodeGeometry (opts : DecOpts)` (DracoModel/Decoder.lean) dispatches
  on the encoder-method byte to the sequential, Edgebreaker and kd-tree decoders;
  `decodeGeometrySeq opts` (DracoProofs/SeqStream.lean) is the same dispatcher with the
  Edgebreaker / kd-tree bodies rejected.  `opts.skip` is the list of attribute types whose
  transform is skipped; the ordinary decode is `… {}`.

  SCOPE.  Every theorem `X_seq` below is about `decodeGeometrySeq` and holds for ALL streams with
  no extra hypothesis.  The property theorems proper (`skip_of_normal`, `skip_unaffected`,
  `skip_unaffected_general`, `skip_mono`, `skip_equiv`, `skip_reject_same_prefix`) are the same
  statements about the complete decoder `decodeGeometry` under the hypothesis `IsSeqStream s`
  (the header is readable and announces encoder method 0; then `decodeGeometry = decodeGeometrySeq`
  by `decodeGeometry_eq_seq`).  Edgebreaker and kd-tree streams are NOT covered by these theorems
  (for them the property is checked by the executable `Spec.skipCheck` on implementation outputs).
  `skip_of_normal_with` reduces the main direction for the complete decoder on all streams to the
  same statement (`SkipGeomOK`) about the two body decoders, which is not proved here.

  What holds of the code:

  * `skip_of_normal_seq`   whenever the ordinary decode accepts, the decode with any skip list `S`
        accepts too, ends in the SAME decoder state (same input consumed, same allocations),
        returns the same metadata, geometry type, number of points and faces, and attribute by
        attribute the results are related by `SkipRel S` (same unique id, type, mapping, number
        of values; either identical, or — type in `S` — int32 values `portable` with a
        transform description such that applying the described transform to `portable`
        gives exactly the bytes of the ordinary decode).
  * `skip_unaffected_seq`  attributes whose type is not in `S` are identical in both decodes;
        `skip_unaffected_general_seq`: the same between any two skip lists that agree on the type.
  * `skip_mono_seq`        enlarging the skip list never turns an accepted stream into a rejected
        one (same final state, everything but the newly skipped attributes identical).
  * `skip_equiv_seq`       the honest accept-equivalence: the ordinary decode accepts iff the
        skipped decode accepts AND no attribute with type in `S` is `Blocked`.  The converse of
        `skip_of_normal_seq` is FALSE of the code: the skipped path does not evaluate two checks of
        the ordinary path (`skip_accepts_more_witness`, `skip_accepts_more_witness_octa`:
        concrete streams accepted with the option and rejected without it).
  * `skip_reject_same_prefix_seq`  if the ordinary decode rejects a stream that the skipped decode
        accepts, then the ordinary decode fails only in `TransformAttributesToOriginalFormat`,
        after consuming exactly the same input, at a `Blocked` attribute state produced by
        `decodeSeqStates` whose type is in `S`.
  * per attribute: `finishAtt_skip_of_normal`, `finishAtt_normal_fails_iff`.
  * `portable_readback` the int32 values can be read back from the exposed bytes.
-/
namespace Draco
namespace C10
open DecM

/-- what `SetSkipAttributeTransform(S)` may change in one decoded attribute: `a` from the
    ordinary decode, `aS` from the decode with skip list `S`.

    Identity (unique id), type, mapping and number of values never change and the ordinary
    decode never exposes a transform.  Either the attribute is identical, or its type is in `S`
    and `aS` is an int32 attribute whose bytes are the little-endian int32 encodings of a list
    `portable`, and — depending on the exposed transform description —
      * none (integer attribute): `a` holds the same values narrowed to `a`'s data type
        (an integer type of at most 32 bits),
      * quantization `(bits, mins, range)`: `a` is the float32 attribute
        `InverseTransformAttribute(portable)` with those parameters, `1 ≤ bits ≤ 30`,
      * octahedron `bits`: `aS` has 2 components, `a` is the 3-component float32 attribute of
        the unit vectors of the octahedral coordinates `portable`, `2 ≤ bits ≤ 30`.
    The last conjunct spells out the case `a.attType ∉ S`. -/
def SkipRel (S : List Nat) (a aS : Attribute) : Prop :=
  aS.uniqueId = a.uniqueId ∧ aS.attType = a.attType ∧ aS.map = a.map ∧
  aS.numValues = a.numValues ∧ a.transform = .none ∧
  (aS = a ∨
   (a.attType ∈ S ∧ aS.dataType = Generated.DT_INT32.toNat ∧ aS.normalized = false ∧
     ∃ portable : List Int, aS.values = (portable.map (intToLE 4)).flatten ∧
       match aS.transform with
       | .none =>
         aS.numComponents = a.numComponents ∧ 1 ≤ a.dataType ∧ a.dataType ≤ 6 ∧
         a.values = (portable.map (intToLE (dataTypeLength a.dataType))).flatten
       | .quantization bits mins range =>
         aS.numComponents = a.numComponents ∧ a.dataType = Generated.DT_FLOAT32.toNat ∧
         1 ≤ bits ∧ bits ≤ 30 ∧
         a.values = (dequantAll range bits.toNat mins portable mins []).flatten
       | .octahedron bits =>
         aS.numComponents = 2 ∧ a.numComponents = 3 ∧
         a.dataType = Generated.DT_FLOAT32.toNat ∧ 2 ≤ bits ∧ bits ≤ 30 ∧
         a.values = (octaAll bits.toNat portable []).flatten)) ∧
  (a.attType ∉ S → aS = a)

/-- the attribute states on which the ordinary decode returns false in its last phase, spelled
    out (`SeqAttState.Blocked` is a definition of `DracoProofs.SkipEquiv`) -/
theorem blocked_iff (x : SeqAttState) :
    x.Blocked ↔
      (x.decoderType = 1 ∧ ¬ (1 ≤ x.desc.dataType ∧ x.desc.dataType ≤ 6)) ∨
      (x.decoderType = 3 ∧
        ∃ bits : Int, x.transform = .octahedron bits ∧ ¬ (2 ≤ bits ∧ bits ≤ 30)) := Iff.rfl

/-! ## one attribute -/

/-- the pure core of `finishAtt_skip_of_normal` -/
theorem finishPure_skipRel (S : List Nat) (n : Nat) (x : SeqAttState) (hx : x.WF) (a : Attribute)
    (h : finishPure [] n x = some a) : ∃ aS, finishPure S n x = some aS ∧ SkipRel S a aS := by
  by_cases h0 : x.decoderType = 0
  · rw [finishPure_generic [] n x h0] at h
    rw [finishPure_generic S n x h0]
    cases h
    exact ⟨_, rfl, rfl, rfl, rfl, rfl, rfl, Or.inl rfl, fun _ => rfl⟩
  · rw [finishPure_of_not_mem [] n x h0 (by simp)] at h
    obtain ⟨v, hv⟩ := finishNormal_toAttribute n x a h
    by_cases hm : x.desc.attType ∈ S
    · rw [finishPure_of_mem S n x h0 hm]
      refine ⟨_, rfl, ?_⟩
      have hmS : a.attType ∈ S := by rw [hv]; exact hm
      rcases hx with ⟨h1 | h1, ht⟩ | ⟨h1, hdt, bits, mins, range, ht, hb1, hb2⟩ |
        ⟨h1, hnc, hdt, bits, ht⟩
      · exact absurd h1 h0
      · -- integer attribute
        simp only [finishNormal, h1] at h
        split at h
        · rename_i hc
          cases h
          have hc : 1 ≤ x.desc.dataType ∧ x.desc.dataType ≤ 6 := by simpa using hc
          refine ⟨rfl, rfl, rfl, rfl, rfl, Or.inr ⟨hm, rfl, rfl, x.portable, rfl, ?_⟩,
            fun hn => absurd hm hn⟩
          simp only [portableAtt, ht, h1]
          exact ⟨rfl, hc.1, hc.2, rfl⟩
        · cases h
      · -- quantized attribute
        simp only [finishNormal, h1, ht] at h
        cases h
        refine ⟨rfl, rfl, rfl, rfl, rfl, Or.inr ⟨hm, rfl, rfl, x.portable, rfl, ?_⟩,
          fun hn => absurd hm hn⟩
        simp only [portableAtt, ht, h1]
        refine ⟨rfl, hdt, ?_, ?_, rfl⟩ <;> omega
      · -- normal attribute
        simp only [finishNormal, h1, ht] at h
        split at h
        · rename_i hc
          cases h
          have hc : (2:Int) ≤ bits ∧ (bits:Int) ≤ 30 := by simpa using hc
          refine ⟨rfl, rfl, rfl, rfl, rfl, Or.inr ⟨hm, rfl, rfl, x.portable, rfl, ?_⟩,
            fun hn => absurd hm hn⟩
          simp only [portableAtt, ht, h1]
          exact ⟨rfl, hnc, hdt, hc.1, hc.2, rfl⟩
        · cases h
    · rw [finishPure_of_not_mem S n x h0 hm]
      refine ⟨a, h, rfl, rfl, rfl, rfl, ?_, Or.inl rfl, fun _ => rfl⟩
      rw [hv]; rfl

/-- One attribute, last phase (`TransformAttributesToOriginalFormat`), on a state `x` as the
    first three phases produce it (`x.WF`, see `geomFront_wf` / `decodeSeqStates_wf`): if the
    ordinary last phase succeeds with `a`, it has not touched the decoder state, and the last
    phase with skip list `S` succeeds with an `aS` related to `a` by `SkipRel S`. -/
theorem finishAtt_skip_of_normal (S : List Nat) (n : Nat) (x : SeqAttState) (hx : x.WF)
    (st st' : DSt) (a : Attribute) (h : finishAtt {} n x st = (some a, st')) :
    st' = st ∧ ∃ aS, finishAtt { skip := S } n x st = (some aS, st) ∧ SkipRel S a aS := by
  rw [finishAtt_eq, DecM.ofOption_some] at h
  obtain ⟨h, rfl⟩ := h
  obtain ⟨aS, h1, h2⟩ := finishPure_skipRel S n x hx a h
  refine ⟨rfl, aS, ?_, h2⟩
  rw [finishAtt_eq, DecM.ofOption_some]
  exact ⟨h1, rfl⟩

/-- non-vacuity: a quantized attribute (decoder type 2, type POSITION = 0 in the skip list) -/
example : ∃ aS, finishAtt { skip := [0] } 2
      { desc := ⟨0, 9, 1, false, 7⟩, decoderType := 2, portable := [5, 6],
        transform := .quantization 8 [0] 0 } { rest := [] } = (some aS, { rest := [] }) ∧
    aS.uniqueId = 7 ∧ aS.values = [5, 0, 0, 0, 6, 0, 0, 0] ∧
    aS.transform = .quantization 8 [0] 0 := by
  refine ⟨_, rfl, rfl, ?_, rfl⟩
  decide +kernel

example : (⟨⟨0, 9, 1, false, 7⟩, 2, [], [5, 6], .quantization 8 [0] 0⟩ : SeqAttState).WF :=
  Or.inr (Or.inl ⟨rfl, rfl, 8, [0], 0, rfl, by decide, by decide⟩)

/-- One attribute: on a well-formed state the ordinary last phase fails exactly on the `Blocked`
    states; the last phase with skip list `S` fails exactly on the `Blocked` states whose type is
    not in `S`. -/
theorem finishAtt_normal_fails_iff (S : List Nat) (n : Nat) (x : SeqAttState) (hx : x.WF)
    (st : DSt) :
    ((finishAtt {} n x st).1 = none ↔ x.Blocked) ∧
    ((finishAtt { skip := S } n x st).1 = none ↔ x.desc.attType ∉ S ∧ x.Blocked) := by
  have key : ∀ T : List Nat, (finishAtt { skip := T } n x st).1 = none ↔
      x.desc.attType ∉ T ∧ x.Blocked := by
    intro T
    rw [finishAtt_eq, ← finishPure_none_iff T n x hx]
    cases finishPure T n x <;> simp [ofOption, DecM.fail, DecM.ret]
  refine ⟨?_, key S⟩
  have := key []
  simpa using this

/-- non-vacuity + the asymmetry at the level of one attribute: a normal attribute with a 1-bit
    octahedral quantization is well formed and `Blocked`; the ordinary last phase rejects it,
    the last phase with its type (NORMAL = 1) skipped accepts it -/
theorem finishAtt_accepts_more_witness :
    let x : SeqAttState :=
      { desc := ⟨1, 9, 3, false, 0⟩, decoderType := 3, portable := [0, 0],
        transform := .octahedron 1 }
    x.WF ∧ x.Blocked ∧ (finishAtt {} 1 x { rest := [] }).1 = none ∧
      (finishAtt { skip := [1] } 1 x { rest := [] }).1.isSome = true := by
  intro x
  have hwf : x.WF := Or.inr (Or.inr ⟨rfl, rfl, rfl, 1, rfl⟩)
  have hb : x.Blocked := Or.inr ⟨rfl, 1, rfl, by decide⟩
  refine ⟨hwf, hb, ((finishAtt_normal_fails_iff [1] 1 x hwf _).1).2 hb, rfl⟩

/-! ## whole streams -/

/-- C10, main direction.  If the ordinary decode of a stream accepts with result `r`, then the
    decode with ANY skip list `S` accepts, ends in the same decoder state `s'` (in particular
    it has consumed exactly the same input), and its result has the same metadata, geometry
    type, number of points and faces, and attributes related one by one (same order, same
    number) by `SkipRel S`. -/
theorem skip_of_normal_seq (S : List Nat) (s s' : DSt) (r : DecodeResult)
    (h : decodeGeometrySeq {} s = (some r, s')) :
    ∃ rS, decodeGeometrySeq { skip := S } s = (some rS, s') ∧ rS.metadata = r.metadata ∧
      rS.geometry.isMesh = r.geometry.isMesh ∧ rS.geometry.numPoints = r.geometry.numPoints ∧
      rS.geometry.faces = r.geometry.faces ∧
      List.Forall₂ (SkipRel S) r.geometry.atts rS.geometry.atts := by
  obtain ⟨fr, hfr, hfin⟩ := (decodeGeometrySeq_some_iff {} s s' r).1 h
  obtain ⟨rS, hrS, hsame⟩ := finishGeomPure_rel (SkipRel S) [] S fr
    (fun sts hst x hxm a ha =>
      finishPure_skipRel S fr.numPoints x (geomFront_wf s s' fr hfr sts hst x hxm) a ha) r hfin
  exact ⟨rS, (decodeGeometrySeq_some_iff { skip := S } s s' rS).2 ⟨fr, hfr, hrS⟩, hsame⟩

/-- the stream used for non-vacuity: point cloud, bitstream 2.3, sequential encoding, 1 point,
    one attributes decoder with one attribute (POSITION, UINT8, 1 component, unique id 0) coded
    by the integer attribute decoder (type 1) without prediction (method −2), uncompressed
    symbols of 1 byte each; the single symbol 6 is the value 3 -/
def bs1 : Bytes :=
  [68, 82, 65, 67, 79, 2, 3, 0, 0, 0, 0,  1, 0, 0, 0,  1,  1,  0, 2, 1, 0, 0,  1,  254, 0, 1, 6]

/-- non-vacuity of `skip_of_normal_seq`: `bs1` is accepted by the ordinary decode … -/
theorem bs1_accepted_seq : (decodeGeometrySeq {} { rest := bs1 }).1.isSome = true := by decide +kernel

/-- … and the two decodes return what the property describes: the uint8 value 3, resp. the
    int32 value 3 (the transform description is `none` for an integer attribute) -/
example :
    (decodeGeometrySeq {} { rest := bs1 }).1.map (·.geometry.atts) =
      some [{ attType := 0, dataType := 2, numComponents := 1, normalized := false, uniqueId := 0,
              numValues := 1, map := none, values := [3] }] ∧
    (decodeGeometrySeq { skip := [0] } { rest := bs1 }).1.map (·.geometry.atts) =
      some [{ attType := 0, dataType := 5, numComponents := 1, normalized := false, uniqueId := 0,
              numValues := 1, map := none, values := [3, 0, 0, 0] }] := by
  decide +kernel

example : ∃ r s' rS, decodeGeometrySeq {} { rest := bs1 } = (some r, s') ∧
    decodeGeometrySeq { skip := [0] } { rest := bs1 } = (some rS, s') ∧
    List.Forall₂ (SkipRel [0]) r.geometry.atts rS.geometry.atts := by
  have h := bs1_accepted_seq
  cases hd : decodeGeometrySeq {} { rest := bs1 } with
  | mk o s' =>
    rw [hd] at h
    cases o with
    | none => cases h
    | some r =>
      obtain ⟨rS, h1, _, _, _, _, h2⟩ := skip_of_normal_seq [0] _ s' r hd
      exact ⟨r, s', rS, rfl, h1, h2⟩

/-- C10, "all other attributes are unaffected": when both decodes accept, attributes whose type
    is not in `S` are identical (the lists have the same length and order by `Forall₂`). -/
theorem skip_unaffected_seq (S : List Nat) (s s' s'' : DSt) (r rS : DecodeResult)
    (h : decodeGeometrySeq {} s = (some r, s')) (hS : decodeGeometrySeq { skip := S } s = (some rS, s'')) :
    s'' = s' ∧
    List.Forall₂ (fun a aS => a.attType ∉ S → aS = a) r.geometry.atts rS.geometry.atts := by
  obtain ⟨rS', h1, _, _, _, _, h2⟩ := skip_of_normal_seq S s s' r h
  rw [hS] at h1
  cases h1
  refine ⟨rfl, ?_⟩
  exact h2.imp (fun _ _ hr => hr.2.2.2.2.2.2)

example : ∃ r s' rS s'', decodeGeometrySeq {} { rest := bs1 } = (some r, s') ∧
    decodeGeometrySeq { skip := [1, 3] } { rest := bs1 } = (some rS, s'') := by
  have h := bs1_accepted_seq
  cases hd : decodeGeometrySeq {} { rest := bs1 } with
  | mk o s' =>
    rw [hd] at h
    cases o with
    | none => cases h
    | some r =>
      obtain ⟨rS, h1, _⟩ := skip_of_normal_seq [1, 3] _ s' r hd
      exact ⟨r, s', rS, s', rfl, h1⟩

/-- the same between any two skip lists: when both decodes accept they end in the same state,
    agree on metadata and connectivity, and every attribute on whose type the two lists agree is
    identical; unique id, type, mapping and number of values agree for all attributes -/
theorem skip_unaffected_general_seq (S T : List Nat) (s s' s'' : DSt) (r r' : DecodeResult)
    (h : decodeGeometrySeq { skip := S } s = (some r, s'))
    (h' : decodeGeometrySeq { skip := T } s = (some r', s'')) :
    s'' = s' ∧ r'.metadata = r.metadata ∧ r'.geometry.isMesh = r.geometry.isMesh ∧
    r'.geometry.numPoints = r.geometry.numPoints ∧ r'.geometry.faces = r.geometry.faces ∧
    List.Forall₂ (fun a b => b.uniqueId = a.uniqueId ∧ b.attType = a.attType ∧ b.map = a.map ∧
        b.numValues = a.numValues ∧ ((a.attType ∈ S ↔ a.attType ∈ T) → b = a))
      r.geometry.atts r'.geometry.atts := by
  obtain ⟨fr, hfr, hfin⟩ := (decodeGeometrySeq_some_iff { skip := S } s s' r).1 h
  obtain ⟨fr', hfr', hfin'⟩ := (decodeGeometrySeq_some_iff { skip := T } s s'' r').1 h'
  rw [hfr] at hfr'
  cases hfr'
  refine ⟨rfl, ?_⟩
  refine finishGeomPure_rel₂ _ S T fr ?_ r r' hfin hfin'
  intro sts _ x _ a b ha hb
  obtain ⟨i1, i2, i3, i4⟩ := finishPure_ids S fr.numPoints x a ha
  obtain ⟨j1, j2, j3, j4⟩ := finishPure_ids T fr.numPoints x b hb
  refine ⟨by rw [i1, j1], by rw [i2, j2], by rw [i3, j3], by rw [i4, j4], ?_⟩
  intro hiff
  rw [i2] at hiff
  rw [finishPure_congr S T fr.numPoints x hiff, hb] at ha
  cases ha
  rfl

example : ∃ r s' r' s'', decodeGeometrySeq { skip := [0] } { rest := bs1 } = (some r, s') ∧
    decodeGeometrySeq { skip := [0, 1] } { rest := bs1 } = (some r', s'') := by
  have h := bs1_accepted_seq
  cases hd : decodeGeometrySeq {} { rest := bs1 } with
  | mk o s' =>
    rw [hd] at h
    cases o with
    | none => cases h
    | some r =>
      obtain ⟨rS, h1, _⟩ := skip_of_normal_seq [0] _ s' r hd
      obtain ⟨rT, h2, _⟩ := skip_of_normal_seq [0, 1] _ s' r hd
      exact ⟨rS, s', rT, s', h1, h2⟩

/-- Monotonicity in the skip list: if the decode with skip list `S` accepts and `S ⊆ T`, the
    decode with skip list `T` accepts with the same final state, the same metadata and
    connectivity; attributes whose type is in `S` or not in `T` are identical, the others keep
    unique id, type, mapping and number of values. -/
theorem skip_mono_seq (S T : List Nat) (hST : ∀ t, t ∈ S → t ∈ T) (s s' : DSt) (r : DecodeResult)
    (h : decodeGeometrySeq { skip := S } s = (some r, s')) :
    ∃ rT, decodeGeometrySeq { skip := T } s = (some rT, s') ∧ rT.metadata = r.metadata ∧
      rT.geometry.isMesh = r.geometry.isMesh ∧ rT.geometry.numPoints = r.geometry.numPoints ∧
      rT.geometry.faces = r.geometry.faces ∧
      List.Forall₂ (fun a b => b.uniqueId = a.uniqueId ∧ b.attType = a.attType ∧ b.map = a.map ∧
          b.numValues = a.numValues ∧ (a.attType ∈ S ∨ a.attType ∉ T → b = a))
        r.geometry.atts rT.geometry.atts := by
  obtain ⟨fr, hfr, hfin⟩ := (decodeGeometrySeq_some_iff { skip := S } s s' r).1 h
  have hex : ∃ rT, finishGeomPure T fr = some rT := by
    have h1 : (finishGeomPure S fr).isSome := by
      have : finishGeomPure ({ skip := S } : DecOpts).skip fr = some r := hfin
      rw [this]; rfl
    have h2 : (finishGeomPure T fr).isSome := by
      rw [finishGeomPure_isSome_iff] at h1 ⊢
      intro sts hst x hx
      have hwf := geomFront_wf s s' fr hfr sts hst x hx
      have := h1 sts hst x hx
      rw [finishPure_isSome_iff _ _ _ hwf] at this ⊢
      rcases this with hm | hb
      · exact Or.inl (hST _ hm)
      · exact Or.inr hb
    cases hT : finishGeomPure T fr with
    | none => rw [hT] at h2; cases h2
    | some rT => exact ⟨rT, rfl⟩
  obtain ⟨rT, hT⟩ := hex
  have hdec : decodeGeometrySeq { skip := T } s = (some rT, s') :=
    (decodeGeometrySeq_some_iff { skip := T } s s' rT).2 ⟨fr, hfr, hT⟩
  obtain ⟨_, g1, g2, g3, g4, g5⟩ := skip_unaffected_general_seq S T s s' s' r rT h hdec
  refine ⟨rT, hdec, g1, g2, g3, g4, g5.imp ?_⟩
  rintro a b ⟨e1, e2, e3, e4, e5⟩
  refine ⟨e1, e2, e3, e4, fun hor => e5 ?_⟩
  rcases hor with hm | hn
  · exact ⟨fun _ => hST _ hm, fun _ => hm⟩
  · exact ⟨fun hm => absurd (hST _ hm) hn, fun hm => absurd hm hn⟩

example : ∃ r s' rT, decodeGeometrySeq { skip := [3] } { rest := bs1 } = (some r, s') ∧
    decodeGeometrySeq { skip := [0, 3] } { rest := bs1 } = (some rT, s') := by
  have h := bs1_accepted_seq
  cases hd : decodeGeometrySeq {} { rest := bs1 } with
  | mk o s' =>
    rw [hd] at h
    cases o with
    | none => cases h
    | some r =>
      obtain ⟨rS, h1, _⟩ := skip_of_normal_seq [3] _ s' r hd
      obtain ⟨rT, h2, _⟩ := skip_mono_seq [3] [0, 3] (by simp) _ s' rS h1
      exact ⟨rS, s', rT, h1, h2⟩

/-- The honest accept-equivalence.  The ordinary decode accepts a stream iff the decode with
    skip list `S` accepts it AND none of the per-attribute states handed to the last phase has
    its type in `S` and is `Blocked` (see `blocked_iff`: an integer-coded attribute whose
    declared data type is not one of INT8..UINT32, or a normal attribute with a quantization
    outside 2..30 bits).  `geomFront` is the decoder up to the last phase; it does not depend on
    the options.

    The plain equivalence `ordinary accepts ↔ skipped accepts` is FALSE of the code:
    `skip_accepts_more_witness`. -/
theorem skip_equiv_seq (S : List Nat) (s : DSt) :
    (decodeGeometrySeq {} s).1.isSome ↔
      ((decodeGeometrySeq { skip := S } s).1.isSome ∧
        ¬ ∃ fr s1 sts x, geomFront s = (some fr, s1) ∧ fr.states = some sts ∧ x ∈ sts ∧
            x.desc.attType ∈ S ∧ x.Blocked) := by
  rw [decodeGeometrySeq_isSome_iff, decodeGeometrySeq_isSome_iff]
  constructor
  · rintro ⟨fr, s', hfr, hfin⟩
    rw [finishGeomPure_isSome_iff] at hfin
    refine ⟨⟨fr, s', hfr, ?_⟩, ?_⟩
    · rw [finishGeomPure_isSome_iff]
      intro sts hst x hx
      have hwf := geomFront_wf s s' fr hfr sts hst x hx
      have := hfin sts hst x hx
      rw [finishPure_isSome_iff _ _ _ hwf] at this ⊢
      rcases this with hm | hb
      · cases hm
      · exact Or.inr hb
    · rintro ⟨fr', s1, sts, x, hfr', hst, hx, _, hb⟩
      rw [hfr] at hfr'
      cases hfr'
      have hwf := geomFront_wf s s' fr hfr sts hst x hx
      have := hfin sts hst x hx
      rw [finishPure_isSome_iff _ _ _ hwf] at this
      rcases this with hm | hnb
      · cases hm
      · exact hnb hb
  · rintro ⟨⟨fr, s', hfr, hfin⟩, hno⟩
    rw [finishGeomPure_isSome_iff] at hfin
    refine ⟨fr, s', hfr, ?_⟩
    rw [finishGeomPure_isSome_iff]
    intro sts hst x hx
    have hwf := geomFront_wf s s' fr hfr sts hst x hx
    have := hfin sts hst x hx
    rw [finishPure_isSome_iff _ _ _ hwf] at this ⊢
    right
    intro hb
    rcases this with hm | hnb
    · exact hno ⟨fr, s', sts, x, hfr, hst, hx, hm, hb⟩
    · exact hnb hb

/-- If the ordinary decode rejects a stream that the decode with skip list `S` accepts (final
    state `s'`), then the ordinary decode has read exactly the same input and performed the same
    allocations — its final state is `s'` with the error status set — and it failed in
    `TransformAttributesToOriginalFormat` at one of the two checks that the skipped path does
    not evaluate: among the per-attribute states `sts` produced by `decodeSeqStates` (run for
    the geometry's number of points, ending in `s'`) there is one whose type is in `S` and that
    is an integer-coded attribute with a declared data type outside INT8..UINT32, or a normal
    attribute whose octahedral quantization is outside 2..30 bits. -/
theorem skip_reject_same_prefix_seq (S : List Nat) (s s' : DSt) (rS : DecodeResult)
    (h0 : (decodeGeometrySeq {} s).1 = none)
    (hS : decodeGeometrySeq { skip := S } s = (some rS, s')) :
    decodeGeometrySeq {} s = (none, if s'.status == .ok then { s' with status := .error } else s') ∧
    ∃ fr sts x, geomFront s = (some fr, s') ∧ fr.states = some sts ∧
      (∃ s0, decodeSeqStates fr.numPoints s0 = (some sts, s')) ∧
      x ∈ sts ∧ x.desc.attType ∈ S ∧
      ((x.decoderType = 1 ∧ ¬ (1 ≤ x.desc.dataType ∧ x.desc.dataType ≤ 6)) ∨
       (x.decoderType = 3 ∧
         ∃ bits : Int, x.transform = .octahedron bits ∧ ¬ (2 ≤ bits ∧ bits ≤ 30))) := by
  obtain ⟨fr, hfr, hfin⟩ := (decodeGeometrySeq_some_iff { skip := S } s s' rS).1 hS
  have hnone : finishGeomPure ({} : DecOpts).skip fr = none := by
    cases hf : finishGeomPure ({} : DecOpts).skip fr with
    | none => rfl
    | some r =>
      rw [(decodeGeometrySeq_some_iff {} s s' r).2 ⟨fr, hfr, hf⟩] at h0
      cases h0
  refine ⟨decodeGeometrySeq_none_of_front {} s s' fr hfr hnone, ?_⟩
  have hS' : (finishGeomPure S fr).isSome := by
    have : finishGeomPure ({ skip := S } : DecOpts).skip fr = some rS := hfin
    rw [this]; rfl
  rw [finishGeomPure_isSome_iff] at hS'
  have hN : ¬ (finishGeomPure [] fr).isSome := by
    have : finishGeomPure [] fr = none := hnone
    rw [this]; simp
  rw [finishGeomPure_isSome_iff] at hN
  -- some state fails without the option
  have : ∃ sts, fr.states = some sts ∧ ∃ x ∈ sts, ¬ (finishPure [] fr.numPoints x).isSome := by
    apply Classical.byContradiction
    intro hcon
    apply hN
    intro sts hst x hx
    apply Classical.byContradiction
    intro hx'
    exact hcon ⟨sts, hst, x, hx, hx'⟩
  obtain ⟨sts, hst, x, hx, hxn⟩ := this
  have hwf := geomFront_wf s s' fr hfr sts hst x hx
  have hxS := hS' sts hst x hx
  rw [finishPure_isSome_iff _ _ _ hwf] at hxn hxS
  have hb : x.Blocked := by
    apply Classical.byContradiction
    intro hnb
    exact hxn (Or.inr hnb)
  have hm : x.desc.attType ∈ S := by
    rcases hxS with hm | hnb
    · exact hm
    · exact absurd hb hnb
  exact ⟨fr, sts, x, hfr, hst, geomFront_states s fr s' hfr sts hst, hx, hm, hb⟩

/-- `bs1` with the declared data type changed to FLOAT32 (9): an integer-coded attribute whose
    values cannot be stored by `StoreValues` -/
def bs2 : Bytes :=
  [68, 82, 65, 67, 79, 2, 3, 0, 0, 0, 0,  1, 0, 0, 0,  1,  1,  0, 9, 1, 0, 0,  1,  254, 0, 1, 6]

/-- point cloud with one NORMAL attribute (type 1, FLOAT32, 3 components) coded by the normal
    attribute decoder (type 3) without prediction, two 1-byte symbols, and a 1-bit octahedral
    quantization in the transform data -/
def bs3 : Bytes :=
  [68, 82, 65, 67, 79, 2, 3, 0, 0, 0, 0,  1, 0, 0, 0,  1,  1,  1, 9, 3, 0, 0,  3,
   254, 0, 1, 0, 0,  1]

/-- non-vacuity of `skip_reject_same_prefix_seq` -/
example : ∃ rS s', (decodeGeometrySeq {} { rest := bs2 }).1 = none ∧
    decodeGeometrySeq { skip := [0] } { rest := bs2 } = (some rS, s') := by
  have h1 : (decodeGeometrySeq {} { rest := bs2 }).1 = none := by decide +kernel
  have h2 : (decodeGeometrySeq { skip := [0] } { rest := bs2 }).1.isSome = true := by
    decide +kernel
  cases hd : decodeGeometrySeq { skip := [0] } { rest := bs2 } with
  | mk o s' =>
    rw [hd] at h2
    cases o with
    | none => cases h2
    | some rS => exact ⟨rS, s', h1, rfl⟩

/-! ## the complete decoder `decodeGeometry`, on sequential streams

  `decodeGeometry` dispatches on the encoder-method byte of the header to the sequential,
  Edgebreaker and kd-tree decoders.  On a stream whose header announces a sequential method
  (`IsSeqStream s`) it is `decodeGeometrySeq` (`decodeGeometry_eq_seq`), so everything above
  holds for it.  Both runs (`{}` and `{ skip := S }`) start from the same `s`: one hypothesis
  serves both. -/

/-- C10, main direction, for the complete decoder on sequential streams (see
    `skip_of_normal_seq`). -/
theorem skip_of_normal (S : List Nat) (s s' : DSt) (r : DecodeResult) (hs : IsSeqStream s)
    (h : decodeGeometry {} s = (some r, s')) :
    ∃ rS, decodeGeometry { skip := S } s = (some rS, s') ∧ rS.metadata = r.metadata ∧
      rS.geometry.isMesh = r.geometry.isMesh ∧ rS.geometry.numPoints = r.geometry.numPoints ∧
      rS.geometry.faces = r.geometry.faces ∧
      List.Forall₂ (SkipRel S) r.geometry.atts rS.geometry.atts := by
  rw [decodeGeometry_eq_seq _ s hs] at h
  rw [decodeGeometry_eq_seq { skip := S } s hs]
  exact skip_of_normal_seq S s s' r h

theorem bs1_seq : IsSeqStream { rest := bs1 } := isSeqStream_of_eval _ (by decide +kernel)
theorem bs2_seq : IsSeqStream { rest := bs2 } := isSeqStream_of_eval _ (by decide +kernel)
theorem bs3_seq : IsSeqStream { rest := bs3 } := isSeqStream_of_eval _ (by decide +kernel)

/-- non-vacuity: `bs1` is a sequential stream accepted by the complete decoder -/
theorem bs1_accepted : (decodeGeometry {} { rest := bs1 }).1.isSome = true := by decide +kernel

example : ∃ r s' rS, IsSeqStream { rest := bs1 } ∧
    decodeGeometry {} { rest := bs1 } = (some r, s') ∧
    decodeGeometry { skip := [0] } { rest := bs1 } = (some rS, s') ∧
    List.Forall₂ (SkipRel [0]) r.geometry.atts rS.geometry.atts := by
  have h := bs1_accepted
  cases hd : decodeGeometry {} { rest := bs1 } with
  | mk o s' =>
    rw [hd] at h
    cases o with
    | none => cases h
    | some r =>
      obtain ⟨rS, h1, _, _, _, _, h2⟩ := skip_of_normal [0] _ s' r bs1_seq hd
      exact ⟨r, s', rS, bs1_seq, rfl, h1, h2⟩

/-- the complete decoder returns what the property describes on `bs1` -/
example :
    (decodeGeometry {} { rest := bs1 }).1.map (·.geometry.atts) =
      some [{ attType := 0, dataType := 2, numComponents := 1, normalized := false, uniqueId := 0,
              numValues := 1, map := none, values := [3] }] ∧
    (decodeGeometry { skip := [0] } { rest := bs1 }).1.map (·.geometry.atts) =
      some [{ attType := 0, dataType := 5, numComponents := 1, normalized := false, uniqueId := 0,
              numValues := 1, map := none, values := [3, 0, 0, 0] }] := by
  decide +kernel

/-- C10, "all other attributes are unaffected", complete decoder on sequential streams -/
theorem skip_unaffected (S : List Nat) (s s' s'' : DSt) (r rS : DecodeResult)
    (hs : IsSeqStream s)
    (h : decodeGeometry {} s = (some r, s')) (hS : decodeGeometry { skip := S } s = (some rS, s'')) :
    s'' = s' ∧
    List.Forall₂ (fun a aS => a.attType ∉ S → aS = a) r.geometry.atts rS.geometry.atts := by
  rw [decodeGeometry_eq_seq _ s hs] at h hS
  exact skip_unaffected_seq S s s' s'' r rS h hS

/-- any two skip lists, complete decoder on sequential streams (see
    `skip_unaffected_general_seq`) -/
theorem skip_unaffected_general (S T : List Nat) (s s' s'' : DSt) (r r' : DecodeResult)
    (hs : IsSeqStream s)
    (h : decodeGeometry { skip := S } s = (some r, s'))
    (h' : decodeGeometry { skip := T } s = (some r', s'')) :
    s'' = s' ∧ r'.metadata = r.metadata ∧ r'.geometry.isMesh = r.geometry.isMesh ∧
    r'.geometry.numPoints = r.geometry.numPoints ∧ r'.geometry.faces = r.geometry.faces ∧
    List.Forall₂ (fun a b => b.uniqueId = a.uniqueId ∧ b.attType = a.attType ∧ b.map = a.map ∧
        b.numValues = a.numValues ∧ ((a.attType ∈ S ↔ a.attType ∈ T) → b = a))
      r.geometry.atts r'.geometry.atts := by
  rw [decodeGeometry_eq_seq _ s hs] at h h'
  exact skip_unaffected_general_seq S T s s' s'' r r' h h'

/-- monotonicity in the skip list, complete decoder on sequential streams (see `skip_mono_seq`) -/
theorem skip_mono (S T : List Nat) (hST : ∀ t, t ∈ S → t ∈ T) (s s' : DSt) (r : DecodeResult)
    (hs : IsSeqStream s) (h : decodeGeometry { skip := S } s = (some r, s')) :
    ∃ rT, decodeGeometry { skip := T } s = (some rT, s') ∧ rT.metadata = r.metadata ∧
      rT.geometry.isMesh = r.geometry.isMesh ∧ rT.geometry.numPoints = r.geometry.numPoints ∧
      rT.geometry.faces = r.geometry.faces ∧
      List.Forall₂ (fun a b => b.uniqueId = a.uniqueId ∧ b.attType = a.attType ∧ b.map = a.map ∧
          b.numValues = a.numValues ∧ (a.attType ∈ S ∨ a.attType ∉ T → b = a))
        r.geometry.atts rT.geometry.atts := by
  rw [decodeGeometry_eq_seq _ s hs] at h
  rw [decodeGeometry_eq_seq { skip := T } s hs]
  exact skip_mono_seq S T hST s s' r h

example : ∃ r s' rS s'' rT, IsSeqStream { rest := bs1 } ∧
    decodeGeometry {} { rest := bs1 } = (some r, s') ∧
    decodeGeometry { skip := [3] } { rest := bs1 } = (some rS, s'') ∧
    decodeGeometry { skip := [0, 3] } { rest := bs1 } = (some rT, s'') := by
  have h := bs1_accepted
  cases hd : decodeGeometry {} { rest := bs1 } with
  | mk o s' =>
    rw [hd] at h
    cases o with
    | none => cases h
    | some r =>
      obtain ⟨rS, h1, _⟩ := skip_of_normal [3] _ s' r bs1_seq hd
      obtain ⟨rT, h2, _⟩ := skip_mono [3] [0, 3] (by simp) _ s' rS bs1_seq h1
      exact ⟨r, s', rS, s', rT, bs1_seq, rfl, h1, h2⟩

/-- the honest accept-equivalence, complete decoder on sequential streams (see
    `skip_equiv_seq`); the plain equivalence is FALSE: `skip_accepts_more_witness` -/
theorem skip_equiv (S : List Nat) (s : DSt) (hs : IsSeqStream s) :
    (decodeGeometry {} s).1.isSome ↔
      ((decodeGeometry { skip := S } s).1.isSome ∧
        ¬ ∃ fr s1 sts x, geomFront s = (some fr, s1) ∧ fr.states = some sts ∧ x ∈ sts ∧
            x.desc.attType ∈ S ∧ x.Blocked) := by
  rw [decodeGeometry_eq_seq _ s hs, decodeGeometry_eq_seq { skip := S } s hs]
  exact skip_equiv_seq S s

example : IsSeqStream { rest := bs2 } := bs2_seq

/-- complete decoder on sequential streams, see `skip_reject_same_prefix_seq` -/
theorem skip_reject_same_prefix (S : List Nat) (s s' : DSt) (rS : DecodeResult)
    (hs : IsSeqStream s)
    (h0 : (decodeGeometry {} s).1 = none)
    (hS : decodeGeometry { skip := S } s = (some rS, s')) :
    decodeGeometry {} s = (none, if s'.status == .ok then { s' with status := .error } else s') ∧
    ∃ fr sts x, geomFront s = (some fr, s') ∧ fr.states = some sts ∧
      (∃ s0, decodeSeqStates fr.numPoints s0 = (some sts, s')) ∧
      x ∈ sts ∧ x.desc.attType ∈ S ∧
      ((x.decoderType = 1 ∧ ¬ (1 ≤ x.desc.dataType ∧ x.desc.dataType ≤ 6)) ∨
       (x.decoderType = 3 ∧
         ∃ bits : Int, x.transform = .octahedron bits ∧ ¬ (2 ≤ bits ∧ bits ≤ 30))) := by
  rw [decodeGeometry_eq_seq _ s hs] at h0 hS
  rw [decodeGeometry_eq_seq {} s hs]
  exact skip_reject_same_prefix_seq S s s' rS h0 hS

/-- The converse of `skip_of_normal` is FALSE of the code: the sequential stream `bs2` is
    accepted by the complete decoder when the transform of POSITION attributes is skipped and
    rejected by the ordinary decode; both read the whole stream.  (Also non-vacuity of
    `skip_reject_same_prefix`.) -/
theorem skip_accepts_more_witness :
    IsSeqStream { rest := bs2 } ∧
    (decodeGeometry {} { rest := bs2 }).1 = none ∧
    (decodeGeometry { skip := [0] } { rest := bs2 }).1.isSome = true ∧
    (decodeGeometry {} { rest := bs2 }).2.rest = [] ∧
    (decodeGeometry { skip := [0] } { rest := bs2 }).2.rest = [] :=
  ⟨bs2_seq, by decide +kernel⟩

/-- the same for the second unevaluated check: a normal attribute with 1 quantization bit -/
theorem skip_accepts_more_witness_octa :
    IsSeqStream { rest := bs3 } ∧
    (decodeGeometry {} { rest := bs3 }).1 = none ∧
    (decodeGeometry { skip := [1] } { rest := bs3 }).1.isSome = true ∧
    (decodeGeometry {} { rest := bs3 }).2.rest = [] ∧
    (decodeGeometry { skip := [1] } { rest := bs3 }).2.rest = [] :=
  ⟨bs3_seq, by decide +kernel⟩

example : ∃ rS s', IsSeqStream { rest := bs2 } ∧ (decodeGeometry {} { rest := bs2 }).1 = none ∧
    decodeGeometry { skip := [0] } { rest := bs2 } = (some rS, s') := by
  obtain ⟨h0, h1, h2, _⟩ := skip_accepts_more_witness
  cases hd : decodeGeometry { skip := [0] } { rest := bs2 } with
  | mk o s' =>
    rw [hd] at h2
    cases o with
    | none => cases h2
    | some rS => exact ⟨rS, s', h0, h1, rfl⟩

/-! ## the dispatcher with arbitrary body decoders -/

/-- what a body decoder (Edgebreaker, kd-tree) has to satisfy for the main direction of C10 -/
def SkipGeomOK (dec : DecOpts → DecM Geometry) : Prop :=
  ∀ (S : List Nat) (s : DSt) (g : Geometry) (s' : DSt), dec {} s = (some g, s') →
    ∃ gS, dec { skip := S } s = (some gS, s') ∧ gS.isMesh = g.isMesh ∧
      gS.numPoints = g.numPoints ∧ gS.faces = g.faces ∧
      List.Forall₂ (SkipRel S) g.atts gS.atts

/-- The main direction of C10 for the dispatcher over ANY Edgebreaker / kd-tree body decoders
    that satisfy it themselves, for ALL streams: whoever proves
    `SkipGeomOK Eb.decodeEdgebreaker` and `SkipGeomOK Kd.decodeKdGeometry` obtains
    `skip_of_normal` for `decodeGeometry` without the hypothesis `IsSeqStream`.
    (Those two facts are NOT proved here.) -/
theorem skip_of_normal_with (eb kd : DecOpts → DecM Geometry) (heb : SkipGeomOK eb)
    (hkd : SkipGeomOK kd) (S : List Nat) (s s' : DSt) (r : DecodeResult)
    (h : decodeStreamWith eb kd {} s = (some r, s')) :
    ∃ rS, decodeStreamWith eb kd { skip := S } s = (some rS, s') ∧ rS.metadata = r.metadata ∧
      rS.geometry.isMesh = r.geometry.isMesh ∧ rS.geometry.numPoints = r.geometry.numPoints ∧
      rS.geometry.faces = r.geometry.faces ∧
      List.Forall₂ (SkipRel S) r.geometry.atts rS.geometry.atts := by
  obtain ⟨fg, s1, hfg, hfin⟩ := (decodeStreamWith_some_iff eb kd {} s s' r).1 h
  have body : ∀ (dec : DecOpts → DecM Geometry) (md : Option GeometryMetadata), SkipGeomOK dec →
      (do let g ← dec {}; pure (⟨g, md⟩ : DecodeResult)) s1 = (some r, s') →
      ∃ rS, (do let g ← dec { skip := S }; pure (⟨g, md⟩ : DecodeResult)) s1 = (some rS, s') ∧
        rS.metadata = r.metadata ∧ rS.geometry.isMesh = r.geometry.isMesh ∧
        rS.geometry.numPoints = r.geometry.numPoints ∧ rS.geometry.faces = r.geometry.faces ∧
        List.Forall₂ (SkipRel S) r.geometry.atts rS.geometry.atts := by
    intro dec md hdec hrun
    simp only [bind] at hrun ⊢
    obtain ⟨g, s2, hg, hp⟩ := (DecM.andThen_some _ _ s1 s' r).1 hrun
    cases hp
    obtain ⟨gS, hgS, e1, e2, e3, e4⟩ := hdec S s1 g s' hg
    exact ⟨⟨gS, md⟩, (DecM.andThen_some _ _ s1 s' _).2 ⟨gS, s', hgS, rfl⟩, rfl, e1, e2, e3, e4⟩
  cases fg with
  | seq fr =>
    have hfr : geomFront s = (some fr, s1) := (geomFront_some_iff s s1 fr).2 hfg
    have hfin' : finishGeom {} fr s1 = (some r, s') := hfin
    rw [finishGeom_eq, DecM.ofOption_some] at hfin'
    obtain ⟨hpure, rfl⟩ := hfin'
    obtain ⟨rS, hrS, hsame⟩ := finishGeomPure_rel (SkipRel S) [] S fr
      (fun sts hst x hxm a ha =>
        finishPure_skipRel S fr.numPoints x (geomFront_wf s s' fr hfr sts hst x hxm) a ha) r hpure
    refine ⟨rS, (decodeStreamWith_some_iff eb kd _ s s' rS).2 ⟨.seq fr, s', hfg, ?_⟩, hsame⟩
    show finishGeom { skip := S } fr s' = (some rS, s')
    rw [finishGeom_eq, DecM.ofOption_some]
    exact ⟨hrS, rfl⟩
  | eb md =>
    obtain ⟨rS, hrS, hsame⟩ := body eb md heb hfin
    exact ⟨rS, (decodeStreamWith_some_iff eb kd _ s s' rS).2 ⟨.eb md, s1, hfg, hrS⟩, hsame⟩
  | kd md =>
    obtain ⟨rS, hrS, hsame⟩ := body kd md hkd hfin
    exact ⟨rS, (decodeStreamWith_some_iff eb kd _ s s' rS).2 ⟨.kd md, s1, hfg, hrS⟩, hsame⟩

/-- non-vacuity of `SkipGeomOK` / `skip_of_normal_with`: the rejecting body decoders of
    `decodeGeometrySeq` satisfy it, and `decodeGeometrySeq` accepts `bs1` -/
example : SkipGeomOK (fun _ => failWith (.unsupported "edgebreaker")) := by
  intro S s g s' h; cases h

example : ∃ r s' rS, decodeGeometrySeq {} { rest := bs1 } = (some r, s') ∧
    decodeGeometrySeq { skip := [0] } { rest := bs1 } = (some rS, s') := by
  have h := bs1_accepted_seq
  cases hd : decodeGeometrySeq {} { rest := bs1 } with
  | mk o s' =>
    rw [hd] at h
    cases o with
    | none => cases h
    | some r =>
      obtain ⟨rS, h1, _⟩ := skip_of_normal_with _ _ (fun S s g s' h => by cases h)
        (fun S s g s' h => by cases h) [0] _ s' r hd
      exact ⟨r, s', rS, rfl, h1⟩

/-- The int32 values exposed by a skipped decode can be read back from the exposed bytes
    (4 bytes little endian, two's complement), so a client can re-apply the described transform:
    the `∃ portable` of `SkipRel` is recoverable from `aS.values` whenever the portable values
    are int32.  (That the outputs of the entropy decoder / prediction schemes are int32 is NOT
    proved here; for values outside int32 the exposed bytes hold the value modulo 2^32, exactly
    as the narrowing stores of the ordinary decode do.) -/
theorem portable_readback (v : Int) (h : -(2^31) ≤ v ∧ v < 2^31) :
    toSigned 32 (leValue (intToLE 4 v)) = v := by
  unfold intToLE
  rw [Wrap.leValue_writeLE, Nat.mod_eq_of_lt (Wrap.toUnsigned32_lt v)]
  exact Wrap.toSigned_toUnsigned32 v (by omega) h.2

example : toSigned 32 (leValue (intToLE 4 (-5))) = -5 := portable_readback (-5) (by decide)

end C10
end Draco
