import DracoProps.C02Eb
import DracoProofs.KdStatus
/-
  C02 — status discipline with the kd-tree body decoder inside (staging file, to be merged into DracoProps/C02.lean).

  `C02.decode_returns_status_with` carries `Disc (kd opts)` as a hypothesis; `kd_disciplined` discharges it for
  `Kd.decodeKdGeometry` (structural walk, DracoProofs/KdStatus.lean), `C02Eb.eb_disciplined` does the same for the
  Edgebreaker body: `decode_returns_status_all` is the status discipline of the COMPLETE decoder `decodeGeometry`
  — sequential, kd-tree and Edgebreaker bodies, every bitstream version — with no hypothesis left.
-/
namespace Draco.C02Kd
open Draco Draco.Robust

/-- **status discipline of the kd-tree body decoder**, all inputs, all options, every bitstream version: the
    dispatching `Kd.decodeKdGeometry` with the current (2.3) body and the body of older streams
    (`Kd.decodeKdGeometryLegacy`: integer and float points tree methods) -/
theorem kd_disciplined (opts : DecOpts) : Disc (Kd.decodeKdGeometry opts) := Kd.disc_decodeKdGeometry opts

/-- **Status discipline of the complete decoder.** For every byte string and option set `decodeGeometry` returns a
    geometry and leaves the status `ok`, or returns nothing and leaves `error` / `unknownVersion` / `unsupported`. -/
theorem decode_returns_status_all (opts : DecOpts) (bs : Bytes) :
    (∃ r s', decodeGeometry opts { rest := bs } = (some r, s') ∧ s'.status = .ok) ∨
    (∃ s', decodeGeometry opts { rest := bs } = (none, s') ∧ s'.status ≠ .ok) :=
  C02.decode_returns_status_with _ _ opts bs (C02Eb.eb_disciplined opts) (kd_disciplined opts)

/-- a returned geometry implies status `ok`; (C03) every attribute is valid, the geometry is valid when it has an
    attribute -/
theorem decode_some_ok_valid_all (opts : DecOpts) (bs : Bytes) (r : DecodeResult) (s' : DSt)
    (h : decodeGeometry opts { rest := bs } = (some r, s')) :
    s'.status = .ok ∧ (∀ a ∈ r.geometry.atts, a.valid r.geometry.numPoints = true) ∧
      (r.geometry.atts ≠ [] → r.geometry.valid = true) :=
  ⟨((disc_decodeStreamWith _ _ opts (C02Eb.eb_disciplined opts) (kd_disciplined opts)).prop { rest := bs } rfl).2 r s' h,
    C03Eb.decode_all_ok_valid opts _ s' r h⟩

/-- non-vacuity: the kd-tree body on a 5-byte body declaring 3 points and no attribute decoder is accepted with
    status `ok`; cut after 3 bytes it is rejected with status `error` -/
example : ((Kd.decodeKdGeometry {} { rest := [3, 0, 0, 0, 0], version := 515 }).1.isSome,
    (Kd.decodeKdGeometry {} { rest := [3, 0, 0, 0, 0], version := 515 }).2.status) = (true, .ok) := by decide +kernel

example : ((Kd.decodeKdGeometry {} { rest := [3, 0, 0], version := 515 }).1.isSome,
    (Kd.decodeKdGeometry {} { rest := [3, 0, 0], version := 515 }).2.status) = (false, .error) := by decide +kernel

/-- … and the body of a bitstream older than 2.3 (state version 2.2): accepted with status `ok`, rejected with `error` -/
example : ((Kd.decodeKdGeometry {} { rest := [0, 0, 0, 0, 0], version := 514 }).1.isSome,
    (Kd.decodeKdGeometry {} { rest := [0, 0, 0, 0, 0], version := 514 }).2.status) = (true, .ok) := by decide +kernel

example : ((Kd.decodeKdGeometry {} { rest := [2, 0, 0, 0, 1, 1, 0, 9, 3, 0, 0, 7], version := 514 }).1.isSome,
    (Kd.decodeKdGeometry {} { rest := [2, 0, 0, 0, 1, 1, 0, 9, 3, 0, 0, 7], version := 514 }).2.status) =
    (false, .error) := by decide +kernel

end Draco.C02Kd
