import DracoProps.C10
import DracoProps.C10Kd
import DracoProofs.EbSkip
/-
  C10 — `SetSkipAttributeTransform` on the Edgebreaker path (staging file of the Edgebreaker slice, to be merged
  into DracoProps/C10.lean).

  `C10.skip_of_normal_with` carries `SkipGeomOK Eb.decodeEdgebreaker` as a hypothesis.  What is proved here:

    `eb_skip_of_normal`        the statement of `SkipGeomOK` for `Eb.decodeEdgebreaker` from every decoder state
                               whose bitstream version is ≥ 2.0 — all byte strings, corrupted ones included, any
                               skip list, with the strict relation `C10.SkipRel` (maps included: the
                               point → value map of an Edgebreaker attribute is never changed by the option):
                               the skipped decode accepts whenever the ordinary one does, ends in the SAME decoder
                               state (same input consumed, same allocations, same branch tags), returns the same
                               faces / number of points and attribute by attribute results related by `SkipRel S`.
    `ebGuarded_skipGeomOK`     `SkipGeomOK` (all states) of the body decoder guarded by that version test
    `skip_of_normal_v2`        the complete decoder `decodeGeometry` — sequential, kd-tree and Edgebreaker —
                               on every stream whose header announces a version ≥ 2.0 (`HeaderV2`), no other
                               hypothesis: the conclusion of `C10.skip_of_normal` with `SkipRelU`
                               (kd-tree attributes are exposed as DT_UINT32, see C10Kd)
    `streamFront_eb_version`   the body decoder runs in a state carrying the header's version

  NOT proved, and believed FALSE of the code for bitstreams < 2.0: there `InitPredictionScheme` of a LATER
  attributes decoder hands `point_cloud()->attribute(pos_att_id)` to the prediction scheme as parent attribute
  (≥ 2.0: `GetPortableAttribute`), and with `SetSkipAttributeTransform(POSITION)` that public attribute has been
  overwritten by the portable (integer) one when the earlier decoder finished
  (`TransformAttributesToOriginalFormat` → `CopyFrom(*portable_attribute)`), so the predictions of the later
  decoder — hence its decoded values — differ between the two runs (model: `Eb.parentOf ver skip`).  Found by
  reading the code while modelling; no witness stream (it needs a legacy stream with a parent-dependent
  scheme in a second attributes decoder).  See notes/eb.md.
-/
namespace Draco.C10Eb
open Draco Draco.DecM Draco.C10 Draco.C10Kd Draco.Eb

/-- replacing the map on both sides keeps `SkipRel` -/
theorem skipRel_withMap (S : List Nat) (mp : Option (List Nat)) (a aS : Attribute) (h : SkipRel S a aS) :
    SkipRel S (withMap mp a) (withMap mp aS) := by
  obtain ⟨h1, h2, _, h4, h5, h6, h7⟩ := h
  refine ⟨h1, h2, rfl, h4, h5, ?_, fun hn => by rw [h7 hn]⟩
  rcases h6 with h6 | ⟨m, dt, nz, p, hp, hm⟩
  · exact Or.inl (by rw [h6])
  · exact Or.inr ⟨m, dt, nz, p, hp, hm⟩

/-- the last step of the attribute controller on a state the ordinary run lets through -/
theorem finish_rel (S : List Nat) (x : EbAttState) (hx : Fin x) :
    Rel (SkipRel S) (finishSeqAttribute {} x.toSeq x.numValues (some x.map.toList))
      (finishSeqAttribute { skip := S } x.toSeq x.numValues (some x.map.toList)) := by
  intro s a s' h
  rw [finishSeqAttribute_map, DecM.ofOption_some] at h
  obtain ⟨ha, rfl⟩ := h
  cases h0 : finishSeqPure ({} : DecOpts).skip x.numValues x.toSeq with
  | none => rw [h0] at ha; cases ha
  | some a0 =>
    rw [h0] at ha
    simp only [Option.map_some, Option.some.injEq] at ha
    subst ha
    rw [finishSeqPure_eq_finishPure _ _ _ hx.1 hx.2] at h0
    obtain ⟨aS, hS, hrel⟩ := finishPure_skipRel S x.numValues x.toSeq hx.1 a0 h0
    refine ⟨withMap _ aS, ?_, skipRel_withMap S _ a0 aS hrel⟩
    rw [finishSeqAttribute_map, DecM.ofOption_some]
    refine ⟨?_, rfl⟩
    show (finishSeqPure S x.numValues x.toSeq).map _ = _
    rw [finishSeqPure_eq_finishPure _ _ _ hx.1 hx.2, hS]
    rfl

/-- **C10 for the Edgebreaker body, bitstream ≥ 2.0** — the statement of `SkipGeomOK` at every state whose
    version is ≥ 2.0, for all inputs -/
theorem eb_skip_of_normal (S : List Nat) (s s' : DSt) (g : Geometry) (hv : bsVersion 2 0 ≤ s.version)
    (h : Eb.decodeEdgebreaker {} s = (some g, s')) :
    ∃ gS, Eb.decodeEdgebreaker { skip := S } s = (some gS, s') ∧ gS.isMesh = g.isMesh ∧
      gS.numPoints = g.numPoints ∧ gS.faces = g.faces ∧ List.Forall₂ (SkipRel S) g.atts gS.atts :=
  decodeEdgebreaker_rel S (SkipRel S) (finish_rel S) s s' g hv h

/-- the Edgebreaker body behind the version test under which `eb_skip_of_normal` holds -/
def ebGuarded (opts : DecOpts) : DecM Geometry := do
  let v ← version
  if v ≥ bsVersion 2 0 then Eb.decodeEdgebreaker opts else failWith (.unsupported "edgebreaker < 2.0")

theorem ebGuarded_eq (opts : DecOpts) (s : DSt) (hv : bsVersion 2 0 ≤ s.version) :
    ebGuarded opts s = Eb.decodeEdgebreaker opts s := by
  unfold ebGuarded
  simp only [bind, DecM.andThen, version, ge_iff_le, hv, if_true]

theorem ebGuarded_skipGeomOK : SkipGeomOK ebGuarded := by
  intro S s g s' h
  by_cases hv : bsVersion 2 0 ≤ s.version
  · rw [ebGuarded_eq _ s hv] at h ⊢
    exact eb_skip_of_normal S s s' g hv h
  · unfold ebGuarded at h
    simp only [bind, DecM.andThen, version, ge_iff_le, hv, if_false] at h
    cases h

/-! ### the complete decoder -/

/-- the stream's header is readable and announces a bitstream version ≥ 2.0 -/
def HeaderV2 (s : DSt) : Prop :=
  ∃ h s1, decodeHeader s = (some h, s1) ∧ bsVersion 2 0 ≤ bsVersion h.major h.minor

theorem lift_version {α} {r : Rd α} {s s' : DSt} {a : α} (h : lift r s = (some a, s')) : s'.version = s.version := by
  unfold lift at h
  split at h
  · cases h
  · cases h; rfl

theorem ite_some {α} {c : Prop} [Decidable c] {a b : DecM α} {s s' : DSt} {x : α}
    (h : (if c then a else b) s = (some x, s')) : (c ∧ a s = (some x, s')) ∨ (¬ c ∧ b s = (some x, s')) := by
  split at h
  · exact Or.inl ⟨‹_›, h⟩
  · exact Or.inr ⟨‹_›, h⟩
/-- the Edgebreaker body decoder is entered in a state that carries the header's version -/
theorem streamFront_eb_version (s s1 : DSt) (md : Option GeometryMetadata)
    (h : streamFront s = (some (.eb md), s1)) :
    ∃ hd s0, decodeHeader s = (some hd, s0) ∧ s1.version = bsVersion hd.major hd.minor := by
  unfold streamFront at h
  simp only [bind, pure] at h
  rw [DecM.andThen_some] at h
  obtain ⟨hd, s0, hh, h⟩ := h
  refine ⟨hd, s0, hh, ?_⟩
  rw [DecM.andThen_some] at h
  obtain ⟨_, sa, h1, h⟩ := h
  rw [DecM.andThen_some] at h
  obtain ⟨_, sb, h2, h⟩ := h
  rcases ite_some h with ⟨_, h⟩ | ⟨_, h⟩
  · exact (Robust.failWith_ok h).elim
  rcases ite_some h with ⟨_, h⟩ | ⟨_, h⟩
  · exact (Robust.failWith_ok h).elim
  rw [DecM.andThen_some] at h
  obtain ⟨_, sv, hsv, h⟩ := h
  have hv0 : sv.version = bsVersion hd.major hd.minor := by cases hsv; rfl
  have tail : ∀ (md' : Option GeometryMetadata) (sm : DSt), sm.version = bsVersion hd.major hd.minor →
      (if (hd.encoderMethod != 0 && hd.encoderType == 1) = true then ret (StreamFront.eb md')
                else
                  if (hd.encoderMethod != 0) = true then ret (StreamFront.kd md')
                  else
                    if (hd.encoderType == 1) = true then
                      decodeSeqConnectivity.andThen fun __x =>
                        (decodePointStatesSeq __x.1).andThen fun st =>
                          ret
                            (StreamFront.seq
                              { isMesh := true, numPoints := __x.1, faces := __x.2, metadata := md', states := st.2,
                                legacy := st.1 })
                    else
                      rdI32.andThen fun np =>
                        (declare (toUnsigned 32 np)).andThen fun __r =>
                          (decodePointStatesSeq (toUnsigned 32 np)).andThen fun st =>
                            ret
                              (StreamFront.seq
                                { isMesh := false, numPoints := toUnsigned 32 np, faces := [], metadata := md',
                                  states := st.2, legacy := st.1 })) sm = (some (StreamFront.eb md), s1) →
      s1.version = bsVersion hd.major hd.minor := by
    intro md' sm hsm h
    rcases ite_some h with ⟨_, h⟩ | ⟨_, h⟩
    · cases h; exact hsm
    rcases ite_some h with ⟨_, h⟩ | ⟨_, h⟩
    · cases h
    rcases ite_some h with ⟨_, h⟩ | ⟨_, h⟩
    · rw [DecM.andThen_some] at h
      obtain ⟨_, _, _, h⟩ := h
      rw [DecM.andThen_some] at h
      obtain ⟨_, _, _, h⟩ := h
      cases h
    · rw [DecM.andThen_some] at h
      obtain ⟨_, _, _, h⟩ := h
      rw [DecM.andThen_some] at h
      obtain ⟨_, _, _, h⟩ := h
      rw [DecM.andThen_some] at h
      obtain ⟨_, _, _, h⟩ := h
      cases h
  rcases ite_some h with ⟨_, h⟩ | ⟨_, h⟩
  · rw [DecM.andThen_some] at h
    obtain ⟨md', sm, hm, h⟩ := h
    rw [DecM.andThen_some] at hm
    obtain ⟨g, sl, hl, hp⟩ := hm
    exact tail md' sm (by cases hp; exact (lift_version hl).trans hv0) h
  · rw [DecM.andThen_some] at h
    obtain ⟨md', sm, hm, h⟩ := h
    cases hm
    exact tail none sv hv0 h

/-- on a stream of version ≥ 2.0 the guard is never the reason for a rejection -/
theorem decodeStreamWith_guarded (kd : DecOpts → DecM Geometry) (o : DecOpts) (s : DSt) (hv : HeaderV2 s)
    (s' : DSt) (r : DecodeResult) :
    decodeStreamWith ebGuarded kd o s = (some r, s') ↔ decodeStreamWith Eb.decodeEdgebreaker kd o s = (some r, s') := by
  obtain ⟨hd, s0, hh, hge⟩ := hv
  have key : ∀ fg s1, streamFront s = (some fg, s1) →
      finishStream ebGuarded kd o fg s1 = finishStream Eb.decodeEdgebreaker kd o fg s1 := by
    intro fg s1 hfg
    cases fg with
    | seq fr => rfl
    | kd md => rfl
    | eb md =>
      obtain ⟨hd', s0', hh', hver⟩ := streamFront_eb_version s s1 md hfg
      rw [hh] at hh'
      cases hh'
      have hv1 : bsVersion 2 0 ≤ s1.version := by rw [hver]; exact hge
      show (ebGuarded o >>= fun g => pure (⟨g, md⟩ : DecodeResult)) s1 =
        (Eb.decodeEdgebreaker o >>= fun g => pure (⟨g, md⟩ : DecodeResult)) s1
      simp only [bind, DecM.andThen, ebGuarded_eq o s1 hv1]
  constructor
  · intro h
    obtain ⟨fg, s1, hfg, hfin⟩ := (decodeStreamWith_some_iff _ kd o s s' r).1 h
    exact (decodeStreamWith_some_iff _ kd o s s' r).2 ⟨fg, s1, hfg, (key fg s1 hfg) ▸ hfin⟩
  · intro h
    obtain ⟨fg, s1, hfg, hfin⟩ := (decodeStreamWith_some_iff _ kd o s s' r).1 h
    exact (decodeStreamWith_some_iff _ kd o s s' r).2 ⟨fg, s1, hfg, (key fg s1 hfg).symm ▸ hfin⟩

/-- **C10, main direction, for the complete decoder on every stream of bitstream version ≥ 2.0** (sequential,
    kd-tree and Edgebreaker; point clouds and meshes; corrupted streams included): whenever the ordinary
    decode accepts, the decode with any skip list `S` accepts, ends in the same decoder state, returns the same
    metadata, geometry type, number of points and faces, and the attributes are related by `SkipRelU S`. -/
theorem skip_of_normal_v2 (S : List Nat) (s s' : DSt) (r : DecodeResult) (hv : HeaderV2 s)
    (h : decodeGeometry {} s = (some r, s')) :
    ∃ rS, decodeGeometry { skip := S } s = (some rS, s') ∧ rS.metadata = r.metadata ∧
      rS.geometry.isMesh = r.geometry.isMesh ∧ rS.geometry.numPoints = r.geometry.numPoints ∧
      rS.geometry.faces = r.geometry.faces ∧
      List.Forall₂ (SkipRelU S) r.geometry.atts rS.geometry.atts := by
  have h' := (decodeStreamWith_guarded Kd.decodeKdGeometry {} s hv s' r).2 h
  obtain ⟨rS, hrS, hsame⟩ := skip_of_normal_kd ebGuarded (SkipGeomOK.toU ebGuarded_skipGeomOK) S s s' r h'
  exact ⟨rS, (decodeStreamWith_guarded Kd.decodeKdGeometry _ s hv s' rS).1 hrS, hsame⟩

/-- … Edgebreaker streams with the strict relation: on a mesh stream with `encoder_method ≠ 0` the attributes are
    related by `C10.SkipRel` itself -/
theorem skip_of_normal_eb_stream (S : List Nat) (s s' : DSt) (r : DecodeResult) (hv : HeaderV2 s)
    (md : Option GeometryMetadata) (s1 : DSt) (hfront : streamFront s = (some (.eb md), s1))
    (h : decodeGeometry {} s = (some r, s')) :
    ∃ rS, decodeGeometry { skip := S } s = (some rS, s') ∧ rS.metadata = r.metadata ∧
      rS.geometry.isMesh = r.geometry.isMesh ∧ rS.geometry.numPoints = r.geometry.numPoints ∧
      rS.geometry.faces = r.geometry.faces ∧
      List.Forall₂ (SkipRel S) r.geometry.atts rS.geometry.atts := by
  obtain ⟨hd, s0, hh, hge⟩ := hv
  obtain ⟨hd', s0', hh', hver⟩ := streamFront_eb_version s s1 md hfront
  rw [hh] at hh'
  cases hh'
  have hv1 : bsVersion 2 0 ≤ s1.version := by rw [hver]; exact hge
  obtain ⟨fg, s1', hfg, hfin⟩ := (decodeStreamWith_some_iff _ _ {} s s' r).1 h
  rw [hfront] at hfg
  cases hfg
  have hfin' : (Eb.decodeEdgebreaker {} >>= fun g => pure (⟨g, md⟩ : DecodeResult)) s1 = (some r, s') := hfin
  obtain ⟨g, s2, hg, hp⟩ := (bind_some _ _ _ _ _).1 hfin'
  cases hp
  obtain ⟨gS, hgS, e1, e2, e3, e4⟩ := eb_skip_of_normal S s1 s' g hv1 hg
  refine ⟨⟨gS, md⟩, (decodeStreamWith_some_iff _ _ _ s s' _).2 ⟨.eb md, s1, hfront, ?_⟩, rfl, e1, e2, e3, e4⟩
  show (Eb.decodeEdgebreaker { skip := S } >>= fun g => pure (⟨g, md⟩ : DecodeResult)) s1 = _
  exact (bind_some _ _ _ _ _).2 ⟨gS, s', hgS, rfl⟩

/-! ### non-vacuity -/

/-- 75-byte Edgebreaker mesh (bitstream 2.2): two triangles, four points, float32 positions quantized to 8 bits,
    integer values stored without entropy coding
    (`enc expert=1 method=1 speed=5,5 q0=8 g:use_built_in_attribute_compression=0 -- mesh 4 2 0,1,2,2,1,3 …` of the
    harness; the kernel evaluates the model on it in well under a second) -/
def quadStream : Bytes := [68, 82, 65, 67, 79, 2, 2, 1, 1, 0, 0, 0, 4, 2, 0, 2, 0, 0, 1, 31, 255, 1, 17, 1, 255, 0, 0,
  1, 0, 9, 3, 0, 0, 2, 1, 1, 0, 1, 0, 1, 0, 1, 2, 0, 0, 1, 255, 0, 0, 0, 0, 0, 0, 0, 255, 0, 0, 0, 0, 0, 0, 0, 0, 0, 0,
  0, 0, 0, 0, 0, 0, 0, 128, 63, 8]

theorem quadStream_v2 : HeaderV2 { rest := quadStream } := by
  have h : (decodeHeader { rest := quadStream }).1.map (fun h => (h.major, h.minor)) = some (2, 2) := by decide +kernel
  cases hd : decodeHeader { rest := quadStream } with
  | mk o s1 =>
    rw [hd] at h
    cases o with
    | none => cases h
    | some hdr =>
      simp only [Option.map_some, Option.some.injEq, Prod.mk.injEq] at h
      refine ⟨hdr, s1, hd, ?_⟩
      rw [h.1, h.2]
      decide

/-- the ordinary decode accepts it: a float32 position attribute with 4 values of 3 components -/
theorem quadStream_accepted :
    (decodeGeometry {} { rest := quadStream }).1.map
      (fun r => r.geometry.atts.map (fun a => (a.attType, a.dataType, a.numComponents, a.numValues, a.transform))) =
      some [(0, 9, 3, 4, .none)] := by
  decide +kernel

/-- … and with the skip list `[POSITION]` the attribute comes out as int32 with the quantization transform
    (8 bits, origin (0, 0, 0), range 1.0): the option has an effect, and `skip_of_normal_v2` relates the two -/
theorem quadStream_skipped :
    (decodeGeometry { skip := [0] } { rest := quadStream }).1.map
      (fun r => r.geometry.atts.map (fun a => (a.attType, a.dataType, a.numComponents, a.numValues, a.transform))) =
      some [(0, 5, 3, 4, .quantization 8 [0, 0, 0] 1065353216)] := by
  decide +kernel

example : ∃ r s' rS, decodeGeometry {} { rest := quadStream } = (some r, s') ∧
    decodeGeometry { skip := [0] } { rest := quadStream } = (some rS, s') ∧
    List.Forall₂ (SkipRelU [0]) r.geometry.atts rS.geometry.atts := by
  have h := quadStream_accepted
  cases hd : decodeGeometry {} { rest := quadStream } with
  | mk o s' =>
    rw [hd] at h
    cases o with
    | none => cases h
    | some r =>
      obtain ⟨rS, h1, _, _, _, _, h6⟩ := skip_of_normal_v2 [0] _ s' r quadStream_v2 hd
      exact ⟨r, s', rS, rfl, h1, h6⟩

end Draco.C10Eb
