import DracoProofs.QuantExact
import DracoProofs.QuantFloat
import DracoProofs.QuantPipeline
import DracoProofs.QuantOracles
import DracoProofs.QuantGrid
import DracoProps.C04
/-
  C12 — explicit quantization.

  "With explicit quantization (caller-supplied origin, range and bits), the decoded value of a
   coordinate depends only on that coordinate and the three parameters … and lies on the grid
   origin + k*range/(2^bits-1)."

  * `explicit_pointwise`     decoded component = `dequantize (quantize x)`: a function of
                             `(x, origin_c, range, bits)` only — any two attributes that carry
                             `x` in component `c` decode it to the same value.
  * `on_grid`                exact arithmetic: `k ∈ [0, 2^bits-1]`,
                             decoded = `origin + k·range/(2^bits-1)`.
  * `on_grid_float_partial`  rounding-model oracle: decoded = `dequantize k` with `0 ≤ k`,
                             and `k ≤ 2^bits-1` under the extra hypothesis `16·(2^bits-1)·u ≤ 1`
                             (`bits ≤ 20` for float32).
  * `quantized_exceeds_max_witness`  the extra hypothesis cannot be dropped: an oracle within
                             the float32 rounding model yields `k > 2^30-1` for `x` on the box
                             boundary. (The real library does so from `bits = 23` on:
                             x = 0x3aa33f2e, min = 0x3a6585a5, range = 0x39c1f16e, bits = 23
                             gives k = 8388608 = 2^23; reproduced by the C++ driver.)
  * `decodeParameters_encodeParameters_roundtrip`  the 4·n+5 byte parameter record round-trips.
  * `requantize_grid_point`, `decode_encode_idempotent`  exact arithmetic: grid points are fixed
                             points; decode ∘ encode is idempotent (re-encoding a decoded geometry
                             with the same parameters changes nothing).

  Exactly what holds for `k ≤ 2^bits-1` (slice c08plus):
  * relative-error model (`RoundingModel`, `u = 2^-24`): true for `bits ≤ 20`
    (`on_grid_float_partial`), false at `bits = 21` (`quantized_exceeds_max_witness_21`): the
    hypothesis `16·(2^bits-1)·u ≤ 1` is sharp for that model.
  * grid model (`GridModel`: one monotone rounding function with relative error `2^-24` that is
    exact on `n/2^j`, `|n| ≤ 2^24` — binary32 without exponent limits): true for `bits ≤ 22`
    (`on_grid_float_grid`).
  * the real library: no counterexample for `bits ≤ 22` in 9·10^5 upper-corner samples, and
    `k = 2^bits` from `bits = 23` on; simplest instance origin 0, range 0.1f, x = 0.1f,
    bits 23: `qattr 23 1 1036831949 1036831949 0` → k = 8388608, decoded 0x3dcccccf = 0.1f + 2 ulp
    (C++ harness and `Float32` model agree; the case is part of the C04 check).
-/
namespace Draco
namespace Quant

/-- Explicit parameters (`SetParameters(bits, origin, n, range)` succeeded). For any two
    attributes `rows1`, `rows2` that carry the same coordinate `x` in component `c` of some
    value, the full pipeline `GeneratePortableAttribute` → `InverseTransformAttribute` succeeds
    and decodes both occurrences to the same value, namely
    `dequantize p bits c (quantize p bits c x)`, which mentions only `x`, `origin[c]`, `range`
    and `bits`. Holds for every `FloatOps` instance (in particular `Float32`). -/
theorem explicit_pointwise {F : Type} [FloatOps F] (bits : Int) (origin : List F) (range : F)
    (p : QParams F) (qn : Nat) (hset : setParameters bits origin range = some (p, qn))
    (rows1 rows2 : List (List F)) (i1 i2 c : Nat) (x : F)
    (h1 : at2 rows1 i1 c = some x) (h2 : at2 rows2 i2 c = some x) :
    ∃ out1 out2,
      inverseTransform p qn (generatePortable p qn rows1) = some out1 ∧
      inverseTransform p qn (generatePortable p qn rows2) = some out2 ∧
      at2 out1 i1 c = some (dequantize p qn c (quantize p qn c x)) ∧
      at2 out2 i2 c = at2 out1 i1 c ∧
      minOf p c = origin.getD c FloatOps.zero ∧ p.range = range ∧ (qn : Int) = bits := by
  obtain ⟨hp, hq, hq1, _⟩ := setParameters_some hset
  obtain ⟨out1, e1, g1⟩ := inverseTransform_get p qn hq1 (generatePortable p qn rows1)
  obtain ⟨out2, e2, g2⟩ := inverseTransform_get p qn hq1 (generatePortable p qn rows2)
  have r1 : at2 out1 i1 c = some (dequantize p qn c (quantize p qn c x)) := by
    rw [g1, generatePortable_get, h1]; rfl
  have r2 : at2 out2 i2 c = some (dequantize p qn c (quantize p qn c x)) := by
    rw [g2, generatePortable_get, h2]; rfl
  refine ⟨out1, out2, e1, e2, r1, by rw [r1, r2], ?_, ?_, hq⟩
  · rw [hp]; rfl
  · rw [hp]

attribute [local instance] exactOps in
/-- non-vacuity (exact instance): `x = 3/4` sits at (value 1, component 0) of the first
    attribute and at (value 0, component 0) of the second one -/
example : ∃ out1 out2 : List (List ℚ),
    inverseTransform (⟨[0, 1], 2⟩ : QParams ℚ) 4
        (generatePortable (⟨[0, 1], 2⟩ : QParams ℚ) 4 [[1/5, 2], [3/4, 3/2]]) = some out1 ∧
    inverseTransform (⟨[0, 1], 2⟩ : QParams ℚ) 4
        (generatePortable (⟨[0, 1], 2⟩ : QParams ℚ) 4 [[3/4, 1], [2, 3]]) = some out2 ∧
    at2 out2 0 0 = at2 out1 1 0 := by
  obtain ⟨o1, o2, a, b, _, d, _⟩ := explicit_pointwise (F := ℚ) 4 [0, 1] 2 ⟨[0, 1], 2⟩ 4 rfl
    [[1/5, 2], [3/4, 3/2]] [[3/4, 1], [2, 3]] 1 0 0 (3/4) rfl rfl
  exact ⟨o1, o2, a, b, d⟩

/-- Exact arithmetic: for `x` inside the box the decoded value is a grid point
    `origin + k·range/(2^bits-1)` with `0 ≤ k ≤ 2^bits-1`. -/
theorem on_grid (p : QParams ℚ) (bits c : Nat) (x : ℚ) (hq : 1 ≤ bits) (hR : 0 < p.range)
    (h1 : @minOf ℚ exactOps p c ≤ x) (h2 : x ≤ @minOf ℚ exactOps p c + p.range) :
    ∃ k : Int, 0 ≤ k ∧ k ≤ 2^bits - 1 ∧
      @dequantize ℚ exactOps p bits c (@quantize ℚ exactOps p bits c x)
        = @dequantize ℚ exactOps p bits c k ∧
      @dequantize ℚ exactOps p bits c (@quantize ℚ exactOps p bits c x)
        = @minOf ℚ exactOps p c + (k:ℚ) * p.range / ((2:ℚ)^bits - 1) := by
  obtain ⟨a, b, _⟩ := quant_exact_half_step p bits c x hq hR h1 h2
  refine ⟨_, a, b, rfl, ?_⟩
  rw [dequantize_exact]; ring

/-- non-vacuity: origin 1/3, range 7/2, 5 bits, x = 2 -/
example : ∃ k : Int, 0 ≤ k ∧ k ≤ 2^5 - 1 ∧
    @dequantize ℚ exactOps ⟨[1/3], 7/2⟩ 5 0 (@quantize ℚ exactOps ⟨[1/3], 7/2⟩ 5 0 2)
      = (1/3 : ℚ) + (k:ℚ) * (7/2) / ((2:ℚ)^5 - 1) := by
  obtain ⟨k, a, b, _, d⟩ := on_grid ⟨[1/3], 7/2⟩ 5 0 2 (by norm_num)
    (by show (0:ℚ) < 7/2; norm_num)
    (by show (1/3 : ℚ) ≤ 2; norm_num) (by show (2:ℚ) ≤ 1/3 + 7/2; norm_num)
  exact ⟨k, a, b, d⟩

/-- Rounding-model oracle: the decoded value is `dequantize k` for a `k ≥ 0`; `k ≤ 2^bits-1`
    needs `16·(2^bits-1)·u ≤ 1` (`bits ≤ 20` when `u = 2^-24`).

    Full statement (FALSE for the code, see `quantized_exceeds_max_witness` and the header):
      `∃ k, 0 ≤ k ∧ k ≤ 2^bits - 1 ∧ decoded = dequantize k`   for all `1 ≤ bits ≤ 30`. -/
theorem on_grid_float_partial (ops : FloatOps ℚ) (u : ℚ) (hu0 : 0 ≤ u) (hu : u ≤ 1/1024)
    (hm : RoundingModel ops u) (p : QParams ℚ) (bits c : Nat) (x : ℚ)
    (hq : 1 ≤ bits) (hR : 0 < p.range)
    (h1 : @minOf ℚ ops p c ≤ x) (h2 : x ≤ @minOf ℚ ops p c + p.range) :
    ∃ k : Int, 0 ≤ k ∧ (16 * ((2:ℚ)^bits - 1) * u ≤ 1 → k ≤ 2^bits - 1) ∧
      @dequantize ℚ ops p bits c (@quantize ℚ ops p bits c x) = @dequantize ℚ ops p bits c k := by
  refine ⟨_, (float_half_step_aux ops hm hu0 hu p bits c x (max |x| p.range) hq hR h1 h2
    (le_max_left _ _) (le_max_right _ _)).1, ?_, rfl⟩
  intro hMu
  exact float_quantize_le ops hm hu0 hu p bits c x hq hR h1 h2 hMu

/-- non-vacuity: biased oracle, 11 bits -/
example : ∃ k : Int, 0 ≤ k ∧ k ≤ 2^11 - 1 ∧
    @dequantize ℚ (biasedOps (1/2^24)) ⟨[-5/2], 10⟩ 11 0
        (@quantize ℚ (biasedOps (1/2^24)) ⟨[-5/2], 10⟩ 11 0 (22/7))
      = @dequantize ℚ (biasedOps (1/2^24)) ⟨[-5/2], 10⟩ 11 0 k := by
  obtain ⟨k, a, b, d⟩ := on_grid_float_partial (biasedOps (1/2^24)) (1/2^24) (by norm_num)
    (by norm_num) (biasedOps_model _ _ (by norm_num [abs_of_pos])) ⟨[-5/2], 10⟩ 11 0 (22/7)
    (by norm_num) (by show (0:ℚ) < 10; norm_num)
    (by show (-5/2 : ℚ) ≤ 22/7; norm_num) (by show (22/7 : ℚ) ≤ -5/2 + 10; norm_num)
  exact ⟨k, a, b (by norm_num), d⟩

/-- The bound `k ≤ 2^bits-1` fails under float rounding for large `bits`: the oracle that
    biases every operation by `1 + 2^-24` (within the float32 model) maps the upper box corner
    `x = origin + range` to `k ≥ 2^30 > 2^30 - 1` at `bits = 30`. -/
theorem quantized_exceeds_max_witness :
    RoundingModel (biasedOps (1/2^24)) (1/2^24) ∧
    (2:Int)^30 - 1 < @quantize ℚ (biasedOps (1/2^24)) ⟨[0], 1⟩ 30 0 1 := by
  refine ⟨biasedOps_model _ _ (by norm_num [abs_of_pos]), ?_⟩
  have h : @quantize ℚ (biasedOps (1/2^24)) ⟨[0], 1⟩ 30 0 1
      = ⌊((((1:ℚ) - 0) * (1 + 1/2^24)) * (((((2:Int)^30 - 1 : Int) : ℚ) / 1) * (1 + 1/2^24))
            * (1 + 1/2^24) + 1/2) * (1 + 1/2^24)⌋ := rfl
  rw [h]
  have : ((2:Int)^30 : Int) ≤ ⌊((((1:ℚ) - 0) * (1 + 1/2^24)) *
      (((((2:Int)^30 - 1 : Int) : ℚ) / 1) * (1 + 1/2^24)) * (1 + 1/2^24) + 1/2) * (1 + 1/2^24)⌋ := by
    rw [Int.le_floor]; norm_num
  omega

/-- Sharpness of the hypothesis of `on_grid_float_partial` in the relative-error model: the
    oracle that biases every operation (also `int → float`) by `1 + 2^-24` maps the upper box
    corner to `k = 2^21 > 2^21 - 1` already at `bits = 21`; at `bits = 20` the theorem applies
    (`16·(2^20-1)·2^-24 < 1`). -/
theorem quantized_exceeds_max_witness_21 :
    RoundingModel (biasedAllOps (1/2^24)) (1/2^24) ∧
    (2:Int)^21 - 1 < @quantize ℚ (biasedAllOps (1/2^24)) ⟨[0], 1⟩ 21 0 1 ∧
    16 * ((2:ℚ)^20 - 1) * (1/2^24) ≤ 1 := by
  refine ⟨biasedAllOps_model _ _ (by norm_num [abs_of_pos]), ?_, by norm_num⟩
  have h : @quantize ℚ (biasedAllOps (1/2^24)) ⟨[0], 1⟩ 21 0 1
      = ⌊((((1:ℚ) - 0) * (1 + 1/2^24)) *
            ((((((2:Int)^21 - 1 : Int) : ℚ) * (1 + 1/2^24)) / 1) * (1 + 1/2^24))
            * (1 + 1/2^24) + 1/2) * (1 + 1/2^24)⌋ := rfl
  rw [h]
  have : ((2:Int)^21 : Int) ≤ ⌊((((1:ℚ) - 0) * (1 + 1/2^24)) *
      ((((((2:Int)^21 - 1 : Int) : ℚ) * (1 + 1/2^24)) / 1) * (1 + 1/2^24)) * (1 + 1/2^24) + 1/2)
        * (1 + 1/2^24)⌋ := by
    rw [Int.le_floor]; norm_num
  omega

/-- Grid model (see `DracoProofs.QuantGrid`): every operation is the exact result followed by
    one monotone rounding `rnd` with relative error `u ≤ 2^-24` that leaves the binary32 numbers
    `n/2^j`, `|n| ≤ 2^24`, unchanged.  For a representable range, `x` inside the box and
    `bits ≤ 22` the quantized value satisfies `0 ≤ k ≤ 2^bits-1`, so the decoded value is the
    grid point `dequantize k` of the box.  (`bits = 23` fails on the real library.) -/
theorem on_grid_float_grid (ops : FloatOps ℚ) (rnd : ℚ → ℚ) (u : ℚ) (hu0 : 0 ≤ u)
    (hu : u ≤ 1/2^24) (hg : GridModel ops rnd u) (p : QParams ℚ) (bits c : Nat) (x : ℚ)
    (hq : 1 ≤ bits) (hq22 : bits ≤ 22) (hR : 0 < p.range) (hRrep : rnd p.range = p.range)
    (h1 : @minOf ℚ ops p c ≤ x) (h2 : x ≤ @minOf ℚ ops p c + p.range) :
    ∃ k : Int, 0 ≤ k ∧ k ≤ 2^bits - 1 ∧
      @dequantize ℚ ops p bits c (@quantize ℚ ops p bits c x) = @dequantize ℚ ops p bits c k := by
  obtain ⟨a, b⟩ := grid_quantize_range ops hg hu0 hu p bits c x hq hq22 hR hRrep h1 h2
  exact ⟨_, a, b, rfl⟩

/-- non-vacuity: the exact instance is a grid model (`rnd = id`); 22 bits, origin 1/3 -/
example : ∃ k : Int, 0 ≤ k ∧ k ≤ 2^22 - 1 ∧
    @dequantize ℚ exactOps ⟨[1/3], 7/2⟩ 22 0 (@quantize ℚ exactOps ⟨[1/3], 7/2⟩ 22 0 2)
      = @dequantize ℚ exactOps ⟨[1/3], 7/2⟩ 22 0 k :=
  on_grid_float_grid exactOps id 0 (by norm_num) (by norm_num) exactOps_grid ⟨[1/3], 7/2⟩ 22 0 2
    (by norm_num) (by norm_num) (by show (0:ℚ) < 7/2; norm_num) rfl
    (by show (1/3 : ℚ) ≤ 2; norm_num) (by show (2:ℚ) ≤ 1/3 + 7/2; norm_num)

/-- `EncodeParameters` / `DecodeParameters` round trip (composable form, hence also
    self-delimiting), for every instance whose `float ↔ bits` conversion round-trips. -/
theorem decodeParameters_encodeParameters_roundtrip {F : Type} [FloatOps F]
    (hb : BitsRoundTrip F) (p : QParams F) (q : Nat) (hq1 : 1 ≤ q) (hq2 : q ≤ 30)
    (rest : Bytes) :
    decodeParameters (F := F) p.minValues.length (encodeParameters p q ++ rest)
      = some ((p, q), rest) :=
  decodeParameters_encodeParameters hb p q hq1 hq2 rest

/-- non-vacuity: the bit-pattern instance (`float ↔ bits` is the identity on 32-bit words);
    origin (0.1f, -2.0f), range 0.1f, 23 bits, followed by two more bytes -/
example : @decodeParameters (Fin (2^32)) bitsOps 2
    (@encodeParameters (Fin (2^32)) bitsOps
      ⟨[⟨0x3dcccccd, by decide⟩, ⟨0xc0000000, by decide⟩], ⟨0x3dcccccd, by decide⟩⟩ 23 ++ [7, 9])
    = some ((⟨[⟨0x3dcccccd, by decide⟩, ⟨0xc0000000, by decide⟩], ⟨0x3dcccccd, by decide⟩⟩, 23),
        [7, 9]) :=
  @decodeParameters_encodeParameters_roundtrip (Fin (2^32)) bitsOps bitsOps_roundtrip
    ⟨[⟨0x3dcccccd, by decide⟩, ⟨0xc0000000, by decide⟩], ⟨0x3dcccccd, by decide⟩⟩ 23
    (by decide) (by decide) [7, 9]

/-- Exact arithmetic: every grid point is a fixed point of the codec — re-quantizing the decoded
    value of ANY integer `k` with the same three parameters gives `k` back. (Not claimed for
    float32: there `quantize (dequantize k)` is only tied to the code case by case, by the
    driver op `qattr`.) -/
theorem requantize_grid_point (p : QParams ℚ) (bits c : Nat) (k : Int) (hq : 1 ≤ bits)
    (hR : 0 < p.range) :
    @quantize ℚ exactOps p bits c (@dequantize ℚ exactOps p bits c k) = k := by
  rw [quantize_exact, dequantize_exact]
  have hM : (0:ℚ) < (2:ℚ)^bits - 1 := lt_of_lt_of_le one_pos (maxQ_ge_one hq)
  have e : ((k:ℚ) * (p.range / ((2:ℚ)^bits - 1)) + @minOf ℚ exactOps p c - @minOf ℚ exactOps p c)
      * (((2:ℚ)^bits - 1) / p.range) + 1/2 = (k:ℚ) + 1/2 := by
    field_simp
    ring
  rw [e, Int.floor_intCast_add]
  norm_num

/-- Exact arithmetic: decode ∘ encode is idempotent — a geometry that already went through the
    codec with `(origin, range, bits)` is reproduced exactly when encoded again with the same
    parameters, so a decoded geometry and a fresh one still agree on shared vertices. No box
    hypothesis: holds for coordinates outside `[origin, origin + range]` as well. -/
theorem decode_encode_idempotent (p : QParams ℚ) (bits c : Nat) (x : ℚ) (hq : 1 ≤ bits)
    (hR : 0 < p.range) :
    @dequantize ℚ exactOps p bits c (@quantize ℚ exactOps p bits c
      (@dequantize ℚ exactOps p bits c (@quantize ℚ exactOps p bits c x)))
      = @dequantize ℚ exactOps p bits c (@quantize ℚ exactOps p bits c x) := by
  rw [requantize_grid_point p bits c _ hq hR]

/-- non-vacuity: origin 1/3, range 7/2, 5 bits, k = 17 -/
example : @quantize ℚ exactOps ⟨[1/3], 7/2⟩ 5 0 (@dequantize ℚ exactOps ⟨[1/3], 7/2⟩ 5 0 17) = 17 :=
  requantize_grid_point ⟨[1/3], 7/2⟩ 5 0 17 (by norm_num) (by show (0:ℚ) < 7/2; norm_num)

end Quant
end Draco
