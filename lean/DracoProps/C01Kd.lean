import DracoProofs.KdTreeSize
import DracoProofs.KdTreeValid
import Generated.FastDivTab
/-
  C01 for the kd-tree point cloud coder — staging file of the kd-tree slice, to be merged into
  DracoProps/C01.lean.  "… decoding the produced bytes also succeeds and returns … the same
  multiset of … points.  The only permitted differences are the order of … points (… kd-tree …)".

  Scope: `DynamicIntegerPointsKdTreeEncoder<level>::EncodePoints` /
  `DynamicIntegerPointsKdTreeDecoder<level>::DecodePoints` (levels 0..6) as modelled in
  DracoModel/KdTreeEnc.lean and DracoModel/KdTree.lean, including the four bit coders of the
  policy (`DirectBit…`, `RAnsBit…`, `FoldedBit32…<RAnsBit…>`).  The attribute layer around it
  (`KdTreeAttributesEncoder/Decoder`: quantization, signed offsets, component layout) is tied to
  the C++ by correspondence only (tools/props/kdcases.py).

  Property theorems only; helper lemmas live in DracoProofs/KdTree*.lean, TreeStack.lean.
-/
namespace Draco.C01Kd
open Draco

/-- **kd-tree round trip, any `std::partition`.**  For every compression level, whatever order
    `std::partition` leaves the points in (`Kd.PartSpec` is the contract of the standard) and
    whatever the floating point expression `zero_prob_raw` of the rANS bit encoder evaluates to:
    `DecodePoints` on the bytes written by `EncodePoints`, followed by arbitrary bytes, succeeds,
    reports `num_decoded_points() = n`, stops exactly behind the encoder's bytes and writes a
    permutation of the encoded points to the output iterator.
    Hypotheses = the callers' contract: every point has `dim ≥ 1` coordinates below
    `2^bit_length`, `bit_length ≤ 32`, at most 16 dimensions at level 6 (the axis is coded with
    4 bits; `KdTreeAttributesEncoder` falls back to level 5 beyond 15), the iterator accepts
    `n` points; and a size bound that keeps the 32-bit size prefixes of the coded blocks from
    overflowing. -/
theorem kdtree_points_roundtrip_any_partition (part : Kd.Partition) (hpart : Kd.PartSpec part)
    (zeroProbRaw : Nat → Nat → Nat) (level dim bitLength maxPoints : Nat)
    (pts : List (List Nat)) (rest : Bytes) (s : DSt)
    (hdim : 1 ≤ dim) (hbl : bitLength ≤ 32) (hsel : level = 6 → dim ≤ 16)
    (hpts : ∀ p ∈ pts, p.length = dim ∧ ∀ i, i < dim → p.getD i 0 < 2^bitLength)
    (hmax : pts.length ≤ maxPoints)
    (hsz : 32 * ((2 * dim + 3) * (pts.length * (bitLength * dim + 1) + 1)) + 3 < 2^32)
    (hs : s.rest = Kd.encodePoints part Generated.fastdivTab zeroProbRaw level dim bitLength pts ++ rest) :
    ∃ pts' s', Kd.decodePoints level dim maxPoints s = (some (pts.length, pts'), s') ∧
      s'.rest = rest ∧ pts'.Perm pts :=
  Kd.decodePoints_encodePoints_bounded part hpart Generated.fastdivTab divOK_generated zeroProbRaw
    level dim bitLength maxPoints pts rest s hdim hbl hsel hpts hmax hsz hs

/-- the partition algorithm of libstdc++ (the one the executable encoder model uses, tied to
    the real encoder byte for byte by the `kdrt` correspondence cases) satisfies the contract -/
theorem kdtree_std_partition_spec : Kd.PartSpec Kd.stdPartition := Kd.partSpec_std

example : (Kd.stdPartition (fun p => p.getD 0 0 < 2) [[3], [1], [2], [0]]) = ([[0], [1]], [[2], [3]]) := by
  decide

/-- **kd-tree round trip** for the executable encoder model -/
theorem kdtree_points_roundtrip (zeroProbRaw : Nat → Nat → Nat) (level dim bitLength maxPoints : Nat)
    (pts : List (List Nat)) (rest : Bytes) (s : DSt)
    (hdim : 1 ≤ dim) (hbl : bitLength ≤ 32) (hsel : level = 6 → dim ≤ 16)
    (hpts : ∀ p ∈ pts, p.length = dim ∧ ∀ i, i < dim → p.getD i 0 < 2^bitLength)
    (hmax : pts.length ≤ maxPoints)
    (hsz : 32 * ((2 * dim + 3) * (pts.length * (bitLength * dim + 1) + 1)) + 3 < 2^32)
    (hs : s.rest = Kd.encodePoints Kd.stdPartition Generated.fastdivTab zeroProbRaw level dim bitLength pts ++ rest) :
    ∃ pts' s', Kd.decodePoints level dim maxPoints s = (some (pts.length, pts'), s') ∧
      s'.rest = rest ∧ pts'.Perm pts :=
  kdtree_points_roundtrip_any_partition Kd.stdPartition Kd.partSpec_std zeroProbRaw level dim bitLength
    maxPoints pts rest s hdim hbl hsel hpts hmax hsz hs

/-- non-vacuity: four 2-d points with 2-bit coordinates, level 6, trailing byte 7 -/
example : ∃ pts' s', Kd.decodePoints 6 2 4
      { rest := Kd.encodePoints Kd.stdPartition Generated.fastdivTab (fun _ _ => 128) 6 2 2
          [[1, 2], [3, 0], [2, 2], [0, 1]] ++ [7] } = (some (4, pts'), s') ∧
      s'.rest = [7] ∧ pts'.Perm [[1, 2], [3, 0], [2, 2], [0, 1]] :=
  kdtree_points_roundtrip (fun _ _ => 128) 6 2 2 4 [[1, 2], [3, 0], [2, 2], [0, 1]] [7] _
    (by decide) (by decide) (by decide) (by decide) (by decide) (by decide) rfl

/-- **the explicit stack of `DecodeInternal` = recursion on the tree**, on every input (valid
    or not): `Kd.decodeInternal` is the `while (!status_stack.empty())` loop, `Kd.tree` descends
    into the second half, then the first half -/
theorem kdtree_decoder_stack_eq_recursive {σ : Type} (S : Kd.Src σ) (P : Kd.Params) (s : σ) (d : Nat)
    (hd : Kd.runFuel P ≤ d) :
    Kd.decodeInternal S P s =
      Kd.tree S P d ⟨P.numPoints, 0, List.replicate P.dim 0, List.replicate P.dim 0⟩ ⟨s, 0⟩ :=
  Kd.decodeInternal_eq_tree S P s d hd

example : Kd.runFuel ⟨3, 10, false, 100⟩ ≤ 3101 := by decide

/-- **the explicit stack of `EncodeInternal` = recursion on the tree**, and the recursion
    never fails -/
theorem kdtree_encoder_stack_eq_recursive (part : Kd.Partition) (hpart : Kd.PartSpec part)
    (P : Kd.Params) (hdim : 1 ≤ P.dim) (pts : List (List Nat)) (hne : pts ≠ []) :
    TreeStack.tree (Kd.encNode part P) (Kd.encFuel P pts.length)
      ⟨pts, 0, List.replicate P.dim 0, List.replicate P.dim 0⟩ () =
        some (Kd.encodeInternal part P pts, ()) :=
  Kd.encodeInternal_eq_tree part hpart P hdim pts hne

example : (1 : Nat) ≤ (⟨3, 10, false, 100⟩ : Kd.Params).dim ∧ ([[1, 2, 3]] : List (List Nat)) ≠ [] := by
  decide

/-- **the tree coding itself**, for any four bit decoders that deliver what the bit encoders
    were given (`Kd.SrcSpec`; `Kd.coders_spec` instantiates it with the policies' coders):
    the recursive decoder run against the calls `evs` the recursive encoder made on a box of
    points returns a permutation of the points, consumes exactly those calls and counts the
    points.  (Axis selection agreement, `DecodeNumber`/`EncodeNumber`, the half swap, the fast
    path for 1 or 2 points and the "no axis left" case are the cases of its proof.) -/
theorem kdtree_tree_roundtrip {σ : Type} {S : Kd.Src σ} {Del : σ → List Kd.Ev → Prop}
    (hS : Kd.SrcSpec S Del) (part : Kd.Partition) (hpart : Kd.PartSpec part) (P : Kd.Params)
    (hbl : P.bitLength ≤ 32) (hdim : 1 ≤ P.dim) (hsel : P.selectAxis = true → P.dim ≤ 16)
    (hnp : P.numPoints < 2^32) (d : Nat) (ef : Kd.EFrame) (evs : List Kd.Ev)
    (hbox : Kd.Box P ef.base ef.levels) (hin : ∀ p ∈ ef.pts, Kd.InBox P ef.base ef.levels p)
    (hax : Kd.AxisInv P ef.lastAxis ef.levels) (hne : ef.pts ≠ [])
    (henc : TreeStack.tree (Kd.encNode part P) d ef () = some (evs, ()))
    (st : Kd.St σ) (more : List Kd.Ev) (hdel : Del st.src (evs ++ more))
    (hcnt : st.decoded + ef.pts.length ≤ P.numPoints) :
    ∃ pts' st', Kd.tree S P d ⟨ef.pts.length, ef.lastAxis, ef.base, ef.levels⟩ st = some (pts', st') ∧
      pts'.Perm ef.pts ∧ Del st'.src more ∧ st'.decoded = st.decoded + ef.pts.length :=
  Kd.tree_roundtrip hS part hpart P hbl hdim hsel hnp d ef evs hbox hin hax hne henc st more hdel hcnt

/-- non-vacuity of the hypotheses on the coders: the policies' decoders satisfy `SrcSpec` -/
example : Kd.SrcSpec (Kd.coders false) Kd.DelCoders := Kd.coders_spec

/-- **the encoder respects the contracts of the bit encoders** (`DRACO_DCHECK`s:
    `0 < nbits ≤ 32`, `uint32_t` values) on every call -/
theorem kdtree_encoder_calls_valid (part : Kd.Partition) (hpart : Kd.PartSpec part) (P : Kd.Params)
    (hbl : P.bitLength ≤ 32) (hdim : 1 ≤ P.dim) (hd32 : P.dim < 2^32) (pts : List (List Nat))
    (hne : pts ≠ []) (hn : pts.length < 2^32)
    (hpts : ∀ p ∈ pts, Kd.InBox P (List.replicate P.dim 0) (List.replicate P.dim 0) p) :
    ∀ e ∈ Kd.encodeInternal part P pts, e.2.Valid :=
  Kd.enc_events_valid part hpart P hbl hdim hd32 _ _ _ (Kd.box_root P) hpts (by simp only; omega) hne hn
    (Kd.encodeInternal_eq_tree part hpart P hdim pts hne)

example : Kd.InBox ⟨2, 3, false, 1⟩ (List.replicate 2 0) (List.replicate 2 0) [7, 5] := by
  refine ⟨rfl, ?_⟩
  decide

/-! ### C03 (staging): the kd-tree decoder model returns only valid geometries -/

/-- **C03 on the kd-tree path.**  Whenever the model of `PointCloudKdTreeDecoder`
    (`DecodeGeometryData` + `DecodePointAttributes` with `KdTreeAttributesDecoder`s, bitstream 2.3)
    reports success — on any byte string and for any skip options — the geometry is
    structurally valid: every attribute has at least one component, a known data type, an
    identity map with `num_points` values and a buffer of exactly
    `num_points · stride` bytes. -/
theorem kdtree_decoded_geometry_valid (opts : DecOpts) (s s' : DSt) (g : Geometry)
    (h : Kd.decodeKdGeometry opts s = (some g, s')) : g.valid = true :=
  Kd.decodeKdGeometry_valid opts s s' g h

/-- non-vacuity: a 3-point cloud without attribute decoders is accepted (streams with
    attributes are exercised by the correspondence cases) -/
example : (Kd.decodeKdGeometry {} { rest := [3, 0, 0, 0, 0], version := 515 }).1 =
    some { isMesh := false, numPoints := 3, faces := [], atts := [] } := by
  decide

end Draco.C01Kd
