import DracoProofs.KdTreeSize
import DracoProofs.KdTreeValid
import DracoProofs.KdEncTuples
import DracoProofs.KdSpecDecoded
import Generated.FastDivTab
/-
  C01 for the kd-tree point cloud coder — staging file of the kd-tree slice, to be merged into
  DracoProps/C01.lean.  "… decoding the produced bytes also succeeds and returns … the same
  multiset of … points.  The only permitted differences are the order of … points (… kd-tree …)".

  Scope: `DynamicIntegerPointsKdTreeEncoder<level>::EncodePoints` /
  `DynamicIntegerPointsKdTreeDecoder<level>::DecodePoints` (levels 0..6) as modelled in
  DracoModel/KdTreeEnc.lean and DracoModel/KdTree.lean, including the four bit coders of the
  policy (`DirectBit…`, `RAnsBit…`, `FoldedBit32…<RAnsBit…>`).  The attribute layer around it
  (`KdTreeAttributesEncoder/Decoder`: quantization, signed offsets, component layout) is tied to
  the C++ by correspondence only (tools/props/kdcases.py).

  Property theorems only; helper lemmas live in DracoProofs/KdTree*.lean, TreeStack.lean.
-/
namespace Draco.C01Kd
open Draco

/-- **kd-tree round trip, any `std::partition`.**  For every compression level, whatever order
    `std::partition` leaves the points in (`Kd.PartSpec` is the contract of the standard) and
    whatever the floating point expression `zero_prob_raw` of the rANS bit encoder evaluates to:
    `DecodePoints` on the bytes written by `EncodePoints`, followed by arbitrary bytes, succeeds,
    reports `num_decoded_points() = n`, stops exactly behind the encoder's bytes and writes a
    permutation of the encoded points to the output iterator.
    Hypotheses = the callers' contract: every point has `dim ≥ 1` coordinates below
    `2^bit_length`, `bit_length ≤ 32`, at most 16 dimensions at level 6 (the axis is coded with
    4 bits; `KdTreeAttributesEncoder` falls back to level 5 beyond 15), the iterator accepts
    `n` points; and a size bound that keeps the 32-bit size prefixes of the coded blocks from
    overflowing. -/
theorem kdtree_points_roundtrip_any_partition (part : Kd.Partition) (hpart : Kd.PartSpec part)
    (zeroProbRaw : Nat → Nat → Nat) (level dim bitLength maxPoints : Nat)
    (pts : List (List Nat)) (rest : Bytes) (s : DSt)
    (hdim : 1 ≤ dim) (hbl : bitLength ≤ 32) (hsel : level = 6 → dim ≤ 16)
    (hpts : ∀ p ∈ pts, p.length = dim ∧ ∀ i, i < dim → p.getD i 0 < 2^bitLength)
    (hmax : pts.length ≤ maxPoints)
    (hsz : 32 * ((2 * dim + 3) * (pts.length * (bitLength * dim + 1) + 1)) + 3 < 2^32)
    (hs : s.rest = Kd.encodePoints part Generated.fastdivTab zeroProbRaw level dim bitLength pts ++ rest) :
    ∃ pts' s', Kd.decodePoints level dim maxPoints s = (some (pts.length, pts'), s') ∧
      s'.rest = rest ∧ pts'.Perm pts :=
  Kd.decodePoints_encodePoints_bounded part hpart Generated.fastdivTab divOK_generated zeroProbRaw
    level dim bitLength maxPoints pts rest s hdim hbl hsel hpts hmax hsz hs

/-- the partition algorithm of libstdc++ (the one the executable encoder model uses, tied to
    the real encoder byte for byte by the `kdrt` correspondence cases) satisfies the contract -/
theorem kdtree_std_partition_spec : Kd.PartSpec Kd.stdPartition := Kd.partSpec_std

example : (Kd.stdPartition (fun p => p.getD 0 0 < 2) [[3], [1], [2], [0]]) = ([[0], [1]], [[2], [3]]) := by
  decide

/-- **kd-tree round trip** for the executable encoder model -/
theorem kdtree_points_roundtrip (zeroProbRaw : Nat → Nat → Nat) (level dim bitLength maxPoints : Nat)
    (pts : List (List Nat)) (rest : Bytes) (s : DSt)
    (hdim : 1 ≤ dim) (hbl : bitLength ≤ 32) (hsel : level = 6 → dim ≤ 16)
    (hpts : ∀ p ∈ pts, p.length = dim ∧ ∀ i, i < dim → p.getD i 0 < 2^bitLength)
    (hmax : pts.length ≤ maxPoints)
    (hsz : 32 * ((2 * dim + 3) * (pts.length * (bitLength * dim + 1) + 1)) + 3 < 2^32)
    (hs : s.rest = Kd.encodePoints Kd.stdPartition Generated.fastdivTab zeroProbRaw level dim bitLength pts ++ rest) :
    ∃ pts' s', Kd.decodePoints level dim maxPoints s = (some (pts.length, pts'), s') ∧
      s'.rest = rest ∧ pts'.Perm pts :=
  kdtree_points_roundtrip_any_partition Kd.stdPartition Kd.partSpec_std zeroProbRaw level dim bitLength
    maxPoints pts rest s hdim hbl hsel hpts hmax hsz hs

/-- non-vacuity: four 2-d points with 2-bit coordinates, level 6, trailing byte 7 -/
example : ∃ pts' s', Kd.decodePoints 6 2 4
      { rest := Kd.encodePoints Kd.stdPartition Generated.fastdivTab (fun _ _ => 128) 6 2 2
          [[1, 2], [3, 0], [2, 2], [0, 1]] ++ [7] } = (some (4, pts'), s') ∧
      s'.rest = [7] ∧ pts'.Perm [[1, 2], [3, 0], [2, 2], [0, 1]] :=
  kdtree_points_roundtrip (fun _ _ => 128) 6 2 2 4 [[1, 2], [3, 0], [2, 2], [0, 1]] [7] _
    (by decide) (by decide) (by decide) (by decide) (by decide) (by decide) rfl

/-- **the explicit stack of `DecodeInternal` = recursion on the tree**, on every input (valid
    or not): `Kd.decodeInternal` is the `while (!status_stack.empty())` loop, `Kd.tree` descends
    into the second half, then the first half -/
theorem kdtree_decoder_stack_eq_recursive {σ : Type} (S : Kd.Src σ) (P : Kd.Params) (s : σ) (d : Nat)
    (hd : Kd.runFuel P ≤ d) :
    Kd.decodeInternal S P s =
      Kd.tree S P d ⟨P.numPoints, 0, List.replicate P.dim 0, List.replicate P.dim 0⟩ ⟨s, 0⟩ :=
  Kd.decodeInternal_eq_tree S P s d hd

example : Kd.runFuel ⟨3, 10, false, 100⟩ ≤ 3101 := by decide

/-- **the explicit stack of `EncodeInternal` = recursion on the tree**, and the recursion
    never fails -/
theorem kdtree_encoder_stack_eq_recursive (part : Kd.Partition) (hpart : Kd.PartSpec part)
    (P : Kd.Params) (hdim : 1 ≤ P.dim) (pts : List (List Nat)) (hne : pts ≠ []) :
    TreeStack.tree (Kd.encNode part P) (Kd.encFuel P pts.length)
      ⟨pts, 0, List.replicate P.dim 0, List.replicate P.dim 0⟩ () =
        some (Kd.encodeInternal part P pts, ()) :=
  Kd.encodeInternal_eq_tree part hpart P hdim pts hne

example : (1 : Nat) ≤ (⟨3, 10, false, 100⟩ : Kd.Params).dim ∧ ([[1, 2, 3]] : List (List Nat)) ≠ [] := by
  decide

/-- **the tree coding itself**, for any four bit decoders that deliver what the bit encoders
    were given (`Kd.SrcSpec`; `Kd.coders_spec` instantiates it with the policies' coders):
    the recursive decoder run against the calls `evs` the recursive encoder made on a box of
    points returns a permutation of the points, consumes exactly those calls and counts the
    points.  (Axis selection agreement, `DecodeNumber`/`EncodeNumber`, the half swap, the fast
    path for 1 or 2 points and the "no axis left" case are the cases of its proof.) -/
theorem kdtree_tree_roundtrip {σ : Type} {S : Kd.Src σ} {Del : σ → List Kd.Ev → Prop}
    (hS : Kd.SrcSpec S Del) (part : Kd.Partition) (hpart : Kd.PartSpec part) (P : Kd.Params)
    (hbl : P.bitLength ≤ 32) (hdim : 1 ≤ P.dim) (hsel : P.selectAxis = true → P.dim ≤ 16)
    (hnp : P.numPoints < 2^32) (d : Nat) (ef : Kd.EFrame) (evs : List Kd.Ev)
    (hbox : Kd.Box P ef.base ef.levels) (hin : ∀ p ∈ ef.pts, Kd.InBox P ef.base ef.levels p)
    (hax : Kd.AxisInv P ef.lastAxis ef.levels) (hne : ef.pts ≠ [])
    (henc : TreeStack.tree (Kd.encNode part P) d ef () = some (evs, ()))
    (st : Kd.St σ) (more : List Kd.Ev) (hdel : Del st.src (evs ++ more))
    (hcnt : st.decoded + ef.pts.length ≤ P.numPoints) :
    ∃ pts' st', Kd.tree S P d ⟨ef.pts.length, ef.lastAxis, ef.base, ef.levels⟩ st = some (pts', st') ∧
      pts'.Perm ef.pts ∧ Del st'.src more ∧ st'.decoded = st.decoded + ef.pts.length :=
  Kd.tree_roundtrip hS part hpart P hbl hdim hsel hnp d ef evs hbox hin hax hne henc st more hdel hcnt

/-- non-vacuity of the hypotheses on the coders: the policies' decoders satisfy `SrcSpec` -/
example : Kd.SrcSpec (Kd.coders false) Kd.DelCoders := Kd.coders_spec

/-- **the encoder respects the contracts of the bit encoders** (`DRACO_DCHECK`s:
    `0 < nbits ≤ 32`, `uint32_t` values) on every call -/
theorem kdtree_encoder_calls_valid (part : Kd.Partition) (hpart : Kd.PartSpec part) (P : Kd.Params)
    (hbl : P.bitLength ≤ 32) (hdim : 1 ≤ P.dim) (hd32 : P.dim < 2^32) (pts : List (List Nat))
    (hne : pts ≠ []) (hn : pts.length < 2^32)
    (hpts : ∀ p ∈ pts, Kd.InBox P (List.replicate P.dim 0) (List.replicate P.dim 0) p) :
    ∀ e ∈ Kd.encodeInternal part P pts, e.2.Valid :=
  Kd.enc_events_valid part hpart P hbl hdim hd32 _ _ _ (Kd.box_root P) hpts (by simp only; omega) hne hn
    (Kd.encodeInternal_eq_tree part hpart P hdim pts hne)

example : Kd.InBox ⟨2, 3, false, 1⟩ (List.replicate 2 0) (List.replicate 2 0) [7, 5] := by
  refine ⟨rfl, ?_⟩
  decide

/-! ### C03 (staging): the kd-tree decoder model returns only valid geometries -/

/-- **C03 on the kd-tree path.**  Whenever the model of `PointCloudKdTreeDecoder`
    (`DecodeGeometryData` + `DecodePointAttributes` with `KdTreeAttributesDecoder`s, bitstream 2.3)
    reports success — on any byte string and for any skip options — the geometry is
    structurally valid: every attribute has at least one component, a known data type, an
    identity map with `num_points` values and a buffer of exactly
    `num_points · stride` bytes. -/
theorem kdtree_decoded_geometry_valid (opts : DecOpts) (s s' : DSt) (g : Geometry)
    (h : Kd.decodeKdGeometry opts s = (some g, s')) : g.valid = true :=
  Kd.decodeKdGeometry_valid opts s s' g h

/-- non-vacuity: a 3-point cloud without attribute decoders is accepted (streams with
    attributes are exercised by the correspondence cases) -/
example : (Kd.decodeKdGeometry {} { rest := [3, 0, 0, 0, 0], version := 515 }).1 =
    some { isMesh := false, numPoints := 3, faces := [], atts := [] } := by
  decide

/-! ### C01 for `POINT_CLOUD_KD_TREE_ENCODING`, composed -/

open KdEnc in
/-- **C01 for `POINT_CLOUD_KD_TREE_ENCODING`** (and C06 trailing bytes, C20 self-delimitation).
    For every point cloud in the domain `KdEnc.GeomOK`, ALL options (speed / compression level 0..6,
    quantization bits, explicit quantization), every `std::partition` order allowed by the standard
    and every rounding of the rANS probability (`Choices`): if the encoder model
    (`KdEnc.encodeGeometryKd`: header, metadata, `PointCloudKdTreeEncoder`, `KdTreeAttributesEncoder`,
    `DynamicIntegerPointsKdTreeEncoder`; tied to the C++ byte for byte by the driver op `kdattrenc`)
    produces a stream, the complete decoder model `decodeGeometry` (tied to the C++ decoders token
    for token) applied to that stream followed by arbitrary bytes `extra` succeeds, returns the
    metadata, leaves exactly `extra` unread, and its geometry equals `expectedKd g opts` up to the
    order of the points: same kind, number of points, attribute descriptors and unique ids, identity
    point maps, and the same MULTISET of per-point value tuples.  `expectedKd g opts` is the input
    with every point map resolved, integer attributes bit-identical (`kd_expected_identity`) and float
    attributes replaced by `dequantize (quantize x)` — the same float-oracle expressions the encoder
    and the decoder evaluate, so no floating point reasoning is involved.

    Hypotheses (`KdEnc.GeomOK` / `KdEnc.AttOK`): a point cloud with 0 < numPoints < 2^31 (EMPTY clouds
    crash the kd-tree encoder: known finding `empty-geometry`), fewer than 2^32 attributes, every
    attribute structurally valid (C03) with byte values, attribute type < 5, ≤ 255 components,
    unique id < 2^32, explicitly configured quantization parameters are float32 bit patterns, and
    the coarse size bound that keeps the 32-bit block size prefixes from overflowing.
    NOT hypotheses: attribute data types (unsupported ones make the encoder fail), values (all
    int8..uint32 values incl. ranges ≥ 2^31, all floats the quantizer accepts), speeds (above 10
    the encoder fails), quantization bits (invalid ones make the encoder fail). -/
theorem pointcloud_kd_roundtrip (ch : Choices) (hpart : Kd.PartSpec ch.part) (g : Geometry)
    (md : Option GeometryMetadata) (opts : SeqEnc.EncOpts) (bs : Bytes)
    (hok : KdEnc.GeomOK g opts) (hmd : ∀ m, md = some m → m.WF')
    (henc : encodeGeometryKd ch g md opts = some bs) (extra : Bytes) :
    ∃ g' st, decodeGeometry {} { rest := bs ++ extra } = (some ⟨g', md⟩, st) ∧ st.rest = extra ∧
      SameUpToPointOrder g' (expectedKd g opts) :=
  kd_roundtrip ch hpart g md opts bs hok hmd henc extra

open KdEnc in
/-- the same with the encoder states exposed: the decoder's geometry is assembled
    (`geometryOfPoints`: literally the decoder's final expression) from a permutation `pts'` of the
    encoder's point vector, and the point vector in its original order gives `expectedKd g opts` -/
theorem pointcloud_kd_roundtrip_full (ch : Choices) (hpart : Kd.PartSpec ch.part) (g : Geometry)
    (md : Option GeometryMetadata) (opts : SeqEnc.EncOpts) (bs : Bytes) (encs : List AttEnc)
    (hok : KdEnc.GeomOK g opts) (hmd : ∀ m, md = some m → m.WF')
    (henc : encodeGeometryKdFull ch g md opts = some (bs, encs)) (extra : Bytes) :
    ∃ pts' st, decodeGeometry {} { rest := bs ++ extra } =
        (some ⟨geometryOfPoints g.numPoints encs pts', md⟩, st) ∧ st.rest = extra ∧
      pts'.Perm (pointVector g.numPoints encs) ∧
      geometryOfPoints g.numPoints encs (pointVector g.numPoints encs) = expectedKd g opts :=
  kd_roundtrip_full ch hpart g md opts bs encs hok hmd henc extra

open KdEnc in
/-- an integer attribute comes back bit for bit: its expected image is the value of every point,
    in point order (only the order of the points is not preserved by the decoder) -/
theorem kd_expected_identity (opts : SeqEnc.EncOpts) (n i : Nat) (a : Attribute)
    (h : a.dataType ≠ Generated.DT_FLOAT32.toNat) :
    expectedAttributeOf opts n i a = (SeqEnc.descOf a).toAttribute n (SeqEnc.pointRows a n).flatten := by
  unfold expectedAttributeOf
  simp only [h, if_false]

example : KdEnc.expectedAttributeOf {} 2 0
    { attType := 4, dataType := 3, numComponents := 1, normalized := false, uniqueId := 0,
      numValues := 2, map := none, values := [255, 255, 5, 0] } =
    { attType := 4, dataType := 3, numComponents := 1, normalized := false, uniqueId := 0,
      numValues := 2, map := none, values := [255, 255, 5, 0] } :=
  (kd_expected_identity {} 2 0 _ (by decide)).trans (by decide +kernel)

/-! #### non-vacuity of the composed theorem -/

/-- 3 points, a signed int16 attribute with two components and an explicit point map, and a uint8
    attribute; speed 10 = compression level 0 -/
def sampleKdPC : Geometry :=
  { isMesh := false, numPoints := 3, faces := [],
    atts := [
      { attType := 0, dataType := 3, numComponents := 2, normalized := false, uniqueId := 5,
        numValues := 2, map := some [1, 0, 1], values := [255, 255, 5, 0, 0, 128, 7, 0] },
      { attType := 2, dataType := 2, numComponents := 1, normalized := true, uniqueId := 1,
        numValues := 3, map := none, values := [9, 200, 9] } ] }

def sampleKdOpts : SeqEnc.EncOpts := { speed := 10 }

def sampleKdChoices : KdEnc.Choices := ⟨Kd.stdPartition, fun _ _ => 128⟩

theorem sampleKdPC_ok : KdEnc.GeomOK sampleKdPC sampleKdOpts := by
  refine ⟨rfl, by decide, by decide, by decide, ?_, by decide⟩
  intro i a h
  match i, h with
  | 0, h =>
    simp only [sampleKdPC, List.getElem?_cons_zero, Option.some.injEq] at h
    subst h
    exact ⟨by decide, fun b hb => by revert b; decide, by decide, by decide, by decide,
      fun org r h => by cases h⟩
  | 1, h =>
    simp only [sampleKdPC, List.getElem?_cons_succ, List.getElem?_cons_zero, Option.some.injEq] at h
    subst h
    exact ⟨by decide, fun b hb => by revert b; decide, by decide, by decide, by decide,
      fun org r h => by cases h⟩
  | i + 2, h => simp [sampleKdPC] at h

theorem sampleKdPC_encodes : ∃ bs, KdEnc.encodeGeometryKd sampleKdChoices sampleKdPC none sampleKdOpts = some bs := by
  have : (KdEnc.encodeGeometryKd sampleKdChoices sampleKdPC none sampleKdOpts).isSome = true := by decide +kernel
  exact Option.isSome_iff_exists.1 this

example : ∃ bs g' st, KdEnc.encodeGeometryKd sampleKdChoices sampleKdPC none sampleKdOpts = some bs ∧
    decodeGeometry {} { rest := bs ++ [1, 2, 3] } = (some ⟨g', none⟩, st) ∧ st.rest = [1, 2, 3] ∧
    KdEnc.SameUpToPointOrder g' (KdEnc.expectedKd sampleKdPC sampleKdOpts) := by
  obtain ⟨bs, hbs⟩ := sampleKdPC_encodes
  obtain ⟨g', st, h1, h2, h3⟩ := pointcloud_kd_roundtrip sampleKdChoices Kd.partSpec_std sampleKdPC none
    sampleKdOpts bs sampleKdPC_ok (fun m h => by cases h) hbs [1, 2, 3]
  exact ⟨bs, g', st, hbs, h1, h2, h3⟩

/-- … and what is expected back is the input with the point map resolved -/
example : (KdEnc.expectedKd sampleKdPC sampleKdOpts).atts.map (·.values) =
    [[0, 128, 7, 0, 255, 255, 5, 0, 0, 128, 7, 0], [9, 200, 9]] := by decide +kernel

/-! ### the executable specification RoundTripOK accepts the kd-tree round trip -/

open KdEnc in
/-- **RoundTripOK accepts `expectedKd g opts` up to the order of the points** (kd-tree class):
    `Spec.check .kdTree` — the very function the checks evaluate on the implementation's outputs —
    answers "ok" on the input `g`, ANY geometry `g'` that is `SameUpToPointOrder` to `expectedKd g opts`
    (what `pointcloud_kd_roundtrip` proves of the decoder's result) and any geometry `gs` whose
    attributes carry the transform data the stream declares (`DeclaresKd`: what the decode with
    every transform skipped returns, `pointcloud_kd_allskipped_declares`), with the quantization
    request of the options (`quantReqKd`: every float attribute with its `quantization_bits`).
    Hypothesis beyond the domain of the round trip: distinct unique ids (matching is by id; the check
    answers `skip` otherwise). -/
theorem spec_accepts_expected_kd (ch : Choices) (g : Geometry) (md : Option GeometryMetadata)
    (opts : SeqEnc.EncOpts) (bs : Bytes) (hok : KdEnc.GeomOK g opts)
    (hnd : (g.atts.map (·.uniqueId)).Nodup)
    (henc : encodeGeometryKd ch g md opts = some bs) (g' gs : Geometry)
    (hsame : SameUpToPointOrder g' (expectedKd g opts)) (hdecl : DeclaresKd g opts gs) :
    Spec.check .kdTree (quantReqKd g opts) g g' gs = "ok" := by
  obtain ⟨encs, hf⟩ := encodeGeometryKd_full ch g md opts bs henc
  exact (check_ok_iff _ _ _ _ _).2 (checkCore_kd g opts g' gs hok hnd
    (encodeAttribute_of_full ch g md opts bs encs hf) hsame hdecl)

open KdEnc in
/-- the decode of the encoder's stream with every attribute transform skipped succeeds, leaves
    exactly `extra` unread and declares, attribute by attribute, the transform data of
    `declaredTransformKd`: the quantization parameters of `quantizationParams` for float attributes,
    nothing for integer attributes -/
theorem pointcloud_kd_allskipped_declares (ch : Choices) (hpart : Kd.PartSpec ch.part) (g : Geometry)
    (md : Option GeometryMetadata) (opts : SeqEnc.EncOpts) (bs : Bytes)
    (hok : KdEnc.GeomOK g opts) (hmd : ∀ m, md = some m → m.WF')
    (henc : encodeGeometryKd ch g md opts = some bs) (extra : Bytes) :
    ∃ gs st, decodeGeometry { skip := SeqEnc.allTypes } { rest := bs ++ extra } = (some ⟨gs, md⟩, st) ∧
      st.rest = extra ∧ DeclaresKd g opts gs :=
  kd_allskipped_declares ch hpart g md opts bs hok hmd henc extra

open KdEnc in
/-- **The corollary the checks rely on**: for a stream produced by the kd-tree encoder model the
    ordinary decode and the all-transforms-skipped decode (both of the stream followed by arbitrary
    bytes) exist, and the executable specification RoundTripOK accepts them. -/
theorem kd_roundtrip_ok (ch : Choices) (hpart : Kd.PartSpec ch.part) (g : Geometry)
    (md : Option GeometryMetadata) (opts : SeqEnc.EncOpts) (bs : Bytes)
    (hok : KdEnc.GeomOK g opts) (hmd : ∀ m, md = some m → m.WF')
    (hnd : (g.atts.map (·.uniqueId)).Nodup)
    (henc : encodeGeometryKd ch g md opts = some bs) (extra : Bytes) :
    ∃ r rs st st',
      decodeGeometry {} { rest := bs ++ extra } = (some r, st) ∧
      decodeGeometry { skip := SeqEnc.allTypes } { rest := bs ++ extra } = (some rs, st') ∧
      Spec.check .kdTree (quantReqKd g opts) g r.geometry rs.geometry = "ok" := by
  obtain ⟨g', st, h1, _, h3⟩ := kd_roundtrip ch hpart g md opts bs hok hmd henc extra
  obtain ⟨gs, st', k1, _, k3⟩ := kd_allskipped_declares ch hpart g md opts bs hok hmd henc extra
  exact ⟨_, _, st, st', h1, k1, spec_accepts_expected_kd ch g md opts bs hok hnd henc g' gs h3 k3⟩

/-- non-vacuity on `sampleKdPC` -/
example : ∃ bs r rs st st', KdEnc.encodeGeometryKd sampleKdChoices sampleKdPC none sampleKdOpts = some bs ∧
    decodeGeometry {} { rest := bs ++ [1] } = (some r, st) ∧
    decodeGeometry { skip := SeqEnc.allTypes } { rest := bs ++ [1] } = (some rs, st') ∧
    Spec.check .kdTree (KdEnc.quantReqKd sampleKdPC sampleKdOpts) sampleKdPC r.geometry rs.geometry = "ok" := by
  obtain ⟨bs, hbs⟩ := sampleKdPC_encodes
  obtain ⟨r, rs, st, st', h1, h2, h3⟩ := kd_roundtrip_ok sampleKdChoices Kd.partSpec_std sampleKdPC none
    sampleKdOpts bs sampleKdPC_ok (fun m h => by cases h) (by decide) hbs [1]
  exact ⟨bs, r, rs, st, st', hbs, h1, h2, h3⟩

/-- … and the specification is not trivially "ok": it rejects a decode that lost a point -/
example : Spec.check .kdTree [] sampleKdPC
    { KdEnc.expectedKd sampleKdPC sampleKdOpts with numPoints := 2 }
    (KdEnc.expectedKd sampleKdPC sampleKdOpts) ≠ "ok" := by
  intro h
  have := (check_ok_iff _ _ _ _ _).1 h
  revert this
  decide +kernel

end Draco.C01Kd
