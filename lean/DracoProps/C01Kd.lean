import DracoModel.KdTree
/-
  C01 (staging file for the kd-tree slice; to be merged into DracoProps/C01.lean).
-/
namespace Draco.C01Kd
open Draco

/-- `DRACO_INCREMENT_MOD` stays below the modulus -/
theorem incMod_lt (i m : Nat) (h : i < m) : Kd.incMod i m < m := by
  unfold Kd.incMod; split <;> omega

example : Kd.incMod 2 3 < 3 := incMod_lt 2 3 (by decide)

end Draco.C01Kd
