import DracoProofs.RobustValid
import DracoProofs.SeqStream
import DracoProofs.KdTreeValid
import DracoProofs.GeneratedCore
/-
  C03 — a successfully decoded geometry is structurally valid.

  Model: `decodeGeometry` (DracoModel/SeqDecoder.lean) = `Decoder::DecodeBufferToGeometry` for the
  sequential point-cloud and sequential mesh decoders, with or without
  `SetSkipAttributeTransform`; kd-tree and Edgebreaker streams (and attribute decoders of
  bitstream < 2.0) end in `Status.unsupported`, i.e. they are outside the theorem and are covered
  by the explicit validity test on the implementation's output (tools/props/C03.py).

  `Geometry.valid` (DracoModel/Geometry.lean): every face index < numPoints; for every attribute:
  at least one component, a data type with a positive length, `values` holds at least
  `numValues * stride` bytes, and every point maps to a value index < numValues.
-/
namespace Draco.C03
open Draco Draco.Robust

/-- **C03 for the dispatcher with arbitrary body decoders.** `decodeStreamWith eb kd` is
    `Decoder::DecodeBufferToGeometry`: header, version gate, metadata, then the sequential point cloud /
    mesh decoder of every bitstream version (modelled here), or the body decoder `eb` (Edgebreaker) / `kd`
    (kd-tree).  Whenever the bodies only return valid geometries, every accepted stream — corrupted ones
    included — yields a valid geometry. -/
theorem decode_ok_valid_with (eb kd : DecOpts → DecM Geometry) (opts : DecOpts)
    (heb : ∀ s g s', eb opts s = (some g, s') → g.valid = true)
    (hkd : ∀ s g s', kd opts s = (some g, s') → g.valid = true)
    (s s' : DSt) (r : DecodeResult) (h : decodeStreamWith eb kd opts s = (some r, s')) :
    r.geometry.valid = true :=
  decodeStreamWith_post eb kd opts heb hkd s r s' h

/-- **C03 for the sequential decoders (full strength, no hypothesis).** `decodeGeometrySeq` = the complete
    decoder with the Edgebreaker / kd-tree bodies rejected: for every byte string, state and option set an
    accepted stream yields a valid geometry (sequential point cloud and mesh decoders, every bitstream
    version 1.1 … 2.3, with or without `SetSkipAttributeTransform`). -/
theorem decode_ok_valid (opts : DecOpts) (s s' : DSt) (r : DecodeResult)
    (h : decodeGeometrySeq opts s = (some r, s')) : r.geometry.valid = true :=
  decode_ok_valid_with _ _ opts (fun _ _ _ h => (failWith_ok h).elim) (fun _ _ _ h => (failWith_ok h).elim) s s' r h

/-- … and therefore for the complete decoder `decodeGeometry` on every stream whose header announces a
    sequential method -/
theorem decode_seq_stream_ok_valid (opts : DecOpts) (s s' : DSt) (r : DecodeResult) (hs : IsSeqStream s)
    (h : decodeGeometry opts s = (some r, s')) : r.geometry.valid = true := by
  rw [decodeGeometry_eq_seq opts s hs] at h
  exact decode_ok_valid opts s s' r h

/-- **C03 for the complete decoder, partial:** the kd-tree body is discharged by `Kd.decodeKdGeometry_valid`;
    what is missing is the corresponding theorem about the Edgebreaker body, kept as the hypothesis `heb`. -/
theorem decode_all_ok_valid_partial (opts : DecOpts)
    (heb : ∀ s g s', Eb.decodeEdgebreaker opts s = (some g, s') → g.valid = true)
    (s s' : DSt) (r : DecodeResult) (h : decodeGeometry opts s = (some r, s')) : r.geometry.valid = true :=
  decode_ok_valid_with _ _ opts heb (fun s g s' hk => Kd.decodeKdGeometry_valid opts s s' g hk) s s' r h

/-- the same for the entry state used by the driver (`Decoder::Decode…FromBuffer` on `bs`) -/
theorem decode_bytes_ok_valid (opts : DecOpts) (bs : Bytes) (s' : DSt) (r : DecodeResult)
    (h : decodeGeometrySeq opts { rest := bs } = (some r, s')) : r.geometry.valid = true :=
  decode_ok_valid opts _ s' r h

/-- value index a point is mapped to (`PointAttribute::mapped_index`) -/
def mappedIndex (a : Attribute) (p : Nat) : Nat :=
  match a.map with
  | none => p
  | some m => m.getD p 0

/-- **Accessors stay in bounds.** In a valid geometry every face corner is an existing point and,
    for every attribute and every point, the bytes `[i*stride, (i+1)*stride)` of the mapped value
    `i` lie inside the attribute's storage (`GetValue` / `GetAddress` / `GetMappedValue`). -/
theorem valid_accessors_in_bounds (g : Geometry) (hv : g.valid = true) :
    (∀ f ∈ g.faces, f.1 < g.numPoints ∧ f.2.1 < g.numPoints ∧ f.2.2 < g.numPoints) ∧
    (∀ a ∈ g.atts, ∀ p, p < g.numPoints →
      mappedIndex a p < a.numValues ∧ (mappedIndex a p + 1) * a.stride ≤ a.values.length) := by
  simp only [Geometry.valid, Bool.and_eq_true, List.all_eq_true, decide_eq_true_eq] at hv
  refine ⟨fun f hf => ?_, fun a ha p hp => ?_⟩
  · obtain ⟨x, y, z⟩ := f
    have := hv.1 (x, y, z) hf
    simp only at this ⊢
    exact ⟨this.1.1, this.1.2, this.2⟩
  · have h := hv.2 a ha
    simp only [Attribute.valid, ge_iff_le, Bool.and_eq_true, decide_eq_true_eq] at h
    obtain ⟨⟨⟨_, _⟩, hlen⟩, hmap⟩ := h
    have hidx : mappedIndex a p < a.numValues := by
      unfold mappedIndex
      cases hm : a.map with
      | none =>
        rw [hm] at hmap; simp only [decide_eq_true_eq] at hmap
        show p < a.numValues
        omega
      | some m =>
        rw [hm] at hmap
        simp only [Bool.and_eq_true, beq_iff_eq, List.all_eq_true, decide_eq_true_eq] at hmap
        have hp' : p < m.length := by omega
        simp only [List.getD_eq_getElem?_getD, List.getElem?_eq_getElem hp', Option.getD_some]
        exact hmap.2 _ (List.getElem_mem hp')
    refine ⟨hidx, ?_⟩
    calc (mappedIndex a p + 1) * a.stride ≤ a.numValues * a.stride := Nat.mul_le_mul_right _ hidx
      _ ≤ a.values.length := hlen

/-! ### non-vacuity -/

/-- 25-byte sequential point cloud (bitstream 2.2): 2 points, one int8 attribute -/
def pcStream : Bytes := [68,82,65,67,79, 2,2, 0,0, 0,0, 2,0,0,0, 1, 1, 0,1,1,0,0, 0, 7, 9]

/-- 28-byte sequential mesh: 3 points, 1 face (raw indices), one uint8 attribute -/
def meshStream : Bytes := [68,82,65,67,79, 2,2, 1,0, 0,0, 1, 3, 1, 0,1,2, 1, 1, 0,2,1,0,0, 0, 7,8,9]

/-- the same mesh with the third index changed to 200 (finding F6 of the pinned tree: accepted
    then, rejected since the `fix:` commit e1f3c7f) -/
def meshStreamBadIndex : Bytes := [68,82,65,67,79, 2,2, 1,0, 0,0, 1, 3, 1, 0,1,200, 1, 1, 0,2,1,0,0, 0, 7,8,9]

section
set_option maxRecDepth 8000
open DecM

/-- the hypothesis of `decode_ok_valid` is satisfiable: the point cloud decodes -/
example : ∃ r s', decodeGeometrySeq {} { rest := pcStream } = (some r, s') ∧ r.geometry.numPoints = 2 ∧
    r.geometry.atts.length = 1 := by
  simp +decide [pcStream, decodeGeometrySeq, decodeStreamWith, decodeSequentialAttributesV, decodeHeader, decodePointAttributesSeq, decodeSequentialAttributes,
    decodeAttDescs, bind, DecM.andThen, DecM.version, DecM.setVersion, DecM.varint, DecM.lift, decVarint, decVarintAux,
    varintMaxDepth, bsVersion, DecM.require, DecM.ret, DecM.remaining, DecM.alloc, DecM.declare, replicateM', mapM',
    rdU8, rdU16, rdI32, rdU32, readU8, readLE, leValue, pure, DecM.bytes, readBytes, dataTypeLength, AttDesc.toAttribute,
    Generated.geometryAttribute_NAMED_ATTRIBUTES_COUNT, Generated.DT_TYPES_COUNT, toSigned, toUnsigned]

/-- … and so does the mesh -/
example : ∃ r s', decodeGeometrySeq {} { rest := meshStream } = (some r, s') ∧
    r.geometry.faces = [(0, 1, 2)] ∧ r.geometry.numPoints = 3 := by
  simp +decide [meshStream, decodeGeometrySeq, decodeStreamWith, decodeSequentialAttributesV, decodeHeader, decodeSeqConnectivity, decodePointAttributesSeq,
    decodeSequentialAttributes, decodeAttDescs, bind, DecM.andThen, DecM.version, DecM.setVersion, DecM.varint, DecM.lift,
    decVarint, decVarintAux, varintMaxDepth, bsVersion, DecM.require, DecM.ret, DecM.remaining, DecM.alloc, DecM.declare,
    replicateM', mapM', rdU8, rdU16, rdU32, readU8, readLE, leValue, pure, DecM.bytes, readBytes, dataTypeLength,
    AttDesc.toAttribute, Generated.geometryAttribute_NAMED_ATTRIBUTES_COUNT, Generated.DT_TYPES_COUNT, triples]

/-- the face-index check is what makes the theorem true: the stream whose face refers to point
    200 of 3 is rejected -/
example : (decodeGeometrySeq {} { rest := meshStreamBadIndex }).1 = none := by
  simp [meshStreamBadIndex, decodeGeometrySeq, decodeStreamWith, decodeHeader, decodeSeqConnectivity, bind, DecM.andThen,
    DecM.version, DecM.setVersion, DecM.varint, DecM.lift, decVarint, decVarintAux, varintMaxDepth, bsVersion,
    DecM.require, DecM.ret, DecM.remaining, DecM.alloc, DecM.declare, replicateM', mapM', rdU8, rdU16, readU8, readLE,
    leValue, pure, DecM.bytes, readBytes, Generated.kDracoMeshBitstreamVersionMajor,
    Generated.kDracoMeshBitstreamVersionMinor, DecM.fail]
end

/-- `valid_accessors_in_bounds` is not vacuous: a valid geometry with a face and a mapped attribute -/
example : (Geometry.mk true 3 [(0, 1, 2)]
    [{ attType := 0, dataType := 2, numComponents := 1, normalized := false, uniqueId := 0, numValues := 2,
       map := some [0, 1, 1], values := [7, 8] }]).valid = true := by decide

/-! ## the size table of the attribute data types is the source's -/
open Generated in
/-- `DataTypeLength` (core/draco_types.cc, translated mechanically from clang's AST of /repo on every run) is the
    model's `dataTypeLength` on every valid data type `DT_INT8 (1) … DT_BOOL (11)` -/
theorem source_dataTypeLength_is_model (dt : Nat) (h1 : 1 ≤ dt) (h2 : dt ≤ 11) :
    DataTypeLength dt = (dataTypeLength dt : Int) := DataTypeLength_eq_model dt h1 h2
example : Generated.DataTypeLength (9 : Nat) = 4 := by
  rw [source_dataTypeLength_is_model 9 (by decide) (by decide)]; decide

end Draco.C03
