import DracoProofs.KdTreeValid
/-
  C03 on the kd-tree path, bitstreams older than 2.3 (staging file of the kd-tree slice, to be merged into
  DracoProps/C03.lean).  `Kd.decodeKdGeometry` dispatches on the bitstream version: 2.3 is
  `C01Kd.kdtree_decoded_geometry_valid`'s original scope, everything older runs
  `Kd.decodeKdGeometryLegacy` (DracoModel/KdTreeLegacy.lean: the "old bitstream" branch of
  `KdTreeAttributesDecoder::DecodeDataNeededByPortableTransforms` with the integer method and the
  float method / `FloatPointsTreeDecoder`).  `Kd.decodeKdGeometry_valid` (and with it
  `C03.decode_all_ok_valid_partial`, `C03Eb.decode_all_ok_valid`) covers both since the dispatch was
  added; the legacy part is stated here on its own.
-/
namespace Draco.C03Kd
open Draco

/-- **C03 on legacy (1.0 … 2.2) kd-tree point cloud streams.**  Whenever the model of the legacy
    `PointCloudKdTreeDecoder` reports success — on ANY byte string, in any entry state (every version,
    integer and float method, every compression level, any number of attributes decoders and
    attributes of any data type of at most 4 bytes) — the geometry is structurally valid: every
    attribute has at least one component, a data type of positive length, the identity map with
    `num_points` values and a buffer of exactly `num_points · stride` bytes.  This is where the point
    count checks of 0596d06 / d17d15d / c9df685 / 63027a3 are needed: the attribute block's count, the
    float tree's count and the number of points the tree coder delivers all have to equal the
    header's `num_points` (`require (np == numPoints)`, `require (pts.length == np)`,
    `require (dp.1 == np)` in the model) — without them the buffers are sized by a count that is
    unrelated to the number of points (seeded C03-5). -/
theorem kdtree_decoded_geometry_valid_legacy (s s' : DSt) (g : Geometry)
    (h : Kd.decodeKdGeometryLegacy s = (some g, s')) : g.valid = true :=
  Kd.decodeKdGeometryLegacy_valid s s' g h

/-- … as reached through the dispatcher -/
theorem kdtree_decoded_geometry_valid_legacy' (opts : DecOpts) (s s' : DSt) (g : Geometry)
    (_hv : s.version < bsVersion 2 3) (h : Kd.decodeKdGeometry opts s = (some g, s')) : g.valid = true :=
  Kd.decodeKdGeometry_valid opts s s' g h

/-- body (after the 11 header bytes) of a 2.1 stream produced by the harness op
    `legacykd int 1 0 2 4 1,2,3,4`: 2 points, one DT_UINT32 × 2 attribute, integer method, level 0 -/
def legacyIntBody : Bytes :=
  [2, 0, 0, 0, 1, 1, 0, 6, 2, 0, 0, 1, 0, 2, 0, 0, 0, 4, 0, 0, 0, 2, 0, 0, 0, 4, 0, 0, 0, 0, 0, 0, 0,
   4, 0, 0, 0, 0, 0, 0x43, 0x21, 4, 0, 0, 0, 0, 0, 0, 0, 4, 0, 0, 0, 0, 0, 0, 0]

/-- non-vacuity: the stream is accepted, everything is consumed, and the two points come back
    (`01000000 02000000 | 03000000 04000000`) -/
example : (Kd.decodeKdGeometryLegacy { rest := legacyIntBody, version := 513 }).1 =
      some { isMesh := false, numPoints := 2, faces := [],
             atts := [{ attType := 0, dataType := 6, numComponents := 2, normalized := false, uniqueId := 0,
                        numValues := 2, map := none, values := [1, 0, 0, 0, 2, 0, 0, 0, 3, 0, 0, 0, 4, 0, 0, 0] }] } ∧
    (Kd.decodeKdGeometryLegacy { rest := legacyIntBody, version := 513 }).2.rest = [] := by
  decide +kernel

/-- … and a count that disagrees with the header's is rejected (the check of 0596d06): the same
    body with the attribute block's point count set to 3 -/
example : (Kd.decodeKdGeometryLegacy
    { rest := (legacyIntBody.take 13) ++ [3] ++ legacyIntBody.drop 14, version := 513 }).1 = none := by
  decide +kernel

end Draco.C03Kd
