import DracoModel.IO.Check
import DracoProofs.IOStl
import DracoProofs.IOPly
import DracoProofs.IOObj
import DracoProofs.IOObjPoints
import DracoProofs.IODecimal
/-
  C15 — file formats: writing a geometry with the library's STL / PLY / OBJ encoder and reading the
  file back yields the same geometry (property theorems only; models in DracoModel/IO/*, proofs in
  DracoProofs/IO*).

  "Same geometry" is stated per attribute through `IO.cornerValues` (for every face, the value bytes
  at its three corners, in face order: the triangle soup) and `IO.pointValues` (value bytes of every
  point, in point order).  Point numbering and value-table layout are *not* preserved by any of the
  readers (all of them deduplicate values and points of meshes), and are not part of the property.

    * `stl_roundtrip`               — FULL for STL: any mesh with a float32×3 position attribute, any
                                      face-normal oracle, bit-exact positions, same face order.
    * `ply_roundtrip`               — FULL for PLY on the attribute kinds `PlyEncoder` supports
                                      (`Ply.Supported`): positions (float32/int32 ×3), normals
                                      (float32×3), colours (uint8 ×1..4), faces; meshes and point
                                      clouds; bit-exact.  Texture coordinates are written but never read.
    * `obj_roundtrip`               — OBJ meshes with ≥ 1 face, any number codec: per-corner position /
                                      texture / normal values are the re-parsed source values; the
                                      result's points are pairwise distinguishable by their values.
      `obj_connectivity_roundtrip`  — two corners of the result share a point iff their re-parsed
                                      source values agree in all three attributes.
      `obj_seams_exact`             — with a codec that never identifies two different printed
                                      numbers this is: iff the source component values agree.
      `obj_precision`               — every re-parsed component is `r` of the source component; with
                                      `∀ b, close b (r b)` it is `close` to it (the 6-decimal bound is
                                      a hypothesis on the codec: `_partial`, see below).
    * `obj_pointcloud_roundtrip`    — OBJ point clouds and meshes without faces (the per-point branch
                                      of the writer, /repo 55a4a4d), any number codec: the result is
                                      the *set* of re-parsed source points (a map φ from source
                                      points onto result points keeps the value tuple; result points
                                      are pairwise different).  That merged points keep the order of
                                      first occurrence is not stated (correspondence / oracle only).
    * historical: the writer before 55a4a4d (`Obj.encodeTablesE`) attached attributes to the wrong
      points / produced unreadable files on OBJ point clouds (`obj_pointcloud_pairing_violation`,
      `obj_pointcloud_unreadable`, about the old writer only).  For the exact-seams reading the
      property is false on meshes with two vertices closer than the 6-decimal resolution
      (`obj_weld_violation`, inside the property's stated tolerance).

    * number text (`DracoModel/IO/Decimal.lean`): `obj_dec6_exact` — the decimal `printf("%F")` prints
      for ANY finite float32 is within 0.5·10⁻⁶ of it (exact rational arithmetic, no floating point
      hypothesis); `obj_print_exact` — below 2³⁶ the 20-byte buffer does not cut the text and its
      digits denote that decimal; `obj_text_precision` — for ANY oracle of the `double` operations
      of `parser::ParseFloat` with unit roundoff `u` and ANY `double → float` conversion with relative
      error `u32`, the value read back from the printed text is within
      0.5·10⁻⁶ + (|x| + 0.5·10⁻⁶)·((1+u)³⁵(1+u32) − 1) of `x`, nothing is left unread;
      `obj_text_precision_ieee` — with u = 2⁻⁵³, u32 = 2⁻²⁴: ≤ 0.5·10⁻⁶ + (|x| + 0.5·10⁻⁶)·(2⁻²⁴ + 2⁻⁴⁷)
      (≤ 0.5·10⁻⁶ + 1 ulp); `obj_text_nonfinite_unreadable` — `INF` / `NAN` are rejected by the reader.
      Assumed, sampled by the check: the machine's binary64 `+`, `*`, the literal `0.1` and the
      binary64 → binary32 conversion satisfy the rounding model (no overflow / underflow in range).
-/
namespace Draco.C15
open Draco Draco.IO

/-! ## example geometries (for the non-vacuity examples) -/

/-- little-endian float32 constants -/
def f0 : Bytes := [0, 0, 0, 0]            -- 0.0
def f1 : Bytes := [0, 0, 128, 63]         -- 1.0
def fh : Bytes := [0, 0, 0, 63]           -- 0.5

def exPos : Attribute :=
  { attType := tPOSITION, dataType := dtFLOAT32, numComponents := 3, normalized := false, uniqueId := 0,
    numValues := 4, map := none,
    values := f0 ++ f0 ++ f0 ++ (f1 ++ f0 ++ f0) ++ (f1 ++ f1 ++ f0) ++ (f0 ++ f1 ++ f0) }

def exNrm : Attribute :=
  { attType := tNORMAL, dataType := dtFLOAT32, numComponents := 3, normalized := false, uniqueId := 1,
    numValues := 1, map := some [0, 0, 0, 0], values := f0 ++ f0 ++ f1 }

/-- texture coordinates with a seam: points 0 and 2 use different values although … -/
def exTex : Attribute :=
  { attType := tTEX_COORD, dataType := dtFLOAT32, numComponents := 2, normalized := false, uniqueId := 2,
    numValues := 3, map := some [0, 1, 2, 1], values := f0 ++ f0 ++ (f1 ++ f0) ++ (fh ++ f1) }

def exCol : Attribute :=
  { attType := tCOLOR, dataType := dtUINT8, numComponents := 4, normalized := true, uniqueId := 3,
    numValues := 2, map := some [0, 1, 1, 0], values := [255, 0, 0, 255, 0, 255, 0, 128] }

/-- a quad as two triangles with positions, one shared normal, seamed texture coordinates and
    RGBA colours -/
def exMesh : Geometry :=
  { isMesh := true, numPoints := 4, faces := [(0, 1, 2), (0, 2, 3)], atts := [exPos, exNrm, exTex, exCol] }

/-- the same points as a point cloud -/
def exCloud : Geometry := { exMesh with isMesh := false, faces := [] }

/-! ## STL -/

/-- **STL round trip (full).**  For every mesh whose first POSITION attribute is float32 with 3
    components (the only thing `StlEncoder` looks at), valid in the sense of C03, with fewer than
    2³¹/3 faces, for every face-normal function `nrm` (the executable `Stl.encode` is
    `Stl.encodeWith Stl.normalF32`), and for arbitrary trailing bytes:
    the encoder succeeds, the decoder succeeds on its output, and the result is a mesh with the same
    number of faces whose attribute 0 is a float32×3 POSITION attribute with **bit-identical corner
    positions, face by face, in the same order**.  (Attribute 1 holds the face normals read from the
    file; point numbering is the decoder's.) -/
theorem stl_roundtrip (nrm : Stl.NormalFn) (g : Geometry) (pos : Attribute)
    (hmesh : g.isMesh = true) (hpos : g.ioNamedAtt tPOSITION = some pos)
    (hdt : pos.dataType = dtFLOAT32) (hnc : pos.numComponents = 3)
    (hvalid : g.valid = true) (hsize : 3 * g.faces.length < 2 ^ 31) (rest : Bytes) :
    ∃ bs g' pos', Stl.encodeWith nrm g = .ok bs ∧ Stl.decodeE (bs ++ rest) = .ok g' ∧
      g'.isMesh = true ∧ g'.faces.length = g.faces.length ∧ g'.atts.length = 2 ∧
      g'.atts[0]? = some pos' ∧ pos'.attType = tPOSITION ∧ pos'.dataType = dtFLOAT32 ∧
      pos'.numComponents = 3 ∧ cornerValues pos' g'.faces = cornerValues pos g.faces :=
  Stl.decode_encode nrm g pos hmesh hpos hdt hnc hvalid hsize rest

example : exMesh.isMesh = true ∧ exMesh.ioNamedAtt tPOSITION = some exPos ∧ exPos.dataType = dtFLOAT32 ∧
    exPos.numComponents = 3 ∧ exMesh.valid = true ∧ 3 * exMesh.faces.length < 2 ^ 31 := by decide

/-! ## PLY -/

/-- **PLY round trip (full on the supported kinds).**  `s` = the attributes `PlyEncoder` selects
    (`Ply.select`: first POSITION; first NORMAL if 3 components; first COLOR; first TEX_COORD if 2
    components).  If they are of the kinds the encoder can name and the decoder accepts
    (`Ply.Supported`: float32/int32×3 positions, float32 normals, uint8 colours with 1–4
    components), the geometry is valid and has < 2³¹ points and faces, then writing and reading back
    (into a `Mesh` iff the source is a mesh; arbitrary trailing bytes) succeeds and, with
    `Ply.Preserved`:
    positions, normals and colours are found at attribute positions 0, 1, 1+#normals with the same
    type, **bit-identical values at the three corners of every face, in face order**, and — when no
    deduplication runs (point clouds, meshes without faces) — the same number of points with
    bit-identical values at every point, in point order.  Nothing else is in the result. -/
theorem ply_roundtrip (g : Geometry) (s : Ply.Sel) (hsel : Ply.select g = some s) (hS : Ply.Supported g s)
    (hvalid : g.valid = true) (hnp : g.numPoints < 2 ^ 31) (hnf : g.faces.length < 2 ^ 31) (rest : Bytes) :
    ∃ bs g', Ply.encodeE g = .ok bs ∧ Ply.decodeE g.isMesh (bs ++ rest) = .ok g' ∧
      g'.isMesh = g.isMesh ∧
      g'.faces.length = (if g.isMesh then g.faces.length else 0) ∧
      g'.atts.length = 1 + s.nrm.toList.length + s.col.toList.length ∧
      Ply.Preserved g g' 0 s.pos tPOSITION s.pos.dataType 3 ∧
      (∀ n, s.nrm = some n → Ply.Preserved g g' 1 n tNORMAL dtFLOAT32 3) ∧
      (∀ c, s.col = some c → Ply.Preserved g g' (1 + s.nrm.toList.length) c tCOLOR dtUINT8 c.numComponents) :=
  Ply.roundtrip g s hsel hS hvalid hnp hnf rest

/-- the selection made on the example mesh -/
def exSel : Ply.Sel := { pos := exPos, nrm := some exNrm, tex := some exTex, col := some exCol }

example : Ply.select exMesh = some exSel ∧ Ply.select exCloud = some exSel ∧
    exMesh.valid = true ∧ exCloud.valid = true := by decide

example : Ply.Supported exMesh exSel :=
  { posType := Or.inl rfl
    posComps := rfl
    nrmType := by intro n h; cases h; rfl
    colType := by intro c h; cases h; decide
    texType := by intro _ t h; cases h; exact ⟨_, rfl⟩ }

example : Ply.Supported exCloud exSel :=
  { posType := Or.inl rfl
    posComps := rfl
    nrmType := by intro n h; cases h; rfl
    colType := by intro c h; cases h; decide
    texType := by intro h; cases h }

/-! ## OBJ -/

/-- **OBJ round trip of meshes, record level, any number codec.**
    `g` is a valid mesh with at least one face whose first POSITION attribute and (if non-empty) first
    TEX_COORD / NORMAL attributes are float32 (any component counts: the writer pads / truncates to
    3, 2, 3).  `c` is any number codec and `r` what print-then-parse does to a bit pattern on the
    printed components (`Obj.CodecOn`).  Then writing and reading back succeeds and the result `g'`
      * is a mesh with the same number of faces, all of them inside its point range,
      * has exactly the attributes POSITION (×3), TEX_COORD (×2, if written), NORMAL (×3, if written),
        in this order, all float32,
      * has at the three corners of every face, in face order, exactly the re-parsed source values
        (`Obj.rtCorner`: each component `b` replaced by `r b`),
      * and has no two different points with the same values in all attributes. -/
theorem obj_roundtrip {Tok : Type} (c : Obj.NumCodec Tok) (r : Nat → Nat) (g : Geometry) (pos : Attribute)
    (hmesh : g.isMesh = true) (hfaces : g.faces ≠ [])
    (hpos : g.ioNamedAtt tPOSITION = some pos) (hvalid : g.valid = true)
    (hpdt : pos.dataType = dtFLOAT32)
    (htdt : ∀ t, Obj.texOf g = some t → t.dataType = dtFLOAT32)
    (hndt : ∀ n, Obj.nrmOf g = some n → n.dataType = dtFLOAT32)
    (hcp : Obj.CodecOn c r pos 3) (hct : Obj.OptCodecOn c r 2 (Obj.texOf g))
    (hcn : Obj.OptCodecOn c r 3 (Obj.nrmOf g)) :
    ∃ lines g', Obj.encodeE c g = .ok lines ∧ Obj.decodeE c true lines = .ok g' ∧
      g'.isMesh = true ∧ g'.faces.length = g.faces.length ∧ facesInRange g' ∧
      (∀ p q, p < g'.numPoints → q < g'.numPoints →
        (∀ (k : Nat) (a' : Attribute), g'.atts[k]? = some a' → a'.ioPointValue p = a'.ioPointValue q) → p = q) ∧
      g'.atts.length = 1 + (Obj.texOf g).toList.length + (Obj.nrmOf g).toList.length ∧
      (∃ p', g'.atts[0]? = some p' ∧ p'.attType = tPOSITION ∧ p'.dataType = dtFLOAT32 ∧
        p'.numComponents = 3 ∧ cornerValues p' g'.faces = Obj.rtCorner r pos 3 g.faces) ∧
      (∀ t, Obj.texOf g = some t → ∃ t', g'.atts[1]? = some t' ∧ t'.attType = tTEX_COORD ∧
        t'.dataType = dtFLOAT32 ∧ t'.numComponents = 2 ∧
        cornerValues t' g'.faces = Obj.rtCorner r t 2 g.faces) ∧
      (∀ n, Obj.nrmOf g = some n → ∃ n', g'.atts[1 + (Obj.texOf g).toList.length]? = some n' ∧
        n'.attType = tNORMAL ∧ n'.dataType = dtFLOAT32 ∧ n'.numComponents = 3 ∧
        cornerValues n' g'.faces = Obj.rtCorner r n 3 g.faces) :=
  Obj.decode_encode c r g pos hmesh hfaces hpos hvalid hpdt htdt hndt hcp hct hcn

/-- hypotheses of the OBJ theorems on the example mesh, with the exact codec (tokens = bit
    patterns, `r = id`) -/
example : exMesh.isMesh = true ∧ exMesh.faces ≠ [] ∧ exMesh.ioNamedAtt tPOSITION = some exPos ∧
    exMesh.valid = true ∧ exPos.dataType = dtFLOAT32 ∧
    Obj.texOf exMesh = some exTex ∧ Obj.nrmOf exMesh = some exNrm ∧
    exTex.dataType = dtFLOAT32 ∧ exNrm.dataType = dtFLOAT32 := by decide

example : Obj.CodecOn exactCodec id exPos 3 ∧ Obj.OptCodecOn exactCodec id 2 (some exTex) ∧
    Obj.OptCodecOn exactCodec id 3 (some exNrm) :=
  ⟨fun _ _ _ _ => rfl, fun _ _ _ _ => rfl, fun _ _ _ _ => rfl⟩

/-- **OBJ connectivity and seams.**  Number the face corners face after face (`Obj.cornerPoints`,
    the same numbering in source and result, which have equally many corners).  Two corners of the
    result refer to the same point **iff** the re-parsed position, texture coordinate and normal of
    the two source corners coincide (`Obj.rtFlat` = re-parsed value at every corner). -/
theorem obj_connectivity_roundtrip {Tok : Type} (c : Obj.NumCodec Tok) (r : Nat → Nat) (g : Geometry)
    (pos : Attribute) (hmesh : g.isMesh = true) (hfaces : g.faces ≠ [])
    (hpos : g.ioNamedAtt tPOSITION = some pos) (hvalid : g.valid = true)
    (hpdt : pos.dataType = dtFLOAT32)
    (htdt : ∀ t, Obj.texOf g = some t → t.dataType = dtFLOAT32)
    (hndt : ∀ n, Obj.nrmOf g = some n → n.dataType = dtFLOAT32)
    (hcp : Obj.CodecOn c r pos 3) (hct : Obj.OptCodecOn c r 2 (Obj.texOf g))
    (hcn : Obj.OptCodecOn c r 3 (Obj.nrmOf g)) :
    ∃ lines g', Obj.encodeE c g = .ok lines ∧ Obj.decodeE c true lines = .ok g' ∧
      (Obj.cornerPoints g'.faces).length = (Obj.cornerPoints g.faces).length ∧
      ∀ (i j p q : Nat), (Obj.cornerPoints g'.faces)[i]? = some p → (Obj.cornerPoints g'.faces)[j]? = some q →
        (p = q ↔
          ((Obj.rtFlat r pos 3 g.faces)[i]? = (Obj.rtFlat r pos 3 g.faces)[j]? ∧
           (∀ t, Obj.texOf g = some t → (Obj.rtFlat r t 2 g.faces)[i]? = (Obj.rtFlat r t 2 g.faces)[j]?) ∧
           (∀ n, Obj.nrmOf g = some n → (Obj.rtFlat r n 3 g.faces)[i]? = (Obj.rtFlat r n 3 g.faces)[j]?))) :=
  Obj.connectivity c r g pos hmesh hfaces hpos hvalid hpdt htdt hndt hcp hct hcn

/-- the example mesh has a seam: corners 2 (face 0, point 2) and 4 (face 1, point 2) coincide,
    corners 1 and 5 (points 1 and 3) have the same texture coordinate and normal but different
    positions -/
example : (Obj.cornerPoints exMesh.faces)[2]? = (Obj.cornerPoints exMesh.faces)[4]? ∧
    (Obj.rtFlat id exTex 2 exMesh.faces)[1]? = (Obj.rtFlat id exTex 2 exMesh.faces)[5]? ∧
    (Obj.rtFlat id exPos 3 exMesh.faces)[1]? ≠ (Obj.rtFlat id exPos 3 exMesh.faces)[5]? := by decide

/-- **Seams are exact for a codec that never identifies two different numbers**: re-parsed values of
    two table entries coincide iff the source components do. -/
theorem obj_seams_exact (r : Nat → Nat) (a : Attribute) (k i j : Nat) (h32 : ∀ b, r b < 2 ^ 32)
    (hinj : ∀ x ∈ Obj.floatsAt a i k, ∀ y ∈ Obj.floatsAt a j k, r x = r y → x = y) :
    Obj.rtValue r a k i = Obj.rtValue r a k j ↔ Obj.floatsAt a i k = Obj.floatsAt a j k :=
  Obj.rtValue_eq_iff r a k i j h32 hinj

example : ∀ x ∈ Obj.floatsAt exPos 0 3, ∀ y ∈ Obj.floatsAt exPos 1 3, id x = id y → x = y :=
  fun _ _ _ _ h => h

/-- **OBJ precision (relative to the codec).**  The float32 components of a re-parsed value are
    `r` of the source components; hence any bound `close b (r b)` the codec guarantees on the
    printed numbers holds component by component.  For the C++ text codec the bound
    `|r b − b| ≤ 0.5·10⁻⁶ + ulp(b)` is *checked* (`IO.checkCodecBits`), not proved. -/
theorem obj_precision (r : Nat → Nat) (a : Attribute) (k i : Nat) (h32 : ∀ b, r b < 2 ^ 32)
    (close : Nat → Nat → Prop) (hclose : ∀ b ∈ Obj.floatsAt a i k, close b (r b)) :
    List.Forall₂ close (Obj.floatsAt a i k) (Obj.comps k (Obj.rtValue r a k i)) := by
  rw [Obj.comps_rtValue r a k i h32]
  generalize Obj.floatsAt a i k = l at hclose
  induction l with
  | nil => exact List.Forall₂.nil
  | cons b bs ih =>
    exact List.Forall₂.cons (hclose b (by simp)) (ih (fun x hx => hclose x (by simp [hx])))

example : List.Forall₂ (fun b b' => b' = b % 2 ^ 32) (Obj.floatsAt exPos 1 3)
    (Obj.comps 3 (Obj.rtValue (· % 2 ^ 32) exPos 3 1)) :=
  obj_precision (· % 2 ^ 32) exPos 3 1 (fun _ => Nat.mod_lt _ (by decide)) _ (fun _ _ => rfl)

/-! ## OBJ number text: `snprintf("%F")` and `parser::ParseFloat` -/

open Draco.IO.Dec in
/-- **Exact core of the OBJ precision claim.**  For every float32 bit pattern, the unsigned decimal
    `dec6` that `printf("%F")` prints (`dec6Scaled / 10⁶`, the half-to-even rounding of the exact
    binary value to 6 decimals) is within 0.5·10⁻⁶ of `|x|` (`f32Abs` = mantissa · 2^exponent).
    Exact rational arithmetic, no floating point hypothesis, no range restriction. -/
theorem obj_dec6_exact (bits : Nat) : |dec6 bits - f32Abs bits| ≤ 5 / 10000000 := dec6_close bits

/-- 1.00000012 = 0x3f800001 prints as 1.000000: the bound is attained to within 24 % -/
example : Dec.dec6Scaled 0x3f800001 = 1000000 ∧ Dec.f32Mant 0x3f800001 = 8388609 ∧
    Dec.f32Exp 0x3f800001 = -23 := by decide

open Draco.IO.Dec in
/-- **The printed text denotes that decimal.**  For a finite float32 with `|x| < 2³⁶` (biased
    exponent below 163) the 19 characters `snprintf` can store suffice, and the text is: `-` iff
    the sign bit is set, the decimal digits of `⌊dec6⌋` without leading zeros, `.`, and the six
    digits of the fraction; the digit lists have the stated values. -/
theorem obj_print_exact (bits : Nat) (hfin : f32Finite bits = true) (he : (bits / 2^23) % 256 < 163) :
    fmtChars bits = (if f32Neg bits then ['-'] else []) ++
      (natDigits (dec6Scaled bits / 1000000)).map digitChar ++
      '.' :: (fixedDigits 6 (dec6Scaled bits % 1000000)).map digitChar ∧
    val (natDigits (dec6Scaled bits / 1000000)) = dec6Scaled bits / 1000000 ∧
    val (fixedDigits 6 (dec6Scaled bits % 1000000)) = dec6Scaled bits % 1000000 :=
  ⟨fmtChars_decimal bits hfin (dec6Scaled_lt bits he), val_natDigits _,
    by rw [val_fixedDigits]; exact Nat.mod_eq_of_lt (Nat.mod_lt _ (by norm_num))⟩

example : Dec.f32Finite 0xc479ffff = true ∧ (0xc479ffff / 2^23) % 256 < 163 ∧
    Dec.fmtChars 0xc479ffff = "-999.999939".toList := by decide

open Draco.IO.Dec in
/-- **OBJ text precision, any rounding oracle.**  `ops`: any oracle for the `double` operations of
    `parser::ParseFloat` on ℚ-valued numbers with unit roundoff `u` (`DecRounding`: `+`, `*` return
    the exact result times `1 + δ`, `|δ| ≤ u`; `0.0`, `1.0`, `10.0` and digits exact; the literal
    `0.1` is `(1/10)(1 + δ)`); `rn32`: any `double → float` conversion with relative error `u32`.
    For every finite float32 `x` with `|x| < 2³⁶`: `ParseFloat` accepts the text `ObjEncoder`
    prints for `x`, leaves nothing unread, and the float it returns satisfies
    `|parse(print x) − x| ≤ 0.5·10⁻⁶ + (|x| + 0.5·10⁻⁶) · ((1+u)³⁵ (1+u32) − 1)`.
    (Hypothesis left: that the machine arithmetic satisfies the rounding model.) -/
theorem obj_text_precision (ops : DecOps ℚ) (rn32 : ℚ → ℚ) (u u32 : ℚ) (hu0 : 0 ≤ u) (hu1 : u ≤ 1)
    (hu32 : 0 ≤ u32) (R : DecRounding ops u)
    (h32 : ∀ v, ∃ δ : ℚ, |δ| ≤ u32 ∧ rn32 v = v * (1 + δ))
    (bits : Nat) (hfin : f32Finite bits = true) (he : (bits / 2^23) % 256 < 163) :
    ∃ p : Parsed ℚ, @parseCore ℚ ops (fmtChars bits) = some p ∧ p.rest = [] ∧ p.nanNeg = false ∧
      |(if p.neg then -1 else 1) * rn32 p.mag - f32Val bits| ≤
        5 / 10000000 + (f32Abs bits + 5 / 10000000) * ((1 + u)^35 * (1 + u32) - 1) :=
  parse_print_close ops hu0 hu1 R rn32 hu32 h32 bits hfin he

/-- exact arithmetic -/
@[reducible] def exactDecOps : Dec.DecOps ℚ where
  zero := 0
  one := 1
  ten := 10
  tenth := 1/10
  ofDigit d := d
  add a b := a + b
  mul a b := a * b
  pow10 e := (10:ℚ)^e
  inf := 0
  nan := 0

/-- every operation (and the literal 0.1) is off by the factor `1 + e` -/
@[reducible] def biasedDecOps (e : ℚ) : Dec.DecOps ℚ where
  zero := 0
  one := 1
  ten := 10
  tenth := (1/10) * (1 + e)
  ofDigit d := d
  add a b := (a + b) * (1 + e)
  mul a b := (a * b) * (1 + e)
  pow10 z := (10:ℚ)^z
  inf := 0
  nan := 0

theorem biasedDecOps_model (e u : ℚ) (h : |e| ≤ u) : Dec.DecRounding (biasedDecOps e) u where
  zero := rfl
  one := rfl
  ten := rfl
  tenth := ⟨e, h, rfl⟩
  ofDigit _ _ := rfl
  add _ _ := ⟨e, h, rfl⟩
  mul _ _ := ⟨e, h, rfl⟩

/-- non-vacuity: the hypotheses hold for a biased oracle (not exact), a conversion that is off by
    `1 + 2⁻²⁵`, and the bit pattern of -999.999939 -/
example : Dec.DecRounding (biasedDecOps (1/2^54)) (1/2^53) ∧
    (∀ v : ℚ, ∃ δ : ℚ, |δ| ≤ 1/2^24 ∧ (fun v => v * (1 + 1/2^25)) v = v * (1 + δ)) ∧
    Dec.f32Finite 0xc479ffff = true ∧ (0xc479ffff / 2^23) % 256 < 163 :=
  ⟨biasedDecOps_model _ _ (by norm_num [abs_of_pos]), fun v => ⟨1/2^25, by norm_num [abs_of_pos], rfl⟩,
    by decide, by decide⟩

open Draco.IO.Dec in
/-- **The same with IEEE-754 constants** (`u = 2⁻⁵³` for binary64, `u32 = 2⁻²⁴` for the conversion to
    binary32): `|parse(print x) − x| ≤ 0.5·10⁻⁶ + (|x| + 0.5·10⁻⁶)·(2⁻²⁴ + 2⁻⁴⁷)`; since
    `|x|·2⁻²⁴ < ulp(x)` this is the "6-decimal text precision plus float32 rounding" of the property. -/
theorem obj_text_precision_ieee (ops : DecOps ℚ) (rn32 : ℚ → ℚ) (R : DecRounding ops (1/2^53))
    (h32 : ∀ v, ∃ δ : ℚ, |δ| ≤ 1/2^24 ∧ rn32 v = v * (1 + δ))
    (bits : Nat) (hfin : f32Finite bits = true) (he : (bits / 2^23) % 256 < 163) :
    ∃ p : Parsed ℚ, @parseCore ℚ ops (fmtChars bits) = some p ∧ p.rest = [] ∧ p.nanNeg = false ∧
      |(if p.neg then -1 else 1) * rn32 p.mag - f32Val bits| ≤
        5 / 10000000 + (f32Abs bits + 5 / 10000000) * (1/2^24 + 1/2^47) := by
  obtain ⟨p, h1, h2, h3, h4⟩ := obj_text_precision ops rn32 (1/2^53) (1/2^24) (by norm_num) (by norm_num)
    (by norm_num) R h32 bits hfin he
  refine ⟨p, h1, h2, h3, le_trans h4 ?_⟩
  have hk : ((1:ℚ) + 1/2^53)^35 * (1 + 1/2^24) - 1 ≤ 1/2^24 + 1/2^47 := by norm_num
  have ha := f32Abs_nonneg bits
  have : (f32Abs bits + 5 / 10000000) * (((1:ℚ) + 1/2^53)^35 * (1 + 1/2^24) - 1) ≤
      (f32Abs bits + 5 / 10000000) * (1/2^24 + 1/2^47) :=
    mul_le_mul_of_nonneg_left hk (by positivity)
  linarith

open Draco.IO.Dec in
/-- **Non-finite values cannot be read back**: `ObjEncoder` prints `INF` / `-INF` / `NAN` / `-NAN`
    (`%F`), `parser::ParseFloat` knows `inf`, `Inf`, `nan`, `NaN` only and fails — for any
    arithmetic. -/
theorem obj_text_nonfinite_unreadable {D : Type} [DecOps D] (bits : Nat) (h : f32Finite bits = false) :
    parseCore (D := D) (fmtChars bits) = none := parseCore_nonfinite bits h

example : Dec.f32Finite 0x7f800000 = false ∧ Dec.fmtChars 0xff800000 = "-INF".toList := by decide

/-! ## OBJ point clouds -/

def n001 : Bytes := f0 ++ f0 ++ f1
def n100 : Bytes := f1 ++ f0 ++ f0

/-- point cloud, 2 points: positions (1,0,0), (0,1,0) identity-mapped; normals table
    [(0,0,1), (1,0,0)] with point → value map [1, 0] -/
def exCloudSwapped : Geometry :=
  { isMesh := false, numPoints := 2, faces := []
    atts := [
      { attType := tPOSITION, dataType := dtFLOAT32, numComponents := 3, normalized := false, uniqueId := 0,
        numValues := 2, map := none, values := f1 ++ f0 ++ f0 ++ (f0 ++ f1 ++ f0) },
      { attType := tNORMAL, dataType := dtFLOAT32, numComponents := 3, normalized := false, uniqueId := 1,
        numValues := 2, map := some [1, 0], values := n001 ++ n100 } ] }

/-- **OBJ round trip of point clouds and meshes without faces, record level, any number codec.**
    `g` is a valid point cloud, or a mesh without faces (`Obj.perPoint`), with at least one point,
    whose first POSITION and (if non-empty) first TEX_COORD / NORMAL attributes are float32.  Writing
    and reading back (into a `Mesh` or a `PointCloud`, `asMesh`) succeeds; the result has no faces,
    float32 attributes POSITION ×3, TEX_COORD ×2 (if written), NORMAL ×3 (if written) in this order,
    and there is a map `φ` from source points **onto** result points such that point `φ p` carries
    exactly the re-parsed values of source point `p` (`Obj.rtTuple`: attribute type and value bytes,
    each float component `b` replaced by `r b`), and no two result points carry the same values.
    I.e. the result is the set of re-parsed source points: `ObjDecoder` merges equal points. -/
theorem obj_pointcloud_roundtrip {Tok : Type} (c : Obj.NumCodec Tok) (r : Nat → Nat) (g : Geometry)
    (pos : Attribute) (asMesh : Bool)
    (hpp : Obj.perPoint g = true) (hnp : g.numPoints ≠ 0)
    (hpos : g.ioNamedAtt tPOSITION = some pos) (hvalid : g.valid = true)
    (hpdt : pos.dataType = dtFLOAT32)
    (htdt : ∀ t, Obj.texOf g = some t → t.dataType = dtFLOAT32)
    (hndt : ∀ n, Obj.nrmOf g = some n → n.dataType = dtFLOAT32)
    (hcp : Obj.CodecOn c r pos 3) (hct : Obj.OptCodecOn c r 2 (Obj.texOf g))
    (hcn : Obj.OptCodecOn c r 3 (Obj.nrmOf g)) :
    ∃ (lines : List (Obj.Line Tok)) (g' : Geometry) (φ : Nat → Nat),
      Obj.encodeE c g = .ok lines ∧ Obj.decodeE c asMesh lines = .ok g' ∧
      g'.isMesh = asMesh ∧ g'.faces = [] ∧
      (∀ a' ∈ g'.atts, a'.dataType = dtFLOAT32 ∧
        a'.numComponents = (if a'.attType = tTEX_COORD then 2 else 3)) ∧
      (∀ p, p < g.numPoints → φ p < g'.numPoints ∧
        pointTuple g' (φ p) = Obj.rtTuple r pos (Obj.texOf g) (Obj.nrmOf g) p) ∧
      (∀ q, q < g'.numPoints → ∃ p, p < g.numPoints ∧ φ p = q) ∧
      (∀ p q, p < g'.numPoints → q < g'.numPoints → pointTuple g' p = pointTuple g' q → p = q) :=
  Obj.points_roundtrip c r g pos asMesh hpp hnp hpos hvalid hpdt htdt hndt hcp hct hcn

/-- the hypotheses hold on the input on which the old writer failed (2 points, normals mapped
    (1, 0)), with the exact codec; point 0 must come back with the normal (1,0,0) -/
example : Obj.perPoint exCloudSwapped = true ∧ exCloudSwapped.numPoints ≠ 0 ∧ exCloudSwapped.valid = true ∧
    Obj.texOf exCloudSwapped = none ∧
    (∃ pos nrm, exCloudSwapped.ioNamedAtt tPOSITION = some pos ∧ pos.dataType = dtFLOAT32 ∧
      Obj.nrmOf exCloudSwapped = some nrm ∧ nrm.dataType = dtFLOAT32 ∧
      Obj.rtTuple id pos none (some nrm) 0 = [(tPOSITION, f1 ++ f0 ++ f0), (tNORMAL, n100)]) := by
  refine ⟨by decide, by decide, by decide, by decide, _, _, rfl, by decide, rfl, by decide, by decide⟩

example (pos nrm : Attribute) : Obj.CodecOn exactCodec id pos 3 ∧ Obj.OptCodecOn exactCodec id 3 (some nrm) :=
  ⟨fun _ _ _ _ => rfl, fun _ _ _ _ => rfl⟩

/-! ## historical witnesses and a tolerance witness

  `obj_pointcloud_pairing_violation` / `obj_pointcloud_unreadable` are statements about the writer
  **before** /repo commit 55a4a4d (`Obj.encodeTablesE`: value tables for every geometry); they were
  replayed on the library of that time.  On the same inputs the current writer (`Obj.encodeE`)
  round-trips (`obj_pointcloud_roundtrip` above and the second halves of the two theorems).
  `obj_weld_violation` holds of the current code and is inside the property's 6-decimal tolerance. -/

/-- result of writing `g` as OBJ and reading it back, with codec `c` -/
def objRoundTrip {Tok : Type} (c : Obj.NumCodec Tok) (asMesh : Bool) (g : Geometry) : Option (Res Geometry) :=
  match Obj.encodeE c g with
  | .ok ls => some (Obj.decodeE c asMesh ls)
  | .error _ => none

/-- the same with the pre-55a4a4d writer -/
def objRoundTripOld {Tok : Type} (c : Obj.NumCodec Tok) (asMesh : Bool) (g : Geometry) : Option (Res Geometry) :=
  match Obj.encodeTablesE c g with
  | .ok ls => some (Obj.decodeE c asMesh ls)
  | .error _ => none

/-- **Pre-fix writer, OBJ point clouds: attributes got attached to the wrong points.**  The old
    `ObjEncoder` wrote the value *tables* (`v` / `vn` lines) and, having no faces, no indices;
    `ObjDecoder` then pairs the i-th `v` with the i-th `vn`.  Even with an exact number codec the
    normal of point 0, (1,0,0) in the source, came back as (0,0,1).  The current writer returns it. -/
theorem obj_pointcloud_pairing_violation :
    exCloudSwapped.valid = true ∧
    (exCloudSwapped.atts[1]?.map (·.ioPointValue 0)) = some n100 ∧
    (match objRoundTripOld exactCodec false exCloudSwapped with
     | some (.ok g') => g'.atts[1]?.map (fun a => (a.attType, a.ioPointValue 0))
     | _ => none) = some (tNORMAL, n001) ∧
    (match objRoundTrip exactCodec false exCloudSwapped with
     | some (.ok g') => g'.atts[1]?.map (fun a => (a.attType, a.ioPointValue 0))
     | _ => none) = some (tNORMAL, n100) ∧
    checkObjPoints exactCodec exCloudSwapped = true := by decide

/-- the same cloud with a one-entry normal table shared by both points -/
def exCloudShared : Geometry :=
  { isMesh := false, numPoints := 2, faces := []
    atts := [
      { attType := tPOSITION, dataType := dtFLOAT32, numComponents := 3, normalized := false, uniqueId := 0,
        numValues := 2, map := none, values := f1 ++ f0 ++ f0 ++ (f0 ++ f1 ++ f0) },
      { attType := tNORMAL, dataType := dtFLOAT32, numComponents := 3, normalized := false, uniqueId := 1,
        numValues := 1, map := some [0, 0], values := n001 } ] }

/-- **Pre-fix writer: OBJ point clouds (and meshes without faces) whose tables differ in size could
    not be read back**: the old writer succeeded, the reader rejected its output ("Invalid number of
    normals for a point cloud").  The current writer's output is read back. -/
theorem obj_pointcloud_unreadable :
    exCloudShared.valid = true ∧
    (match objRoundTripOld exactCodec false exCloudShared with
     | some (.error .reject) => true
     | _ => false) = true ∧
    (match objRoundTripOld exactCodec true { exCloudShared with isMesh := true } with
     | some (.error .reject) => true
     | _ => false) = true ∧
    checkObjPoints exactCodec exCloudShared = true ∧
    checkObjPoints exactCodec { exCloudShared with isMesh := true } = true := by decide

/-- a codec that prints 1.00000012 (0x3f800001) and 1.0 (0x3f800000) alike — what `%F` does -/
def sixDecimalCodec : Obj.NumCodec Nat :=
  ⟨fun b => if b = 0x3f800001 then 0x3f800000 else b, some⟩

def f1' : Bytes := [1, 0, 128, 63]        -- 1.00000012
def f2 : Bytes := [0, 0, 0, 64]           -- 2.0
def f3 : Bytes := [0, 0, 64, 64]          -- 3.0

/-- two disjoint triangles; vertex 3 is one float32 step away from vertex 0 -/
def exNearby : Geometry :=
  { isMesh := true, numPoints := 6, faces := [(0, 1, 2), (3, 4, 5)]
    atts := [
      { attType := tPOSITION, dataType := dtFLOAT32, numComponents := 3, normalized := false, uniqueId := 0,
        numValues := 6, map := none,
        values := f1 ++ f0 ++ f0 ++ (f2 ++ f0 ++ f0) ++ (f3 ++ f1 ++ f0) ++
                  (f1' ++ f0 ++ f0) ++ (f2 ++ f1 ++ f0) ++ (f3 ++ f3 ++ f0) } ] }

/-- **OBJ welds vertices closer than the text resolution**: all six corner positions of the source
    are different, the two triangles share no vertex; after the round trip corner 0 and corner 3
    are the same point (5 points instead of 6) — connectivity is *not* preserved exactly, although
    every coordinate is within the 6-decimal tolerance. -/
theorem obj_weld_violation :
    exNearby.valid = true ∧
    ((Obj.cornerPoints exNearby.faces).map (fun p => pointTuple exNearby p)).Nodup ∧
    (match objRoundTrip sixDecimalCodec true exNearby with
     | some (.ok g') => (g'.numPoints, (Obj.cornerPoints g'.faces)[0]? == (Obj.cornerPoints g'.faces)[3]?)
     | _ => (0, false)) = (5, true) := by decide

end Draco.C15
