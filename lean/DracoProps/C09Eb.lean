import DracoProps.C09
import DracoProofs.EbAssignPoints
/-
  C09 for Edgebreaker, on the CORNER-TABLE models (DracoModel/EbConnectivity.lean `assignPoints`,
  DracoModel/EbEncoder.lean `computeNumberOfEncodedPoints`): closes, on the decoder's side, the gap of DracoProps/C09.lean
  "how the fan is obtained from the corner table is not modelled".

  * `eb_decoded_points_fans`: the number of points `AssignPointsToCorners` (model `Eb.assignPoints`) creates is the sum,
    over the vertices with a left-most corner, of `Counts.decPoints` of the fan READ OFF THE CORNER TABLE (`fanOfD`:
    corners = the swing-right orbit of `vc[v]`, `closed = ¬ is_vert_hole_[v]`, `onSeam = IsCornerOnSeam(vc[v])` per
    attribute) — under the table invariants `APHyp` (opposite is an involution, the vertex is constant along swing-right,
    `vc[v]` is a corner of `v` from which every corner of `v` is reached, a vertex not marked as hole has a closed fan).
  * `eb_decoded_points_encoder_formula`: hence, with the per-fan theorem `C09.eb_point_count_fan`, that number is the sum
    of the ENCODER's per-vertex formula `Counts.encPoints` over the same fans, under H2 (seam flags sound).
  * `eb_points_refine_vertices`: corners with the same point have the same base vertex and the same vertex in every
    attribute corner table (the consistency `assign_points_correspond` rests on).
  Evaluated, not proved here: that the encoder's fans (`computeNumberOfEncodedPoints` on the encoder's table) are the
  images of the decoder's under the checked isomorphism, `processed.size = num_faces − NumDegeneratedFaces`
  (`counts-ok` compares both counts on every case).
-/
namespace Draco.C09Eb
open Draco Draco.Eb Draco.EbEnc Draco.Counts

/-- **points the decoder creates = Σ over the fans of the decoder's corner table** -/
theorem eb_decoded_points_fans (co : ConnOut) (n : Nat) (atts : Array AttConn) (c2p : Array Nat) (np tags : Nat)
    (hH : APHyp n co) (hne : atts.isEmpty = false) (hrun : assignPoints co n atts = .ok (c2p, np, tags)) :
    np = (((List.range co.vc.size).filter (fun v => co.vc[v]! != inv)).map
      (fun v => decPoints (fanOfD co atts v))).sum :=
  assignPoints_count co n atts c2p np tags hH hne hrun

/-- … = Σ of the ENCODER's per-vertex formula over the same fans, under H2 (an attribute that is not constant around an
    interior vertex has `IsCornerOnSeam` set at the left-most corner) -/
theorem eb_decoded_points_encoder_formula (co : ConnOut) (n : Nat) (atts : Array AttConn) (c2p : Array Nat)
    (np tags : Nat) (hH : APHyp n co) (hne : atts.isEmpty = false)
    (hrun : assignPoints co n atts = .ok (c2p, np, tags))
    (h2 : ∀ v, v < co.vc.size → co.vc[v]! ≠ inv → (fanOfD co atts v).closed = true →
      ∀ i, i < (fanOfD co atts v).onSeam.length →
        (∃ a ∈ (fanOfD co atts v).corners, ∃ b ∈ (fanOfD co atts v).corners, a.av.getD i 0 ≠ b.av.getD i 0) →
        (fanOfD co atts v).onSeam.getD i false = true) :
    np = (((List.range co.vc.size).filter (fun v => co.vc[v]! != inv)).map
      (fun v => encPoints (fanOfD co atts v))).sum := by
  rw [eb_decoded_points_fans co n atts c2p np tags hH hne hrun]
  congr 1
  apply List.map_congr_left
  intro v hv
  rw [List.mem_filter, List.mem_range] at hv
  have hne' : co.vc[v]! ≠ inv := by simpa using hv.2
  obtain ⟨s1, s2⟩ := fanOfD_shape co atts v hne'
  exact (C09.eb_point_count_fan _ s1 s2 (h2 v hv.1 hne')).symm

/-- corners with the same point: same base vertex, same vertex in every attribute corner table -/
theorem eb_points_refine_vertices (co : ConnOut) (n : Nat) (atts : Array AttConn) (c2p : Array Nat) (np tags : Nat)
    (hH : APHyp n co) (hne : atts.isEmpty = false) (hrun : assignPoints co n atts = .ok (c2p, np, tags)) :
    c2p.size = 3 * n ∧ (∀ c, c < 3 * n → c2p[c]! < np) ∧
    (∀ c c', c < 3 * n → c' < 3 * n → c2p[c]! = c2p[c']! →
      co.c2v[c]! = co.c2v[c']! ∧ ∀ a ∈ atts, a.c2v[c]! = a.c2v[c']!) :=
  assignPoints_consistent co n atts c2p np tags hH hne hrun

/-- a seamless attribute on the tetrahedron of `AP.tetra` -/
def exAtt : AttConn := ⟨Array.replicate 12 false, #[false, false, false, false],
  #[0, 1, 2, 0, 3, 1, 1, 3, 2, 2, 3, 0], #[0, 1, 2, 4], true⟩

set_option maxRecDepth 100000 in
set_option maxHeartbeats 4000000 in
/-- the decoder's run -/
theorem exAssign : assignPoints AP.tetra 4 #[exAtt] = .ok (#[0, 1, 2, 0, 3, 1, 1, 3, 2, 2, 3, 0], 4, 0) := by
  simp [assignPoints, AP.tetra, exAtt, rd, wr, rdB, Eb.vertex, Eb.swingRight, Eb.opposite, inv, Eb.prevC,
    Std.Legacy.Range.forIn_eq_forIn_range', Std.Legacy.Range.size, bind, Except.bind, pure, Except.pure, List.range'_succ]
  decide

/-- non-vacuity: four closed fans, one point each -/
example : (4 : Nat) = (((List.range AP.tetra.vc.size).filter (fun v => AP.tetra.vc[v]! != inv)).map
    (fun v => decPoints (fanOfD AP.tetra #[exAtt] v))).sum :=
  eb_decoded_points_fans AP.tetra 4 #[exAtt] _ 4 0 AP.tetra_hyp rfl exAssign

example : ∀ c c', c < 12 → c' < 12 → (#[0, 1, 2, 0, 3, 1, 1, 3, 2, 2, 3, 0] : Array Nat)[c]! =
    (#[0, 1, 2, 0, 3, 1, 1, 3, 2, 2, 3, 0] : Array Nat)[c']! → AP.tetra.c2v[c]! = AP.tetra.c2v[c']! :=
  fun c c' h1 h2 h => ((eb_points_refine_vertices AP.tetra 4 #[exAtt] _ 4 0 AP.tetra_hyp rfl exAssign).2.2 c c' h1 h2 h).1

end Draco.C09Eb
