import DracoProps.C09
import DracoProofs.EbAssignPoints
import DracoProofs.EbEncCounts2
import DracoProofs.EbCountsIso
import DracoProofs.EbIsoCheck
import DracoProofs.EbCoverage
import DracoProofs.EbConnExample
import DracoProofs.EbCountsRun
import DracoProofs.EbCountsStream
import DracoProofs.EbCountsExample
/-
  C09 for Edgebreaker, on the CORNER-TABLE models (DracoModel/EbConnectivity.lean `assignPoints`,
  DracoModel/EbEncoder.lean `computeNumberOfEncodedPoints`): closes, on the decoder's side, the gap of DracoProps/C09.lean
  "how the fan is obtained from the corner table is not modelled".

  * `eb_decoded_points_fans`: the number of points `AssignPointsToCorners` (model `Eb.assignPoints`) creates is the sum,
    over the vertices with a left-most corner, of `Counts.decPoints` of the fan READ OFF THE CORNER TABLE (`fanOfD`:
    corners = the swing-right orbit of `vc[v]`, `closed = ¬ is_vert_hole_[v]`, `onSeam = IsCornerOnSeam(vc[v])` per
    attribute) — under the table invariants `APHyp` (opposite is an involution, the vertex is constant along swing-right,
    `vc[v]` is a corner of `v` from which every corner of `v` is reached, a vertex not marked as hole has a closed fan).
  * `eb_decoded_points_encoder_formula`: hence, with the per-fan theorem `C09.eb_point_count_fan`, that number is the sum
    of the ENCODER's per-vertex formula `Counts.encPoints` over the same fans, under H2 (seam flags sound).
  * `eb_points_refine_vertices`: corners with the same point have the same base vertex and the same vertex in every
    attribute corner table (the consistency `assign_points_correspond` rests on).
  * `eb_encoded_points_fans` (ENCODER half): `ComputeNumberOfEncodedPoints` (model `computeNumberOfEncodedPoints`) returns
    `(num_vertices − isolated) + Σ_v (encPoints (fanOfE …) − 1)` with the fan READ OFF the encoder's corner table
    (`fanOfE`: swing-right walk from `vc[v]`, `closed = SwingLeft(vc[v]) ≠ invalid`), when the closedness test agrees with
    the walk (`ClosedOK`; derived from table invariants / `CornerTable.create` in DracoProofs/EbEncCounts2.lean:
    `computeNumberOfEncodedPoints_tbl`, `_create`, `_of_encode`); `= num_vertices − isolated` for ≤ 1 attribute.
  * `eb_encoded_points_eq_decoded`: the two counts are EQUAL under the isomorphism of the tables, the correspondence of
    the attribute vertices, H2, coverage and `hiso` (fans correspond: `CountsIso.fan_corr`).
  * `eb_encoded_points_eq_decoded_of_run` / `_single_of_run`: the same with every ENCODER-side hypothesis (table invariants,
    `hvcE`, `hiso`, `Coverage`) discharged from the successful `encodeConnectivity`; left: the connectivity link (`TVIso`, from
    `ctIso`) and decoder-side facts (`APHyp`, hole flag ⇒ boundary, `AttVertIff`, `SeamFlagsSound`).
  * `eb_encoded_faces` (FACES, encoder side, unconditional): the number of faces the encoder reports,
    `num_faces − NumDegeneratedFaces`, IS the number of faces of `processed_connectivity_corners_` (one per traversal symbol /
    interior start face, i.e. what a decoder rebuilds); these faces are pairwise different and exactly the non-degenerate
    faces of the encoder's corner table (traversal completeness, DracoProofs/EbCoverage.lean: a graph-search invariant of
    `EncodeConnectivityFromCorner` — the C-chain descent — over the tables `CornerTable.create` builds).
  `counts-ok` compares both counts on every case.
-/
namespace Draco.C09Eb
open Draco Draco.Eb Draco.EbEnc Draco.Counts

/-- **points the decoder creates = Σ over the fans of the decoder's corner table** -/
theorem eb_decoded_points_fans (co : ConnOut) (n : Nat) (atts : Array AttConn) (c2p : Array Nat) (np tags : Nat)
    (hH : APHyp n co) (hne : atts.isEmpty = false) (hrun : assignPoints co n atts = .ok (c2p, np, tags)) :
    np = (((List.range co.vc.size).filter (fun v => co.vc[v]! != inv)).map
      (fun v => decPoints (fanOfD co atts v))).sum :=
  assignPoints_count co n atts c2p np tags hH hne hrun

/-- … = Σ of the ENCODER's per-vertex formula over the same fans, under H2 (an attribute that is not constant around an
    interior vertex has `IsCornerOnSeam` set at the left-most corner) -/
theorem eb_decoded_points_encoder_formula (co : ConnOut) (n : Nat) (atts : Array AttConn) (c2p : Array Nat)
    (np tags : Nat) (hH : APHyp n co) (hne : atts.isEmpty = false)
    (hrun : assignPoints co n atts = .ok (c2p, np, tags))
    (h2 : ∀ v, v < co.vc.size → co.vc[v]! ≠ inv → (fanOfD co atts v).closed = true →
      ∀ i, i < (fanOfD co atts v).onSeam.length →
        (∃ a ∈ (fanOfD co atts v).corners, ∃ b ∈ (fanOfD co atts v).corners, a.av.getD i 0 ≠ b.av.getD i 0) →
        (fanOfD co atts v).onSeam.getD i false = true) :
    np = (((List.range co.vc.size).filter (fun v => co.vc[v]! != inv)).map
      (fun v => encPoints (fanOfD co atts v))).sum := by
  rw [eb_decoded_points_fans co n atts c2p np tags hH hne hrun]
  congr 1
  apply List.map_congr_left
  intro v hv
  rw [List.mem_filter, List.mem_range] at hv
  have hne' : co.vc[v]! ≠ inv := by simpa using hv.2
  obtain ⟨s1, s2⟩ := fanOfD_shape co atts v hne'
  exact (C09.eb_point_count_fan _ s1 s2 (h2 v hv.1 hne')).symm

/-- corners with the same point: same base vertex, same vertex in every attribute corner table -/
theorem eb_points_refine_vertices (co : ConnOut) (n : Nat) (atts : Array AttConn) (c2p : Array Nat) (np tags : Nat)
    (hH : APHyp n co) (hne : atts.isEmpty = false) (hrun : assignPoints co n atts = .ok (c2p, np, tags)) :
    c2p.size = 3 * n ∧ (∀ c, c < 3 * n → c2p[c]! < np) ∧
    (∀ c c', c < 3 * n → c' < 3 * n → c2p[c]! = c2p[c']! →
      co.c2v[c]! = co.c2v[c']! ∧ ∀ a ∈ atts, a.c2v[c]! = a.c2v[c']!) :=
  assignPoints_consistent co n atts c2p np tags hH hne hrun

/-- a seamless attribute on the tetrahedron of `AP.tetra` -/
def exAtt : AttConn := ⟨Array.replicate 12 false, #[false, false, false, false],
  #[0, 1, 2, 0, 3, 1, 1, 3, 2, 2, 3, 0], #[0, 1, 2, 4], true⟩

set_option maxRecDepth 100000 in
set_option maxHeartbeats 4000000 in
/-- the decoder's run -/
theorem exAssign : assignPoints AP.tetra 4 #[exAtt] = .ok (#[0, 1, 2, 0, 3, 1, 1, 3, 2, 2, 3, 0], 4, 0) := by
  simp [assignPoints, AP.tetra, exAtt, rd, wr, rdB, Eb.vertex, Eb.swingRight, Eb.opposite, inv, Eb.prevC,
    Std.Legacy.Range.forIn_eq_forIn_range', Std.Legacy.Range.size, bind, Except.bind, pure, Except.pure, List.range'_succ]
  decide

/-- non-vacuity: four closed fans, one point each -/
example : (4 : Nat) = (((List.range AP.tetra.vc.size).filter (fun v => AP.tetra.vc[v]! != inv)).map
    (fun v => decPoints (fanOfD AP.tetra #[exAtt] v))).sum :=
  eb_decoded_points_fans AP.tetra 4 #[exAtt] _ 4 0 AP.tetra_hyp rfl exAssign

example : ∀ c c', c < 12 → c' < 12 → (#[0, 1, 2, 0, 3, 1, 1, 3, 2, 2, 3, 0] : Array Nat)[c]! =
    (#[0, 1, 2, 0, 3, 1, 1, 3, 2, 2, 3, 0] : Array Nat)[c']! → AP.tetra.c2v[c]! = AP.tetra.c2v[c']! :=
  fun c c' h1 h2 h => ((eb_points_refine_vertices AP.tetra 4 #[exAtt] _ 4 0 AP.tetra_hyp rfl exAssign).2.2 c c' h1 h2 h).1

open Draco.EbEnc.EncCounts in
/-- **points the encoder reports = (vertices − isolated) + Σ over the fans of the encoder's corner table** -/
theorem eb_encoded_points_fans (atts : Array Attribute) (conn : ConnEnc) (used : Array AttConn) (n : Nat)
    (hatts : atts.size > 1)
    (hcl : ∀ v, v < conn.ct.numVertices → conn.ct.vc[v]! ≠ inv → ClosedOK conn.ct v)
    (h : computeNumberOfEncodedPoints atts conn used = .ok n) :
    n = (conn.ct.numVertices - conn.ct.numIsolated) +
      ((List.range conn.ct.numVertices).map (extraPoints conn.ct used)).sum :=
  computeNumberOfEncodedPoints_fan atts conn used n hatts hcl h

open Draco.EbEnc.EncCounts in
/-- non-vacuity: a closed fan of three triangles, one attribute table with a seam: 4 vertices + 1 -/
example : (5 : Nat) = (exConn.ct.numVertices - exConn.ct.numIsolated) +
    ((List.range exConn.ct.numVertices).map (extraPoints exConn.ct #[EncCounts.exAtt])).sum :=
  eb_encoded_points_fans #[exAttr, exAttr] exConn #[EncCounts.exAtt] 5 (by decide)
    (by intro v hv _
        have hv' : v < 4 := hv
        obtain rfl | rfl | rfl | rfl : v = 0 ∨ v = 1 ∨ v = 2 ∨ v = 3 := by omega
        all_goals (unfold ClosedOK; decide +kernel))
    (by decide +kernel)

open Draco.EbEnc.CountsIso Draco.EbEnc.EncCounts Draco.EbEnc.AttViews in
/-- **C09, points, Edgebreaker: the number of points the encoder reports equals the number the decoder creates**
    (more than one attribute): `ComputeNumberOfEncodedPoints` on the encoder's corner table (`hrunE`) against
    `AssignPointsToCorners` on the decoder's (`hrunD`), under
    `hF` (`FanHyps`): the base views are isomorphic (`TVIso`, from `ctIso`), the table invariants of both sides, a vertex the
      decoder marks as hole lies on the boundary;
    `hiff`: two decoder corners have the same vertex in attribute table `i` iff their images have (`eb_att_views_iso`);
    `h2`: the decoder's seam flags are sound (H2 of `eb_point_count_fan`);
    `hcov`: every encoder vertex with a left-most corner is the image of a decoder vertex (traversal coverage);
    `hiso`: `num_vertices − NumIsolatedVertices` is the number of vertices with a left-most corner.
    Proof: both counts are sums over the fans read off the corner tables (`eb_encoded_points_fans`, `eb_decoded_points_fans`),
    the fans correspond (`fan_corr`: images under the corner map, up to rotation when closed; the counts only see the equality
    pattern of the attribute vertices), and per fan encoder formula = decoder count (`eb_point_count_fan`). -/
theorem eb_encoded_points_eq_decoded (atts : Array Attribute) (conn : ConnEnc) (used : Array AttConn) (nE : Nat)
    (co : ConnOut) (n : Nat) (attsD : Array AttConn) (c2p : Array Nat) (nD tags : Nat) (φ ψ : Nat → Nat)
    (hatts : atts.size > 1)
    (hrunE : computeNumberOfEncodedPoints atts conn used = .ok nE)
    (hne : attsD.isEmpty = false)
    (hrunD : assignPoints co n attsD = .ok (c2p, nD, tags))
    (hF : FanHyps n co conn.ct φ ψ)
    (hiff : AttVertIff n attsD used φ)
    (h2 : SeamFlagsSound co attsD)
    (hcov : Coverage n conn.ct φ)
    (hiso : conn.ct.numVertices - conn.ct.numIsolated = (usedVerts conn.ct.vc).length) :
    nE = nD :=
  CountsIso.eb_encoded_points_eq_decoded atts conn used nE co n attsD c2p nD tags φ ψ hatts hrunE hne hrunD hF hiff h2 hcov hiso

section TetraExample
open Draco.EbEnc.CountsIso Draco.EbEnc.EncCounts Draco.EbEnc.AttViews

def tetraCT : CT := ⟨AP.tetra.c2v, AP.tetra.opp, AP.tetra.vc, 0, 0⟩
def tetraConn : ConnEnc := { (default : ConnEnc) with ct := tetraCT }
def tetraPhi : Nat → Nat := phi #[0, 3, 6, 9]
def tetraPsi : Nat → Nat := fun v => (#[0, 1, 2, 3] : Array Nat)[v]!

theorem tetraPhi_id (d : Nat) (h : d < 12) : tetraPhi d = d := by
  have : ∀ d, d < 12 → tetraPhi d = d := by decide +kernel
  exact this d h

theorem tetraFanHyps : FanHyps 4 AP.tetra tetraCT tetraPhi tetraPsi where
  iso := tvIsoCheck_sound _ _ _ #[0, 1, 2, 3] #[0, 1, 2, 3] #[0, 1, 2, 3, 4, 5, 6, 7, 8, 9, 10, 11] (by decide +kernel)
  dec := AP.tetra_hyp
  hole := by
    intro v hv _ h
    have hv' : v < 4 := hv
    obtain rfl | rfl | rfl | rfl : v = 0 ∨ v = 1 ∨ v = 2 ∨ v = 3 := by omega
    all_goals exact absurd h (by decide)
  encB := ⟨by decide, by decide, by decide, by decide +kernel⟩
  encVc := by decide +kernel
  encLm := by
    intro w hw _ _
    have hw' : w < 4 := hw
    obtain rfl | rfl | rfl | rfl : w = 0 ∨ w = 1 ∨ w = 2 ∨ w = 3 := by omega
    all_goals exact AP.closed_of_period (J := 2) (by decide) (by decide)
  encCov := by
    intro d hd
    have hd' : d < 12 := hd
    rw [tetraPhi_id d hd']
    obtain ⟨_, _, k, hk⟩ := AP.tetra_hyp.cover d hd
    exact ⟨k, hk⟩

theorem tetraEncRun : computeNumberOfEncodedPoints #[default, default] tetraConn #[exAtt] = .ok 4 := by decide +kernel

/-- non-vacuity: the tetrahedron with one seamless attribute table, identity isomorphism: 4 = 4 points -/
example : (4 : Nat) = 4 :=
  eb_encoded_points_eq_decoded #[default, default] tetraConn #[exAtt] 4 AP.tetra 4 #[exAtt] _ 4 0 tetraPhi tetraPsi
    (by decide) tetraEncRun rfl exAssign tetraFanHyps
    (by
      refine ⟨rfl, fun i hi c c' hc hc' => ?_⟩
      rw [tetraPhi_id c hc, tetraPhi_id c' hc'])
    (by
      intro v hv
      have hv' : v < 4 := hv
      obtain rfl | rfl | rfl | rfl : v = 0 ∨ v = 1 ∨ v = 2 ∨ v = 3 := by omega
      all_goals decide +kernel)
    (by unfold Coverage; decide +kernel) (by decide +kernel)

end TetraExample

open Draco.EbEnc.CountsIso Draco.EbEnc.EncCounts Draco.EbEnc.AttViews in
/-- **C09, points, Edgebreaker, from the encoder's run** (more than one attribute): `eb_encoded_points_eq_decoded` with
    EVERY hypothesis about the encoder's corner table discharged from the successful `encodeConnectivity` (`henc`):
    the table is `CornerTable.create`'s (`encodeConnectivity_visited`); `Opposite` is an involution, a recorded left-most
    corner is a corner of its vertex in a non-degenerate face (`ofTable_hvcE`, `create_vertexCorners_nondeg`: new loop
    invariants of `ComputeVertexCorners`), a left-most corner with a left neighbour lies on a closed fan, every corner of a
    non-degenerate face is reached from its vertex's left-most corner; `num_vertices − NumIsolatedVertices` is the number of
    vertices with a left-most corner (`ofTable_hiso`); and COVERAGE is a theorem (`coverage_of_run`, from traversal
    completeness `Coverage.encodeConnectivity_coverage`).  Left: the connectivity link `hiso` (from `ctIso`), and
    decoder-side facts: `hdec` (`APHyp`: the decoder's table has fans, an unmarked vertex has a closed fan), `hhole` (a vertex
    the decoder still marks as hole vertex is on the boundary), `hiff` (attribute vertices correspond), `h2` (seam flags sound). -/
theorem eb_encoded_points_eq_decoded_of_run {ch : ConnChoices} {valence : Bool} {posFaces : Faces}
    {acv : Array (Nat × Array Nat)} {conn : ConnEnc} (atts : Array Attribute) (used : Array AttConn) (nE : Nat)
    (co : ConnOut) (n : Nat) (attsD : Array AttConn) (c2p : Array Nat) (nD tags : Nat) (ψ : Nat → Nat)
    (hatts : atts.size > 1)
    (hrunE : computeNumberOfEncodedPoints atts conn used = .ok nE)
    (henc : encodeConnectivity ch valence posFaces acv = .ok conn)
    (hne : attsD.isEmpty = false)
    (hrunD : assignPoints co n attsD = .ok (c2p, nD, tags))
    (hn : n = conn.processed.size)
    (hiso : TVIso (baseViewD n co.c2v co.opp co.vc) conn.ct.view (phi conn.processed) ψ)
    (hdec : APHyp n co)
    (hhole : ∀ v, v < co.vc.size → co.vc[v]! ≠ inv → co.hole[v]! = true → ∃ k, iter (sRP co.opp) k co.vc[v]! = inv)
    (hiff : AttVertIff n attsD used (phi conn.processed))
    (h2 : SeamFlagsSound co attsD) : nE = nD :=
  CountsIso.eb_encoded_points_eq_decoded_of_run atts used nE co n attsD c2p nD tags ψ hatts hrunE henc hne hrunD hn hiso hdec
    hhole hiff h2

open Draco.EbEnc.CountsIso Draco.EbEnc.EncCounts Draco.EbEnc.AttViews in
/-- the position-only configuration (`num_attributes() ≤ 1`, no attribute corner table on the decoder's side): both sides
    report their number of vertices in use; `hconn`: the decoder's `num_connectivity_verts` is the number of its vertices
    that have a left-most corner -/
theorem eb_encoded_points_eq_decoded_single_of_run {ch : ConnChoices} {valence : Bool} {posFaces : Faces}
    {acv : Array (Nat × Array Nat)} {conn : ConnEnc} (atts : Array Attribute) (used : Array AttConn) (nE : Nat)
    (co : ConnOut) (n : Nat) (attsD : Array AttConn) (c2p : Array Nat) (nD tags : Nat) (ψ : Nat → Nat)
    (hatts : atts.size ≤ 1)
    (hrunE : computeNumberOfEncodedPoints atts conn used = .ok nE)
    (henc : encodeConnectivity ch valence posFaces acv = .ok conn)
    (hne : attsD.isEmpty = true)
    (hrunD : assignPoints co n attsD = .ok (c2p, nD, tags))
    (hn : n = conn.processed.size)
    (hiso : TVIso (baseViewD n co.c2v co.opp co.vc) conn.ct.view (phi conn.processed) ψ)
    (hdec : APHyp n co)
    (hhole : ∀ v, v < co.vc.size → co.vc[v]! ≠ inv → co.hole[v]! = true → ∃ k, iter (sRP co.opp) k co.vc[v]! = inv)
    (hconn : co.numConnVerts = (usedVerts co.vc).length) : nE = nD :=
  CountsIso.eb_encoded_points_eq_decoded_single_of_run atts used nE co n attsD c2p nD tags ψ hatts hrunE henc hne hrunD hn hiso
    hdec hhole hconn

section TriExample
open Draco.EbEnc.CountsIso Draco.EbEnc.EncCounts Draco.EbEnc.AttViews Draco.EbEnc.ConnExample

/-- one triangle, one attribute data (attribute 1, corner values 0 1 2) -/
def triAcv : Array (Nat × Array Nat) := #[(1, #[0, 1, 2])]
/-- the encoder's connectivity result (value of the closed term) -/
def triConn : ConnEnc :=
  match encodeConnectivity exCh.conn false #[(0, 1, 2)] triAcv with
  | .ok c => c
  | .error _ => default

theorem triEncode : encodeConnectivity exCh.conn false #[(0, 1, 2)] triAcv = .ok triConn := by
  have h : (match encodeConnectivity exCh.conn false #[(0, 1, 2)] triAcv with | .ok _ => true | .error _ => false) = true := by
    decide +kernel
  unfold triConn
  split at h
  · rename_i e he; rw [he]
  · exact absurd h (by decide)

/-- the decoder's attribute corner table of the triangle (`buildAttConn`, `C01Eb.AttViewsExample.exBuild1`) -/
def triAttD : AttConn := ⟨#[true, true, true], #[true, true, true], #[0, 1, 2], #[0, 1, 2], true⟩

theorem triRunE : computeNumberOfEncodedPoints #[default, default] triConn #[(triConn.atts[0]!).conn] = .ok 3 := by
  have h : (match computeNumberOfEncodedPoints #[default, default] triConn #[(triConn.atts[0]!).conn] with
      | .ok n => n == 3 | .error _ => false) = true := by decide +kernel
  split at h
  · rename_i n hn; rw [hn, eq_of_beq h]
  · exact absurd h (by decide)

theorem triRunD : assignPoints exCo 1 #[triAttD] = .ok (#[0, 1, 2], 3, 1048576) := by
  have h : (match assignPoints exCo 1 #[triAttD] with
      | .ok r => r == (#[0, 1, 2], 3, 1048576) | .error _ => false) = true := by decide +kernel
  split at h
  · rename_i r hr; rw [hr, eq_of_beq h]
  · exact absurd h (by decide)

theorem triAPHyp : APHyp 1 exCo := by
  refine ⟨⟨⟨by decide, by decide, by decide, by decide⟩, by decide, ?_⟩, ?_, ?_⟩
  · intro v hv
    have hv' : v < 3 := hv
    obtain rfl | rfl | rfl : v = 0 ∨ v = 1 ∨ v = 2 := by omega
    all_goals decide
  · intro c hc
    have hc' : c < 3 := hc
    obtain rfl | rfl | rfl : c = 0 ∨ c = 1 ∨ c = 2 := by omega
    all_goals exact ⟨by decide, by decide, 0, by decide⟩
  · intro v hv _ h
    have hv' : v < 3 := hv
    obtain rfl | rfl | rfl : v = 0 ∨ v = 1 ∨ v = 2 := by omega
    all_goals exact absurd h (by decide)

/-- non-vacuity of `eb_encoded_points_eq_decoded_of_run`: one triangle with a POSITION and one more attribute — the
    encoder's run `triEncode` is the model's, the decoder's table `exCo` is what `connLoop` builds (`ConnExample.exConn`):
    3 = 3 points -/
example : (3 : Nat) = 3 :=
  eb_encoded_points_eq_decoded_of_run #[default, default] #[(triConn.atts[0]!).conn] 3 exCo 1 #[triAttD] _ 3 _
    (fun v => (#[0, 1, 2] : Array Nat)[v]!) (by decide) triRunE triEncode rfl triRunD (by decide +kernel)
    (tvIsoCheck_sound _ _ _ #[0, 1, 2] #[0, 1, 2] #[0, 1, 2] (by decide +kernel)) triAPHyp
    (by
      intro v hv _ _
      have hv' : v < 3 := hv
      obtain rfl | rfl | rfl : v = 0 ∨ v = 1 ∨ v = 2 := by omega
      all_goals exact ⟨1, by decide +kernel⟩)
    (by
      refine ⟨rfl, fun i hi c c' hc hc' => ?_⟩
      have hi' : i < 1 := hi
      obtain rfl : i = 0 := by omega
      have hc3 : c < 3 := hc
      have hc3' : c' < 3 := hc'
      obtain rfl | rfl | rfl : c = 0 ∨ c = 1 ∨ c = 2 := by omega
      all_goals (obtain rfl | rfl | rfl : c' = 0 ∨ c' = 1 ∨ c' = 2 := by omega) <;> decide +kernel)
    (by
      intro v hv
      have hv' : v < 3 := hv
      obtain rfl | rfl | rfl : v = 0 ∨ v = 1 ∨ v = 2 := by omega
      all_goals decide +kernel)


/-- the position-only run on the triangle -/
def tri0Conn : ConnEnc :=
  match encodeConnectivity exCh.conn false #[(0, 1, 2)] #[] with
  | .ok c => c
  | .error _ => default

theorem tri0Encode : encodeConnectivity exCh.conn false #[(0, 1, 2)] #[] = .ok tri0Conn := by
  have h : (match encodeConnectivity exCh.conn false #[(0, 1, 2)] #[] with | .ok _ => true | .error _ => false) = true := by
    decide +kernel
  unfold tri0Conn
  split at h
  · rename_i e he; rw [he]
  · exact absurd h (by decide)

theorem tri0RunE : computeNumberOfEncodedPoints #[default] tri0Conn #[] = .ok 3 := by
  have h : (match computeNumberOfEncodedPoints #[default] tri0Conn #[] with
      | .ok n => n == 3 | .error _ => false) = true := by decide +kernel
  split at h
  · rename_i n hn; rw [hn, eq_of_beq h]
  · exact absurd h (by decide)

/-- non-vacuity of `eb_encoded_points_eq_decoded_single_of_run`: the triangle with its POSITION attribute only -/
example : (3 : Nat) = 3 :=
  eb_encoded_points_eq_decoded_single_of_run #[default] #[] 3 exCo 1 #[] _ 3 _
    (fun v => (#[0, 1, 2] : Array Nat)[v]!) (by decide) tri0RunE tri0Encode rfl exAssignPts (by decide +kernel)
    (tvIsoCheck_sound _ _ _ #[0, 1, 2] #[0, 1, 2] #[0, 1, 2] (by decide +kernel)) triAPHyp
    (by
      intro v hv _ _
      have hv' : v < 3 := hv
      obtain rfl | rfl | rfl : v = 0 ∨ v = 1 ∨ v = 2 := by omega
      all_goals exact ⟨1, by decide +kernel⟩)
    (by decide +kernel)

end TriExample

open Draco.EbEnc.CountsIso Draco.EbEnc.EncCounts Draco.EbEnc.AttViews in
/-- **C09 at the level of the REPORTED counts, position-only geometries**: `enc.numEncodedPoints` / `enc.numEncodedFaces`
    (what `encodeEdgebreaker` reports) equal `mesh.numPoints` / `mesh.numFaces` of a mesh `decodeConnectivity` returned
    (`hst : DecStagesOf mesh co` — the decoder's stages, obtained by inversion from any successful `decodeConnectivity`:
    `Eb.decodeConnectivity_stages_runs`), given the connectivity link (`hn`, `hiso`) and the decoder-side table facts
    (`hdec`, `hhole`, `hconnV`).  The multi-attribute form is `CountsIso.eb_encoded_counts_of_link` (DracoProofs/EbCountsStream.lean);
    its seam hypothesis compares attribute tables index by index, which fits only when every attribute data has an interior
    seam (the encoder counts on the tables of the controllers that encode on their attribute table, the decoder on all). -/
theorem eb_encoded_counts_of_link_single {ch : EbChoices} {g : Geometry} {md : Option GeometryMetadata} {o : EbOpts}
    {enc : Encoded} (henc : encodeEdgebreaker ch g md o = .ok enc)
    {mesh : Mesh} {co : ConnOut} (hst : DecStagesOf mesh co) (ψ : Nat → Nat)
    (hatts : g.atts.length ≤ 1)
    (hne : mesh.atts.isEmpty = true)
    (hn : mesh.numFaces = enc.conn.processed.size)
    (hiso : TVIso (baseViewD mesh.numFaces co.c2v co.opp co.vc) enc.conn.ct.view (phi enc.conn.processed) ψ)
    (hdec : APHyp mesh.numFaces co)
    (hhole : ∀ v, v < co.vc.size → co.vc[v]! ≠ inv → co.hole[v]! = true → ∃ k, iter (sRP co.opp) k co.vc[v]! = inv)
    (hconnV : co.numConnVerts = (usedVerts co.vc).length) :
    enc.numEncodedPoints = mesh.numPoints ∧ enc.numEncodedFaces = mesh.numFaces :=
  CountsIso.eb_encoded_counts_of_link_single henc hst ψ hatts hne hn hiso hdec hhole hconnV

open Draco.EbEnc.CountsIso Draco.EbEnc.EncCounts Draco.EbEnc.AttViews Draco.EbEnc.ConnExample in
/-- non-vacuity: the one-triangle stream of DracoProofs/EbConnExample.lean: the encoder reports 3 points and 1 face, the
    decoded mesh `exMesh` (`exConnLink`) has 3 points and 1 face -/
example : exEnc.numEncodedPoints = ConnExample.exMesh.numPoints ∧ exEnc.numEncodedFaces = ConnExample.exMesh.numFaces :=
  eb_encoded_counts_of_link_single exEncode (mesh := ConnExample.exMesh) (co := exCo)
    ⟨⟨1, 3, 1, [], true⟩, exTrav [], #[], 0, exConn [], rfl, rfl, rfl, rfl, by simp [pure, Except.pure, ConnExample.exMesh],
      exAssignPts⟩
    (fun v => (#[0, 1, 2] : Array Nat)[v]!) (by decide) (by decide) (by decide +kernel)
    (tvIsoCheck_sound _ _ _ #[0, 1, 2] #[0, 1, 2] #[0, 1, 2] (by decide +kernel)) triAPHyp
    (by
      intro v hv _ _
      have hv' : v < 3 := hv
      obtain rfl | rfl | rfl : v = 0 ∨ v = 1 ∨ v = 2 := by omega
      all_goals exact ⟨1, by decide +kernel⟩)
    (by decide +kernel)

open Draco.EbEnc.CountsIso Draco.EbEnc.EncCounts Draco.EbEnc.AttViews Draco.EbEnc.Seams in
/-- **C09 at the level of the REPORTED counts, more than one attribute**: `enc.numEncodedPoints` / `enc.numEncodedFaces` equal
    `mesh.numPoints` / `mesh.numFaces` of a mesh `decodeConnectivity` returned (`hst`), given the connectivity link (`hn`, `hiso`),
    the SEAM link `hlink` (the decoder's attribute connectivity data carry the encoder's seam edge flags under the corner map —
    index-wise over `attribute_data_`; `ConnGlueAtt.link_of_loop_att'` concludes exactly this), and the decoder-side table
    facts (`hdec`, `hszc`, `hhole`).  The encoder counts only on the attribute tables of the controllers that encode on their
    attribute table (interior seams), the decoder on all attribute data: aligned along the index map `sigmaOf enc`
    (`EbCountsAlign*.lean`: a decoder table without interior seams is constant on every fan; `noInt_transfer`; `hoff_of_run`). -/
theorem eb_encoded_counts_of_link {ch : EbChoices} {g : Geometry} {md : Option GeometryMetadata} {o : EbOpts}
    {enc : Encoded} (henc : encodeEdgebreaker ch g md o = .ok enc)
    {mesh : Mesh} {co : ConnOut} (hst : DecStagesOf mesh co) (ψ : Nat → Nat)
    (hatts : g.atts.length > 1)
    (hne : mesh.atts.isEmpty = false)
    (hn : mesh.numFaces = enc.conn.processed.size)
    (hiso : TVIso (baseViewD mesh.numFaces co.c2v co.opp co.vc) enc.conn.ct.view (phi enc.conn.processed) ψ)
    (hdec : APHyp mesh.numFaces co) (hszc : co.c2v.size = 3 * mesh.numFaces)
    (hhole : ∀ v, v < co.vc.size → co.vc[v]! ≠ inv → co.hole[v]! = true → ∃ k, iter (sRP co.opp) k co.vc[v]! = inv)
    (hlink : SeamLink mesh.numFaces mesh.atts (enc.conn.atts.map (·.conn)) (phi enc.conn.processed)) :
    enc.numEncodedPoints = mesh.numPoints ∧ enc.numEncodedFaces = mesh.numFaces :=
  CountsIso.eb_encoded_counts_of_link''' henc hst ψ hatts hne hn hiso hdec hszc hhole hlink

open Draco.EbEnc.CountsExample in
/-- non-vacuity: two triangles sharing an edge, a POSITION attribute and a GENERIC attribute with different values across
    the shared edge (an interior seam: the second controller encodes on its attribute table); the encoder's run and every
    decoder stage are the models' own, evaluated by the kernel (DracoProofs/EbCountsExample.lean): 6 = 6 points, 2 = 2 faces -/
example : exEnc2.numEncodedPoints = exMesh2.numPoints ∧ exEnc2.numEncodedFaces = exMesh2.numFaces :=
  eb_encoded_counts_of_link exEncode2 exStages2 exPsi2 (by decide) (by decide +kernel) (by decide +kernel)
    exIso2 exAPHyp2 (by decide +kernel) exHole2 exSeamLink2

open Draco.EbEnc.EncCounts in
/-- **C09, faces, Edgebreaker (encoder side), unconditional.**  After a successful `encodeEdgebreaker` the reported
    number of encoded faces (`ComputeNumberOfEncodedFaces` = `num_faces − NumDegeneratedFaces` of the position corner
    table) equals the number of `processed_connectivity_corners_`; their faces are pairwise different, not degenerate,
    and EVERY non-degenerate face of the table is among them (`Coverage.encodeConnectivity_coverage`).  With the
    connectivity link (`mesh.numFaces = processed.size`, part of `ctIso`) this is "encoded faces = decoded faces". -/
theorem eb_encoded_faces (ch : EbChoices) (g : Geometry) (md : Option GeometryMetadata) (o : EbOpts) (enc : Encoded)
    (henc : encodeEdgebreaker ch g md o = .ok enc) :
    enc.numEncodedFaces = enc.conn.processed.size ∧
    (enc.conn.processed.toList.map (· / 3)).Nodup ∧
    (∀ c ∈ enc.conn.processed.toList, c < enc.conn.ct.numCorners ∧ isDegenerated enc.conn.ct (c / 3) = .ok false) ∧
    (∀ f, f < enc.conn.ct.numFaces → isDegenerated enc.conn.ct f = .ok false →
      f ∈ enc.conn.processed.toList.map (· / 3)) := by
  obtain ⟨_, coder, posFaces, acv, _, _, _, _, _, hconn, _, _, _, _, _, _, _, hnf, _⟩ :=
    (encodeEdgebreaker_stages ch g md o enc henc).stages
  have hf := encodeConnectivity_faces ch.conn (coder == 2) posFaces acv enc.conn hconn
  have hc := Coverage.encodeConnectivity_coverage ch.conn (coder == 2) posFaces acv enc.conn hconn
  exact ⟨by rw [hnf, Coverage.encodeConnectivity_size ch.conn (coder == 2) posFaces acv enc.conn hconn], hf.1, hf.2.1, hc⟩

/-- non-vacuity: the one-triangle run of DracoProofs/EbConnExample.lean -/
example : ConnExample.exEnc.numEncodedFaces = ConnExample.exEnc.conn.processed.size :=
  (eb_encoded_faces _ _ _ _ _ ConnExample.exEncode).1

end Draco.C09Eb
