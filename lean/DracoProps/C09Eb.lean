import DracoProps.C09
import DracoProofs.EbAssignPoints
import DracoProofs.EbEncCounts2
/-
  C09 for Edgebreaker, on the CORNER-TABLE models (DracoModel/EbConnectivity.lean `assignPoints`,
  DracoModel/EbEncoder.lean `computeNumberOfEncodedPoints`): closes, on the decoder's side, the gap of DracoProps/C09.lean
  "how the fan is obtained from the corner table is not modelled".

  * `eb_decoded_points_fans`: the number of points `AssignPointsToCorners` (model `Eb.assignPoints`) creates is the sum,
    over the vertices with a left-most corner, of `Counts.decPoints` of the fan READ OFF THE CORNER TABLE (`fanOfD`:
    corners = the swing-right orbit of `vc[v]`, `closed = ¬ is_vert_hole_[v]`, `onSeam = IsCornerOnSeam(vc[v])` per
    attribute) — under the table invariants `APHyp` (opposite is an involution, the vertex is constant along swing-right,
    `vc[v]` is a corner of `v` from which every corner of `v` is reached, a vertex not marked as hole has a closed fan).
  * `eb_decoded_points_encoder_formula`: hence, with the per-fan theorem `C09.eb_point_count_fan`, that number is the sum
    of the ENCODER's per-vertex formula `Counts.encPoints` over the same fans, under H2 (seam flags sound).
  * `eb_points_refine_vertices`: corners with the same point have the same base vertex and the same vertex in every
    attribute corner table (the consistency `assign_points_correspond` rests on).
  * `eb_encoded_points_fans` (ENCODER half): `ComputeNumberOfEncodedPoints` (model `computeNumberOfEncodedPoints`) returns
    `(num_vertices − isolated) + Σ_v (encPoints (fanOfE …) − 1)` with the fan READ OFF the encoder's corner table
    (`fanOfE`: swing-right walk from `vc[v]`, `closed = SwingLeft(vc[v]) ≠ invalid`), when the closedness test agrees with
    the walk (`ClosedOK`; derived from table invariants / `CornerTable.create` in DracoProofs/EbEncCounts2.lean:
    `computeNumberOfEncodedPoints_tbl`, `_create`, `_of_encode`); `= num_vertices − isolated` for ≤ 1 attribute.
  Evaluated, not proved here: that the encoder's fans are the images of the decoder's under the checked isomorphism,
  and `processed.size = num_faces − NumDegeneratedFaces` (`encodeConnectivity_faces` in DracoProofs/EbEncCounts.lean
  proves `≤`, distinctness, non-degeneracy, and equality IFF every non-degenerate face is reached by the traversal);
  `counts-ok` compares both counts on every case.
-/
namespace Draco.C09Eb
open Draco Draco.Eb Draco.EbEnc Draco.Counts

/-- **points the decoder creates = Σ over the fans of the decoder's corner table** -/
theorem eb_decoded_points_fans (co : ConnOut) (n : Nat) (atts : Array AttConn) (c2p : Array Nat) (np tags : Nat)
    (hH : APHyp n co) (hne : atts.isEmpty = false) (hrun : assignPoints co n atts = .ok (c2p, np, tags)) :
    np = (((List.range co.vc.size).filter (fun v => co.vc[v]! != inv)).map
      (fun v => decPoints (fanOfD co atts v))).sum :=
  assignPoints_count co n atts c2p np tags hH hne hrun

/-- … = Σ of the ENCODER's per-vertex formula over the same fans, under H2 (an attribute that is not constant around an
    interior vertex has `IsCornerOnSeam` set at the left-most corner) -/
theorem eb_decoded_points_encoder_formula (co : ConnOut) (n : Nat) (atts : Array AttConn) (c2p : Array Nat)
    (np tags : Nat) (hH : APHyp n co) (hne : atts.isEmpty = false)
    (hrun : assignPoints co n atts = .ok (c2p, np, tags))
    (h2 : ∀ v, v < co.vc.size → co.vc[v]! ≠ inv → (fanOfD co atts v).closed = true →
      ∀ i, i < (fanOfD co atts v).onSeam.length →
        (∃ a ∈ (fanOfD co atts v).corners, ∃ b ∈ (fanOfD co atts v).corners, a.av.getD i 0 ≠ b.av.getD i 0) →
        (fanOfD co atts v).onSeam.getD i false = true) :
    np = (((List.range co.vc.size).filter (fun v => co.vc[v]! != inv)).map
      (fun v => encPoints (fanOfD co atts v))).sum := by
  rw [eb_decoded_points_fans co n atts c2p np tags hH hne hrun]
  congr 1
  apply List.map_congr_left
  intro v hv
  rw [List.mem_filter, List.mem_range] at hv
  have hne' : co.vc[v]! ≠ inv := by simpa using hv.2
  obtain ⟨s1, s2⟩ := fanOfD_shape co atts v hne'
  exact (C09.eb_point_count_fan _ s1 s2 (h2 v hv.1 hne')).symm

/-- corners with the same point: same base vertex, same vertex in every attribute corner table -/
theorem eb_points_refine_vertices (co : ConnOut) (n : Nat) (atts : Array AttConn) (c2p : Array Nat) (np tags : Nat)
    (hH : APHyp n co) (hne : atts.isEmpty = false) (hrun : assignPoints co n atts = .ok (c2p, np, tags)) :
    c2p.size = 3 * n ∧ (∀ c, c < 3 * n → c2p[c]! < np) ∧
    (∀ c c', c < 3 * n → c' < 3 * n → c2p[c]! = c2p[c']! →
      co.c2v[c]! = co.c2v[c']! ∧ ∀ a ∈ atts, a.c2v[c]! = a.c2v[c']!) :=
  assignPoints_consistent co n atts c2p np tags hH hne hrun

/-- a seamless attribute on the tetrahedron of `AP.tetra` -/
def exAtt : AttConn := ⟨Array.replicate 12 false, #[false, false, false, false],
  #[0, 1, 2, 0, 3, 1, 1, 3, 2, 2, 3, 0], #[0, 1, 2, 4], true⟩

set_option maxRecDepth 100000 in
set_option maxHeartbeats 4000000 in
/-- the decoder's run -/
theorem exAssign : assignPoints AP.tetra 4 #[exAtt] = .ok (#[0, 1, 2, 0, 3, 1, 1, 3, 2, 2, 3, 0], 4, 0) := by
  simp [assignPoints, AP.tetra, exAtt, rd, wr, rdB, Eb.vertex, Eb.swingRight, Eb.opposite, inv, Eb.prevC,
    Std.Legacy.Range.forIn_eq_forIn_range', Std.Legacy.Range.size, bind, Except.bind, pure, Except.pure, List.range'_succ]
  decide

/-- non-vacuity: four closed fans, one point each -/
example : (4 : Nat) = (((List.range AP.tetra.vc.size).filter (fun v => AP.tetra.vc[v]! != inv)).map
    (fun v => decPoints (fanOfD AP.tetra #[exAtt] v))).sum :=
  eb_decoded_points_fans AP.tetra 4 #[exAtt] _ 4 0 AP.tetra_hyp rfl exAssign

example : ∀ c c', c < 12 → c' < 12 → (#[0, 1, 2, 0, 3, 1, 1, 3, 2, 2, 3, 0] : Array Nat)[c]! =
    (#[0, 1, 2, 0, 3, 1, 1, 3, 2, 2, 3, 0] : Array Nat)[c']! → AP.tetra.c2v[c]! = AP.tetra.c2v[c']! :=
  fun c c' h1 h2 h => ((eb_points_refine_vertices AP.tetra 4 #[exAtt] _ 4 0 AP.tetra_hyp rfl exAssign).2.2 c c' h1 h2 h).1

open Draco.EbEnc.EncCounts in
/-- **points the encoder reports = (vertices − isolated) + Σ over the fans of the encoder's corner table** -/
theorem eb_encoded_points_fans (atts : Array Attribute) (conn : ConnEnc) (used : Array AttConn) (n : Nat)
    (hatts : atts.size > 1)
    (hcl : ∀ v, v < conn.ct.numVertices → conn.ct.vc[v]! ≠ inv → ClosedOK conn.ct v)
    (h : computeNumberOfEncodedPoints atts conn used = .ok n) :
    n = (conn.ct.numVertices - conn.ct.numIsolated) +
      ((List.range conn.ct.numVertices).map (extraPoints conn.ct used)).sum :=
  computeNumberOfEncodedPoints_fan atts conn used n hatts hcl h

open Draco.EbEnc.EncCounts in
/-- non-vacuity: a closed fan of three triangles, one attribute table with a seam: 4 vertices + 1 -/
example : (5 : Nat) = (exConn.ct.numVertices - exConn.ct.numIsolated) +
    ((List.range exConn.ct.numVertices).map (extraPoints exConn.ct #[EncCounts.exAtt])).sum :=
  eb_encoded_points_fans #[exAttr, exAttr] exConn #[EncCounts.exAtt] 5 (by decide)
    (by intro v hv _
        have hv' : v < 4 := hv
        obtain rfl | rfl | rfl | rfl : v = 0 ∨ v = 1 ∨ v = 2 ∨ v = 3 := by omega
        all_goals (unfold ClosedOK; decide +kernel))
    (by decide +kernel)

end Draco.C09Eb
