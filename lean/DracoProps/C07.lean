import DracoProofs.Octahedron
import DracoProofs.OctaAngle
/-
  C07 (integer half) — octahedral coordinates produced by the encoder lie inside the q-bit
  square `[0, max_value_]² = [0, 2^q − 2]²` and are canonical (the unique representative of the
  direction).  The float expressions of `FloatVectorToQuantizedOctahedralCoords` enter the
  integer theorems only through the two rounded integers `i0`, `i1` and one sign bit (an abstract
  oracle as far as these theorems are concerned).

  Angular bound (slice c08plus), exact arithmetic, `q ≥ 3`:
  * `angle_bound_partial`  the L∞ grid-distance lemma `(1/2, 1/2, 1)` for the integer vector the
                           encoder builds from exactly rounded coordinates, `|v|₁ = c`, and the
                           Lipschitz step `sin²∠(n, v) ≤ 9/(2c²)`, `n·v > 0` — over ℚ, no
                           square roots, no trigonometry.
  * `angle_bound_exact`    hence `∠(n, v) = arccos(n·v/(‖n‖‖v‖)) ≤ 3/c = 3·(2/(2^q − 2))`
                           (reals; `θ ≤ tan θ`).
  * `octa_fixed_point`     exact arithmetic: `QuantizedOctahedralCoordsToUnitVector` (before its
                           normalisation; `Octa.octaVecG`, whose `Float32` instance followed by
                           `normalise32` IS the executable decoder,
                           `Octa.coordsToUnitVector_eq_generic`) applied to
                           `IntegerVectorToQuantizedOctahedralCoords v` returns `v / c`.
  * `angle_bound_exact_decoded`  hence the exactly decoded direction is within
                           `3·(2/(2^q − 2))` of `n`.
  Missing for the full statement "angle ≤ 3·(2/(2^q−2)) + 2e-6 for the float code":
  (b) the `double` roundings of the encoder (the rounded coordinates can differ from `⌊·+1/2⌋` of
      the exact value at ties) and the `float` roundings of the decoder incl. its normalisation
      — the `2e-6` allowance, (c) `q = 2` (`c = 1`, bound 3 rad), where `9/(2c²) > 1` and the
      argument gives nothing.  These remain evaluated per case.
-/
namespace Draco

/-- `CanonicalizeOctahedralCoords` maps every grid point to a canonical grid point. -/
theorem canonicalize_canonical (q : Nat) (t : OctaT) (hinit : Octa.init q = some t)
    (p : Int × Int) (hg : Octa.inGrid t p) :
    Octa.canonical t (Octa.canonicalize t p) ∧ Octa.inGrid t (Octa.canonicalize t p) :=
  Octa.canonicalize_canonical t (Octa.init_wf hinit).1 p hg

example : Octa.canonical ⟨3, 7, 6, 3⟩ (Octa.canonicalize ⟨3, 7, 6, 3⟩ (0, 5)) :=
  (canonicalize_canonical 3 _ (by decide) (0, 5) (by decide)).1

/-- `CanonicalizeOctahedralCoords` is idempotent. -/
theorem canonicalize_idempotent (q : Nat) (t : OctaT) (hinit : Octa.init q = some t)
    (p : Int × Int) (hg : Octa.inGrid t p) :
    Octa.canonicalize t (Octa.canonicalize t p) = Octa.canonicalize t p :=
  Octa.canonicalize_idempotent t (Octa.init_wf hinit).1 p hg

example : Octa.canonicalize ⟨3, 7, 6, 3⟩ (Octa.canonicalize ⟨3, 7, 6, 3⟩ (6, 0)) =
    Octa.canonicalize ⟨3, 7, 6, 3⟩ (6, 0) :=
  canonicalize_idempotent 3 _ (by decide) (6, 0) (by decide)

/-- the canonical points, explicitly (center-relative coordinates `a = s − c`, `b = t − c`):
    all corners except `(c, c)` are excluded; on the left/bottom edges only the part with the
    other coordinate `≤ 0`, on the right/top edges only the part with the other coordinate `≥ 0`
    is kept -/
theorem canonical_iff (q : Nat) (t : OctaT) (hinit : Octa.init q = some t)
    (p : Int × Int) (hg : Octa.inGrid t p) :
    Octa.canonical t p ↔ Octa.CanonC t.center (p.1 - t.center, p.2 - t.center) :=
  Octa.canonical_iff t (Octa.init_wf hinit).1 p hg

example : Octa.canonical ⟨3, 7, 6, 3⟩ (6, 4) :=
  (canonical_iff 3 _ (by decide) (6, 4) (by decide)).2 (by unfold Octa.CanonC; decide)

/-- `IntegerVectorToQuantizedOctahedralCoords`: for every integer vector with
    `|x| + |y| + |z| = center_value_` (the DCHECKed precondition) the result lies in
    `[0, max_value_]²` and is canonical — this discharges the hypotheses on `orig` of
    `octa_roundtrip` (C16) for every value the encoder emits. Stated for every center value. -/
theorem intvec_coords_in_square (c : Int) (h1 : 1 ≤ c) (h29 : c < 2^29) (v : Int × Int × Int)
    (hsum : iabs v.1 + iabs v.2.1 + iabs v.2.2 = c) :
    Octa.inGrid (Octa.ofCenter c) (Octa.intVecToCoords (Octa.ofCenter c) v) ∧
      Octa.canonical (Octa.ofCenter c) (Octa.intVecToCoords (Octa.ofCenter c) v) :=
  Octa.intVecToCoords_inGrid_canonical (Octa.ofCenter c) ⟨rfl, rfl, h1, h29⟩ v hsum

example : Octa.canonical (Octa.ofCenter 7) (Octa.intVecToCoords (Octa.ofCenter 7) (-3, 0, -4)) :=
  (intvec_coords_in_square 7 (by decide) (by decide) (-3, 0, -4) (by decide)).2

/-- the same for every `q = 2..30` -/
theorem intvec_coords_in_square_q (q : Nat) (t : OctaT) (hinit : Octa.init q = some t)
    (v : Int × Int × Int) (hsum : iabs v.1 + iabs v.2.1 + iabs v.2.2 = t.center) :
    Octa.inGrid t (Octa.intVecToCoords t v) ∧ Octa.canonical t (Octa.intVecToCoords t v) :=
  Octa.intVecToCoords_inGrid_canonical t (Octa.init_wf hinit).1 v hsum

example : Octa.inGrid ⟨2, 3, 2, 1⟩ (Octa.intVecToCoords ⟨2, 3, 2, 1⟩ (-1, 0, 0)) :=
  (intvec_coords_in_square_q 2 _ (by decide) (-1, 0, 0) (by decide)).1

/-- the integer tail of `FloatVectorToQuantizedOctahedralCoords`: whatever the two rounded
    coordinates `i0`, `i1` and the sign bit are (abstract float oracle), as long as
    `|i0| ≤ center_value_`, the integer vector handed on has L1 norm exactly `center_value_` … -/
theorem floatvec_intvec_abs_sum (t : OctaT) (i0 i1 : Int) (zNeg : Bool)
    (h0 : iabs i0 ≤ t.center) :
    iabs (Octa.fixIntVec t i0 i1 zNeg).1 + iabs (Octa.fixIntVec t i0 i1 zNeg).2.1
      + iabs (Octa.fixIntVec t i0 i1 zNeg).2.2 = t.center :=
  Octa.fixIntVec_abs_sum t i0 i1 zNeg h0

example : iabs (Octa.fixIntVec ⟨3, 7, 6, 3⟩ 2 (-2) true).1
    + iabs (Octa.fixIntVec ⟨3, 7, 6, 3⟩ 2 (-2) true).2.1
    + iabs (Octa.fixIntVec ⟨3, 7, 6, 3⟩ 2 (-2) true).2.2 = 3 :=
  floatvec_intvec_abs_sum _ 2 (-2) true (by decide)

/-- … hence the coordinates computed from a float vector lie in the square and are canonical
    (for every result of the float oracle with `|i0| ≤ c`). -/
theorem floatvec_coords_in_square (q : Nat) (t : OctaT) (hinit : Octa.init q = some t)
    (i0 i1 : Int) (zNeg : Bool) (h0 : iabs i0 ≤ t.center) :
    Octa.inGrid t (Octa.intVecToCoords t (Octa.fixIntVec t i0 i1 zNeg)) ∧
      Octa.canonical t (Octa.intVecToCoords t (Octa.fixIntVec t i0 i1 zNeg)) :=
  intvec_coords_in_square_q q t hinit _ (floatvec_intvec_abs_sum t i0 i1 zNeg h0)

example : Octa.canonical ⟨3, 7, 6, 3⟩
    (Octa.intVecToCoords ⟨3, 7, 6, 3⟩ (Octa.fixIntVec ⟨3, 7, 6, 3⟩ (-3) 2 false)) :=
  (floatvec_coords_in_square 3 _ (by decide) (-3) 2 false (by decide)).2

/-- `CanonicalizeIntegerVector` (used by the geometric normal predictor) returns a vector of L1
    norm `center_value_` for EVERY input, so that predictor always supplies canonical grid points
    (`intvec_coords_in_square`). -/
theorem canonicalizeIntVec_abs_sum (q : Nat) (t : OctaT) (hinit : Octa.init q = some t)
    (v : Int × Int × Int) :
    iabs (Octa.canonicalizeIntVec t v).1 + iabs (Octa.canonicalizeIntVec t v).2.1
      + iabs (Octa.canonicalizeIntVec t v).2.2 = t.center :=
  Octa.canonicalizeIntVec_abs_sum t (by have := (Octa.init_wf hinit).1.2.2.1; omega) v

example : Octa.canonicalizeIntVec ⟨4, 15, 14, 7⟩ (100, -250, -3) = (1, -4, -2) := by decide

/-! ### angular error in exact arithmetic -/

/-- Exact arithmetic (`Octa.exactDoubleOps`: the `double` expressions of
    `FloatVectorToQuantizedOctahedralCoords` evaluated in ℚ), any `q ≥ 2` with `c ≥ 2`, any
    non-zero rational vector `n`; `v` = the integer vector handed to
    `IntegerVectorToQuantizedOctahedralCoords`.  Then
    * L∞ grid distance: `|c·n_i/|n|₁ − v_i| ≤ 1/2, 1/2, 1` (repair branch included),
    * `|v|₁ = c`, `n·v > 0`,
    * Lipschitz step: `(‖n‖²‖v‖² − (n·v)²)·2c² ≤ 9·‖n‖²‖v‖²`, i.e. `sin²∠(n,v) ≤ 9/(2c²)`. -/
theorem angle_bound_partial (q : Nat) (t : OctaT) (hinit : Octa.init q = some t)
    (hc2 : 2 ≤ t.center) (n1 n2 n3 : ℚ) (hn : 0 < |n1| + |n2| + |n3|) :
    let r := @Octa.floatVecRoundG ℚ Octa.exactDoubleOps t.center n1 n2 n3
    let v := Octa.fixIntVec t r.1 r.2.1 r.2.2
    let S := |n1| + |n2| + |n3|
    (|n1 / S * t.center - v.1| ≤ 1/2 ∧ |n2 / S * t.center - v.2.1| ≤ 1/2 ∧
      |n3 / S * t.center - v.2.2| ≤ 1) ∧
    iabs v.1 + iabs v.2.1 + iabs v.2.2 = t.center ∧
    0 < n1 * v.1 + n2 * v.2.1 + n3 * v.2.2 ∧
    ((n1 ^ 2 + n2 ^ 2 + n3 ^ 2) * ((v.1 : ℚ) ^ 2 + (v.2.1 : ℚ) ^ 2 + (v.2.2 : ℚ) ^ 2)
        - (n1 * v.1 + n2 * v.2.1 + n3 * v.2.2) ^ 2) * (2 * (t.center : ℚ) ^ 2)
      ≤ 9 * ((n1 ^ 2 + n2 ^ 2 + n3 ^ 2) * ((v.1 : ℚ) ^ 2 + (v.2.1 : ℚ) ^ 2 + (v.2.2 : ℚ) ^ 2)) := by
  intro r v S
  have hwf := (Octa.init_wf hinit).1
  refine ⟨?_, Octa.angle_bound_rat t hwf hc2 n1 n2 n3 hn⟩
  exact Octa.grid_distance_exact t hwf n1 n2 n3 hn

/-- the exact encoder expressions at q = 4 (c = 7), n = (1, -2, 1/3): scaled coordinates
    (3/10, -6/10, 1/10)·7 round to (2, -4) -/
theorem octa_example_round :
    @Octa.floatVecRoundG ℚ Octa.exactDoubleOps 7 1 (-2) (1/3) = (2, -4, false) := by
  rw [Octa.floatVecRoundG_exact _ _ _ _ (by norm_num [abs_of_pos, abs_of_neg])]
  have e1 : ⌊(1:ℚ) * (1 / (|1| + |-2| + |1/3|)) * ((7:Int):ℚ) + 1/2⌋ = 2 := by
    rw [Int.floor_eq_iff]; norm_num [abs_of_pos, abs_of_neg]
  have e2 : ⌊(-2:ℚ) * (1 / (|1| + |-2| + |1/3|)) * ((7:Int):ℚ) + 1/2⌋ = -4 := by
    rw [Int.floor_eq_iff]; norm_num [abs_of_pos, abs_of_neg]
  have e3 : decide ((1/3:ℚ) * (1 / (|1| + |-2| + |1/3|)) < ((0:Int):ℚ)) = false := by
    rw [decide_eq_false_iff_not]; norm_num [abs_of_pos, abs_of_neg]
  rw [e1, e2, e3]

/-- non-vacuity: q = 4 (c = 7), n = (1, -2, 1/3) -/
example : (0:ℚ) < 1 * (Octa.fixIntVec ⟨4, 15, 14, 7⟩ 2 (-4) false).1
    + (-2) * (Octa.fixIntVec ⟨4, 15, 14, 7⟩ 2 (-4) false).2.1
    + (1/3) * (Octa.fixIntVec ⟨4, 15, 14, 7⟩ 2 (-4) false).2.2 := by
  have h := (angle_bound_partial 4 ⟨4, 15, 14, 7⟩ (by decide) (by decide) 1 (-2) (1/3)
    (by norm_num [abs_of_pos, abs_of_neg])).2.2.1
  simp only [octa_example_round] at h
  exact h

/-- Exact arithmetic, `q = 3..30`: the angle between a non-zero rational vector `n` and the
    integer vector `v` chosen by the encoder is at most `3·(2/(2^q − 2))` radians. -/
theorem angle_bound_exact (q : Nat) (t : OctaT) (hinit : Octa.init q = some t) (hq : 3 ≤ q)
    (n1 n2 n3 : ℚ) (hn : 0 < |n1| + |n2| + |n3|) :
    let r := @Octa.floatVecRoundG ℚ Octa.exactDoubleOps t.center n1 n2 n3
    let v := Octa.fixIntVec t r.1 r.2.1 r.2.2
    let N : ℝ := ((n1 ^ 2 + n2 ^ 2 + n3 ^ 2 : ℚ) : ℝ)
    let V : ℝ := (((v.1 : ℚ) ^ 2 + (v.2.1 : ℚ) ^ 2 + (v.2.2 : ℚ) ^ 2 : ℚ) : ℝ)
    let D : ℝ := ((n1 * v.1 + n2 * v.2.1 + n3 * v.2.2 : ℚ) : ℝ)
    Real.arccos (D / (Real.sqrt N * Real.sqrt V)) ≤ 3 * (2 / ((2:ℝ) ^ q - 2)) := by
  intro r v N V D
  obtain ⟨hcen, hc3⟩ := Octa.init_center hinit
  have hc3 := hc3 hq
  have hwf := (Octa.init_wf hinit).1
  obtain ⟨hsum, hD, hb⟩ := Octa.angle_bound_rat t hwf (by omega) n1 n2 n3 hn
  have hbound : 3 * (2 / ((2:ℝ) ^ q - 2)) = 3 / (t.center : ℝ) := by
    have : ((2:ℝ) ^ q - 2) = 2 * (t.center : ℝ) := by
      have : ((2 * t.center : Int) : ℝ) = (((2:Int) ^ q - 2 : Int) : ℝ) := by rw [hcen]
      push_cast at this; linarith
    have hc0 : (t.center : ℝ) ≠ 0 := by
      have : (0:ℝ) < t.center := by exact_mod_cast (by omega : (0:Int) < t.center)
      exact ne_of_gt this
    rw [this]; field_simp
  rw [hbound]
  have hNq : (0:ℚ) < n1 ^ 2 + n2 ^ 2 + n3 ^ 2 := by
    by_contra h
    have h0 : n1 ^ 2 + n2 ^ 2 + n3 ^ 2 = 0 := le_antisymm (not_lt.mp h) (by positivity)
    have a1 : n1 = 0 := by nlinarith [sq_nonneg n1, sq_nonneg n2, sq_nonneg n3]
    have a2 : n2 = 0 := by nlinarith [sq_nonneg n1, sq_nonneg n2, sq_nonneg n3]
    have a3 : n3 = 0 := by nlinarith [sq_nonneg n1, sq_nonneg n2, sq_nonneg n3]
    rw [a1, a2, a3] at hn; simp at hn
  have hVq : (0:ℚ) < (v.1 : ℚ) ^ 2 + (v.2.1 : ℚ) ^ 2 + (v.2.2 : ℚ) ^ 2 := by
    by_contra h
    have h0 : (v.1 : ℚ) ^ 2 + (v.2.1 : ℚ) ^ 2 + (v.2.2 : ℚ) ^ 2 = 0 :=
      le_antisymm (not_lt.mp h) (by positivity)
    have a1 : (v.1 : ℚ) = 0 := by nlinarith [sq_nonneg (v.1 : ℚ), sq_nonneg (v.2.1 : ℚ), sq_nonneg (v.2.2 : ℚ)]
    have a2 : (v.2.1 : ℚ) = 0 := by nlinarith [sq_nonneg (v.1 : ℚ), sq_nonneg (v.2.1 : ℚ), sq_nonneg (v.2.2 : ℚ)]
    have a3 : (v.2.2 : ℚ) = 0 := by nlinarith [sq_nonneg (v.1 : ℚ), sq_nonneg (v.2.1 : ℚ), sq_nonneg (v.2.2 : ℚ)]
    have b1 : v.1 = 0 := by exact_mod_cast a1
    have b2 : v.2.1 = 0 := by exact_mod_cast a2
    have b3 : v.2.2 = 0 := by exact_mod_cast a3
    change iabs v.1 + iabs v.2.1 + iabs v.2.2 = t.center at hsum
    rw [b1, b2, b3] at hsum
    simp [iabs] at hsum; omega
  have hcs : ((n1 * v.1 + n2 * v.2.1 + n3 * v.2.2 : ℚ)) ^ 2
      ≤ (n1 ^ 2 + n2 ^ 2 + n3 ^ 2) * ((v.1 : ℚ) ^ 2 + (v.2.1 : ℚ) ^ 2 + (v.2.2 : ℚ) ^ 2) := by
    nlinarith [sq_nonneg (n1 * v.2.1 - n2 * v.1), sq_nonneg (n1 * v.2.2 - n3 * v.1),
      sq_nonneg (n2 * v.2.2 - n3 * v.2.1)]
  have hNr : (0:ℝ) < N := by
    show (0:ℝ) < ((n1 ^ 2 + n2 ^ 2 + n3 ^ 2 : ℚ) : ℝ)
    exact_mod_cast hNq
  have hVr : (0:ℝ) < V := by
    show (0:ℝ) < (((v.1 : ℚ) ^ 2 + (v.2.1 : ℚ) ^ 2 + (v.2.2 : ℚ) ^ 2 : ℚ) : ℝ)
    exact_mod_cast hVq
  have hDr : (0:ℝ) < D := by
    show (0:ℝ) < ((n1 * v.1 + n2 * v.2.1 + n3 * v.2.2 : ℚ) : ℝ)
    exact_mod_cast hD
  have hbr : (N * V - D ^ 2) * (2 * (t.center : ℝ) ^ 2) ≤ 9 * (N * V) := by
    show (((n1 ^ 2 + n2 ^ 2 + n3 ^ 2 : ℚ) : ℝ)
        * (((v.1 : ℚ) ^ 2 + (v.2.1 : ℚ) ^ 2 + (v.2.2 : ℚ) ^ 2 : ℚ) : ℝ)
        - ((n1 * v.1 + n2 * v.2.1 + n3 * v.2.2 : ℚ) : ℝ) ^ 2) * (2 * (t.center : ℝ) ^ 2)
      ≤ 9 * (((n1 ^ 2 + n2 ^ 2 + n3 ^ 2 : ℚ) : ℝ)
        * (((v.1 : ℚ) ^ 2 + (v.2.1 : ℚ) ^ 2 + (v.2.2 : ℚ) ^ 2 : ℚ) : ℝ))
    exact_mod_cast hb
  have hcsr : D ^ 2 ≤ N * V := by
    show ((n1 * v.1 + n2 * v.2.1 + n3 * v.2.2 : ℚ) : ℝ) ^ 2
      ≤ ((n1 ^ 2 + n2 ^ 2 + n3 ^ 2 : ℚ) : ℝ)
        * (((v.1 : ℚ) ^ 2 + (v.2.1 : ℚ) ^ 2 + (v.2.2 : ℚ) ^ 2 : ℚ) : ℝ)
    exact_mod_cast hcs
  exact Octa.arccos_le_of_sin_sq N V D (t.center : ℝ) (by exact_mod_cast hc3) hNr hVr hDr hbr hcsr

/-- non-vacuity: q = 4, n = (1, -2, 1/3) -/
example : Real.arccos (((1 * 2 + (-2) * (-4) + (1/3) * 1 : ℚ) : ℝ)
      / (Real.sqrt ((1 ^ 2 + (-2) ^ 2 + (1/3) ^ 2 : ℚ) : ℝ)
         * Real.sqrt ((((2:Int) : ℚ) ^ 2 + ((-4 : Int) : ℚ) ^ 2 + ((1 : Int) : ℚ) ^ 2 : ℚ) : ℝ)))
    ≤ 3 * (2 / ((2:ℝ) ^ 4 - 2)) := by
  have h := angle_bound_exact 4 ⟨4, 15, 14, 7⟩ (by decide) (by decide) 1 (-2) (1/3)
    (by norm_num [abs_of_pos, abs_of_neg])
  have ev : Octa.fixIntVec ⟨4, 15, 14, 7⟩ 2 (-4) false = (2, -4, 1) := by decide
  simp only [octa_example_round, ev] at h
  exact h

/-- **Fixed point** (exact arithmetic): decoding the octahedral coordinates of an integer vector
    `v` with `|v|₁ = center_value_` gives `v / center_value_` (the vector that
    `OctahedralCoordsToUnitVector` then normalises). -/
theorem octa_fixed_point (q : Nat) (t : OctaT) (hinit : Octa.init q = some t) (v : Int × Int × Int)
    (hsum : iabs v.1 + iabs v.2.1 + iabs v.2.2 = t.center) :
    @Octa.octaVecG ℚ Octa.exactOctaDecOps t.maxV (Octa.intVecToCoords t v)
      = ((v.1 : ℚ) / t.center, (v.2.1 : ℚ) / t.center, (v.2.2 : ℚ) / t.center) :=
  Octa.octaVecG_exact_fixed_point t (Octa.init_wf hinit).1 v hsum

/-- non-vacuity: q = 4, v = (-3, 0, -4) (coordinates on the boundary, canonicalised) -/
example : @Octa.octaVecG ℚ Octa.exactOctaDecOps 14 (Octa.intVecToCoords ⟨4, 15, 14, 7⟩ (-3, 0, -4))
    = ((-3 : ℚ) / 7, 0 / 7, (-4 : ℚ) / 7) := by
  have := octa_fixed_point 4 ⟨4, 15, 14, 7⟩ (by decide) (-3, 0, -4) (by decide)
  simpa using this

/-- Exact arithmetic, `q = 3..30`, encoder and decoder: `w` = the vector decoded (before
    normalisation) from the coordinates the encoder assigns to the non-zero rational vector `n`.
    The angle between `n` and `w` is at most `3·(2/(2^q − 2))`. -/
theorem angle_bound_exact_decoded (q : Nat) (t : OctaT) (hinit : Octa.init q = some t) (hq : 3 ≤ q)
    (n1 n2 n3 : ℚ) (hn : 0 < |n1| + |n2| + |n3|) :
    let r := @Octa.floatVecRoundG ℚ Octa.exactDoubleOps t.center n1 n2 n3
    let st := Octa.intVecToCoords t (Octa.fixIntVec t r.1 r.2.1 r.2.2)
    let w := @Octa.octaVecG ℚ Octa.exactOctaDecOps t.maxV st
    Real.arccos (((n1 * w.1 + n2 * w.2.1 + n3 * w.2.2 : ℚ) : ℝ)
        / (Real.sqrt ((n1 ^ 2 + n2 ^ 2 + n3 ^ 2 : ℚ) : ℝ)
           * Real.sqrt ((w.1 ^ 2 + w.2.1 ^ 2 + w.2.2 ^ 2 : ℚ) : ℝ)))
      ≤ 3 * (2 / ((2:ℝ) ^ q - 2)) := by
  intro r st w
  have hwf := (Octa.init_wf hinit).1
  obtain ⟨_, hc3⟩ := Octa.init_center hinit
  have hc3 := hc3 hq
  obtain ⟨hsum, _, _⟩ := Octa.angle_bound_rat t hwf (by omega) n1 n2 n3 hn
  have hw : w = _ := octa_fixed_point q t hinit _ hsum
  have hmain := angle_bound_exact q t hinit hq n1 n2 n3 hn
  simp only at hmain
  set v := Octa.fixIntVec t r.1 r.2.1 r.2.2 with hv
  set c : ℚ := (t.center : ℚ) with hcdef
  have hc0 : (0:ℚ) < c := by rw [hcdef]; exact_mod_cast (by omega : (0:Int) < t.center)
  have hcr : (0:ℝ) < (c : ℝ) := by exact_mod_cast hc0
  -- the argument of arccos is invariant under the scaling by 1/c
  have e1 : ((n1 * w.1 + n2 * w.2.1 + n3 * w.2.2 : ℚ) : ℝ)
      = ((n1 * v.1 + n2 * v.2.1 + n3 * v.2.2 : ℚ) : ℝ) / (c : ℝ) := by
    rw [hw]; push_cast; field_simp
  have e2 : ((w.1 ^ 2 + w.2.1 ^ 2 + w.2.2 ^ 2 : ℚ) : ℝ)
      = (((v.1 : ℚ) ^ 2 + (v.2.1 : ℚ) ^ 2 + (v.2.2 : ℚ) ^ 2 : ℚ) : ℝ) / (c : ℝ) ^ 2 := by
    rw [hw]; push_cast; field_simp
  rw [e1, e2, Real.sqrt_div' _ (by positivity), Real.sqrt_sq hcr.le]
  have e3 : ∀ (D a b : ℝ), D / (c : ℝ) / (a * (b / (c : ℝ))) = D / (a * b) := by
    intro D a b
    have : (c : ℝ) ≠ 0 := ne_of_gt hcr
    field_simp
  rw [e3]
  exact hmain

end Draco
