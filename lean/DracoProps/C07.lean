import DracoProofs.Octahedron
import DracoProofs.OctaAngle
import DracoProofs.OctaFloatAngle
import DracoProofs.GeneratedFuncs
import DracoProofs.GeneratedSqrt
/-
  C07 (integer half) — octahedral coordinates produced by the encoder lie inside the q-bit
  square `[0, max_value_]² = [0, 2^q − 2]²` and are canonical (the unique representative of the
  direction).  The float expressions of `FloatVectorToQuantizedOctahedralCoords` enter the
  integer theorems only through the two rounded integers `i0`, `i1` and one sign bit (an abstract
  oracle as far as these theorems are concerned).

  Angular bound (slice c08plus), exact arithmetic, `q ≥ 3`:
  * `angle_bound_partial`  the L∞ grid-distance lemma `(1/2, 1/2, 1)` for the integer vector the
                           encoder builds from exactly rounded coordinates, `|v|₁ = c`, and the
                           Lipschitz step `sin²∠(n, v) ≤ 9/(2c²)`, `n·v > 0` — over ℚ, no
                           square roots, no trigonometry.
  * `angle_bound_exact`    hence `∠(n, v) = arccos(n·v/(‖n‖‖v‖)) ≤ 3/c = 3·(2/(2^q − 2))`
                           (reals; `θ ≤ tan θ`).
  * `octa_fixed_point`     exact arithmetic: `QuantizedOctahedralCoordsToUnitVector` (before its
                           normalisation; `Octa.octaVecG`, whose `Float32` instance followed by
                           `normalise32` IS the executable decoder,
                           `Octa.coordsToUnitVector_eq_generic`) applied to
                           `IntegerVectorToQuantizedOctahedralCoords v` returns `v / c`.
  * `angle_bound_exact_decoded`  hence the exactly decoded direction is within
                           `3·(2/(2^q − 2))` of `n`.
  Float code path (second part of slice c08plus; any rounding oracle, see the section at the end):
  * `float_decoded_unit_length`  (1) `|‖d‖ − 1| ≤ 10u` for every grid point, q = 2..30; the zero
                           branch of the normalisation is never taken.
  * `float_angle_bound`    (2) `∠(n, decode(encode n)) ≤ 3·(2/(2^q−2)) + 120·uE + 144·u`, q ≥ 3.
  * `float_zero_input`     (3) all-zero input → `(c,0,0)` → unit vector within `144u` of `+x`.
  * `float_angle_bound_q2` (4) `q = 2`: `≤ π/2 + 64·uE + 144·u ≤ 3`.
  What stays an assumption: that g++/SSE `double`/`float` arithmetic obeys the rounding models
  (`Octa.DoubleModel`, `Octa.DecModel`) — as for C04; no theorem is stated about the opaque
  `Float`/`Float32` instances themselves (they are tied to the generic functions by `rfl`-style
  lemmas and to the C++ bit for bit).  The empirical allowance `2e-6` of the per-case check is
  NOT proved: the proved one is `144·2^-24 + 120·2^-53 ≈ 8.6e-6` (worst-case accumulation of
  all roundings; first-order sharper constants are possible, see notes/c08plus.md).
-/
namespace Draco

/-- `CanonicalizeOctahedralCoords` maps every grid point to a canonical grid point. -/
theorem canonicalize_canonical (q : Nat) (t : OctaT) (hinit : Octa.init q = some t)
    (p : Int × Int) (hg : Octa.inGrid t p) :
    Octa.canonical t (Octa.canonicalize t p) ∧ Octa.inGrid t (Octa.canonicalize t p) :=
  Octa.canonicalize_canonical t (Octa.init_wf hinit).1 p hg

example : Octa.canonical ⟨3, 7, 6, 3⟩ (Octa.canonicalize ⟨3, 7, 6, 3⟩ (0, 5)) :=
  (canonicalize_canonical 3 _ (by decide) (0, 5) (by decide)).1

/-- `CanonicalizeOctahedralCoords` is idempotent. -/
theorem canonicalize_idempotent (q : Nat) (t : OctaT) (hinit : Octa.init q = some t)
    (p : Int × Int) (hg : Octa.inGrid t p) :
    Octa.canonicalize t (Octa.canonicalize t p) = Octa.canonicalize t p :=
  Octa.canonicalize_idempotent t (Octa.init_wf hinit).1 p hg

example : Octa.canonicalize ⟨3, 7, 6, 3⟩ (Octa.canonicalize ⟨3, 7, 6, 3⟩ (6, 0)) =
    Octa.canonicalize ⟨3, 7, 6, 3⟩ (6, 0) :=
  canonicalize_idempotent 3 _ (by decide) (6, 0) (by decide)

/-- the canonical points, explicitly (center-relative coordinates `a = s − c`, `b = t − c`):
    all corners except `(c, c)` are excluded; on the left/bottom edges only the part with the
    other coordinate `≤ 0`, on the right/top edges only the part with the other coordinate `≥ 0`
    is kept -/
theorem canonical_iff (q : Nat) (t : OctaT) (hinit : Octa.init q = some t)
    (p : Int × Int) (hg : Octa.inGrid t p) :
    Octa.canonical t p ↔ Octa.CanonC t.center (p.1 - t.center, p.2 - t.center) :=
  Octa.canonical_iff t (Octa.init_wf hinit).1 p hg

example : Octa.canonical ⟨3, 7, 6, 3⟩ (6, 4) :=
  (canonical_iff 3 _ (by decide) (6, 4) (by decide)).2 (by unfold Octa.CanonC; decide)

/-- `IntegerVectorToQuantizedOctahedralCoords`: for every integer vector with
    `|x| + |y| + |z| = center_value_` (the DCHECKed precondition) the result lies in
    `[0, max_value_]²` and is canonical — this discharges the hypotheses on `orig` of
    `octa_roundtrip` (C16) for every value the encoder emits. Stated for every center value. -/
theorem intvec_coords_in_square (c : Int) (h1 : 1 ≤ c) (h29 : c < 2^29) (v : Int × Int × Int)
    (hsum : iabs v.1 + iabs v.2.1 + iabs v.2.2 = c) :
    Octa.inGrid (Octa.ofCenter c) (Octa.intVecToCoords (Octa.ofCenter c) v) ∧
      Octa.canonical (Octa.ofCenter c) (Octa.intVecToCoords (Octa.ofCenter c) v) :=
  Octa.intVecToCoords_inGrid_canonical (Octa.ofCenter c) ⟨rfl, rfl, h1, h29⟩ v hsum

example : Octa.canonical (Octa.ofCenter 7) (Octa.intVecToCoords (Octa.ofCenter 7) (-3, 0, -4)) :=
  (intvec_coords_in_square 7 (by decide) (by decide) (-3, 0, -4) (by decide)).2

/-- the same for every `q = 2..30` -/
theorem intvec_coords_in_square_q (q : Nat) (t : OctaT) (hinit : Octa.init q = some t)
    (v : Int × Int × Int) (hsum : iabs v.1 + iabs v.2.1 + iabs v.2.2 = t.center) :
    Octa.inGrid t (Octa.intVecToCoords t v) ∧ Octa.canonical t (Octa.intVecToCoords t v) :=
  Octa.intVecToCoords_inGrid_canonical t (Octa.init_wf hinit).1 v hsum

example : Octa.inGrid ⟨2, 3, 2, 1⟩ (Octa.intVecToCoords ⟨2, 3, 2, 1⟩ (-1, 0, 0)) :=
  (intvec_coords_in_square_q 2 _ (by decide) (-1, 0, 0) (by decide)).1

/-- the integer tail of `FloatVectorToQuantizedOctahedralCoords`: whatever the two rounded
    coordinates `i0`, `i1` and the sign bit are (abstract float oracle), as long as
    `|i0| ≤ center_value_`, the integer vector handed on has L1 norm exactly `center_value_` … -/
theorem floatvec_intvec_abs_sum (t : OctaT) (i0 i1 : Int) (zNeg : Bool)
    (h0 : iabs i0 ≤ t.center) :
    iabs (Octa.fixIntVec t i0 i1 zNeg).1 + iabs (Octa.fixIntVec t i0 i1 zNeg).2.1
      + iabs (Octa.fixIntVec t i0 i1 zNeg).2.2 = t.center :=
  Octa.fixIntVec_abs_sum t i0 i1 zNeg h0

example : iabs (Octa.fixIntVec ⟨3, 7, 6, 3⟩ 2 (-2) true).1
    + iabs (Octa.fixIntVec ⟨3, 7, 6, 3⟩ 2 (-2) true).2.1
    + iabs (Octa.fixIntVec ⟨3, 7, 6, 3⟩ 2 (-2) true).2.2 = 3 :=
  floatvec_intvec_abs_sum _ 2 (-2) true (by decide)

/-- … hence the coordinates computed from a float vector lie in the square and are canonical
    (for every result of the float oracle with `|i0| ≤ c`). -/
theorem floatvec_coords_in_square (q : Nat) (t : OctaT) (hinit : Octa.init q = some t)
    (i0 i1 : Int) (zNeg : Bool) (h0 : iabs i0 ≤ t.center) :
    Octa.inGrid t (Octa.intVecToCoords t (Octa.fixIntVec t i0 i1 zNeg)) ∧
      Octa.canonical t (Octa.intVecToCoords t (Octa.fixIntVec t i0 i1 zNeg)) :=
  intvec_coords_in_square_q q t hinit _ (floatvec_intvec_abs_sum t i0 i1 zNeg h0)

example : Octa.canonical ⟨3, 7, 6, 3⟩
    (Octa.intVecToCoords ⟨3, 7, 6, 3⟩ (Octa.fixIntVec ⟨3, 7, 6, 3⟩ (-3) 2 false)) :=
  (floatvec_coords_in_square 3 _ (by decide) (-3) 2 false (by decide)).2

/-- `CanonicalizeIntegerVector` (used by the geometric normal predictor) returns a vector of L1
    norm `center_value_` for EVERY input, so that predictor always supplies canonical grid points
    (`intvec_coords_in_square`). -/
theorem canonicalizeIntVec_abs_sum (q : Nat) (t : OctaT) (hinit : Octa.init q = some t)
    (v : Int × Int × Int) :
    iabs (Octa.canonicalizeIntVec t v).1 + iabs (Octa.canonicalizeIntVec t v).2.1
      + iabs (Octa.canonicalizeIntVec t v).2.2 = t.center :=
  Octa.canonicalizeIntVec_abs_sum t (by have := (Octa.init_wf hinit).1.2.2.1; omega) v

example : Octa.canonicalizeIntVec ⟨4, 15, 14, 7⟩ (100, -250, -3) = (1, -4, -2) := by decide

/-! ### angular error in exact arithmetic -/

/-- Exact arithmetic (`Octa.exactDoubleOps`: the `double` expressions of
    `FloatVectorToQuantizedOctahedralCoords` evaluated in ℚ), any `q ≥ 2` with `c ≥ 2`, any
    non-zero rational vector `n`; `v` = the integer vector handed to
    `IntegerVectorToQuantizedOctahedralCoords`.  Then
    * L∞ grid distance: `|c·n_i/|n|₁ − v_i| ≤ 1/2, 1/2, 1` (repair branch included),
    * `|v|₁ = c`, `n·v > 0`,
    * Lipschitz step: `(‖n‖²‖v‖² − (n·v)²)·2c² ≤ 9·‖n‖²‖v‖²`, i.e. `sin²∠(n,v) ≤ 9/(2c²)`. -/
theorem angle_bound_partial (q : Nat) (t : OctaT) (hinit : Octa.init q = some t)
    (hc2 : 2 ≤ t.center) (n1 n2 n3 : ℚ) (hn : 0 < |n1| + |n2| + |n3|) :
    let r := @Octa.floatVecRoundG ℚ Octa.exactDoubleOps t.center n1 n2 n3
    let v := Octa.fixIntVec t r.1 r.2.1 r.2.2
    let S := |n1| + |n2| + |n3|
    (|n1 / S * t.center - v.1| ≤ 1/2 ∧ |n2 / S * t.center - v.2.1| ≤ 1/2 ∧
      |n3 / S * t.center - v.2.2| ≤ 1) ∧
    iabs v.1 + iabs v.2.1 + iabs v.2.2 = t.center ∧
    0 < n1 * v.1 + n2 * v.2.1 + n3 * v.2.2 ∧
    ((n1 ^ 2 + n2 ^ 2 + n3 ^ 2) * ((v.1 : ℚ) ^ 2 + (v.2.1 : ℚ) ^ 2 + (v.2.2 : ℚ) ^ 2)
        - (n1 * v.1 + n2 * v.2.1 + n3 * v.2.2) ^ 2) * (2 * (t.center : ℚ) ^ 2)
      ≤ 9 * ((n1 ^ 2 + n2 ^ 2 + n3 ^ 2) * ((v.1 : ℚ) ^ 2 + (v.2.1 : ℚ) ^ 2 + (v.2.2 : ℚ) ^ 2)) := by
  intro r v S
  have hwf := (Octa.init_wf hinit).1
  refine ⟨?_, Octa.angle_bound_rat t hwf hc2 n1 n2 n3 hn⟩
  exact Octa.grid_distance_exact t hwf n1 n2 n3 hn

/-- the exact encoder expressions at q = 4 (c = 7), n = (1, -2, 1/3): scaled coordinates
    (3/10, -6/10, 1/10)·7 round to (2, -4) -/
theorem octa_example_round :
    @Octa.floatVecRoundG ℚ Octa.exactDoubleOps 7 1 (-2) (1/3) = (2, -4, false) := by
  rw [Octa.floatVecRoundG_exact _ _ _ _ (by norm_num [abs_of_pos, abs_of_neg])]
  have e1 : ⌊(1:ℚ) * (1 / (|1| + |-2| + |1/3|)) * ((7:Int):ℚ) + 1/2⌋ = 2 := by
    rw [Int.floor_eq_iff]; norm_num [abs_of_pos, abs_of_neg]
  have e2 : ⌊(-2:ℚ) * (1 / (|1| + |-2| + |1/3|)) * ((7:Int):ℚ) + 1/2⌋ = -4 := by
    rw [Int.floor_eq_iff]; norm_num [abs_of_pos, abs_of_neg]
  have e3 : decide ((1/3:ℚ) * (1 / (|1| + |-2| + |1/3|)) < ((0:Int):ℚ)) = false := by
    rw [decide_eq_false_iff_not]; norm_num [abs_of_pos, abs_of_neg]
  rw [e1, e2, e3]

/-- non-vacuity: q = 4 (c = 7), n = (1, -2, 1/3) -/
example : (0:ℚ) < 1 * (Octa.fixIntVec ⟨4, 15, 14, 7⟩ 2 (-4) false).1
    + (-2) * (Octa.fixIntVec ⟨4, 15, 14, 7⟩ 2 (-4) false).2.1
    + (1/3) * (Octa.fixIntVec ⟨4, 15, 14, 7⟩ 2 (-4) false).2.2 := by
  have h := (angle_bound_partial 4 ⟨4, 15, 14, 7⟩ (by decide) (by decide) 1 (-2) (1/3)
    (by norm_num [abs_of_pos, abs_of_neg])).2.2.1
  simp only [octa_example_round] at h
  exact h

/-- Exact arithmetic, `q = 3..30`: the angle between a non-zero rational vector `n` and the
    integer vector `v` chosen by the encoder is at most `3·(2/(2^q − 2))` radians. -/
theorem angle_bound_exact (q : Nat) (t : OctaT) (hinit : Octa.init q = some t) (hq : 3 ≤ q)
    (n1 n2 n3 : ℚ) (hn : 0 < |n1| + |n2| + |n3|) :
    let r := @Octa.floatVecRoundG ℚ Octa.exactDoubleOps t.center n1 n2 n3
    let v := Octa.fixIntVec t r.1 r.2.1 r.2.2
    let N : ℝ := ((n1 ^ 2 + n2 ^ 2 + n3 ^ 2 : ℚ) : ℝ)
    let V : ℝ := (((v.1 : ℚ) ^ 2 + (v.2.1 : ℚ) ^ 2 + (v.2.2 : ℚ) ^ 2 : ℚ) : ℝ)
    let D : ℝ := ((n1 * v.1 + n2 * v.2.1 + n3 * v.2.2 : ℚ) : ℝ)
    Real.arccos (D / (Real.sqrt N * Real.sqrt V)) ≤ 3 * (2 / ((2:ℝ) ^ q - 2)) := by
  intro r v N V D
  obtain ⟨hcen, hc3⟩ := Octa.init_center hinit
  have hc3 := hc3 hq
  have hwf := (Octa.init_wf hinit).1
  obtain ⟨hsum, hD, hb⟩ := Octa.angle_bound_rat t hwf (by omega) n1 n2 n3 hn
  have hbound : 3 * (2 / ((2:ℝ) ^ q - 2)) = 3 / (t.center : ℝ) := by
    have : ((2:ℝ) ^ q - 2) = 2 * (t.center : ℝ) := by
      have : ((2 * t.center : Int) : ℝ) = (((2:Int) ^ q - 2 : Int) : ℝ) := by rw [hcen]
      push_cast at this; linarith
    have hc0 : (t.center : ℝ) ≠ 0 := by
      have : (0:ℝ) < t.center := by exact_mod_cast (by omega : (0:Int) < t.center)
      exact ne_of_gt this
    rw [this]; field_simp
  rw [hbound]
  have hNq : (0:ℚ) < n1 ^ 2 + n2 ^ 2 + n3 ^ 2 := by
    by_contra h
    have h0 : n1 ^ 2 + n2 ^ 2 + n3 ^ 2 = 0 := le_antisymm (not_lt.mp h) (by positivity)
    have a1 : n1 = 0 := by nlinarith [sq_nonneg n1, sq_nonneg n2, sq_nonneg n3]
    have a2 : n2 = 0 := by nlinarith [sq_nonneg n1, sq_nonneg n2, sq_nonneg n3]
    have a3 : n3 = 0 := by nlinarith [sq_nonneg n1, sq_nonneg n2, sq_nonneg n3]
    rw [a1, a2, a3] at hn; simp at hn
  have hVq : (0:ℚ) < (v.1 : ℚ) ^ 2 + (v.2.1 : ℚ) ^ 2 + (v.2.2 : ℚ) ^ 2 := by
    by_contra h
    have h0 : (v.1 : ℚ) ^ 2 + (v.2.1 : ℚ) ^ 2 + (v.2.2 : ℚ) ^ 2 = 0 :=
      le_antisymm (not_lt.mp h) (by positivity)
    have a1 : (v.1 : ℚ) = 0 := by nlinarith [sq_nonneg (v.1 : ℚ), sq_nonneg (v.2.1 : ℚ), sq_nonneg (v.2.2 : ℚ)]
    have a2 : (v.2.1 : ℚ) = 0 := by nlinarith [sq_nonneg (v.1 : ℚ), sq_nonneg (v.2.1 : ℚ), sq_nonneg (v.2.2 : ℚ)]
    have a3 : (v.2.2 : ℚ) = 0 := by nlinarith [sq_nonneg (v.1 : ℚ), sq_nonneg (v.2.1 : ℚ), sq_nonneg (v.2.2 : ℚ)]
    have b1 : v.1 = 0 := by exact_mod_cast a1
    have b2 : v.2.1 = 0 := by exact_mod_cast a2
    have b3 : v.2.2 = 0 := by exact_mod_cast a3
    change iabs v.1 + iabs v.2.1 + iabs v.2.2 = t.center at hsum
    rw [b1, b2, b3] at hsum
    simp [iabs] at hsum; omega
  have hcs : ((n1 * v.1 + n2 * v.2.1 + n3 * v.2.2 : ℚ)) ^ 2
      ≤ (n1 ^ 2 + n2 ^ 2 + n3 ^ 2) * ((v.1 : ℚ) ^ 2 + (v.2.1 : ℚ) ^ 2 + (v.2.2 : ℚ) ^ 2) := by
    nlinarith [sq_nonneg (n1 * v.2.1 - n2 * v.1), sq_nonneg (n1 * v.2.2 - n3 * v.1),
      sq_nonneg (n2 * v.2.2 - n3 * v.2.1)]
  have hNr : (0:ℝ) < N := by
    show (0:ℝ) < ((n1 ^ 2 + n2 ^ 2 + n3 ^ 2 : ℚ) : ℝ)
    exact_mod_cast hNq
  have hVr : (0:ℝ) < V := by
    show (0:ℝ) < (((v.1 : ℚ) ^ 2 + (v.2.1 : ℚ) ^ 2 + (v.2.2 : ℚ) ^ 2 : ℚ) : ℝ)
    exact_mod_cast hVq
  have hDr : (0:ℝ) < D := by
    show (0:ℝ) < ((n1 * v.1 + n2 * v.2.1 + n3 * v.2.2 : ℚ) : ℝ)
    exact_mod_cast hD
  have hbr : (N * V - D ^ 2) * (2 * (t.center : ℝ) ^ 2) ≤ 9 * (N * V) := by
    show (((n1 ^ 2 + n2 ^ 2 + n3 ^ 2 : ℚ) : ℝ)
        * (((v.1 : ℚ) ^ 2 + (v.2.1 : ℚ) ^ 2 + (v.2.2 : ℚ) ^ 2 : ℚ) : ℝ)
        - ((n1 * v.1 + n2 * v.2.1 + n3 * v.2.2 : ℚ) : ℝ) ^ 2) * (2 * (t.center : ℝ) ^ 2)
      ≤ 9 * (((n1 ^ 2 + n2 ^ 2 + n3 ^ 2 : ℚ) : ℝ)
        * (((v.1 : ℚ) ^ 2 + (v.2.1 : ℚ) ^ 2 + (v.2.2 : ℚ) ^ 2 : ℚ) : ℝ))
    exact_mod_cast hb
  have hcsr : D ^ 2 ≤ N * V := by
    show ((n1 * v.1 + n2 * v.2.1 + n3 * v.2.2 : ℚ) : ℝ) ^ 2
      ≤ ((n1 ^ 2 + n2 ^ 2 + n3 ^ 2 : ℚ) : ℝ)
        * (((v.1 : ℚ) ^ 2 + (v.2.1 : ℚ) ^ 2 + (v.2.2 : ℚ) ^ 2 : ℚ) : ℝ)
    exact_mod_cast hcs
  exact Octa.arccos_le_of_sin_sq N V D (t.center : ℝ) (by exact_mod_cast hc3) hNr hVr hDr hbr hcsr

/-- non-vacuity: q = 4, n = (1, -2, 1/3) -/
example : Real.arccos (((1 * 2 + (-2) * (-4) + (1/3) * 1 : ℚ) : ℝ)
      / (Real.sqrt ((1 ^ 2 + (-2) ^ 2 + (1/3) ^ 2 : ℚ) : ℝ)
         * Real.sqrt ((((2:Int) : ℚ) ^ 2 + ((-4 : Int) : ℚ) ^ 2 + ((1 : Int) : ℚ) ^ 2 : ℚ) : ℝ)))
    ≤ 3 * (2 / ((2:ℝ) ^ 4 - 2)) := by
  have h := angle_bound_exact 4 ⟨4, 15, 14, 7⟩ (by decide) (by decide) 1 (-2) (1/3)
    (by norm_num [abs_of_pos, abs_of_neg])
  have ev : Octa.fixIntVec ⟨4, 15, 14, 7⟩ 2 (-4) false = (2, -4, 1) := by decide
  simp only [octa_example_round, ev] at h
  exact h

/-- **Fixed point** (exact arithmetic): decoding the octahedral coordinates of an integer vector
    `v` with `|v|₁ = center_value_` gives `v / center_value_` (the vector that
    `OctahedralCoordsToUnitVector` then normalises). -/
theorem octa_fixed_point (q : Nat) (t : OctaT) (hinit : Octa.init q = some t) (v : Int × Int × Int)
    (hsum : iabs v.1 + iabs v.2.1 + iabs v.2.2 = t.center) :
    @Octa.octaVecG ℚ Octa.exactOctaDecOps t.maxV (Octa.intVecToCoords t v)
      = ((v.1 : ℚ) / t.center, (v.2.1 : ℚ) / t.center, (v.2.2 : ℚ) / t.center) :=
  Octa.octaVecG_exact_fixed_point t (Octa.init_wf hinit).1 v hsum

/-- non-vacuity: q = 4, v = (-3, 0, -4) (coordinates on the boundary, canonicalised) -/
example : @Octa.octaVecG ℚ Octa.exactOctaDecOps 14 (Octa.intVecToCoords ⟨4, 15, 14, 7⟩ (-3, 0, -4))
    = ((-3 : ℚ) / 7, 0 / 7, (-4 : ℚ) / 7) := by
  have := octa_fixed_point 4 ⟨4, 15, 14, 7⟩ (by decide) (-3, 0, -4) (by decide)
  simpa using this

/-- Exact arithmetic, `q = 3..30`, encoder and decoder: `w` = the vector decoded (before
    normalisation) from the coordinates the encoder assigns to the non-zero rational vector `n`.
    The angle between `n` and `w` is at most `3·(2/(2^q − 2))`. -/
theorem angle_bound_exact_decoded (q : Nat) (t : OctaT) (hinit : Octa.init q = some t) (hq : 3 ≤ q)
    (n1 n2 n3 : ℚ) (hn : 0 < |n1| + |n2| + |n3|) :
    let r := @Octa.floatVecRoundG ℚ Octa.exactDoubleOps t.center n1 n2 n3
    let st := Octa.intVecToCoords t (Octa.fixIntVec t r.1 r.2.1 r.2.2)
    let w := @Octa.octaVecG ℚ Octa.exactOctaDecOps t.maxV st
    Real.arccos (((n1 * w.1 + n2 * w.2.1 + n3 * w.2.2 : ℚ) : ℝ)
        / (Real.sqrt ((n1 ^ 2 + n2 ^ 2 + n3 ^ 2 : ℚ) : ℝ)
           * Real.sqrt ((w.1 ^ 2 + w.2.1 ^ 2 + w.2.2 ^ 2 : ℚ) : ℝ)))
      ≤ 3 * (2 / ((2:ℝ) ^ q - 2)) := by
  intro r st w
  have hwf := (Octa.init_wf hinit).1
  obtain ⟨_, hc3⟩ := Octa.init_center hinit
  have hc3 := hc3 hq
  obtain ⟨hsum, _, _⟩ := Octa.angle_bound_rat t hwf (by omega) n1 n2 n3 hn
  have hw : w = _ := octa_fixed_point q t hinit _ hsum
  have hmain := angle_bound_exact q t hinit hq n1 n2 n3 hn
  simp only at hmain
  set v := Octa.fixIntVec t r.1 r.2.1 r.2.2 with hv
  set c : ℚ := (t.center : ℚ) with hcdef
  have hc0 : (0:ℚ) < c := by rw [hcdef]; exact_mod_cast (by omega : (0:Int) < t.center)
  have hcr : (0:ℝ) < (c : ℝ) := by exact_mod_cast hc0
  -- the argument of arccos is invariant under the scaling by 1/c
  have e1 : ((n1 * w.1 + n2 * w.2.1 + n3 * w.2.2 : ℚ) : ℝ)
      = ((n1 * v.1 + n2 * v.2.1 + n3 * v.2.2 : ℚ) : ℝ) / (c : ℝ) := by
    rw [hw]; push_cast; field_simp
  have e2 : ((w.1 ^ 2 + w.2.1 ^ 2 + w.2.2 ^ 2 : ℚ) : ℝ)
      = (((v.1 : ℚ) ^ 2 + (v.2.1 : ℚ) ^ 2 + (v.2.2 : ℚ) ^ 2 : ℚ) : ℝ) / (c : ℝ) ^ 2 := by
    rw [hw]; push_cast; field_simp
  rw [e1, e2, Real.sqrt_div' _ (by positivity), Real.sqrt_sq hcr.le]
  have e3 : ∀ (D a b : ℝ), D / (c : ℝ) / (a * (b / (c : ℝ))) = D / (a * b) := by
    intro D a b
    have : (c : ℝ) ≠ 0 := ne_of_gt hcr
    field_simp
  rw [e3]
  exact hmain

/-! ### the float code path under rounding oracles (slice c08plus, second part)

  Style of `quant_float_half_step` (C04): theorems for ANY oracle obeying the standard rounding
  model — `Octa.DoubleModel opsE uE` for the `double` expressions of
  `FloatVectorToQuantizedOctahedralCoords` (binary64: `uE = 2^-53`) and `Octa.DecModel opsD u` for
  the `float` expressions of `QuantizedOctahedralCoordsToUnitVector` incl. the normalisation
  (binary32: `u = 2^-24`).  The generic functions are the ones whose `Float` / `Float32`
  instances ARE the executable model (`Octa.floatVecRound_eq_generic`,
  `Octa.coordsToUnitVector_eq_normG`), which is compared bit for bit with the C++.
  The models idealise "no overflow / underflow".  For `float` inputs this is no restriction on
  the encoder: `|x|+|y|+|z| ∈ [2^-149, 3·2^128]` and every intermediate `double` lies in
  `[2^-279, 2^30]`; the decoder works on values in `[2^-30, 4]` or exact zeros.
  Angles are `InnerProductGeometry.angle` of `Octa.vec3`; `Octa.angle_vec3` unfolds it to
  `arccos (a·b / (‖a‖‖b‖))`. -/

theorem castR {a b : ℚ} (h : a ≤ b) : (a:ℝ) ≤ (b:ℝ) := by exact_mod_cast h

theorem sqrt_sub_one_le (x : ℝ) (hx : 0 ≤ x) : |Real.sqrt x - 1| ≤ |x - 1| := by
  have hs := Real.sqrt_nonneg x
  have e : x - 1 = (Real.sqrt x - 1) * (Real.sqrt x + 1) := by
    have := Real.sq_sqrt hx; nlinarith
  rw [e, abs_mul, abs_of_pos (by linarith : 0 < Real.sqrt x + 1)]
  have := abs_nonneg (Real.sqrt x - 1)
  nlinarith

/-- **(1) Unit length.**  For every `q = 2..30`, every grid point `(s, t) ∈ [0, 2^q−2]²` and every
    decoder oracle with unit roundoff `u ≤ 2^-10`: the zero branch of
    `OctahedralCoordsToUnitVector` is not taken (no division by zero, hence no NaN), and the
    decoded vector has `|‖d‖² − 1| ≤ 10u` and `|‖d‖ − 1| ≤ 10u` (binary32: 5.97e-7). -/
theorem float_decoded_unit_length (opsD : Octa.OctaNormOps ℝ) (u : ℝ) (hmD : Octa.DecModel opsD u)
    (hu0 : 0 ≤ u) (hu : u ≤ 1/1024) (q : Nat) (t : OctaT) (hinit : Octa.init q = some t)
    (p : Int × Int) (hg : Octa.inGrid t p) :
    let d := @Octa.coordsToUnitVectorG ℝ opsD t.maxV p
    |d.1 ^ 2 + d.2.1 ^ 2 + d.2.2 ^ 2 - 1| ≤ 10 * u ∧
    |Real.sqrt (d.1 ^ 2 + d.2.1 ^ 2 + d.2.2 ^ 2) - 1| ≤ 10 * u := by
  intro d
  obtain ⟨hV, _, hc1, _⟩ := (Octa.init_wf hinit).1
  unfold Octa.inGrid at hg
  rw [hV] at hg
  obtain ⟨s0, s1, t0, t1⟩ := hg
  obtain ⟨_, _, _, _, _, _, _, _, _, hlen⟩ :=
    Octa.decoded_unit opsD hmD hu0 hu t.center hc1 p.1 p.2 s0 s1 t0 t1
  have hd : d = @Octa.coordsToUnitVectorG ℝ opsD (2 * t.center) (p.1, p.2) := by
    show @Octa.coordsToUnitVectorG ℝ opsD t.maxV p = _; rw [hV]
  rw [hd]
  exact ⟨hlen, le_trans (sqrt_sub_one_le _ (by positivity)) hlen⟩

/-- non-vacuity: the oracle that biases every operation by `1 + 2^-24`, q = 10, point (3, 700) -/
example : |Real.sqrt ((@Octa.coordsToUnitVectorG ℝ (Octa.biasedNormOps (1/2^24)) 1022 (3, 700)).1 ^ 2
      + (@Octa.coordsToUnitVectorG ℝ (Octa.biasedNormOps (1/2^24)) 1022 (3, 700)).2.1 ^ 2
      + (@Octa.coordsToUnitVectorG ℝ (Octa.biasedNormOps (1/2^24)) 1022 (3, 700)).2.2 ^ 2) - 1|
    ≤ 10 * (1/2^24) :=
  (float_decoded_unit_length (Octa.biasedNormOps (1/2^24)) (1/2^24)
    (Octa.biasedNormOps_model _ _ (by rw [abs_of_pos] <;> norm_num)) (by norm_num) (by norm_num)
    10 ⟨10, 1023, 1022, 511⟩ (by decide) (3, 700) (by unfold Octa.inGrid; decide)).2

open InnerProductGeometry in
/-- **(2) Angle, `q = 3..30`.**  Encoder oracle with `uE ≤ 2^-40`, `c·uE ≤ 2^-9`; decoder oracle
    with `0 < u ≤ 2^-14`; `n` a non-zero rational (= finite float) vector.  The float encoder's
    rounded coordinates are within `1/2 + 8·c·uE` of the exactly scaled ones
    (`Octa.float_round_close`: they can differ from the exact-arithmetic choice by one grid step
    only when the scaled value is within `8·c·uE` of a rounding boundary), which costs `120·uE`;
    the decoder's roundings (scale, two subtractions, sign decisions, normalisation) cost `144·u`:
    `∠(n, decode(encode n)) ≤ 3·(2/(2^q − 2)) + 120·uE + 144·u`
    (binary64 / binary32: `+ 8.6e-6`). -/
theorem float_angle_bound (opsE : DoubleOps ℚ) (uE : ℚ) (hmE : Octa.DoubleModel opsE uE)
    (opsD : Octa.OctaNormOps ℝ) (u : ℝ) (hmD : Octa.DecModel opsD u)
    (huE0 : 0 ≤ uE) (huE : uE ≤ 1 / 2 ^ 40) (hu0 : 0 < u) (hu : u ≤ 1/16384)
    (q : Nat) (t : OctaT) (hinit : Octa.init q = some t) (hq : 3 ≤ q)
    (hcu : (t.center : ℚ) * uE ≤ 1/512)
    (n1 n2 n3 : ℚ) (hn : 0 < |n1| + |n2| + |n3|) :
    let r := @Octa.floatVecRoundG ℚ opsE t.center n1 n2 n3
    let st := Octa.intVecToCoords t (Octa.fixIntVec t r.1 r.2.1 r.2.2)
    let d := @Octa.coordsToUnitVectorG ℝ opsD t.maxV st
    angle (Octa.vec3 n1 n2 n3) (Octa.vec3 d.1 d.2.1 d.2.2)
      ≤ 3 * (2 / ((2:ℝ) ^ q - 2)) + 120 * uE + 144 * u := by
  intro r st d
  have hwf := (Octa.init_wf hinit).1
  obtain ⟨hcen, hc3⟩ := Octa.init_center hinit
  have hc3 := hc3 hq
  obtain ⟨hsum, d1, d2, d3⟩ := Octa.encoder_facts opsE hmE huE0 huE t hwf hcu n1 n2 n3 hn
  set v := Octa.fixIntVec t r.1 r.2.1 r.2.2 with hv
  obtain ⟨hdec, _⟩ := Octa.decoder_angle opsD hmD hu0 hu t hwf v hsum
  have hc3r : (3:ℝ) ≤ (t.center : ℝ) := by exact_mod_cast hc3
  have hc0 : (0:ℝ) < (t.center : ℝ) := by linarith
  have hεq : (8 * (t.center : ℚ) * uE : ℚ) ≤ 1/64 := by linarith
  have hε : (8 * (t.center : ℝ) * (uE : ℝ)) ≤ 1/64 := by
    have := castR hεq; push_cast at this; linarith
  have hε0 : (0:ℝ) ≤ 8 * (t.center : ℝ) * (uE : ℝ) := by
    have : (0:ℝ) ≤ (uE : ℝ) := by exact_mod_cast huE0
    positivity
  have d1r : |(n1:ℝ) / (|(n1:ℝ)| + |(n2:ℝ)| + |(n3:ℝ)|) * (t.center : ℝ) - (v.1 : ℝ)|
      ≤ 1/2 + 8 * (t.center : ℝ) * (uE : ℝ) := by
    have := castR d1; push_cast at this; linarith
  have d2r : |(n2:ℝ) / (|(n1:ℝ)| + |(n2:ℝ)| + |(n3:ℝ)|) * (t.center : ℝ) - (v.2.1 : ℝ)|
      ≤ 1/2 + 8 * (t.center : ℝ) * (uE : ℝ) := by
    have := castR d2; push_cast at this; linarith
  have d3r : |(n3:ℝ) / (|(n1:ℝ)| + |(n2:ℝ)| + |(n3:ℝ)|) * (t.center : ℝ) - (v.2.2 : ℝ)|
      ≤ 1 + 2 * (8 * (t.center : ℝ) * (uE : ℝ)) := by
    have := castR d3; push_cast at this; linarith
  have hSr : (0:ℝ) < |(n1:ℝ)| + |(n2:ℝ)| + |(n3:ℝ)| := by exact_mod_cast hn
  have henc := Octa.encoder_angle_of_facts (t.center : ℝ) hc3r _ hε0 hε (n1:ℝ) (n2:ℝ) (n3:ℝ) _ rfl hSr
    (v.1 : ℝ) (v.2.1 : ℝ) (v.2.2 : ℝ) d1r d2r d3r
  have htri := angle_le_angle_add_angle (Octa.vec3 n1 n2 n3) (Octa.vec3 v.1 v.2.1 v.2.2)
    (Octa.vec3 d.1 d.2.1 d.2.2)
  have hbound : 3 * (2 / ((2:ℝ) ^ q - 2)) = 3 / (t.center : ℝ) := by
    have : ((2:ℝ) ^ q - 2) = 2 * (t.center : ℝ) := by
      have : ((2 * t.center : Int) : ℝ) = (((2:Int) ^ q - 2 : Int) : ℝ) := by rw [hcen]
      push_cast at this; linarith
    rw [this]; field_simp
  have e : 3 / (t.center : ℝ) * (1 + 5 * (8 * (t.center : ℝ) * (uE : ℝ)))
      = 3 / (t.center : ℝ) + 120 * uE := by field_simp; ring
  rw [hbound]
  rw [e] at henc
  linarith

open InnerProductGeometry in
/-- **(4) `q = 2`** (`c = 1`, the six axis directions): `n·v ≥ −2ε|n|₁`, so
    `∠(n, decode(encode n)) ≤ π/2 + 64·uE + 144·u`, which is below the property's
    `3·(2/(2^2−2)) = 3` rad. -/
theorem float_angle_bound_q2 (opsE : DoubleOps ℚ) (uE : ℚ) (hmE : Octa.DoubleModel opsE uE)
    (opsD : Octa.OctaNormOps ℝ) (u : ℝ) (hmD : Octa.DecModel opsD u)
    (huE0 : 0 ≤ uE) (huE : uE ≤ 1 / 2 ^ 40) (hu0 : 0 < u) (hu : u ≤ 1/16384)
    (t : OctaT) (hinit : Octa.init 2 = some t)
    (n1 n2 n3 : ℚ) (hn : 0 < |n1| + |n2| + |n3|) :
    let r := @Octa.floatVecRoundG ℚ opsE t.center n1 n2 n3
    let st := Octa.intVecToCoords t (Octa.fixIntVec t r.1 r.2.1 r.2.2)
    let d := @Octa.coordsToUnitVectorG ℝ opsD t.maxV st
    angle (Octa.vec3 n1 n2 n3) (Octa.vec3 d.1 d.2.1 d.2.2) ≤ Real.pi / 2 + 64 * uE + 144 * u ∧
    Real.pi / 2 + 64 * (uE : ℝ) + 144 * u ≤ 3 := by
  intro r st d
  have hwf := (Octa.init_wf hinit).1
  have hc : t.center = 1 := by
    have := (Octa.init_center hinit).1; omega
  have huEr : ((uE:ℚ):ℝ) ≤ 1 / 2 ^ 40 := by
    have := castR huE; push_cast at this; linarith
  have huE0r : (0:ℝ) ≤ ((uE:ℚ):ℝ) := by exact_mod_cast huE0
  refine ⟨?_, ?_⟩
  · have hcu : (t.center : ℚ) * uE ≤ 1/512 := by
      rw [hc]; push_cast
      have : (1:ℚ) / 2 ^ 40 ≤ 1/512 := by norm_num
      linarith
    obtain ⟨hsum, d1, d2, d3⟩ := Octa.encoder_facts opsE hmE huE0 huE t hwf hcu n1 n2 n3 hn
    set v := Octa.fixIntVec t r.1 r.2.1 r.2.2 with hv
    obtain ⟨hdec, _⟩ := Octa.decoder_angle opsD hmD hu0 hu t hwf v hsum
    rw [hc] at hsum d1 d2 d3
    have hε : (8 * (uE : ℝ)) ≤ 1/64 := by
      have : (1:ℝ) / 2 ^ 40 ≤ 1/512 := by norm_num
      linarith
    have d1r : |(n1:ℝ) / (|(n1:ℝ)| + |(n2:ℝ)| + |(n3:ℝ)|) * 1 - (v.1 : ℝ)| ≤ 1/2 + 8 * (uE : ℝ) := by
      have := castR d1; push_cast at this; linarith
    have d2r : |(n2:ℝ) / (|(n1:ℝ)| + |(n2:ℝ)| + |(n3:ℝ)|) * 1 - (v.2.1 : ℝ)| ≤ 1/2 + 8 * (uE : ℝ) := by
      have := castR d2; push_cast at this; linarith
    have d3r : |(n3:ℝ) / (|(n1:ℝ)| + |(n2:ℝ)| + |(n3:ℝ)|) * 1 - (v.2.2 : ℝ)|
        ≤ 1 + 2 * (8 * (uE : ℝ)) := by
      have := castR d3; push_cast at this; linarith
    have hSr : (0:ℝ) < |(n1:ℝ)| + |(n2:ℝ)| + |(n3:ℝ)| := by exact_mod_cast hn
    have henc := Octa.encoder_angle_q2_of_facts (8 * (uE:ℝ)) (by linarith) hε (n1:ℝ) (n2:ℝ) (n3:ℝ) _ rfl
      hSr v.1 v.2.1 v.2.2 hsum d1r d2r d3r
    have htri := angle_le_angle_add_angle (Octa.vec3 n1 n2 n3) (Octa.vec3 v.1 v.2.1 v.2.2)
      (Octa.vec3 d.1 d.2.1 d.2.2)
    linarith
  · have := Real.pi_le_four
    have h1 : (1:ℝ) / 2 ^ 40 ≤ 1/4096 := by norm_num
    linarith

open InnerProductGeometry in
/-- **(3) Zero input** (the `abs_sum > 0` guard, fix b048a3b; `double` sums of zeros are zero for
    every oracle): the all-zero vector is quantized like `(1, 0, 0)` — coordinates of the integer
    vector `(c, 0, 0)` — and decodes to a vector of length `1 ± 10u` within `144u` of `+x`.
    No operation divides by zero: `1/abs_sum` is skipped, and `decoded_unit` excludes the zero
    branch of the normalisation.  Denormal and huge `float` inputs are ordinary non-zero inputs of
    `float_angle_bound` (the `double` computation cannot over- or underflow on them). -/
theorem float_zero_input (opsE : DoubleOps ℚ) (uE : ℚ) (hmE : Octa.DoubleModel opsE uE)
    (opsD : Octa.OctaNormOps ℝ) (u : ℝ) (hmD : Octa.DecModel opsD u)
    (huE0 : 0 ≤ uE) (huE : uE ≤ 1/1024) (hu0 : 0 < u) (hu : u ≤ 1/16384)
    (q : Nat) (t : OctaT) (hinit : Octa.init q = some t) (hcu : (t.center : ℚ) * uE ≤ 1/16) :
    @Octa.floatVecRoundG ℚ opsE t.center 0 0 0 = (t.center, 0, false) ∧
    Octa.fixIntVec t t.center 0 false = (t.center, 0, 0) ∧
    (let d := @Octa.coordsToUnitVectorG ℝ opsD t.maxV (Octa.intVecToCoords t (t.center, 0, 0))
     angle (Octa.vec3 1 0 0) (Octa.vec3 d.1 d.2.1 d.2.2) ≤ 144 * u ∧
     |d.1 ^ 2 + d.2.1 ^ 2 + d.2.2 ^ 2 - 1| ≤ 10 * u) := by
  have hwf := (Octa.init_wf hinit).1
  obtain ⟨_, _, hc1, _⟩ := (Octa.init_wf hinit).1
  have hfix : Octa.fixIntVec t t.center 0 false = (t.center, 0, 0) := by
    unfold Octa.fixIntVec iabs
    have : ¬ (t.center < 0) := by omega
    simp [this]
  refine ⟨Octa.floatVecRoundG_zero opsE hmE huE0 huE t.center hc1 hcu, hfix, ?_⟩
  have hsum : iabs (t.center, (0:Int), (0:Int)).1 + iabs (t.center, (0:Int), (0:Int)).2.1
      + iabs (t.center, (0:Int), (0:Int)).2.2 = t.center := by
    unfold iabs; simp; omega
  obtain ⟨ha, hl⟩ := Octa.decoder_angle opsD hmD hu0 hu t hwf (t.center, 0, 0) hsum
  refine ⟨?_, hl⟩
  have hc0 : (0:ℝ) < (t.center : ℝ) := by exact_mod_cast (by omega : (0:Int) < t.center)
  have e : Octa.vec3 ((t.center, (0:Int), (0:Int)).1 : ℝ) ((t.center, (0:Int), (0:Int)).2.1 : ℝ)
      ((t.center, (0:Int), (0:Int)).2.2 : ℝ) = (t.center : ℝ) • Octa.vec3 1 0 0 := by
    rw [← Octa.vec3_smul]; simp
  rw [e, angle_smul_left_of_pos _ _ hc0] at ha
  exact ha

/-- non-vacuity of (2)–(4): the exact `double` instance as encoder oracle, the biased `float`
    oracle as decoder; q = 4, n = (1, -2, 1/3) -/
example : InnerProductGeometry.angle (Octa.vec3 1 (-2) ((1/3 : ℚ) : ℝ))
    (Octa.vec3
      (@Octa.coordsToUnitVectorG ℝ (Octa.biasedNormOps (1/2^24)) 14 (Octa.intVecToCoords ⟨4, 15, 14, 7⟩ (2, -4, 1))).1
      (@Octa.coordsToUnitVectorG ℝ (Octa.biasedNormOps (1/2^24)) 14 (Octa.intVecToCoords ⟨4, 15, 14, 7⟩ (2, -4, 1))).2.1
      (@Octa.coordsToUnitVectorG ℝ (Octa.biasedNormOps (1/2^24)) 14 (Octa.intVecToCoords ⟨4, 15, 14, 7⟩ (2, -4, 1))).2.2)
    ≤ 3 * (2 / ((2:ℝ) ^ 4 - 2)) + 120 * ((0:ℚ):ℝ) + 144 * (1/2^24) := by
  have h := float_angle_bound Octa.exactDoubleOps 0 (Octa.exactDoubleOps_model 0 (le_refl _))
    (Octa.biasedNormOps (1/2^24)) (1/2^24)
    (Octa.biasedNormOps_model _ _ (by rw [abs_of_pos] <;> norm_num)) (le_refl _) (by norm_num)
    (by norm_num) (by norm_num) 4 ⟨4, 15, 14, 7⟩ (by decide) (by decide) (by norm_num)
    1 (-2) (1/3) (by norm_num [abs_of_pos, abs_of_neg])
  have ev : Octa.fixIntVec ⟨4, 15, 14, 7⟩ 2 (-4) false = (2, -4, 1) := by decide
  simp only [octa_example_round, ev] at h
  simpa using h

/-- non-vacuity of (4): exact encoder oracle, biased decoder oracle, q = 2, n = (1, -2, 1/3) -/
example := float_angle_bound_q2 Octa.exactDoubleOps 0 (Octa.exactDoubleOps_model 0 (le_refl _))
  (Octa.biasedNormOps (1/2^24)) (1/2^24)
  (Octa.biasedNormOps_model _ _ (by rw [abs_of_pos] <;> norm_num)) (le_refl _) (by norm_num)
  (by norm_num) (by norm_num) ⟨2, 3, 2, 1⟩ (by decide) 1 (-2) (1/3)
  (by norm_num [abs_of_pos, abs_of_neg])

/-- non-vacuity of (3): q = 10 -/
example := float_zero_input Octa.exactDoubleOps 0 (Octa.exactDoubleOps_model 0 (le_refl _))
  (Octa.biasedNormOps (1/2^24)) (1/2^24)
  (Octa.biasedNormOps_model _ _ (by rw [abs_of_pos] <;> norm_num)) (le_refl _) (by norm_num)
  (by norm_num) (by norm_num) 10 ⟨10, 1023, 1022, 511⟩ (by decide) (by norm_num)

/-! ## the source functions *are* the model functions

  `Generated.*` (lean/Generated/Funcs.lean) is translated mechanically from clang's typed AST of /repo's
  working tree on every run (tools/vlib/xlate.py).  Each theorem states that the translated
  `OctahedronToolBox` function equals the model function the theorems above are about. -/
open Generated in
/-- `OctahedronToolBox::CanonicalizeOctahedralCoords` is `Octa.canonicalize` on the grid `[0, max_value_]²` -/
theorem source_canonicalize_is_model (t : OctaT) (s tt : Int) (hwf : t.WF) (hg : Octa.inGrid t (s, tt)) :
    OctahedronToolBox.CanonicalizeOctahedralCoords (ofOctaT t) s tt = Octa.canonicalize t (s, tt) :=
  CanonicalizeOctahedralCoords_eq_model t s tt hwf hg
example : Generated.OctahedronToolBox.CanonicalizeOctahedralCoords (Generated.ofOctaT (Octa.ofCenter 127)) 0 200 = (0, 54) := by
  rw [source_canonicalize_is_model _ _ _ (by unfold OctaT.WF Octa.ofCenter; decide) (by unfold Octa.inGrid Octa.ofCenter; decide)]; decide

open Generated in
/-- `OctahedronToolBox::IsInDiamond` is `Octa.isInDiamond` -/
theorem source_isInDiamond_is_model' (t : OctaT) (s tt : Int) (hwf : t.WF) :
    OctahedronToolBox.IsInDiamond (ofOctaT t) s tt = Octa.isInDiamond t s tt := IsInDiamond_eq_model t s tt hwf
example : Generated.OctahedronToolBox.IsInDiamond (Generated.ofOctaT (Octa.ofCenter 127)) 100 (-27) = true := by
  rw [source_isInDiamond_is_model' _ _ _ (by unfold OctaT.WF Octa.ofCenter; decide)]; decide

open Generated in
/-- `OctahedronToolBox::InvertDiamond` is `Octa.invertDiamond` (every pair of `int32_t`) -/
theorem source_invertDiamond_is_model' (t : OctaT) (s tt : Int) (hwf : t.WF) (hs : I32 s) (ht : I32 tt) :
    OctahedronToolBox.InvertDiamond (ofOctaT t) s tt = Octa.invertDiamond t (s, tt) :=
  InvertDiamond_eq_model t s tt hwf hs ht
example : Generated.OctahedronToolBox.InvertDiamond (Generated.ofOctaT (Octa.ofCenter 127)) 100 (-90) = (37, -27) := by
  rw [source_invertDiamond_is_model' _ _ _ (by unfold OctaT.WF Octa.ofCenter; decide) (by decide) (by decide)]; decide

open Generated in
/-- `…CanonicalizedDecodingTransform::ComputeOriginalValue(Point2, Point2)` (the normal decoder's transform) is
    `Octa.decOrig`, for every prediction on the grid and every correction -/
theorem source_octaDecode_is_model' (t : OctaT) (pred corr : Int × Int) (hwf : t.WF) (hg : Octa.inGrid t pred) :
    PredictionSchemeNormalOctahedronCanonicalizedDecodingTransform.ComputeOriginalValue (ofOctaT t) pred corr =
      Octa.decOrig t pred corr := octaDecode_eq_model t pred corr hwf hg
example : Generated.PredictionSchemeNormalOctahedronCanonicalizedDecodingTransform.ComputeOriginalValue
    (Generated.ofOctaT (Octa.ofCenter 127)) (200, 13) (7, 250) = Octa.decOrig (Octa.ofCenter 127) (200, 13) (7, 250) :=
  source_octaDecode_is_model' _ _ _ (by unfold OctaT.WF Octa.ofCenter; decide) (by unfold Octa.inGrid Octa.ofCenter; decide)

open Generated in
/-- `OctahedronToolBox::IntegerVectorToQuantizedOctahedralCoords` (with its call of `CanonicalizeOctahedralCoords`) is
    `Octa.intVecToCoords` under its documented precondition `|x| + |y| + |z| = center_value_` -/
theorem source_intVecToCoords_is_model (t : OctaT) (x y z : Int) (hwf : t.WF)
    (hsum : iabs x + iabs y + iabs z = t.center) :
    OctahedronToolBox.IntegerVectorToQuantizedOctahedralCoords (ofOctaT t) x y z = Octa.intVecToCoords t (x, y, z) :=
  IntegerVectorToQuantizedOctahedralCoords_eq_model t x y z hwf hsum
example : Generated.OctahedronToolBox.IntegerVectorToQuantizedOctahedralCoords (Generated.ofOctaT (Octa.ofCenter 127)) (-27) 60 (-40) =
    Octa.intVecToCoords (Octa.ofCenter 127) (-27, 60, -40) :=
  source_intVecToCoords_is_model _ _ _ _ (by unfold OctaT.WF Octa.ofCenter; decide) (by decide)

open Generated in
/-- `OctahedronToolBox::CanonicalizeIntegerVector<int32_t>` (64-bit products, truncating division) is
    `Octa.canonicalizeIntVec` for every `int32_t` vector without an `INT_MIN` component (`std::abs` is undefined there) -/
theorem source_canonicalizeIntVec_is_model (t : OctaT) (x y z : Int) (hwf : t.WF)
    (hx : -2^31 < x ∧ x < 2^31) (hy : -2^31 < y ∧ y < 2^31) (hz : -2^31 < z ∧ z < 2^31) :
    OctahedronToolBox.CanonicalizeIntegerVector (ofOctaT t) x y z = Octa.canonicalizeIntVec t (x, y, z) :=
  CanonicalizeIntegerVector_eq_model t x y z hwf hx hy hz
example : Generated.OctahedronToolBox.CanonicalizeIntegerVector (Generated.ofOctaT (Octa.ofCenter 127)) (-2000000000) 5 (-7) =
    Octa.canonicalizeIntVec (Octa.ofCenter 127) (-2000000000, 5, -7) :=
  source_canonicalizeIntVec_is_model _ _ _ _ (by unfold OctaT.WF Octa.ofCenter; decide) (by decide) (by decide) (by decide)

open Generated in
/-- `IntSqrt` (core/math_utils.h; its `while` and `do … while` loops translated as bounded iteration `cWhile 64`) returns the
    model's `Eb.intSqrt` = floor square root for every `uint64_t`: the iteration bound is never reached and no `uint64_t`
    operation wraps -/
theorem source_intSqrt_is_model (n : Nat) (hn : n < 2 ^ 64) :
    IntSqrt (n : Int) = some ((Eb.intSqrt n : Nat) : Int) := IntSqrt_eq_model n hn
example : Generated.IntSqrt ((17 : Nat) : Int) = some ((4 : Nat) : Int) := by
  rw [source_intSqrt_is_model 17 (by norm_num)]; decide

end Draco
