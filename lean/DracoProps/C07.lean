import DracoProofs.Octahedron
/-
  C07 (integer half) — octahedral coordinates produced by the encoder lie inside the q-bit
  square `[0, max_value_]² = [0, 2^q − 2]²` and are canonical (the unique representative of the
  direction).  The float half (angle bound) is not part of this file; the float expressions of
  `FloatVectorToQuantizedOctahedralCoords` enter only through the two rounded integers `i0`, `i1`
  and one sign bit (an abstract oracle as far as these theorems are concerned).
-/
namespace Draco

/-- `CanonicalizeOctahedralCoords` maps every grid point to a canonical grid point. -/
theorem canonicalize_canonical (q : Nat) (t : OctaT) (hinit : Octa.init q = some t)
    (p : Int × Int) (hg : Octa.inGrid t p) :
    Octa.canonical t (Octa.canonicalize t p) ∧ Octa.inGrid t (Octa.canonicalize t p) :=
  Octa.canonicalize_canonical t (Octa.init_wf hinit).1 p hg

example : Octa.canonical ⟨3, 7, 6, 3⟩ (Octa.canonicalize ⟨3, 7, 6, 3⟩ (0, 5)) :=
  (canonicalize_canonical 3 _ (by decide) (0, 5) (by decide)).1

/-- `CanonicalizeOctahedralCoords` is idempotent. -/
theorem canonicalize_idempotent (q : Nat) (t : OctaT) (hinit : Octa.init q = some t)
    (p : Int × Int) (hg : Octa.inGrid t p) :
    Octa.canonicalize t (Octa.canonicalize t p) = Octa.canonicalize t p :=
  Octa.canonicalize_idempotent t (Octa.init_wf hinit).1 p hg

example : Octa.canonicalize ⟨3, 7, 6, 3⟩ (Octa.canonicalize ⟨3, 7, 6, 3⟩ (6, 0)) =
    Octa.canonicalize ⟨3, 7, 6, 3⟩ (6, 0) :=
  canonicalize_idempotent 3 _ (by decide) (6, 0) (by decide)

/-- the canonical points, explicitly (center-relative coordinates `a = s − c`, `b = t − c`):
    all corners except `(c, c)` are excluded; on the left/bottom edges only the part with the
    other coordinate `≤ 0`, on the right/top edges only the part with the other coordinate `≥ 0`
    is kept -/
theorem canonical_iff (q : Nat) (t : OctaT) (hinit : Octa.init q = some t)
    (p : Int × Int) (hg : Octa.inGrid t p) :
    Octa.canonical t p ↔ Octa.CanonC t.center (p.1 - t.center, p.2 - t.center) :=
  Octa.canonical_iff t (Octa.init_wf hinit).1 p hg

example : Octa.canonical ⟨3, 7, 6, 3⟩ (6, 4) :=
  (canonical_iff 3 _ (by decide) (6, 4) (by decide)).2 (by unfold Octa.CanonC; decide)

/-- `IntegerVectorToQuantizedOctahedralCoords`: for every integer vector with
    `|x| + |y| + |z| = center_value_` (the DCHECKed precondition) the result lies in
    `[0, max_value_]²` and is canonical — this discharges the hypotheses on `orig` of
    `octa_roundtrip` (C16) for every value the encoder emits. Stated for every center value. -/
theorem intvec_coords_in_square (c : Int) (h1 : 1 ≤ c) (h29 : c < 2^29) (v : Int × Int × Int)
    (hsum : iabs v.1 + iabs v.2.1 + iabs v.2.2 = c) :
    Octa.inGrid (Octa.ofCenter c) (Octa.intVecToCoords (Octa.ofCenter c) v) ∧
      Octa.canonical (Octa.ofCenter c) (Octa.intVecToCoords (Octa.ofCenter c) v) :=
  Octa.intVecToCoords_inGrid_canonical (Octa.ofCenter c) ⟨rfl, rfl, h1, h29⟩ v hsum

example : Octa.canonical (Octa.ofCenter 7) (Octa.intVecToCoords (Octa.ofCenter 7) (-3, 0, -4)) :=
  (intvec_coords_in_square 7 (by decide) (by decide) (-3, 0, -4) (by decide)).2

/-- the same for every `q = 2..30` -/
theorem intvec_coords_in_square_q (q : Nat) (t : OctaT) (hinit : Octa.init q = some t)
    (v : Int × Int × Int) (hsum : iabs v.1 + iabs v.2.1 + iabs v.2.2 = t.center) :
    Octa.inGrid t (Octa.intVecToCoords t v) ∧ Octa.canonical t (Octa.intVecToCoords t v) :=
  Octa.intVecToCoords_inGrid_canonical t (Octa.init_wf hinit).1 v hsum

example : Octa.inGrid ⟨2, 3, 2, 1⟩ (Octa.intVecToCoords ⟨2, 3, 2, 1⟩ (-1, 0, 0)) :=
  (intvec_coords_in_square_q 2 _ (by decide) (-1, 0, 0) (by decide)).1

/-- the integer tail of `FloatVectorToQuantizedOctahedralCoords`: whatever the two rounded
    coordinates `i0`, `i1` and the sign bit are (abstract float oracle), as long as
    `|i0| ≤ center_value_`, the integer vector handed on has L1 norm exactly `center_value_` … -/
theorem floatvec_intvec_abs_sum (t : OctaT) (i0 i1 : Int) (zNeg : Bool)
    (h0 : iabs i0 ≤ t.center) :
    iabs (Octa.fixIntVec t i0 i1 zNeg).1 + iabs (Octa.fixIntVec t i0 i1 zNeg).2.1
      + iabs (Octa.fixIntVec t i0 i1 zNeg).2.2 = t.center :=
  Octa.fixIntVec_abs_sum t i0 i1 zNeg h0

example : iabs (Octa.fixIntVec ⟨3, 7, 6, 3⟩ 2 (-2) true).1
    + iabs (Octa.fixIntVec ⟨3, 7, 6, 3⟩ 2 (-2) true).2.1
    + iabs (Octa.fixIntVec ⟨3, 7, 6, 3⟩ 2 (-2) true).2.2 = 3 :=
  floatvec_intvec_abs_sum _ 2 (-2) true (by decide)

/-- … hence the coordinates computed from a float vector lie in the square and are canonical
    (for every result of the float oracle with `|i0| ≤ c`). -/
theorem floatvec_coords_in_square (q : Nat) (t : OctaT) (hinit : Octa.init q = some t)
    (i0 i1 : Int) (zNeg : Bool) (h0 : iabs i0 ≤ t.center) :
    Octa.inGrid t (Octa.intVecToCoords t (Octa.fixIntVec t i0 i1 zNeg)) ∧
      Octa.canonical t (Octa.intVecToCoords t (Octa.fixIntVec t i0 i1 zNeg)) :=
  intvec_coords_in_square_q q t hinit _ (floatvec_intvec_abs_sum t i0 i1 zNeg h0)

example : Octa.canonical ⟨3, 7, 6, 3⟩
    (Octa.intVecToCoords ⟨3, 7, 6, 3⟩ (Octa.fixIntVec ⟨3, 7, 6, 3⟩ (-3) 2 false)) :=
  (floatvec_coords_in_square 3 _ (by decide) (-3) 2 false (by decide)).2

/-- `CanonicalizeIntegerVector` (used by the geometric normal predictor) returns a vector of L1
    norm `center_value_` for EVERY input, so that predictor always supplies canonical grid points
    (`intvec_coords_in_square`). -/
theorem canonicalizeIntVec_abs_sum (q : Nat) (t : OctaT) (hinit : Octa.init q = some t)
    (v : Int × Int × Int) :
    iabs (Octa.canonicalizeIntVec t v).1 + iabs (Octa.canonicalizeIntVec t v).2.1
      + iabs (Octa.canonicalizeIntVec t v).2.2 = t.center :=
  Octa.canonicalizeIntVec_abs_sum t (by have := (Octa.init_wf hinit).1.2.2.1; omega) v

example : Octa.canonicalizeIntVec ⟨4, 15, 14, 7⟩ (100, -250, -3) = (1, -4, -2) := by decide

end Draco
