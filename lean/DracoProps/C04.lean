import DracoProofs.QuantExact
import DracoProofs.QuantFloat
import DracoProofs.QuantParams
import DracoProofs.QuantSpecial
import DracoProofs.QuantOracles
import DracoProofs.QuantGrid
/-
  C04 — float attribute quantization error.

  "For a float attribute quantized to q bits (1..30), every decoded component differs from
   the original by at most half a quantization step, where the step is R/(2^q-1) and R is the
   largest per-component extent of the attribute (or the explicitly configured range, for
   values inside the configured box), plus a float32 rounding allowance of a few ulps of the
   coordinate magnitude; the decoded value never leaves the quantization box by more than
   that allowance."

  * `quant_exact_half_step`      exact arithmetic: pure half-step bound, `0 ≤ k ≤ 2^q-1`.
  * `quant_float_half_step`      any oracle obeying the standard rounding model with unit
                                 roundoff `u ≤ 2^-10` (float32: `u = 2^-24`): half step
                                 + `14·u·max(|x|,|min|,R)`; box enlarged by `16·u·max(…)`.
  * `quant_float_constant_lower_bound`  the constant 14 cannot be lowered below 7.99: an oracle
                                 inside the model errs by half a step + 7.99·u·max(…).
  * `computeParameters_range`    `ComputeParameters` yields min per component and
                                 range = largest extent (1 if all extents are 0).
  * `computeParameters_rejects_nan_inf`  NaN / ±Inf anywhere ⇒ `ComputeParameters` fails.
-/
namespace Draco
namespace Quant

/-- Exact arithmetic: quantized value in `[0, 2^q-1]`, decoded value within half a step. -/
theorem quant_exact_half_step (p : QParams ℚ) (q c : Nat) (x : ℚ)
    (hq : 1 ≤ q) (hR : 0 < p.range)
    (h1 : @minOf ℚ exactOps p c ≤ x) (h2 : x ≤ @minOf ℚ exactOps p c + p.range) :
    0 ≤ @quantize ℚ exactOps p q c x ∧
    @quantize ℚ exactOps p q c x ≤ 2^q - 1 ∧
    |@dequantize ℚ exactOps p q c (@quantize ℚ exactOps p q c x) - x|
      ≤ p.range / (2 * ((2:ℚ)^q - 1)) := by
  have hM := maxQ_ge_one hq
  have hMint : ∃ n : Int, (2:ℚ)^q - 1 = n := ⟨2^q - 1, by push_cast; ring⟩
  obtain ⟨a, b, c'⟩ := exact_core x (@minOf ℚ exactOps p c) p.range ((2:ℚ)^q - 1) hR hM hMint h1 h2
  rw [dequantize_exact, quantize_exact]
  refine ⟨a, ?_, c'⟩
  have : ((⌊(x - @minOf ℚ exactOps p c) * (((2:ℚ)^q - 1) / p.range) + 1/2⌋ : Int) : ℚ)
      ≤ (((2:Int)^q - 1 : Int) : ℚ) := by push_cast; exact b
  exact_mod_cast this

/-- non-vacuity: min = 1/3, R = 7/2, q = 5, x = 2 -/
example :
    let p : QParams ℚ := { minValues := [1/3], range := 7/2 }
    0 ≤ @quantize ℚ exactOps p 5 0 2 ∧ @quantize ℚ exactOps p 5 0 2 ≤ 2^5 - 1 ∧
    |@dequantize ℚ exactOps p 5 0 (@quantize ℚ exactOps p 5 0 2) - 2|
      ≤ (7/2 : ℚ) / (2 * ((2:ℚ)^5 - 1)) := by
  intro p
  exact quant_exact_half_step p 5 0 2 (by norm_num) (by norm_num [p])
    (by show (1/3 : ℚ) ≤ 2; norm_num) (by show (2:ℚ) ≤ 1/3 + 7/2; norm_num)

/-- Float arithmetic under the standard model (`RoundingModel ops u`: every operation returns
    the exact result times `1+δ`, `|δ| ≤ u`; exact `floor`; no overflow/underflow).
    For float32, `u = 2^-24`. The constants fixed by the proof are `K = 14` for the error and
    `K = 16` for the box (first-order analysis gives ≈ 13 and ≈ 15.8: nine roundings on the
    path plus the half-unit slack of `floor` at `M ≈ 1/(10u)`). -/
theorem quant_float_half_step (ops : FloatOps ℚ) (u : ℚ) (hu0 : 0 ≤ u) (hu : u ≤ 1/1024)
    (hm : RoundingModel ops u) (p : QParams ℚ) (q c : Nat) (x : ℚ)
    (hq : 1 ≤ q) (hR : 0 < p.range)
    (h1 : @minOf ℚ ops p c ≤ x) (h2 : x ≤ @minOf ℚ ops p c + p.range) :
    let m := @minOf ℚ ops p c
    let k := @quantize ℚ ops p q c x
    let d := @dequantize ℚ ops p q c k
    let mag := max (max |x| |m|) p.range
    0 ≤ k ∧
    |d - x| ≤ p.range / (2 * ((2:ℚ)^q - 1)) + 14 * u * mag ∧
    m - 16 * u * mag ≤ d ∧ d ≤ m + p.range + 16 * u * mag := by
  intro m k d mag
  exact float_half_step_aux ops hm hu0 hu p q c x mag hq hR h1 h2
    (le_trans (le_max_left _ _) (le_max_left _ _)) (le_max_right _ _)

/-- non-vacuity: a non-exact oracle (every operation biased by `1 + 2^-24`), float32 unit
    roundoff, min = -5/2, R = 10, q = 11, x = 22/7 -/
example :
    let ops := biasedOps (1/2^24)
    let p : QParams ℚ := { minValues := [-5/2], range := 10 }
    let k := @quantize ℚ ops p 11 0 (22/7)
    let d := @dequantize ℚ ops p 11 0 k
    0 ≤ k ∧ |d - 22/7| ≤ (10:ℚ) / (2 * ((2:ℚ)^11 - 1)) + 14 * (1/2^24) * max (max |22/7| |(-5/2 : ℚ)|) 10 ∧
    (-5/2 : ℚ) - 16 * (1/2^24) * max (max |22/7| |(-5/2 : ℚ)|) 10 ≤ d ∧
    d ≤ -5/2 + 10 + 16 * (1/2^24) * max (max |22/7| |(-5/2 : ℚ)|) 10 := by
  intro ops p k d
  exact quant_float_half_step ops (1/2^24) (by norm_num) (by norm_num)
    (biasedOps_model _ _ (by norm_num [abs_of_pos])) p 11 0 (22/7) (by norm_num)
    (by norm_num [p])
    (by show (-5/2 : ℚ) ≤ 22/7; norm_num) (by show (22/7 : ℚ) ≤ -5/2 + 10; norm_num)

/-- How far the constant `14` of `quant_float_half_step` is from optimal.  First order count:
    four roundings of the encoder act on the scaled value (`x - min`, `float(M)`, `/`, `*`) and
    one on the sum with `0.5f`, so `floor` can return `t + 1/2 + 5·M·u`; the decoder adds three
    more (`/`, `*`, `+`; the two `float(·)` conversions cancel when `k = M`).  The oracle
    `biasedAllOps 2^-24` (every operation too large by the factor `1 + 2^-24`, inside the model)
    realises `5 + 3` of them for `q = 10`, `min = 0`, `R = 1`,
    `x = (M - 1/2 - (5M - 3)u)/M`: it quantizes `x` to `k = M = 1023` although
    `x·M < M - 1/2`, and the decoded value is off by more than half a step plus `7.99·u·mag`
    (`mag = max(|x|, |min|, R) = 1`).  Hence every constant `K` for which the theorem holds
    satisfies `7.99 < K`; the proof gives `K = 14` (first order 13.3: the two independent
    `float(·)` errors, the `(1+u)^n` cross terms up to `u ≤ 2^-10`, and `1.52·u·mag` for the
    last addition, whose operand is bounded by `|x| + R/2`, not by `mag`). -/
theorem quant_float_constant_lower_bound :
    RoundingModel (biasedAllOps (1/2^24)) (1/2^24) ∧
    (0:ℚ) ≤ (2045/2 - 5112/2^24) / 1023 ∧ ((2045/2 - 5112/2^24) / 1023 : ℚ) ≤ 0 + 1 ∧
    @quantize ℚ (biasedAllOps (1/2^24)) ⟨[0], 1⟩ 10 0 ((2045/2 - 5112/2^24) / 1023) = 1023 ∧
    (1:ℚ) / (2 * ((2:ℚ)^10 - 1)) + (799/100) * (1/2^24) * 1
      < |@dequantize ℚ (biasedAllOps (1/2^24)) ⟨[0], 1⟩ 10 0 1023 - (2045/2 - 5112/2^24) / 1023| := by
  refine ⟨biasedAllOps_model _ _ (by norm_num [abs_of_pos]), by norm_num, by norm_num, ?_, ?_⟩
  · have h : @quantize ℚ (biasedAllOps (1/2^24)) ⟨[0], 1⟩ 10 0 ((2045/2 - 5112/2^24) / 1023)
        = ⌊(((((2045/2 - 5112/2^24) / 1023 : ℚ) - 0) * (1 + 1/2^24)) *
            ((((((2:Int)^10 - 1 : Int) : ℚ) * (1 + 1/2^24)) / 1) * (1 + 1/2^24)) * (1 + 1/2^24) + 1/2)
              * (1 + 1/2^24)⌋ := rfl
    rw [h, Int.floor_eq_iff]
    constructor <;> norm_num
  · have h : @dequantize ℚ (biasedAllOps (1/2^24)) ⟨[0], 1⟩ 10 0 1023
        = (((((1023 : Int) : ℚ) * (1 + 1/2^24)) *
            (((1:ℚ) / ((((2:Int)^10 - 1 : Int) : ℚ) * (1 + 1/2^24))) * (1 + 1/2^24)))
            * (1 + 1/2^24) + 0) * (1 + 1/2^24) := rfl
    rw [h]
    norm_num [abs_of_pos]

/-- the same instance obeys the theorem (non-vacuity of `quant_float_half_step` with the
    all-biased oracle, at the input that comes closest to the bound) -/
example :
    |@dequantize ℚ (biasedAllOps (1/2^24)) ⟨[0], 1⟩ 10 0
        (@quantize ℚ (biasedAllOps (1/2^24)) ⟨[0], 1⟩ 10 0 ((2045/2 - 5112/2^24) / 1023))
      - (2045/2 - 5112/2^24) / 1023|
      ≤ (1:ℚ) / (2 * ((2:ℚ)^10 - 1)) + 14 * (1/2^24)
          * max (max |((2045/2 - 5112/2^24) / 1023 : ℚ)| |(0:ℚ)|) 1 :=
  (quant_float_half_step (biasedAllOps (1/2^24)) (1/2^24) (by norm_num) (by norm_num)
    (biasedAllOps_model _ _ (by norm_num [abs_of_pos])) ⟨[0], 1⟩ 10 0 ((2045/2 - 5112/2^24) / 1023)
    (by norm_num) (by show (0:ℚ) < 1; norm_num)
    (by show (0:ℚ) ≤ (2045/2 - 5112/2^24) / 1023; norm_num)
    (by show ((2045/2 - 5112/2^24) / 1023 : ℚ) ≤ 0 + 1; norm_num)).2.1

attribute [local instance] exactOps in
/-- `ComputeParameters` (exact instance; attribute with ≥ 1 value, all values of `n`
    components): it succeeds; `min_values_` has `n` entries, each attained by some value and
    a lower bound of its component; `0 < range_`; every value lies in
    `[min_c, min_c + range_]`; and `range_` is the extent `w_c - min_c` of some component —
    hence the largest extent — or it is 1 when every component is constant. -/
theorem computeParameters_range (n : Nat) (first : List ℚ) (rest : List (List ℚ))
    (hlen : ∀ v ∈ first :: rest, v.length = n) :
    ∃ p : QParams ℚ, computeParameters n (first :: rest) = some p ∧
      p.minValues.length = n ∧ 0 < p.range ∧
      (∀ v ∈ first :: rest, ∀ c < n,
          p.minValues.getD c 0 ≤ v.getD c 0 ∧ v.getD c 0 ≤ p.minValues.getD c 0 + p.range) ∧
      (∀ c < n, ∃ v ∈ first :: rest, v.getD c 0 = p.minValues.getD c 0) ∧
      ((∃ c < n, ∃ v ∈ first :: rest, ∃ w ∈ first :: rest,
            v.getD c 0 = p.minValues.getD c 0 ∧ p.range = w.getD c 0 - v.getD c 0) ∨
       (p.range = 1 ∧ ∀ c < n, ∀ v ∈ first :: rest, ∀ w ∈ first :: rest,
            v.getD c 0 = w.getD c 0)) :=
  computeParameters_exact_spec n first rest hlen

attribute [local instance] exactOps in
/-- non-vacuity: three 2-component values, largest extent 5 in component 1 -/
example : ∃ p : QParams ℚ,
    computeParameters 2 [[1, 7], [3, 2], [-1/2, 4]] = some p ∧
      p.minValues = [-1/2, 2] ∧ p.range = 5 := by
  refine ⟨⟨[-1/2, 2], 5⟩, ?_, rfl, rfl⟩
  norm_num [computeParameters, scanRows, scanRow, scanComp, finalRange, FloatOps.lt,
    FloatOps.isNaN, FloatOps.isInf, FloatOps.sub, FloatOps.eq, FloatOps.zero, FloatOps.one]

attribute [local instance] exactOps in
/-- non-vacuity of the constant case: range is set to 1 -/
example : ∃ p : QParams ℚ,
    computeParameters 2 [[1, 7], [1, 7]] = some p ∧ p.minValues = [1, 7] ∧ p.range = 1 := by
  refine ⟨⟨[1, 7], 1⟩, ?_, rfl, rfl⟩
  norm_num [computeParameters, scanRows, scanRow, scanComp, finalRange, FloatOps.lt,
    FloatOps.isNaN, FloatOps.isInf, FloatOps.sub, FloatOps.eq, FloatOps.zero, FloatOps.one]

/-- NaN / ±Inf rejection, for every `FloatOps` instance whose comparison and classification
    behave like IEEE 754 on special values (`SpecialOrder`). The attribute must be
    well-formed (all values have `n` components). Note that value 0 is not covered by the
    `isnan` test of the scan loop; it is caught because a NaN minimum is never replaced. -/
theorem computeParameters_rejects_nan_inf {F : Type} [inst : FloatOps F] {P N : F → Prop}
    (S : SpecialOrder inst P N) (n : Nat) (values : List (List F))
    (hlen : ∀ v ∈ values, v.length = n)
    (hbad : ∃ v ∈ values, ∃ y ∈ v, FloatOps.isNaN y = true ∨ FloatOps.isInf y = true) :
    computeParameters n values = none :=
  computeParameters_reject S n values hlen hbad

/-- non-vacuity: extended rationals, a `+∞` in the first value and a NaN in the last one -/
example : @computeParameters XQ XQ.ops 2
    [[.fin 1, .pinf], [.fin 3, .fin 2], [.nan, .fin 0]] = none :=
  @computeParameters_rejects_nan_inf XQ XQ.ops _ _ XQ.specialOrder 2 _
    (by intro v hv; simp at hv; rcases hv with rfl | rfl | rfl <;> rfl)
    ⟨[.fin 1, .pinf], by simp, .pinf, by simp, Or.inr rfl⟩

end Quant
end Draco
