import DracoProofs.CornerTableCoherent
/-
  Property C13 — corner table connectivity.

  "For any list of triangles over vertex ids (including non-manifold edges and vertices,
   duplicated, mirrored and degenerate triangles), the constructed connectivity satisfies: the
   opposite relation is a symmetric pairing of corners across a shared, oppositely oriented edge;
   all corners around a vertex form one fan reachable from its representative corner; every corner
   of a non-degenerate face maps (through the vertex-parent relation) to the vertex id given in
   the input; and degenerate faces are unlinked."

  Model: `DracoModel/CornerTable.lean` (`CornerTable.create` mirrors `CornerTable::Create` of
  src/draco/mesh/corner_table.cc; validated against libdraco by `CornerTableCheck.lean`).
  The statement is `CornerTable.Consistent faces ct` (`DracoProofs/CornerTableBasic.lean`):
    I1 `opposite_symm`, I2 `opposite_edge`, I3 `degenerate_unlinked`, I4 `vertex_parent`,
    I5 `fan_complete` (+ the three size equations).
  All clauses are proved for every input on which `create` is defined (`inDomain`: ids and corner
  count fit `int`); nothing is assumed about manifoldness, orientation, duplicates or degeneracy.
-/
namespace Draco
namespace C13
open CornerTable

/-- `create` is defined exactly on the inputs whose ids / corner count fit the C++ `int`s -/
theorem c13_create_defined (faces : Faces) : (create faces).isSome = inDomain faces :=
  create_isSome_iff faces

example : (create #[(0, 1, 2), (2, 1, 3), (0, 0, 1)]).isSome = true := by decide

/-- I0: the fuel of the bounded loops (`numCorners + 1`) is never exhausted: any larger fuel
    builds the same table. -/
theorem c13_fuel_adequate (faces : Faces) (fuel : Nat) (hf : 3 * faces.size + 1 ≤ fuel) :
    createF fuel faces = create faces :=
  createF_fuel faces fuel hf

example : createF 100 #[(0, 1, 2), (2, 1, 3)] = create #[(0, 1, 2), (2, 1, 3)] :=
  c13_fuel_adequate _ 100 (by decide)

/-- I1: `Opposite` is a symmetric pairing of distinct corners in distinct faces. -/
theorem c13_opposite_symm {faces : Faces} {ct : CornerTable} (h : create faces = some ct)
    (c o : Nat) (hco : ct.opposite (some c) = some o) :
    c < 3 * faces.size ∧ o < 3 * faces.size ∧ ct.opposite (some o) = some c ∧ o ≠ c ∧ o / 3 ≠ c / 3 :=
  createF_opposite_symm h c o hco

-- two triangles glued along the edge {1,2}: corners 0 and 5 are paired
example : ∃ ct, create #[(0, 1, 2), (2, 1, 3)] = some ct ∧ ct.opposite (some 0) = some 5 := by
  refine ⟨_, rfl, ?_⟩; decide

/-- I2: paired corners face the same edge with opposite orientation (input vertex ids obtained
    through `VertexParent(Vertex(·))`). -/
theorem c13_opposite_edge {faces : Faces} {ct : CornerTable} (h : create faces = some ct)
    (c o : Nat) (hco : ct.opposite (some c) = some o) :
    ct.parentAt (nextC c) = ct.parentAt (prevC o) ∧ ct.parentAt (prevC c) = ct.parentAt (nextC o) :=
  createF_opposite_edge h c o hco

-- a folded 1-ring around vertex 0 (split vertices exist): corners 2 and 6 are paired
set_option maxRecDepth 4000 in
example : ∃ ct, create #[(3, 0, 4), (0, 2, 4), (1, 0, 3), (4, 0, 1)] = some ct ∧
    ct.opposite (some 2) = some 6 ∧ ct.nonManifoldVertexParents.size = 3 := by
  refine ⟨_, rfl, ?_, ?_⟩ <;> decide

/-- I3: the corners of a degenerate input face have no opposite and are nobody's opposite. -/
theorem c13_degenerate_unlinked {faces : Faces} {ct : CornerTable} (h : create faces = some ct)
    (c : Nat) (hdeg : faceDegenerate faces (c / 3) = true) :
    ct.opposite (some c) = none ∧ ∀ o, ct.opposite (some o) ≠ some c :=
  createF_degenerate_unlinked h c hdeg

-- face 1 = (1,1,2) is degenerate although it shares the "edge" {1,2} with face 0
example : faceDegenerate #[(0, 1, 2), (1, 1, 2)] (4 / 3) = true ∧
    (create #[(0, 1, 2), (1, 1, 2)]).isSome = true := by decide

/-- I4: every corner maps through `VertexParent` to the vertex id given in the input (this holds
    for the corners of degenerate faces too). -/
theorem c13_vertex_parent {faces : Faces} {ct : CornerTable} (h : create faces = some ct)
    (c : Nat) (hc : c < 3 * faces.size) :
    vget ct.cornerToVertex c < ct.numVertices ∧ ct.parentAt c = inputVertex faces c :=
  createF_vertex_parent h c hc

-- bow-tie at vertex 0: the second triangle gets a new vertex (id 5) whose parent is 0
set_option maxRecDepth 4000 in
example : ∃ ct, create #[(0, 1, 2), (0, 3, 4)] = some ct ∧
    ct.vertex (some 3) = some 5 ∧ ct.vertexParent 5 = 0 := by
  refine ⟨_, rfl, ?_, ?_⟩ <;> decide

/-- I5: every corner of a non-degenerate face is reached from `LeftMostCorner(Vertex(c))` by
    `SwingRight` steps, and that walk terminates (boundary or back at the start) within
    `numCorners` steps. -/
theorem c13_fan_complete {faces : Faces} {ct : CornerTable} (h : create faces = some ct)
    (c : Nat) (hc : c < 3 * faces.size) (hnd : faceDegenerate faces (c / 3) = false) :
    (∃ k, iter ct.swingRight k (ct.leftMostCorner (vget ct.cornerToVertex c)) = some c) ∧
    ct.FanTerminates (vget ct.cornerToVertex c) :=
  createF_fan_complete (Nat.succ_pos _) h c hc hnd

-- vertex 1 of two glued triangles: left-most corner 1, one swing to the right reaches corner 4
set_option maxRecDepth 4000 in
example : ∃ ct, create #[(0, 1, 2), (2, 1, 3)] = some ct ∧
    ct.leftMostCorner 1 = some 1 ∧ ct.swingRight (some 1) = some 4 := by
  refine ⟨_, rfl, ?_, ?_⟩ <;> decide

/-- **C13**: every table built by `create` satisfies all clauses, for every input. -/
theorem c13_corner_table {faces : Faces} {ct : CornerTable} (h : create faces = some ct) :
    ct.Consistent faces :=
  create_consistent h

-- a list with a proper pair, a degenerate face, a third face on the edge {1,2} (non-manifold
-- edge), a mirrored copy of face 0 and a bow-tie
set_option maxRecDepth 8000 in
example : ∃ ct, create #[(0, 1, 2), (2, 1, 3), (0, 0, 1), (1, 2, 4), (2, 1, 0), (0, 5, 6)] = some ct ∧
    ct.opposite (some 0) = some 5 ∧ ct.opposite (some 6) = none ∧
    ct.nonManifoldVertexParents.size = 4 ∧ ct.numDegeneratedFaces = 1 := by
  refine ⟨_, rfl, ?_, ?_, ?_, ?_⟩ <;> decide

/-- Soundness of the executable checker: evaluating `consistent` on a concrete table (e.g. one
    dumped from the C++ library) proves C13 for that table. -/
theorem c13_checker_sound (faces : Faces) (ct : CornerTable) (h : ct.consistent faces = true) :
    ct.Consistent faces :=
  consistent_sound faces ct h

-- the checker accepts a hand-written table (two glued triangles) …
example : CornerTable.consistent #[(0, 1, 2), (2, 1, 3)]
    { cornerToVertex := #[0, 1, 2, 2, 1, 3], oppositeCorners := #[some 5, none, none, none, none, some 0],
      vertexCorners := #[some 0, some 1, some 3, some 5], nonManifoldVertexParents := #[],
      numOriginalVertices := 4, numDegeneratedFaces := 0, numIsolatedVertices := 0 } = true := by decide
-- … and rejects one whose opposite table is not symmetric
example : CornerTable.consistent #[(0, 1, 2), (2, 1, 3)]
    { cornerToVertex := #[0, 1, 2, 2, 1, 3], oppositeCorners := #[some 5, none, none, none, none, none],
      vertexCorners := #[some 0, some 1, some 3, some 5], nonManifoldVertexParents := #[],
      numOriginalVertices := 4, numDegeneratedFaces := 0, numIsolatedVertices := 0 } = false := by decide

/-- I3 in terms of the table's own `IsDegenerated`: it agrees with degeneracy of the input face. -/
theorem c13_is_degenerated {faces : Faces} {ct : CornerTable} (h : create faces = some ct)
    (f : Nat) (hf : f < faces.size) : ct.isDegenerated (some f) = faceDegenerate faces f :=
  createF_isDegenerated h f hf

set_option maxRecDepth 4000 in
example : ∃ ct, create #[(0, 1, 2), (1, 1, 2)] = some ct ∧
    ct.isDegenerated (some 0) = false ∧ ct.isDegenerated (some 1) = true := by
  refine ⟨_, rfl, ?_, ?_⟩ <;> decide

/-- I2, stronger form: also the table's own (split) vertex ids agree across the shared edge. -/
theorem c13_opposite_edge_strong {faces : Faces} {ct : CornerTable} (h : create faces = some ct)
    (c o : Nat) (hco : ct.opposite (some c) = some o) :
    vget ct.cornerToVertex (nextC c) = vget ct.cornerToVertex (prevC o) ∧
    vget ct.cornerToVertex (prevC c) = vget ct.cornerToVertex (nextC o) :=
  create_opposite_edge_strong h c o hco

-- folded 1-ring (three split vertices): corners 8 and 9 are paired; Next(8) = 6 and
-- Previous(9) = 11 carry the same vertex
set_option maxRecDepth 4000 in
example : ∃ ct, create #[(3, 0, 4), (0, 2, 4), (1, 0, 3), (4, 0, 1)] = some ct ∧
    ct.opposite (some 8) = some 9 ∧ ct.vertex (some 6) = some 1 ∧ ct.vertex (some 11) = some 1 := by
  refine ⟨_, rfl, ?_, ?_, ?_⟩ <;> decide

/-- I5, converse ("one fan"): the walk from `LeftMostCorner(Vertex c)` only meets corners of that
    vertex; with I5 the fan of a vertex is exactly the set of its corners. -/
theorem c13_fan_exact {faces : Faces} {ct : CornerTable} (h : create faces = some ct)
    (c : Nat) (hc : c < 3 * faces.size) (hnd : faceDegenerate faces (c / 3) = false)
    (k x : Nat) (hx : iter ct.swingRight k (ct.leftMostCorner (vget ct.cornerToVertex c)) = some x) :
    vget ct.cornerToVertex x = vget ct.cornerToVertex c :=
  create_fan_exact h c hc hnd k x hx

set_option maxRecDepth 4000 in
example : ∃ ct, create #[(0, 1, 2), (2, 1, 3)] = some ct ∧
    iter ct.swingRight 1 (ct.leftMostCorner 1) = some 4 ∧ ct.vertex (some 4) = some 1 := by
  refine ⟨_, rfl, ?_, ?_⟩ <;> decide

/-
  `_partial` summary.  Proved above for ALL inputs in `inDomain`: I0–I5, plus `IsDegenerated`
  agreement, I2 in split vertex ids and the converse of I5.  Not proved (validated only, by
  `CornerTableCheck.lean` on > 3·10^6 inputs against libdraco, see `consistentExtra`):
    * the correspondence model ↔ C++ itself (per-vertex bucket lists of the model vs. the flat
      `vertex_edges` array of `ComputeOppositeCorners`);
    * `VertexCornersIterator` (left-then-right traversal) enumerates each corner of a vertex
      exactly once;
    * `LeftMostCorner(v) = kInvalidCornerIndex` for vertices without corners, and the value of
      `num_isolated_vertices_` / `num_degenerated_faces_` (only compared with the library).
  The summary theorem bundles what is proved.
-/
theorem c13_partial {faces : Faces} {ct : CornerTable} (h : create faces = some ct) :
    ct.Consistent faces ∧ inDomain faces = true ∧
    ∀ fuel, 3 * faces.size + 1 ≤ fuel → createF fuel faces = some ct := by
  refine ⟨create_consistent h, ?_, fun fuel hf => by rw [createF_fuel faces fuel hf]; exact h⟩
  have := create_isSome_iff faces
  rw [h] at this
  exact this.symm

example : ∃ ct, create #[(0, 1, 2), (2, 1, 3)] = some ct := ⟨_, rfl⟩

end C13
end Draco
