import DracoProofs.MetadataStatus
import DracoProofs.MetadataCompat
import DracoProofs.MetadataCanonical
import DracoProofs.MetadataStack
/-
  C11 — metadata coding.

  "Any metadata tree attached to a geometry - string, numeric, array and binary entries,
   arbitrarily nested sub-metadata, and per-attribute metadata keyed by attribute unique id -
   is returned by the decoder with the same names, the same byte-exact values and the same
   nesting, or the encoder reports failure (e.g. names longer than 255 bytes); it is never
   silently altered or made undecodable."

  Vocabulary (DracoProofs/MetadataSpec.lean):
  * `m.Canonical`    entries and sub-metadata of every node listed in `std::map` order — the
                     representation invariant of the C++ object, true of everything that the
                     public API can build;
  * `m.Encodable ae` names ≤ 255 bytes, values < 2^32 bytes (non-empty unless `ae`), < 2^32
                     entries and sub-metadata per node, nesting depth ≤ 1001;
  * `m.WF  = Canonical ∧ Encodable false`  (code as written),
    `m.WF' = Canonical ∧ Encodable true`   (repaired code).
  Bytes are `Nat`s; no theorem below needs them to be < 256.

  STATUS
  * round trip on `WF` metadata: PROVED for the code as written (`metadata_roundtrip`,
    `geometry_metadata_roundtrip`).
  * "otherwise the encoder reports failure": FALSE for the code as written — three concrete
    witnesses for `EncodeMetadata` and one for `EncodeGeometryMetadata` (which never reports
    anything). What the return value does say is `metadata_failure_reported_partial`.
  * For the repaired code (`encodeMetadataStatusFixed`, `decodeMetadataFixed`; the C++ patch is
    described at the end of this file) the full property is PROVED:
    `metadata_c11_fixed`, `geometry_metadata_c11_fixed`.
-/
namespace Draco

/-! ## Samples used by the non-vacuity examples -/

/-- entries with a prefix relation and a non-ASCII name, nested sub-metadata, empty names -/
def sampleMetadata : Metadata :=
  .mk [([97], [1, 2]), ([97, 98], [255]), ([128], [0, 0, 0, 0])]
      [([], .mk [([], [7])] []),
       ([115], .mk [] [([120], .mk [([121], [1])] [])])]

def sampleGeometry : GeometryMetadata :=
  { atts := [(5, sampleMetadata), (5, .mk [] []), (4294967295, .mk [([1], [2])] [])],
    root := sampleMetadata }

/-- like `sampleMetadata` with an empty value (e.g. `AddEntryString(name, "")`) -/
def sampleMetadataEmptyValue : Metadata :=
  .mk [([97], []), ([97, 98], [255])] [([115], .mk [([120], [])] [])]

theorem sampleMetadata_wf : sampleMetadata.WF := by
  simp [sampleMetadata, Metadata.WF, Metadata.Canonical, Metadata.Encodable, Metadata.All,
    SubsAll, SortedKeys, NodeEncodable, bytesLt, Metadata.depth, subsDepth,
    kMaxSubmetadataLevel]

theorem sampleMetadataEmptyValue_wf' : sampleMetadataEmptyValue.WF' := by
  simp [sampleMetadataEmptyValue, Metadata.WF', Metadata.Canonical, Metadata.Encodable,
    Metadata.All, SubsAll, SortedKeys, NodeEncodable, bytesLt, Metadata.depth, subsDepth,
    kMaxSubmetadataLevel]

/-! ## 1. Round trip — code as written -/

/-- `MetadataDecoder::DecodeMetadata` returns exactly the tree given to
    `MetadataEncoder::EncodeMetadata` (same names, same values, same nesting) and stops
    exactly at the end of what the encoder wrote. -/
theorem metadata_roundtrip (m : Metadata) (rest : Bytes) (h : m.WF) :
    decodeMetadata (encodeMetadata m ++ rest) = some (m, rest) :=
  decodeMetadata_enc false m rest h.1 h.2

example : sampleMetadata.WF := sampleMetadata_wf
example : decodeMetadata (encodeMetadata sampleMetadata ++ [1, 2, 3]) =
    some (sampleMetadata, [1, 2, 3]) := metadata_roundtrip _ _ sampleMetadata_wf

/-- on `WF` metadata the encoder reports success -/
theorem metadata_status_of_wf (m : Metadata) (h : m.WF) : encodeMetadataStatus m = true := by
  obtain ⟨es, ss⟩ := m
  have := h.2.1
  simp only [Metadata.All] at this
  obtain ⟨⟨_, _, h3, h4⟩, _⟩ := this
  exact (encodeMetadataStatus_iff _).mpr ⟨fun e he => (h3 e he).1, h4⟩

example : encodeMetadataStatus sampleMetadata = true :=
  metadata_status_of_wf _ sampleMetadata_wf

/-- `DecodeGeometryMetadata ∘ EncodeGeometryMetadata`: attribute metadata come back in the
    same order with the same `att_unique_id`s. -/
theorem geometry_metadata_roundtrip (g : GeometryMetadata) (rest : Bytes) (h : g.WF) :
    decodeGeometryMetadata (encodeGeometryMetadata g ++ rest) = some (g, rest) :=
  decodeGeometryWith_enc decodeMetadata g rest h.1
    (fun a ha => ⟨(h.2.1 a ha).1, fun r => metadata_roundtrip a.2 r (h.2.1 a ha).2⟩)
    (fun r => metadata_roundtrip g.root r h.2.2)

theorem sampleGeometry_wf : sampleGeometry.WF := by
  refine ⟨by decide, ?_, sampleMetadata_wf⟩
  intro a ha
  simp only [sampleGeometry, List.mem_cons, List.not_mem_nil, or_false] at ha
  rcases ha with rfl | rfl | rfl
  · exact ⟨by decide, sampleMetadata_wf⟩
  · refine ⟨by decide, ?_⟩
    simp [Metadata.WF, Metadata.Canonical, Metadata.Encodable, Metadata.All, SubsAll,
      SortedKeys, NodeEncodable, Metadata.depth, subsDepth]
  · refine ⟨by decide, ?_⟩
    simp [Metadata.WF, Metadata.Canonical, Metadata.Encodable, Metadata.All, SubsAll,
      SortedKeys, NodeEncodable, Metadata.depth, subsDepth]

example : decodeGeometryMetadata (encodeGeometryMetadata sampleGeometry ++ [9]) =
    some (sampleGeometry, [9]) := geometry_metadata_roundtrip _ _ sampleGeometry_wf

/-! ## 2. "… or the encoder reports failure" — FALSE for the code as written

  Full statement (false):
    theorem metadata_failure_reported (m : Metadata) (hc : m.Canonical) (h : ¬ m.WF) :
        encodeMetadataStatus m = false
-/

/-- (a) A name longer than 255 bytes below the top level: the nested `EncodeMetadata` returns
    false after having written the entry count, its caller drops the result and returns true.
    C++: `Metadata m; auto s = std::make_unique<Metadata>();`
         `s->AddEntryBinary(std::string(256,'a'), {1}); m.AddSubMetadata("s", std::move(s));`
    → `EncodeMetadata` returns true, stream `00 01 01 73 01`, `DecodeMetadata` returns false. -/
def witnessLongName : Metadata := .mk [] [([115], .mk [(List.replicate 256 97, [1])] [])]

set_option maxRecDepth 8192 in
theorem metadata_failure_reported_counterexample_longname :
    encodeMetadataStatus witnessLongName = true ∧
    encodeMetadata witnessLongName = [0, 1, 1, 115, 1] ∧
    (decodeMetadata (encodeMetadata witnessLongName)).isNone = true := by decide

/-- (b) An entry with an empty value (`AddEntryString("a", "")`, `AddEntryBinary("a", {})`,
    `AddEntryIntArray("a", {})`): the encoder writes `data_size = 0`, the decoder rejects it.
    → `EncodeMetadata` returns true, stream `01 01 61 00 00`, `DecodeMetadata` returns false. -/
def witnessEmptyValue : Metadata := .mk [([97], [])] []

theorem metadata_failure_reported_counterexample_emptyvalue :
    encodeMetadataStatus witnessEmptyValue = true ∧
    encodeMetadata witnessEmptyValue = [1, 1, 97, 0, 0] ∧
    (decodeMetadata (encodeMetadata witnessEmptyValue)).isNone = true := by decide

/-- (c) 1002 nested sub-metadata: the encoder has no depth limit, the decoder rejects
    `level > kMaxSubmetadataLevel` (the children of the root have level 0, so 1001 nested
    levels decode and 1002 do not). -/
def witnessDepth : Metadata := chainMetadata (kMaxSubmetadataLevel + 2)

theorem metadata_failure_reported_counterexample_depth (rest : Bytes) :
    encodeMetadataStatus witnessDepth = true ∧
    decodeMetadata (encodeMetadata witnessDepth ++ rest) = none :=
  ⟨(encodeMetadataStatus_iff _).mpr (chainMetadata_entries_subs _),
   decodeMetadata_chain_fail false rest⟩

/-- the limit is sharp: 1001 nested levels do round trip -/
example (rest : Bytes) :
    decodeMetadata (encodeMetadata (chainMetadata (kMaxSubmetadataLevel + 1)) ++ rest) =
      some (chainMetadata (kMaxSubmetadataLevel + 1), rest) :=
  metadata_roundtrip _ _ ⟨(chainMetadata_all false _).1, (chainMetadata_all false _).2,
    by rw [chainMetadata_depth]⟩

/-- (e) A value of 2^32 + 5 bytes (`AddEntryBinary` of a 4 GiB vector; replayed on the real
    code, 62 GB machine): `data_size = static_cast<uint32_t>(entry_value.size())` wraps to 5 and
    only 5 bytes are written. `EncodeMetadata` returns true and `DecodeMetadata` returns true
    — with a 5 byte value: silently altered. -/
theorem metadata_failure_reported_counterexample_hugevalue (v : Bytes)
    (hv : v.length = 2^32 + 5) :
    encodeMetadataStatus (.mk [([98], v)] []) = true ∧
    decodeMetadata (encodeMetadata (.mk [([98], v)] [])) =
      some (.mk [([98], v.take 5)] [], []) ∧
    v.take 5 ≠ v := by
  have hmod : v.length % 2^32 = 5 := by rw [hv]
  have hlen : (v.take 5).length = 5 := by rw [List.length_take, hv]; decide
  have henc : encodeMetadata (.mk [([98], v)] []) =
      encodeMetadata (.mk [([98], v.take 5)] []) := by
    have hmod' : (v.take 5).length % 2^32 = 5 := by rw [hlen]
    have htt : List.take 5 (List.take 5 v) = List.take 5 v := by
      rw [List.take_take, Nat.min_self]
    simp only [encodeMetadata, encodeNode, encodeEntries, encodeString, hmod, hmod', htt,
      List.length_cons, List.length_nil]
  refine ⟨?_, ?_, ?_⟩
  · exact (encodeMetadataStatus_iff _).mpr (by simp [Metadata.entries, Metadata.subs])
  · rw [henc]
    have hwf : (Metadata.mk [([98], v.take 5)] []).WF := by
      have hne : List.take 5 v ≠ [] := by
        intro h; rw [h] at hlen; simp at hlen
      simp [Metadata.WF, Metadata.Canonical, Metadata.Encodable, Metadata.All, SubsAll,
        SortedKeys, NodeEncodable, Metadata.depth, subsDepth, hlen, hne]
    have := metadata_roundtrip _ [] hwf
    simpa using this
  · intro h
    rw [h] at hlen
    omega

example : (List.replicate (2^32 + 5) 17).length = 2^32 + 5 := List.length_replicate

/-- Hence the property is false of `EncodeMetadata` / `DecodeMetadata` as written. -/
theorem metadata_failure_reported_false :
    ¬ (∀ m : Metadata, m.Canonical → ¬ m.WF → encodeMetadataStatus m = false) := by
  intro hall
  have hw := metadata_failure_reported_counterexample_emptyvalue
  have hnwf : ¬ witnessEmptyValue.WF := by
    intro h
    have := metadata_roundtrip witnessEmptyValue [] h
    rw [List.append_nil] at this
    rw [this] at hw
    exact absurd hw.2.2 (by simp)
  have hcan : witnessEmptyValue.Canonical := by
    simp [witnessEmptyValue, Metadata.Canonical, Metadata.All, SubsAll, SortedKeys]
  have := hall _ hcan hnwf
  rw [hw.1] at this
  cases this

/-- (d) `EncodeGeometryMetadata` drops *every* nested result and ends in `return true`, so
    even a top-level name of 256 bytes goes unreported (this is the call made by
    `PointCloudEncoder::EncodeMetadata`).
    → returns true, stream `00 01`, `DecodeGeometryMetadata` returns false. -/
def witnessGeometryLongName : GeometryMetadata :=
  { atts := [], root := .mk [(List.replicate 256 97, [1])] [] }

set_option maxRecDepth 8192 in
theorem geometry_metadata_failure_reported_counterexample_longname :
    encodeGeometryMetadataStatus witnessGeometryLongName = true ∧
    encodeGeometryMetadata witnessGeometryLongName = [0, 1] ∧
    (decodeGeometryMetadata (encodeGeometryMetadata witnessGeometryLongName)).isNone = true := by
  decide

/-- What the return value of `EncodeMetadata` as written does report: exactly the names of
    the top-level node. Extra hypothesis w.r.t. the full statement: the violation of `WF` is a
    too long name *in the top-level node*. -/
theorem metadata_failure_reported_partial (m : Metadata)
    (h : (∃ e ∈ m.entries, 255 < e.1.length) ∨ (∃ s ∈ m.subs, 255 < s.1.length)) :
    encodeMetadataStatus m = false := by
  cases hst : encodeMetadataStatus m with
  | false => rfl
  | true =>
    have := (encodeMetadataStatus_iff m).mp hst
    rcases h with ⟨e, he, hl⟩ | ⟨s, hs, hl⟩
    · have := this.1 e he; omega
    · have := this.2 s hs; omega

set_option maxRecDepth 8192 in
example : encodeMetadataStatus (.mk [(List.replicate 256 97, [1])] []) = false :=
  metadata_failure_reported_partial _ (Or.inl ⟨(List.replicate 256 97, [1]), by
    simp [Metadata.entries]⟩)

/-- … and nothing else: -/
theorem metadata_status_as_written (m : Metadata) :
    encodeMetadataStatus m = true ↔
      (∀ e ∈ m.entries, e.1.length ≤ 255) ∧ (∀ s ∈ m.subs, s.1.length ≤ 255) :=
  encodeMetadataStatus_iff m

example : encodeMetadataStatus sampleMetadata = true :=
  (metadata_status_as_written _).mpr (by
    simp [sampleMetadata, Metadata.entries, Metadata.subs])

/-! ## 3. The repaired code: the full property -/

theorem metadata_roundtrip_fixed (m : Metadata) (rest : Bytes) (h : m.WF') :
    decodeMetadataFixed (encodeMetadata m ++ rest) = some (m, rest) :=
  decodeMetadata_enc true m rest h.1 h.2

example : sampleMetadataEmptyValue.WF' := sampleMetadataEmptyValue_wf'
example : decodeMetadataFixed (encodeMetadata sampleMetadataEmptyValue ++ [4]) =
    some (sampleMetadataEmptyValue, [4]) :=
  metadata_roundtrip_fixed _ _ sampleMetadataEmptyValue_wf'

/-- The repaired encoder succeeds exactly on the encodable metadata. -/
theorem metadata_status_fixed (m : Metadata) :
    encodeMetadataStatusFixed m = true ↔ m.Encodable true :=
  encodeMetadataStatusFixed_iff m

example : encodeMetadataStatusFixed sampleMetadataEmptyValue = true :=
  (metadata_status_fixed _).mpr sampleMetadataEmptyValue_wf'.2

theorem metadata_failure_reported_fixed (m : Metadata) (hc : m.Canonical) (h : ¬ m.WF') :
    encodeMetadataStatusFixed m = false := by
  cases hst : encodeMetadataStatusFixed m with
  | false => rfl
  | true => exact absurd ⟨hc, (metadata_status_fixed m).mp hst⟩ h

/- the three witnesses are now reported (a, c) or transported (b) -/
set_option maxRecDepth 8192 in
example : encodeMetadataStatusFixed witnessLongName = false := by decide
example : encodeMetadataStatusFixed witnessDepth = false :=
  metadata_failure_reported_fixed _ (chainMetadata_all true _).1 (fun h => by
    have := h.2.2
    rw [witnessDepth, chainMetadata_depth] at this
    omega)
example : decodeMetadataFixed (encodeMetadata witnessEmptyValue) =
    some (witnessEmptyValue, []) := by
  have := metadata_roundtrip_fixed witnessEmptyValue [] (by
    simp [witnessEmptyValue, Metadata.WF', Metadata.Canonical, Metadata.Encodable,
      Metadata.All, SubsAll, SortedKeys, NodeEncodable, Metadata.depth, subsDepth])
  simpa using this

/-- C11 for the repaired `EncodeMetadata` / `DecodeMetadata`: every metadata object (canonical =
    any C++ object) is either returned unchanged by the decoder, or the encoder reports
    failure. -/
theorem metadata_c11_fixed (m : Metadata) (hc : m.Canonical) :
    (encodeMetadataStatusFixed m = true ∧
      ∀ rest, decodeMetadataFixed (encodeMetadata m ++ rest) = some (m, rest)) ∨
    encodeMetadataStatusFixed m = false := by
  cases hst : encodeMetadataStatusFixed m with
  | false => exact Or.inr rfl
  | true =>
    exact Or.inl ⟨rfl, fun rest =>
      metadata_roundtrip_fixed m rest ⟨hc, (metadata_status_fixed m).mp hst⟩⟩

example : sampleMetadataEmptyValue.Canonical := sampleMetadataEmptyValue_wf'.1

theorem geometry_metadata_roundtrip_fixed (g : GeometryMetadata) (rest : Bytes) (h : g.WF') :
    decodeGeometryMetadataFixed (encodeGeometryMetadata g ++ rest) = some (g, rest) :=
  decodeGeometryWith_enc decodeMetadataFixed g rest h.1
    (fun a ha => ⟨(h.2.1 a ha).1, fun r => metadata_roundtrip_fixed a.2 r (h.2.1 a ha).2⟩)
    (fun r => metadata_roundtrip_fixed g.root r h.2.2)

example : decodeGeometryMetadataFixed (encodeGeometryMetadata sampleGeometry ++ [9]) =
    some (sampleGeometry, [9]) :=
  geometry_metadata_roundtrip_fixed _ _ (geometry_wf'_of_wf sampleGeometry_wf)

theorem geometry_metadata_status_fixed (g : GeometryMetadata) :
    encodeGeometryMetadataStatusFixed g = true ↔
      g.atts.length < 2^32 ∧ (∀ a ∈ g.atts, a.1 < 2^32 ∧ a.2.Encodable true) ∧
        g.root.Encodable true := by
  simp only [encodeGeometryMetadataStatusFixed, Bool.and_eq_true, decide_eq_true_eq,
    attsOkFixed_iff, encodeMetadataStatusFixed_iff, and_assoc]

example : encodeGeometryMetadataStatusFixed sampleGeometry = true := by decide

theorem geometry_metadata_failure_reported_fixed (g : GeometryMetadata) (hc : g.Canonical)
    (h : ¬ g.WF') : encodeGeometryMetadataStatusFixed g = false := by
  cases hst : encodeGeometryMetadataStatusFixed g with
  | false => rfl
  | true =>
    have hs := (geometry_metadata_status_fixed g).mp hst
    exact absurd ⟨hs.1, fun a ha => ⟨(hs.2.1 a ha).1, hc.1 a ha, (hs.2.1 a ha).2⟩,
      hc.2, hs.2.2⟩ h

set_option maxRecDepth 8192 in
example : encodeGeometryMetadataStatusFixed witnessGeometryLongName = false := by decide

/-- C11 for the repaired `EncodeGeometryMetadata` / `DecodeGeometryMetadata`
    (`att_unique_id` is a `uint32_t`, hence the range hypothesis). -/
theorem geometry_metadata_c11_fixed (g : GeometryMetadata) (hc : g.Canonical) :
    (encodeGeometryMetadataStatusFixed g = true ∧
      ∀ rest, decodeGeometryMetadataFixed (encodeGeometryMetadata g ++ rest) = some (g, rest)) ∨
    encodeGeometryMetadataStatusFixed g = false := by
  cases hst : encodeGeometryMetadataStatusFixed g with
  | false => exact Or.inr rfl
  | true =>
    have hs := (geometry_metadata_status_fixed g).mp hst
    exact Or.inl ⟨rfl, fun rest => geometry_metadata_roundtrip_fixed g rest
      ⟨hs.1, fun a ha => ⟨(hs.2.1 a ha).1, hc.1 a ha, (hs.2.1 a ha).2⟩, hc.2, hs.2.2⟩⟩

example : sampleGeometry.Canonical :=
  ⟨fun a ha => (sampleGeometry_wf.2.1 a ha).2.1, sampleGeometry_wf.2.2.1⟩

/-! ## 4. Supporting facts about the model -/

/-- `decodeMetadata` (recursive, used in all theorems above) is the explicit-stack `while` loop
    of `MetadataDecoder::DecodeMetadata(Metadata *)` (`DracoModel/MetadataStack.lean`), on
    every input. -/
theorem metadata_decoder_is_stack_loop (bs : Bytes) :
    decodeMetadataIter false bs = decodeMetadata bs ∧
    decodeMetadataIter true bs = decodeMetadataFixed bs :=
  ⟨decodeMetadataIter_eq false bs, decodeMetadataIter_eq true bs⟩

example : decodeMetadataIter false (encodeMetadata sampleMetadata ++ [1]) =
    some (sampleMetadata, [1]) := by
  rw [(metadata_decoder_is_stack_loop _).1]
  exact metadata_roundtrip _ _ sampleMetadata_wf

/-- The decoder only returns canonical trees, whatever the input; in particular sortedness
    (`Canonical`) is necessary for the round trip, not only sufficient. -/
theorem metadata_decoder_output_canonical (bs : Bytes) (m : Metadata) (r : Bytes) :
    (decodeMetadata bs = some (m, r) → m.Canonical) ∧
    (decodeMetadataFixed bs = some (m, r) → m.Canonical) :=
  ⟨decodeMetadata_canonical bs m r, decodeMetadataFixed_canonical bs m r⟩

/-- entries given out of order come back sorted, a repeated entry name keeps the last value -/
example : decodeMetadata [3, 1, 98, 1, 7, 1, 97, 1, 8, 1, 98, 1, 9, 0] =
    some (.mk [([97], [8]), ([98], [9])] [], []) := by decide
/-- a repeated sub-metadata name is rejected (`AddSubMetadata`) -/
example : (decodeMetadata [0, 2, 1, 115, 0, 0, 1, 115, 0, 0]).isNone = true := by decide

/-- The repaired decoder accepts every stream that the decoder as written accepts, with the
    same result (it only adds streams containing `data_size == 0`). -/
theorem metadata_decoder_fixed_conservative (bs : Bytes) :
    (∀ r, decodeMetadata bs = some r → decodeMetadataFixed bs = some r) ∧
    (∀ r, decodeGeometryMetadata bs = some r → decodeGeometryMetadataFixed bs = some r) :=
  ⟨decodeMetadataFixed_compat bs, decodeGeometryMetadataFixed_compat bs⟩

example : decodeMetadataFixed (encodeMetadata sampleMetadata) = some (sampleMetadata, []) :=
  (metadata_decoder_fixed_conservative _).1 _ (by
    have := metadata_roundtrip sampleMetadata [] sampleMetadata_wf
    simpa using this)

/-- The nesting fuel of the recursive decoder is never exhausted. -/
theorem metadata_decoder_fuel (ae : Bool) (f : Nat) (h : kMaxSubmetadataLevel + 2 ≤ f) :
    decodeNode ae f false 0 = decodeNode ae (kMaxSubmetadataLevel + 3) false 0 :=
  decodeNode_fuel ae f _ false 0 (by omega) (by omega)
    (by simp only [Bool.false_eq_true, if_false]; omega)
    (by simp only [Bool.false_eq_true, if_false]; omega)

example : decodeNode false 5000 false 0 = decodeMetadata :=
  metadata_decoder_fuel false 5000 (by decide)

/-!
## The C++ patch modelled by `encodeMetadataStatusFixed` / `decodeMetadataFixed`

(`/tmp/slice_D/cpp/c11_fix.patch`; built and compared with the model on 315 trees and 3028
arbitrary streams.)

metadata_encoder.cc / .h
 1. `EncodeMetadata` forwards to a new private `EncodeMetadataAtDepth(buf, metadata, depth)`
    (depth 0) which
    * returns false when `entries.size()`, `entry_value.size()` or `sub_metadatas.size()`
      exceed `UINT32_MAX` (they are written as `uint32_t`);
    * returns false when `!sub_metadatas.empty() && depth > kMaxSubmetadataLevel` (1000, the
      decoder's constant: the decoder accepts 1001 nested levels);
    * `return false` when the recursive call for a sub-metadata fails (today: dropped).
 2. `EncodeAttributeMetadata`: `return EncodeMetadata(...)` (today: dropped, `return true`).
 3. `EncodeGeometryMetadata`: returns false when `att_metadatas.size() > UINT32_MAX`, when
    `EncodeAttributeMetadata` fails, and `return EncodeMetadata(...)` for its own entries
    (today all three are dropped and the function ends in `return true`).
metadata_decoder.cc
 4. `DecodeEntry`: remove `if (data_size == 0) return false;` and guard the read:
    `if (data_size > 0 && !buffer_->Decode(&entry_value[0], data_size)) return false;`.
The bytes written on success are unchanged.
Items 1 (depth, sizes) go beyond "propagate the failures": without them
`metadata_failure_reported_counterexample_depth` and `…_hugevalue` survive the repair.
-/

end Draco
