import DracoModel.Spec
import DracoModel.SeqDecoder
/-
  C01 — encode/decode round trip (property theorems; the layer theorems live in C08/C16/C17/C04).
  Placeholder until the composed sequential theorem is merged: facts about the specification
  relation itself, so that the checker used on implementation outputs is not vacuous.
-/
namespace Draco.C01
open Draco

/-- the identity transform reproduces the row -/
theorem expectedRow_none (row : Bytes) : Spec.expectedRow .none row = row := rfl

example : Spec.expectedRow .none [1, 2, 3] = [1, 2, 3] := rfl

end Draco.C01
