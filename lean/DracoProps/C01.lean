import DracoModel.Spec
import DracoModel.SeqDecoder
import DracoModel.SeqEncoder
import DracoProofs.SeqGeometry
import DracoProofs.SeqRows
import DracoProofs.SpecCheck
import DracoProofs.OctaFloat
import DracoProofs.SeqScheme
import DracoProofs.GeneratedSeq
import DracoProofs.GeneratedTable
import DracoProofs.GeneratedPred
import DracoProofs.GeneratedOpts
/-
  C01 — encode/decode round trip, composed and machine checked for the SEQUENTIAL methods
  (`POINT_CLOUD_SEQUENTIAL_ENCODING`, `MESH_SEQUENTIAL_ENCODING`), against the decoder model
  `decodeGeometry` that the correspondence check ties to the C++ decoders, with the encoder model
  `SeqEnc.encodeGeometry` that the driver op `seqenc` ties to the C++ encoders byte for byte.

  Main theorems (for ALL choices of the encoder heuristics — prediction method selected by
  `SelectPredictionMethod`, tagged/raw symbol scheme, probability table rounding —, all options, all
  geometries in the domain `GeomOK`):

    `pointcloud_seq_roundtrip`, `mesh_seq_roundtrip`
        encodeGeometry ch g md opts = some bs  →
        decodeGeometry {} {rest := bs ++ extra} = (some ⟨expected g opts, md⟩, st) ∧ st.rest = extra

  `expected g opts` (DracoModel/SeqEncoder.lean) keeps the number and the order of points and faces and
  maps every attribute to identity (generic and integer encoders), `dequantize ∘ quantize` or
  `octahedral decode ∘ encode` — by the same float-oracle expressions the encoder / decoder
  evaluate, so no floating point reasoning is involved.  `st.rest = extra` is the trailing-bytes
  clause of C06; the composable form is C20's "decoder consumes exactly the encoder's bytes".

  Intermediate theorems: `predictive_coding_invertible`, `seq_values_roundtrip`,
  `seq_attr_roundtrip_{generic,integer,quantization,normal}`, `seq_connectivity_roundtrip`.

  Hypotheses (all in `GeomOK` / `AttOK`, DracoProofs/SeqGeometry.lean, SeqAttrs.lean):
    * 0 < numPoints < 2^31, numPoints * numComponents < 2^31  (`int` counts of the C++; EMPTY geometries
      are not handled by the sequential coders: known finding `empty-geometry`),
    * faces ≤ (2^32-1)/3, faces refer to existing points, attributes structurally valid (C03),
      value buffers consist of bytes, attribute type < 5 (named types), data type ≤ 11,
      ≤ 255 components, unique id < 2^32, fewer than 2^32 attributes,
    * explicitly configured quantization parameters are float32 bit patterns,
    * metadata is well formed (`GeometryMetadata.WF'`, C11),
    * for normals coded by the normal encoder: `octaEntryOK` — the octahedral coordinates the float code
      computed are canonical points of the grid; implied by the float oracle hypothesis `octaRowOK`
      (|first rounded octahedral coordinate| ≤ center value, `octaEntryOK_of_rowOK`), which in turn
      holds for every float evaluation obeying the standard rounding model (`octa_round_in_range`,
      section 8) — evaluated on every correspondence case by the driver op; not provable for the
      concrete `Float` instance in Lean, whose operations are opaque.
  NOT hypotheses: anything about the values of integer attributes (uint32 values above INT32_MAX make
  the encoder FAIL, `encodeGeometry = none`), value ranges (ranges ≥ 2^31-1 switch the prediction
  off), prediction scheme options, speeds, quantization bit counts (invalid ones make the encoder fail).
-/
namespace Draco.C01
open Draco Draco.SeqEnc

/-- the identity transform reproduces the row -/
theorem expectedRow_none (row : Bytes) : Spec.expectedRow .none row = row := rfl

example : Spec.expectedRow .none [1, 2, 3] = [1, 2, 3] := rfl

/-! ## 1. prediction -/

/-- **Predictive coding is invertible**: the decoder loop `deltaDecode` over the corrections
    `deltaEncode` computed from the prefix predictions reproduces the entries, for ANY correction
    transform with `dec p (enc e p) = e` on its domain (`Dom` for data entries, `Pred` for
    predictions; the all-zero initial prediction and every entry must be admissible predictions). -/
theorem predictive_coding_invertible (enc dec : List Int → List Int → List Int) (nc : Nat)
    (hnc : 0 < nc) (Dom Pred : List Int → Prop)
    (hlen : ∀ e p, Dom e → Pred p → (enc e p).length = nc)
    (hinv : ∀ e p, Dom e → Pred p → dec p (enc e p) = e)
    (hstep : ∀ e, Dom e → Pred e) (h0 : Pred (List.replicate nc 0))
    (es : List (List Int)) (hes : ∀ e ∈ es, Dom e) :
    deltaDecode dec nc (deltaEncode enc (List.replicate nc 0) es).flatten = es.flatten :=
  Draco.predictive_coding_invertible enc dec nc hnc Dom Pred hlen hinv hstep h0 es hes

/-- non-vacuity: plain differences on 2-component entries -/
example : deltaDecode (fun p c => List.zipWith (· + ·) p c) 2
    (deltaEncode (fun e p => List.zipWith (· - ·) e p) [0, 0] [[5, 7], [6, 6], [0, -3]]).flatten
    = [5, 7, 6, 6, 0, -3] :=
  predictive_coding_invertible (fun e p => List.zipWith (· - ·) e p)
    (fun p c => List.zipWith (· + ·) p c) 2 (by decide)
    (fun e => e.length = 2) (fun p => p.length = 2)
    (fun e p he hp => by simp [he, hp])
    (fun e p he hp => by
      match e, p, he, hp with
      | [a, b], [c, d], _, _ => simp only [List.zipWith_cons_cons, List.zipWith_nil_left, List.cons.injEq, and_true]; omega)
    (fun e he => he) rfl [[5, 7], [6, 6], [0, -3]] (by decide)

/-! ## 2. attribute values -/

/-- **`SequentialIntegerAttributeDecoder::DecodeValues` inverts `EncodeValues`** for the portable
    int32 values of the integer (kind 1), quantization (2) and normal (3) encoders: whatever
    prediction variant (none / delta + wrap / delta + canonicalized octahedron), symbol coded or raw
    byte path and whatever choices the encoder took, the decoder returns the portable values and
    stops exactly behind the encoder's bytes (`Runs`: for every state whose input starts with `bs`). -/
theorem seq_values_roundtrip (ch : Choices) (level : Nat) (builtin : Bool) (i kind nc n : Nat)
    (pred : Bool) (octa : Option OctaT) (numValues : Nat) (portable : List Int) (bs : Bytes) (v : Nat)
    (hv : bsVersion 2 0 ≤ v) (hnc : 0 < nc) (hn : 0 < n) (hlen : portable.length = n * nc)
    (h32 : n * nc < 2 ^ 32) (hr : ∀ x ∈ portable, -2 ^ 31 ≤ x ∧ x < 2 ^ 31) (hnv : numValues ≠ 0)
    (hocta : kind = 3 → nc = 2 ∧ ∃ q t, Octa.init q = some t ∧ octa = some t ∧
      ∀ e ∈ entriesOf 2 portable.length portable, OctaEntry t e)
    (henc : encodeIntegerValues ch level builtin i kind nc pred octa numValues portable = some bs)
    (s : DSt) (extra : Bytes) (hs : s.rest = bs ++ extra) (hsv : s.version = v) :
    ∃ s', decodeIntegerValues kind n nc s = (some portable, s') ∧ s'.rest = extra :=
  let ⟨s', h1, h2, _⟩ := (runs_intValues ch level builtin i kind nc n pred octa numValues portable bs v
    hv hnc hn hlen h32 hr hnv hocta henc).run s extra hs hsv
  ⟨s', h1, h2⟩

/-- non-vacuity (wrap prediction, raw bytes): the int32 values `[100, -3, 250, 7]` as two entries -/
example : ∃ s', decodeIntegerValues 1 2 2
      { rest := [0, 1, 0, 1, 200, 5, 207, 20, 253, 255, 255, 255, 250, 0, 0, 0] ++ [9], version := 515 }
      = (some [100, -3, 250, 7], s') ∧ s'.rest = [9] :=
  seq_values_roundtrip ⟨ProbOracle.exact, fun _ => 0, fun _ => .tagged, .tagged⟩ 7 false 0 1 2 2 true none 1
    [100, -3, 250, 7] _ 515 (by decide) (by decide) (by decide) rfl (by decide) (by decide) (by decide)
    (fun h => absurd h (by decide)) (by decide +kernel) _ [9] rfl rfl

/-- generic encoder (`SequentialAttributeEncoder::EncodeValues`): the raw values in point order;
    the decoder reads them back as they are -/
theorem seq_attr_roundtrip_generic (ch : Choices) (opts : EncOpts) (n i : Nat) (a : Attribute)
    (e : AttEnc) (_hn : 0 < n) (hok : AttOK a (opts.att i) n)
    (hty : encoderType a (opts.att i) = 0)
    (henc : encodeAttribute ch opts n i a = some e) (extra : Bytes) :
    e.encType = 0 ∧ e.valueBytes = (pointRows a n).flatten ∧ e.transformBytes = [] ∧
    readBytes (n * a.stride) (e.valueBytes ++ extra) = some ((pointRows a n).flatten, extra) ∧
    expectedAttribute n a e = (descOf a).toAttribute n (pointRows a n).flatten := by
  obtain ⟨hrl, hrs⟩ := pointRows_spec a n hok.valid
  rcases encodeAttribute_cases ch opts n i a e henc with ⟨_, rfl⟩ | ⟨h, _⟩ | ⟨h, _⟩ | ⟨h, _⟩ <;>
    try (rw [hty] at h; cases h)
  refine ⟨rfl, rfl, rfl, ?_, rfl⟩
  have hl : (pointRows a n).flatten.length = n * a.stride := by
    rw [flatten_length_uniform a.stride _ hrs, hrl]
  simp only [readBytes, List.length_append, hl]
  rw [if_neg (by omega), ← hl]
  simp

/-- integer encoder: `PrepareValues` (conversion to int32), `EncodeValues` → `DecodeValues`,
    `StoreValues` (narrowing) give back the attribute's value bytes -/
theorem seq_attr_roundtrip_integer (ch : Choices) (opts : EncOpts) (n i : Nat) (a : Attribute)
    (e : AttEnc) (hn : 0 < n) (hok : AttOK a (opts.att i) n)
    (hty : encoderType a (opts.att i) = 1)
    (henc : encodeAttribute ch opts n i a = some e) (v : Nat) (hv : bsVersion 2 0 ≤ v) :
    e.encType = 1 ∧ Runs (decodeIntegerValues 1 n a.numComponents) v e.valueBytes e.portable v ∧
    (e.portable.map (intToLE (dataTypeLength a.dataType))).flatten = (pointRows a n).flatten ∧
    expectedAttribute n a e = (descOf a).toAttribute n (pointRows a n).flatten := by
  have f := attFacts ch opts n i a e hn hok henc
  rcases encodeAttribute_cases ch opts n i a e henc with ⟨h, _⟩ | ⟨_, p, vb, _, _, rfl⟩ | ⟨h, _⟩ | ⟨h, _⟩ <;>
    try (rw [hty] at h; cases h)
  exact ⟨rfl, f.vals (by simp) v hv, (f.tr1 rfl).2.2.2.2, rfl⟩

/-- quantization encoder: the decoder reads back the quantized values and the transform
    parameters; the decoded attribute is `dequantize (quantize x)` by the decoder's expressions -/
theorem seq_attr_roundtrip_quantization (ch : Choices) (opts : EncOpts) (n i : Nat) (a : Attribute)
    (e : AttEnc) (hn : 0 < n) (hok : AttOK a (opts.att i) n)
    (hty : encoderType a (opts.att i) = 2)
    (henc : encodeAttribute ch opts n i a = some e) (v : Nat) (hv : bsVersion 2 0 ≤ v) :
    ∃ mins range q, quantizationParams a (opts.att i) = some (mins, range, q) ∧
      e.encType = 2 ∧ e.portable = quantizedPortable mins range q a.numComponents (pointRows a n) ∧
      Runs (decodeIntegerValues 2 n a.numComponents) v e.valueBytes e.portable v ∧
      e.transformBytes = mins.flatMap (writeLE 4) ++ writeLE 4 range ++ [q % 256] ∧
      1 ≤ q ∧ q ≤ 30 ∧ mins.length = a.numComponents ∧
      expectedAttribute n a e = (descOf a).toAttribute n
        (dequantAll range q mins e.portable mins []).flatten := by
  have f := attFacts ch opts n i a e hn hok henc
  rcases encodeAttribute_cases ch opts n i a e henc with ⟨h, _⟩ | ⟨h, _⟩ | ⟨_, mins, range, q, vb, hq, _, rfl⟩ | ⟨h, _⟩ <;>
    try (rw [hty] at h; cases h)
  obtain ⟨q1, q30, _, qml, _, _⟩ := quantizationParams_spec a (opts.att i) mins range q hok.explicit hq
  exact ⟨mins, range, q, hq, rfl, rfl, f.vals (by simp) v hv, rfl, q1, q30, qml, by
    simp only [expectedAttribute, Int.toNat_natCast]⟩

/-- normal encoder: the decoder reads back the octahedral coordinates and the bit count; the decoded
    attribute is `OctahedralCoordsToUnitVector (FloatVectorToQuantizedOctahedralCoords x)` -/
theorem seq_attr_roundtrip_normal (ch : Choices) (opts : EncOpts) (n i : Nat) (a : Attribute)
    (e : AttEnc) (hn : 0 < n) (hok : AttOK a (opts.att i) n)
    (hty : encoderType a (opts.att i) = 3)
    (henc : encodeAttribute ch opts n i a = some e) (v : Nat) (hv : bsVersion 2 0 ≤ v) :
    ∃ t, Octa.init (opts.att i).quantBits.toNat = some t ∧
      e.encType = 3 ∧ e.portable = octaPortable t (pointRows a n) ∧
      Runs (decodeIntegerValues 3 n 2) v e.valueBytes e.portable v ∧
      e.transformBytes = [(opts.att i).quantBits.toNat % 256] ∧
      expectedAttribute n a e = (descOf a).toAttribute n
        (octaAll (opts.att i).quantBits.toNat e.portable []).flatten := by
  have f := attFacts ch opts n i a e hn hok henc
  rcases encodeAttribute_cases ch opts n i a e henc with ⟨h, _⟩ | ⟨h, _⟩ | ⟨h, _⟩ | ⟨_, _, t, vb, ht, _, rfl⟩ <;>
    try (rw [hty] at h; cases h)
  exact ⟨t, ht, rfl, rfl, f.vals (by simp) v hv, rfl, by simp only [expectedAttribute, Int.toNat_natCast]⟩

/-! ## 3. connectivity -/

/-- **Sequential mesh connectivity**: raw u8 / u16 / varint / u32 indices (by number of points)
    and entropy coded index differences (`compress_connectivity`, any scheme choice): the decoder
    returns the number of points and the faces in order and consumes exactly the block. -/
theorem seq_connectivity_roundtrip (ch : Choices) (opts : EncOpts) (numPoints : Nat)
    (faces : List (Nat × Nat × Nat)) (bs : Bytes)
    (hnf : faces.length ≤ 0xffffffff / 3) (hnp : numPoints < 2 ^ 31)
    (hvalid : faces.all (fun (a, b, c) => a < numPoints && b < numPoints && c < numPoints) = true)
    (henc : encodeConnectivity ch opts numPoints faces = some bs)
    (s : DSt) (extra : Bytes) (hs : s.rest = bs ++ extra) (hsv : s.version = bsVersion 2 2) :
    ∃ s', decodeSeqConnectivity s = (some (numPoints, faces), s') ∧ s'.rest = extra :=
  let ⟨s', h1, h2, _⟩ := (runs_decodeSeqConnectivity ch opts numPoints faces bs (bsVersion 2 2)
    (Nat.le_refl _) hnf hnp hvalid henc).run s extra hs hsv
  ⟨s', h1, h2⟩

/-- non-vacuity: two faces on four points, raw u8 indices -/
example : ∃ s', decodeSeqConnectivity { rest := [2, 4, 1, 0, 1, 2, 2, 1, 3] ++ [7, 7], version := 514 }
    = (some (4, [(0, 1, 2), (2, 1, 3)]), s') ∧ s'.rest = [7, 7] :=
  seq_connectivity_roundtrip ⟨ProbOracle.exact, fun _ => 0, fun _ => .tagged, .tagged⟩ {} 4
    [(0, 1, 2), (2, 1, 3)] _ (by decide) (by decide) (by decide) (by decide +kernel) _ [7, 7] rfl rfl

/-! ## 4. the composed theorems -/

/-- both geometry kinds at once, with the per-attribute encoder states exposed -/
theorem seq_roundtrip_full (ch : Choices) (g : Geometry) (md : Option GeometryMetadata)
    (opts : EncOpts) (bs : Bytes) (encs : List AttEnc) (hok : GeomOK g opts)
    (hmd : ∀ m, md = some m → m.WF')
    (henc : encodeGeometryFull ch g md opts = some (bs, encs)) (extra : Bytes) :
    ∃ st, decodeGeometry {} { rest := bs ++ extra } = (some ⟨expected g opts, md⟩, st) ∧
      st.rest = extra := by
  obtain ⟨st, h1, h2, _⟩ := (runs_decodeGeometry ch g md opts bs encs hok hmd henc).run
    { rest := bs ++ extra } extra rfl rfl
  rw [expectedGeometry_eq ch g md opts bs encs henc] at h1
  exact ⟨st, h1, h2⟩

theorem seq_roundtrip (ch : Choices) (g : Geometry) (md : Option GeometryMetadata)
    (opts : EncOpts) (bs : Bytes) (hok : GeomOK g opts) (hmd : ∀ m, md = some m → m.WF')
    (henc : encodeGeometry ch g md opts = some bs) (extra : Bytes) :
    ∃ st, decodeGeometry {} { rest := bs ++ extra } = (some ⟨expected g opts, md⟩, st) ∧
      st.rest = extra := by
  unfold encodeGeometry at henc
  cases hf : encodeGeometryFull ch g md opts with
  | none => rw [hf] at henc; cases henc
  | some r =>
    obtain ⟨bs', encs⟩ := r
    rw [hf] at henc
    simp only [Option.map_some, Option.some.injEq] at henc
    subst henc
    exact seq_roundtrip_full ch g md opts bs' encs hok hmd hf extra

/-- **C01 for `POINT_CLOUD_SEQUENTIAL_ENCODING`** (and C06 trailing bytes, C20 self-delimitation):
    for every point cloud in the domain, ALL choices of the encoder heuristics and ALL options —
    if the encoder produces a stream, the decoder applied to that stream followed by arbitrary bytes
    `extra` returns exactly `expected g opts` (same points in the same order; identity /
    dequant∘quant / octahedral decode∘encode per attribute) and the metadata, and leaves exactly
    `extra` unread. -/
theorem pointcloud_seq_roundtrip (ch : Choices) (g : Geometry) (md : Option GeometryMetadata)
    (opts : EncOpts) (bs : Bytes) (_hpc : g.isMesh = false) (hok : GeomOK g opts)
    (hmd : ∀ m, md = some m → m.WF')
    (henc : encodeGeometry ch g md opts = some bs) (extra : Bytes) :
    ∃ st, decodeGeometry {} { rest := bs ++ extra } = (some ⟨expected g opts, md⟩, st) ∧
      st.rest = extra :=
  seq_roundtrip ch g md opts bs hok hmd henc extra

/-- **C01 for `MESH_SEQUENTIAL_ENCODING`**: as above; in addition the faces come back in the same
    order with the same point ids (raw or compressed connectivity). -/
theorem mesh_seq_roundtrip (ch : Choices) (g : Geometry) (md : Option GeometryMetadata)
    (opts : EncOpts) (bs : Bytes) (_hmesh : g.isMesh = true) (hok : GeomOK g opts)
    (hmd : ∀ m, md = some m → m.WF')
    (henc : encodeGeometry ch g md opts = some bs) (extra : Bytes) :
    ∃ st, decodeGeometry {} { rest := bs ++ extra } = (some ⟨expected g opts, md⟩, st) ∧
      st.rest = extra :=
  seq_roundtrip ch g md opts bs hok hmd henc extra

/-- what `expected` keeps: kind, number of points, faces (of a mesh) -/
theorem expected_keeps_connectivity (g : Geometry) (opts : EncOpts) (h : g.isMesh = true) :
    (expected g opts).numPoints = g.numPoints ∧ (expected g opts).faces = g.faces ∧
      (expected g opts).atts.length = g.atts.length := by
  refine ⟨rfl, by simp [expected, h], ?_⟩
  simp only [expected, List.length_map]
  have : ∀ (l : List Attribute) k, (zipIdxFrom k l).length = l.length := by
    intro l; induction l with
    | nil => intro _; rfl
    | cons a as ih => intro k; simp [zipIdxFrom, ih]
  exact this _ _

/-- an attribute coded by the generic or the integer encoder is reproduced bit for bit, in point order -/
theorem expected_identity (opts : EncOpts) (n i : Nat) (a : Attribute)
    (h : encoderType a (opts.att i) = 0 ∨ encoderType a (opts.att i) = 1) :
    expectedAttributeOf opts n i a = (descOf a).toAttribute n (pointRows a n).flatten := by
  unfold expectedAttributeOf
  rcases h with h | h <;> simp only [h]

/-! ### non-vacuity of the composed theorems -/

/-- a point cloud: 3 points, an unquantized float32 attribute (generic encoder) with an explicit point map, and
    an int16 attribute (delta + wrap prediction) -/
def samplePC : Geometry :=
  { isMesh := false, numPoints := 3, faces := [],
    atts := [
      { attType := 4, dataType := 9, numComponents := 1, normalized := false, uniqueId := 7,
        numValues := 2, map := some [1, 0, 1], values := [1, 2, 3, 4, 5, 6, 7, 8] },
      { attType := 0, dataType := 3, numComponents := 1, normalized := false, uniqueId := 0,
        numValues := 3, map := none, values := [255, 255, 5, 0, 0, 1] } ] }

def sampleChoices : Choices := ⟨ProbOracle.exact, fun _ => 0, fun _ => .tagged, .tagged⟩
def sampleOpts : EncOpts := { builtin := false }

theorem attOK_of_decide (a : Attribute) (o : AttOpts) (n : Nat)
    (h1 : a.valid n = true) (h2 : a.values.all (· < 256) = true) (h3 : a.attType < 5)
    (h4 : a.dataType ≤ 11) (h5 : a.numComponents ≤ 255) (h6 : a.uniqueId < 2 ^ 32)
    (h7 : n * a.numComponents < 2 ^ 31) (h8 : o.explicitQuant = none) (h9 : encoderType a o ≠ 3) :
    AttOK a o n :=
  ⟨h1, fun b hb => by simpa using List.all_eq_true.1 h2 b hb, h3, h4, h5, h6, h7,
    fun org r h => (by rw [h8] at h; cases h), fun h => absurd h h9⟩

theorem samplePC_ok : GeomOK samplePC sampleOpts := by
  refine ⟨by decide, by decide, by decide, by decide, by decide, ?_⟩
  intro i a h
  match i, h with
  | 0, h =>
    simp only [samplePC, List.getElem?_cons_zero, Option.some.injEq] at h
    subst h
    exact attOK_of_decide _ _ _ (by decide) (by decide) (by decide) (by decide) (by decide)
      (by decide) (by decide) rfl (by decide)
  | 1, h =>
    simp only [samplePC, List.getElem?_cons_succ, List.getElem?_cons_zero, Option.some.injEq] at h
    subst h
    exact attOK_of_decide _ _ _ (by decide) (by decide) (by decide) (by decide) (by decide)
      (by decide) (by decide) rfl (by decide)
  | i + 2, h => simp [samplePC] at h

theorem samplePC_encodes : encodeGeometry sampleChoices samplePC none sampleOpts = some
    [68, 82, 65, 67, 79, 2, 3, 0, 0, 0, 0, 3, 0, 0, 0, 1, 2, 4, 9, 1, 0, 7, 0, 3, 1, 0, 0, 0, 1,
     5, 6, 7, 8, 1, 2, 3, 4, 5, 6, 7, 8, 0, 1, 0, 1, 1, 12, 13, 255, 255, 255, 255, 0, 1, 0, 0] := by
  decide +kernel

example : ∃ st, decodeGeometry {} { rest :=
      [68, 82, 65, 67, 79, 2, 3, 0, 0, 0, 0, 3, 0, 0, 0, 1, 2, 4, 9, 1, 0, 7, 0, 3, 1, 0, 0, 0, 1,
       5, 6, 7, 8, 1, 2, 3, 4, 5, 6, 7, 8, 0, 1, 0, 1, 1, 12, 13, 255, 255, 255, 255, 0, 1, 0, 0] ++ [1, 2, 3] }
      = (some ⟨expected samplePC sampleOpts, none⟩, st) ∧ st.rest = [1, 2, 3] :=
  pointcloud_seq_roundtrip sampleChoices samplePC none sampleOpts _ rfl samplePC_ok
    (fun m h => by cases h) samplePC_encodes [1, 2, 3]

/-- … and what comes back is the input with the point map resolved -/
example : (expected samplePC sampleOpts).atts.map (·.values) =
    [[5, 6, 7, 8, 1, 2, 3, 4, 5, 6, 7, 8], [255, 255, 5, 0, 0, 1]] := by decide +kernel

/-- non-vacuity of `seq_attr_roundtrip_generic`: the unquantized float attribute of `samplePC` -/
example : ∃ e, encodeAttribute sampleChoices sampleOpts 3 0
      { attType := 4, dataType := 9, numComponents := 1, normalized := false, uniqueId := 7,
        numValues := 2, map := some [1, 0, 1], values := [1, 2, 3, 4, 5, 6, 7, 8] } = some e ∧
    e.encType = 0 ∧ e.valueBytes = [5, 6, 7, 8, 1, 2, 3, 4, 5, 6, 7, 8] := by
  have h : (encodeAttribute sampleChoices sampleOpts 3 0
      { attType := 4, dataType := 9, numComponents := 1, normalized := false, uniqueId := 7,
        numValues := 2, map := some [1, 0, 1], values := [1, 2, 3, 4, 5, 6, 7, 8] }).isSome = true := by
    decide +kernel
  obtain ⟨e, he⟩ := Option.isSome_iff_exists.1 h
  obtain ⟨h1, h2, _, _, _⟩ := seq_attr_roundtrip_generic sampleChoices sampleOpts 3 0 _ e (by decide)
    (attOK_of_decide _ _ _ (by decide) (by decide) (by decide) (by decide) (by decide) (by decide)
      (by decide) rfl (by decide)) (by decide) he []
  exact ⟨e, he, h1, by rw [h2]; decide +kernel⟩

/-- non-vacuity of `seq_attr_roundtrip_integer`: the int16 attribute of `samplePC` -/
example : ∃ e, encodeAttribute sampleChoices sampleOpts 3 1
      { attType := 0, dataType := 3, numComponents := 1, normalized := false, uniqueId := 0,
        numValues := 3, map := none, values := [255, 255, 5, 0, 0, 1] } = some e ∧
    e.encType = 1 ∧ (e.portable.map (intToLE 2)).flatten = [255, 255, 5, 0, 0, 1] := by
  have h : (encodeAttribute sampleChoices sampleOpts 3 1
      { attType := 0, dataType := 3, numComponents := 1, normalized := false, uniqueId := 0,
        numValues := 3, map := none, values := [255, 255, 5, 0, 0, 1] }).isSome = true := by
    decide +kernel
  obtain ⟨e, he⟩ := Option.isSome_iff_exists.1 h
  obtain ⟨h1, _, h3, _⟩ := seq_attr_roundtrip_integer sampleChoices sampleOpts 3 1 _ e (by decide)
    (attOK_of_decide _ _ _ (by decide) (by decide) (by decide) (by decide) (by decide) (by decide)
      (by decide) rfl (by decide)) (by decide) he 515 (by decide)
  exact ⟨e, he, h1, by rw [show dataTypeLength 3 = 2 from by decide] at h3; rw [h3]; decide +kernel⟩

/- `seq_attr_roundtrip_quantization` / `seq_attr_roundtrip_normal`: their hypotheses mention the
   executable `Float32` quantizer, which the Lean kernel cannot evaluate; that they are satisfiable is
   witnessed by the driver (`seqenc` cases tagged `seqenc:ok:dom-ok` with quantized positions /
   normals: the op evaluates the hypotheses `domainOf` and the conclusion `rt-ok` on each of them).
   Their integer core is `seq_values_roundtrip`; a concrete instance of its octahedral branch: -/
example : ∃ s', decodeIntegerValues 3 2 2
      { rest := [0, 3, 0, 1, 2, 0, 6, 4, 7, 0, 0, 0, 3, 0, 0, 0] ++ [5], version := 514 }
      = (some [6, 4, 3, 3], s') ∧ s'.rest = [5] :=
  seq_values_roundtrip sampleChoices 7 false 0 3 2 2 true (some ⟨3, 7, 6, 3⟩) 1 [6, 4, 3, 3] _ 514
    (by decide) (by decide) (by decide) rfl (by decide) (by decide) (by decide)
    (fun _ => ⟨rfl, 3, ⟨3, 7, 6, 3⟩, by decide, rfl, by
      intro e he
      have : e = [6, 4] ∨ e = [3, 3] := by
        have hm : entriesOf 2 ([6, 4, 3, 3] : List Int).length [6, 4, 3, 3] = [[6, 4], [3, 3]] := by decide
        rw [hm] at he; simpa using he
      rcases this with rfl | rfl
      · exact ⟨6, 4, rfl, by decide, by decide⟩
      · exact ⟨3, 3, rfl, by decide, by decide⟩⟩)
    (by decide +kernel) _ [5] rfl rfl

/-- a mesh: 4 points, 2 faces, compressed connectivity, one int32 attribute, symbol coding -/
def sampleMesh : Geometry :=
  { isMesh := true, numPoints := 4, faces := [(0, 1, 2), (2, 1, 3)],
    atts := [
      { attType := 0, dataType := 5, numComponents := 1, normalized := false, uniqueId := 3,
        numValues := 4, map := none, values := [1, 0, 0, 0, 2, 0, 0, 0, 255, 255, 255, 255, 9, 0, 0, 0] } ] }

def sampleMeshOpts : EncOpts := { compressConnectivity := true }

theorem sampleMesh_ok : GeomOK sampleMesh sampleMeshOpts := by
  refine ⟨by decide, by decide, by decide, by decide, by decide, ?_⟩
  intro i a h
  match i, h with
  | 0, h =>
    simp only [sampleMesh, List.getElem?_cons_zero, Option.some.injEq] at h
    subst h
    exact attOK_of_decide _ _ _ (by decide) (by decide) (by decide) (by decide) (by decide)
      (by decide) (by decide) rfl (by decide)
  | i + 1, h => simp [sampleMesh] at h

theorem sampleMesh_encodes : ∃ bs, encodeGeometry sampleChoices sampleMesh none sampleMeshOpts = some bs := by
  have : (encodeGeometry sampleChoices sampleMesh none sampleMeshOpts).isSome = true := by decide +kernel
  exact Option.isSome_iff_exists.1 this

example : ∃ bs st, encodeGeometry sampleChoices sampleMesh none sampleMeshOpts = some bs ∧
    decodeGeometry {} { rest := bs ++ [42] } = (some ⟨expected sampleMesh sampleMeshOpts, none⟩, st) ∧
    st.rest = [42] ∧ (expected sampleMesh sampleMeshOpts).faces = [(0, 1, 2), (2, 1, 3)] := by
  obtain ⟨bs, hbs⟩ := sampleMesh_encodes
  obtain ⟨st, h1, h2⟩ := mesh_seq_roundtrip sampleChoices sampleMesh none sampleMeshOpts bs rfl
    sampleMesh_ok (fun m h => by cases h) hbs [42]
  exact ⟨bs, st, hbs, h1, h2, rfl⟩

/-! ## 5. decoding with skipped attribute transforms (C10 on encoder outputs) -/

/-- **`seq_skip_roundtrip`**: decoding an encoder-produced sequential stream with the attribute
    transforms of ANY set `S` of attribute types skipped (`SetSkipAttributeTransform`) returns
    `expectedSkip S g opts`: attributes of the integer / quantization / normal encoders whose type is
    in `S` come back as int32 attributes holding the portable values (quantized values, octahedral
    coordinates, or the integers themselves) with the transform data attached; everything else —
    points, faces, the other attributes, metadata, consumed bytes — is as in the ordinary decode. -/
theorem seq_skip_roundtrip (S : List Nat) (ch : Choices) (g : Geometry) (md : Option GeometryMetadata)
    (opts : EncOpts) (bs : Bytes) (hok : GeomOK g opts) (hmd : ∀ m, md = some m → m.WF')
    (henc : encodeGeometry ch g md opts = some bs) (extra : Bytes) :
    ∃ st, decodeGeometry { skip := S } { rest := bs ++ extra } = (some ⟨expectedSkip S g opts, md⟩, st) ∧
      st.rest = extra := by
  obtain ⟨encs, hf⟩ := encodeGeometry_full ch g md opts bs henc
  obtain ⟨st, h1, h2, _⟩ := (runs_decodeStreamWithSkip Eb.decodeEdgebreaker Kd.decodeKdGeometry
    { skip := S } ch g md opts bs encs hok hmd hf).run { rest := bs ++ extra } extra rfl rfl
  rw [expectedGeometrySkip_eq S ch g md opts bs encs hf] at h1
  exact ⟨st, h1, h2⟩

/-- non-vacuity: `samplePC` decoded with the POSITION transform skipped: the int16 position attribute
    comes back as int32 values -1, 5, 256 -/
example : ∃ st, decodeGeometry { skip := [0] } { rest :=
      [68, 82, 65, 67, 79, 2, 3, 0, 0, 0, 0, 3, 0, 0, 0, 1, 2, 4, 9, 1, 0, 7, 0, 3, 1, 0, 0, 0, 1,
       5, 6, 7, 8, 1, 2, 3, 4, 5, 6, 7, 8, 0, 1, 0, 1, 1, 12, 13, 255, 255, 255, 255, 0, 1, 0, 0] ++ [9] }
      = (some ⟨expectedSkip [0] samplePC sampleOpts, none⟩, st) ∧ st.rest = [9] :=
  seq_skip_roundtrip [0] sampleChoices samplePC none sampleOpts _ samplePC_ok
    (fun m h => by cases h) samplePC_encodes [9]

example : (expectedSkip [0] samplePC sampleOpts).atts.map (fun a => (a.dataType, a.values)) =
    [(9, [5, 6, 7, 8, 1, 2, 3, 4, 5, 6, 7, 8]),
     (5, [255, 255, 255, 255, 5, 0, 0, 0, 0, 1, 0, 0])] := by decide +kernel

/-- skipping nothing is the ordinary decode -/
theorem expectedSkip_nil (g : Geometry) (opts : EncOpts) : expectedSkip [] g opts = expected g opts := by
  unfold expectedSkip expected
  congr 1
  apply List.map_congr_left
  intro ia _
  simp [expectedSkipAttributeOf]

/-- attributes that are not skipped (generic encoder, or type not in `S`) are identical to the
    ordinary decode -/
theorem seq_skip_unskipped_identical (S : List Nat) (opts : EncOpts) (n i : Nat) (a : Attribute)
    (h : encoderType a (opts.att i) = 0 ∨ S.contains a.attType = false) :
    expectedSkipAttributeOf S opts n i a = expectedAttributeOf opts n i a := by
  unfold expectedSkipAttributeOf
  rcases h with h | h
  · simp [h]
  · simp only [h, Bool.and_false, Bool.false_eq_true, if_false]

/-- **applying the described transform to a skipped attribute gives exactly the ordinary decode**:
    for every attribute of an encoded geometry whose transform was skipped, reinterpreting its values
    as int32 and applying the inverse transform given by the attached transform data
    (`applySkippedTransform`: dequantization / octahedral decoding / for plain integer attributes
    the narrowing cast to the original type) reproduces the values of the ordinary decode bit for
    bit; the descriptor keeps attribute type and unique id, the point map is the identity. -/
theorem seq_skip_transform_applies (S : List Nat) (ch : Choices) (g : Geometry)
    (md : Option GeometryMetadata) (opts : EncOpts) (bs : Bytes) (hok : GeomOK g opts)
    (henc : encodeGeometry ch g md opts = some bs) (i : Nat) (a : Attribute)
    (hi : g.atts[i]? = some a) (hty : encoderType a (opts.att i) ≠ 0)
    (hs : S.contains a.attType = true) :
    let s := expectedSkipAttributeOf S opts g.numPoints i a
    let d := expectedAttributeOf opts g.numPoints i a
    applySkippedTransform a.dataType s = d.values ∧
      s.attType = d.attType ∧ s.uniqueId = d.uniqueId ∧ s.numValues = d.numValues ∧
      s.map = d.map ∧ s.dataType = Generated.DT_INT32.toNat := by
  intro s d
  obtain ⟨encs, hf⟩ := encodeGeometry_full ch g md opts bs henc
  obtain ⟨e, _, he⟩ := encodeAttribute_of_index ch g md opts bs encs hf i a hi
  have f := attFacts _ opts g.numPoints i a e hok.points (hok.atts i a hi) he
  obtain ⟨hty', _⟩ := portableOf_eq _ opts g.numPoints i a e he
  have hs' : s = expectedAttributeSkip S g.numPoints a e :=
    (expectedAttributeSkip_eq S _ opts g.numPoints i a e he).symm
  have hd' : d = expectedAttribute g.numPoints a e :=
    (expectedAttribute_eq _ opts g.numPoints i a e he).symm
  have hne : e.encType ≠ 0 := by rw [hty']; exact hty
  refine ⟨by rw [hs', hd']; exact applySkippedTransform_spec S g.numPoints a e f hne hs, ?_⟩
  have hne' : (e.encType != 0) = true := by simpa using hne
  rw [hs', hd']
  simp only [expectedAttributeSkip, hne', hs, Bool.and_self, if_true, expectedAttribute,
    AttDesc.toAttribute, descOf, and_self]

/-! ## 6. corollaries cited by other properties -/

/-- **C06 (trailing bytes)**: the decode result of an encoder-produced sequential stream does not
    depend on what follows the stream, and exactly `bs.length` bytes are consumed. -/
theorem seq_trailing_bytes_ignored (ch : Choices) (g : Geometry) (md : Option GeometryMetadata)
    (opts : EncOpts) (bs : Bytes) (hok : GeomOK g opts) (hmd : ∀ m, md = some m → m.WF')
    (henc : encodeGeometry ch g md opts = some bs) :
    ∃ r : DecodeResult, ∀ extra : Bytes, ∃ st,
      decodeGeometry {} { rest := bs ++ extra } = (some r, st) ∧
      (bs ++ extra).length - st.rest.length = bs.length ∧ st.rest = extra := by
  refine ⟨⟨expected g opts, md⟩, fun extra => ?_⟩
  obtain ⟨st, h1, h2⟩ := seq_roundtrip ch g md opts bs hok hmd henc extra
  exact ⟨st, h1, by rw [h2]; simp, h2⟩

def sampleStream : Bytes :=
  [68, 82, 65, 67, 79, 2, 3, 0, 0, 0, 0, 3, 0, 0, 0, 1, 2, 4, 9, 1, 0, 7, 0, 3, 1, 0, 0, 0, 1,
   5, 6, 7, 8, 1, 2, 3, 4, 5, 6, 7, 8, 0, 1, 0, 1, 1, 12, 13, 255, 255, 255, 255, 0, 1, 0, 0]

theorem samplePC_encodes' : encodeGeometry sampleChoices samplePC none sampleOpts = some sampleStream :=
  samplePC_encodes

example : ∃ r : DecodeResult, ∀ extra : Bytes, ∃ st,
    decodeGeometry {} { rest := sampleStream ++ extra } = (some r, st) ∧
      (sampleStream ++ extra).length - st.rest.length = sampleStream.length ∧ st.rest = extra :=
  seq_trailing_bytes_ignored sampleChoices samplePC none sampleOpts sampleStream samplePC_ok
    (fun m h => by cases h) samplePC_encodes'

/-- **C09 (counts)**: the decoded geometry has the input's number of points, its faces (a point
    cloud has none) and its number of attributes. -/
theorem seq_counts (ch : Choices) (g : Geometry) (md : Option GeometryMetadata)
    (opts : EncOpts) (bs : Bytes) (hok : GeomOK g opts) (hmd : ∀ m, md = some m → m.WF')
    (henc : encodeGeometry ch g md opts = some bs) (extra : Bytes) :
    ∃ r st, decodeGeometry {} { rest := bs ++ extra } = (some r, st) ∧
      r.geometry.isMesh = g.isMesh ∧ r.geometry.numPoints = g.numPoints ∧
      r.geometry.faces = (if g.isMesh then g.faces else []) ∧
      r.geometry.atts.length = g.atts.length ∧
      ∀ a ∈ r.geometry.atts, a.numValues = g.numPoints ∧ a.map = none := by
  obtain ⟨st, h1, _⟩ := seq_roundtrip ch g md opts bs hok hmd henc extra
  refine ⟨_, st, h1, rfl, rfl, rfl, ?_, ?_⟩
  · simp only [expected, List.length_map]
    have : ∀ (l : List Attribute) k, (zipIdxFrom k l).length = l.length := by
      intro l; induction l with
      | nil => intro _; rfl
      | cons a as ih => intro k; simp [zipIdxFrom, ih]
    exact this _ _
  · intro a ha
    simp only [expected, List.mem_map] at ha
    obtain ⟨ia, _, rfl⟩ := ha
    exact ⟨rfl, rfl⟩

example : ∃ r st, decodeGeometry {} { rest :=
      [68, 82, 65, 67, 79, 2, 3, 0, 0, 0, 0, 3, 0, 0, 0, 1, 2, 4, 9, 1, 0, 7, 0, 3, 1, 0, 0, 0, 1,
       5, 6, 7, 8, 1, 2, 3, 4, 5, 6, 7, 8, 0, 1, 0, 1, 1, 12, 13, 255, 255, 255, 255, 0, 1, 0, 0] ++ [] }
      = (some r, st) ∧ r.geometry.isMesh = false ∧ r.geometry.numPoints = 3 := by
  obtain ⟨r, st, h1, h2, h3, _⟩ := seq_counts sampleChoices samplePC none sampleOpts _ samplePC_ok
    (fun m h => by cases h) samplePC_encodes []
  exact ⟨r, st, h1, h2, h3⟩

/-- **C20 / C01 (order)**: the sequential methods keep point order and face order — the faces come
    back as they were, and for every attribute `j` the decoded values are, point by point in the
    order `0 … numPoints-1`, the value rows of the input's points (`pointRows`: `GetValue(mapped_index(p))`)
    with `transformRow` applied (identity / dequantize∘quantize / octahedral decode∘encode); the decoded
    attribute has the identity point map and keeps its unique id. -/
theorem seq_order_preserved (ch : Choices) (g : Geometry) (md : Option GeometryMetadata)
    (opts : EncOpts) (bs : Bytes) (hok : GeomOK g opts) (hmd : ∀ m, md = some m → m.WF')
    (henc : encodeGeometry ch g md opts = some bs) (extra : Bytes) :
    ∃ r st, decodeGeometry {} { rest := bs ++ extra } = (some r, st) ∧
      r.geometry.faces = (if g.isMesh then g.faces else []) ∧
      ∀ j a, g.atts[j]? = some a → ∃ d, r.geometry.atts[j]? = some d ∧
        d.uniqueId = a.uniqueId ∧ d.map = none ∧ d.numValues = g.numPoints ∧
        d.values = ((pointRows a g.numPoints).map (transformRow opts j a)).flatten := by
  obtain ⟨st, h1, _⟩ := seq_roundtrip ch g md opts bs hok hmd henc extra
  refine ⟨_, st, h1, rfl, fun j a hj => ?_⟩
  have ha := hok.atts j a hj
  refine ⟨_, expected_att g opts j a hj, rfl, rfl, rfl, ?_⟩
  exact expectedAttributeOf_rowwise opts g.numPoints j a (ha.numValues_pos hok.points).2.1 ha.explicit

/-- non-vacuity: the unquantized float attribute of `samplePC` (explicit point map 1,0,1) comes back as
    the rows of points 0, 1, 2 -/
example : ∃ r st, decodeGeometry {} { rest := sampleStream ++ [] } = (some r, st) ∧
    ∃ d, r.geometry.atts[0]? = some d ∧ d.values = [5, 6, 7, 8, 1, 2, 3, 4, 5, 6, 7, 8] := by
  obtain ⟨r, st, h1, _, h3⟩ := seq_order_preserved sampleChoices samplePC none sampleOpts sampleStream
    samplePC_ok (fun m h => by cases h) samplePC_encodes' []
  obtain ⟨d, hd, _, _, _, hv⟩ := h3 0 _ rfl
  exact ⟨r, st, h1, d, hd, by rw [hv]; decide +kernel⟩

/-! ## 7. the executable specification RoundTripOK accepts the proved decode result -/

/-- the string-valued check evaluated by the driver on the implementation's outputs (`Spec.check`) says
    `"ok"` exactly when the Boolean relation `Spec.checkCore` (RoundTripOK) holds -/
theorem spec_check_ok_iff (cls : Spec.MethodClass) (req : Spec.QuantReq) (g g' gs : Geometry) :
    Spec.check cls req g g' gs = "ok" ↔ Spec.checkCore cls req g g' gs = true :=
  check_ok_iff cls req g g' gs

example : Spec.check .sequential [] samplePC samplePC samplePC = "ok" :=
  (spec_check_ok_iff _ _ _ _ _).2 (by decide +kernel)

/-- **RoundTripOK accepts `expected g opts`** (sequential class): with the quantization request of the
    options (`quantReq`) and the all-transforms-skipped decode `expectedSkip allTypes g opts` as the
    source of the declared transforms.  Hypotheses beyond the domain: distinct unique ids (matching
    is by id; the check answers `skip` otherwise) and a point cloud carries no faces. -/
theorem spec_accepts_expected (ch : Choices) (g : Geometry) (md : Option GeometryMetadata)
    (opts : EncOpts) (bs : Bytes) (hok : GeomOK g opts)
    (hnd : (g.atts.map (·.uniqueId)).Nodup) (hpc : g.isMesh = false → g.faces = [])
    (henc : encodeGeometry ch g md opts = some bs) :
    Spec.check .sequential (quantReq g opts) g (expected g opts) (expectedSkip allTypes g opts) = "ok" :=
  (check_ok_iff _ _ _ _ _).2 (checkCore_expected ch g md opts bs hok hnd hpc henc)

/-- **The corollary the checks rely on**: for an encoder-produced sequential stream, the ordinary
    decode and the all-transforms-skipped decode (both of the stream followed by arbitrary bytes)
    exist, and the executable specification RoundTripOK — the very function the checks evaluate on the
    implementation's outputs — accepts them. -/
theorem seq_roundtrip_ok (ch : Choices) (g : Geometry) (md : Option GeometryMetadata)
    (opts : EncOpts) (bs : Bytes) (hok : GeomOK g opts) (hmd : ∀ m, md = some m → m.WF')
    (hnd : (g.atts.map (·.uniqueId)).Nodup) (hpc : g.isMesh = false → g.faces = [])
    (henc : encodeGeometry ch g md opts = some bs) (extra : Bytes) :
    ∃ r rs st st',
      decodeGeometry {} { rest := bs ++ extra } = (some r, st) ∧
      decodeGeometry { skip := allTypes } { rest := bs ++ extra } = (some rs, st') ∧
      Spec.check .sequential (quantReq g opts) g r.geometry rs.geometry = "ok" := by
  obtain ⟨st, h1, _⟩ := seq_roundtrip ch g md opts bs hok hmd henc extra
  obtain ⟨st', h2, _⟩ := seq_skip_roundtrip allTypes ch g md opts bs hok hmd henc extra
  exact ⟨_, _, st, st', h1, h2, spec_accepts_expected ch g md opts bs hok hnd hpc henc⟩

/-- non-vacuity on `samplePC` -/
example : ∃ r rs st st',
    decodeGeometry {} { rest := sampleStream ++ [1] } = (some r, st) ∧
    decodeGeometry { skip := allTypes } { rest := sampleStream ++ [1] } = (some rs, st') ∧
    Spec.check .sequential (quantReq samplePC sampleOpts) samplePC r.geometry rs.geometry = "ok" :=
  seq_roundtrip_ok sampleChoices samplePC none sampleOpts sampleStream samplePC_ok (fun m h => by cases h)
    (by decide) (fun _ => rfl) samplePC_encodes' [1]

/-! ## 8. the hypothesis on normals

  The round-trip theorems assume `octaEntryOK` for every normal (the octahedral coordinates computed by the
  float code are a canonical grid point).  `octaEntryOK_of_rowOK` derives it from `octaRowOK` (the first
  rounded coordinate is at most `center_value_` in magnitude), and `octa_round_in_range` proves `octaRowOK`
  for EVERY evaluation of the `double` operations that obeys the standard rounding model — the executable
  model being the `Float` instance of the same generic function (`octa_float_is_generic`).  What remains
  unproved is only that Lean's opaque `Float` (= the hardware's binary64) obeys that model. -/

/-- the executable float code of the model is the `Float` instance of the generic function -/
theorem octa_float_is_generic (t : OctaT) (v : Float32 × Float32 × Float32) :
    Octa.floatVecRound t v = Octa.floatVecRoundG t.center v.1.toFloat v.2.1.toFloat v.2.2.toFloat :=
  Octa.floatVecRound_eq_generic t v

/-- under the standard rounding model (unit roundoff `u ≤ 2^-40`, binary64: `2^-53`) the first rounded
    coordinate of `FloatVectorToQuantizedOctahedralCoords` has magnitude at most `center_value_`, for
    every finite input and every `center_value_ < 2^29` (2..30 quantization bits) -/
theorem octa_round_in_range (ops : DoubleOps ℚ) (u : ℚ) (hu0 : 0 ≤ u) (hu : u ≤ 1 / 2 ^ 40)
    (hm : Octa.DoubleModel ops u) (c : Int) (hc1 : 1 ≤ c) (hc : c < 2 ^ 29) (x y z : ℚ) :
    iabs (@Octa.floatVecRoundG ℚ ops c x y z).1 ≤ c :=
  Octa.octa_round_in_range ops u hu0 hu hm c hc1 hc x y z

/-- exact rational arithmetic: a model with `u = 0` -/
@[reducible] def exactDoubleOps : DoubleOps ℚ where
  abs a := |a|
  add a b := a + b
  mul a b := a * b
  div a b := a / b
  ofInt k := (k : ℚ)
  floorToInt a := ⌊a⌋
  lt a b := decide (a < b)
  zero := 0
  one := 1
  half := 1 / 2

theorem exactDoubleOps_model : Octa.DoubleModel exactDoubleOps 0 :=
  ⟨fun _ => rfl, fun a b => ⟨0, by simp, by show a + b = (a + b) * (1 + 0); ring⟩,
   fun a b => ⟨0, by simp, by show a * b = (a * b) * (1 + 0); ring⟩,
   fun a b _ => ⟨0, by simp, by show a / b = (a / b) * (1 + 0); ring⟩,
   fun _ => rfl, fun _ => rfl, fun _ _ => rfl, rfl, rfl, rfl⟩

/-- non-vacuity: center 7 (4 bits), the vector (1/3, -2/3, 2/3) -/
example : iabs (@Octa.floatVecRoundG ℚ exactDoubleOps 7 (1 / 3) (-2 / 3) (2 / 3)).1 ≤ 7 :=
  octa_round_in_range exactDoubleOps 0 (le_refl _) (by norm_num) exactDoubleOps_model 7 (by decide)
    (by decide) _ _ _

/-- the float oracle hypothesis implies the hypothesis of the round-trip theorems -/
theorem octaEntryOK_of_octaRowOK (q : Nat) (t : OctaT) (ht : Octa.init q = some t) (row : Bytes)
    (h : octaRowOK t row = true) : octaEntryOK t (octaRow t row) = true :=
  octaEntryOK_of_rowOK t (Octa.init_wf ht).1 row h

/-! ## 9. the prediction scheme is a function of geometry and options

  `encodeGeometry` computes the results of `SelectPredictionMethod` itself (`selectPredictionMethod`,
  `Choices.resolved`: speed thresholds, geometry type, attribute types, the position attribute's type and
  quantization, `GetPredictionMethodFromOptions`, the normal encoder's forced schemes, the fallback of every
  mesh scheme to the delta coder in the sequential encoders, the range check of fix 8ef32e0).  Only the
  `double`-driven decisions remain choices: tagged/raw symbol scheme and the rANS table rounding. -/

/-- the whole-stream encoder does not look at `ch.selectPrediction`: two choice records that agree on the
    `double`-driven decisions give the same stream -/
theorem encodeGeometry_ignores_selectPrediction (ch1 ch2 : Choices) (g : Geometry)
    (md : Option GeometryMetadata) (opts : EncOpts)
    (ho : ch1.oracle = ch2.oracle) (ha : ch1.attScheme = ch2.attScheme) (hc : ch1.connScheme = ch2.connScheme) :
    encodeGeometry ch1 g md opts = encodeGeometry ch2 g md opts := by
  unfold encodeGeometry encodeGeometryFull
  rw [resolved_congr ch1 ch2 g opts ho ha hc]

example : encodeGeometry ⟨ProbOracle.exact, fun _ => 0, fun _ => .tagged, .tagged⟩ samplePC none sampleOpts =
    encodeGeometry ⟨ProbOracle.exact, fun _ => -2, fun _ => .tagged, .tagged⟩ samplePC none sampleOpts :=
  encodeGeometry_ignores_selectPrediction _ _ _ _ _ rfl rfl rfl

/-- **The prediction scheme bytes in the stream are the ones the option model computes**, whatever the
    `double`-driven choices: for every attribute of a successfully encoded geometry the encoder type is
    `encoderType a (opts.att i)` and the attribute's value block starts with `schemeBytesOf g opts i a`
    (method byte, transform-type byte) — a function of geometry and options alone.  In particular two runs
    (any choices `ch1`, `ch2`) on equal geometry and options choose equally (C06: no hidden state enters
    the decision). -/
theorem seq_encoder_scheme_is_function_of_options (ch1 ch2 : Choices) (g : Geometry)
    (md : Option GeometryMetadata) (opts : EncOpts) (bs1 bs2 : Bytes) (encs1 encs2 : List AttEnc)
    (h1 : encodeGeometryFull ch1 g md opts = some (bs1, encs1))
    (h2 : encodeGeometryFull ch2 g md opts = some (bs2, encs2))
    (i : Nat) (a : Attribute) (hi : g.atts[i]? = some a) :
    ∃ e1 e2 r1 r2, encs1[i]? = some e1 ∧ encs2[i]? = some e2 ∧
      e1.encType = encoderType a (opts.att i) ∧ e2.encType = encoderType a (opts.att i) ∧
      e1.valueBytes = schemeBytesOf g opts i a ++ r1 ∧ e2.valueBytes = schemeBytesOf g opts i a ++ r2 := by
  obtain ⟨e1, he1, hx1⟩ := encodeAttribute_of_index ch1 g md opts bs1 encs1 h1 i a hi
  obtain ⟨e2, he2, hx2⟩ := encodeAttribute_of_index ch2 g md opts bs2 encs2 h2 i a hi
  obtain ⟨t1, r1, v1⟩ := encodeAttribute_scheme ch1 g opts i a e1 hx1
  obtain ⟨t2, r2, v2⟩ := encodeAttribute_scheme ch2 g opts i a e2 hx2
  exact ⟨e1, e2, r1, r2, he1, he2, t1, t2, v1, v2⟩

/-- non-vacuity on `samplePC`: attribute 1 (int16, default options) gets delta + wrap: bytes 0, 1;
    attribute 0 goes through the generic encoder: no scheme bytes -/
example : schemeBytesOf samplePC sampleOpts 1 (samplePC.atts.getD 1 default) = [0, 1] ∧
    schemeBytesOf samplePC sampleOpts 0 (samplePC.atts.getD 0 default) = [] ∧
    schemeBytesOf samplePC { sampleOpts with atts := [{}, { prediction := some (-2) }] } 1
      (samplePC.atts.getD 1 default) = [254] := by decide +kernel

/-! ## 10. the option store (`DracoModel/Options.lean`; tied to `Options` / `DracoOptions<int>` /
    `EncoderOptions::GetSpeed` by the driver op `options`) -/

open Opt in
/-- `GetInt` returns what the last `SetInt` of that name stored; other names are untouched -/
theorem options_get_set_int (o : Options) (n m : String) (v w d : Int) :
    (o.setInt n v).getInt n d = v ∧ ((o.setInt n v).setInt n w).getInt n d = w ∧
      (n ≠ m → (o.setInt m v).getInt n d = o.getInt n d) ∧ (o.setInt n v).isSet n = true := by
  refine ⟨?_, ?_, ?_, ?_⟩
  · simp [Options.setInt, Options.getInt, find_set_self]
  · simp [Options.setInt, Options.getInt, find_set_self]
  · intro h; simp [Options.setInt, Options.getInt, find_set_other _ _ _ _ h]
  · simp [Options.setInt, Options.isSet, find_set_self]

open Opt in
example : ((({} : Options).setInt "a" 3).setInt "b" 4).getInt "a" 0 = 3 := by decide +kernel

open Opt in
/-- `GetFloat` / `GetVector<float>` return what `SetFloat` / `SetVector` stored (the model's reading of fix
    1b5fb06: `%.9g` text restores the float32 exactly): the first `min(num_dims, stored)` elements overwrite
    the front of the output vector, the rest of it is left alone -/
theorem options_get_set_float (o : Options) (n : String) (b d : Nat) (bs out : List Nat) (k : Nat) :
    (o.setFloat n b).getFloat n d = b ∧
      (o.setFloatVector n bs).getFloatVector n k out = some (bs.take k ++ out.drop (bs.take k).length) ∧
      (o.isSet n = false → o.getFloatVector n k out = none) := by
  refine ⟨?_, ?_, ?_⟩
  · simp [Options.setFloat, Options.getFloat, find_set_self]
  · simp [Options.setFloatVector, Options.getFloatVector, find_set_self]
  · intro h
    unfold Options.isSet at h
    unfold Options.getFloatVector
    cases hf : o.find n with
    | none => rfl
    | some v => rw [hf] at h; simp at h

open Opt in
example : (({} : Options).setFloatVector "quantization_origin" [5, 6]).getFloatVector "quantization_origin" 3 [0, 0, 0]
    = some [5, 6, 0] := by decide +kernel

open Opt in
/-- `GetBool` as written: −1 means "not set" even when it was stored -/
theorem options_get_bool (o : Options) (n : String) (b d : Bool) :
    (o.setBool n b).getBool n d = b ∧ (o.setInt n (-1)).getBool n d = d := by
  constructor
  · cases b <;> simp [Options.setBool, Options.getBool, Options.getInt, find_set_self]
  · simp [Options.setInt, Options.getBool, Options.getInt, find_set_self]

open Opt in
example : (({} : Options).setInt "x" (-1)).getBool "x" true = true := by decide +kernel

open Opt in
/-- `DracoOptions::GetAttributeInt`: the attribute's own option, else the GLOBAL option, else the default;
    but `IsAttributeOptionSet` (as written) does not fall back to the global options once the attribute has
    any option of its own -/
theorem draco_options_attribute_resolution (o : DracoOptions) (key : Nat) (n m : String) (v w d : Int)
    (hnm : n ≠ m) :
    (o.setAttributeInt key n v).getAttributeInt key n d = v ∧
      (o.findAtt key = none → o.getAttributeInt key n d = o.global.getInt n d) ∧
      (o.findAtt key = none →
        ((o.setGlobalInt n w).setAttributeInt key m v).getAttributeInt key n d = w ∧
        ((o.setGlobalInt n w).setAttributeInt key m v).isAttributeOptionSet key n = false ∧
        (o.setGlobalInt n w).isAttributeOptionSet key n = true) := by
  have hfind : ∀ (o' : DracoOptions) (f : Options → Options),
      (o'.modifyAtt key f).findAtt key = some (f ((o'.findAtt key).getD {})) := by
    intro o' f; simp [DracoOptions.modifyAtt, DracoOptions.findAtt]
  refine ⟨?_, ?_, ?_⟩
  · simp only [DracoOptions.setAttributeInt, DracoOptions.getAttributeInt, hfind]
    simp [Options.setInt, Options.isSet, Options.getInt, find_set_self]
  · intro h; simp [DracoOptions.getAttributeInt, h]
  · intro h
    have hg : (o.setGlobalInt n w).findAtt key = none := h
    have hset : (({} : Options).setInt m v).isSet n = false := by
      unfold Options.isSet Options.setInt
      rw [find_set_other _ n m _ hnm]
      rfl
    have hglob : (o.setGlobalInt n w).global.getInt n d = w := by
      simp [DracoOptions.setGlobalInt, Options.setInt, Options.getInt, find_set_self]
    have hglobal' : ((o.setGlobalInt n w).modifyAtt key (·.setInt m v)).global = (o.setGlobalInt n w).global := rfl
    refine ⟨?_, ?_, ?_⟩
    · unfold DracoOptions.setAttributeInt DracoOptions.getAttributeInt
      rw [hfind, hg]
      simp only [Option.getD_none, hset, Bool.false_eq_true, if_false]
      rw [hglobal', hglob]
    · unfold DracoOptions.setAttributeInt DracoOptions.isAttributeOptionSet
      rw [hfind, hg]
      exact hset
    · unfold DracoOptions.isAttributeOptionSet
      rw [hg]
      simp [DracoOptions.setGlobalInt, Options.setInt, Options.isSet, find_set_self]

open Opt in
/-- non-vacuity: global quantization bits reach an attribute that has only a prediction scheme of its own -/
example : ((({} : DracoOptions).setGlobalInt "quantization_bits" 11).setAttributeInt 2 "prediction_scheme" 0).getAttributeInt
    2 "quantization_bits" (-1) = 11 := by decide +kernel

/-! ## the index width classes of the sequential connectivity coder are the source's -/
open Generated in
/-- `MeshSequentialDecoder::DecodeConnectivity`: the decision skeleton of its chain `if (num_points < 256) … else if
    (num_points < (1 << 16)) … else if (num_points < (1 << 21) && bitstream_version() >= 2.2) … else …` (conditions
    translated mechanically from clang's AST of /repo on every run, branch bodies replaced by their ordinal) selects the width
    class of the model's `decodeSeqConnectivity` (`Generated.seqIndexWidth`, `Generated.model_chain_is_seqIndexWidth`) -/
theorem source_seqDecIndexWidth_is_model (ver numPoints : Nat) (hv : ver < 2^16) (hn : numPoints < 2^32) :
    MeshSequentialDecoder.DecodeConnectivity_indexWidth ver numPoints =
      (seqIndexWidth numPoints (decide (ver < bsVersion 2 2)) : Int) :=
  DecodeConnectivity_indexWidth_eq_model ver numPoints hv hn
example : Generated.MeshSequentialDecoder.DecodeConnectivity_indexWidth (514 : Nat) (256 : Nat) = 1 := by
  rw [source_seqDecIndexWidth_is_model _ _ (by decide) (by decide)]; decide

open Generated in
/-- `MeshSequentialEncoder::EncodeConnectivity`: the same for `mesh()->num_points() < 256`, `< (1 << 16)`, `< (1 << 21)` -/
theorem source_seqEncIndexWidth_is_model (numPoints : Nat) (hn : numPoints < 2^31) :
    MeshSequentialEncoder.EncodeConnectivity_indexWidth numPoints = (seqIndexWidth numPoints false : Int) :=
  EncodeConnectivity_indexWidth_eq_model numPoints hn
example : Generated.MeshSequentialEncoder.EncodeConnectivity_indexWidth (65536 : Nat) = 2 := by
  rw [source_seqEncIndexWidth_is_model _ (by decide)]; decide

open Generated in
/-- the size-class branch of `RAnsSymbolEncoder::EncodeTable` (every attribute's symbol table goes through it) -/
theorem source_tableSizeClass_is_model (p : Int) (hp : U32 p) :
    RAnsSymbolEncoder.EncodeTable_sizeClass p = sizeClass p := EncodeTable_sizeClass_eq_model p hp
example : Generated.RAnsSymbolEncoder.EncodeTable_sizeClass 16384 = (none, 2) := by
  rw [source_tableSizeClass_is_model _ (by decide)]; decide

open Generated in
/-- the loop body of `ComputeParallelogramPrediction<CornerTable, int32_t>` (five statements, cut out of the translated
    function by AST position): component `c` of the prediction is `next + prev − opp` formed in `int64_t` and converted to
    `int32_t` (`wrap32`) — what the model's `parallelogramPrediction` pushes — for all `int32_t` data and in-range indices -/
theorem source_parallelogramComponent_is_model (inData : Int → Int) (vn vp vo c : Int)
    (hd : ∀ i, I32 (inData i)) (h1 : I32 (vn + c)) (h2 : I32 (vp + c)) (h3 : I32 (vo + c)) :
    (ComputeParallelogramPrediction_component inData vn c vp vo).2.2.2.2 =
      [(c, wrap32 (inData (vn + c) + inData (vp + c) - inData (vo + c)))] ∧
    (ComputeParallelogramPrediction_component inData vn c vp vo).2.2.2.1 =
      inData (vn + c) + inData (vp + c) - inData (vo + c) :=
  ComputeParallelogramPrediction_component_eq_model inData vn vp vo c hd h1 h2 h3
example : (Generated.ComputeParallelogramPrediction_component (fun i => 2^31 - 1 - i) 0 1 3 6).2.2.2.2 = [(1, -2147483647)] := by
  decide

/-! ## the option-driven choices of the encoders are the source's -/
open Generated in
/-- `SelectPredictionMethod(att_id, options, encoder)` (prediction_scheme_encoder_factory.cc) — translated mechanically from
    clang's AST of /repo on every run with every getter call as an input; control flow and thresholds are the repo's — is the
    model's `SeqEnc.selectPredictionMethod` when the inputs are what the getters return on the model's geometry and options
    (quantization bit counts within ±2^20, far beyond the 30 bits draco accepts) -/
theorem source_selectPredictionMethod_is_model (isMesh : Bool) (o : SeqEnc.EncOpts) (atts : List Attribute)
    (numPoints attId : Nat)
    (hq1 : -2^20 < (o.att attId).quantBits ∧ (o.att attId).quantBits < 2^20)
    (hq2 : ∀ pid, -2^20 < (o.att pid).quantBits ∧ (o.att pid).quantBits < 2^20) :
    SelectPredictionMethod (attId : Int) o.speed (if isMesh then 1 else 0) (o.att attId).quantBits
        ((atts.getD attId default).attType : Int) ((atts.getD attId default).numComponents : Int)
        (SeqEnc.namedAttributeId atts 0).isSome
        (SeqEnc.isIntegralType (atts.getD ((SeqEnc.namedAttributeId atts 0).getD 0) default).dataType)
        (((SeqEnc.namedAttributeId atts 0).getD 0 : Nat) : Int)
        (o.att ((SeqEnc.namedAttributeId atts 0).getD 0)).quantBits (numPoints : Int) =
      SeqEnc.selectPredictionMethod isMesh o atts numPoints attId :=
  SelectPredictionMethod_eq_model isMesh o atts numPoints attId hq1 hq2
example : Generated.SelectPredictionMethod 0 1 1 (-1) 0 3 true false 0 11 50 = 4 := by decide

open Generated in
/-- `MeshEdgebreakerEncoder::InitializeEncoder`: the traversal method selected from `edgebreaker_method`, the speed and
    `num_faces() < 1000` (both Edgebreaker features available) is the one of `EbEnc.traversalCoder` -/
theorem source_traversalMethod_is_model (o : EbEnc.EbOpts) (numFaces : Nat) :
    EbEnc.traversalCoder o numFaces =
      (let m := MeshEdgebreakerEncoder.InitializeEncoder_method true true (decide ((numFaces : Int) < 1000))
                  o.edgebreakerMethod o.base.speed
       if m == 0 then some 0 else if m == 2 then some 2 else none) := InitializeEncoder_method_eq_model o numFaces

open Generated in
/-- `ExpertEncoder::EncodeMeshToBuffer`: the encoding method is the `encoding_method` option when set, otherwise sequential
    exactly at speed 10 and Edgebreaker at every other speed (`Generated.meshEncodingMethod`) -/
theorem source_meshEncodingMethod_is_model (forced speed : Int) :
    ExpertEncoder.EncodeMeshToBuffer_method forced speed = meshEncodingMethod forced speed :=
  EncodeMeshToBuffer_method_eq_model forced speed

end Draco.C01
