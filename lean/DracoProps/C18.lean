import DracoProofs.RobustSuffix
import DracoProofs.RobustBasic
/-
  C18 — decoder memory is bounded by stream length and declared element counts.
-/
namespace Draco.C18
open Draco Draco.Robust

/-- the plausibility guard of `RAnsSymbolDecoder::Create`: an accepted symbol count is at most
    64 * (remaining bytes + 1) -/
theorem num_symbols_guard (n remaining : Nat) (h : ¬ n / 64 > remaining) : n < 64 * (remaining + 1) := by omega

end Draco.C18
