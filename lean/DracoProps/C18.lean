import DracoProofs.RobustAllocWalk
import DracoProofs.SeqStream
import DracoProps.C03
/-
  C18 — decoder memory is bounded by stream length and declared element counts.

  Model: `decodeStreamWith eb kd` / `decodeGeometrySeq` in the instrumented monad `DecM` (DracoModel/DecM.lean, SeqDecoder.lean).
  Every C++ `resize` / `assign` / `new[]` of the sequential decoders whose size depends on the
  stream is an `alloc site bytes` event: attribute id tables, the controller's decoder array, the
  linear sequencer's point ids, `PointAttribute::Reset`, the portable int32 attribute, the face
  array and the index buffer of the sequential mesh decoder, and the tables of
  `RAnsSymbolDecoder::Create` / `rans_build_look_up_table` (`symbolAllocs`). `declare n` records the
  element counts a stream may legitimately use to size arrays: the number of points of a point
  cloud, faces + points of a sequential mesh.  The log is kept on failure, so rejected streams are
  covered.  Not logged: the metadata decoder (its strings are copies of input bytes, see
  `metadata_reader_is_suffix`) and fixed-size objects.

  kd-tree and Edgebreaker decoders are outside the model (`Status.unsupported`); their allocations
  are measured on the implementation by the allocation monitor of the harness (tools/props/C18.py),
  with the same constants.
-/
namespace Draco.C18
open Draco Draco.Robust

/-- constants of the bound: A = 4 MiB (rANS look-up table for 20 precision bits) + 64 KiB, K = 2048
    (an attribute value has at most 255 components of 8 bytes) -/
theorem constants : allocA = 4259840 ∧ allocK = 2048 := by decide

/-- **C18 for the dispatcher with arbitrary body decoders.** For every byte string `bs` (bytes < 256) and
    option set, every allocation event logged by `decodeStreamWith eb kd` on `bs` — accepted or rejected —
    requests at most `A + K * (bs.length + declared)` bytes, provided the Edgebreaker / kd-tree bodies
    `eb`, `kd` keep the allocation invariant (`Tr`: remaining input is a suffix of `bs`, every logged
    event within the bound for what has been declared). -/
theorem alloc_bounded_with (eb kd : DecOpts → DecM Geometry) (opts : DecOpts) (bs : Bytes) (hb : IsBytes bs)
    (heb : Tr bs 0 (eb opts) (fun _ => 0) (fun _ => True)) (hkd : Tr bs 0 (kd opts) (fun _ => 0) (fun _ => True)) :
    ∀ e ∈ (decodeStreamWith eb kd opts { rest := bs }).2.allocs,
      e.2 ≤ 4259840 + 2048 * (bs.length + (decodeStreamWith eb kd opts { rest := bs }).2.declared) :=
  decodeStreamWith_alloc_bounded eb kd opts bs hb heb hkd

/-- **C18 for the sequential decoders (full strength, no further hypothesis).** `decodeGeometrySeq` = the
    complete decoder with the Edgebreaker / kd-tree bodies rejected (sequential point cloud and mesh
    decoders of every bitstream version). -/
theorem alloc_bounded (opts : DecOpts) (bs : Bytes) (hb : IsBytes bs) :
    ∀ e ∈ (decodeGeometrySeq opts { rest := bs }).2.allocs,
      e.2 ≤ 4259840 + 2048 * (bs.length + (decodeGeometrySeq opts { rest := bs }).2.declared) :=
  alloc_bounded_with _ _ opts bs hb tr_failWith tr_failWith

/-- … and therefore for the complete decoder on every stream whose header announces a sequential method -/
theorem alloc_bounded_seq_stream (opts : DecOpts) (bs : Bytes) (hb : IsBytes bs) (hs : IsSeqStream { rest := bs }) :
    ∀ e ∈ (decodeGeometry opts { rest := bs }).2.allocs,
      e.2 ≤ 4259840 + 2048 * (bs.length + (decodeGeometry opts { rest := bs }).2.declared) := by
  rw [decodeGeometry_eq_seq opts _ hs]
  exact alloc_bounded opts bs hb

/-- a stream that declares nothing (rejected before any count is read, or an empty geometry) cannot
    make the sequential decoders request more than `A + K * length` bytes at once -/
theorem alloc_bounded_undeclared (opts : DecOpts) (bs : Bytes) (hb : IsBytes bs)
    (h0 : (decodeGeometrySeq opts { rest := bs }).2.declared = 0) :
    ∀ e ∈ (decodeGeometrySeq opts { rest := bs }).2.allocs, e.2 ≤ 4259840 + 2048 * bs.length := by
  intro e he
  have := alloc_bounded opts bs hb e he
  rw [h0] at this
  exact this

/-- the guard of `RAnsSymbolDecoder::Create` ("num_symbols_ / 64 > remaining_size"): an accepted
    symbol count is below 64 * (remaining + 1), so the two tables it sizes stay within 512 bytes per
    remaining input byte (+ 504) -/
theorem num_symbols_guard (n remaining : Nat) (h : ¬ n / 64 > remaining) :
    n < 64 * (remaining + 1) ∧ 8 * n ≤ 512 * remaining + 504 := by omega

/-- every table of the symbol decoders is within the constant + per-byte part of the bound, for any
    bytes: the count field cannot make `Create` request more -/
theorem symbol_tables_bounded (numValues : Nat) (bs x : Bytes) (hx : x.length ≤ bs.length) :
    ∀ e ∈ symbolAllocs numValues x, e.2 ≤ 4259840 + 2048 * bs.length :=
  symbolAllocs_bound numValues x hx

/-- the metadata reader (like every reader of the model) only moves forward in the input: what it
    returns are copies of input bytes, and the remaining input is a suffix of what it was given -/
theorem metadata_reader_is_suffix (bs : Bytes) (g : GeometryMetadata) (rest : Bytes)
    (h : Leaf.decodeGeometryMetadata bs = some (g, rest)) : rest <:+ bs :=
  leaf_decodeGeometryMetadata_suf bs g rest h

/-! ### non-vacuity -/

example : IsBytes C03.meshStream := by unfold IsBytes C03.meshStream; decide

section
set_option maxRecDepth 8000
open DecM
/-- the log is not empty on a real stream: the 28-byte mesh logs its face array (12 bytes for one
    face) and the other tables, all far below the bound; it declares 1 face + 3 points -/
example : ∃ r s', decodeGeometrySeq {} { rest := C03.meshStream } = (r, s') ∧ s'.declared = 4 ∧
    s'.allocs = [("attribute.Reset", 3), ("linear_sequencer.point_ids", 12), ("controller.sequential_decoders", 8),
      ("attributes_decoder.point_attribute_ids", 4), ("mesh.faces", 12)] := by
  simp +decide [C03.meshStream, decodeGeometrySeq, decodeStreamWith, decodeSequentialAttributesV, decodeHeader, decodeSeqConnectivity, decodePointAttributesSeq,
    decodeSequentialAttributes, decodeAttDescs, bind, DecM.andThen, DecM.version, DecM.setVersion, DecM.varint, DecM.lift,
    decVarint, decVarintAux, varintMaxDepth, bsVersion, DecM.require, DecM.ret, DecM.remaining, DecM.alloc, DecM.declare,
    replicateM', mapM', rdU8, rdU16, rdU32, readU8, readLE, leValue, pure, DecM.bytes, readBytes, dataTypeLength,
    AttDesc.toAttribute, Generated.geometryAttribute_NAMED_ATTRIBUTES_COUNT, Generated.DT_TYPES_COUNT, triples]
end

/-- a count that fails the guard is rejected before anything is allocated: 2^32-1 symbols announced
    by a 6-byte block -/
example : symbolAllocs 3 [1, 5, 0xff, 0xff, 0xff, 0xff, 0x0f, 0] = [] := by decide

/-- a count that passes the guard sizes the tables: 1 symbol, precision 12 bits -/
example : symbolAllocs 3 [0, 1, 0, 0, 0, 0] =
    [("rans_symbol_decoder.probability_table", 4), ("rans_decoder.lut_table", 16384),
     ("rans_decoder.probability_table", 8)] := by decide

end Draco.C18
