import DracoProps.C03
import DracoProofs.EbValid
/-
  C03 — a successfully decoded geometry is structurally valid: the Edgebreaker body decoder
  (staging file of the Edgebreaker slice, to be merged into DracoProps/C03.lean).

  `C03.decode_all_ok_valid_partial` carries the hypothesis
      `heb : ∀ s g s', Eb.decodeEdgebreaker opts s = (some g, s') → g.valid = true`.
  What is proved here about `Eb.decodeEdgebreaker` (DracoModel/EbDecoder.lean — tied token for token to
  `MeshEdgebreakerDecoderImpl` + `MeshSequentialAttributeDecodersController` by tools/props/ebcases.py and
  legacycases.py), for EVERY byte string, entry state (hence every bitstream version 1.1 … 2.2), option set,
  traversal / prediction / symbol scheme — corrupted streams included, no hypothesis on the stream:

    `eb_decode_ok_atts_valid`     every attribute of an accepted stream is valid for the mesh's number of
                                  points: ≥ 1 component, a data type with positive length, the buffer holds
                                  `numValues * stride` bytes, the point → value map has one entry per point and
                                  every entry is < numValues
    `eb_decode_ok_valid`          … and if the geometry has at least one attribute, the faces are in range
                                  too, i.e. `g.valid = true`
    `eb_decode_ok_valid_of_faces` the remaining case (an Edgebreaker mesh with ZERO attribute decoders) with
                                  the face bound as explicit hypothesis
    `decode_all_ok_valid`         the complete decoder `decodeGeometry` (sequential, kd-tree, Edgebreaker):
                                  every attribute valid; `valid` whenever there is an attribute

  WHY the split.  The face bound is not established by the connectivity decoder as such but by a check the
  C++ performs once per attribute decoder: `MeshAttributeIndicesEncodingData`-based
  `UpdatePointToAttributeIndexMapping` walks all corners, rejects a face whose point id is ≥ num_points
  and (since dcc9947) rejects a mapping that leaves a point unassigned; the value index it stores comes from
  `vertex_to_encoded_attribute_value_index_map`, which the traversal fills with indices below the number of
  encoded values (loop invariants `SInv`, `SeqOK` of DracoProofs/EbTraversalInv.lean, established with
  `mvcgen` for the depth-first and the max-prediction-degree traverser); the prediction schemes keep the
  buffer size (DracoProofs/EbPredictSize.lean).  No check was added to the model that the C++ does not have.
  For a mesh without any attribute decoder (never produced by the encoder, accepted by the decoder) none of
  these checks runs; there the bound `face index < num_points` would follow from invariants of the
  connectivity loop and of the vertex compaction (`DecodeConnectivity`, `AssignPointsToCorners`) that are not
  proved — it is the hypothesis of `eb_decode_ok_valid_of_faces`; the implementation side is covered by the
  explicit validity test of tools/props/C03.py (and 16k accepted corruptions of attribute-less streams, none
  invalid, see notes/eb.md).
-/
namespace Draco.C03Eb
open Draco Draco.Robust

/-- **every attribute of an accepted Edgebreaker stream is valid** (all streams, all versions, all options) -/
theorem eb_decode_ok_atts_valid (opts : DecOpts) (s s' : DSt) (g : Geometry)
    (h : Eb.decodeEdgebreaker opts s = (some g, s')) : ∀ a ∈ g.atts, a.valid g.numPoints = true :=
  (Eb.decodeEdgebreaker_post opts s g s' h).1

/-- **C03 for the Edgebreaker body**, geometries with at least one attribute -/
theorem eb_decode_ok_valid (opts : DecOpts) (s s' : DSt) (g : Geometry)
    (h : Eb.decodeEdgebreaker opts s = (some g, s')) (hne : g.atts ≠ []) : g.valid = true :=
  (Eb.decodeEdgebreaker_post opts s g s' h).2 hne

/-- … and for attribute-less ones with the face bound as hypothesis -/
theorem eb_decode_ok_valid_of_faces (opts : DecOpts) (s s' : DSt) (g : Geometry)
    (h : Eb.decodeEdgebreaker opts s = (some g, s'))
    (hf : ∀ f ∈ g.faces, f.1 < g.numPoints ∧ f.2.1 < g.numPoints ∧ f.2.2 < g.numPoints) : g.valid = true := by
  simp only [Geometry.valid, Bool.and_eq_true, List.all_eq_true, decide_eq_true_eq]
  refine ⟨fun f hm => ?_, eb_decode_ok_atts_valid opts s s' g h⟩
  obtain ⟨a, b, c⟩ := f
  have := hf (a, b, c) hm
  simp only at this ⊢
  exact ⟨⟨this.1, this.2.1⟩, this.2.2⟩

/-- what is proved of every geometry the complete decoder returns -/
def ValidUpToFaces (g : Geometry) : Prop :=
  (∀ a ∈ g.atts, a.valid g.numPoints = true) ∧ (g.atts ≠ [] → g.valid = true)

theorem validUpToFaces_of_valid {g : Geometry} (h : g.valid = true) : ValidUpToFaces g := by
  refine ⟨?_, fun _ => h⟩
  simp only [Geometry.valid, Bool.and_eq_true, List.all_eq_true] at h
  exact h.2

/-- the dispatcher with a weaker postcondition for the Edgebreaker body -/
theorem decodeStreamWith_post_upToFaces (eb kd : DecOpts → DecM Geometry) (opts : DecOpts)
    (heb : Post (eb opts) ValidUpToFaces) (hkd : Post (kd opts) (fun g => g.valid = true)) :
    Post (decodeStreamWith eb kd opts) (fun r => ValidUpToFaces r.geometry) := by
  unfold decodeStreamWith
  apply post_bind_any; intro h
  apply post_bind_any; intro _
  extract_lets isMesh maxMajor maxMinor ver jpM
  apply post_bind_any; intro _
  apply post_ite <;> intro _
  · exact post_failWith
  apply post_ite <;> intro _
  · exact post_failWith
  apply post_bind_any; intro _
  have hjpM : ∀ md, Post (jpM md) (fun r => ValidUpToFaces r.geometry) := by
    intro md
    simp -zeta only [jpM]
    apply post_ite <;> intro _
    · exact post_bind heb (fun g hg => post_pure hg)
    apply post_ite <;> intro _
    · exact post_bind hkd (fun g hg => post_pure (validUpToFaces_of_valid hg))
    apply post_ite <;> intro _
    · refine post_bind decodeSeqConnectivity_post (fun r hr => ?_)
      obtain ⟨np, faces⟩ := r
      refine post_bind (decodePointAttributesSeq_post opts np) (fun atts ha => ?_)
      apply post_pure
      apply validUpToFaces_of_valid
      simp only [Geometry.valid, Bool.and_eq_true, List.all_eq_true, decide_eq_true_eq]
      refine ⟨fun f hf => ?_, ha⟩
      obtain ⟨a, b, c⟩ := f
      have := hr (a, b, c) hf
      simp only at this ⊢
      exact ⟨⟨this.1, this.2.1⟩, this.2.2⟩
    · apply post_bind_any; intro np
      extract_lets numPoints
      apply post_bind_any; intro _
      refine post_bind (decodePointAttributesSeq_post opts numPoints) (fun atts ha => ?_)
      apply post_pure
      apply validUpToFaces_of_valid
      simp only [Geometry.valid, Bool.and_eq_true, List.all_eq_true]
      exact ⟨by simp, ha⟩
  apply post_ite <;> intro _ <;> apply post_bind_any <;> intro md <;> exact hjpM md

/-- **C03 for the complete decoder** (`Decoder::DecodeBufferToGeometry`: sequential, kd-tree and Edgebreaker
    bodies, bitstreams 1.1 … 2.3, any option set), no hypothesis on the stream: every attribute of an accepted
    stream is valid, and the geometry is valid whenever it has an attribute. -/
theorem decode_all_ok_valid (opts : DecOpts) (s s' : DSt) (r : DecodeResult)
    (h : decodeGeometry opts s = (some r, s')) :
    (∀ a ∈ r.geometry.atts, a.valid r.geometry.numPoints = true) ∧
    (r.geometry.atts ≠ [] → r.geometry.valid = true) :=
  decodeStreamWith_post_upToFaces _ _ opts (Eb.decodeEdgebreaker_post opts)
    (fun s g s' hk => Kd.decodeKdGeometry_valid opts s s' g hk) s r s' h

/-- … hence the accessor bounds of `C03.valid_accessors_in_bounds` -/
theorem decode_all_ok_accessors (opts : DecOpts) (s s' : DSt) (r : DecodeResult)
    (h : decodeGeometry opts s = (some r, s')) (hne : r.geometry.atts ≠ []) :
    (∀ f ∈ r.geometry.faces, f.1 < r.geometry.numPoints ∧ f.2.1 < r.geometry.numPoints ∧
      f.2.2 < r.geometry.numPoints) ∧
    (∀ a ∈ r.geometry.atts, ∀ p, p < r.geometry.numPoints →
      C03.mappedIndex a p < a.numValues ∧ (C03.mappedIndex a p + 1) * a.stride ≤ a.values.length) :=
  C03.valid_accessors_in_bounds _ ((decode_all_ok_valid opts s s' r h).2 hne)

/-! ### non-vacuity -/

/-- 70-byte Edgebreaker mesh (bitstream 2.2, standard traversal): one triangle, one float32 position
    attribute without quantization (`enc expert=1 method=1 -- mesh 3 1 0,1,2 …` of the harness) -/
def triStream : Bytes := [68, 82, 65, 67, 79, 2, 2, 1, 1, 0, 0, 0, 3, 1, 0, 1, 0, 0, 1, 7, 255, 1, 17, 1, 255, 0, 0,
  1, 0, 9, 3, 0, 0, 0, 0, 0, 128, 63, 0, 0, 0, 0, 0, 0, 0, 0, 0, 0, 0, 0, 0, 0, 128, 63, 0, 0, 0, 0, 0, 0, 0, 0, 0, 0,
  0, 0, 0, 0, 0, 0]

/-- the hypotheses of `decode_all_ok_valid` / `decode_all_ok_accessors` are satisfiable by an Edgebreaker
    stream: it is accepted, with one attribute and the face (0, 1, 2) -/
theorem triStream_accepted :
    (decodeGeometry {} { rest := triStream }).1.map
      (fun r => (r.geometry.atts.length, r.geometry.faces, r.geometry.numPoints)) = some (1, [(0, 1, 2)], 3) := by
  decide +kernel

example : ∃ r s', decodeGeometry {} { rest := triStream } = (some r, s') ∧ r.geometry.atts ≠ [] ∧
    r.geometry.valid = true := by
  have h := triStream_accepted
  cases hd : decodeGeometry {} { rest := triStream } with
  | mk o s' =>
    rw [hd] at h
    cases o with
    | none => simp at h
    | some r =>
      simp only [Option.map_some, Option.some.injEq, Prod.mk.injEq] at h
      have hne : r.geometry.atts ≠ [] := by
        intro e; rw [e] at h; simp at h
      exact ⟨r, s', rfl, hne, (decode_all_ok_valid {} _ s' r hd).2 hne⟩

/-- the body decoder on the same stream after the header (11 bytes) -/
example : ∃ g s', Eb.decodeEdgebreaker {} { rest := triStream.drop 11, version := bsVersion 2 2 } = (some g, s') := by
  have h : (Eb.decodeEdgebreaker {} { rest := triStream.drop 11, version := bsVersion 2 2 }).1.isSome = true := by
    decide +kernel
  cases hd : Eb.decodeEdgebreaker {} { rest := triStream.drop 11, version := bsVersion 2 2 } with
  | mk o s' =>
    rw [hd] at h
    cases o with
    | none => simp at h
    | some g => exact ⟨g, s', rfl⟩

end Draco.C03Eb
