import DracoModel.SeqDecoder
/- C06 — determinism (first stage; extended below) -/
namespace Draco.C06
open Draco

/-- decoding in the model is a function of the bytes and the decoder options -/
theorem decode_is_a_function (opts : DecOpts) (bs₁ bs₂ : Bytes) (h : bs₁ = bs₂) :
    decodeGeometry opts { rest := bs₁ } = decodeGeometry opts { rest := bs₂ } := by rw [h]

end Draco.C06
