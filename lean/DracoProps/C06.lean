import DracoModel.SeqDecoder
import DracoModel.Decoder
import DracoProofs.TrailingBytes
/-
  C06 — encoding and decoding are deterministic functions of their inputs.   (PARTIAL)

  What is logic and is proved here:
  * the decoder model is a function (trivial by construction);
  * the persistent state of the API objects (`Encoder`, `ExpertEncoder`: options container + result
    counters) as a small state machine: the output of the n-th encode call is a function of the setter
    calls made so far and of the geometry, independent of earlier encode calls — under the abstraction
    that the encoder core is a function of (options, geometry), which is how encode.cc / expert_encode.cc
    are written (a fresh PointCloudEncoder / MeshEncoder per call, options passed by const reference).
    The counters are modelled as written: `Encoder::EncodePointCloudToBuffer` never updates them, so
    they DO depend on history (`encoder_counts_depend_on_history`);
  * bytes that follow the stream: `DecM` computations built from readers that only look at what they
    consume are unaffected by appended bytes (`Stable`), instances for the header and the attribute
    descriptors; `remaining_size()` is the one primitive that is not stable, guards on it are monotone.

  What is NOT logic: that the compiled C++ has no dependence on uninitialised memory, container
  iteration order, addresses or state left in reused objects. That is observed by tools/props/C06.py
  (reused objects, repeated runs, trailing bytes, process perturbation, valgrind), not proved.
-/
namespace Draco.C06
open Draco DecM

/-- decoding in the model is a function of the bytes and the decoder options -/
theorem decode_is_a_function (opts : DecOpts) (bs₁ bs₂ : Bytes) (h : bs₁ = bs₂) :
    decodeGeometry opts { rest := bs₁ } = decodeGeometry opts { rest := bs₂ } := by rw [h]

/-! ## API objects as a state machine -/

/-- a call on an encoder object. `Opts`: the options container (`EncoderOptionsBase`: global options,
    per-attribute options, feature options); `Geom`: the geometry passed to / bound to the encoder -/
inductive Call (Opts Geom : Type) where
  /-- any setter (`SetSpeedOptions`, `SetAttributeQuantization`, `SetEncodingMethod`, `Reset(options)`, …) -/
  | set (f : Opts → Opts)
  /-- `Encode*ToBuffer(g, &buffer)` into an empty buffer -/
  | encode (g : Geom)

/-- persistent members of `EncoderBase` -/
structure ApiState (Opts : Type) where
  options : Opts
  numEncodedPoints : Nat := 0
  numEncodedFaces : Nat := 0

/-- result of the encoder core: `none` = non-ok `Status` -/
structure EncResult where
  bytes : Option Bytes
  points : Nat
  faces : Nat

/-- the stateless encoder core: a fresh `PointCloudEncoder` / `MeshEncoder` is constructed per call and
    reads the options through a const reference -/
abbrev Core (Opts Geom : Type) := Opts → Geom → EncResult

/-- `ExpertEncoder`: `EncodeToBuffer` copies the counters after a successful encode
    (`DRACO_RETURN_IF_ERROR` returns before `set_num_encoded_points` otherwise) -/
def expertStep {Opts Geom} (core : Core Opts Geom) (st : ApiState Opts) :
    Call Opts Geom → ApiState Opts × Option (Option Bytes)
  | .set f => ({ st with options := f st.options }, none)
  | .encode g =>
    let r := core st.options g
    (if r.bytes.isSome then { st with numEncodedPoints := r.points, numEncodedFaces := r.faces } else st,
     some r.bytes)

/-- `Encoder` (per attribute *type* options): every encode builds a new `ExpertEncoder` with
    `CreateExpertEncoderOptions(geometry)`; `EncodeMeshToBuffer` copies the counters back,
    `EncodePointCloudToBuffer` returns `encoder.EncodeToBuffer(out_buffer)` and leaves them alone -/
structure EncoderApi (TOpts Opts Geom : Type) where
  convert : TOpts → Geom → Opts
  isMesh : Geom → Bool

def encoderStep {TOpts Opts Geom} (api : EncoderApi TOpts Opts Geom) (core : Core Opts Geom)
    (st : ApiState TOpts) : Call TOpts Geom → ApiState TOpts × Option (Option Bytes)
  | .set f => ({ st with options := f st.options }, none)
  | .encode g =>
    let r := core (api.convert st.options g) g
    (if api.isMesh g && r.bytes.isSome then { st with numEncodedPoints := r.points, numEncodedFaces := r.faces }
     else st,
     some r.bytes)

/-- run a history of calls -/
def runCalls {O G} (step : ApiState O → Call O G → ApiState O × Option (Option Bytes)) :
    ApiState O → List (Call O G) → ApiState O
  | st, [] => st
  | st, c :: cs => runCalls step (step st c).1 cs

/-- the options container after a history: only the setters count -/
def applySetters {O G} : O → List (Call O G) → O
  | o, [] => o
  | o, .set f :: cs => applySetters (f o) cs
  | o, .encode _ :: cs => applySetters o cs

/-- the setter calls of a history (what the harness gives to the fresh reference encoder) -/
def settersOnly {O G} : List (Call O G) → List (Call O G)
  | [] => []
  | .set f :: cs => .set f :: settersOnly cs
  | .encode _ :: cs => settersOnly cs

theorem applySetters_settersOnly {O G} (o : O) (h : List (Call O G)) :
    applySetters o (settersOnly h) = applySetters o h := by
  induction h generalizing o with
  | nil => rfl
  | cons c cs ih => cases c <;> simp [settersOnly, applySetters, ih]

theorem expert_options_after {O G} (core : Core O G) (st : ApiState O) (h : List (Call O G)) :
    (runCalls (expertStep core) st h).options = applySetters st.options h := by
  induction h generalizing st with
  | nil => rfl
  | cons c cs ih =>
    cases c with
    | set f => simp [runCalls, expertStep, applySetters, ih]
    | encode g =>
      simp only [runCalls, expertStep, applySetters, ih]
      split <;> rfl

theorem encoder_options_after {T O G} (api : EncoderApi T O G) (core : Core O G) (st : ApiState T)
    (h : List (Call T G)) :
    (runCalls (encoderStep api core) st h).options = applySetters st.options h := by
  induction h generalizing st with
  | nil => rfl
  | cons c cs ih =>
    cases c with
    | set f => simp [runCalls, encoderStep, applySetters, ih]
    | encode g =>
      simp only [runCalls, encoderStep, applySetters, ih]
      split <;> rfl

/-- `ExpertEncoder`: the bytes (and status) returned by an encode call after ANY history of setter and encode
    calls are the core's result on (the options produced by the setters alone, the geometry): two objects
    whose setter histories produce the same options return the same bytes, whatever they encoded before and
    whatever their counters hold. -/
theorem expert_encoder_state_irrelevant {O G} (core : Core O G) (st₁ st₂ : ApiState O)
    (h₁ h₂ : List (Call O G)) (g : G)
    (hopts : applySetters st₁.options h₁ = applySetters st₂.options h₂) :
    (expertStep core (runCalls (expertStep core) st₁ h₁) (.encode g)).2 =
    (expertStep core (runCalls (expertStep core) st₂ h₂) (.encode g)).2 := by
  simp only [expertStep, expert_options_after, hopts]

/-- the harness's comparison: a reused object that went through `h` (setters interleaved with encodes)
    against a fresh object that received only the setters of `h` -/
theorem expert_reused_eq_fresh {O G} (core : Core O G) (st : ApiState O) (h : List (Call O G)) (g : G) :
    (expertStep core (runCalls (expertStep core) st h) (.encode g)).2 =
    (expertStep core (runCalls (expertStep core) st (settersOnly h)) (.encode g)).2 :=
  expert_encoder_state_irrelevant core st st h (settersOnly h) g (applySetters_settersOnly _ _).symm

/-- `Encoder`: the same for the per-type API -/
theorem encoder_state_irrelevant {T O G} (api : EncoderApi T O G) (core : Core O G) (st₁ st₂ : ApiState T)
    (h₁ h₂ : List (Call T G)) (g : G)
    (hopts : applySetters st₁.options h₁ = applySetters st₂.options h₂) :
    (encoderStep api core (runCalls (encoderStep api core) st₁ h₁) (.encode g)).2 =
    (encoderStep api core (runCalls (encoderStep api core) st₂ h₂) (.encode g)).2 := by
  simp only [encoderStep, encoder_options_after, hopts]

theorem encoder_reused_eq_fresh {T O G} (api : EncoderApi T O G) (core : Core O G) (st : ApiState T)
    (h : List (Call T G)) (g : G) :
    (encoderStep api core (runCalls (encoderStep api core) st h) (.encode g)).2 =
    (encoderStep api core (runCalls (encoderStep api core) st (settersOnly h)) (.encode g)).2 :=
  encoder_state_irrelevant api core st st h (settersOnly h) g (applySetters_settersOnly _ _).symm

/-- `ExpertEncoder`: after a SUCCESSFUL encode the counters too are a function of setters and geometry -/
theorem expert_counts_after_success {O G} (core : Core O G) (st₁ st₂ : ApiState O)
    (h₁ h₂ : List (Call O G)) (g : G)
    (hopts : applySetters st₁.options h₁ = applySetters st₂.options h₂)
    (hok : (core (applySetters st₁.options h₁) g).bytes.isSome = true) :
    let a := (expertStep core (runCalls (expertStep core) st₁ h₁) (.encode g)).1
    let b := (expertStep core (runCalls (expertStep core) st₂ h₂) (.encode g)).1
    a.numEncodedPoints = b.numEncodedPoints ∧ a.numEncodedFaces = b.numEncodedFaces := by
  have hok2 : (core (applySetters st₂.options h₂) g).bytes.isSome = true := by rw [← hopts]; exact hok
  simp only [expertStep, expert_options_after, hok2, if_true, hopts, and_self]

/-- a toy instance for the non-vacuity examples: options = a speed, geometry = (is mesh, size) -/
def toyCore : Core Nat (Bool × Nat) := fun speed g => ⟨some [speed, g.2], g.2, if g.1 then g.2 / 3 else 0⟩
def toyApi : EncoderApi Nat Nat (Bool × Nat) := ⟨fun o _ => o, fun g => g.1⟩

-- non-vacuity: a history with two encodes and a speed change vs. the setters alone
example :
    (expertStep toyCore (runCalls (expertStep toyCore) { options := 5 }
        [.encode (true, 9), .set (fun _ => 10), .encode (true, 30)]) (.encode (true, 12))).2
    = some (some [10, 12]) := by decide

/-- The counters of `draco::Encoder` are NOT a function of setters and geometry: after a point cloud encode
    `num_encoded_points()` is whatever an earlier mesh encode left there (faithful to encode.cc, where
    `EncodePointCloudToBuffer` does not call `set_num_encoded_points`). Same setters (none), same final call,
    different counters. -/
theorem encoder_counts_depend_on_history :
    (encoderStep toyApi toyCore (runCalls (encoderStep toyApi toyCore) { options := 5 }
        [.encode (true, 30)]) (.encode (false, 7))).1.numEncodedPoints = 30 ∧
    (encoderStep toyApi toyCore (runCalls (encoderStep toyApi toyCore) { options := 5 }
        []) (.encode (false, 7))).1.numEncodedPoints = 0 := by decide

/-! ### Decoder object -/

/-- a call on a `draco::Decoder`: `SetSkipAttributeTransform(type)` or a decode of the given bytes -/
inductive DCall where
  | setSkip (attType : Nat)
  | decode (bs : Bytes)

/-- persistent state of `draco::Decoder`: its `DecoderOptions` (skip flags per attribute type).
    `Decode*FromBuffer` creates a fresh PointCloudDecoder / MeshDecoder and passes the options by const reference. -/
def decoderStep (st : DecOpts) : DCall → DecOpts × Option (Option DecodeResult × Status)
  | .setSkip t => ({ st with skip := t :: st.skip }, none)
  | .decode bs => (st, some ((decodeGeometry st { rest := bs }).1, (decodeGeometry st { rest := bs }).2.status))

def runDCalls : DecOpts → List DCall → DecOpts
  | st, [] => st
  | st, c :: cs => runDCalls (decoderStep st c).1 cs

def skipsOf : List DCall → List Nat
  | [] => []
  | .setSkip t :: cs => skipsOf cs ++ [t]
  | .decode _ :: cs => skipsOf cs

theorem decoder_options_after (st : DecOpts) (h : List DCall) :
    (runDCalls st h).skip = skipsOf h ++ st.skip := by
  induction h generalizing st with
  | nil => rfl
  | cons c cs ih => cases c <;> simp [runDCalls, decoderStep, skipsOf, ih]

/-- the result of a decode call on a `Decoder` object with any history of earlier decode calls is the
    result of the decoder function on (skip flags set so far, bytes) -/
theorem decoder_state_irrelevant (st₁ st₂ : DecOpts) (h₁ h₂ : List DCall) (bs : Bytes)
    (hopts : skipsOf h₁ ++ st₁.skip = skipsOf h₂ ++ st₂.skip) :
    (decoderStep (runDCalls st₁ h₁) (.decode bs)).2 = (decoderStep (runDCalls st₂ h₂) (.decode bs)).2 := by
  have e : runDCalls st₁ h₁ = runDCalls st₂ h₂ := by
    have a := decoder_options_after st₁ h₁
    have b := decoder_options_after st₂ h₂
    cases h1 : runDCalls st₁ h₁; cases h2 : runDCalls st₂ h₂
    simp only [h1, h2] at a b
    simp only [DecOpts.mk.injEq]
    rw [a, b, hopts]
  simp only [decoderStep, e]

-- non-vacuity: two decodes of other streams before, none on the other object
example : (decoderStep (runDCalls {} [.decode [1, 2], .setSkip 0, .decode [68, 82]]) (.decode [68])).2 =
    (decoderStep (runDCalls {} [.setSkip 0]) (.decode [68])).2 :=
  decoder_state_irrelevant {} {} _ _ _ rfl

/-! ## Bytes after the end of the stream -/

/-- header: a successful `DecodeHeader` is unaffected by appended bytes (and leaves them unread) -/
theorem trailing_bytes_stable_header : Stable decodeHeader := by
  unfold decodeHeader
  repeat stable_step

/-- attribute descriptors (`AttributesDecoder::DecodeAttributesDecoderData`), including its
    `num_attributes <= 5 * remaining_size()` sanity check, which is monotone in the remaining size -/
theorem trailing_bytes_stable_att_descs : Stable decodeAttDescs := by
  unfold decodeAttDescs
  apply stable_bind stable_version
  intro ver
  dsimp only
  split <;>
  · apply stable_bind (by first | exact stable_rdU32 | exact stable_varint _)
    intro n
    apply stable_bind (stable_require _)
    intro _
    refine stable_remaining_guard (fun rem => decide (n ≤ 5 * rem)) ?_ ?_
    · intro r r' hr h
      simp only [decide_eq_true_eq] at h ⊢
      omega
    · repeat stable_step

/-- what stability gives for the observable of the harness: with `extra` appended, the same value is
    decoded and exactly `extra` more bytes remain (`remaining_size()` grows by `extra.length`) -/
theorem stable_remaining_size {α} {m : DecM α} (hm : Stable m) (s s' : DSt) (a : α) (extra : Bytes)
    (h : m s = (some a, s')) :
    (m (s.append extra)).1 = some a ∧ (m (s.append extra)).2.rest.length = s'.rest.length + extra.length := by
  have := (stable_def m).mp hm s a s' extra h
  rw [this]
  simp [DSt.append]

-- non-vacuity: a concrete header followed by anything
example : (decodeHeader { rest := [68, 82, 65, 67, 79, 2, 2, 1, 0, 0, 0] ++ [9, 9, 9] }).1 =
    some ⟨2, 2, 1, 0, 0⟩ ∧
    (decodeHeader { rest := [68, 82, 65, 67, 79, 2, 2, 1, 0, 0, 0] ++ [9, 9, 9] }).2.rest.length = 0 + 3 :=
  stable_remaining_size trailing_bytes_stable_header { rest := [68, 82, 65, 67, 79, 2, 2, 1, 0, 0, 0] }
    { rest := [] } ⟨2, 2, 1, 0, 0⟩ [9, 9, 9] rfl

/-- `remaining_size()` is the primitive through which trailing bytes can be seen at all -/
theorem remaining_is_not_stable : ¬ Stable remaining := remaining_not_stable

end Draco.C06
