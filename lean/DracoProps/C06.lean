import DracoModel.SeqDecoder
import DracoModel.Decoder
import DracoProofs.TrailingBytes
import DracoProofs.TrailingBytesSymbols
import DracoProps.C01
import DracoProps.C01Kd
import DracoProofs.GeneratedOpts
/-
  C06 — encoding and decoding are deterministic functions of their inputs.   (PARTIAL)

  What is logic and is proved here:
  * the decoder model is a function (trivial by construction);
  * the persistent state of the API objects (`Encoder`, `ExpertEncoder`: options container + result
    counters) as a small state machine: the output of the n-th encode call is a function of the setter
    calls made so far and of the geometry, independent of earlier encode calls — under the abstraction
    that the encoder core is a function of (options, geometry), which is how encode.cc / expert_encode.cc
    are written (a fresh PointCloudEncoder / MeshEncoder per call, options passed by const reference).
    The result counters are modelled as written: since /repo 85f04a5 every successful encode of either
    API object sets them (`encoder_counts_after_success`: history independent); the code before that fix is
    kept as `encoderStepPreFix`, where `EncodePointCloudToBuffer` left them alone and they DID depend on
    history (`prefix_encoder_counts_depend_on_history`);
  * bytes that follow the stream: for streams PRODUCED BY THE ENCODER MODEL the decode result is independent of
    appended bytes and exactly the stream is consumed (`encoded_stream_trailing_bytes_ignored_seq`, `_kd`:
    corollaries of the C01 round-trip theorems, which are stated in `++ extra` form). For ARBITRARY accepted
    byte strings: `DecM` computations built from readers that only look at what they consume are unaffected
    by appended bytes (`Stable`; header, attribute descriptors, raw-coded symbol sections);
    `remaining_size()` is the one byte-level primitive that is not stable (guards on it are monotone), and
    bit-mode reads are stable exactly while they stay inside the buffer — past the end they yield zeros
    (`bit_read_past_end_not_stable`), which is where "appended bytes never change an accepted decode" fails.

  What is NOT logic: that the compiled C++ has no dependence on uninitialised memory, container
  iteration order, addresses or state left in reused objects. That is observed by tools/props/C06.py
  (reused objects, repeated runs, trailing bytes, process perturbation, valgrind), not proved.
-/
namespace Draco.C06
open Draco DecM

/-- decoding in the model is a function of the bytes and the decoder options -/
theorem decode_is_a_function (opts : DecOpts) (bs₁ bs₂ : Bytes) (h : bs₁ = bs₂) :
    decodeGeometry opts { rest := bs₁ } = decodeGeometry opts { rest := bs₂ } := by rw [h]

/-! ## API objects as a state machine -/

/-- a call on an encoder object. `Opts`: the options container (`EncoderOptionsBase`: global options,
    per-attribute options, feature options); `Geom`: the geometry passed to / bound to the encoder -/
inductive Call (Opts Geom : Type) where
  /-- any setter (`SetSpeedOptions`, `SetAttributeQuantization`, `SetEncodingMethod`, `Reset(options)`, …) -/
  | set (f : Opts → Opts)
  /-- `Encode*ToBuffer(g, &buffer)` into an empty buffer -/
  | encode (g : Geom)

/-- persistent members of `EncoderBase` -/
structure ApiState (Opts : Type) where
  options : Opts
  numEncodedPoints : Nat := 0
  numEncodedFaces : Nat := 0

/-- result of the encoder core: `none` = non-ok `Status` -/
structure EncResult where
  bytes : Option Bytes
  points : Nat
  faces : Nat

/-- the stateless encoder core: a fresh `PointCloudEncoder` / `MeshEncoder` is constructed per call and
    reads the options through a const reference -/
abbrev Core (Opts Geom : Type) := Opts → Geom → EncResult

/-- `ExpertEncoder`: `EncodeToBuffer` copies the counters after a successful encode
    (`DRACO_RETURN_IF_ERROR` returns before `set_num_encoded_points` otherwise) -/
def expertStep {Opts Geom} (core : Core Opts Geom) (st : ApiState Opts) :
    Call Opts Geom → ApiState Opts × Option (Option Bytes)
  | .set f => ({ st with options := f st.options }, none)
  | .encode g =>
    let r := core st.options g
    (if r.bytes.isSome then { st with numEncodedPoints := r.points, numEncodedFaces := r.faces } else st,
     some r.bytes)

/-- `Encoder` (per attribute *type* options): every encode builds a new `ExpertEncoder` with
    `CreateExpertEncoderOptions(geometry)`. Since /repo 85f04a5 both `EncodeMeshToBuffer` and
    `EncodePointCloudToBuffer` are `DRACO_RETURN_IF_ERROR(encoder.EncodeToBuffer(out_buffer));
    set_num_encoded_points(...); set_num_encoded_faces(...)`: the counters are set by every successful encode. -/
structure EncoderApi (TOpts Opts Geom : Type) where
  convert : TOpts → Geom → Opts
  isMesh : Geom → Bool

def encoderStep {TOpts Opts Geom} (api : EncoderApi TOpts Opts Geom) (core : Core Opts Geom)
    (st : ApiState TOpts) : Call TOpts Geom → ApiState TOpts × Option (Option Bytes)
  | .set f => ({ st with options := f st.options }, none)
  | .encode g =>
    let r := core (api.convert st.options g) g
    (if r.bytes.isSome then { st with numEncodedPoints := r.points, numEncodedFaces := r.faces } else st,
     some r.bytes)

/-- `Encoder` BEFORE /repo 85f04a5: `EncodeMeshToBuffer` copied the counters back,
    `EncodePointCloudToBuffer` was `return encoder.EncodeToBuffer(out_buffer);` and left them alone -/
def encoderStepPreFix {TOpts Opts Geom} (api : EncoderApi TOpts Opts Geom) (core : Core Opts Geom)
    (st : ApiState TOpts) : Call TOpts Geom → ApiState TOpts × Option (Option Bytes)
  | .set f => ({ st with options := f st.options }, none)
  | .encode g =>
    let r := core (api.convert st.options g) g
    (if api.isMesh g && r.bytes.isSome then { st with numEncodedPoints := r.points, numEncodedFaces := r.faces }
     else st,
     some r.bytes)

/-- run a history of calls -/
def runCalls {O G} (step : ApiState O → Call O G → ApiState O × Option (Option Bytes)) :
    ApiState O → List (Call O G) → ApiState O
  | st, [] => st
  | st, c :: cs => runCalls step (step st c).1 cs

/-- the options container after a history: only the setters count -/
def applySetters {O G} : O → List (Call O G) → O
  | o, [] => o
  | o, .set f :: cs => applySetters (f o) cs
  | o, .encode _ :: cs => applySetters o cs

/-- the setter calls of a history (what the harness gives to the fresh reference encoder) -/
def settersOnly {O G} : List (Call O G) → List (Call O G)
  | [] => []
  | .set f :: cs => .set f :: settersOnly cs
  | .encode _ :: cs => settersOnly cs

theorem applySetters_settersOnly {O G} (o : O) (h : List (Call O G)) :
    applySetters o (settersOnly h) = applySetters o h := by
  induction h generalizing o with
  | nil => rfl
  | cons c cs ih => cases c <;> simp [settersOnly, applySetters, ih]

theorem expert_options_after {O G} (core : Core O G) (st : ApiState O) (h : List (Call O G)) :
    (runCalls (expertStep core) st h).options = applySetters st.options h := by
  induction h generalizing st with
  | nil => rfl
  | cons c cs ih =>
    cases c with
    | set f => simp [runCalls, expertStep, applySetters, ih]
    | encode g =>
      simp only [runCalls, expertStep, applySetters, ih]
      split <;> rfl

theorem encoder_options_after {T O G} (api : EncoderApi T O G) (core : Core O G) (st : ApiState T)
    (h : List (Call T G)) :
    (runCalls (encoderStep api core) st h).options = applySetters st.options h := by
  induction h generalizing st with
  | nil => rfl
  | cons c cs ih =>
    cases c with
    | set f => simp [runCalls, encoderStep, applySetters, ih]
    | encode g =>
      simp only [runCalls, encoderStep, applySetters, ih]
      split <;> rfl

/-- `ExpertEncoder`: the bytes (and status) returned by an encode call after ANY history of setter and encode
    calls are the core's result on (the options produced by the setters alone, the geometry): two objects
    whose setter histories produce the same options return the same bytes, whatever they encoded before and
    whatever their counters hold. -/
theorem expert_encoder_state_irrelevant {O G} (core : Core O G) (st₁ st₂ : ApiState O)
    (h₁ h₂ : List (Call O G)) (g : G)
    (hopts : applySetters st₁.options h₁ = applySetters st₂.options h₂) :
    (expertStep core (runCalls (expertStep core) st₁ h₁) (.encode g)).2 =
    (expertStep core (runCalls (expertStep core) st₂ h₂) (.encode g)).2 := by
  simp only [expertStep, expert_options_after, hopts]

/-- the harness's comparison: a reused object that went through `h` (setters interleaved with encodes)
    against a fresh object that received only the setters of `h` -/
theorem expert_reused_eq_fresh {O G} (core : Core O G) (st : ApiState O) (h : List (Call O G)) (g : G) :
    (expertStep core (runCalls (expertStep core) st h) (.encode g)).2 =
    (expertStep core (runCalls (expertStep core) st (settersOnly h)) (.encode g)).2 :=
  expert_encoder_state_irrelevant core st st h (settersOnly h) g (applySetters_settersOnly _ _).symm

/-- `Encoder`: the same for the per-type API -/
theorem encoder_state_irrelevant {T O G} (api : EncoderApi T O G) (core : Core O G) (st₁ st₂ : ApiState T)
    (h₁ h₂ : List (Call T G)) (g : G)
    (hopts : applySetters st₁.options h₁ = applySetters st₂.options h₂) :
    (encoderStep api core (runCalls (encoderStep api core) st₁ h₁) (.encode g)).2 =
    (encoderStep api core (runCalls (encoderStep api core) st₂ h₂) (.encode g)).2 := by
  simp only [encoderStep, encoder_options_after, hopts]

theorem encoder_reused_eq_fresh {T O G} (api : EncoderApi T O G) (core : Core O G) (st : ApiState T)
    (h : List (Call T G)) (g : G) :
    (encoderStep api core (runCalls (encoderStep api core) st h) (.encode g)).2 =
    (encoderStep api core (runCalls (encoderStep api core) st (settersOnly h)) (.encode g)).2 :=
  encoder_state_irrelevant api core st st h (settersOnly h) g (applySetters_settersOnly _ _).symm

/-- `ExpertEncoder`: after a SUCCESSFUL encode the counters too are a function of setters and geometry -/
theorem expert_counts_after_success {O G} (core : Core O G) (st₁ st₂ : ApiState O)
    (h₁ h₂ : List (Call O G)) (g : G)
    (hopts : applySetters st₁.options h₁ = applySetters st₂.options h₂)
    (hok : (core (applySetters st₁.options h₁) g).bytes.isSome = true) :
    let a := (expertStep core (runCalls (expertStep core) st₁ h₁) (.encode g)).1
    let b := (expertStep core (runCalls (expertStep core) st₂ h₂) (.encode g)).1
    a.numEncodedPoints = b.numEncodedPoints ∧ a.numEncodedFaces = b.numEncodedFaces := by
  have hok2 : (core (applySetters st₂.options h₂) g).bytes.isSome = true := by rw [← hopts]; exact hok
  simp only [expertStep, expert_options_after, hok2, if_true, hopts, and_self]

/-- a toy instance for the non-vacuity examples: options = a speed, geometry = (is mesh, size) -/
def toyCore : Core Nat (Bool × Nat) := fun speed g => ⟨some [speed, g.2], g.2, if g.1 then g.2 / 3 else 0⟩
def toyApi : EncoderApi Nat Nat (Bool × Nat) := ⟨fun o _ => o, fun g => g.1⟩

-- non-vacuity: a history with two encodes and a speed change vs. the setters alone
example :
    (expertStep toyCore (runCalls (expertStep toyCore) { options := 5 }
        [.encode (true, 9), .set (fun _ => 10), .encode (true, 30)]) (.encode (true, 12))).2
    = some (some [10, 12]) := by decide

/-- `Encoder` (repaired, /repo 85f04a5): after a SUCCESSFUL encode — mesh or point cloud — the counters are
    the core's counts on (options produced by the setters alone, geometry): whatever the object encoded before
    and whatever its counters held. -/
theorem encoder_counts_after_success {T O G} (api : EncoderApi T O G) (core : Core O G) (st : ApiState T)
    (h : List (Call T G)) (g : G)
    (hok : (core (api.convert (applySetters st.options h) g) g).bytes.isSome = true) :
    let a := (encoderStep api core (runCalls (encoderStep api core) st h) (.encode g)).1
    a.numEncodedPoints = (core (api.convert (applySetters st.options h) g) g).points ∧
    a.numEncodedFaces = (core (api.convert (applySetters st.options h) g) g).faces := by
  simp only [encoderStep, encoder_options_after, hok, if_true, and_self]

/-- … hence two `Encoder` objects whose setter histories produce the same options report the same counts
    after successfully encoding the same geometry (what `rcounts` of the harness op `det` compares) -/
theorem encoder_counts_history_independent {T O G} (api : EncoderApi T O G) (core : Core O G)
    (st₁ st₂ : ApiState T) (h₁ h₂ : List (Call T G)) (g : G)
    (hopts : applySetters st₁.options h₁ = applySetters st₂.options h₂)
    (hok : (core (api.convert (applySetters st₁.options h₁) g) g).bytes.isSome = true) :
    let a := (encoderStep api core (runCalls (encoderStep api core) st₁ h₁) (.encode g)).1
    let b := (encoderStep api core (runCalls (encoderStep api core) st₂ h₂) (.encode g)).1
    a.numEncodedPoints = b.numEncodedPoints ∧ a.numEncodedFaces = b.numEncodedFaces := by
  have hok2 : (core (api.convert (applySetters st₂.options h₂) g) g).bytes.isSome = true := by
    rw [← hopts]; exact hok
  have a := encoder_counts_after_success api core st₁ h₁ g hok
  have b := encoder_counts_after_success api core st₂ h₂ g hok2
  simp only at a b ⊢
  rw [a.1, a.2, b.1, b.2, hopts]
  exact ⟨rfl, rfl⟩

-- non-vacuity: a point cloud encode after a mesh encode reports its own counts (7 points, 0 faces)
example :
    (encoderStep toyApi toyCore (runCalls (encoderStep toyApi toyCore) { options := 5 }
        [.encode (true, 30)]) (.encode (false, 7))).1.numEncodedPoints = 7 ∧
    (encoderStep toyApi toyCore (runCalls (encoderStep toyApi toyCore) { options := 5 }
        []) (.encode (false, 7))).1.numEncodedPoints = 7 := by decide

/-- After a FAILED encode the counters of both API objects keep their old values (the `Status` is the
    output then); the history independence above is about successful encodes only. -/
theorem encoder_counts_kept_on_failure {T O G} (api : EncoderApi T O G) (core : Core O G) (st : ApiState T)
    (g : G) (hfail : (core (api.convert st.options g) g).bytes = none) :
    (encoderStep api core st (.encode g)).1 = st := by
  simp [encoderStep, hfail]

/-- PRE-FIX code (before /repo 85f04a5): the counters of `draco::Encoder` were NOT a function of setters and
    geometry — after a point cloud encode `num_encoded_points()` was whatever an earlier mesh encode had left
    there (0 on a fresh object, although tracking was requested). Same setters (none), same final call,
    different counters. Found by the harness op `det` (flag `rcounts`), repaired in /repo 85f04a5. -/
theorem prefix_encoder_counts_depend_on_history :
    (encoderStepPreFix toyApi toyCore (runCalls (encoderStepPreFix toyApi toyCore) { options := 5 }
        [.encode (true, 30)]) (.encode (false, 7))).1.numEncodedPoints = 30 ∧
    (encoderStepPreFix toyApi toyCore (runCalls (encoderStepPreFix toyApi toyCore) { options := 5 }
        []) (.encode (false, 7))).1.numEncodedPoints = 0 := by decide

/-! ### Decoder object -/

/-- a call on a `draco::Decoder`: `SetSkipAttributeTransform(type)` or a decode of the given bytes -/
inductive DCall where
  | setSkip (attType : Nat)
  | decode (bs : Bytes)

/-- persistent state of `draco::Decoder`: its `DecoderOptions` (skip flags per attribute type).
    `Decode*FromBuffer` creates a fresh PointCloudDecoder / MeshDecoder and passes the options by const reference. -/
def decoderStep (st : DecOpts) : DCall → DecOpts × Option (Option DecodeResult × Status)
  | .setSkip t => ({ st with skip := t :: st.skip }, none)
  | .decode bs => (st, some ((decodeGeometry st { rest := bs }).1, (decodeGeometry st { rest := bs }).2.status))

def runDCalls : DecOpts → List DCall → DecOpts
  | st, [] => st
  | st, c :: cs => runDCalls (decoderStep st c).1 cs

def skipsOf : List DCall → List Nat
  | [] => []
  | .setSkip t :: cs => skipsOf cs ++ [t]
  | .decode _ :: cs => skipsOf cs

theorem decoder_options_after (st : DecOpts) (h : List DCall) :
    (runDCalls st h).skip = skipsOf h ++ st.skip := by
  induction h generalizing st with
  | nil => rfl
  | cons c cs ih => cases c <;> simp [runDCalls, decoderStep, skipsOf, ih]

/-- the result of a decode call on a `Decoder` object with any history of earlier decode calls is the
    result of the decoder function on (skip flags set so far, bytes) -/
theorem decoder_state_irrelevant (st₁ st₂ : DecOpts) (h₁ h₂ : List DCall) (bs : Bytes)
    (hopts : skipsOf h₁ ++ st₁.skip = skipsOf h₂ ++ st₂.skip) :
    (decoderStep (runDCalls st₁ h₁) (.decode bs)).2 = (decoderStep (runDCalls st₂ h₂) (.decode bs)).2 := by
  have e : runDCalls st₁ h₁ = runDCalls st₂ h₂ := by
    have a := decoder_options_after st₁ h₁
    have b := decoder_options_after st₂ h₂
    cases h1 : runDCalls st₁ h₁; cases h2 : runDCalls st₂ h₂
    simp only [h1, h2] at a b
    simp only [DecOpts.mk.injEq]
    rw [a, b, hopts]
  simp only [decoderStep, e]

-- non-vacuity: two decodes of other streams before, none on the other object
example : (decoderStep (runDCalls {} [.decode [1, 2], .setSkip 0, .decode [68, 82]]) (.decode [68])).2 =
    (decoderStep (runDCalls {} [.setSkip 0]) (.decode [68])).2 :=
  decoder_state_irrelevant {} {} _ _ _ rfl

/-! ## Bytes after the end of the stream -/

/-- header: a successful `DecodeHeader` is unaffected by appended bytes (and leaves them unread) -/
theorem trailing_bytes_stable_header : Stable decodeHeader := by
  unfold decodeHeader
  repeat stable_step

/-- attribute descriptors (`AttributesDecoder::DecodeAttributesDecoderData`), including its
    `num_attributes <= 5 * remaining_size()` sanity check, which is monotone in the remaining size -/
theorem trailing_bytes_stable_att_descs : Stable decodeAttDescs := by
  unfold decodeAttDescs
  apply stable_bind stable_version
  intro ver
  dsimp only
  split <;>
  · apply stable_bind (by first | exact stable_rdU32 | exact stable_varint _)
    intro n
    apply stable_bind (stable_require _)
    intro _
    refine stable_remaining_guard (fun rem => decide (n ≤ 5 * rem)) ?_ ?_
    · intro r r' hr h
      simp only [decide_eq_true_eq] at h ⊢
      omega
    · repeat stable_step

/-- what stability gives for the observable of the harness: with `extra` appended, the same value is
    decoded and exactly `extra` more bytes remain (`remaining_size()` grows by `extra.length`) -/
theorem stable_remaining_size {α} {m : DecM α} (hm : Stable m) (s s' : DSt) (a : α) (extra : Bytes)
    (h : m s = (some a, s')) :
    (m (s.append extra)).1 = some a ∧ (m (s.append extra)).2.rest.length = s'.rest.length + extra.length := by
  have := (stable_def m).mp hm s a s' extra h
  rw [this]
  simp [DSt.append]

-- non-vacuity: a concrete header followed by anything
example : (decodeHeader { rest := [68, 82, 65, 67, 79, 2, 2, 1, 0, 0, 0] ++ [9, 9, 9] }).1 =
    some ⟨2, 2, 1, 0, 0⟩ ∧
    (decodeHeader { rest := [68, 82, 65, 67, 79, 2, 2, 1, 0, 0, 0] ++ [9, 9, 9] }).2.rest.length = 0 + 3 :=
  stable_remaining_size trailing_bytes_stable_header { rest := [68, 82, 65, 67, 79, 2, 2, 1, 0, 0, 0] }
    { rest := [] } ⟨2, 2, 1, 0, 0⟩ [9, 9, 9] rfl

/-! ### streams produced by the encoder (corollaries of C01) -/

/-- **Sequential methods** (point cloud and mesh): for every geometry in the domain of the C01 theorem, all
    heuristics `ch` and options — if the encoder model produces `bs`, there is ONE decode result `r` such that
    for every `extra` the decoder on `bs ++ extra` returns `r`, consumes exactly `bs.length` bytes and leaves
    exactly `extra` unread (`remaining_size() = extra.length`). Cited from `C01.seq_trailing_bytes_ignored`. -/
theorem encoded_stream_trailing_bytes_ignored_seq (ch : SeqEnc.Choices) (g : Geometry)
    (md : Option GeometryMetadata) (opts : SeqEnc.EncOpts) (bs : Bytes) (hok : Draco.GeomOK g opts)
    (hmd : ∀ m, md = some m → m.WF') (henc : SeqEnc.encodeGeometry ch g md opts = some bs) :
    ∃ r : DecodeResult, ∀ extra : Bytes, ∃ st,
      decodeGeometry {} { rest := bs ++ extra } = (some r, st) ∧
      (bs ++ extra).length - st.rest.length = bs.length ∧ st.rest = extra :=
  C01.seq_trailing_bytes_ignored ch g md opts bs hok hmd henc

/-- … in the form the harness op `det` tests it: two different tails, identical results -/
theorem encoded_stream_two_tails_seq (ch : SeqEnc.Choices) (g : Geometry)
    (md : Option GeometryMetadata) (opts : SeqEnc.EncOpts) (bs : Bytes) (hok : Draco.GeomOK g opts)
    (hmd : ∀ m, md = some m → m.WF') (henc : SeqEnc.encodeGeometry ch g md opts = some bs)
    (extra₁ extra₂ : Bytes) :
    (decodeGeometry {} { rest := bs ++ extra₁ }).1 = (decodeGeometry {} { rest := bs ++ extra₂ }).1 ∧
    (decodeGeometry {} { rest := bs ++ extra₁ }).1.isSome = true := by
  obtain ⟨r, hr⟩ := encoded_stream_trailing_bytes_ignored_seq ch g md opts bs hok hmd henc
  obtain ⟨s1, h1, _⟩ := hr extra₁
  obtain ⟨s2, h2, _⟩ := hr extra₂
  rw [h1, h2]
  exact ⟨rfl, rfl⟩

example : ∃ r : DecodeResult, ∀ extra : Bytes, ∃ st,
    decodeGeometry {} { rest := C01.sampleStream ++ extra } = (some r, st) ∧
      (C01.sampleStream ++ extra).length - st.rest.length = C01.sampleStream.length ∧ st.rest = extra :=
  encoded_stream_trailing_bytes_ignored_seq C01.sampleChoices C01.samplePC none C01.sampleOpts C01.sampleStream
    C01.samplePC_ok (fun m h => by cases h) C01.samplePC_encodes'

/-- **kd-tree point clouds**: if the encoder model produces `bs`, then for every `extra` the decoder on
    `bs ++ extra` succeeds, returns the metadata, consumes exactly `bs.length` bytes, leaves exactly `extra`
    unread, and its geometry equals `expectedKd g opts` up to the order of the points.
    Cited from `C01Kd.pointcloud_kd_roundtrip`. NOTE what this does not say: the cited theorem gives the decoded
    geometry existentially per `extra`, so that the ORDER of the decoded points is the same for every tail does
    not follow from it (it is observed by the harness on every kd-tree case, flag `trail`). -/
theorem encoded_stream_trailing_bytes_ignored_kd (ch : KdEnc.Choices) (hpart : Kd.PartSpec ch.part)
    (g : Geometry) (md : Option GeometryMetadata) (opts : SeqEnc.EncOpts) (bs : Bytes)
    (hok : KdEnc.GeomOK g opts) (hmd : ∀ m, md = some m → m.WF')
    (henc : KdEnc.encodeGeometryKd ch g md opts = some bs) (extra : Bytes) :
    ∃ g' st, decodeGeometry {} { rest := bs ++ extra } = (some ⟨g', md⟩, st) ∧
      (bs ++ extra).length - st.rest.length = bs.length ∧ st.rest = extra ∧
      KdEnc.SameUpToPointOrder g' (KdEnc.expectedKd g opts) := by
  obtain ⟨g', st, h1, h2, h3⟩ := C01Kd.pointcloud_kd_roundtrip ch hpart g md opts bs hok hmd henc extra
  exact ⟨g', st, h1, by rw [h2]; simp, h2, h3⟩

/-- … two different tails: both decodes succeed with the same metadata and with geometries that agree in kind,
    number of points, attribute descriptors and the multiset of per-point value tuples -/
theorem encoded_stream_two_tails_kd (ch : KdEnc.Choices) (hpart : Kd.PartSpec ch.part)
    (g : Geometry) (md : Option GeometryMetadata) (opts : SeqEnc.EncOpts) (bs : Bytes)
    (hok : KdEnc.GeomOK g opts) (hmd : ∀ m, md = some m → m.WF')
    (henc : KdEnc.encodeGeometryKd ch g md opts = some bs) (extra₁ extra₂ : Bytes) :
    ∃ g₁ g₂ s₁ s₂, decodeGeometry {} { rest := bs ++ extra₁ } = (some ⟨g₁, md⟩, s₁) ∧
      decodeGeometry {} { rest := bs ++ extra₂ } = (some ⟨g₂, md⟩, s₂) ∧
      s₁.rest = extra₁ ∧ s₂.rest = extra₂ ∧ KdEnc.SameUpToPointOrder g₁ g₂ := by
  obtain ⟨g₁, s₁, a1, _, a3, a4⟩ := encoded_stream_trailing_bytes_ignored_kd ch hpart g md opts bs hok hmd henc extra₁
  obtain ⟨g₂, s₂, b1, _, b3, b4⟩ := encoded_stream_trailing_bytes_ignored_kd ch hpart g md opts bs hok hmd henc extra₂
  refine ⟨g₁, g₂, s₁, s₂, a1, b1, a3, b3, ?_⟩
  obtain ⟨p1, p2, p3, p4, p5⟩ := a4
  obtain ⟨q1, q2, q3, q4, q5⟩ := b4
  exact ⟨p1.trans q1.symm, p2.trans q2.symm, p3.trans q3.symm, p4.trans q4.symm, p5.trans q5.symm⟩

example : ∃ bs g' st, KdEnc.encodeGeometryKd C01Kd.sampleKdChoices C01Kd.sampleKdPC none C01Kd.sampleKdOpts = some bs ∧
    decodeGeometry {} { rest := bs ++ [1, 2, 3] } = (some ⟨g', none⟩, st) ∧
    (bs ++ [1, 2, 3]).length - st.rest.length = bs.length := by
  obtain ⟨bs, hbs⟩ := C01Kd.sampleKdPC_encodes
  obtain ⟨g', st, h1, h2, _⟩ := encoded_stream_trailing_bytes_ignored_kd C01Kd.sampleKdChoices Kd.partSpec_std
    C01Kd.sampleKdPC none C01Kd.sampleKdOpts bs C01Kd.sampleKdPC_ok (fun m h => by cases h) hbs [1, 2, 3]
  exact ⟨bs, g', st, hbs, h1, h2⟩

/-! ### arbitrary accepted byte strings: entropy-coded sections -/

/-- a RAW-coded symbol section (`DecodeSymbols` with scheme byte 1: probability table + size-prefixed rANS
    block), or `num_values = 0`: an accepted decode is unaffected by appended bytes, which stay unread — for ANY
    byte string, encoder-produced or not. The two `remaining_size()` guards on the way are monotone. -/
theorem trailing_bytes_stable_raw_symbols (numValues numComponents : Nat) (bs vals rest extra : Bytes)
    (hraw : numValues = 0 ∨ bs.head? = some 1)
    (h : Leaf.decodeSymbols numValues numComponents bs = some (vals, rest)) :
    Leaf.decodeSymbols numValues numComponents (bs ++ extra) = some (vals, rest ++ extra) :=
  decodeSymbols_raw_stable numValues numComponents bs vals rest extra hraw h

/-- a TAGGED symbol section is unaffected by appended bytes when the value bits it reads in bit mode
    (`taggedValueBits`: Σ components × rANS-decoded bit length) lie inside the buffer … -/
theorem trailing_bytes_stable_tagged_symbols_inside (before : Bytes) (numValues numComponents : Nat)
    (bs vals rest extra : Bytes) (hin : TaggedBitsInside before numValues numComponents bs)
    (h : decodeTaggedSymbols before numValues numComponents bs = some (vals, rest)) :
    decodeTaggedSymbols before numValues numComponents (bs ++ extra) = some (vals, rest ++ extra) :=
  decodeTaggedSymbols_stable_of_bits_inside before numValues numComponents bs vals rest extra hin h

/-- … and this is precisely where stability ends: `BitDecoder::GetBit` past `bit_buffer_end_` returns 0, so a
    byte string whose bit reads run past its end is accepted, and accepted DIFFERENTLY once bytes follow.
    (Whole-section witness, real decoder and model: `00 02 03 01 40 01 00` decodes as `[0]`, with `01`
    appended as `[1]`.) -/
theorem bit_read_past_end_not_stable :
    (BitReader.start []).getBits 1 = some (0, BitReader.start []) ∧
    ((BitReader.start []).app [1]).getBits 1 = some (1, ⟨[1], 1, 1⟩) :=
  getBits_past_end_not_stable

/-- a bit read inside the buffer is unaffected by appended bytes -/
theorem bit_read_inside_stable (r : BitReader) (n : Nat) (extra : Bytes) (v : Nat) (r' : BitReader)
    (hsh : r.sh < 8) (hav : n ≤ r.avail) (h : r.getBits n = some (v, r')) :
    (r.app extra).getBits n = some (v, r'.app extra) :=
  getBits_append r n extra v r' hsh hav h

example : (BitReader.start [5, 255]).getBits 9 = some (261, ⟨[255], 1, 9⟩) ∧
    ((BitReader.start [5, 255]).app [7]).getBits 9 = some (261, ⟨[255, 7], 1, 9⟩) :=
  ⟨rfl, bit_read_inside_stable (BitReader.start [5, 255]) 9 [7] 261 ⟨[255], 1, 9⟩ (by decide) (by decide) rfl⟩

/-- `remaining_size()` is the primitive through which trailing bytes can be seen at all -/
theorem remaining_is_not_stable : ¬ Stable remaining := remaining_not_stable

/-! ## the option-driven choices of the encoders are the source's -/
open Generated in
/-- `SelectPredictionMethod(att_id, options, encoder)` (prediction_scheme_encoder_factory.cc) — translated mechanically from
    clang's AST of /repo on every run with every getter call as an input; control flow and thresholds are the repo's — is the
    model's `SeqEnc.selectPredictionMethod` when the inputs are what the getters return on the model's geometry and options
    (quantization bit counts within ±2^20, far beyond the 30 bits draco accepts) -/
theorem source_selectPredictionMethod_is_model (isMesh : Bool) (o : SeqEnc.EncOpts) (atts : List Attribute)
    (numPoints attId : Nat)
    (hq1 : -2^20 < (o.att attId).quantBits ∧ (o.att attId).quantBits < 2^20)
    (hq2 : ∀ pid, -2^20 < (o.att pid).quantBits ∧ (o.att pid).quantBits < 2^20) :
    SelectPredictionMethod (attId : Int) o.speed (if isMesh then 1 else 0) (o.att attId).quantBits
        ((atts.getD attId default).attType : Int) ((atts.getD attId default).numComponents : Int)
        (SeqEnc.namedAttributeId atts 0).isSome
        (SeqEnc.isIntegralType (atts.getD ((SeqEnc.namedAttributeId atts 0).getD 0) default).dataType)
        (((SeqEnc.namedAttributeId atts 0).getD 0 : Nat) : Int)
        (o.att ((SeqEnc.namedAttributeId atts 0).getD 0)).quantBits (numPoints : Int) =
      SeqEnc.selectPredictionMethod isMesh o atts numPoints attId :=
  SelectPredictionMethod_eq_model isMesh o atts numPoints attId hq1 hq2
example : Generated.SelectPredictionMethod 0 1 1 (-1) 0 3 true false 0 11 50 = 4 := by decide

open Generated in
/-- `MeshEdgebreakerEncoder::InitializeEncoder`: the traversal method selected from `edgebreaker_method`, the speed and
    `num_faces() < 1000` (both Edgebreaker features available) is the one of `EbEnc.traversalCoder` -/
theorem source_traversalMethod_is_model (o : EbEnc.EbOpts) (numFaces : Nat) :
    EbEnc.traversalCoder o numFaces =
      (let m := MeshEdgebreakerEncoder.InitializeEncoder_method true true (decide ((numFaces : Int) < 1000))
                  o.edgebreakerMethod o.base.speed
       if m == 0 then some 0 else if m == 2 then some 2 else none) := InitializeEncoder_method_eq_model o numFaces

open Generated in
/-- `ExpertEncoder::EncodeMeshToBuffer`: the encoding method is the `encoding_method` option when set, otherwise sequential
    exactly at speed 10 and Edgebreaker at every other speed (`Generated.meshEncodingMethod`) -/
theorem source_meshEncodingMethod_is_model (forced speed : Int) :
    ExpertEncoder.EncodeMeshToBuffer_method forced speed = meshEncodingMethod forced speed :=
  EncodeMeshToBuffer_method_eq_model forced speed

end Draco.C06
