import DracoProofs.Varint
import Generated.Constants
/-
  C17 — bit, varint and buffer primitives round-trip every value (property theorems only).
-/
namespace Draco.C17
open Draco

/-- Unsigned varints of every width the code instantiates decode to the value written and
    leave the reader exactly behind the encoding. -/
theorem varint_roundtrip (w v : Nat) (rest : Bytes) (hw : w = 8 ∨ w = 16 ∨ w = 32 ∨ w = 64)
    (hv : v < 2^w) : decVarint w (encVarint v ++ rest) = some (v, rest) := by
  unfold decVarint encVarint varintMaxDepth
  rcases hw with h | h | h | h <;> subst h
  · exact decVarintAux_enc 8 rest 2 10 v (by decide) (by simp at hv ⊢; omega) (by decide) hv
  · exact decVarintAux_enc 16 rest 3 10 v (by decide) (by simp at hv ⊢; omega) (by decide) hv
  · exact decVarintAux_enc 32 rest 5 10 v (by decide) (by simp at hv ⊢; omega) (by decide) hv
  · exact decVarintAux_enc 64 rest 10 10 v (by decide) (by simp at hv ⊢; omega) (by decide) hv

example : decVarint 32 (encVarint 300 ++ [7, 8]) = some (300, [7, 8]) := by decide

/-- The depth limits compiled into the decoder (probed from the working tree) are the ones the
    model uses: an encoder output is never rejected for its length. -/
theorem varint_depth_matches_source :
    Generated.varintMaxLen = [(varintMaxDepth 8 : Int), varintMaxDepth 16, varintMaxDepth 32, varintMaxDepth 64] := by
  decide

end Draco.C17
