import DracoProofs.Varint
import DracoProofs.Scalar
import DracoProofs.BitBuf
import DracoProofs.FastDiv
import DracoProofs.Rabs
import DracoProofs.Yields
import DracoProofs.Adaptive
import DracoProofs.RansBit
import DracoProofs.Folded
import DracoProofs.BitTwiddle
import DracoProofs.FoldedInst
import DracoProofs.Direct
import DracoProofs.SymbolBit
import DracoProofs.EncBuf
import Generated.Constants
import Generated.FastDivTab
import DracoProofs.GeneratedCore
import DracoProofs.GeneratedBytes
import DracoProofs.GeneratedBits
/-
  C17 — "Every primitive writer/reader pair of the bitstream layer is an exact inverse for all
  values: variable-length integers of every width and sign, byte-aligned scalars, bit sequences
  with and without stored size, and the binary coders (rANS bit coder, adaptive rANS bit coder,
  direct bit coder, folded-integer coder, symbol bit coder) for every bit sequence and bit
  width 1..32.  Reading past the written data fails or yields zeros but never touches memory
  outside the buffer."

  Property theorems only; helper lemmas live in DracoProofs/.  Each theorem is followed by a
  non-vacuity example.  Round trips have the form `dec (enc x ++ rest) = some (x, rest)`,
  which also states that the decoder stops exactly at the end of what the encoder wrote.
  Memory safety of the readers is structural in the model: a reader is a total function of the
  byte list it is given and has no other access to memory.
-/
namespace Draco.C17
open Draco

/-! ### (a) varints, zig-zag, byte-aligned scalars -/

/-- `DecodeVarint<uintW_t>` inverts `EncodeVarint` for every value of every unsigned width -/
theorem varint_roundtrip {w : Nat} (hw : w ∈ [8, 16, 32, 64]) (v : Nat) (hv : v < 2^w)
    (rest : Bytes) : decVarint w (encVarint v ++ rest) = some (v, rest) :=
  decVarint_enc hw v hv rest

example : decVarint 32 (encVarint 300 ++ [7]) = some (300, [7]) :=
  varint_roundtrip (by simp) 300 (by decide) [7]

/-- the encoder never exceeds the decoder's recursion budget -/
theorem varint_length {w : Nat} (hw : w ∈ [8, 16, 32, 64]) (v : Nat) (hv : v < 2^w) :
    (encVarint v).length ≤ varintMaxDepth w :=
  encVarint_length hw v hv

example : (encVarint (2^64 - 1)).length ≤ varintMaxDepth 64 :=
  varint_length (by simp) _ (by decide)

/-- `ConvertSymbolToSignedInt ∘ ConvertSignedIntToSymbol = id` on the whole signed range -/
theorem zigzag_roundtrip (w : Nat) (hw : 1 ≤ w) (x : Int)
    (hlo : -(2^(w-1) : Int) ≤ x) (hhi : x < (2^(w-1) : Int)) :
    ofSymbol (toSymbol w x) = x ∧ toSymbol w x < 2^w :=
  ofSymbol_toSymbol w hw x hlo hhi

example : ofSymbol (toSymbol 32 (-2147483648)) = -2147483648 ∧ toSymbol 32 (-2147483648) < 2^32 :=
  zigzag_roundtrip 32 (by decide) _ (by decide) (by decide)

/-- signed varints of every width -/
theorem varint_signed_roundtrip {w : Nat} (hw : w ∈ [8, 16, 32, 64]) (x : Int)
    (hlo : -(2^(w-1) : Int) ≤ x) (hhi : x < (2^(w-1) : Int)) (rest : Bytes) :
    decVarintSigned w (encVarintSigned w x ++ rest) = some (x, rest) := by
  have hw1 : 1 ≤ w := by rcases width_cases hw with h | h | h | h <;> omega
  obtain ⟨h1, h2⟩ := ofSymbol_toSymbol w hw1 x hlo hhi
  simp only [decVarintSigned, encVarintSigned, decVarint_enc hw _ h2 rest, h1]

example : decVarintSigned 16 (encVarintSigned 16 (-32768) ++ [1, 2]) = some (-32768, [1, 2]) :=
  varint_signed_roundtrip (by simp) _ (by decide) (by decide) _

/-- `EncoderBuffer::Encode(T)` / `DecoderBuffer::Decode(T*)` for an `n`-byte scalar -/
theorem scalar_roundtrip (n v : Nat) (hv : v < 256^n) (rest : Bytes) :
    readLE n (writeLE n v ++ rest) = some (v, rest) := by
  rw [readLE_writeLE, Nat.mod_eq_of_lt hv]

example : readLE 4 (writeLE 4 0xDEADBEEF ++ [9]) = some (0xDEADBEEF, [9]) :=
  scalar_roundtrip 4 _ (by decide) _

/-! ### (b) bit sequences of the buffers, with and without stored size -/

/-- `StartBitEncoding … PutBits* … EndBitEncoding` followed by
    `StartBitDecoding … GetBits* … EndBitDecoding` returns the low `n_i` bits of every value,
    the stored byte count (when present), and leaves the reader exactly at `rest`.
    `ops` are the `(nbits, value)` pairs of the `PutBits` calls. -/
theorem bits_roundtrip (withSize : Bool) (ops : List (Nat × Nat)) (rest : Bytes)
    (hw : ∀ p ∈ ops, p.1 ≤ 32)
    (hlen : withSize = true → ((putBitsAll ops).length + 7) / 8 < 2^64) :
    decBitRegion false withSize (ops.map (·.1)) (encBitRegion withSize (putBitsAll ops) ++ rest) =
      some ((if withSize then some (((putBitsAll ops).length + 7) / 8) else none,
             ops.map (fun p => p.2 % 2^p.1)), rest) :=
  decBitRegion_enc withSize ops rest hw hlen

example : decBitRegion false true [3, 32, 0, 5]
      (encBitRegion true (putBitsAll [(3, 5), (32, 0xFFFFFFFF), (0, 9), (5, 77)]) ++ [1, 2]) =
    some ((some 5, [5, 0xFFFFFFFF, 0, 13]), [1, 2]) :=
  bits_roundtrip true [(3, 5), (32, 0xFFFFFFFF), (0, 9), (5, 77)] [1, 2] (by decide) (by decide)

/-- reading past the end of the buffer yields a zero bit and does not advance -/
theorem getBit_past_end (r : BitReader) (h : r.cur = []) : r.getBit = (0, r) :=
  getBit_nil r h

example : (BitReader.start []).getBit = (0, BitReader.start []) := getBit_past_end _ rfl

/-- **All interleavings of bit-mode and byte-mode writes on one `EncoderBuffer`.**  The stateful buffer
    (members `bit_encoder_reserved_bytes_`, `encode_bit_sequence_size_` surviving from one region to the
    next) run on any sequence of well-formed items — raw scalars/blocks, varints, bit regions with or
    without stored size, in any order — accepts every call and holds exactly the concatenation of the
    items' specified bytes; no item disturbs what an earlier item wrote. -/
theorem encoder_buffer_refines_items (items : List BufItem) (b : EncBuf) (hb : b.active = false)
    (hw : ∀ it ∈ items, it.wf) :
    ∃ b', b.runItems items = some b' ∧ b'.buffer = b.buffer ++ items.flatMap BufItem.enc ∧ b'.active = false :=
  runItems_spec items b hb hw

/-- … and a `DecoderBuffer` reading the same item shapes in the same order gets every value back
    (bit groups masked to their width, region sizes as stored) and stops exactly at `rest`. -/
theorem buffer_items_roundtrip (items : List BufItem) (b : EncBuf) (rest : Bytes)
    (hb : b.active = false) (hw : ∀ it ∈ items, it.wf) (hr : ∀ it ∈ items, it.readable) :
    ∃ b', b.runItems items = some b' ∧
      decItems (items.map BufItem.shape) (b'.buffer.drop b.buffer.length ++ rest) = some (items.map BufItem.val, rest) := by
  obtain ⟨b', h1, h2, _⟩ := runItems_spec items b hb hw
  refine ⟨b', h1, ?_⟩
  rw [h2, List.drop_left]
  exact decItems_enc items rest hr

/-- a region with stored size followed by one without, between byte-mode writes, on one buffer -/
def sampleItems : List BufItem :=
  [.raw [1, 2], .region true 40 [(3, 5), (32, 0xFFFFFFFF)], .varint 300, .region false 9 [(1, 1), (7, 0x55)], .raw [9]]

theorem sampleItems_wf : ∀ it ∈ sampleItems, it.wf := by
  intro it hit
  simp only [sampleItems, List.mem_cons, List.not_mem_nil, or_false] at hit
  rcases hit with rfl | rfl | rfl | rfl | rfl <;> simp [BufItem.wf, putBitsAll, bitsOf_length]

theorem sampleItems_readable : ∀ it ∈ sampleItems, it.readable := by
  intro it hit
  simp only [sampleItems, List.mem_cons, List.not_mem_nil, or_false] at hit
  rcases hit with rfl | rfl | rfl | rfl | rfl <;> simp [BufItem.readable, putBitsAll, bitsOf_length]

example : ∃ b', ({} : EncBuf).runItems sampleItems = some b' ∧
    decItems (sampleItems.map BufItem.shape) (b'.buffer.drop 0 ++ [7, 7]) = some (sampleItems.map BufItem.val, [7, 7]) :=
  buffer_items_roundtrip sampleItems {} [7, 7] rfl sampleItems_wf sampleItems_readable

/-! ### (c) fastdiv -/

/-- `fastdiv` with the table of the pinned source is exact division (proved for `x < 2^31`;
    rABS only uses `x < 2^20`).  Beyond 2^31 the 32-bit sum `t + x` can wrap:
    see `Draco.fastdiv_wraps`. -/
theorem fastdiv_correct (x y : Nat) (hx : x < 2^31) (hy1 : 1 ≤ y) (hy2 : y ≤ 255) :
    fastdiv Generated.fastdivTab x y = x / y :=
  fastdiv_correct_31 x y hx hy1 hy2

example : fastdiv Generated.fastdivTab 1048575 255 = 1048575 / 255 :=
  fastdiv_correct _ _ (by decide) (by decide) (by decide)

/-! ### (d) rABS and the binary coders -/

/-- the rABS encoder state stays in `[L, 256·L)` -/
theorem rabs_invariant (a : AnsCoder) (val : Bool) (p0 : Nat)
    (ha : 4096 ≤ a.state ∧ a.state < 4096 * 256) (hp : 1 ≤ p0 ∧ p0 ≤ 255) :
    4096 ≤ (rabsWrite Generated.fastdivTab a val p0).state ∧
      (rabsWrite Generated.fastdivTab a val p0).state < 4096 * 256 :=
  rabsWrite_valid Generated.fastdivTab divOK_generated a ha val p0 hp

example : 4096 ≤ (rabsWrite Generated.fastdivTab ansWriteInit true 1).state ∧
    (rabsWrite Generated.fastdivTab ansWriteInit true 1).state < 4096 * 256 :=
  rabs_invariant _ _ _ (by decide) (by decide)

/-- `rabs_desc_write` (bits pushed last-first) + `ans_write_end`, then `ans_read_init` +
    `rabs_desc_read` return the bit list, for every probability 1..255 -/
theorem rabs_roundtrip (p0 : Nat) (hp : 1 ≤ p0 ∧ p0 ≤ 255) (bits : List Bool) :
    rabsDecodeBits p0 bits.length (rabsEncodeBits Generated.fastdivTab p0 bits) = some bits :=
  rabs_decode_encode Generated.fastdivTab divOK_generated p0 hp bits

example : rabsDecodeBits 200 5 (rabsEncodeBits Generated.fastdivTab 200 [true, false, false, true, true]) =
    some [true, false, false, true, true] :=
  rabs_roundtrip 200 (by decide) [true, false, false, true, true]

/-- RAnsBitEncoder / RAnsBitDecoder: any sequence of `EncodeBit` /
    `EncodeLeastSignificantBits32(n, v)` calls (`1 ≤ n ≤ 32`) is returned by the matching
    decoder calls, whatever the floating point expression `zero_prob_raw` evaluates to.
    (The size prefix is a 32-bit varint: fewer than 2^32 − 3 coded bits.) -/
theorem ransBit_roundtrip (zeroProbRaw : Nat → Nat → Nat) (ops : List BitOp)
    (hv : ∀ op ∈ ops, op.Valid) (hlen : (ops.map BitOp.width).sum + 3 < 2^32) (rest : Bytes) :
    ransBitDecode false (ops.map BitOp.req)
        (ransBitEncode Generated.fastdivTab zeroProbRaw ops ++ rest) =
      some (ops.map BitOp.value, rest) :=
  ransBit_decode_encode Generated.fastdivTab divOK_generated zeroProbRaw ops hv
    (by rw [opsBits_length]; exact hlen) rest

example : ransBitDecode false [.bit, .lsb32 32, .lsb32 1, .bit]
      (ransBitEncode Generated.fastdivTab (fun n0 tot => (512 * n0 + tot) / (2 * tot))
        [.bit true, .lsb32 32 0xFFFFFFFF, .lsb32 1 2, .bit false] ++ [42]) =
    some ([1, 0xFFFFFFFF, 0, 0], [42]) :=
  ransBit_roundtrip _ [.bit true, .lsb32 32 0xFFFFFFFF, .lsb32 1 2, .bit false]
    (by decide) (by decide) [42]

/-- AdaptiveRAnsBitEncoder / AdaptiveRAnsBitDecoder, for any probability model (the `double`
    arithmetic of `update_probability` / `clamp_probability`) whose clamped probabilities stay
    in [1, 255] -/
theorem adaptive_roundtrip (pm : ProbModel) (hpm : ∀ s, 1 ≤ pm.p0 s ∧ pm.p0 s ≤ 255)
    (ops : List BitOp) (hv : ∀ op ∈ ops, op.Valid)
    (hlen : (ops.map BitOp.width).sum + 3 < 2^32) (rest : Bytes) :
    adaptiveDecode pm (ops.map BitOp.req) (adaptiveEncode Generated.fastdivTab pm ops ++ rest) =
      some (ops.map BitOp.value, rest) :=
  adaptive_decode_encode Generated.fastdivTab divOK_generated pm hpm ops hv
    (by rw [opsBits_length]; exact hlen) rest

/-- an integer stand-in for the `double` model: p0 in 1/256 units, same update rule shape -/
def demoPM : ProbModel := ⟨Nat, 128, fun s => max 1 (min 255 s), fun s b => (s * 127 + (if b then 0 else 256)) / 128⟩

example : adaptiveDecode demoPM [.lsb32 7, .bit, .bit]
      (adaptiveEncode Generated.fastdivTab demoPM [.lsb32 7 100, .bit true, .bit false] ++ [1]) =
    some ([100, 1, 0], [1]) :=
  adaptive_roundtrip demoPM (by intro s; simp [demoPM]; omega)
    [.lsb32 7 100, .bit true, .bit false] (by decide) (by decide) [1]

/-- FoldedBit32Encoder<RAnsBitEncoder> / FoldedBit32Decoder<RAnsBitDecoder> -/
theorem folded_roundtrip (zeroProbRaw : Nat → Nat → Nat) (ops : List BitOp)
    (hv : ∀ op ∈ ops, op.Valid) (hlen : ops.length + 3 < 2^32) (rest : Bytes) :
    foldedRansDecode false (ops.map BitOp.req)
        (foldedRansEncode Generated.fastdivTab zeroProbRaw ops ++ rest) =
      some (ops.map BitOp.value, rest) :=
  foldedRans_decode_encode Generated.fastdivTab divOK_generated zeroProbRaw ops hv hlen rest

example : foldedRansDecode false [.lsb32 5, .bit, .lsb32 32]
      (foldedRansEncode Generated.fastdivTab (fun _ _ => 128)
        [.lsb32 5 21, .bit true, .lsb32 32 7] ++ []) = some ([21, 1, 7], []) :=
  folded_roundtrip _ [.lsb32 5 21, .bit true, .lsb32 32 7] (by decide) (by decide) []

/-- FoldedBit32Encoder<AdaptiveRAnsBitEncoder> / FoldedBit32Decoder<AdaptiveRAnsBitDecoder> -/
theorem foldedAdaptive_roundtrip (pm : ProbModel) (hpm : ∀ s, 1 ≤ pm.p0 s ∧ pm.p0 s ≤ 255)
    (ops : List BitOp) (hv : ∀ op ∈ ops, op.Valid) (hlen : ops.length + 3 < 2^32) (rest : Bytes) :
    foldedDecode (adaptiveDecIface pm) (ops.map BitOp.req)
        (foldedEncode (adaptiveEncIface Generated.fastdivTab pm) ops ++ rest) =
      some (ops.map BitOp.value, rest) :=
  foldedAdaptive_decode_encode Generated.fastdivTab divOK_generated pm hpm ops hv hlen rest

example : foldedDecode (adaptiveDecIface demoPM) [.lsb32 3]
      (foldedEncode (adaptiveEncIface Generated.fastdivTab demoPM) [.lsb32 3 5] ++ [8]) =
    some ([5], [8]) :=
  foldedAdaptive_roundtrip demoPM (by intro s; simp [demoPM]; omega) [.lsb32 3 5]
    (by decide) (by decide) [8]

/-- DirectBitEncoder / DirectBitDecoder: every decoder call returns `true` (`some`) and the
    value of the matching encoder call -/
theorem direct_roundtrip (ops : List BitOp) (hv : ∀ op ∈ ops, op.Valid)
    (hlen : (ops.map BitOp.width).sum + 3 < 2^32) (rest : Bytes) :
    directDecode (ops.map BitOp.req) (directEncode ops ++ rest) =
      some (ops.map (fun op => some op.value), rest) :=
  direct_decode_encode ops hv (by rw [opsBits_length]; exact hlen) rest

example : directDecode [.lsb32 31, .lsb32 32, .bit]
      (directEncode [.lsb32 31 5, .lsb32 32 0xFFFFFFFF, .bit true] ++ [3]) =
    some ([some 5, some 0xFFFFFFFF, some 1], [3]) :=
  direct_roundtrip [.lsb32 31 5, .lsb32 32 0xFFFFFFFF, .bit true] (by decide) (by decide) [3]

/-- DirectBitDecoder past the end: `DecodeNextBit` yields `false` and does not move -/
theorem direct_past_end (d : DirectDec) (h : d.pos = []) : d.nextBit = (false, d) := by
  unfold DirectDec.nextBit; rw [h]

example : (⟨[], 0⟩ : DirectDec).nextBit = (false, ⟨[], 0⟩) := direct_past_end _ rfl

/-- SymbolBitEncoder / SymbolBitDecoder over any symbol coder that round-trips lists of 32-bit
    symbols (`EncodeSymbols` / `DecodeSymbols`, one component) -/
theorem symbolBit_roundtrip (encSymbols : List Nat → Bytes) (decSymbols : Nat → Rd (List Nat))
    (hsym : ∀ (syms : List Nat) (rest : Bytes), (∀ s ∈ syms, s < 2^32) →
      decSymbols syms.length (encSymbols syms ++ rest) = some (syms, rest))
    (ops : List BitOp) (hv : ∀ op ∈ ops, op.Valid) (hlen : ops.length < 2^32) (rest : Bytes) :
    symbolBitDecode decSymbols (ops.map BitOp.req) (symbolBitEncode encSymbols ops ++ rest) =
      some (ops.map (fun op => some op.value), rest) :=
  symbolBit_decode_encode encSymbols decSymbols hsym ops hv hlen rest

/-- a trivial symbol coder (4 raw bytes per symbol) satisfying the hypothesis -/
def rawSymEnc (syms : List Nat) : Bytes := syms.flatMap (writeLE 4)
def rawSymDec (n : Nat) : Rd (List Nat) := fun bs =>
  if bs.length < 4 * n then none else some (readWords32 n bs, bs.drop (4 * n))

example : symbolBitDecode rawSymDec [.lsb32 9, .bit]
      (symbolBitEncode rawSymEnc [.lsb32 9 1000, .bit true] ++ [6]) =
    some ([some 488, some 1], [6]) :=
  symbolBit_roundtrip rawSymEnc rawSymDec
    (by
      intro syms rest h
      have hl := flatMap_writeLE_length syms
      have hr := readWords32_flatMap syms rest h
      unfold rawSymEnc rawSymDec
      generalize syms.flatMap (writeLE 4) = body at *
      have : ¬ (body ++ rest).length < body.length := by simp
      simp only [← hl, this, if_false, hr, List.drop_left'])
    [.lsb32 9 1000, .bit true] (by decide) (by decide) [6]

/-- PROPERTY VIOLATION in the code (kept in the model as `none`): a request on an exhausted
    `SymbolBitDecoder` calls `symbols_.back()` / `pop_back()` on an empty `std::vector` —
    undefined behaviour, an out-of-bounds read in practice (input `00 00 00 00`, one call).
    Only a `DRACO_DCHECK` guards it.  The class is not used by the codec itself. -/
theorem symbolBit_exhausted (req : BitReq) : (symbolBitReq [] req).1 = none := by
  cases req <;> rfl

example : (symbolBitReq [] (.lsb32 5)).1 = none := symbolBit_exhausted _

/-! ### constants regenerated from the working tree -/

/-- The depth limits compiled into the varint decoder (probed from the working tree by the
    translator) are the ones the model uses: an encoder output is never rejected for its length. -/
theorem varint_depth_matches_source :
    Generated.varintMaxLen = [(varintMaxDepth 8 : Int), varintMaxDepth 16, varintMaxDepth 32, varintMaxDepth 64] := by
  decide

/-- the rABS constants of ans.h are the ones the model uses -/
theorem ans_constants_match_source :
    Generated.ansLBase = (ansL : Int) ∧ Generated.ansIoBase = (ansIO : Int) ∧
    Generated.ansP8Precision = (ansP8 : Int) ∧ Generated.ansDivideByMultiply = 1 := by
  decide

/-! ## the source functions *are* the model functions

  `Generated.*` (lean/Generated/Funcs.lean) is translated mechanically from clang's typed AST of /repo's
  working tree on every run (tools/vlib/xlate.py). -/
open Generated in
/-- `ConvertSignedIntToSymbol<int32_t>` is `toSymbol 32` (every `int32_t`) -/
theorem source_toSymbol_is_model (x : Int) (hx : I32 x) :
    ConvertSignedIntToSymbol x = (toSymbol 32 x : Int) := ConvertSignedIntToSymbol_eq_model x hx
example : Generated.ConvertSignedIntToSymbol (-3) = 5 := by
  rw [source_toSymbol_is_model _ (by decide)]; decide

open Generated in
/-- `ConvertSymbolToSignedInt<uint32_t>` is `ofSymbol` (every `uint32_t`) -/
theorem source_ofSymbol_is_model (v : Int) (hv : U32 v) :
    ConvertSymbolToSignedInt v = ofSymbol v.toNat := ConvertSymbolToSignedInt_eq_model v hv
example : Generated.ConvertSymbolToSignedInt 5 = -3 := by
  rw [source_ofSymbol_is_model _ (by decide)]; decide

open Generated in
/-- `ans_write_end` (ans.h), with `mem_put_le16/24` which it calls: the bytes it stores at `buf[buf_offset ..]` (in
    order, at consecutive offsets) and the size it returns are those of `ansWriteEnd`, for every 32-bit state — in
    particular the 1/2/3-byte size classes `state − L < 2^6, 2^14, 2^22` -/
theorem source_ansWriteEnd_is_model (a : AnsCoder) (hs : a.state < 2^32) (hl : a.out.length + 3 < 2^31) :
    let g := ans_write_end ⟨a.out.length, a.state⟩
    (ansWriteEnd a).map Int.ofNat = a.out.reverse.map Int.ofNat ++ g.2.map Prod.snd ∧
    g.2.map Prod.fst = (List.range g.2.length).map (fun i => ((a.out.length + i : Nat) : Int)) ∧
    g.1 = (ansWriteEnd a).length := ans_write_end_eq_model a hs hl
example : (Generated.ans_write_end ⟨1, 4096 + 64⟩) = (3, [(1, 64), (2, 64)]) ∧ ansWriteEnd ⟨4096 + 64, [7]⟩ = [7, 64, 64] := by
  decide

open Generated in
/-- `EncodeVarint<uint32_t>` (core/varint_encoding.h; its recursion unrolled with fuel 5) returns true and appends
    `encVarint v` to the buffer, for every `uint32_t` -/
theorem source_encodeVarint32_is_model (v : Int) (hv : U32 v) :
    EncodeVarint_u32 5 v = some (true, (encVarint v.toNat).map Int.ofNat) := EncodeVarint_u32_eq_model v hv
example : Generated.EncodeVarint_u32 5 300 = some (true, [172, 2]) := by
  rw [source_encodeVarint32_is_model _ (by decide)]; decide

open Generated in
/-- `EncodeVarint<uint64_t>` (fuel 10) appends `encVarint v`, for every `uint64_t` -/
theorem source_encodeVarint64_is_model (v : Int) (h0 : 0 ≤ v) (h1 : v < 2^64) :
    EncodeVarint_u64 10 v = some (true, (encVarint v.toNat).map Int.ofNat) := EncodeVarint_u64_eq_model v h0 h1
example : Generated.EncodeVarint_u64 10 (2^63) = some (true, [128, 128, 128, 128, 128, 128, 128, 128, 128, 1]) := by
  rw [source_encodeVarint64_is_model _ (by decide) (by decide)]; decide

open Generated in
/-- the recursion limit of `DecodeVarintUnsigned<uint32_t / uint64_t>` (the declaration of `max_depth` and the test
    `if (depth > max_depth) return false;`, cut out of the translated function): `max_depth` is `varintMaxDepth w` — the
    byte budget of the model's `decVarint w` — and the call fails exactly beyond it -/
theorem source_varintMaxDepth_is_model (depth : Int) (h0 : 0 ≤ depth) (h1 : depth < 2^31) :
    DecodeVarintUnsigned_depthCheck_u32 depth =
      (if depth > (varintMaxDepth 32 : Nat) then some false else none, ((varintMaxDepth 32 : Nat) : Int)) ∧
    DecodeVarintUnsigned_depthCheck_u64 depth =
      (if depth > (varintMaxDepth 64 : Nat) then some false else none, ((varintMaxDepth 64 : Nat) : Int)) :=
  ⟨DecodeVarintUnsigned_depthCheck_u32_eq_model depth h0 h1, DecodeVarintUnsigned_depthCheck_u64_eq_model depth h0 h1⟩
example : Generated.DecodeVarintUnsigned_depthCheck_u32 6 = (some false, 5) ∧
    Generated.DecodeVarintUnsigned_depthCheck_u64 10 = (none, 10) := by decide

open Generated in
/-- `ans_read_init` on any buffer `pre ++ [top]` whose last byte announces size class 0: failure ↔ the model's `none`;
    on success the state and `buf_offset` are the model's (`Generated.ansInitAgrees`) -/
theorem source_ansReadInit_is_model_x0 (a : Generated.AnsDecoder) (pre : List Nat) (top : Nat)
    (hpre : ∀ b ∈ pre, b < 256) (htop : top < 256) (hx : top / 64 = 0) (hlen : pre.length + 1 < 2^31) :
    ansInitAgrees (ans_read_init a (bufOf (pre ++ [top])) ((pre ++ [top]).length : Nat)) (ansReadInit (pre ++ [top])) :=
  ans_read_init_agrees_x0 a pre top hpre htop hx hlen
open Generated in
/-- `ans_read_init` on any buffer `pre ++ [b1, top]` whose last byte announces size class 1: failure ↔ the model's `none`;
    on success the state and `buf_offset` are the model's (`Generated.ansInitAgrees`) -/
theorem source_ansReadInit_is_model_x1 (a : Generated.AnsDecoder) (pre : List Nat) (b1 top : Nat)
    (hpre : ∀ b ∈ pre, b < 256) (hb1 : b1 < 256) (htop : top < 256) (hx : top / 64 = 1) (hlen : pre.length + 2 < 2^31) :
    ansInitAgrees (ans_read_init a (bufOf (pre ++ [b1, top])) ((pre ++ [b1, top]).length : Nat)) (ansReadInit (pre ++ [b1, top])) :=
  ans_read_init_agrees_x1 a pre b1 top hpre hb1 htop hx hlen
open Generated in
/-- `ans_read_init` on any buffer `pre ++ [b2, b1, top]` whose last byte announces size class 2: failure ↔ the model's `none`;
    on success the state and `buf_offset` are the model's (`Generated.ansInitAgrees`) -/
theorem source_ansReadInit_is_model_x2 (a : Generated.AnsDecoder) (pre : List Nat) (b2 b1 top : Nat)
    (hpre : ∀ b ∈ pre, b < 256) (hb2 : b2 < 256) (hb1 : b1 < 256) (htop : top < 256) (hx : top / 64 = 2) (hlen : pre.length + 3 < 2^31) :
    ansInitAgrees (ans_read_init a (bufOf (pre ++ [b2, b1, top])) ((pre ++ [b2, b1, top]).length : Nat)) (ansReadInit (pre ++ [b2, b1, top])) :=
  ans_read_init_agrees_x2 a pre b2 b1 top hpre hb2 hb1 htop hx hlen
example : Generated.ansInitAgrees (Generated.ans_read_init ⟨0, 0⟩ (Generated.bufOf ([9] ++ [64, 64])) (3 : Nat))
    (ansReadInit ([9] ++ [64, 64])) :=
  source_ansReadInit_is_model_x1 _ [9] 64 64 (by decide) (by decide) (by decide) (by decide) (by decide)

open Generated in
/-- `DecodeVarintUnsigned<uint32_t>` / `<uint64_t>` as a whole — `buffer->Decode(&in)` as a byte source with a position, the
    recursion unrolled with fuel `max_depth + 1` — is the model's `decVarint 32` / `decVarint 64`: it fails exactly when the
    model does; otherwise it stores the model's value and leaves the model's rest of the stream -/
theorem source_decodeVarint_is_model (v0 : Int) (bs : List Nat) (hb : ∀ b ∈ bs, b < 256) :
    (match decVarint 32 bs with
     | none => ∃ v' r', DecodeVarintUnsigned_u32 6 1 v0 (bs.map Int.ofNat) = some (false, v', r')
     | some (v, rest) => DecodeVarintUnsigned_u32 6 1 v0 (bs.map Int.ofNat) = some (true, (v : Int), rest.map Int.ofNat)) ∧
    (match decVarint 64 bs with
     | none => ∃ v' r', DecodeVarintUnsigned_u64 11 1 v0 (bs.map Int.ofNat) = some (false, v', r')
     | some (v, rest) => DecodeVarintUnsigned_u64 11 1 v0 (bs.map Int.ofNat) = some (true, (v : Int), rest.map Int.ofNat)) :=
  ⟨DecodeVarintUnsigned_u32_eq_model v0 bs hb, DecodeVarintUnsigned_u64_eq_model v0 bs hb⟩
example : Generated.DecodeVarintUnsigned_u32 6 1 0 [172, 2, 9] = some (true, 300, [9]) := by decide

open Generated in
/-- `ReverseBits32` and `CountOneBits32` (core/bit_utils.h) are the model's `reverseBits32` / `countOneBits32` on every
    `uint32_t` -/
theorem source_bitUtils_is_model (n : Nat) (hn : n < 2^32) :
    ReverseBits32 (n : Int) = (reverseBits32 n : Int) ∧ CountOneBits32 (n : Int) = (countOneBits32 n : Int) :=
  ⟨ReverseBits32_eq_model n hn, CountOneBits32_eq_model n hn⟩
example : Generated.ReverseBits32 (1 : Nat) = 2147483648 ∧ Generated.CountOneBits32 (255 : Nat) = 8 := by
  have := source_bitUtils_is_model 1 (by decide)
  have h := source_bitUtils_is_model 255 (by decide)
  exact ⟨by rw [this.1]; decide, by rw [h.2]; decide⟩

open Generated in
/-- `CopyBits32(&dst, dst_offset, src, src_offset, nbits)` (core/bit_utils.h; the new `*dst`) is the model's `copyBits32`
    for every `uint32_t` destination, any source and offsets, `nbits ≤ 32` -/
theorem source_copyBits32_is_model (dst dOff src sOff nbits : Nat) (hd : dst < 2^32) (hn : nbits ≤ 32) :
    CopyBits32 (dst : Int) (dOff : Int) (src : Int) (sOff : Int) (nbits : Int) =
      (copyBits32 dst dOff src sOff nbits : Int) := CopyBits32_eq_model dst dOff src sOff nbits hd hn
example : Generated.CopyBits32 (0 : Nat) (4 : Nat) (255 : Nat) (0 : Nat) (3 : Nat) = 112 := by
  rw [source_copyBits32_is_model 0 4 255 0 3 (by decide) (by decide)]; decide

end Draco.C17
