import DracoProps.C10
import DracoProofs.KdSkip
import DracoProofs.SeqRows
import DracoProofs.KdEncTuples
import DracoProps.C01Kd
/-
  C10 — `SetSkipAttributeTransform` on the kd-tree path (staging file of the kd-tree slice, to be
  merged into DracoProps/C10.lean).

  `C10.SkipGeomOK Kd.decodeKdGeometry` — the hypothesis `C10.skip_of_normal_with` carries for the kd-tree
  body decoder — is FALSE of the code as stated: `C10.SkipRel` requires the exposed attribute to have
  data type `DT_INT32`, which is what the sequential controller produces, but
  `KdTreeAttributesDecoder::DecodePortableAttributes` creates its portable attributes as `DT_UINT32`
  (`va.Init(…, DT_UINT32, …)`) and `TransformAttributesToOriginalFormat` copies them out as they are
  (`kd_skipGeomOK_false`: a 61-byte witness body).  The bytes are the same little-endian words, so
  the property itself ("the integer values together with a transform description, and applying that
  described transform yields the ordinary decode") holds: `SkipRelU` is `SkipRel` with the data type
  clause widened to "a 32-bit integer type" (`DT_INT32` or `DT_UINT32`; `Spec.skipCheck`, the
  executable form evaluated on the implementation, accepts both as well), and everything else is
  proved with it:

    `kd_skipGeomOKU`            `SkipGeomOKU Kd.decodeKdGeometry`, all streams, no hypothesis
    `skip_of_normal_with_u`     the dispatcher over any Edgebreaker body with `SkipGeomOKU`
    `pointcloud_kd_skip_roundtrip`  on the encoder model's outputs, any skip list
-/
namespace Draco
namespace C10Kd
open DecM C10

/-- `C10.SkipRel` with the exposed data type widened to the two 32-bit integer types -/
def SkipRelU (S : List Nat) (a aS : Attribute) : Prop :=
  aS.uniqueId = a.uniqueId ∧ aS.attType = a.attType ∧ aS.map = a.map ∧
  aS.numValues = a.numValues ∧ a.transform = .none ∧
  (aS = a ∨
   (a.attType ∈ S ∧
     (aS.dataType = Generated.DT_INT32.toNat ∨ aS.dataType = Generated.DT_UINT32.toNat) ∧
     aS.normalized = false ∧
     ∃ portable : List Int, aS.values = (portable.map (intToLE 4)).flatten ∧
       match aS.transform with
       | .none =>
         aS.numComponents = a.numComponents ∧ 1 ≤ a.dataType ∧ a.dataType ≤ 6 ∧
         a.values = (portable.map (intToLE (dataTypeLength a.dataType))).flatten
       | .quantization bits mins range =>
         aS.numComponents = a.numComponents ∧ a.dataType = Generated.DT_FLOAT32.toNat ∧
         1 ≤ bits ∧ bits ≤ 30 ∧
         a.values = (dequantAll range bits.toNat mins portable mins []).flatten
       | .octahedron bits =>
         aS.numComponents = 2 ∧ a.numComponents = 3 ∧
         a.dataType = Generated.DT_FLOAT32.toNat ∧ 2 ≤ bits ∧ bits ≤ 30 ∧
         a.values = (octaAll bits.toNat portable []).flatten)) ∧
  (a.attType ∉ S → aS = a)

theorem SkipRel.toU {S : List Nat} {a aS : Attribute} (h : SkipRel S a aS) : SkipRelU S a aS := by
  obtain ⟨h1, h2, h3, h4, h5, h6, h7⟩ := h
  refine ⟨h1, h2, h3, h4, h5, ?_, h7⟩
  rcases h6 with h6 | ⟨m, dt, nz, p⟩
  · exact Or.inl h6
  · exact Or.inr ⟨m, Or.inl dt, nz, p⟩

example : SkipRelU [0] default default :=
  SkipRel.toU ⟨rfl, rfl, rfl, rfl, rfl, Or.inl rfl, fun _ => rfl⟩

/-- what a body decoder has to satisfy for the main direction of C10, with `SkipRelU` -/
def SkipGeomOKU (dec : DecOpts → DecM Geometry) : Prop :=
  ∀ (S : List Nat) (s : DSt) (g : Geometry) (s' : DSt), dec {} s = (some g, s') →
    ∃ gS, dec { skip := S } s = (some gS, s') ∧ gS.isMesh = g.isMesh ∧
      gS.numPoints = g.numPoints ∧ gS.faces = g.faces ∧
      List.Forall₂ (SkipRelU S) g.atts gS.atts

theorem SkipGeomOK.toU {dec : DecOpts → DecM Geometry} (h : SkipGeomOK dec) : SkipGeomOKU dec := by
  intro S s g s' hd
  obtain ⟨gS, h1, h2, h3, h4, h5⟩ := h S s g s' hd
  exact ⟨gS, h1, h2, h3, h4, h5.imp fun _ _ hr => SkipRel.toU hr⟩

/-! ### one attribute -/

theorem intToLE_toSigned (v : Nat) : intToLE 4 (toSigned 32 v) = writeLE 4 v := by
  unfold intToLE
  rw [← writeLE_mod 4 v, ← writeLE_mod 4 (toUnsigned 32 (toSigned 32 v))]
  congr 1
  unfold toUnsigned toSigned
  have e1 : (2:Nat) ^ 32 = 4294967296 := by decide
  have e2 : (2:Nat) ^ (32 - 1) = 2147483648 := by decide
  have e4 : (256:Nat) ^ 4 = 4294967296 := by decide
  simp only [e1, e2, e4]
  split <;> omega

theorem dequantRow_mapRow (range bits : Nat) : ∀ (mins r : List Nat),
    SeqEnc.dequantRow range bits mins (r.map (toSigned 32)) =
      (Kd.mapRow (fun m v => Leaf.dequant range bits m (toSigned 32 v)) mins r).flatMap (writeLE 4) := by
  intro mins
  induction mins with
  | nil => intro r; cases r <;> simp [SeqEnc.dequantRow, Kd.mapRow]
  | cons m ms ih =>
    intro r
    cases r with
    | nil => simp [SeqEnc.dequantRow, Kd.mapRow]
    | cons v vs =>
      have := ih vs
      simp only [SeqEnc.dequantRow, List.map_cons, List.zipWith_cons_cons, List.flatten_cons, Kd.mapRow,
        List.flatMap_cons] at this ⊢
      rw [this]

theorem portable_row (r : List Nat) :
    r.flatMap (writeLE 4) = ((r.map (toSigned 32)).map (intToLE 4)).flatten := by
  induction r with
  | nil => rfl
  | cons v vs ih => simp only [List.flatMap_cons, List.map_cons, List.flatten_cons, intToLE_toSigned, ih]

theorem portable_bytes (rows : List (List Nat)) :
    (rows.flatMap fun r => r.flatMap (writeLE 4)) =
      ((rows.map (·.map (toSigned 32))).flatten.map (intToLE 4)).flatten := by
  induction rows with
  | nil => rfl
  | cons r rs ih =>
    simp only [List.flatMap_cons, List.map_cons, List.flatten_cons, List.map_append, List.flatten_append]
    rw [ih, portable_row]

theorem dequant_values (range bits : Nat) (mins : List Nat) (hne : mins ≠ []) (rows : List (List Nat))
    (hrow : ∀ r ∈ rows, r.length = mins.length) :
    (rows.flatMap fun r =>
        (Kd.mapRow (fun m v => Leaf.dequant range bits m (toSigned 32 v)) mins r).flatMap (writeLE 4)) =
      (dequantAll range bits mins (rows.map (·.map (toSigned 32))).flatten mins []).flatten := by
  rw [dequantAll_rows range bits mins hne (rows.map (·.map (toSigned 32))) [] (by
    intro r hr
    simp only [List.mem_map] at hr
    obtain ⟨r0, hr0, rfl⟩ := hr
    rw [List.length_map, hrow r0 hr0])]
  simp only [List.reverse_nil, List.flatten_nil, List.nil_append, List.map_map]
  clear hrow
  induction rows with
  | nil => rfl
  | cons r rs ih =>
    simp only [List.flatMap_cons, List.map_cons, List.flatten_cons, Function.comp, ih, dequantRow_mapRow]

/-- the float attribute finished with and without its type in the skip list -/
theorem finishAttribute_skipRelU (S : List Nat) (n dim : Nat) (ka : Kd.KdAtt) (t : Kd.KdTransform)
    (rows : List (List Nat)) (hka : Kd.KdAttOK dim ka) (ht : Kd.TransOK ka t) (hb : Kd.BitsOK t)
    (hrow : ∀ r ∈ rows, r.length = ka.desc.numComponents) :
    SkipRelU S (Kd.finishAttribute {} n ka t rows) (Kd.finishAttribute { skip := S } n ka t rows) := by
  cases t with
  | none => exact ⟨rfl, rfl, rfl, rfl, rfl, Or.inl rfl, fun _ => rfl⟩
  | signed mins => exact ⟨rfl, rfl, rfl, rfl, rfl, Or.inl rfl, fun _ => rfl⟩
  | quant bits mins range =>
    simp only [Kd.TransOK] at ht
    simp only [Kd.BitsOK] at hb
    obtain ⟨hf1, _⟩ := hka.float ht.1
    have hne : mins ≠ [] := by
      intro h; have := hka.nc; rw [h] at ht; simp at ht; omega
    have ha : Kd.finishAttribute {} n ka (.quant bits mins range) rows =
        ka.desc.toAttribute n (rows.flatMap fun r =>
          (Kd.mapRow (fun m v => Leaf.dequant range bits m (toSigned 32 v)) mins r).flatMap (writeLE 4)) := rfl
    by_cases hm : ka.desc.attType ∈ S
    · have hc : (({ skip := S } : DecOpts).skip.contains ka.desc.attType) = true := by simpa using hm
      have haS : Kd.finishAttribute { skip := S } n ka (.quant bits mins range) rows =
          { attType := ka.desc.attType, dataType := Generated.DT_UINT32.toNat,
            numComponents := ka.desc.numComponents, normalized := false, uniqueId := ka.desc.uniqueId,
            numValues := n, map := none, values := rows.flatMap fun r => r.flatMap (writeLE 4),
            transform := .quantization bits mins range } := by
        simp only [Kd.finishAttribute, hc, if_true]
      rw [ha, haS]
      refine ⟨rfl, rfl, rfl, rfl, rfl, Or.inr ⟨hm, Or.inr rfl, rfl,
        (rows.map (·.map (toSigned 32))).flatten, portable_bytes rows, ?_⟩, fun h => absurd hm h⟩
      refine ⟨rfl, hf1, by omega, by omega, ?_⟩
      simp only [Int.toNat_natCast, AttDesc.toAttribute]
      exact dequant_values range bits mins hne rows (fun r hr => by rw [hrow r hr, ht.2])
    · have hc : (({ skip := S } : DecOpts).skip.contains ka.desc.attType) = false := by simpa using hm
      have haS : Kd.finishAttribute { skip := S } n ka (.quant bits mins range) rows =
          Kd.finishAttribute {} n ka (.quant bits mins range) rows := by
        simp only [Kd.finishAttribute, hc, Bool.false_eq_true, if_false]
        rfl
      rw [haS]
      exact ⟨rfl, rfl, rfl, rfl, rfl, Or.inl rfl, fun _ => rfl⟩

/-! ### all attributes, the body decoder -/

theorem zip3_skipRelU (S : List Nat) (n dim : Nat) (pts : List (List Nat))
    (hpts : ∀ q ∈ pts, q.length = dim) : ∀ (kas : List Kd.KdAtt) (ts : List Kd.KdTransform),
    List.Forall₂ Kd.TransOK kas ts → (∀ ka ∈ kas, Kd.KdAttOK dim ka) → (∀ t ∈ ts, Kd.BitsOK t) →
    List.Forall₂ (SkipRelU S)
      (Kd.zip3With (Kd.finishAttribute {} n) kas ts (kas.map fun ka => pts.map (Kd.attRow ka)))
      (Kd.zip3With (Kd.finishAttribute { skip := S } n) kas ts (kas.map fun ka => pts.map (Kd.attRow ka))) := by
  intro kas ts h
  induction h with
  | nil => intro _ _; exact List.Forall₂.nil
  | @cons ka t kas ts h1 _ ih =>
    intro hk hb
    simp only [List.map_cons, Kd.zip3With]
    refine List.Forall₂.cons ?_ (ih (fun x hx => hk x (by simp [hx])) (fun x hx => hb x (by simp [hx])))
    apply finishAttribute_skipRelU S n dim ka t _ (hk ka (by simp)) h1 (hb t (by simp))
    intro r hr
    simp only [List.mem_map] at hr
    obtain ⟨q, hq, rfl⟩ := hr
    exact Kd.attRow_length dim ka (hk ka (by simp)) q (hpts q hq)

theorem finishParts_skipRelU (S : List Nat) (n : Nat) (p : Kd.KdParts) (hok : p.OK n) :
    List.Forall₂ (SkipRelU S) (Kd.finishParts {} n p) (Kd.finishParts { skip := S } n p) :=
  zip3_skipRelU S n p.dim p.pts hok.ptLen p.kas p.ts hok.rel hok.atts hok.bits

theorem forall2_flatten_map {α β : Type} (R : β → β → Prop) (f g : α → List β) : ∀ (l : List α),
    (∀ x ∈ l, List.Forall₂ R (f x) (g x)) → List.Forall₂ R (l.map f).flatten (l.map g).flatten := by
  intro l
  induction l with
  | nil => intro _; exact List.Forall₂.nil
  | cons x xs ih =>
    intro h
    simp only [List.map_cons, List.flatten_cons]
    exact List.rel_append (h x (by simp)) (ih (fun y hy => h y (by simp [hy])))

/-- **C10 for the kd-tree body decoder** (`PointCloudKdTreeDecoder`, bitstream 2.3), all streams, all
    skip lists: whenever the ordinary decode accepts, the decode with skip list `S` accepts too, ends
    in the SAME decoder state (same input consumed, same allocation log), returns the same number of
    points and, attribute by attribute, results related by `SkipRelU S`: same unique id (cf. the
    `fix:` commit 05a8d1d), type, identity map and number of values; identical unless the attribute is
    a quantized float attribute whose type is in `S`, in which case the skipped decode exposes the
    `DT_UINT32` portable values with the quantization parameters `(bits, mins, range)`, `1 ≤ bits ≤ 30`,
    and `InverseTransformAttribute` of those values with those parameters is bit for bit the ordinary
    decode.  (Integer attributes have no transform on this path: they are returned identically.) -/
theorem kd_skipGeomOKU : SkipGeomOKU Kd.decodeKdGeometry := by
  intro S s g s' h
  by_cases hv : s.version < bsVersion 2 3
  · -- legacy bitstream: the options are not looked at (`kd_skip_legacy`)
    rw [Kd.decodeKdGeometry_legacy_eq _ s hv] at h
    obtain ⟨_, _, hplain⟩ := Kd.decodeKdGeometryLegacy_plain s s' g h
    refine ⟨g, by rw [Kd.decodeKdGeometry_legacy_eq _ s hv]; exact h, rfl, rfl, rfl, ?_⟩
    generalize g.atts = atts at hplain
    induction atts with
    | nil => exact List.Forall₂.nil
    | cons a as ih =>
      exact List.Forall₂.cons ⟨rfl, rfl, rfl, rfl, hplain a (by simp), Or.inl rfl, fun _ => rfl⟩
        (ih (fun x hx => hplain x (by simp [hx])))
  obtain ⟨n, ps, psok, replay⟩ := Kd.decodeKdGeometry_parts {} s s' g hv h
  have hg := replay {}
  rw [h] at hg
  simp only [Prod.mk.injEq, Option.some.injEq, and_true] at hg
  refine ⟨_, replay { skip := S }, ?_, ?_, ?_, ?_⟩
  · rw [hg]
  · rw [hg]
  · rw [hg]
  · rw [hg]
    exact forall2_flatten_map (SkipRelU S) _ _ ps (fun p hp => finishParts_skipRelU S n p (psok p hp))

/-- **C10 on legacy (< 2.3) kd-tree streams**: `skip_attribute_transform` has no effect at all — below
    2.3 `KdTreeAttributesDecoder` decodes straight into the final attributes (the float method dequantizes
    inside `FloatPointsTreeDecoder`, signed integers are not converted), no portable attribute and no
    transform data exist.  For EVERY state (accepting or not) the decode with any options is the
    decode with no options: same result, same final state. -/
theorem kd_skip_legacy (opts : DecOpts) (s : DSt) (hv : s.version < bsVersion 2 3) :
    Kd.decodeKdGeometry opts s = Kd.decodeKdGeometry {} s := by
  rw [Kd.decodeKdGeometry_legacy_eq opts s hv, Kd.decodeKdGeometry_legacy_eq {} s hv]

/-- … and what is returned carries no transform data (so `Spec.skipCheck` compares it for equality) -/
theorem kd_skip_legacy_plain (opts : DecOpts) (s s' : DSt) (g : Geometry) (hv : s.version < bsVersion 2 3)
    (h : Kd.decodeKdGeometry opts s = (some g, s')) :
    g.isMesh = false ∧ g.faces = [] ∧ ∀ a ∈ g.atts, a.transform = .none := by
  rw [Kd.decodeKdGeometry_legacy_eq opts s hv] at h
  exact Kd.decodeKdGeometryLegacy_plain s s' g h

/-- non-vacuity: a 2.2 stream body with one point and no attributes decoders -/
example : Kd.decodeKdGeometry { skip := [0] } { rest := [1, 0, 0, 0, 0], version := 514 } =
    Kd.decodeKdGeometry {} { rest := [1, 0, 0, 0, 0], version := 514 } :=
  kd_skip_legacy _ _ (by decide)

/-- the accept sets coincide on this path: nothing in `TransformAttributesToOriginalFormat` of the
    kd-tree decoder can fail (unlike the sequential controller, cf. `C10.skip_accepts_more_witness`) -/
theorem kd_skip_accept_iff (S : List Nat) (s : DSt) :
    (Kd.decodeKdGeometry {} s).1.isSome = (Kd.decodeKdGeometry { skip := S } s).1.isSome := by
  cases h1 : Kd.decodeKdGeometry {} s with
  | mk o s' =>
    cases o with
    | some g =>
      obtain ⟨gS, hS, _⟩ := kd_skipGeomOKU S s g s' h1
      rw [hS]
      rfl
    | none =>
      cases h2 : Kd.decodeKdGeometry { skip := S } s with
      | mk o2 s2 =>
        cases o2 with
        | none => rfl
        | some g2 =>
          by_cases hv : s.version < bsVersion 2 3
          · rw [kd_skip_legacy _ s hv, h1] at h2
            cases h2
          obtain ⟨n, ps, _, replay⟩ := Kd.decodeKdGeometry_parts { skip := S } s s2 g2 hv h2
          have := replay {}
          rw [h1] at this
          cases this

/-- non-vacuity: a 3-point cloud without attributes decoders -/
example : ∃ gS s', Kd.decodeKdGeometry { skip := [0] } { rest := [3, 0, 0, 0, 0], version := 515 } =
    (some gS, s') ∧ gS.numPoints = 3 := by
  have h : (Kd.decodeKdGeometry {} { rest := [3, 0, 0, 0, 0], version := 515 }).1 =
      some { isMesh := false, numPoints := 3, faces := [], atts := [] } := by decide +kernel
  cases hd : Kd.decodeKdGeometry {} { rest := [3, 0, 0, 0, 0], version := 515 } with
  | mk o s' =>
    rw [hd] at h
    simp only at h
    subst h
    obtain ⟨gS, h1, _, h3, _⟩ := kd_skipGeomOKU [0] _ _ _ hd
    exact ⟨gS, s', h1, h3⟩

/-! ### `C10.SkipGeomOK` itself is false for the kd-tree body decoder -/

/-- body of a kd-tree point cloud stream (bitstream 2.3): 1 point, one POSITION attribute with one
    float32 component quantized to 8 bits, compression level 0, bit length 0 -/
def kdFloatBody : Bytes :=
  [1, 0, 0, 0, 1, 1, 0, 9, 1, 0, 0, 0, 0, 0, 0, 0, 1, 0, 0, 0, 4, 0, 0, 0, 0, 0, 0, 0, 4, 0, 0, 0, 0, 0, 0, 0,
   4, 0, 0, 0, 0, 0, 0, 0, 4, 0, 0, 0, 0, 0, 0, 0, 0, 0, 0, 0, 0, 0, 128, 63, 8]

theorem kdFloatBody_normal :
    (Kd.decodeKdGeometry {} { rest := kdFloatBody, version := 515 }).1.map (fun g => g.atts.map (·.dataType)) =
      some [9] := by decide +kernel

theorem kdFloatBody_skipped :
    (Kd.decodeKdGeometry { skip := [0] } { rest := kdFloatBody, version := 515 }).1.map
      (fun g => g.atts.map (·.dataType)) = some [6] := by decide +kernel

/-- **`C10.SkipGeomOK Kd.decodeKdGeometry` is FALSE of the code**: with POSITION skipped the kd-tree
    decoder exposes the quantized values as a `DT_UINT32` attribute (data type 6), not `DT_INT32` as
    `C10.SkipRel` demands (the C++ creates the portable attribute with `DT_UINT32` and `CopyFrom`s it).
    `kd_skipGeomOKU` is the true statement. -/
theorem kd_skipGeomOK_false : ¬ SkipGeomOK Kd.decodeKdGeometry := by
  intro h
  have hn := kdFloatBody_normal
  have hs := kdFloatBody_skipped
  cases hd : Kd.decodeKdGeometry {} { rest := kdFloatBody, version := 515 } with
  | mk o s' =>
    rw [hd] at hn
    cases o with
    | none => cases hn
    | some g =>
      simp only [Option.map_some, Option.some.injEq] at hn
      obtain ⟨gS, hS, _, _, _, hrel⟩ := h [0] _ g s' hd
      rw [hS] at hs
      simp only [Option.map_some, Option.some.injEq] at hs
      -- one attribute on each side, data types 9 and 6
      generalize g.atts = ga at hn hrel
      generalize gS.atts = gb at hs hrel
      cases hrel with
      | nil => simp at hn
      | @cons a aS as aSs hr _ =>
        simp only [List.map_cons, List.cons.injEq] at hn hs
        obtain ⟨_, _, _, _, _, hor, _⟩ := hr
        rcases hor with heq | ⟨_, hdt, _⟩
        · rw [heq] at hs; omega
        · rw [hdt] at hs
          exact absurd hs.1 (by decide)

/-! ### the dispatcher -/

/-- `C10.skip_of_normal_with` for `SkipRelU`: the main direction of C10 for the dispatcher over ANY
    Edgebreaker / kd-tree body decoders satisfying `SkipGeomOKU`, for ALL streams -/
theorem skip_of_normal_with_u (eb kd : DecOpts → DecM Geometry) (heb : SkipGeomOKU eb)
    (hkd : SkipGeomOKU kd) (S : List Nat) (s s' : DSt) (r : DecodeResult)
    (h : decodeStreamWith eb kd {} s = (some r, s')) :
    ∃ rS, decodeStreamWith eb kd { skip := S } s = (some rS, s') ∧ rS.metadata = r.metadata ∧
      rS.geometry.isMesh = r.geometry.isMesh ∧ rS.geometry.numPoints = r.geometry.numPoints ∧
      rS.geometry.faces = r.geometry.faces ∧
      List.Forall₂ (SkipRelU S) r.geometry.atts rS.geometry.atts := by
  obtain ⟨fg, s1, hfg, hfin⟩ := (decodeStreamWith_some_iff eb kd {} s s' r).1 h
  have body : ∀ (dec : DecOpts → DecM Geometry) (md : Option GeometryMetadata), SkipGeomOKU dec →
      (do let g ← dec {}; pure (⟨g, md⟩ : DecodeResult)) s1 = (some r, s') →
      ∃ rS, (do let g ← dec { skip := S }; pure (⟨g, md⟩ : DecodeResult)) s1 = (some rS, s') ∧
        rS.metadata = r.metadata ∧ rS.geometry.isMesh = r.geometry.isMesh ∧
        rS.geometry.numPoints = r.geometry.numPoints ∧ rS.geometry.faces = r.geometry.faces ∧
        List.Forall₂ (SkipRelU S) r.geometry.atts rS.geometry.atts := by
    intro dec md hdec hrun
    simp only [bind] at hrun ⊢
    obtain ⟨g, s2, hg, hp⟩ := (DecM.andThen_some _ _ s1 s' r).1 hrun
    cases hp
    obtain ⟨gS, hgS, e1, e2, e3, e4⟩ := hdec S s1 g s' hg
    exact ⟨⟨gS, md⟩, (DecM.andThen_some _ _ s1 s' _).2 ⟨gS, s', hgS, rfl⟩, rfl, e1, e2, e3, e4⟩
  cases fg with
  | seq fr =>
    have hfr : geomFront s = (some fr, s1) := (geomFront_some_iff s s1 fr).2 hfg
    have hfin' : finishGeom {} fr s1 = (some r, s') := hfin
    rw [finishGeom_eq, DecM.ofOption_some] at hfin'
    obtain ⟨hpure, rfl⟩ := hfin'
    rw [finishGeomPureV_eq s s' fr hfr] at hpure
    obtain ⟨rS, hrS, hsame⟩ := finishGeomPure_rel (SkipRelU S) [] S fr
      (fun sts hst x hxm a ha => by
        obtain ⟨aS, h1, h2⟩ := finishPure_skipRel S fr.numPoints x (geomFront_wf s s' fr hfr sts hst x hxm) a ha
        exact ⟨aS, h1, SkipRel.toU h2⟩) r hpure
    refine ⟨rS, (decodeStreamWith_some_iff eb kd _ s s' rS).2 ⟨.seq fr, s', hfg, ?_⟩, hsame⟩
    show finishGeom { skip := S } fr s' = (some rS, s')
    rw [finishGeom_eq, DecM.ofOption_some, finishGeomPureV_eq s s' fr hfr]
    exact ⟨hrS, rfl⟩
  | eb md =>
    obtain ⟨rS, hrS, hsame⟩ := body eb md heb hfin
    exact ⟨rS, (decodeStreamWith_some_iff eb kd _ s s' rS).2 ⟨.eb md, s1, hfg, hrS⟩, hsame⟩
  | kd md =>
    obtain ⟨rS, hrS, hsame⟩ := body kd md hkd hfin
    exact ⟨rS, (decodeStreamWith_some_iff eb kd _ s s' rS).2 ⟨.kd md, s1, hfg, hrS⟩, hsame⟩

/-- … with the kd-tree hypothesis discharged: only the Edgebreaker body remains a hypothesis -/
theorem skip_of_normal_kd (eb : DecOpts → DecM Geometry) (heb : SkipGeomOKU eb) (S : List Nat)
    (s s' : DSt) (r : DecodeResult)
    (h : decodeStreamWith eb Kd.decodeKdGeometry {} s = (some r, s')) :
    ∃ rS, decodeStreamWith eb Kd.decodeKdGeometry { skip := S } s = (some rS, s') ∧
      rS.metadata = r.metadata ∧ rS.geometry.isMesh = r.geometry.isMesh ∧
      rS.geometry.numPoints = r.geometry.numPoints ∧ rS.geometry.faces = r.geometry.faces ∧
      List.Forall₂ (SkipRelU S) r.geometry.atts rS.geometry.atts :=
  skip_of_normal_with_u eb Kd.decodeKdGeometry heb kd_skipGeomOKU S s s' r h

/-- a run that succeeds with a rejecting Edgebreaker body never entered it: it succeeds with the
    same result for every Edgebreaker body -/
theorem run_transfer_eb (eb : DecOpts → DecM Geometry) (kd : DecOpts → DecM Geometry) (o : DecOpts)
    (s s' : DSt) (r : DecodeResult)
    (h : decodeStreamWith (fun _ => failWith (.unsupported "edgebreaker")) kd o s = (some r, s')) :
    decodeStreamWith eb kd o s = (some r, s') := by
  obtain ⟨fg, s1, hfg, hfin⟩ := (decodeStreamWith_some_iff _ kd o s s' r).1 h
  refine (decodeStreamWith_some_iff eb kd o s s' r).2 ⟨fg, s1, hfg, ?_⟩
  cases fg with
  | seq fr => exact hfin
  | eb md => cases hfin
  | kd md => exact hfin

/-- **C10 on the outputs of the kd-tree encoder model**: for every skip list the decode of
    `encodeGeometryKd …` (followed by arbitrary bytes) succeeds, ends in the same state as the
    ordinary decode — whose geometry `g'` is `expectedKd g opts` up to the order of the points
    (`pointcloud_kd_roundtrip`) —, leaves exactly `extra` unread, returns the metadata, the same
    number of points and attributes related to those of `g'` by `SkipRelU S`. -/
theorem pointcloud_kd_skip_roundtrip (ch : KdEnc.Choices) (hpart : Kd.PartSpec ch.part) (g : Geometry)
    (md : Option GeometryMetadata) (opts : SeqEnc.EncOpts) (bs : Bytes)
    (hok : KdEnc.GeomOK g opts) (hmd : ∀ m, md = some m → m.WF')
    (henc : KdEnc.encodeGeometryKd ch g md opts = some bs) (extra : Bytes) (S : List Nat) :
    ∃ g' gS st, decodeGeometry {} { rest := bs ++ extra } = (some ⟨g', md⟩, st) ∧
      decodeGeometry { skip := S } { rest := bs ++ extra } = (some ⟨gS, md⟩, st) ∧ st.rest = extra ∧
      KdEnc.SameUpToPointOrder g' (KdEnc.expectedKd g opts) ∧
      gS.isMesh = false ∧ gS.numPoints = g'.numPoints ∧ gS.faces = [] ∧
      List.Forall₂ (SkipRelU S) g'.atts gS.atts := by
  obtain ⟨g', st, h1, h2, h3⟩ := KdEnc.kd_roundtrip ch hpart g md opts bs hok hmd henc extra
  -- the same run with a rejecting Edgebreaker body
  have hfull : ∃ encs, KdEnc.encodeGeometryKdFull ch g md opts = some (bs, encs) := by
    unfold KdEnc.encodeGeometryKd at henc
    cases hf : KdEnc.encodeGeometryKdFull ch g md opts with
    | none => rw [hf] at henc; cases henc
    | some r =>
      obtain ⟨bs', encs⟩ := r
      rw [hf] at henc
      simp only [Option.map_some, Option.some.injEq] at henc
      subst henc
      exact ⟨encs, rfl⟩
  obtain ⟨encs, hf⟩ := hfull
  obtain ⟨r0, st0, e1, _, _, _⟩ :=
    (KdEnc.runsP_decodeStreamWith (fun _ => failWith (.unsupported "edgebreaker")) ch hpart g md opts bs encs
      hok hmd hf).run { rest := bs ++ extra } extra rfl rfl
  have e1' := run_transfer_eb Eb.decodeEdgebreaker Kd.decodeKdGeometry {} _ _ _ e1
  have heq : (some r0, st0) = (some (⟨g', md⟩ : DecodeResult), st) := by
    rw [← e1', ← h1]; rfl
  simp only [Prod.mk.injEq, Option.some.injEq] at heq
  obtain ⟨rfl, rfl⟩ := heq
  obtain ⟨rS, k1, k2, k3, k4, k5, k6⟩ := skip_of_normal_with_u _ Kd.decodeKdGeometry
    (fun S s g s' h => by cases h) kd_skipGeomOKU S _ _ _ e1
  have k1' := run_transfer_eb Eb.decodeEdgebreaker Kd.decodeKdGeometry { skip := S } _ _ _ k1
  obtain ⟨gS, mdS⟩ := rS
  simp only at k2 k3 k4 k5 k6
  subst k2
  refine ⟨g', gS, st0, h1, k1', h2, h3, ?_, k4, ?_, k6⟩
  · rw [k3]; exact h3.1.trans rfl
  · rw [k5]; exact h3.2.2.1.trans rfl

/-- non-vacuity: the sample cloud of `C01Kd` (integer attributes: the skipped decode is identical) -/
example : ∃ bs, ∃ (g' gS : Geometry), ∃ st, KdEnc.encodeGeometryKd C01Kd.sampleKdChoices C01Kd.sampleKdPC none C01Kd.sampleKdOpts = some bs ∧
    decodeGeometry { skip := [0, 2] } { rest := bs ++ [9] } = (some ⟨gS, none⟩, st) ∧ st.rest = [9] ∧
    List.Forall₂ (SkipRelU [0, 2]) g'.atts gS.atts := by
  obtain ⟨bs, hbs⟩ := C01Kd.sampleKdPC_encodes
  obtain ⟨g', gS, st, _, h2, h3, _, _, _, _, h8⟩ := pointcloud_kd_skip_roundtrip C01Kd.sampleKdChoices
    Kd.partSpec_std C01Kd.sampleKdPC none C01Kd.sampleKdOpts bs C01Kd.sampleKdPC_ok (fun m h => by cases h) hbs [9] [0, 2]
  exact ⟨bs, g', gS, st, hbs, h2, h3, h8⟩

end C10Kd
end Draco
