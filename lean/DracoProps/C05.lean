import DracoModel.VersionGate
import DracoModel.Decoder
import Generated.Constants
import Generated.FastDivTab
import Generated.VersionGates
import Frozen.Constants
import Frozen.FastDivTab
import Frozen.VersionGates
import DracoProofs.GeneratedSeq
import DracoProofs.GeneratedKd
/-
  C05 — existing bitstreams keep decoding to the same geometry, in the same order.

  What is logic here:
  * the version gate of the decoder model (`decodeGeometry`, lean/DracoModel/SeqDecoder.lean, which mirrors
    `PointCloudDecoder::Decode`): every stream whose header parses and whose version is newer than the newest
    supported one *for its geometry type* (or has major version 0) is rejected with `Status.unknownVersion` —
    nothing after the header is read, so nothing can be misread;
  * the format-defining constants regenerated from the source on every run (`Generated.*`) equal the committed
    frozen copy (`Frozen.*`, written once by tools/freeze_corpus.py --constants).

  What is NOT logic (and is checked by tools/props/C05.py on the real decoder): that the frozen corpus still
  decodes to the frozen ordered geometry.
-/
namespace Draco.C05
open Draco DecM

/-- `PointCloudDecoder::DecodeHeader` on explicit bytes: "DRACO", major, minor, type, method, flags (LE16) -/
theorem header_parses (ma mi t m f0 f1 : Nat) (rest : Bytes) (s : DSt)
    (hs : s.rest = [68, 82, 65, 67, 79, ma, mi, t, m, f0, f1] ++ rest) :
    decodeHeader s = (some ⟨ma, mi, t, m, f0 + 256 * (f1 + 256 * 0)⟩, { s with rest := rest }) := by
  unfold decodeHeader
  have h5 : ¬ (rest.length + 1 + 1 + 1 + 1 + 1 + 1 + 1 + 1 + 1 + 1 + 1 < 5) := by omega
  have h2 : ¬ (rest.length + 1 + 1 < 2) := by omega
  simp [bind, DecM.andThen, DecM.bytes, DecM.lift, DecM.rdU8, DecM.rdU16, readBytes, readU8, readLE, hs,
    DecM.require, DecM.ret, leValue, pure, h5, h2]

/-- Version gate (full strength): a stream whose header parses as a point cloud / mesh header with a known
    method id and whose version the gate table rejects (major 0, major newer, or same major and newer minor than
    the newest supported version of that geometry type) is rejected with `unknownVersion` right after the header:
    the decoder state is the state after the header, no further byte is consumed. -/
theorem unknown_version_rejected (opts : DecOpts) (s s' : DSt) (h : Header)
    (hdr : decodeHeader s = (some h, s'))
    (ht : h.encoderType < 2) (hm : h.encoderMethod ≤ 1)
    (hv : gateRejects (h.encoderType == 1) h.major h.minor = true) :
    decodeGeometry opts s = (none, { s' with status := .unknownVersion }) := by
  unfold decodeGeometry decodeStreamWith
  simp only [bind, DecM.andThen, hdr]
  have h1 : decide (h.encoderType < 2) = true := by simpa using ht
  have h2 : decide (h.encoderMethod ≤ 1) = true := by simpa using hm
  simp only [h1, h2, DecM.require, DecM.ret, if_true]
  unfold gateRejects maxVersion at hv
  by_cases c1 : (decide (h.major < 1) ||
                  decide
                    (h.major >
                      if (h.encoderType == 1) = true then Generated.kDracoMeshBitstreamVersionMajor.toNat
                      else Generated.kDracoPointCloudBitstreamVersionMajor.toNat)) = true
  · simp only [c1, if_true]
    rfl
  · have c2 : ((h.major ==
                      if (h.encoderType == 1) = true then Generated.kDracoMeshBitstreamVersionMajor.toNat
                      else Generated.kDracoPointCloudBitstreamVersionMajor.toNat) &&
                    decide
                      (h.minor >
                        if (h.encoderType == 1) = true then Generated.kDracoMeshBitstreamVersionMinor.toNat
                        else Generated.kDracoPointCloudBitstreamVersionMinor.toNat)) = true := by
      cases hb : (h.encoderType == 1) <;> simp [hb] at hv c1 ⊢ <;> omega
    simp only [c1, c2, if_true]
    rfl

-- non-vacuity: a mesh header that claims 2.3 (the newest point cloud version, unknown for meshes)
example : decodeGeometry {} { rest := [68, 82, 65, 67, 79, 2, 3, 1, 1, 0, 0, 1, 2, 3] }
    = (none, { rest := [1, 2, 3], status := .unknownVersion }) := by
  have hd := header_parses 2 3 1 1 0 0 [1, 2, 3] { rest := [68, 82, 65, 67, 79, 2, 3, 1, 1, 0, 0, 1, 2, 3] } rfl
  exact unknown_version_rejected {} _ _ _ hd (by decide) (by decide) (by decide)

/-- every version that is newer than the newest supported one is in the rejecting part of the gate table -/
theorem newer_is_rejected (isMesh : Bool) (major minor : Nat)
    (h : newerThanSupported isMesh major minor = true) : gateRejects isMesh major minor = true := by
  unfold newerThanSupported at h
  unfold gateRejects
  simp only [Bool.or_eq_true, Bool.and_eq_true, decide_eq_true_eq] at h ⊢
  rcases h with h | h
  · exact Or.inl (Or.inr h)
  · exact Or.inr h

/-- The property's clause "streams of unknown newer versions are rejected with a version error rather than
    misread", on explicit bytes: any byte string that starts with a well-formed header (magic, geometry type 0/1,
    method 0/1) and carries a version newer than the newest supported version of its geometry type decodes to
    `unknownVersion`, whatever follows the header. -/
theorem newer_version_stream_rejected (opts : DecOpts) (ma mi t m f0 f1 : Nat) (rest : Bytes)
    (ht : t < 2) (hm : m ≤ 1) (hv : newerThanSupported (t == 1) ma mi = true) :
    decodeGeometry opts { rest := [68, 82, 65, 67, 79, ma, mi, t, m, f0, f1] ++ rest }
      = (none, { rest := rest, status := .unknownVersion }) := by
  have hd := header_parses ma mi t m f0 f1 rest { rest := [68, 82, 65, 67, 79, ma, mi, t, m, f0, f1] ++ rest } rfl
  exact unknown_version_rejected opts _ _ _ hd ht hm (newer_is_rejected _ _ _ hv)

example : newerThanSupported true 2 3 = true ∧ newerThanSupported false 2 3 = false ∧
    newerThanSupported false 2 4 = true ∧ newerThanSupported true 3 0 = true := by decide

/-- decision table of the gate for meshes over major 0..4 × minor 0..9 (true = UNKNOWN_VERSION);
    tools/props/C05.py compares the real decoder on header-rewritten streams with this table (driver op `vgate`) -/
theorem gate_table_mesh :
    (List.range 5).map (fun ma => (List.range 10).map (fun mi => gateRejects true ma mi)) =
      [List.replicate 10 true,
       List.replicate 10 false,
       [false, false, false, true, true, true, true, true, true, true],
       List.replicate 10 true,
       List.replicate 10 true] := by decide

/-- decision table of the gate for point clouds -/
theorem gate_table_point_cloud :
    (List.range 5).map (fun ma => (List.range 10).map (fun mi => gateRejects false ma mi)) =
      [List.replicate 10 true,
       List.replicate 10 false,
       [false, false, false, false, true, true, true, true, true, true],
       List.replicate 10 true,
       List.replicate 10 true] := by decide

/-! ## Frozen format constants -/

/-- format constants, group `versions`: the values regenerated from the source equal the frozen ones -/
theorem format_constants_frozen_versions :
    Generated.kDracoPointCloudBitstreamVersionMajor = Frozen.kDracoPointCloudBitstreamVersionMajor ∧
    Generated.kDracoPointCloudBitstreamVersionMinor = Frozen.kDracoPointCloudBitstreamVersionMinor ∧
    Generated.kDracoMeshBitstreamVersionMajor = Frozen.kDracoMeshBitstreamVersionMajor ∧
    Generated.kDracoMeshBitstreamVersionMinor = Frozen.kDracoMeshBitstreamVersionMinor ∧
    Generated.kDracoPointCloudBitstreamVersion = Frozen.kDracoPointCloudBitstreamVersion ∧
    Generated.kDracoMeshBitstreamVersion = Frozen.kDracoMeshBitstreamVersion := by
  decide

/-- format constants, group `geometry_and_methods`: the values regenerated from the source equal the frozen ones -/
theorem format_constants_frozen_geometry_and_methods :
    Generated.POINT_CLOUD = Frozen.POINT_CLOUD ∧
    Generated.TRIANGULAR_MESH = Frozen.TRIANGULAR_MESH ∧
    Generated.NUM_ENCODED_GEOMETRY_TYPES = Frozen.NUM_ENCODED_GEOMETRY_TYPES ∧
    Generated.POINT_CLOUD_SEQUENTIAL_ENCODING = Frozen.POINT_CLOUD_SEQUENTIAL_ENCODING ∧
    Generated.POINT_CLOUD_KD_TREE_ENCODING = Frozen.POINT_CLOUD_KD_TREE_ENCODING ∧
    Generated.MESH_SEQUENTIAL_ENCODING = Frozen.MESH_SEQUENTIAL_ENCODING ∧
    Generated.MESH_EDGEBREAKER_ENCODING = Frozen.MESH_EDGEBREAKER_ENCODING ∧
    Generated.BASIC_ATTRIBUTE_ENCODER = Frozen.BASIC_ATTRIBUTE_ENCODER ∧
    Generated.MESH_TRAVERSAL_ATTRIBUTE_ENCODER = Frozen.MESH_TRAVERSAL_ATTRIBUTE_ENCODER ∧
    Generated.KD_TREE_ATTRIBUTE_ENCODER = Frozen.KD_TREE_ATTRIBUTE_ENCODER ∧
    Generated.SEQUENTIAL_ATTRIBUTE_ENCODER_GENERIC = Frozen.SEQUENTIAL_ATTRIBUTE_ENCODER_GENERIC ∧
    Generated.SEQUENTIAL_ATTRIBUTE_ENCODER_INTEGER = Frozen.SEQUENTIAL_ATTRIBUTE_ENCODER_INTEGER ∧
    Generated.SEQUENTIAL_ATTRIBUTE_ENCODER_QUANTIZATION = Frozen.SEQUENTIAL_ATTRIBUTE_ENCODER_QUANTIZATION ∧
    Generated.SEQUENTIAL_ATTRIBUTE_ENCODER_NORMALS = Frozen.SEQUENTIAL_ATTRIBUTE_ENCODER_NORMALS ∧
    Generated.METADATA_FLAG_MASK = Frozen.METADATA_FLAG_MASK ∧
    Generated.MESH_VERTEX_ATTRIBUTE = Frozen.MESH_VERTEX_ATTRIBUTE ∧
    Generated.MESH_CORNER_ATTRIBUTE = Frozen.MESH_CORNER_ATTRIBUTE ∧
    Generated.MESH_FACE_ATTRIBUTE = Frozen.MESH_FACE_ATTRIBUTE := by
  decide

/-- format constants, group `prediction`: the values regenerated from the source equal the frozen ones -/
theorem format_constants_frozen_prediction :
    Generated.PREDICTION_NONE = Frozen.PREDICTION_NONE ∧
    Generated.PREDICTION_DIFFERENCE = Frozen.PREDICTION_DIFFERENCE ∧
    Generated.MESH_PREDICTION_PARALLELOGRAM = Frozen.MESH_PREDICTION_PARALLELOGRAM ∧
    Generated.MESH_PREDICTION_MULTI_PARALLELOGRAM = Frozen.MESH_PREDICTION_MULTI_PARALLELOGRAM ∧
    Generated.MESH_PREDICTION_TEX_COORDS_DEPRECATED = Frozen.MESH_PREDICTION_TEX_COORDS_DEPRECATED ∧
    Generated.MESH_PREDICTION_CONSTRAINED_MULTI_PARALLELOGRAM = Frozen.MESH_PREDICTION_CONSTRAINED_MULTI_PARALLELOGRAM ∧
    Generated.MESH_PREDICTION_TEX_COORDS_PORTABLE = Frozen.MESH_PREDICTION_TEX_COORDS_PORTABLE ∧
    Generated.MESH_PREDICTION_GEOMETRIC_NORMAL = Frozen.MESH_PREDICTION_GEOMETRIC_NORMAL ∧
    Generated.NUM_PREDICTION_SCHEMES = Frozen.NUM_PREDICTION_SCHEMES ∧
    Generated.PREDICTION_TRANSFORM_NONE = Frozen.PREDICTION_TRANSFORM_NONE ∧
    Generated.PREDICTION_TRANSFORM_DELTA = Frozen.PREDICTION_TRANSFORM_DELTA ∧
    Generated.PREDICTION_TRANSFORM_WRAP = Frozen.PREDICTION_TRANSFORM_WRAP ∧
    Generated.PREDICTION_TRANSFORM_NORMAL_OCTAHEDRON = Frozen.PREDICTION_TRANSFORM_NORMAL_OCTAHEDRON ∧
    Generated.PREDICTION_TRANSFORM_NORMAL_OCTAHEDRON_CANONICALIZED = Frozen.PREDICTION_TRANSFORM_NORMAL_OCTAHEDRON_CANONICALIZED ∧
    Generated.ONE_TRIANGLE = Frozen.ONE_TRIANGLE ∧
    Generated.TRIANGLE_AREA = Frozen.TRIANGLE_AREA ∧
    Generated.kMaxNumParallelograms = Frozen.kMaxNumParallelograms ∧
    Generated.PREDICTION_UNDEFINED = Frozen.PREDICTION_UNDEFINED ∧
    Generated.NUM_PREDICTION_SCHEME_TRANSFORM_TYPES = Frozen.NUM_PREDICTION_SCHEME_TRANSFORM_TYPES := by
  decide

/-- format constants, group `edgebreaker`: the values regenerated from the source equal the frozen ones -/
theorem format_constants_frozen_edgebreaker :
    Generated.MESH_TRAVERSAL_ATTRIBUTE_ENCODER = Frozen.MESH_TRAVERSAL_ATTRIBUTE_ENCODER ∧
    Generated.MESH_TRAVERSAL_DEPTH_FIRST = Frozen.MESH_TRAVERSAL_DEPTH_FIRST ∧
    Generated.MESH_TRAVERSAL_PREDICTION_DEGREE = Frozen.MESH_TRAVERSAL_PREDICTION_DEGREE ∧
    Generated.NUM_TRAVERSAL_METHODS = Frozen.NUM_TRAVERSAL_METHODS ∧
    Generated.MESH_EDGEBREAKER_STANDARD_ENCODING = Frozen.MESH_EDGEBREAKER_STANDARD_ENCODING ∧
    Generated.MESH_EDGEBREAKER_PREDICTIVE_ENCODING = Frozen.MESH_EDGEBREAKER_PREDICTIVE_ENCODING ∧
    Generated.MESH_EDGEBREAKER_VALENCE_ENCODING = Frozen.MESH_EDGEBREAKER_VALENCE_ENCODING ∧
    Generated.TOPOLOGY_C = Frozen.TOPOLOGY_C ∧
    Generated.TOPOLOGY_S = Frozen.TOPOLOGY_S ∧
    Generated.TOPOLOGY_L = Frozen.TOPOLOGY_L ∧
    Generated.TOPOLOGY_R = Frozen.TOPOLOGY_R ∧
    Generated.TOPOLOGY_E = Frozen.TOPOLOGY_E ∧
    Generated.edgebreakerTopologyBitPattern = Frozen.edgebreakerTopologyBitPattern ∧
    Generated.edgebreakerTopologyToSymbol = Frozen.edgebreakerTopologyToSymbol ∧
    Generated.edgebreakerBitPatternLength = Frozen.edgebreakerBitPatternLength ∧
    Generated.TOPOLOGY_INIT_FACE = Frozen.TOPOLOGY_INIT_FACE ∧
    Generated.TOPOLOGY_INVALID = Frozen.TOPOLOGY_INVALID ∧
    Generated.EDGEBREAKER_SYMBOL_C = Frozen.EDGEBREAKER_SYMBOL_C ∧
    Generated.EDGEBREAKER_SYMBOL_S = Frozen.EDGEBREAKER_SYMBOL_S ∧
    Generated.EDGEBREAKER_SYMBOL_L = Frozen.EDGEBREAKER_SYMBOL_L ∧
    Generated.EDGEBREAKER_SYMBOL_R = Frozen.EDGEBREAKER_SYMBOL_R ∧
    Generated.EDGEBREAKER_SYMBOL_E = Frozen.EDGEBREAKER_SYMBOL_E ∧
    Generated.EDGEBREAKER_SYMBOL_INVALID = Frozen.EDGEBREAKER_SYMBOL_INVALID ∧
    Generated.LEFT_FACE_EDGE = Frozen.LEFT_FACE_EDGE ∧
    Generated.RIGHT_FACE_EDGE = Frozen.RIGHT_FACE_EDGE ∧
    Generated.EDGEBREAKER_VALENCE_MODE_2_7 = Frozen.EDGEBREAKER_VALENCE_MODE_2_7 := by
  decide

/-- format constants, group `data_types`: the values regenerated from the source equal the frozen ones -/
theorem format_constants_frozen_data_types :
    Generated.DT_INVALID = Frozen.DT_INVALID ∧
    Generated.DT_INT8 = Frozen.DT_INT8 ∧
    Generated.DT_UINT8 = Frozen.DT_UINT8 ∧
    Generated.DT_INT16 = Frozen.DT_INT16 ∧
    Generated.DT_UINT16 = Frozen.DT_UINT16 ∧
    Generated.DT_INT32 = Frozen.DT_INT32 ∧
    Generated.DT_UINT32 = Frozen.DT_UINT32 ∧
    Generated.DT_INT64 = Frozen.DT_INT64 ∧
    Generated.DT_UINT64 = Frozen.DT_UINT64 ∧
    Generated.DT_FLOAT32 = Frozen.DT_FLOAT32 ∧
    Generated.DT_FLOAT64 = Frozen.DT_FLOAT64 ∧
    Generated.DT_BOOL = Frozen.DT_BOOL ∧
    Generated.DT_TYPES_COUNT = Frozen.DT_TYPES_COUNT ∧
    Generated.geometryAttribute_POSITION = Frozen.geometryAttribute_POSITION ∧
    Generated.geometryAttribute_NORMAL = Frozen.geometryAttribute_NORMAL ∧
    Generated.geometryAttribute_COLOR = Frozen.geometryAttribute_COLOR ∧
    Generated.geometryAttribute_TEX_COORD = Frozen.geometryAttribute_TEX_COORD ∧
    Generated.geometryAttribute_GENERIC = Frozen.geometryAttribute_GENERIC ∧
    Generated.geometryAttribute_NAMED_ATTRIBUTES_COUNT = Frozen.geometryAttribute_NAMED_ATTRIBUTES_COUNT := by
  decide

/-- format constants, group `entropy`: the values regenerated from the source equal the frozen ones -/
theorem format_constants_frozen_entropy :
    Generated.SYMBOL_CODING_TAGGED = Frozen.SYMBOL_CODING_TAGGED ∧
    Generated.SYMBOL_CODING_RAW = Frozen.SYMBOL_CODING_RAW ∧
    Generated.NUM_SYMBOL_CODING_METHODS = Frozen.NUM_SYMBOL_CODING_METHODS ∧
    Generated.ransPrecisionTable = Frozen.ransPrecisionTable ∧
    Generated.ansP8Precision = Frozen.ansP8Precision ∧
    Generated.ansLBase = Frozen.ansLBase ∧
    Generated.ansIoBase = Frozen.ansIoBase ∧
    Generated.kMaxTagSymbolBitLength = Frozen.kMaxTagSymbolBitLength ∧
    Generated.kMaxRawEncodingBitLength = Frozen.kMaxRawEncodingBitLength ∧
    Generated.varintMaxLen = Frozen.varintMaxLen ∧
    Generated.kMaxSubmetadataLevel = Frozen.kMaxSubmetadataLevel := by
  decide

set_option maxRecDepth 8192 in
/-- `vp10_fastdiv_tab` (divide.cc): the rANS decoder's division table -/
theorem format_constants_frozen_fastdiv : Generated.fastdivTab = Frozen.fastdivTab := by
  decide

/-- the literal `DRACO_BITSTREAM_VERSION(major, minor)` comparisons of the sources (version-gated decode
    paths), as a multiset: a changed, added or removed gate alters it -/
theorem version_gates_frozen : Generated.versionGates = Frozen.versionGates := by
  decide

/-- all format-defining constants regenerated from the source equal the frozen copy -/
theorem format_constants_frozen :
    (Generated.kDracoPointCloudBitstreamVersion = Frozen.kDracoPointCloudBitstreamVersion ∧
     Generated.kDracoMeshBitstreamVersion = Frozen.kDracoMeshBitstreamVersion) ∧
    Generated.ransPrecisionTable = Frozen.ransPrecisionTable ∧
    Generated.kMaxNumParallelograms = Frozen.kMaxNumParallelograms ∧
    Generated.ansLBase = Frozen.ansLBase ∧
    Generated.fastdivTab = Frozen.fastdivTab ∧
    Generated.versionGates = Frozen.versionGates :=
  ⟨⟨format_constants_frozen_versions.2.2.2.2.1, format_constants_frozen_versions.2.2.2.2.2⟩,
   by decide, by decide, by decide, format_constants_frozen_fastdiv, version_gates_frozen⟩

/-! ## the index width classes of the sequential connectivity coder are the source's -/
open Generated in
/-- `MeshSequentialDecoder::DecodeConnectivity`: the decision skeleton of its chain `if (num_points < 256) … else if
    (num_points < (1 << 16)) … else if (num_points < (1 << 21) && bitstream_version() >= 2.2) … else …` (conditions
    translated mechanically from clang's AST of /repo on every run, branch bodies replaced by their ordinal) selects the width
    class of the model's `decodeSeqConnectivity` (`Generated.seqIndexWidth`, `Generated.model_chain_is_seqIndexWidth`) -/
theorem source_seqDecIndexWidth_is_model (ver numPoints : Nat) (hv : ver < 2^16) (hn : numPoints < 2^32) :
    MeshSequentialDecoder.DecodeConnectivity_indexWidth ver numPoints =
      (seqIndexWidth numPoints (decide (ver < bsVersion 2 2)) : Int) :=
  DecodeConnectivity_indexWidth_eq_model ver numPoints hv hn
example : Generated.MeshSequentialDecoder.DecodeConnectivity_indexWidth (514 : Nat) (256 : Nat) = 1 := by
  rw [source_seqDecIndexWidth_is_model _ _ (by decide) (by decide)]; decide

open Generated in
/-- `MeshSequentialEncoder::EncodeConnectivity`: the same for `mesh()->num_points() < 256`, `< (1 << 16)`, `< (1 << 21)` -/
theorem source_seqEncIndexWidth_is_model (numPoints : Nat) (hn : numPoints < 2^31) :
    MeshSequentialEncoder.EncodeConnectivity_indexWidth numPoints = (seqIndexWidth numPoints false : Int) :=
  EncodeConnectivity_indexWidth_eq_model numPoints hn
example : Generated.MeshSequentialEncoder.EncodeConnectivity_indexWidth (65536 : Nat) = 2 := by
  rw [source_seqEncIndexWidth_is_model _ (by decide)]; decide

open Generated in
/-- `DynamicIntegerPointsKdTreeDecoder<6>::GetAxis`: the decision skeleton of `if (num_remaining_points < 64)` (condition
    translated mechanically from clang's AST of /repo on every run) is the test of the model's `Kd.getAxis`, which takes the
    minimal-level branch exactly when the skeleton says branch 0 -/
theorem source_kdGetAxisBranch_is_model {σ} (S : Kd.Src σ) (P : Kd.Params) (s : σ) (n : Nat) (levels : List Nat)
    (lastAxis : Nat) (hsel : P.selectAxis = true) :
    DynamicIntegerPointsKdTreeDecoder.GetAxis_branch (n : Int) = (if n < 64 then 0 else 1) ∧
    Kd.getAxis S P s n levels lastAxis =
      if DynamicIntegerPointsKdTreeDecoder.GetAxis_branch (n : Int) = 0 then (Kd.minLevelAxis levels P.dim, s) else S.axis s :=
  ⟨GetAxis_branch_eq_model n, getAxis_uses_branch S P s n levels lastAxis hsel⟩
example : Generated.DynamicIntegerPointsKdTreeDecoder.GetAxis_branch 64 = 1 := by decide

end Draco.C05
