import DracoProofs.KdTreeFinal
/-
  A bound on the number of bit-encoder calls of `EncodeInternal`, so that the size prefixes of
  the coded blocks (32 bit) cannot overflow: hypothesis-free form of the stream size conditions
  of `decodePoints_encodePoints`.
-/
namespace Draco.Kd
open TreeStack

/-- outputs are bounded by `K` per popped tuple -/
theorem tree_out_le {F O S : Type} {step : F → S → Option (Step F O S)} {Inv : F → Prop} {μ : F → Nat}
    (hm : Measured step Inv μ) (K : Nat)
    (hK : ∀ fr s, Inv fr → match step fr s with
      | none => True
      | some (.leaf out _) => out.length ≤ K
      | some (.split out _ _ _) => out.length ≤ K) :
    ∀ (d : Nat) (fr : F) (s : S) (o : List O) (s' : S), Inv fr →
    TreeStack.tree step d fr s = some (o, s') → o.length ≤ K * μ fr := by
  intro d
  induction d with
  | zero => intro fr s o s' _ h; simp [TreeStack.tree] at h
  | succ d ih =>
    intro fr s o s' hi h
    rw [tree_succ] at h
    have hk := hK fr s hi
    cases hstep : step fr s with
    | none => rw [hstep] at h; cases h
    | some st =>
      rw [hstep] at h hk
      cases st with
      | leaf out s1 =>
        simp only [Option.some.injEq, Prod.mk.injEq] at h hk
        rw [← h.1]
        have := hm.leaf fr s _ s1 hi hstep
        calc out.length ≤ K := hk
          _ = K * 1 := by omega
          _ ≤ K * μ fr := Nat.mul_le_mul_left K this
      | split out f sn s1 =>
        obtain ⟨hμ, hf, hsn⟩ := hm.split fr s out f sn s1 hi hstep
        simp only at h hk
        have hsub : ∀ (c : Option F) (s0 : S) (oc : List O) (sc : S), (∀ x, c = some x → Inv x) →
            sub step d c s0 = some (oc, sc) → oc.length ≤ K * μo μ c := by
          intro c s0 oc sc hc hs
          cases c with
          | none => simp only [sub, Option.some.injEq, Prod.mk.injEq] at hs; obtain ⟨rfl, _⟩ := hs; simp
          | some x => exact ih x s0 oc sc (hc x rfl) hs
        cases h2 : sub step d sn s1 with
        | none => rw [h2] at h; cases h
        | some r2 =>
          obtain ⟨o2, s2⟩ := r2
          rw [h2] at h
          simp only at h
          cases h1 : sub step d f s2 with
          | none => rw [h1] at h; cases h
          | some r1 =>
            obtain ⟨o1, s3⟩ := r1
            rw [h1] at h
            simp only [Option.some.injEq, Prod.mk.injEq] at h
            obtain ⟨rfl, _⟩ := h
            have b2 := hsub sn s1 o2 s2 hsn h2
            have b1 := hsub f s2 o1 s3 hf h1
            have : K * (μo μ f + μo μ sn + 1) ≤ K * μ fr := Nat.mul_le_mul_left K hμ
            simp only [List.length_append]
            rw [Nat.mul_add, Nat.mul_add] at this
            omega

theorem leafEvents_length (P : Params) (levels p : List Nat) : ∀ (axes : List Nat),
    (leafEvents P levels p axes).length ≤ axes.length := by
  intro axes
  induction axes with
  | nil => simp [leafEvents]
  | cons a axes ih =>
    simp only [leafEvents]
    split
    · simp only [List.length_cons]; omega
    · simp only [List.length_cons]; omega

theorem axesFrom_length (dim : Nat) : ∀ (k a : Nat), (axesFrom a dim k).length = k := by
  intro k
  induction k with
  | zero => intro a; rfl
  | succ k ih => intro a; simp [axesFrom, ih]

theorem encAxis_length (P : Params) (pts : List (List Nat)) (base levels : List Nat) (last : Nat) :
    (encAxis P pts base levels last).2.length ≤ 1 := by
  unfold encAxis
  split
  · simp
  · split <;> simp

theorem splitEvents_length (n a b : Nat) : (splitEvents n a b).length ≤ 2 := by
  unfold splitEvents
  simp only [List.length_append, List.length_cons, List.length_nil]
  split <;> simp

/-- number of encoder calls of `EncodeInternal` -/
theorem encodeInternal_length (part : Partition) (hpart : PartSpec part) (P : Params)
    (hdim : 1 ≤ P.dim) (pts : List (List Nat)) (hne : pts ≠ []) :
    (encodeInternal part P pts).length ≤ (2 * P.dim + 3) * encFuel P pts.length := by
  have hm := encNode_measured part hpart P hdim
  have hinv : EInv P ⟨pts, 0, List.replicate P.dim 0, List.replicate P.dim 0⟩ :=
    ⟨by simp, by simp only; omega, hne⟩
  have hmu : eframeMu P ⟨pts, 0, List.replicate P.dim 0, List.replicate P.dim 0⟩ = encFuel P pts.length := by
    simp only [eframeMu, encFuel, remLevels_replicate]
  have := tree_out_le hm (2 * P.dim + 3) (by
    intro fr s _
    simp only [encNode]
    have ha := encAxis_length P fr.pts fr.base fr.levels fr.lastAxis
    generalize (encAxis P fr.pts fr.base fr.levels fr.lastAxis).1 = axis
    generalize (encAxis P fr.pts fr.base fr.levels fr.lastAxis).2 = evA at ha
    by_cases hfull : P.bitLength - fr.levels.getD axis 0 = 0
    · simp only [encNodeAt, hfull, if_true]; omega
    · by_cases hsmall : fr.pts.length ≤ 2
      · simp only [encNodeAt, hfull, if_false, hsmall, if_true, List.length_append]
        have : (fr.pts.flatMap fun p => leafEvents P fr.levels p (axesFrom axis P.dim P.dim)).length ≤
            fr.pts.length * P.dim := by
          generalize fr.pts = l
          induction l with
          | nil => simp
          | cons x xs ih =>
            simp only [List.flatMap_cons, List.length_append, List.length_cons]
            have := leafEvents_length P fr.levels x (axesFrom axis P.dim P.dim)
            rw [axesFrom_length] at this
            rw [Nat.add_mul]
            omega
        have h2 : fr.pts.length * P.dim ≤ 2 * P.dim := Nat.mul_le_mul_right _ hsmall
        omega
      · simp only [encNodeAt, hfull, if_false, hsmall, encSplit, List.length_append]
        have := splitEvents_length fr.pts.length
          (part (fun p => decide (p.getD axis 0 <
            (fr.base.set axis ((fr.base.getD axis 0 + 2 ^ (P.bitLength - fr.levels.getD axis 0 - 1)) % 2 ^ 32)).getD axis 0)) fr.pts).1.length
          (part (fun p => decide (p.getD axis 0 <
            (fr.base.set axis ((fr.base.getD axis 0 + 2 ^ (P.bitLength - fr.levels.getD axis 0 - 1)) % 2 ^ 32)).getD axis 0)) fr.pts).2.length
        omega)
    (encFuel P pts.length) _ () _ () hinv (encodeInternal_eq_tree part hpart P hdim pts hne)
  rw [hmu] at this
  exact this

theorem opsBits_le (ops : List BitOp) (hv : ∀ op ∈ ops, op.Valid) :
    (opsBits ops).length ≤ 32 * ops.length := by
  induction ops with
  | nil => simp [opsBits]
  | cons op ops ih =>
    have h1 := ih (fun o ho => hv o (by simp [ho]))
    have h2 := hv op (by simp)
    simp only [opsBits, List.flatMap_cons, List.length_append, List.length_cons] at h1 ⊢
    have : op.bits.length ≤ 32 := by
      rw [BitOp.bits_length]
      cases op with
      | bit b => simp [BitOp.width]
      | lsb32 n v => simp only [BitOp.width]; exact h2.2.1
    omega

theorem opsOf_length (w : Which) (evs : List Ev) : (opsOf w evs).length ≤ evs.length := by
  simp only [opsOf]
  exact List.length_filterMap_le _ _

/-- `decodePoints_encodePoints` with the stream size conditions replaced by a bound on the
    input -/
theorem decodePoints_encodePoints_bounded_v (part : Partition) (hpart : PartSpec part)
    (tab : List (Nat × Nat)) (hd : DivOK tab) (zpr : Nat → Nat → Nat)
    (level dim bitLength maxPoints : Nat) (pts : List (List Nat)) (rest : Bytes) (s : DSt)
    (hdim : 1 ≤ dim) (hbl : bitLength ≤ 32) (hsel : level = 6 → dim ≤ 16)
    (hpts : ∀ p ∈ pts, p.length = dim ∧ ∀ i, i < dim → p.getD i 0 < 2^bitLength)
    (hmax : pts.length ≤ maxPoints)
    (hsz : 32 * ((2 * dim + 3) * (pts.length * (bitLength * dim + 1) + 1)) + 3 < 2^32)
    (hs : s.rest = encodePoints part tab zpr level dim bitLength pts ++ rest) :
    ∃ pts' s', decodePoints level dim maxPoints s = (some (pts.length, pts'), s') ∧ s'.rest = rest ∧
      pts'.Perm pts ∧ s'.version = s.version := by
  have hn : pts.length < 2^32 := by
    have h1 : pts.length ≤ pts.length * (bitLength * dim + 1) := Nat.le_mul_of_pos_right _ (by omega)
    have h2 : pts.length * (bitLength * dim + 1) + 1 ≤ (2 * dim + 3) * (pts.length * (bitLength * dim + 1) + 1) :=
      Nat.le_mul_of_pos_left _ (by omega)
    omega
  have hd32 : dim < 2^32 := by
    have h2 : (2 * dim + 3) * 1 ≤ (2 * dim + 3) * (pts.length * (bitLength * dim + 1) + 1) :=
      Nat.mul_le_mul_left _ (by omega)
    omega
  by_cases hne : pts = []
  · subst hne
    obtain ⟨s', e1, e2, e3⟩ := decodePoints_encodePoints_nil part tab zpr level dim bitLength maxPoints rest s hbl hs
    exact ⟨[], s', e1, e2, List.Perm.refl _, e3⟩
  · generalize hP : (⟨dim, bitLength, level == 6, pts.length⟩ : Params) = P
    have hPd : P.dim = dim := by rw [← hP]
    have hPb : P.bitLength = bitLength := by rw [← hP]
    have henc := encodeInternal_eq_tree part hpart P (by omega) pts hne
    have hlenb := encodeInternal_length part hpart P (by omega) pts hne
    have hroot := box_root P
    have hin : ∀ p ∈ pts, InBox P (List.replicate P.dim 0) (List.replicate P.dim 0) p := by
      intro p hp
      obtain ⟨q1, q2⟩ := hpts p hp
      refine ⟨by omega, ?_⟩
      intro i hi
      rw [getD_replicate _ _ _ hi]
      have := q2 i (by omega)
      simp only [Nat.sub_zero, Nat.zero_add, Nat.zero_le, true_and, hPb]
      exact this
    have hvalid := enc_events_valid part hpart P (by omega) (by omega) (by omega) _ _ _ hroot hin
      (by simp only; omega) hne hn henc
    simp only [encFuel, hPd, hPb] at hlenb
    have hbits : ∀ w, (opsBits (opsOf w (encodeInternal part P pts))).length + 3 < 2^32 := by
      intro w
      have b1 := opsBits_le _ (opsOf_valid w _ hvalid)
      have b2 := opsOf_length w (encodeInternal part P pts)
      omega
    have hcnt : (opsOf .num (encodeInternal part P pts)).length + 3 < 2^32 := by
      have b2 := opsOf_length .num (encodeInternal part P pts)
      omega
    rw [← hP] at hbits hcnt
    exact decodePoints_encodePoints_v part hpart tab hd zpr level dim bitLength maxPoints pts rest s hdim hbl
      hsel hd32 hpts hn hmax hbits hcnt hs

/-- `decodePoints_encodePoints` with the stream size conditions replaced by a bound on the
    input -/
theorem decodePoints_encodePoints_bounded (part : Partition) (hpart : PartSpec part)
    (tab : List (Nat × Nat)) (hd : DivOK tab) (zpr : Nat → Nat → Nat)
    (level dim bitLength maxPoints : Nat) (pts : List (List Nat)) (rest : Bytes) (s : DSt)
    (hdim : 1 ≤ dim) (hbl : bitLength ≤ 32) (hsel : level = 6 → dim ≤ 16)
    (hpts : ∀ p ∈ pts, p.length = dim ∧ ∀ i, i < dim → p.getD i 0 < 2^bitLength)
    (hmax : pts.length ≤ maxPoints)
    (hsz : 32 * ((2 * dim + 3) * (pts.length * (bitLength * dim + 1) + 1)) + 3 < 2^32)
    (hs : s.rest = encodePoints part tab zpr level dim bitLength pts ++ rest) :
    ∃ pts' s', decodePoints level dim maxPoints s = (some (pts.length, pts'), s') ∧ s'.rest = rest ∧
      pts'.Perm pts := by
  obtain ⟨pts', s', h1, h2, h3, _⟩ := decodePoints_encodePoints_bounded_v part hpart tab hd zpr level dim
    bitLength maxPoints pts rest s hdim hbl hsel hpts hmax hsz hs
  exact ⟨pts', s', h1, h2, h3⟩

end Draco.Kd
