import DracoProofs.EbFinal
/-
  The hypotheses of `eb_roundtrip_conditional_partial` (EbFinal.lean) that follow from the ENCODER RUN alone:

  (2) `hproc_of_run`, `hfits_of_run`: the processed corners are corners of the input faces, which fit the index type;
  (1) `planSetting_of_run`: `PlanSetting` for the plan `planOf …` with `itemOfRun` / `encOfRun` defined by lookup;
  (3) `eb_roundtrip_conditional_partial'`: the theorem without `hs`, `hproc`, `hfits`.
-/
namespace Draco.EbEnc
open Draco Draco.SeqEnc DecM
open Draco.Eb hiding iabs nextC prevC

namespace PlanSettingP
open PosAgreeP Tuples FaceCorr

/-! ### (2) the processed corners -/

/-- the faces `connInputs` hands to `CornerTable::Create`: one per input face -/
theorem connInputs_size {g : Geometry} {single : Bool} {pf : Faces} {acv : Array (Nat × Array Nat)}
    (h : connInputs g single = .ok (pf, acv)) : pf.size = g.faces.length := by
  let a : Attribute := match namedAttributeId g.atts.toArray posType with
    | some pid => g.atts.toArray[pid]!
    | none => default
  refine (hpf_of_connInputs h a ?_).1
  intro _ pid hpid
  simp only [a, hpid]

/-- **`hfits`, `hproc`** of a successful encoder run -/
theorem hproc_of_run (ch : EbChoices) (g : Geometry) (md : Option GeometryMetadata) (o : EbOpts) (enc : Encoded)
    (henc : encodeEdgebreaker ch g md o = .ok enc) :
    3 * g.faces.length ≤ inv ∧
    ∀ i, i < enc.conn.processed.size → enc.conn.processed[i]! < 3 * g.faces.length := by
  obtain ⟨mdBytes, coder, posFaces, acv, cs, couts, h1, h2, h3, h4, _⟩ :=
    (encodeEdgebreaker_stages ch g md o enc henc).stages
  have hsz := connInputs_size h3
  obtain ⟨table, vf, hcreate, hct, _⟩ := EncCounts.encodeConnectivity_visited ch.conn _ posFaces acv enc.conn h4
  have hcorn := (EncCounts.encodeConnectivity_faces ch.conn _ posFaces acv enc.conn h4).2.1
  have hfits := create_fits hcreate
  have hc2v := create_c2v_size hcreate
  refine ⟨by rw [← hsz]; exact hfits, ?_⟩
  intro i hi
  have hm : enc.conn.processed[i]! ∈ enc.conn.processed.toList := by
    rw [getElem!_pos enc.conn.processed i hi]
    simp
  have := (hcorn _ hm).1
  rw [hct] at this
  have e : (CT.ofTable table).numCorners = table.cornerToVertex.size := rfl
  rw [e, hc2v, hsz] at this
  exact this

/-! ### (1) `PlanSetting` of the plan of a run -/

/-- what the encoder run guarantees about every item of a controller: its attribute id, its kind (the sequential
    encoder type of the attribute), and the parameters the transform declaration needs -/
theorem item_facts (ch : EbChoices) (o : EbOpts) (g : Geometry) (conn : ConnEnc) (cs : Array Controller) (anp : Bool)
    (posId : Option Nat) (e : Nat) (p : Option ParentAtt) (c : CtrlOut)
    (hgen : generateControllers o g.atts.toArray g.numPoints conn = .ok cs) (he : e < cs.size)
    (h : encodeController ch o g conn cs anp posId e p = .ok c) :
    ∀ it ∈ c.items.toList, it.attId < g.atts.toArray.size ∧
      it.kind = encoderType (g.atts.toArray[it.attId]!) (o.base.att it.attId) ∧
      (it.kind = 2 → ∃ q, quantizationParams (g.atts.toArray[it.attId]!) (o.base.att it.attId) = some q) ∧
      (it.kind = 3 → (o.base.att it.attId).quantBits.toNat < 256) := by
  obtain ⟨pts, items, _, _, hpts, hitems, hci, hctrl⟩ := encodeController_spec ch o g conn cs anp posId e p c h
  have hl := portablePass_length o g anp posId c.seq.pointIds _ p pts c.parent hpts
  obtain ⟨i1, i2⟩ := encodePass_spec ch o g e _ c.seq.pointIds c.parent _ pts items hl hitems
  have hmem : cs[e]! ∈ cs := by rw [getElem!_pos cs e he]; exact Array.getElem_mem he
  obtain ⟨g1, g2⟩ := generateControllers_encs hgen _ hmem
  intro it hit
  rw [hci] at hit
  simp only [] at hit
  obtain ⟨k, hk', rfl⟩ := List.getElem_of_mem hit
  have hks : k < (cs[e]!).encs.toList.length := by rw [← i1]; exact hk'
  have hkp : k < pts.length := by rw [hl]; exact hks
  have hitem := i2 k hks hkp hk'
  obtain ⟨hid, hkind⟩ := encodeItem_ids ch o g e _ _ _ _ _ _ hitem
  obtain ⟨rows, _, hpo⟩ := portablePass_spec o g anp posId c.seq.pointIds _ p pts c.parent hpts k hks hkp
  have hka : k < (cs[e]!).attIds.size := by rw [← g1]; simpa using hks
  obtain ⟨f1, f2, _⟩ := g2 k hka
  have hsk : (cs[e]!).encs.toList[k] = (cs[e]!).encs[k]! := by
    have : k < (cs[e]!).encs.size := by simpa using hks
    simp [this]
  have hlt : (cs[e]!).encs.toList[k].attId < g.atts.toArray.size := by
    rw [hsk, f1]
    exact generateControllers_attIds_lt hgen _ hmem _ (by
      have : (cs[e]!).attIds[k]! = (cs[e]!).attIds[k] := by simp [hka]
      rw [this]; exact Array.getElem_mem hka)
  have hkd : (cs[e]!).encs.toList[k].kind = encoderType (g.atts.toArray[(cs[e]!).encs.toList[k].attId]!)
      (o.base.att (cs[e]!).encs.toList[k].attId) := by
    rw [hsk, f2, f1]
  obtain ⟨_, c2, c3⟩ := portableOf_cases hpo
  rw [hid, hkind]
  refine ⟨hlt, hkd, ?_, ?_⟩
  · intro h2
    obtain ⟨mins, range, q, hq, _⟩ := c2 h2
    exact ⟨_, hq⟩
  · intro h3
    obtain ⟨_, ot, hot, _⟩ := c3 h3
    unfold Octa.init at hot
    split at hot
    · cases hot
    · omega

/-- the attributes of the plan in stream order, each paired with the encoder's item it was made from -/
def pairsOf (o : EbOpts) (atts : Array Attribute) (couts : List CtrlOut) (sides : List (SeqOut × Array Nat)) :
    List ((Nat × Array Nat × AttItem) × EncItem) :=
  (List.zipWith (fun (c : CtrlOut) (side : SeqOut × Array Nat) =>
    c.items.toList.map fun it => ((side.1.pointIds.size, side.2, itemOf o atts it), it)) couts sides).flatMap id

/-- the pair of input attribute `j` (lookup by the encoder's attribute id) -/
def pairOfRun (o : EbOpts) (atts : Array Attribute) (couts : List CtrlOut) (sides : List (SeqOut × Array Nat))
    (j : Nat) : (Nat × Array Nat × AttItem) × EncItem :=
  ((pairsOf o atts couts sides).find? fun p => p.2.attId == j).getD default

/-- **`item`** of `PlanSetting` for the plan of a run -/
def itemOfRun (o : EbOpts) (atts : Array Attribute) (couts : List CtrlOut) (sides : List (SeqOut × Array Nat))
    (j : Nat) : Nat × Array Nat × AttItem := (pairOfRun o atts couts sides j).1

/-- **`encI`** of `PlanSetting` for the plan of a run -/
def encOfRun (o : EbOpts) (atts : Array Attribute) (couts : List CtrlOut) (sides : List (SeqOut × Array Nat))
    (j : Nat) : EncItem := (pairOfRun o atts couts sides j).2

theorem pairs_fst (o : EbOpts) (atts : Array Attribute) (conn : ConnEnc) (cs : Array Controller) :
    ∀ (couts : List CtrlOut) (sides : List (SeqOut × Array Nat)),
    (pairsOf o atts couts sides).map (·.1) = flatN (planOf o atts conn cs couts sides) := by
  intro couts
  induction couts with
  | nil => intro sides; cases sides <;> rfl
  | cons c couts ih =>
    intro sides
    cases sides with
    | nil => rfl
    | cons sd sides =>
      have := ih sides
      unfold pairsOf flatN planOf at this ⊢
      simp only [List.zipWith_cons_cons, List.flatMap_cons, List.map_append, this, id]
      congr 1
      simp [decoderItemOf, DecoderItem.n, List.map_map, Function.comp_def]

theorem pairs_snd (o : EbOpts) (atts : Array Attribute) (couts : List CtrlOut) (sides : List (SeqOut × Array Nat))
    (hl : couts.length = sides.length) :
    (pairsOf o atts couts sides).map (·.2) = couts.flatMap fun c => c.items.toList := by
  unfold pairsOf
  rw [List.map_flatMap]
  exact zipWith_flatMap _ _ _ (fun c sd => by simp [List.map_map, Function.comp_def]) couts sides hl

theorem pairs_item (o : EbOpts) (atts : Array Attribute) : ∀ (couts : List CtrlOut) (sides : List (SeqOut × Array Nat)),
    ∀ p ∈ pairsOf o atts couts sides, p.1.2.2 = itemOf o atts p.2 := by
  intro couts
  induction couts with
  | nil => intro sides p hp; cases sides <;> simp [pairsOf] at hp
  | cons c couts ih =>
    intro sides p hp
    cases sides with
    | nil => simp [pairsOf] at hp
    | cons sd sides =>
      unfold pairsOf at hp
      simp only [List.zipWith_cons_cons, List.flatMap_cons, List.mem_append, id, List.mem_map] at hp
      rcases hp with ⟨it, _, rfl⟩ | hp
      · rfl
      · exact ih sides p hp

/-- the attribute ids of the items in stream order are a permutation of all attribute ids -/
theorem stream_ids_perm {ch : EbChoices} {o : EbOpts} {g : Geometry} {conn : ConnEnc} {cs : Array Controller}
    {anp : Bool} {posId : Option Nat} {order : Array Nat} {couts : List CtrlOut}
    (hgen : generateControllers o g.atts.toArray g.numPoints conn = .ok cs)
    (hre : rearrangeEncoders g.atts.toArray cs = .ok order)
    (hchain : CtrlChain ch o g conn cs anp posId order.toList none couts) :
    ((couts.flatMap fun c => c.items.toList).map (·.attId)).Perm (List.range g.atts.toArray.size) := by
  have hshape := chain_shape (g := g) (hg1_of_generate hgen) hchain
  have hctrl := chain_ctrl hchain
  have e1 : (couts.flatMap fun c => c.items.toList).map (·.attId) =
      couts.flatMap fun c => (cs[c.ctrl]!).attIds.toList := by
    rw [List.map_flatMap]
    apply flatMap_congr'
    intro c hc
    exact ((hshape c hc).attIds).symm
  have e2 : (couts.flatMap fun c => (cs[c.ctrl]!).attIds.toList) =
      order.toList.flatMap fun e => (cs[e]!).attIds.toList := by
    rw [← hctrl, List.flatMap_map]
  have e3 : ((List.range cs.size).flatMap fun e => (cs[e]!).attIds.toList) = ctrlAttIds cs := by
    have := range_flatMap_getElem! cs.toList (fun c => c.attIds.toList)
    unfold ctrlAttIds
    rw [← this]
    have hget : ∀ j : Nat, cs.toList[j]! = cs[j]! := by
      intro j
      simp only [getElem!_def, Array.getElem?_toList]
    simp only [hget, Array.length_toList]
  rw [e1, e2]
  refine ((rearrangeEncoders_perm hre).flatMap_right _).trans ?_
  rw [e3, generateControllers_attIds hgen]

/-- **(1) `PlanSetting` of the plan of a successful encoder run**, with `item := itemOfRun …`, `encI := encOfRun …`.
    `hatt`: the attributes are inside the domain of the stream format. -/
theorem planSetting_of_run (ch : EbChoices) (g : Geometry) (md : Option GeometryMetadata) (o : EbOpts) (enc : Encoded)
    (henc : encodeEdgebreaker ch g md o = .ok enc) (sides : List (SeqOut × Array Nat))
    (hsides : enc.couts.size = sides.length)
    (hatt : ∀ a, a < g.atts.toArray.size → EbAttOK (g.atts.toArray[a]!) (o.base.att a)) :
    PlanSetting g o (planOf o g.atts.toArray enc.conn enc.controllers enc.couts.toList sides)
      (itemOfRun o g.atts.toArray enc.couts.toList sides) (encOfRun o g.atts.toArray enc.couts.toList sides) := by
  obtain ⟨mdBytes, coder, posFaces, acv, cs, couts, h1, h2, h3, h4, h5, h6, h7, h8, h9, h10, _⟩ :=
    (encodeEdgebreaker_stages ch g md o enc henc).stages
  have hchain := encodeControllers_chain ch o g enc.conn cs _ _ _ _ _ h8
  have hord := rearrangeEncoders_order h7
  rw [h9, h10]
  rw [h10] at hsides
  simp only [] at hsides ⊢
  have hl : couts.length = sides.length := by simpa using hsides
  set atts := g.atts.toArray with hatts
  set P := pairsOf o atts couts sides with hP
  have hfst : P.map (·.1) = flatN (planOf o atts enc.conn cs couts sides) := pairs_fst o atts enc.conn cs couts sides
  have hsnd : P.map (·.2) = couts.flatMap fun c => c.items.toList := pairs_snd o atts couts sides hl
  have hitem := pairs_item o atts couts sides
  have hids : (P.map fun p => p.2.attId).Perm (List.range atts.size) := by
    have := stream_ids_perm h5 h7 hchain
    rw [← hsnd, List.map_map] at this
    exact this
  have hsize : atts.size = g.atts.length := by simp [hatts]
  -- the pair of attribute `j`
  have hpair : ∀ j, j < g.atts.length →
      pairOfRun o atts couts sides j ∈ P ∧ (pairOfRun o atts couts sides j).2.attId = j := by
    intro j hj
    have hjm : j ∈ P.map fun p => p.2.attId := hids.mem_iff.mpr (List.mem_range.mpr (by omega))
    obtain ⟨p0, hp0, hp0j⟩ := List.mem_map.mp hjm
    unfold pairOfRun
    cases hf : P.find? (fun p => p.2.attId == j) with
    | none =>
      have := List.find?_eq_none.mp hf p0 hp0
      simp [hp0j] at this
    | some p1 =>
      simp only [Option.getD_some]
      exact ⟨List.mem_of_find?_eq_some hf, by simpa using List.find?_some hf⟩
  -- the facts of every item
  have hfacts : ∀ p ∈ P, p.2.attId < atts.size ∧
      p.2.kind = encoderType (atts[p.2.attId]!) (o.base.att p.2.attId) ∧
      (p.2.kind = 2 → ∃ q, quantizationParams (atts[p.2.attId]!) (o.base.att p.2.attId) = some q) ∧
      (p.2.kind = 3 → (o.base.att p.2.attId).quantBits.toNat < 256) := by
    intro p hp
    have hm : p.2 ∈ couts.flatMap fun c => c.items.toList := by
      rw [← hsnd]; exact List.mem_map_of_mem hp
    obtain ⟨c, hc, hpc⟩ := List.mem_flatMap.mp hm
    obtain ⟨e, p', hemem, hrun⟩ := chain_mem hchain c hc
    have helt : e < cs.size := hord.2.1 e (by simpa using hemem)
    exact item_facts ch o g enc.conn cs _ _ e p' c h5 helt hrun p.2 hpc
  have hget : ∀ j (hj : j < g.atts.length), atts[j]! = g.atts[j] := by
    intro j hj
    simp [hatts, hj]
  refine {
    perm := ?_
    mem := fun j hj => by
      rw [← hfst]
      exact List.mem_map_of_mem (hpair j hj).1
    item_eq := fun j hj => hitem _ (hpair j hj).1
    attId := fun j hj => (hpair j hj).2
    attType := fun a ha => by
      obtain ⟨j, hj, rfl⟩ := List.getElem_of_mem ha
      have := (hatt j (by omega)).attType
      rwa [hget j hj] at this
    trOk := fun j hj => ?_ }
  · -- unique ids in stream order
    rw [← hfst, List.map_map]
    have e1 : P.map ((fun (x : Nat × Array Nat × AttItem) => x.2.2.desc.uniqueId) ∘ fun p => p.1) =
        (P.map fun p => p.2.attId).map fun a => (atts[a]!).uniqueId := by
      rw [List.map_map]
      apply List.map_congr_left
      intro p hp
      simp only [Function.comp, hitem p hp]
      rfl
    rw [e1]
    refine (hids.map _).trans ?_
    apply List.Perm.of_eq
    apply List.ext_getElem
    · simp [hsize]
    · intro i h1 h2
      have hi : i < g.atts.length := by simpa using h2
      simp [hget i hi]
  · -- the declared transform
    obtain ⟨hp, hid⟩ := hpair j hj
    obtain ⟨_, hk, hq, h3⟩ := hfacts _ hp
    have hitj : (itemOfRun o atts couts sides j).2.2 = itemOf o atts (encOfRun o atts couts sides j) := hitem _ hp
    rw [hitj]
    have hid' : (encOfRun o atts couts sides j).attId = j := hid
    have ha : atts[(encOfRun o atts couts sides j).attId]! = g.atts[j] := by rw [hid', hget j hj]
    have hok := hatt j (by omega)
    exact trOk_of_kind o atts (encOfRun o atts couts sides j) j g.atts[j] ha hid'
      (by have := hk; rw [show (pairOfRun o atts couts sides j).2 = encOfRun o atts couts sides j from rfl, ha, hid'] at this
          exact this)
      hok.explicit
      (by intro h2
          have := hq h2
          rw [show (pairOfRun o atts couts sides j).2 = encOfRun o atts couts sides j from rfl, ha, hid'] at this
          exact this)
      (by intro h3'
          have := h3 h3'
          rw [show (pairOfRun o atts couts sides j).2 = encOfRun o atts couts sides j from rfl, hid'] at this
          exact this)

/-! ### (3) the conditional round trip without `hs`, `hproc`, `hfits` -/

/-- **eb_roundtrip_conditional_partial'**: `eb_roundtrip_conditional_partial` with `PlanSetting` (`planSetting_of_run`),
    `hproc` and `hfits` (`hproc_of_run`) discharged from the encoder run; the row correspondence is stated for
    `itemOfRun o g.atts.toArray enc.couts.toList sides`. -/
theorem eb_roundtrip_conditional_partial' (ch : EbChoices) (g : Geometry) (md : Option GeometryMetadata) (o : EbOpts)
    (enc : Encoded) (henc : encodeEdgebreaker ch g md o = .ok enc) (hmd : ∀ m, md = some m → m.WF')
    (mesh : Mesh) (sides : List (SeqOut × Array Nat)) (hsides : enc.couts.size = sides.length)
    (hconn : ∀ coder, traversalCoder o g.faces.length = some coder →
      Runs decodeConnectivity 514 ([coder] ++ enc.conn.bytes) mesh 514)
    (hnf : mesh.numFaces = enc.conn.processed.size)
    (plan : AttPlan) (hplan : plan = planOf o g.atts.toArray enc.conn enc.controllers enc.couts.toList sides)
    (hatt : ∀ a, a < g.atts.toArray.size → EbAttOK (g.atts.toArray[a]!) (o.base.att a))
    (hids : plan.Pairwise fun a b =>
      (0 ≤ b.dec.attDataId → a.dec.attDataId ≠ b.dec.attDataId) ∧ (b.dec.attDataId < 0 → 0 ≤ a.dec.attDataId))
    (hdec : ∀ d ∈ plan, DecoderOK mesh d)
    (hvals : ∀ (i k : Nat) (hi : i < plan.length) (hk : k < plan[i].items.length),
      ValuesOK mesh plan[i] (parentAt plan i k) plan[i].items[k])
    (huid : (g.atts.map (·.uniqueId)).Nodup)
    (hrows : RowsCorr g (itemOfRun o g.atts.toArray enc.couts.toList sides) mesh.faces (flattenFaces g.faces).toArray
      mesh.numFaces (phi enc.conn.processed))
    (hcover : ∀ j (hj : j < g.faces.length), nondegFace g (g.faces[j]) = true →
      ∃ i, i < (facesOf mesh).length ∧ enc.conn.processed[i]! / 3 = j)
    (extra : Bytes) :
    ∃ st st',
      decodeGeometry {} { rest := enc.bytes ++ extra } = (some ⟨planGeometry {} mesh plan, md⟩, st) ∧ st.rest = extra ∧
      decodeGeometry { skip := allTypes } { rest := enc.bytes ++ extra } =
        (some ⟨planGeometry { skip := allTypes } mesh plan, md⟩, st') ∧ st'.rest = extra ∧
      Spec.checkCore .edgebreaker (quantReq g o.base) g (planGeometry {} mesh plan)
        (planGeometry { skip := allTypes } mesh plan) = true := by
  obtain ⟨hfits, hproc⟩ := hproc_of_run ch g md o enc henc
  have hs := planSetting_of_run ch g md o enc henc sides hsides hatt
  rw [← hplan] at hs
  exact eb_roundtrip_conditional_partial ch g md o enc henc hmd mesh sides hsides hconn hnf plan hplan hatt hids hdec hvals
    huid hs hrows hproc hfits hcover extra

/-! ### what `itemOfRun j` is -/

theorem pairs_mem (o : EbOpts) (atts : Array Attribute) : ∀ (couts : List CtrlOut) (sides : List (SeqOut × Array Nat)),
    ∀ p ∈ pairsOf o atts couts sides, ∃ c side, (c, side) ∈ couts.zip sides ∧ p.2 ∈ c.items.toList ∧
      p.1 = (side.1.pointIds.size, side.2, itemOf o atts p.2) := by
  intro couts
  induction couts with
  | nil => intro sides p hp; cases sides <;> simp [pairsOf] at hp
  | cons c couts ih =>
    intro sides p hp
    cases sides with
    | nil => simp [pairsOf] at hp
    | cons sd sides =>
      unfold pairsOf at hp
      simp only [List.zipWith_cons_cons, List.flatMap_cons, List.mem_append, id, List.mem_map] at hp
      rcases hp with ⟨it, hit, rfl⟩ | hp
      · exact ⟨c, sd, by simp, hit, rfl⟩
      · obtain ⟨c', sd', h1, h2, h3⟩ := ih sides p hp
        exact ⟨c', sd', by simp [h1], h2, h3⟩

/-- **`itemOfRun j`** for an input attribute `j`: the item of attribute id `j` of some controller output `c`, with the
    number of entries and the point map of the decoder side paired with `c` -/
theorem itemOfRun_spec (ch : EbChoices) (g : Geometry) (md : Option GeometryMetadata) (o : EbOpts) (enc : Encoded)
    (henc : encodeEdgebreaker ch g md o = .ok enc) (sides : List (SeqOut × Array Nat))
    (hsides : enc.couts.size = sides.length)
    (hatt : ∀ a, a < g.atts.toArray.size → EbAttOK (g.atts.toArray[a]!) (o.base.att a))
    (j : Nat) (hj : j < g.atts.length) :
    ∃ c side it, (c, side) ∈ enc.couts.toList.zip sides ∧ it ∈ c.items.toList ∧ it.attId = j ∧
      it = encOfRun o g.atts.toArray enc.couts.toList sides j ∧
      itemOfRun o g.atts.toArray enc.couts.toList sides j = (side.1.pointIds.size, side.2, itemOf o g.atts.toArray it) := by
  have hs := planSetting_of_run ch g md o enc henc sides hsides hatt
  have hmem := hs.mem j hj
  have hid := hs.attId j hj
  -- the pair is a member of the pairs
  have hp : pairOfRun o g.atts.toArray enc.couts.toList sides j ∈ pairsOf o g.atts.toArray enc.couts.toList sides := by
    unfold pairOfRun
    cases hf : (pairsOf o g.atts.toArray enc.couts.toList sides).find? (fun p => p.2.attId == j) with
    | some p1 => exact List.mem_of_find?_eq_some hf
    | none =>
      exfalso
      have hd : encOfRun o g.atts.toArray enc.couts.toList sides j = default := by
        unfold encOfRun pairOfRun; rw [hf]; rfl
      have hi : itemOfRun o g.atts.toArray enc.couts.toList sides j = default := by
        unfold itemOfRun pairOfRun; rw [hf]; rfl
      rw [← pairs_fst o g.atts.toArray enc.conn enc.controllers, hi] at hmem
      obtain ⟨p0, hp0, _⟩ := List.mem_map.mp hmem
      have hne := List.find?_eq_none.mp hf
      -- some pair has attribute id `j`: the lookup cannot fail
      have hperm := hs.perm
      have : ∃ p ∈ pairsOf o g.atts.toArray enc.couts.toList sides, p.2.attId = j := by
        by_contra hcon
        rw [hd] at hid
        -- `default.attId = 0 = j`, so the default would have to be found among the pairs: use `mem` again
        have hj0 : j = 0 := hid.symm
        subst hj0
        -- attribute 0 occurs in the stream
        obtain ⟨mdBytes, coder, posFaces, acv, cs, couts, h1, h2, h3, h4, h5, h6, h7, h8, h9, h10, _⟩ :=
          (encodeEdgebreaker_stages ch g md o enc henc).stages
        have hchain := encodeControllers_chain ch o g enc.conn cs _ _ _ _ _ h8
        have hids := stream_ids_perm h5 h7 hchain
        have hl : couts.length = sides.length := by rw [h10] at hsides; simpa using hsides
        have hsnd := pairs_snd o g.atts.toArray couts sides hl
        rw [← hsnd, List.map_map] at hids
        have h0 : 0 ∈ List.range g.atts.toArray.size := List.mem_range.mpr (by simpa using hj)
        obtain ⟨p, hp, hp0'⟩ := List.mem_map.mp (hids.mem_iff.mpr h0)
        rw [h10] at hcon
        exact hcon ⟨p, hp, hp0'⟩
      obtain ⟨p, hp, hpj⟩ := this
      have := hne p hp
      simp [hpj] at this
  obtain ⟨c, side, h1, h2, h3⟩ := pairs_mem o g.atts.toArray _ _ _ hp
  exact ⟨c, side, _, h1, h2, hid, rfl, h3⟩

end PlanSettingP

end Draco.EbEnc
