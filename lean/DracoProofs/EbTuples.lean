import DracoProofs.EbPosAgree
import DracoProofs.SpecCheck
/-
  The GENERAL form of "assign_points_correspond" needed by the executable specification
  `Spec.checkCore .edgebreaker` (DracoModel/Spec.lean): for ONE attribute `a` of the input geometry, encoded by a
  sequential encoder of kind 0 / 1 / 2 / 3 inside a controller whose views are `dC` (decoder) / `eC` (encoder),
  the value row the decoded public attribute `A'` shows for the point of a DECODER corner `c` is the declared
  transform applied to the value row the input attribute shows for the point of the ENCODER corner `φ c`:

      (Spec.view A').pointRow facesD[c]! = Spec.expectedRow tr ((Spec.view a).pointRow facesE[φ c]!)

  (i)  `entry_of_corner`: the decoder's point map sends the point of `c` to an entry `e` of the sequence whose ENCODER
       point has the same attribute value index as the point of `φ c` (the posSeq / curSeq argument of
       EbPosAgree.lean with `ValuesRefineVertices` instead of `vertexPos`); hence `rows[e]` (`rowsAt`) is the
       original row of the point of `φ c` (`row_of_corner`);
  (ii) `pointRow_decoded`: the decoded attribute has an explicit point map and a value buffer that is the
       concatenation of one row per entry; `row_corr_generic` combines (i) and (ii) for a buffer `(rows.map F).flatten`;
  per kind: `row_corr_kind0` … `row_corr_kind3` identify the buffer and `F = Spec.expectedRow tr`.
-/
namespace Draco.EbEnc
open Draco Draco.SeqEnc
open Draco.Eb hiding iabs nextC prevC

namespace Tuples
open PosAgreeP

/-- **`ValuesRefineVertices`**: corners with the same vertex of the ENCODER's view carry points with the same value
    index of the attribute `a` (for the position attribute on the base view: `vertexPos_of_create`; for an
    attribute on its attribute corner table: the table is built from the attribute's value indices) -/
def ValuesRefineVertices (a : Attribute) (eC : TView) (facesE : Array Nat) (n : Nat) (φ : Nat → Nat) : Prop :=
  ∀ c c', c < 3 * n → c' < 3 * n → eC.vertex (φ c) = eC.vertex (φ c') →
    mapped a facesE[φ c]! = mapped a facesE[φ c']!

/-- the structural facts of one attribute inside one controller -/
structure TupleSetup (a : Attribute) (np : Nat) (facesE facesD : Array Nat) (npD : Nat) (dC eC : TView)
    (φ ψC : Nat → Nat) (seqD seqE : SeqOut) (mD : Array Nat) : Prop where
  /-- the views of the controller are isomorphic -/
  iso : TVIso dC eC φ ψC
  /-- decoder invariant of `assignPoints` for THIS view: the same point ⇒ the same vertex of the view -/
  refines : PointsRefineVertices dC facesD
  /-- `UpdatePointToAttributeIndexMapping` of the decoder -/
  mapD_ok : pointToValueMap dC facesD npD seqD.v2d = .ok mD
  /-- the two sequences have the same number of entries -/
  seq_size : seqE.pointIds.size = seqD.pointIds.size
  /-- every vertex of a corner is an entry of the sequence (`posSeq_of_runs`) -/
  seq : ∀ c v, c < 3 * dC.numFaces → dC.vertex c = .ok v →
    ∃ p c', p < seqD.pointIds.size ∧ c' < 3 * dC.numFaces ∧ dC.vertex c' = .ok v ∧ seqD.v2d[v]? = some p ∧
      facesE[φ c']? = some seqE.pointIds[p]!
  /-- same encoder vertex ⇒ same value index -/
  values : ValuesRefineVertices a eC facesE dC.numFaces φ
  /-- the attribute is structurally valid -/
  valid : a.valid np = true
  /-- the points of the faces are points of the geometry -/
  facesE_lt : ∀ c, c < 3 * eC.numFaces → facesE[c]! < np
  /-- the points of the sequence are points of the geometry -/
  pids_lt : ∀ k, k < seqE.pointIds.size → seqE.pointIds[k]! < np

/-- **`TupleSetup` from the two traversal runs** of the controller -/
theorem tupleSetup_of_runs {a : Attribute} {np : Nat} {facesE facesD : Array Nat} {npD : Nat} {dC eC : TView}
    {φ ψC : Nat → Nat} (hiso : TVIso dC eC φ ψC) (hg : Hedge dC)
    (order v2dInit : Array Nat) (v2dSize : Nat)
    (hsize : order.size = dC.numFaces) (horder : ∀ i, i < dC.numFaces → order[i]! = φ (3 * i))
    (seqD seqE : SeqOut) (htrav : TraversalRuns dC eC facesD facesE order v2dInit v2dSize seqD seqE)
    (href : PointsRefineVertices dC facesD) {mD : Array Nat}
    (hmapD : pointToValueMap dC facesD npD seqD.v2d = .ok mD)
    (hvals : ValuesRefineVertices a eC facesE dC.numFaces φ) (hvalid : a.valid np = true)
    (hlt : ∀ c, c < 3 * eC.numFaces → facesE[c]! < np) :
    TupleSetup a np facesE facesD npD dC eC φ ψC seqD seqE mD := by
  obtain ⟨p1, p2⟩ := posSeq_of_runs hiso hg order v2dInit v2dSize hsize horder facesD facesE seqD seqE htrav
  obtain ⟨c1, c2⟩ := curSeq_of_runs hiso order v2dInit v2dSize hsize horder facesD facesE seqD seqE htrav
  have hd : seqD.pointIds.size = seqD.d2c.size := by rw [← c1, p1]
  exact {
    iso := hiso
    refines := href
    mapD_ok := hmapD
    seq_size := c1
    seq := fun c v hc hv => by
      obtain ⟨p, c', h1, h2, h3, h4, h5⟩ := p2 c v hc hv
      exact ⟨p, c', by rw [hd]; exact h1, h2, h3, h4, h5⟩
    values := hvals
    valid := hvalid
    facesE_lt := hlt
    pids_lt := fun k hk => by
      obtain ⟨c, hc, _, h2⟩ := c2 k (by rw [← c1]; exact hk)
      rw [← (get!_of_some h2).2]
      exact hlt _ (hiso.phi_lt c hc) }

section
variable {a : Attribute} {np : Nat} {facesE facesD : Array Nat} {npD : Nat} {dC eC : TView}
  {φ ψC : Nat → Nat} {seqD seqE : SeqOut} {mD : Array Nat}

/-- **(i)** the decoder's point map sends the point of the decoder corner `c` to an entry `e` of the sequence whose
    encoder point has the same value index of `a` as the point of the encoder corner `φ c` -/
theorem entry_of_corner (h : TupleSetup a np facesE facesD npD dC eC φ ψC seqD seqE mD)
    (c : Nat) (hc : c < 3 * dC.numFaces) :
    ∃ e val, mD[facesD[c]!]? = some e ∧ e < seqE.pointIds.size ∧
      mapped a seqE.pointIds[e]! = .ok val ∧ mapped a facesE[φ c]! = .ok val ∧ facesE[φ c]! < np := by
  have hfits := h.iso.fits
  obtain ⟨_, hmap⟩ := pointToValueMap_spec hfits.1 h.refines h.mapD_ok
  obtain ⟨v, e, hv, he, _, hme⟩ := hmap c hc
  obtain ⟨p, c', hp, hc', hv', hvp, hfp⟩ := h.seq c v hc hv
  rw [hvp] at he
  have hep : p = e := by simpa using he
  subst hep
  obtain ⟨v1, a1, _, a3, _⟩ := h.iso.vertex c hc
  obtain ⟨v2, b1, _, b3, _⟩ := h.iso.vertex c' hc'
  rw [hv] at a1; cases a1
  rw [hv'] at b1; cases b1
  have hsame := h.values c c' hc hc' (by rw [a3, b3])
  have hpE : p < seqE.pointIds.size := by rw [h.seq_size]; exact hp
  have hφc := h.iso.phi_lt c hc
  have hlt := h.facesE_lt _ hφc
  -- the value index of a point of the geometry exists
  have hval : ∃ val, mapped a facesE[φ c]! = .ok val := by
    have hv := h.valid
    unfold Attribute.valid at hv
    simp only [Bool.and_eq_true, decide_eq_true_eq] at hv
    unfold mapped mappedIndex
    cases hm : a.map with
    | none => exact ⟨_, rfl⟩
    | some m =>
      have hmap := hv.2
      rw [hm] at hmap
      simp only [Bool.and_eq_true, beq_iff_eq] at hmap
      exact ⟨_, rd_of_lt _ _ _ (by simp [hmap.1]; exact hlt)⟩
  obtain ⟨val, hval⟩ := hval
  refine ⟨p, val, hme, hpE, ?_, hval, hlt⟩
  rw [← (get!_of_some hfp).2, ← hsame]
  exact hval

/-- the original row of a point, as `Spec.view` shows it, is the value of its value index -/
theorem view_pointRow_mapped (a : Attribute) (n p val : Nat) (hv : a.valid n = true) (hp : p < n)
    (hm : mapped a p = .ok val) :
    val < a.numValues ∧ (Spec.view a).pointRow p = valueAt a.values.toArray a.stride val := by
  unfold Attribute.valid at hv
  simp only [Bool.and_eq_true, decide_eq_true_eq] at hv
  obtain ⟨⟨⟨h1, h2⟩, hlen⟩, hmap⟩ := hv
  have hs : 0 < a.stride := Nat.mul_pos (by omega) (by omega)
  have hrow : ∀ idx, idx < a.numValues →
      (Spec.rows a).getD idx [] = valueAt a.values.toArray a.stride idx := by
    intro idx hi
    unfold Spec.rows
    rw [chunkBytes_getD a.stride hs a.values idx (by
      have : (idx + 1) * a.stride ≤ a.numValues * a.stride := Nat.mul_le_mul_right _ hi
      omega), valueAt_eq]
  unfold mapped mappedIndex at hm
  unfold Spec.AttView.pointRow Spec.view Spec.valueIndex
  cases hmm : a.map with
  | none =>
    rw [hmm] at hmap hm
    simp only [ge_iff_le, decide_eq_true_eq] at hmap
    simp only [Option.map_none, pure, Except.pure, Except.ok.injEq] at hm
    subst hm
    exact ⟨by omega, by simp only [Option.map_none]; exact hrow p (by omega)⟩
  | some m =>
    rw [hmm] at hmap hm
    simp only [Bool.and_eq_true, beq_iff_eq, List.all_eq_true, decide_eq_true_eq] at hmap
    obtain ⟨hml, hmall⟩ := hmap
    have hpm : p < m.length := by omega
    simp only [Option.map_some] at hm ⊢
    have hg := rd_some.mp hm
    have e1 : m.toArray.getD p 0 = m[p] := by simp [Array.getD, hpm]
    have e2 : val = m[p] := by
      simp [hpm] at hg; exact hg.symm
    rw [e1, e2]
    exact ⟨hmall _ (List.getElem_mem hpm), hrow m[p] (hmall _ (List.getElem_mem hpm))⟩

/-- every row of `rowsAt` on the sequence has the stride of the attribute and consists of bytes -/
theorem rows_uniform (h : TupleSetup a np facesE facesD npD dC eC φ ψC seqD seqE mD)
    {rows : List Bytes} (hr : rowsAt a seqE.pointIds = .ok rows) :
    rows.length = seqE.pointIds.size ∧ 0 < a.stride ∧ ∀ r ∈ rows, r.length = a.stride ∧ (IsBytes a.values → IsBytes r) := by
  obtain ⟨hl, hrow⟩ := rowsAt_spec hr
  have hv := h.valid
  unfold Attribute.valid at hv
  simp only [Bool.and_eq_true, decide_eq_true_eq] at hv
  obtain ⟨⟨⟨h1, h2⟩, hlen⟩, _⟩ := hv
  refine ⟨hl, Nat.mul_pos (by omega) (by omega), ?_⟩
  intro r hr'
  obtain ⟨k, hk, rfl⟩ := List.getElem_of_mem hr'
  obtain ⟨val, hval, hrk⟩ := hrow k (by omega)
  rw [List.getElem?_eq_getElem hk] at hrk
  have hrk' : rows[k] = valueAt a.values.toArray a.stride val := by injection hrk
  obtain ⟨hvn, _⟩ := view_pointRow_mapped a np _ val h.valid (h.pids_lt k (by omega)) hval
  rw [hrk']
  constructor
  · apply valueAt_length
    have : (val + 1) * a.stride ≤ a.numValues * a.stride := Nat.mul_le_mul_right _ hvn
    simp only [List.size_toArray]
    rw [Nat.succ_mul] at this
    omega
  · intro hb x hx
    rw [valueAt_eq] at hx
    exact hb x (List.mem_of_mem_drop (List.mem_of_mem_take hx))

/-- **(i), rows**: the row (`rowsAt` on the encoder's sequence) of the entry of the decoder corner `c` is the
    original row of the point of the encoder corner `φ c` -/
theorem row_of_corner (h : TupleSetup a np facesE facesD npD dC eC φ ψC seqD seqE mD)
    {rows : List Bytes} (hr : rowsAt a seqE.pointIds = .ok rows) (c : Nat) (hc : c < 3 * dC.numFaces) :
    ∃ e, mD[facesD[c]!]? = some e ∧ e < rows.length ∧
      rows.getD e [] = (Spec.view a).pointRow facesE[φ c]! := by
  obtain ⟨e, val, hme, he, hv1, hv2, hlt⟩ := entry_of_corner h c hc
  obtain ⟨hl, hrow⟩ := rowsAt_spec hr
  obtain ⟨val', hval', hre⟩ := hrow e he
  rw [hv1] at hval'
  cases hval'
  refine ⟨e, hme, by omega, ?_⟩
  rw [(view_pointRow_mapped a np _ val h.valid hlt hv2).2]
  simp [List.getD, hre]

end

/-! ### (ii) the decoded attribute: explicit point map, one row per entry -/

/-- the row of point `p` of a decoded attribute with the explicit map `m` whose values are the concatenation of rows
    of `stride` bytes -/
theorem pointRow_decoded (d : Attribute) (m : List Nat) (rows : List Bytes) (p e : Nat) (hmap : d.map = some m)
    (hs : 0 < d.stride) (hvals : d.values = rows.flatten) (hrows : ∀ r ∈ rows, r.length = d.stride)
    (hpe : m.toArray[p]? = some e) (he : e < rows.length) :
    (Spec.view d).pointRow p = rows.getD e [] := by
  unfold Spec.AttView.pointRow Spec.view Spec.valueIndex Spec.rows
  simp only [hmap, Option.map_some]
  have hidx : m.toArray.getD p 0 = e := by
    rw [Array.getD_eq_getD_getElem?, hpe]; rfl
  rw [hidx]
  have hlen : rows.flatten.length = rows.length * d.stride := flatten_length_uniform d.stride rows hrows
  rw [chunkBytes_getD d.stride hs d.values e (by
    rw [hvals, hlen]; exact Nat.mul_le_mul_right _ he), hvals]
  exact flatten_drop_take d.stride rows e hrows he

/-- the decoded public attribute: descriptor of `a`, `N` values, the value buffer `vals`, the decoder's point map -/
def decodedAtt (a : Attribute) (N : Nat) (vals : Bytes) (mD : Array Nat) : Attribute :=
  { (descOf a).toAttribute N vals with map := some mD.toList }

theorem decodedAtt_stride (a : Attribute) (N : Nat) (vals : Bytes) (mD : Array Nat) :
    (decodedAtt a N vals mD).stride = a.stride := rfl

section
variable {a : Attribute} {np : Nat} {facesE facesD : Array Nat} {npD : Nat} {dC eC : TView}
  {φ ψC : Nat → Nat} {seqD seqE : SeqOut} {mD : Array Nat}

/-- **the generic row correspondence**: a value buffer that is — entry by entry — `F` of the rows of the entries -/
theorem row_corr_generic (h : TupleSetup a np facesE facesD npD dC eC φ ψC seqD seqE mD)
    {rows : List Bytes} (hr : rowsAt a seqE.pointIds = .ok rows) (F : Bytes → Bytes)
    (hF : ∀ r ∈ rows, (F r).length = a.stride) (N : Nat) (c : Nat) (hc : c < 3 * dC.numFaces) :
    (Spec.view (decodedAtt a N (rows.map F).flatten mD)).pointRow facesD[c]! =
      F ((Spec.view a).pointRow facesE[φ c]!) := by
  obtain ⟨e, hme, he, hrow⟩ := row_of_corner h hr c hc
  obtain ⟨_, hs, _⟩ := rows_uniform h hr
  rw [pointRow_decoded (decodedAtt a N (rows.map F).flatten mD) mD.toList (rows.map F) facesD[c]! e rfl
    (by rw [decodedAtt_stride]; exact hs) rfl
    (by
      intro r hr'
      simp only [List.mem_map] at hr'
      obtain ⟨r0, hr0, rfl⟩ := hr'
      rw [decodedAtt_stride]; exact hF r0 hr0)
    (by simpa using hme) (by simpa using he)]
  rw [← hrow]
  simp [List.getD, he]

/-- **kind 0** (generic encoder): the raw rows -/
theorem row_corr_kind0 (h : TupleSetup a np facesE facesD npD dC eC φ ψC seqD seqE mD)
    {rows : List Bytes} (hr : rowsAt a seqE.pointIds = .ok rows) (N : Nat) (c : Nat) (hc : c < 3 * dC.numFaces) :
    (Spec.view (decodedAtt a N rows.flatten mD)).pointRow facesD[c]! =
      Spec.expectedRow .none ((Spec.view a).pointRow facesE[φ c]!) := by
  obtain ⟨_, _, hu⟩ := rows_uniform h hr
  have := row_corr_generic h hr id (fun r hr' => (hu r hr').1) N c hc
  simpa [Spec.expectedRow] using this

/-- **kind 1** (integer encoder): the portable int32 values narrowed back to the data type of the attribute -/
theorem row_corr_kind1 (h : TupleSetup a np facesE facesD npD dC eC φ ψC seqD seqE mD)
    {rows : List Bytes} (hr : rowsAt a seqE.pointIds = .ok rows) {portable : List Int}
    (hp : integerPortable a rows = some portable)
    (hdt : 1 ≤ a.dataType ∧ a.dataType ≤ 6) (hbytes : IsBytes a.values)
    (N : Nat) (c : Nat) (hc : c < 3 * dC.numFaces) :
    (Spec.view (decodedAtt a N (portable.map (intToLE (dataTypeLength a.dataType))).flatten mD)).pointRow facesD[c]! =
      Spec.expectedRow .none ((Spec.view a).pointRow facesE[φ c]!) := by
  obtain ⟨_, _, hu⟩ := rows_uniform h hr
  obtain ⟨_, hflat, _⟩ := integerPortable_spec a hdt rows.length rows portable rfl
    (fun r hr' => ⟨(hu r hr').1, (hu r hr').2 hbytes⟩) hp
  rw [hflat]
  exact row_corr_kind0 h hr N c hc

/-- the original row of the point of an encoder corner has the stride of the attribute -/
theorem pointRow_length (h : TupleSetup a np facesE facesD npD dC eC φ ψC seqD seqE mD)
    {rows : List Bytes} (hr : rowsAt a seqE.pointIds = .ok rows) (c : Nat) (hc : c < 3 * dC.numFaces) :
    ((Spec.view a).pointRow facesE[φ c]!).length = a.stride := by
  obtain ⟨e, _, he, hrow⟩ := row_of_corner h hr c hc
  obtain ⟨_, _, hu⟩ := rows_uniform h hr
  rw [← hrow]
  have : rows.getD e [] = rows[e] := by simp [List.getD, he]
  rw [this]
  exact (hu _ (List.getElem_mem he)).1

/-- **kind 2** (quantization encoder): `dequantize ∘ quantize` with the declared parameters.
    `hd9`: the attribute holds float32 values; `hml`: one minimum per component. -/
theorem row_corr_kind2 (h : TupleSetup a np facesE facesD npD dC eC φ ψC seqD seqE mD)
    {rows : List Bytes} (hr : rowsAt a seqE.pointIds = .ok rows) (mins : List Nat) (range q : Nat)
    (hd9 : a.dataType = 9) (hml : mins.length = a.numComponents)
    (N : Nat) (c : Nat) (hc : c < 3 * dC.numFaces) :
    (Spec.view (decodedAtt a N
        (dequantAll range ((q : Nat) : Int).toNat mins (quantizedPortable mins range q a.numComponents rows) mins []).flatten
        mD)).pointRow facesD[c]! =
      Spec.expectedRow (.quantization (q : Nat) mins range) ((Spec.view a).pointRow facesE[φ c]!) := by
  have hstride : a.stride = a.numComponents * 4 := by
    unfold Attribute.stride; rw [hd9]; simp [dataTypeLength]; omega
  have hnc : 1 ≤ a.numComponents := by
    have hv := h.valid
    unfold Attribute.valid at hv
    simp only [Bool.and_eq_true, decide_eq_true_eq] at hv
    exact hv.1.1.1
  have hne : mins ≠ [] := by intro hc'; rw [hc'] at hml; simp at hml; omega
  let F : Bytes → Bytes := fun row =>
    dequantRow range q mins (quantizeRow mins range q 0 (rowF32s a.numComponents row))
  have hbuf : (dequantAll range ((q : Nat) : Int).toNat mins
      (quantizedPortable mins range q a.numComponents rows) mins []).flatten = (rows.map F).flatten := by
    unfold quantizedPortable
    rw [Int.toNat_natCast, dequantAll_rows range q mins hne _ [] (by
      intro r hr'
      simp only [List.mem_map] at hr'
      obtain ⟨row, _, rfl⟩ := hr'
      rw [Draco.quantizeRow_length, Draco.rowF32s_length, hml])]
    simp [List.map_map, Function.comp_def, F]
  rw [hbuf, row_corr_generic h hr F (by
    intro r _
    simp only [F, dequantRow]
    rw [hstride, flatten_length_uniform 4]
    · simp [Draco.quantizeRow_length, Draco.rowF32s_length, hml]
    · intro x hx
      rw [List.mem_iff_getElem] at hx
      obtain ⟨k, hk, rfl⟩ := hx
      simp [writeLE_length]) N c hc]
  exact (expectedRow_quant mins range q a.numComponents _
    (by rw [pointRow_length h hr c hc, hstride]) hml).symm

/-- **kind 3** (normal encoder): `octahedral decode ∘ encode` with the declared bits.
    `hd9`: float32 values; `hnc3`: three components; `ht`: the octahedron tool box of `q` bits. -/
theorem row_corr_kind3 (h : TupleSetup a np facesE facesD npD dC eC φ ψC seqD seqE mD)
    {rows : List Bytes} (hr : rowsAt a seqE.pointIds = .ok rows) (q : Nat) (ot : OctaT)
    (ht : Octa.init q = some ot) (hd9 : a.dataType = 9) (hnc3 : a.numComponents = 3)
    (N : Nat) (c : Nat) (hc : c < 3 * dC.numFaces) :
    (Spec.view (decodedAtt a N
        (octaAll ((q : Nat) : Int).toNat (octaPortable ot rows) []).flatten mD)).pointRow facesD[c]! =
      Spec.expectedRow (.octahedron (q : Nat)) ((Spec.view a).pointRow facesE[φ c]!) := by
  have hstride : a.stride = 3 * 4 := by
    unfold Attribute.stride; rw [hd9, hnc3]; simp [dataTypeLength]
  let F : Bytes → Bytes := fun row => octaRowDecode q (octaRow ot row)
  have hbuf : (octaAll ((q : Nat) : Int).toNat (octaPortable ot rows) []).flatten = (rows.map F).flatten := by
    unfold octaPortable
    rw [Int.toNat_natCast, octaAll_rows _ _ [] (by
      intro r hr'
      simp only [List.mem_map] at hr'
      obtain ⟨row, _, rfl⟩ := hr'
      exact ⟨_, _, rfl⟩)]
    simp [List.map_map, Function.comp_def, F]
  rw [hbuf, row_corr_generic h hr F (by
    intro r _
    have e : rowF32s 3 r = [leValue (r.take 4), leValue ((r.drop 4).take 4),
        leValue (((r.drop 4).drop 4).take 4)] := rfl
    simp only [F, hstride, octaRow, e, octaRowDecode, List.length_append, writeLE_length]) N c hc]
  exact (expectedRow_octa q ot ht _ (by rw [pointRow_length h hr c hc, hstride])).symm

end

/-- **`ValuesRefineVertices` of the attribute the base table is built from** (`vertexPos_of_create`): the position
    attribute — any attribute with `use_single_connectivity_` — on the base view; `hpf` as in `hpf_of_connInputs` -/
theorem valuesRefine_of_create {posFaces : Faces} {table : CornerTable}
    (hcreate : CornerTable.create posFaces = some table) {dB : TView} {φ ψB : Nat → Nat}
    (hiso : TVIso dB (CT.ofTable table).view φ ψB) (a : Attribute) (facesE : Array Nat)
    (hpf : ∀ c c', c < 3 * posFaces.size → c' < 3 * posFaces.size →
      inputVertex posFaces c = inputVertex posFaces c' → mapped a facesE[c]! = mapped a facesE[c']!) :
    ValuesRefineVertices a (CT.ofTable table).view facesE dB.numFaces φ := by
  intro c c' hc hc' hv
  obtain ⟨v1, _, _, a3, _⟩ := hiso.vertex c hc
  obtain ⟨v2, _, _, b3, _⟩ := hiso.vertex c' hc'
  rw [a3] at hv
  exact vertexPos_of_create hcreate a facesE hpf (φ c) (φ c') (ψB v1) (hiso.phi_lt c hc) (hiso.phi_lt c' hc') a3 hv.symm

end Tuples

end Draco.EbEnc
