import DracoProofs.EbFinal
import DracoProofs.EbConnExample
/-
  NON-VACUITY of `eb_roundtrip_conditional_partial` (DracoProofs/EbFinal.lean): on the triangle of
  DracoProofs/EbConnExample.lean (`exCh`, `exG`, `exO`, `exEnc`, `exMesh`) EVERY hypothesis is discharged, so the
  conclusion holds unconditionally (`exRoundtrip`): both decodes of `exBytes ++ extra` succeed, consume exactly the stream,
  and `Spec.checkCore .edgebreaker` accepts.  `exDecoded`: the geometry both decodes return, explicitly.

  Hypotheses and how they are discharged:
    henc   `exEncode`            hconn  `exHconn` (EbConnExample: `Runs decodeConnectivity`)       hmd  vacuous (`md = none`)
    hsides, hnf, huid, hproc, hfits, hcover   kernel evaluation (`decide +kernel`)
    hplan  `exPlan` is by definition `planOf …`; `exPlan_eq : exPlan = [exD]` (explicit literal) by kernel evaluation
    hatt   `EbAttOK` field by field          hids  one decoder
    hdec   `DecoderOK`: `exSeqD_run` / `exMapD_run` — the decoder's own sequence and point map, kernel evaluation
    hvals  `exValuesOK`: `runs_encodeIntegerValuesEb` (the value-block theorem, same mesh data on both sides: the
           decoder's view / sequence coincide with the encoder's for this mesh) applied to `exBlockEnc` (the encoder's
           block for the decoder's mesh data, kernel evaluation); no parent attribute (`exParent`)
    hs     `PlanSetting` field by field (kernel evaluation)
    hrows  `RowsCorr`: a bounded, decidable statement over closed byte lists — kernel evaluation
-/
namespace Draco.EbEnc.ConnExample
open Draco Draco.SeqEnc DecM
open Draco.Eb hiding iabs nextC prevC
open FaceCorr

deriving instance DecidableEq for AttDesc, AttDecoder, SeqOut, AttItem, DecoderItem, PScheme

def dec0 : AttDecoder := { attDataId := -1, cornerDecoder := false, traversalMethod := 0 }
def exSeqD : SeqOut := ⟨#[1, 2, 0], #[1, 2, 0], #[2, 0, 1]⟩
def exMapD : Array Nat := #[2, 0, 1]
def exValueBytes : Bytes := [1, 1, 1, 0, 3, 3, 85, 21, 173, 42, 3, 4, 112, 129, 49, 16, 0, 0, 0, 0, 4, 0, 0, 0]
def exPortable : Array Int := #[4, 0, 0, 0, 4, 0, 0, 0, 0]
def exItem : AttItem :=
  { desc := ⟨0, 5, 3, false, 0⟩, decoderType := 1, valueBytes := exValueBytes, portable := exPortable, paramBytes := [],
    transform := .none }
def exD : DecoderItem := { dec := dec0, seq := exSeqD, map := exMapD, items := [exItem] }
def exSides : List (SeqOut × Array Nat) := [(exSeqD, exMapD)]
def exPlan : AttPlan := planOf exO exG.atts.toArray exEnc.conn exEnc.controllers exEnc.couts.toList exSides

theorem exPlan_eq : exPlan = [exD] := by decide +kernel

theorem exHsides : exEnc.couts.size = exSides.length := by decide +kernel
theorem exHnf : exMesh.numFaces = exEnc.conn.processed.size := by decide +kernel
theorem exHuid : (exG.atts.map (·.uniqueId)).Nodup := by decide +kernel
theorem exHproc : ∀ i, i < exEnc.conn.processed.size → exEnc.conn.processed[i]! < 3 * exG.faces.length := by decide +kernel
theorem exHfits : 3 * exG.faces.length ≤ inv := by decide +kernel

theorem exHatt : ∀ a, a < exG.atts.toArray.size → EbAttOK (exG.atts.toArray[a]!) (exO.base.att a) := by
  intro a ha
  have : a = 0 := by
    have : exG.atts.toArray.size = 1 := by decide
    omega
  subst this
  exact ⟨by decide, by decide, by decide, by decide, fun org r h => by
    have : (exO.base.att 0).explicitQuant = none := by decide
    rw [this] at h; cases h⟩

theorem exHids : exPlan.Pairwise fun a b =>
    (0 ≤ b.dec.attDataId → a.dec.attDataId ≠ b.dec.attDataId) ∧ (b.dec.attDataId < 0 → 0 ≤ a.dec.attDataId) := by
  rw [exPlan_eq]; exact List.pairwise_singleton _ _

theorem exSeqD_run : sequenceOfDecoder exMesh dec0 = .ok exSeqD := by
  have h : (match sequenceOfDecoder exMesh dec0 with | .ok s => decide (s = exSeqD) | .error _ => false) = true := by
    decide +kernel
  split at h
  · rename_i s hs; rw [hs, of_decide_eq_true h]
  · exact absurd h (by decide)

theorem exMapD_run : pointToValueMap (viewOfDecoder exMesh dec0) exMesh.faces exMesh.numPoints exSeqD.v2d = .ok exMapD := by
  have h : (match pointToValueMap (viewOfDecoder exMesh dec0) exMesh.faces exMesh.numPoints exSeqD.v2d with
      | .ok s => decide (s = exMapD) | .error _ => false) = true := by
    decide +kernel
  split at h
  · rename_i s hs; rw [hs, of_decide_eq_true h]
  · exact absurd h (by decide)

theorem exDecOK : DecoderOK exMesh exD :=
  { idRange := by decide, idAtt := fun h => absurd h (by decide), traversal := by decide,
    corner := fun h => absurd h (by decide), seq := exSeqD_run, map := exMapD_run, nonempty := by decide,
    count := by decide }

theorem exHdec : ∀ d ∈ exPlan, DecoderOK exMesh d := by
  rw [exPlan_eq]; intro d hd; rw [List.mem_singleton] at hd; subst hd; exact exDecOK

theorem exHcover : ∀ j (hj : j < exG.faces.length), nondegFace exG (exG.faces[j]) = true →
    ∃ i, i < (facesOf exMesh).length ∧ exEnc.conn.processed[i]! / 3 = j := by
  intro j hj _
  have : j = 0 := by
    have : exG.faces.length = 1 := by decide
    omega
  subst this
  exact ⟨0, by decide +kernel, by decide +kernel⟩

def exMD : MeshData := ⟨viewOfDecoder exMesh dec0, exSeqD.d2c, exSeqD.v2d⟩

theorem exBlockEnc : encodeIntegerValuesEb exCh exO.base 0 1 3 3 .parallelogram exMD exSeqD.pointIds none exPortable =
    .ok (.parallelogram, exValueBytes) := by
  have h : (match encodeIntegerValuesEb exCh exO.base 0 1 3 3 .parallelogram exMD exSeqD.pointIds none exPortable with
      | .ok s => decide (s = (PScheme.parallelogram, exValueBytes)) | .error _ => false) = true := by
    decide +kernel
  split at h
  · rename_i s hs; rw [hs, of_decide_eq_true h]
  · exact absurd h (by decide)

theorem exParent : parentAt [exD] 0 0 = none := by rfl

theorem exValuesOK : ValuesOK exMesh exD (parentAt [exD] 0 0) exItem := by
  rw [exParent]
  refine ⟨fun h => absurd h (by decide), fun _ => ?_⟩
  exact (runs_encodeIntegerValuesEb exCh exO.base 0 1 3 3 3 3 .parallelogram exMD exSeqD.pointIds none none exPortable
    .parallelogram exValueBytes (by decide) (by simp [SchemeKindOK]) (fun p h => by cases h) (by decide) (by decide)
    (by decide) (by decide) (by decide) (by decide) (fun h => absurd h (by decide)) (by decide) (by decide)
    (fun h => by cases h) exBlockEnc).2

theorem exHvals : ∀ (i k : Nat) (hi : i < exPlan.length) (hk : k < exPlan[i].items.length),
    ValuesOK exMesh exPlan[i] (parentAt exPlan i k) exPlan[i].items[k] := by
  rw [exPlan_eq]
  intro i k hi hk
  have hi0 : i = 0 := by simpa using hi
  subst hi0
  have hk0 : k = 0 := by simpa [exD] using hk
  subst hk0
  exact exValuesOK

def exItemF : Nat → Nat × Array Nat × AttItem := fun _ => (3, exMapD, exItem)
def exEncI : Nat → EncItem := fun _ => exEnc.couts[0]!.items[0]!

theorem exJ0 {j : Nat} (hj : j < exG.atts.length) : j = 0 := by
  have : exG.atts.length = 1 := by decide
  omega

theorem exHs : PlanSetting exG exO exPlan exItemF exEncI := by
  refine ⟨?_, ?_, ?_, ?_, by decide, ?_⟩
  · have h1 : ((flatN exPlan).map fun x => x.2.2.desc.uniqueId) = [0] := by decide +kernel
    have h2 : exG.atts.map (·.uniqueId) = [0] := by decide
    rw [h1, h2]
  · intro j _
    have : flatN exPlan = [(3, exMapD, exItem)] := by decide +kernel
    rw [this]; exact List.mem_singleton.mpr rfl
  · intro j _
    show exItem = itemOf exO exG.atts.toArray (exEnc.couts[0]!.items[0]!)
    decide +kernel
  · intro j hj
    rw [exJ0 hj]
    show (exEnc.couts[0]!.items[0]!).attId = 0
    decide +kernel
  · intro j hj
    have := exJ0 hj
    subst this
    revert hj
    decide +kernel

theorem exHrows : RowsCorr exG exItemF exMesh.faces (flattenFaces exG.faces).toArray exMesh.numFaces
    (phi exEnc.conn.processed) := by
  unfold RowsCorr
  decide +kernel

/-- **the round trip of the triangle, unconditionally** -/
theorem exRoundtrip (extra : Bytes) :
    ∃ st st',
      decodeGeometry {} { rest := exBytes ++ extra } = (some ⟨planGeometry {} exMesh exPlan, none⟩, st) ∧ st.rest = extra ∧
      decodeGeometry { skip := allTypes } { rest := exBytes ++ extra } =
        (some ⟨planGeometry { skip := allTypes } exMesh exPlan, none⟩, st') ∧ st'.rest = extra ∧
      Spec.checkCore .edgebreaker (quantReq exG exO.base) exG (planGeometry {} exMesh exPlan)
        (planGeometry { skip := allTypes } exMesh exPlan) = true := by
  have h := eb_roundtrip_conditional_partial exCh exG none exO exEnc exEncode (fun m h => by cases h) exMesh exSides
    exHsides exHconn exHnf exPlan rfl exHatt exHids exHdec exHvals exHuid exHs exHrows exHproc exHfits exHcover extra
  rw [exEnc_bytes] at h
  exact h

/-- what both decodes return (the integer attribute is stored as decoded with or without its transform skipped):
    the values in traversal order (points 1, 2, 0) with the point → value map `[2, 0, 1]` -/
def exDecoded : Geometry :=
  { isMesh := true, numPoints := 3, faces := [(0, 1, 2)],
    atts := [
      { attType := 0, dataType := 5, numComponents := 3, normalized := false, uniqueId := 0, numValues := 3,
        map := some [2, 0, 1],
        values := [4, 0, 0, 0, 0, 0, 0, 0, 0, 0, 0, 0, 0, 0, 0, 0, 4, 0, 0, 0, 0, 0, 0, 0, 0, 0, 0, 0, 0, 0, 0, 0, 0, 0, 0, 0] } ] }

theorem exDecoded_eq : planGeometry {} exMesh exPlan = exDecoded ∧
    planGeometry { skip := allTypes } exMesh exPlan = exDecoded := by decide +kernel

/-- `exRoundtrip` with the decoded geometry explicit -/
theorem exRoundtrip' (extra : Bytes) :
    ∃ st st',
      decodeGeometry {} { rest := exBytes ++ extra } = (some ⟨exDecoded, none⟩, st) ∧ st.rest = extra ∧
      decodeGeometry { skip := allTypes } { rest := exBytes ++ extra } = (some ⟨exDecoded, none⟩, st') ∧ st'.rest = extra ∧
      Spec.checkCore .edgebreaker (quantReq exG exO.base) exG exDecoded exDecoded = true := by
  have h := exRoundtrip extra
  rw [exDecoded_eq.1, exDecoded_eq.2] at h
  exact h

end Draco.EbEnc.ConnExample
