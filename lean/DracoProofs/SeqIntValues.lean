import DracoProofs.SeqRuns
import DracoProofs.SeqDelta
import DracoProofs.Tagged
import Mathlib.Tactic.IntervalCases
/-
  `SequentialIntegerAttributeDecoder::DecodeValues` reads back what
  `SequentialIntegerAttributeEncoder::EncodeValues` wrote (all three prediction variants, symbol
  coded and raw value paths).
-/
namespace Draco
open SeqEnc DecM

/-- the part of `DecodeIntegerValues` that reads the symbols (entropy coded or raw bytes), followed
    by an arbitrary continuation `k` -/
theorem runs_symbolBody {β : Type} (k : List Nat → DecM β) (ch : Choices) (level : Nat)
    (builtin : Bool) (i nc n : Nat) (syms : List Nat) (body tail : Bytes) (c : β) (v v' : Nat)
    (hnc : 0 < nc) (hn : syms.length = n) (h32 : n < 2 ^ 32) (hs : ∀ s ∈ syms, s < 2 ^ 32)
    (henc : encodeSymbolBody ch level builtin i nc syms = some body)
    (hk : Runs (k syms) v tail c v') :
    Runs (do
      let compressed ← rdU8
      if compressed > 0 then do
        let raw ← lift (Leaf.decodeSymbols n nc)
        k raw
      else do
        let numBytes ← rdU8
        if numBytes == 4 then do
          let b ← bytes (4 * n)
          let raw ← pure (leGroups 4 b)
          k raw
        else do
          require (numBytes * n ≤ 4 * n)
          let rem ← remaining
          require (numBytes * n ≤ rem)
          if numBytes == 0 then do
            let raw ← pure (List.replicate n 0)
            k raw
          else do
            let b ← bytes (numBytes * n)
            let raw ← pure (leGroups numBytes b)
            k raw) v (body ++ tail) c v' := by
  unfold encodeSymbolBody at henc
  cases builtin with
  | true =>
    simp only [if_true] at henc
    split at henc
    · cases henc
    · rename_i bs hbs
      simp only [Option.some.injEq] at henc
      subst henc
      refine Runs.bind1 (Runs.rdU8 1 v) ?_
      rw [if_pos (by decide)]
      refine Runs.bind (Runs.lift (fun extra => ?_) v) hk
      subst hn
      exact symbols_roundtrip_aux ch.oracle (ch.attScheme i) level nc syms bs hnc h32 hbs extra
  | false =>
    simp only [Bool.false_eq_true, if_false, Option.some.injEq] at henc
    subst henc
    obtain ⟨hb1, hb4, hlt⟩ := rawNumBytes_spec syms hs
    unfold encodeRawValues
    generalize rawNumBytes syms = nb at *
    refine Runs.bind1 (Runs.rdU8 0 v) ?_
    rw [if_neg (by decide)]
    refine Runs.bind1 (Runs.rdU8 nb v) ?_
    have hflen : (syms.map (writeLE nb)).flatten.length = nb * n := by
      rw [flatten_writeLE_length, hn]
    by_cases h4 : nb = 4
    · subst h4
      rw [if_pos (by decide)]
      refine Runs.bind (Runs.bytes _ _ v hflen) ?_
      refine Runs.bind0 (Runs.pure _ v) ?_
      rw [leGroups_writeLE 4 (by decide) syms hlt]
      exact hk
    · have hne : (nb == 4) = false := by simpa using h4
      rw [hne]
      simp only [Bool.false_eq_true, if_false]
      refine Runs.bind0 (Runs.require (by simp; exact Nat.mul_le_mul_right _ hb4) v) ?_
      refine Runs.remaining_bind (fun rem hrem => ?_)
      refine Runs.bind0 (Runs.require (by
        simp only [List.append_eq, List.length_append, hflen] at hrem
        simp; omega) v) ?_
      have hne0 : (nb == 0) = false := by simp; omega
      rw [hne0]
      simp only [Bool.false_eq_true, if_false]
      refine Runs.bind (Runs.bytes _ _ v hflen) ?_
      refine Runs.bind0 (Runs.pure _ v) ?_
      rw [leGroups_writeLE nb (by omega) syms hlt]
      exact hk

theorem toSigned8_254 : toSigned 8 254 = -2 := by decide
theorem toSigned8_0 : toSigned 8 0 = 0 := by decide
theorem toSigned8_1 : toSigned 8 1 = 1 := by decide
theorem toSigned8_3 : toSigned 8 3 = 3 := by decide

/-- no prediction scheme (`PREDICTION_NONE`): method byte, symbols, zig-zag -/
theorem runs_intValues_none (ch : Choices) (level : Nat) (builtin : Bool) (i kind nc n : Nat)
    (portable : List Int) (body : Bytes) (v : Nat) (hv : bsVersion 2 0 ≤ v)
    (hnc : 0 < nc) (hn : 0 < n) (hlen : portable.length = n * nc) (h32 : n * nc < 2 ^ 32)
    (hr : ∀ x ∈ portable, -2 ^ 31 ≤ x ∧ x < 2 ^ 31)
    (henc : encodeSymbolBody ch level builtin i nc (portable.map (toSymbol 32)) = some body) :
    Runs (decodeIntegerValues kind n nc) v (254 :: body) portable v := by
  unfold decodeIntegerValues
  refine Runs.bind0 (Runs.version v) ?_
  rw [if_neg (by omega)]
  refine Runs.bind1 (Runs.rdI8 254 v) ?_
  rw [toSigned8_254]
  refine Runs.bind0 (Runs.require (by decide) v) ?_
  simp only []
  rw [if_neg (by decide), if_neg (by decide)]
  refine Runs.bind0 (Runs.require (by simpa using hnc) v) ?_
  refine Runs.bind0 (Runs.alloc _ _ v) ?_
  refine Runs.bind0 (Runs.require (by simpa using hn) v) ?_
  have hb := runs_symbolBody (fun raw => (pure (if (0 == 3) = true then List.map (toSigned 32) raw else List.map ofSymbol raw) : DecM (List Int)))
    ch level builtin i nc (n * nc) (portable.map (toSymbol 32)) body [] portable v v hnc (by simpa using hlen) h32
    (fun s hs => by
      simp only [List.mem_map] at hs
      obtain ⟨x, hx, rfl⟩ := hs
      exact (toSymbol32 x (hr x hx).1 (hr x hx).2).2) henc
    (by
      refine Runs.of_eq (Runs.pure _ v) rfl rfl ?_
      rw [if_neg (by decide)]
      exact map_ofSymbol_toSymbol portable hr)
  simpa using hb

/-! ### wrap transform on whole entries -/

theorem wrapDecV_encCorrV {lo hi : Int} {t : WrapT} (hinit : Wrap.init lo hi = some t)
    (hlo : -2 ^ 31 ≤ lo) (hhi : hi < 2 ^ 31) :
    ∀ (orig pred : List Int), orig.length = pred.length → (∀ x ∈ orig, lo ≤ x ∧ x ≤ hi) →
      List.zipWith (Leaf.wrapDec t) pred (Wrap.encCorrV t orig pred) = orig ∧
      ∀ x ∈ Wrap.encCorrV t orig pred, -2 ^ 31 ≤ x ∧ x < 2 ^ 31 := by
  obtain ⟨hb, hd0, hd⟩ := Wrap.init_bounds hinit
  intro orig
  induction orig with
  | nil => intro pred _ _; cases pred <;> simp [Wrap.encCorrV]
  | cons o os ih =>
    intro pred hl ho
    cases pred with
    | nil => simp at hl
    | cons p ps =>
      obtain ⟨i1, i2⟩ := ih ps (by simpa using hl) (fun x hx => ho x (by simp [hx]))
      have hoo := ho o (by simp)
      have r1 := Wrap.decOrig_encCorr hb hd0 hd hlo hhi o p hoo.1 hoo.2
      have r2 := Wrap.encCorr_bounds hb hd0 hd hlo hhi o p hoo.1 hoo.2
      unfold Wrap.encCorrV at i1 i2 ⊢
      simp only [List.zipWith_cons_cons, List.cons.injEq, List.mem_cons]
      refine ⟨⟨r1, i1⟩, ?_⟩
      rintro x (rfl | hx)
      · have h4 := hb.minCorr
        have h5 := hb.maxCorr
        have h3 := hb.maxDif
        omega
      · exact i2 x hx

/-- delta prediction with the wrap transform -/
theorem runs_intValues_wrap (ch : Choices) (level : Nat) (builtin : Bool) (i kind nc n : Nat)
    (hk3 : kind ≠ 3) (portable : List Int) (body : Bytes) (v : Nat) (hv : bsVersion 2 0 ≤ v)
    (mn mx : Int) (t : WrapT)
    (hnc : 0 < nc) (hn : 0 < n) (hlen : portable.length = n * nc) (h32 : n * nc < 2 ^ 32)
    (hr : ∀ x ∈ portable, -2 ^ 31 ≤ x ∧ x < 2 ^ 31)
    (hbd : Wrap.dataBounds portable = some (mn, mx)) (hinit : Wrap.init mn mx = some t)
    (henc : encodeSymbolBody ch level builtin i nc
      ((deltaEncode (Wrap.encCorrV t) (List.replicate nc 0)
        (entriesOf nc portable.length portable)).flatten.map (toSymbol 32)) = some body) :
    Runs (decodeIntegerValues kind n nc) v (0 :: 1 :: (body ++ Wrap.encodeTransformData t))
      portable v := by
  obtain ⟨hmm, hall, hmn, hmx⟩ := dataBounds_spec portable mn mx hbd
  obtain ⟨hb, hd0, hd⟩ := Wrap.init_bounds hinit
  have hlo : -2 ^ 31 ≤ mn := (hr mn hmn).1
  have hhi : mx < 2 ^ 31 := (hr mx hmx).2
  have hnle : n ≤ portable.length := by rw [hlen]; exact Nat.le_mul_of_pos_right _ hnc
  obtain ⟨e1, e2, e3⟩ := entriesOf_spec nc hnc n portable.length portable hlen hnle
  generalize hes : entriesOf nc portable.length portable = es at *
  let Dom : List Int → Prop := fun e => e.length = nc ∧ ∀ x ∈ e, mn ≤ x ∧ x ≤ mx
  let Pred : List Int → Prop := fun p => p.length = nc
  have hDom : ∀ e ∈ es, Dom e := fun e he => ⟨(e3 e he).1, fun x hx => hall x ((e3 e he).2 x hx)⟩
  have hlenE : ∀ e p, Dom e → Pred p → (Wrap.encCorrV t e p).length = nc := by
    intro e p he hp
    unfold Wrap.encCorrV
    rw [List.length_zipWith, he.1, hp, Nat.min_self]
  have hstep : ∀ e, Dom e → Pred e := fun e he => he.1
  have h0 : Pred (List.replicate nc 0) := by simp [Pred]
  have hcl := deltaEncode_length (Wrap.encCorrV t) nc Dom Pred hlenE hstep es _ hDom h0
  have hcr := deltaEncode_forall (Wrap.encCorrV t) Dom Pred (fun x => -2 ^ 31 ≤ x ∧ x < 2 ^ 31)
    (fun e p he hp x hx => (wrapDecV_encCorrV hinit hlo hhi e p (by rw [he.1, hp]) he.2).2 x hx)
    hstep es _ hDom h0
  have hinv := predictive_coding_invertible (Wrap.encCorrV t)
    (fun p c => List.zipWith (Leaf.wrapDec t) p c) nc hnc Dom Pred hlenE
    (fun e p he hp => (wrapDecV_encCorrV hinit hlo hhi e p (by rw [he.1, hp]) he.2).1)
    hstep h0 es hDom
  generalize hcorr : (deltaEncode (Wrap.encCorrV t) (List.replicate nc 0) es).flatten = corr at *
  unfold decodeIntegerValues
  refine Runs.bind0 (Runs.version v) ?_
  rw [if_neg (by omega)]
  refine Runs.bind1 (Runs.rdI8 0 v) ?_
  rw [toSigned8_0]
  refine Runs.bind0 (Runs.require (by decide) v) ?_
  simp only []
  rw [if_pos (by decide)]
  refine Runs.bind1 (Runs.rdI8 1 v) ?_
  rw [toSigned8_1]
  refine Runs.bind0 (Runs.require (by decide) v) ?_
  have hk3' : (kind == 3) = false := by simpa using hk3
  rw [hk3']
  simp only [Bool.false_eq_true, if_false]
  rw [if_pos (by decide), if_neg (by decide)]
  refine Runs.bind0 (Runs.require (by simpa using hnc) v) ?_
  refine Runs.bind0 (Runs.alloc _ _ v) ?_
  refine Runs.bind0 (Runs.require (by simpa using hn) v) ?_
  refine runs_symbolBody _ ch level builtin i nc (n * nc) (corr.map (toSymbol 32)) body _ portable v v hnc
    (by rw [List.length_map, hcl, e2, Nat.mul_comm]) h32
    (fun s hs => by
      simp only [List.mem_map] at hs
      obtain ⟨x, hx, rfl⟩ := hs
      exact (toSymbol32 x (hcr x hx).1 (hcr x hx).2).2) henc ?_
  unfold Wrap.encodeTransformData
  refine Runs.bind (Runs.rdI32 _ v (toUnsigned32_lt' _)) ?_
  refine Runs.bind' (Runs.rdI32 _ v (toUnsigned32_lt' _)) (List.append_nil _).symm ?_
  rw [hb.minV, hb.maxV, Wrap.toSigned_toUnsigned32 mn hlo (by omega),
    Wrap.toSigned_toUnsigned32 mx (by omega) hhi]
  refine Runs.bind0 (Runs.require (by simpa using hmm) v) ?_
  refine Runs.bind0 (Runs.ofOption (by unfold Leaf.wrapInit; exact hinit) v) ?_
  have hpos : n * nc > 0 := Nat.mul_pos hn hnc
  rw [if_pos hpos, if_neg (by decide)]
  refine Runs.of_eq (Runs.pure _ v) rfl rfl ?_
  rw [map_ofSymbol_toSymbol corr hcr, hinv, e1]

/-! ### canonicalized octahedron transform -/

/-- delta prediction with the canonicalized octahedron transform (normals) -/
theorem runs_intValues_octa (ch : Choices) (level : Nat) (builtin : Bool) (i n q : Nat)
    (portable : List Int) (body : Bytes) (v : Nat) (hv : bsVersion 2 0 ≤ v) (t : OctaT)
    (hn : 0 < n) (hlen : portable.length = n * 2) (h32 : n * 2 < 2 ^ 32)
    (hq : Octa.init q = some t) (hset : Octa.setMaxQuantizedValue t.maxQ = some t)
    (hent : ∀ e ∈ entriesOf 2 portable.length portable, OctaEntry t e)
    (henc : encodeSymbolBody ch level builtin i 2
      ((deltaEncode (octaEnc t) (List.replicate 2 0)
        (entriesOf 2 portable.length portable)).flatten.map (toUnsigned 32)) = some body) :
    Runs (decodeIntegerValues 3 n 2) v (0 :: 3 :: (body ++ Octa.encodeTransformData t))
      portable v := by
  obtain ⟨hwf, _⟩ := Octa.init_wf hq
  obtain ⟨w1, w2, w3, w4⟩ := hwf
  have hnle : n ≤ portable.length := by omega
  obtain ⟨e1, e2, e3⟩ := entriesOf_spec 2 (by decide) n portable.length portable hlen hnle
  generalize hes : entriesOf 2 portable.length portable = es at *
  let Dom : List Int → Prop := OctaEntry t
  let Pred : List Int → Prop := fun p => ∃ a b, p = [a, b] ∧ Octa.inGrid t (a, b)
  have hlenE : ∀ e p, Dom e → Pred p → (octaEnc t e p).length = 2 := by
    rintro e p ⟨a, b, rfl, _, _⟩ ⟨c, d, rfl, _⟩
    rfl
  have hstep : ∀ e, Dom e → Pred e := fun e ⟨a, b, h1, h2, _⟩ => ⟨a, b, h1, h2⟩
  have h0 : Pred (List.replicate 2 0) := ⟨0, 0, rfl, by unfold Octa.inGrid; simp only; omega⟩
  have hrt : ∀ e p, Dom e → Pred p →
      (fun (p cr : List Int) => match p, cr with
        | [p0, p1], [c0, c1] =>
          [(Leaf.octaDec t (p0, p1) (c0, c1)).fst, (Leaf.octaDec t (p0, p1) (c0, c1)).snd]
        | _, _ => cr) p (octaEnc t e p) = e ∧ ∀ x ∈ octaEnc t e p, -2 ^ 31 ≤ x ∧ x < 2 ^ 31 := by
    rintro e p ⟨a, b, rfl, hg, hc⟩ ⟨c, d, rfl, hp⟩
    obtain ⟨r1, r2⟩ := Octa.octa_roundtrip_wf t ⟨w1, w2, w3, w4⟩ (a, b) (c, d) hc hg hp
    simp only [octaEnc, Leaf.octaDec, r1, List.mem_cons, List.not_mem_nil, or_false, true_and]
    rintro x (rfl | rfl)
    · unfold Octa.inGrid at r2; omega
    · unfold Octa.inGrid at r2; omega
  have hcl := deltaEncode_length (octaEnc t) 2 Dom Pred hlenE hstep es _ hent h0
  have hcr := deltaEncode_forall (octaEnc t) Dom Pred (fun x => -2 ^ 31 ≤ x ∧ x < 2 ^ 31)
    (fun e p he hp x hx => (hrt e p he hp).2 x hx) hstep es _ hent h0
  have hinv := predictive_coding_invertible (octaEnc t)
    (fun p cr => match p, cr with
      | [p0, p1], [c0, c1] =>
        [(Leaf.octaDec t (p0, p1) (c0, c1)).fst, (Leaf.octaDec t (p0, p1) (c0, c1)).snd]
      | _, _ => cr) 2 (by decide) Dom Pred hlenE
    (fun e p he hp => (hrt e p he hp).1) hstep h0 es hent
  generalize hcorr : (deltaEncode (octaEnc t) (List.replicate 2 0) es).flatten = corr at *
  unfold decodeIntegerValues
  refine Runs.bind0 (Runs.version v) ?_
  rw [if_neg (by omega)]
  refine Runs.bind1 (Runs.rdI8 0 v) ?_
  rw [toSigned8_0]
  refine Runs.bind0 (Runs.require (by decide) v) ?_
  simp only []
  rw [if_pos (by decide)]
  refine Runs.bind1 (Runs.rdI8 3 v) ?_
  rw [toSigned8_3]
  refine Runs.bind0 (Runs.require (by decide) v) ?_
  rw [if_pos (by decide), if_pos (by decide), if_neg (by decide)]
  refine Runs.bind0 (Runs.require (by decide) v) ?_
  refine Runs.bind0 (Runs.alloc _ _ v) ?_
  refine Runs.bind0 (Runs.require (by simpa using hn) v) ?_
  refine runs_symbolBody _ ch level builtin i 2 (n * 2) (corr.map (toUnsigned 32)) body _ portable v v
    (by decide) (by rw [List.length_map, hcl, e2, Nat.mul_comm]) h32
    (fun s hs => by
      simp only [List.mem_map] at hs
      obtain ⟨x, _, rfl⟩ := hs
      exact toUnsigned32_lt' x) henc ?_
  unfold Octa.encodeTransformData
  refine Runs.bind (Runs.rdI32 _ v (toUnsigned32_lt' _)) ?_
  refine Runs.bind' (Runs.rdI32 _ v (toUnsigned32_lt' _)) (List.append_nil _).symm ?_
  rw [Wrap.toSigned_toUnsigned32 t.maxQ (by omega) (by omega)]
  refine Runs.bind0 (Runs.ofOption (by unfold Leaf.octaInit; exact hset) v) ?_
  have hpos : n * 2 > 0 := by omega
  rw [if_pos hpos, if_pos (by decide)]
  refine Runs.of_eq (Runs.pure _ v) rfl rfl ?_
  rw [map_toSigned_toUnsigned corr hcr]
  exact hinv.trans e1

/-- the prediction transform constructed from `max_value = (1 << q) - 1` is the tool box of `q` bits -/
theorem setMaxQuantizedValue_pow (q : Nat) (h2 : 2 ≤ q) (h30 : q ≤ 30) :
    Octa.setMaxQuantizedValue (2 ^ q - 1) = Octa.init q := by
  interval_cases q <;> decide +kernel

theorem setMaxQuantizedValue_of_init {q : Nat} {t : OctaT} (h : Octa.init q = some t) :
    Octa.setMaxQuantizedValue t.maxQ = some t := by
  have hq : 2 ≤ q ∧ q ≤ 30 := by
    unfold Octa.init at h
    split at h
    · cases h
    · omega
  have hm : t.maxQ = 2 ^ q - 1 := by
    unfold Octa.init at h
    split at h
    · cases h
    · simp only [Option.some.injEq] at h
      subst h
      rfl
  rw [hm, setMaxQuantizedValue_pow q hq.1 hq.2, h]

/-- **`SequentialIntegerAttributeDecoder::DecodeValues` inverts `EncodeValues`**: whatever the
    encoder wrote for the portable values (prediction or not, symbol coded or raw, any choices),
    the decoder returns the portable values and stops exactly behind the encoder's bytes. -/
theorem runs_intValues (ch : Choices) (level : Nat) (builtin : Bool) (i kind nc n : Nat) (pred : Bool)
    (octa : Option OctaT) (numValues : Nat) (portable : List Int) (bs : Bytes) (v : Nat)
    (hv : bsVersion 2 0 ≤ v) (hnc : 0 < nc) (hn : 0 < n) (hlen : portable.length = n * nc)
    (h32 : n * nc < 2 ^ 32) (hr : ∀ x ∈ portable, -2 ^ 31 ≤ x ∧ x < 2 ^ 31) (hnv : numValues ≠ 0)
    (hocta : kind = 3 → nc = 2 ∧ ∃ q t, Octa.init q = some t ∧ octa = some t ∧
      ∀ e ∈ entriesOf 2 portable.length portable, OctaEntry t e)
    (henc : encodeIntegerValues ch level builtin i kind nc pred octa numValues portable = some bs) :
    Runs (decodeIntegerValues kind n nc) v bs portable v := by
  unfold encodeIntegerValues at henc
  have hnv' : (numValues == 0) = false := by simpa using hnv
  simp only [hnv', Bool.false_eq_true, if_false] at henc
  generalize (pred && match Wrap.dataBounds portable with
    | none => true
    | some (mn, mx) => decide (mx - mn < 2 ^ 31 - 1)) = pred' at henc
  cases pred' with
  | false =>
    simp only [Bool.not_false, if_true] at henc
    split at henc
    · cases henc
    · rename_i body hbody
      simp only [Option.some.injEq] at henc
      subst henc
      exact runs_intValues_none ch level builtin i kind nc n portable body v hv hnc hn hlen h32 hr hbody
  | true =>
    simp only [Bool.not_true, Bool.false_eq_true, if_false] at henc
    by_cases hk : kind = 3
    · subst hk
      obtain ⟨rfl, q, t, hq, rfl, hent⟩ := hocta rfl
      simp only [BEq.rfl, if_true] at henc
      split at henc
      · cases henc
      · split at henc
        · cases henc
        · rename_i body hbody
          simp only [Option.some.injEq] at henc
          subst henc
          exact runs_intValues_octa ch level builtin i n q portable body v hv t hn hlen h32 hq
            (setMaxQuantizedValue_of_init hq) hent hbody
    · have hk' : (kind == 3) = false := by simpa using hk
      simp only [hk', Bool.false_eq_true, if_false] at henc
      split at henc
      · cases henc
      · rename_i mn mx hbd
        split at henc
        · cases henc
        · rename_i t hinit
          split at henc
          · cases henc
          · rename_i body hbody
            simp only [Option.some.injEq] at henc
            subst henc
            exact runs_intValues_wrap ch level builtin i kind nc n hk portable body v hv mn mx t hnc hn
              hlen h32 hr hbd hinit hbody

end Draco
