import DracoProofs.EbFinal5
import DracoProofs.EbCountsStream
/-
  The fields of `Final5.DecSeqOK mesh` from the decoder's stage facts (`DecStagesOf mesh co`): what
  `AssignPointsToCorners` guarantees about its output on a table with fans (`APHyp`) — the corner → point array has an
  entry for every corner, every entry is a point (`assignPoints_consistent`), and EVERY POINT IS THE POINT OF SOME CORNER
  (`assignPoints_cover`, new: the loop invariant `AP.G4`).
-/
namespace Draco.EbEnc
open Draco
open Draco.Eb hiding iabs nextC prevC
open AttViews

namespace AP

/-- every value `≤ wcnt J` is taken at some index `≤ J` -/
theorem wcnt_surj (atts : Array AttConn) (X : Nat → Nat) : ∀ J w, w ≤ wcnt atts X J → ∃ i, i ≤ J ∧ wcnt atts X i = w := by
  intro J
  induction J with
  | zero =>
    intro w hw
    exact ⟨0, Nat.le_refl _, by simp [wcnt] at hw ⊢; omega⟩
  | succ J ih =>
    intro w hw
    by_cases e : w ≤ wcnt atts X J
    · obtain ⟨i, hi, hi'⟩ := ih w e
      exact ⟨i, by omega, hi'⟩
    · refine ⟨J + 1, Nat.le_refl _, ?_⟩
      simp only [wcnt] at hw ⊢
      split at hw <;> split <;> omega

/-- the invariant of the loop over the vertices: `G2` and every point so far is the point of a corner of a fan of an
    earlier vertex -/
structure G4 (n : Nat) (co : ConnOut) (atts : Array AttConn) (k : Nat) (s : VSt) : Prop where
  g2 : G2 n co atts k s
  cov : ∀ p, p < s.2.1.size → ∃ v x, v < k ∧ v < co.vc.size ∧ co.vc[v]! ≠ inv ∧ InFan co.opp co.vc[v]! x ∧
    x < 3 * n ∧ s.2.2[x]! = p

theorem G4.step {n : Nat} {co : ConnOut} (hH : APHyp n co) (atts : Array AttConn) (j : Nat) (hj : j < co.vc.size)
    (s : VSt) (hG : G4 n co atts j s) (r : ForInStep VSt) (hr : apVertex (3 * n) co atts j s = .ok r) :
    ∃ s', r = .yield s' ∧ G4 n co atts (j + 1) s' := by
  obtain ⟨s', rfl, hg2'⟩ := G2.step hH atts j hj s hG.g2 r hr
  refine ⟨s', rfl, hg2', ?_⟩
  have ht := hH.tbl
  have hb := ht.toBaseTbl
  rcases apVertex_ok co hb atts (3 * n) j s hG.g2.size (fun h => (ht.vcOK j hj h).1) _ hr with
    ⟨hinv, e⟩ | ⟨hne, m, tags', p2c, c2p, c, prev, J, e, hJ, hI, hend, hmode⟩
  · cases e
    intro p hp
    obtain ⟨v, x, h1, h2, h3, h4, h5, h6⟩ := hG.cov p hp
    exact ⟨v, x, by omega, h2, h3, h4, h5, h6⟩
  · cases e
    have hc0N := (ht.vcOK j hj hne).1
    have hcl : m ≠ 0 → ∀ k, iter (sRP co.opp) k co.vc[j]! ≠ inv := by
      intro hm
      rcases hmode with ⟨_, e⟩ | ⟨hf, _⟩
      · exact absurd e hm
      · exact hH.closed j hj hne hf
    have hiff := vis_iff_inFan_start hb hc0N hI.valid hI.nef hend hcl
    have hother : ∀ v, v < co.vc.size → co.vc[v]! ≠ inv → v ≠ j → ∀ x, InFan co.opp co.vc[v]! x →
        c2p[x]! = s.2.2[x]! := by
      intro v hv hvne hvj x hx
      apply hI.frame
      intro i hi e
      have hx' : InFan co.opp co.vc[j]! x := (hiff x).mp ⟨i, hi, e⟩
      have b1 : co.c2v[x]! = v := (ht.inFan_bv v hv hvne x hx).2
      have b2 : co.c2v[x]! = j := (ht.inFan_bv j hj hne x hx').2
      exact hvj (b1.symm.trans b2)
    intro p hp
    have hp' : p < p2c.size := hp
    rw [hI.psz] at hp'
    by_cases hold : p < s.2.1.size
    · obtain ⟨v, x, h1, h2, h3, h4, h5, h6⟩ := hG.cov p hold
      refine ⟨v, x, by omega, h2, h3, h4, h5, ?_⟩
      show c2p[x]! = p
      rw [hother v h2 h3 (by omega) x h4, h6]
    · obtain ⟨i, hi, hw⟩ := wcnt_surj atts (fun i => iter (sRP co.opp) i (iter (sRP co.opp) m co.vc[j]!)) J
        (p - s.2.1.size) (by omega)
      refine ⟨j, iter (sRP co.opp) i (iter (sRP co.opp) m co.vc[j]!), by omega, hj, hne,
        (hiff _).mp ⟨i, hi, rfl⟩, hI.valid i hi, ?_⟩
      show c2p[_]! = p
      rw [hI.vals i hi, hw]
      omega

end AP

open AP in
/-- **every point of `AssignPointsToCorners` is the point of some corner** (on a table with fans) -/
theorem assignPoints_cover (co : ConnOut) (n : Nat) (atts : Array AttConn) (c2p : Array Nat) (np tags : Nat)
    (hH : APHyp n co) (hne : atts.isEmpty = false) (hrun : assignPoints co n atts = .ok (c2p, np, tags)) :
    ∀ p, p < np → ∃ k, k < 3 * n ∧ c2p[k]! = p := by
  rw [assignPoints_eq, if_neg (by simp [hne]), bind_ok_iff] at hrun
  obtain ⟨s, hl, hrun⟩ := hrun
  simp only [pure, Except.pure] at hrun
  cases hrun
  rw [Seams.range_forIn] at hl
  have key := Seams.loop_inv_ok (apVertex (3 * n) co atts) (fun k s => G4 n co atts k s) co.vc.size 0
    (by
      intro j s r _ hj hG hr
      exact G4.step hH atts j (by omega) s hG r hr)
    _ s ⟨⟨by simp, fun v hv => by omega, fun v v' hv => by omega⟩, fun p hp => by simp at hp⟩ hl
  intro p hp
  obtain ⟨v, x, -, -, -, -, hx, hxp⟩ := key.cov p hp
  exact ⟨x, hx, hxp⟩

/-- there are at most as many points as corners -/
theorem points_le_corners (c2p : Array Nat) (N np : Nat)
    (hcov : ∀ p, p < np → ∃ k, k < N ∧ c2p[k]! = p) : np ≤ N := by
  by_contra hlt
  have hex : ∀ p, ∃ k, p < np → k < N ∧ c2p[k]! = p := by
    intro p
    by_cases hp : p < np
    · obtain ⟨k, hk⟩ := hcov p hp
      exact ⟨k, fun _ => hk⟩
    · exact ⟨0, fun h => absurd h hp⟩
  choose f hf using hex
  obtain ⟨i, j, hij, hj, he⟩ := Draco.pigeonhole N f (fun i hi => (hf i (by omega)).1)
  have h1 := (hf i (by omega)).2
  have h2 := (hf j (by omega)).2
  rw [he] at h1
  omega

/-- **`DecSeqOK` from the decoder's stages**, with attribute connectivity data (`mesh.atts` non-empty) on a table with
    fans: `hfa`, `hfp`, `hcov` are theorems about `AssignPointsToCorners`, `hnp` follows (at most one point per corner);
    the bound on the number of vertices remains a hypothesis -/
theorem decSeqOK_of_stages {mesh : Mesh} {co : ConnOut} (hst : Eb.DecStagesOf mesh co)
    (hH : APHyp mesh.numFaces co) (hne : mesh.atts.isEmpty = false)
    (hNV : mesh.vc.size ≤ inv) : Final5.DecSeqOK mesh := by
  obtain ⟨ci, tr, seams, tags, -, -, -, -, -, -, hrun⟩ := hst
  obtain ⟨h1, h2, -⟩ := assignPoints_consistent co mesh.numFaces mesh.atts mesh.faces mesh.numPoints tags hH hne hrun
  have hcov := assignPoints_cover co mesh.numFaces mesh.atts mesh.faces mesh.numPoints tags hH hne hrun
  have hle := points_le_corners mesh.faces (3 * mesh.numFaces) mesh.numPoints hcov
  have := hH.tbl.le
  exact ⟨hNV, by omega, by omega, h2, hcov⟩

/-- the case without attribute connectivity data: the points are the vertices, `mesh.faces` is the corner → vertex map;
    what is needed are the corresponding facts about the connectivity (after the compaction) -/
theorem decSeqOK_of_stages_empty {mesh : Mesh} {co : ConnOut} (hst : Eb.DecStagesOf mesh co)
    (he : mesh.atts.isEmpty = true) (hNV : mesh.vc.size ≤ inv) (hnc : co.numConnVerts ≤ inv)
    (hsz : 3 * mesh.numFaces ≤ co.c2v.size) (hlt : ∀ k, k < 3 * mesh.numFaces → co.c2v[k]! < co.numConnVerts)
    (hcv : ∀ p, p < co.numConnVerts → ∃ k, k < 3 * mesh.numFaces ∧ co.c2v[k]! = p) : Final5.DecSeqOK mesh := by
  obtain ⟨ci, tr, seams, tags, -, -, -, -, -, -, hrun⟩ := hst
  rw [assignPoints_empty co mesh.numFaces mesh.atts he] at hrun
  simp only [Except.ok.injEq, Prod.mk.injEq] at hrun
  obtain ⟨e1, e2, -⟩ := hrun
  exact ⟨hNV, by rw [← e2]; exact hnc, by rw [← e1]; exact hsz, by rw [← e1, ← e2]; exact hlt,
    by rw [← e1, ← e2]; exact hcv⟩

end Draco.EbEnc
