import DracoProofs.EbSplitFreeClose
import DracoProofs.EbDecSimRun
/-
  THE CONNECTIVITY LINK FOR SPLIT-FREE TRAVERSALS, assembled: encoder trace (`EncTrace.trace_of_run`), pure decoder simulation
  (`DecSim.ctIso_St`), monadic glue (`DecSim.decLoopSt_of_trace`), stream-level glue (`ConnGlue.link_of_loop'`), closed by
  `ConnSplitFree.eb_connectivity_roundtrip_splitfree` and `SplitFreeClose.splitfree_hyps`.
-/
namespace Draco.EbEnc.SplitFreeLink
open Draco Draco.EbEnc Draco.SeqEnc DecM
open Draco.Eb hiding iabs nextC prevC
open Draco.EbEnc.ConnSplitFree Draco.EbEnc.SplitFreeClose Draco.EbEnc.DecSim

/-- **the connectivity link for split-free traversals** (symbols C / R / L / E, boundary start faces, standard traversal, no
    attribute data, every encoder choice): no hypothesis about running the decoder is left.  `hE`: one start-face flag per
    symbol E (every `EncodeConnectivityFromCorner` call ends at its E; not yet derived from the encoder's loops). -/
theorem eb_connectivity_roundtrip_splitfree_closed (ch : ConnChoices) (pf : Faces) (conn : ConnEnc)
    (h : encodeConnectivity ch false pf #[] = .ok conn)
    (hnoS : ∀ x, x ∈ conn.symbols.toList → x ≠ topoS)
    (hstart : ∀ b, b ∈ conn.startFaces.toList → b = false)
    (hE : conn.startFaces.size = conn.symbols.toList.count 7)
    (hnf : conn.processed.size ≤ 2 ^ 21)
    (hnv : conn.ct.numVertices - conn.ct.numIsolated ≤ 3 * 2 ^ 21)
    (hedge : 3 * conn.processed.size / 2 ≤
      (conn.ct.numVertices - conn.ct.numIsolated) * (conn.ct.numVertices - conn.ct.numIsolated - 1) / 2) :
    ∃ mesh, Runs decodeConnectivity 514 ([0] ++ conn.bytes) mesh 514 ∧
      CTIso conn.ct conn.processed mesh.numFaces mesh.c2v mesh.opp ∧ mesh.atts.size = conn.atts.size := by
  obtain ⟨hT, hTr, hv, hsfb⟩ := splitfree_hyps ch pf conn h hnoS hstart hE
  exact eb_connectivity_roundtrip_splitfree ch pf conn h hnoS hstart hnf hnv hedge
    (decLoopSt_of_trace conn.symbols hT hTr _ _ hv hsfb)

end Draco.EbEnc.SplitFreeLink
