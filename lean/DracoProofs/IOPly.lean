import DracoProofs.IOPlyDecode
import DracoProofs.IOObj
/-
  DracoProofs.IOPly — `PlyDecoder ∘ PlyEncoder` on the byte level.
-/
namespace Draco.IO.Ply
open Draco Draco.IO

/-- the geometry `PlyDecoder` holds before deduplication when reading the file written for `g` -/
def preDedup (g : Geometry) (s : Sel) : Geometry :=
  { isMesh := g.isMesh, numPoints := g.numPoints, faces := if g.isMesh then g.faces else [],
    atts := decodedAtts g s }

theorem encodeE_eq (g : Geometry) (s : Sel) (hsel : select g = some s) (hvalid : g.valid = true) :
    encodeE g = .ok (streamCat (headerPieces g s) ++
      ((List.range g.numPoints).map (vertexBytes s)).flatten ++
      (if g.isMesh then (g.faces.map (faceBytes s)).flatten else [])) := by
  obtain ⟨m1, m2, m3, m4⟩ := select_facts g s hsel
  have v1 := Obj.valid_att g hvalid _ m1
  have v2 : optValid s.nrm g.numPoints = true := by
    cases hn : s.nrm with
    | none => rfl
    | some n => exact Obj.valid_att g hvalid _ (m2 n hn).1
  have v3 : optValid s.col g.numPoints = true := by
    cases hn : s.col with
    | none => rfl
    | some n => exact Obj.valid_att g hvalid _ (m3 n hn)
  have v4 : optValid s.tex g.numPoints = true := by
    cases hn : s.tex with
    | none => rfl
    | some n => exact Obj.valid_att g hvalid _ (m4 n hn).1
  unfold encodeE
  simp only [hsel, v1, v2, v3, v4, Obj.valid_faces g hvalid, Bool.and_self, Bool.or_true, Bool.not_true,
    Bool.and_false, Bool.false_eq_true, if_false]

theorem tex_lengths (g : Geometry) (s : Sel) (hsel : select g = some s) (hvalid : g.valid = true) :
    ∀ f ∈ g.faces, ∀ t, s.tex = some t →
      (t.ioPointValue f.1 ++ t.ioPointValue f.2.1 ++ t.ioPointValue f.2.2).length = dataTypeLength t.dataType * 6 := by
  obtain ⟨-, -, -, m4⟩ := select_facts g s hsel
  intro f hf t ht
  obtain ⟨mt, hc⟩ := m4 t ht
  have hok := attsOk_of_valid g hvalid t mt
  obtain ⟨h1, h2, h3⟩ := facesInRange_of_valid g hvalid f hf
  have len : ∀ p, p < g.numPoints → (t.ioPointValue p).length = dataTypeLength t.dataType * 2 := by
    intro p hp
    rw [show t.ioPointValue p = t.ioValueAt (t.ioMappedIndex p) from rfl, valueAt_length t hok.stored _ (hok.inRange p hp)]
    simp [Attribute.stride, hc]
  simp only [List.length_append, len _ h1, len _ h2, len _ h3]
  omega

/-- **what `PlyDecoder` computes on the bytes `PlyEncoder` wrote** (any trailing bytes) -/
theorem decodeE_encoded (g : Geometry) (s : Sel) (hsel : select g = some s) (hS : Supported g s)
    (hvalid : g.valid = true) (hnp : g.numPoints < 2 ^ 31) (hnf : g.faces.length < 2 ^ 31) (rest : Bytes) :
    ∃ bs, encodeE g = .ok bs ∧ decodeE g.isMesh (bs ++ rest) =
      .ok (if g.isMesh && decide (g.faces.length ≠ 0) then (preDedup g s).ioDedupValues.ioDedupPointIds
           else preDedup g s) := by
  have hshape := hS.shapes hsel hvalid
  refine ⟨_, encodeE_eq g s hsel hvalid, ?_⟩
  -- header
  have hbody : ∀ fb : Bytes, streamCat (headerPieces g s) ++ ((List.range g.numPoints).map (vertexBytes s)).flatten ++
      fb ++ rest = streamCat (headerPieces g s) ++ (((List.range g.numPoints).map (vertexBytes s)).flatten ++
      (fb ++ rest)) := by intro fb; simp [List.append_assoc]
  rw [hbody]
  unfold decodeE
  rw [parseHeader_encoded g s hS.nameable (by omega) (by omega)]
  simp only
  -- vertex element
  have hvE : (Element.mk (ascii "vertex") (g.numPoints : Int) (vertexProps s)).numEntries.toNat = g.numPoints := by
    rw [numEntries_of_nat _ _ _ hnp]; simp
  have hfE : (Element.mk (ascii "face") (g.faces.length : Int) (faceProps s)).numEntries.toNat = g.faces.length := by
    rw [numEntries_of_nat _ _ _ hnf]; simp
  have hdv : decodeVertexElem ⟨ascii "vertex", (g.numPoints : Int), vertexProps s⟩
      ((List.range g.numPoints).map (vertexItems s)) = .ok (g.numPoints, decodedAtts g s) := by
    rw [vertexProps_eq g s hS, decodeVertexElem_shape g.numPoints hnp _ _ hS.posType _ _ (colCount_le g s hS),
      expAtts_eq g s hS hshape]
  by_cases hm : g.isMesh = true
  · -- mesh: vertex and face elements
    have hels : elements g s = [⟨ascii "vertex", (g.numPoints : Int), vertexProps s⟩,
        ⟨ascii "face", (g.faces.length : Int), faceProps s⟩] := by simp [elements, hm]
    have hread : readElements (elements g s) (((List.range g.numPoints).map (vertexBytes s)).flatten ++
        ((g.faces.map (faceBytes s)).flatten ++ rest)) =
        .ok [(⟨ascii "vertex", (g.numPoints : Int), vertexProps s⟩, (List.range g.numPoints).map (vertexItems s)),
             (⟨ascii "face", (g.faces.length : Int), faceProps s⟩, g.faces.map (faceItems s))] := by
      rw [hels]
      simp only [readElements, hvE, hfE]
      rw [readEntries_vertices g s hshape]
      simp only
      rw [readEntries_faces s g.faces (tex_lengths g s hsel hvalid)]
    simp only [hm, if_true]
    rw [hread]
    simp only
    have hfr := facesInRange_of_valid g hvalid
    rw [decodeFaces_encoded s _ _ _ g.faces (by
      intro f hf; obtain ⟨h1, h2, h3⟩ := hfr f hf
      have : (2 : Nat) ^ 31 < 2 ^ 32 := by decide
      omega)]
    simp only
    have hfind : findLast (fun (ed : Element × ElemData) => ed.1.name == ascii "vertex")
        [(⟨ascii "vertex", (g.numPoints : Int), vertexProps s⟩, (List.range g.numPoints).map (vertexItems s)),
         (⟨ascii "face", (g.faces.length : Int), faceProps s⟩, g.faces.map (faceItems s))] =
        some (⟨ascii "vertex", (g.numPoints : Int), vertexProps s⟩, (List.range g.numPoints).map (vertexItems s)) := by
      apply findLast_head
      · show (ascii "vertex" == ascii "vertex") = true; decide
      · intro y hy
        simp only [List.mem_singleton] at hy
        subst hy
        show (ascii "face" == ascii "vertex") = false; decide
    unfold decodeVertices
    rw [hfind]
    simp only
    rw [hdv]
    simp only [Bool.true_and]
    by_cases hf0 : g.faces.length = 0
    · simp [hf0, preDedup, hm]
    · have hall : g.faces.all (fun (a, b, c) => a < g.numPoints && b < g.numPoints && c < g.numPoints) = true :=
        Obj.valid_faces g hvalid
      simp [hf0, preDedup, hm, hall]
  · -- point cloud: only the vertex element
    have hm' : g.isMesh = false := by simpa using hm
    have hels : elements g s = [⟨ascii "vertex", (g.numPoints : Int), vertexProps s⟩] := by simp [elements, hm']
    have hread : readElements (elements g s) (((List.range g.numPoints).map (vertexBytes s)).flatten ++
        (([] : Bytes) ++ rest)) =
        .ok [(⟨ascii "vertex", (g.numPoints : Int), vertexProps s⟩, (List.range g.numPoints).map (vertexItems s))] := by
      rw [hels]
      simp only [readElements, hvE]
      rw [readEntries_vertices g s hshape]
    simp only [hm', Bool.false_eq_true, if_false]
    rw [hread]
    simp only
    have hfind : findLast (fun (ed : Element × ElemData) => ed.1.name == ascii "vertex")
        [(⟨ascii "vertex", (g.numPoints : Int), vertexProps s⟩, (List.range g.numPoints).map (vertexItems s))] =
        some (⟨ascii "vertex", (g.numPoints : Int), vertexProps s⟩, (List.range g.numPoints).map (vertexItems s)) := by
      apply findLast_head
      · show (ascii "vertex" == ascii "vertex") = true; decide
      · intro y hy; simp at hy
    unfold decodeVertices
    rw [hfind]
    simp only
    rw [hdv]
    simp [preDedup, hm']

/-! ### what is preserved -/

/-- attribute `a` of `g` is found again at position `k` of `g'` with kind `(ty, dt, nc)`, the same
    per-corner values on every face, and — when no deduplication ran (point cloud, or mesh without
    faces) — the same value at every point -/
def Preserved (g g' : Geometry) (k : Nat) (a : Attribute) (ty dt nc : Nat) : Prop :=
  ∃ a', g'.atts[k]? = some a' ∧ a'.attType = ty ∧ a'.dataType = dt ∧ a'.numComponents = nc ∧
    cornerValues a' g'.faces = cornerValues a (if g.isMesh then g.faces else []) ∧
    ((g.isMesh = false ∨ g.faces = []) →
      g'.numPoints = g.numPoints ∧ pointValues a' g'.numPoints = pointValues a g.numPoints)

theorem preDedup_att (g : Geometry) (s : Sel)
    (hvalid : g.valid = true) (k : Nat) (a : Attribute) (ty dt nc : Nat) (nz : Bool) (uid : Nat)
    (hk : (preDedup g s).atts[k]? = some (flatAtt ty dt nc nz uid g.numPoints a))
    (hl : ∀ q, q < g.numPoints → (a.ioPointValue q).length = dataTypeLength dt * nc)
    (hok : ∀ x ∈ (preDedup g s).atts, AttOk x g.numPoints) :
    Preserved g (if g.isMesh && decide (g.faces.length ≠ 0) then (preDedup g s).ioDedupValues.ioDedupPointIds
      else preDedup g s) k a ty dt nc := by
  have hfr := facesInRange_of_valid g hvalid
  have hpv := flatAtt_pointValue ty dt nc nz uid g.numPoints a hl
  have hcv : ∀ faces : List (Nat × Nat × Nat), (∀ f ∈ faces, f.1 < g.numPoints ∧ f.2.1 < g.numPoints ∧ f.2.2 < g.numPoints) →
      cornerValues (flatAtt ty dt nc nz uid g.numPoints a) faces = cornerValues a faces := by
    intro faces hf
    unfold cornerValues
    apply List.map_congr_left
    intro f hfm
    obtain ⟨h1, h2, h3⟩ := hf f hfm
    obtain ⟨x, y, z⟩ := f
    simp only
    rw [hpv x h1, hpv y h2, hpv z h3]
  by_cases hd : (g.isMesh && decide (g.faces.length ≠ 0)) = true
  · -- deduplicated mesh
    simp only [hd, if_true]
    simp only [Bool.and_eq_true, decide_eq_true_eq] at hd
    obtain ⟨hm, hf0⟩ := hd
    have hfr' : facesInRange (preDedup g s) := by
      intro f hf
      simp only [preDedup, hm, if_true] at hf ⊢
      exact hfr f hf
    obtain ⟨a', h1, h2, h3, h4, h5⟩ := dedup_cornerValues (preDedup g s) hfr' hok k _ hk
    refine ⟨a', h1, by rw [h3]; rfl, by rw [h4]; rfl, by rw [h5]; rfl, ?_, ?_⟩
    · rw [h2]
      simp only [preDedup, hm, if_true]
      exact hcv g.faces hfr
    · intro hc
      rcases hc with hc | hc
      · rw [hm] at hc; cases hc
      · rw [hc] at hf0; simp at hf0
  · simp only [hd, Bool.false_eq_true, if_false]
    refine ⟨_, hk, rfl, rfl, rfl, ?_, ?_⟩
    · by_cases hm : g.isMesh = true
      · simp only [preDedup, hm, if_true]
        exact hcv g.faces hfr
      · simp [preDedup, hm, cornerValues]
    · intro _
      refine ⟨rfl, ?_⟩
      unfold pointValues
      apply List.map_congr_left
      intro p hp
      exact hpv p (by simpa [preDedup] using hp)

/-- **PLY round trip, byte level.** -/
theorem roundtrip (g : Geometry) (s : Sel) (hsel : select g = some s) (hS : Supported g s)
    (hvalid : g.valid = true) (hnp : g.numPoints < 2 ^ 31) (hnf : g.faces.length < 2 ^ 31) (rest : Bytes) :
    ∃ bs g', encodeE g = .ok bs ∧ decodeE g.isMesh (bs ++ rest) = .ok g' ∧
      g'.isMesh = g.isMesh ∧
      g'.faces.length = (if g.isMesh then g.faces.length else 0) ∧
      g'.atts.length = 1 + s.nrm.toList.length + s.col.toList.length ∧
      Preserved g g' 0 s.pos tPOSITION s.pos.dataType 3 ∧
      (∀ n, s.nrm = some n → Preserved g g' 1 n tNORMAL dtFLOAT32 3) ∧
      (∀ c, s.col = some c → Preserved g g' (1 + s.nrm.toList.length) c tCOLOR dtUINT8 c.numComponents) := by
  obtain ⟨bs, henc, hdec⟩ := decodeE_encoded g s hsel hS hvalid hnp hnf rest
  have hshape := hS.shapes hsel hvalid
  have hnl : ∀ n, s.nrm = some n → ∀ q, q < g.numPoints → (n.ioPointValue q).length = dataTypeLength n.dataType * 3 :=
    fun n hn q hq => hshape.nrmLen n hn q hq
  have hcl : ∀ c, s.col = some c → ∀ q, q < g.numPoints → (c.ioPointValue q).length = dataTypeLength dtUINT8 * c.numComponents := by
    intro c hc q hq
    rw [hshape.colLen c hc q hq, take_colour_length _ (hS.colType c hc).2.2, (hS.colType c hc).1]
  have hok : ∀ x ∈ (preDedup g s).atts, AttOk x g.numPoints := by
    intro x hx
    simp only [preDedup, decodedAtts, List.mem_cons, List.mem_append] at hx
    rcases hx with rfl | hx | hx
    · exact flatAtt_ok _ _ _ _ _ _ _ (fun q hq => hshape.posLen q hq)
    · cases hn : s.nrm with
      | none => rw [hn] at hx; simp [optFlat] at hx
      | some n =>
        rw [hn] at hx; simp only [optFlat, List.mem_singleton] at hx; subst hx
        exact flatAtt_ok _ _ _ _ _ _ _ (hnl n hn)
    · cases hc : s.col with
      | none => rw [hc] at hx; simp at hx
      | some c =>
        rw [hc] at hx; simp only [List.mem_singleton] at hx; subst hx
        exact flatAtt_ok _ _ _ _ _ _ _ (hcl c hc)
  refine ⟨bs, _, henc, hdec, ?_, ?_, ?_, ?_, ?_, ?_⟩
  · split
    · rw [dedup_isMesh]; rfl
    · rfl
  · split
    · rename_i hd
      simp only [Bool.and_eq_true] at hd
      rw [dedup_faces_length]; simp [preDedup, hd.1]
    · by_cases hm : g.isMesh = true
      · simp [preDedup, hm]
      · simp [preDedup, hm]
  · have : (preDedup g s).atts.length = 1 + s.nrm.toList.length + s.col.toList.length := by
      simp only [preDedup, decodedAtts, List.length_cons, List.length_append]
      cases s.nrm <;> cases s.col <;> simp [optFlat]
    split
    · rw [dedup_atts_length]; exact this
    · exact this
  · exact preDedup_att g s hvalid 0 s.pos tPOSITION s.pos.dataType 3 false 0 (by simp [preDedup, decodedAtts])
      (fun q hq => hshape.posLen q hq) hok
  · intro n hn
    have := preDedup_att g s hvalid 1 n tNORMAL n.dataType 3 false 1
      (by simp [preDedup, decodedAtts, hn, optFlat]) (hnl n hn) hok
    rw [hS.nrmType n hn] at this
    exact this
  · intro c hc
    exact preDedup_att g s hvalid (1 + s.nrm.toList.length) c tCOLOR dtUINT8 c.numComponents true
      (1 + s.nrm.toList.length)
      (by cases hn : s.nrm <;> simp [preDedup, decodedAtts, hc, hn, optFlat]) (hcl c hc) hok

end Draco.IO.Ply
