import DracoProofs.EbInitSeamFlags
import DracoProofs.EbConnGlueAtt2
import DracoProofs.EbCountsStream
/-
  `link_of_loop_att'`: `ConnGlueAtt.link_of_loop_att` with every hypothesis about the encoder's corner table and attribute
  corner tables discharged for a real run: what remains are the stage results, the split-free / size conditions, `hloop`,
  `CTIso`, and the success of the pure post-processing `hpost`.
-/
namespace Draco.EbEnc.ConnGlueAtt
open Draco Draco.SeqEnc DecM
open Draco.Eb hiding iabs nextC prevC
open Draco.EbEnc.ConnTri Draco.EbEnc.ConnGlue
open Draco.EbEnc.EncCounts Draco.EbEnc.Seams Draco.EbEnc.CountsIso

/-- **`link_of_loop_att'`**: `link_of_loop_att` with the hypotheses about the encoder's table and attribute tables
    (`hC`, `hinvol`, `hnso`, `hsym`, `hbnd`) discharged for a real run (`ctok_ofTable`, `baseTbl_ofTable`,
    `conn_atts_init`, `InitSeamFlags.initFromAttribute_flags`, `encodeConnectivity_faces`) -/
theorem link_of_loop_att' (ch : ConnChoices) (pf : Faces) (acv : Array (Nat × Array Nat)) (tbl : CornerTable)
    (hc : CornerTable.create pf = some tbl)
    (hnd : ((CT.ofTable tbl).numFaces == (CT.ofTable tbl).numDegenerated) = false)
    (holeId : Array Nat) (nh : Nat) (hh : findHoles (CT.ofTable tbl) = .ok (holeId, nh))
    (atts : Array AttData) (hatts : attsStage (CT.ofTable tbl) acv = .ok atts) (s : EncCounts.OSt)
    (hmain : forIn [:(CT.ofTable tbl).numCorners] (initO (CT.ofTable tbl) nh)
      (outerBody (CT.ofTable tbl) holeId false (CT.ofTable tbl).numFaces) = .ok s)
    (se : Array RAnsBitEnc) (sb : Array (Array Bool))
    (hseam : encodeSeamBits (CT.ofTable tbl) (s.2.2.2.2.2.2.2.1.reverse ++ s.2.2.2.2.2.2.2.2.1)
      (atts.map fun a => a.conn.edgeSeam) = .ok (se, sb))
    (hns : s.2.2.2.2.2.2.2.2.2.2.2.2 = 0) (hsp : s.2.2.2.2.2.2.2.2.2.1 = #[]) (hna : atts.size < 256)
    (nv nf : Nat) (env : nv = (CT.ofTable tbl).numVertices - (CT.ofTable tbl).numIsolated)
    (enf : nf = (CT.ofTable tbl).numFaces - (CT.ofTable tbl).numDegenerated)
    (hs : ∀ x ∈ s.2.2.2.2.1.toList, IsTopo x) (hnf : nf ≤ 2 ^ 21) (hnv : nv ≤ 3 * 2 ^ 21) (hnv3 : nv ≤ nf * 3)
    (hedge : 3 * nf / 2 ≤ nv * (nv - 1) / 2) (hsz1 : s.2.2.2.2.1.size ≤ nf)
    (hsz2 : nf ≤ s.2.2.2.2.1.size + s.2.2.2.2.1.size / 3) (hsfb : s.2.2.2.2.2.2.1.size + 3 < 2 ^ 32)
    (hbl : ∀ b ∈ sb.toList, b.size + 3 < 2 ^ 32)
    (co : ConnOut)
    (hloop : ∀ tr, Delivers tr s.2.2.2.2.1.toList.reverse s.2.2.2.2.2.2.1.toList →
      connLoop ⟨nf, nv, s.2.2.2.2.1.size, [], atts.size == 0⟩ tr = .ok co)
    (hiso : CTIso (CT.ofTable tbl) (s.2.2.2.2.2.2.2.1.reverse ++ s.2.2.2.2.2.2.2.2.1) nf co.c2v co.opp)
    (hpost : ∃ attsD faces np t2,
      (seamsOf co.opp nf atts.size (bitE (atts.map fun a => a.conn.edgeSeam)
        (s.2.2.2.2.2.2.2.1.reverse ++ s.2.2.2.2.2.2.2.2.1))).mapM (fun sc => buildAttConn co.c2v co.opp co.vc sc) = .ok attsD ∧
      assignPoints co nf attsD = .ok (faces, np, t2)) :
    ∀ conn, encodeConnectivity ch false pf acv = .ok conn →
      ∃ mesh, Runs decodeConnectivity 514 ([0] ++ conn.bytes) mesh 514 ∧
        CTIso conn.ct conn.processed mesh.numFaces mesh.c2v mesh.opp ∧ mesh.atts.size = conn.atts.size ∧
        SeamLink mesh.numFaces mesh.atts (conn.atts.map (·.conn)) (phi conn.processed) := by
  have hk := ctok_ofTable hc
  have hb := baseTbl_ofTable hc
  have hC : (CT.ofTable tbl).numCorners ≤ inv := hk.fits
  have hinv0 : ∀ c, c < (CT.ofTable tbl).numCorners → (CT.ofTable tbl).opp[c]! ≠ inv →
      (CT.ofTable tbl).opp[(CT.ofTable tbl).opp[c]!]! = c := fun c hc hne => (hb.invol c hc hne).2
  have hnso : NoSelfOpp co.opp nf := CTIso.noSelfOpp hiso hC (fun c hcc hne => by
    have := hk.oppface c hcc (by rw [ValuesRefine.vget_eq]; exact hne)
    rw [ValuesRefine.vget_eq] at this
    exact this)
  obtain ⟨conn, e1, _, e3, e4, e5, _, _⟩ := encode_bytes_splitfree_att ch pf acv tbl hc hnd holeId nh hh atts hatts s hmain
    se sb hseam hns hsp hna (by omega) (by omega) (by omega)
  have hinit := conn_atts_init ch false pf acv conn e1
  rw [e3, e5] at hinit
  have hfaces := (encodeConnectivity_faces ch false pf acv conn e1).2.1
  rw [e3, e4] at hfaces
  have hflags : ∀ i, i < atts.size →
      (atts[i]!).conn.edgeSeam.size = (CT.ofTable tbl).numCorners ∧
      (∀ c, c < (CT.ofTable tbl).numCorners → (CT.ofTable tbl).opp[c]! ≠ inv →
        (atts[i]!).conn.edgeSeam[(CT.ofTable tbl).opp[c]!]! = (atts[i]!).conn.edgeSeam[c]!) ∧
      (∀ c, c < (CT.ofTable tbl).numCorners → isDegenA (CT.ofTable tbl).c2v (c / 3) = false →
        (CT.ofTable tbl).opp[c]! = inv → (atts[i]!).conn.edgeSeam[c]! = true) := fun i hi => by
    obtain ⟨cv, hcv⟩ := hinit i hi
    exact InitSeamFlags.initFromAttribute_flags hk hinv0 hcv
  have hes : ∀ i, i < atts.size → (atts.map fun a => a.conn.edgeSeam)[i]! = (atts[i]!).conn.edgeSeam := by
    intro i hi; simp [hi]
  refine link_of_loop_att ch pf acv tbl hc hnd holeId nh hh atts hatts s hmain se sb hseam hns hsp hna nv nf env enf hs hnf hnv
    hnv3 hedge hsz1 hsz2 hsfb hbl co hloop hiso hC hinv0 hnso ?_ ?_ hpost
  · intro i hi c hcc hne
    rw [hes i hi]
    exact (hflags i hi).2.1 c hcc hne
  · intro i hi d hd hoi
    rw [hes i hi]
    refine (hflags i hi).2.2 _ (hiso.corner_lt d hd) ?_ hoi
    rw [hiso.phi_face hC d hd]
    have hlt := hiso.processed_lt (d / 3) (by omega)
    have hmem : (s.2.2.2.2.2.2.2.1.reverse ++ s.2.2.2.2.2.2.2.2.1)[d / 3]! ∈
        (s.2.2.2.2.2.2.2.1.reverse ++ s.2.2.2.2.2.2.2.2.1).toList := by
      have hsz : d / 3 < (s.2.2.2.2.2.2.2.1.reverse ++ s.2.2.2.2.2.2.2.2.1).size := by
        rw [← hiso.faces]; omega
      rw [getElem!_pos (s.2.2.2.2.2.2.2.1.reverse ++ s.2.2.2.2.2.2.2.2.1) (d / 3) hsz]
      exact Array.getElem_mem_toList hsz
    obtain ⟨hl, hdeg⟩ := hfaces _ hmem
    have h3 := hk.three
    have := isDegenerated_ok hk (f := (s.2.2.2.2.2.2.2.1.reverse ++ s.2.2.2.2.2.2.2.2.1)[d / 3]! / 3) (by
      unfold CT.numCorners at hl; omega) hdeg
    exact this.symm

end Draco.EbEnc.ConnGlueAtt
