import DracoProofs.CornerTableDegen
/-
  Label coherence: after `ComputeVertexCorners` the (possibly split) vertex id is constant along
  `SwingRight`, i.e. two corners that are neighbours in a fan carry the same corner-table vertex.
  Consequence: clause I2 holds in the table's own vertex ids as well
  (`Vertex(Next c) = Vertex(Previous (Opposite c))`, `Vertex(Previous c) = Vertex(Next (Opposite c))`).
  Needs adequate fuel (the walks must run to their end).
-/
namespace Draco

/-- the vertex label is constant along `SwingRight` -/
def LInv (opp : Array (Option Nat)) (ctv : Array Nat) : Prop :=
  ∀ a b, swingRightA opp a = some b → vget ctv a = vget ctv b

theorem markL_ctv_false (v : Nat) (st : VCState) (act : Nat) : (markL v false st act).ctv = st.ctv := by
  simp [markL_eq]
theorem markR_ctv_false (v : Nat) (st : VCState) (act : Nat) : (markR v false st act).ctv = st.ctv := by
  simp [markR_eq]

theorem cvcLeft_ctv_false (opp : Array (Option Nat)) (c v : Nat) :
    ∀ (fuel act : Nat) (st : VCState), (cvcLeft opp c v false fuel act st).1.ctv = st.ctv := by
  intro fuel
  induction fuel with
  | zero => intro act st; simp [cvcLeft]
  | succ fuel ih =>
    intro act st
    unfold cvcLeft
    simp only []
    split
    · exact markL_ctv_false _ _ _
    · split
      · exact markL_ctv_false _ _ _
      · rw [ih]; exact markL_ctv_false _ _ _

theorem cvcRight_ctv_false (opp : Array (Option Nat)) (v : Nat) :
    ∀ (fuel : Nat) (act : Option Nat) (st : VCState), (cvcRight opp v false fuel act st).ctv = st.ctv := by
  intro fuel
  induction fuel with
  | zero => intro act st; simp [cvcRight]
  | succ fuel ih =>
    intro act st
    cases act with
    | none => simp [cvcRight]
    | some a => unfold cvcRight; rw [ih]; exact markR_ctv_false _ _ _

section
variable {n : Nat} {opp : Array (Option Nat)}

theorem markL_ctv_true (v : Nat) (st : VCState) (act x : Nat) (hact : act < st.ctv.size) :
    vget (markL v true st act).ctv x = if act = x then v else vget st.ctv x := by
  simp only [markL_eq, if_true]
  rw [vget_set]
  simp [hact]

theorem markR_ctv_true (v : Nat) (st : VCState) (act x : Nat) (hact : act < st.ctv.size) :
    vget (markR v true st act).ctv x = if act = x then v else vget st.ctv x := by
  simp only [markR_eq, if_true]
  rw [vget_set]
  simp [hact]

theorem markL_ctv_size (v : Nat) (nm : Bool) (st : VCState) (act : Nat) :
    (markL v nm st act).ctv.size = st.ctv.size := by
  simp only [markL_eq]; split <;> simp [Array.size_setIfInBounds]

theorem markR_ctv_size (v : Nat) (nm : Bool) (st : VCState) (act : Nat) :
    (markR v nm st act).ctv.size = st.ctv.size := by
  simp only [markR_eq]; split <;> simp [Array.size_setIfInBounds]

/-- precondition of the swing-left walk before marking `act` (relabelling case) -/
structure PreL (opp : Array (Option Nat)) (c v : Nat) (ctv : Array Nat) (act : Nat) : Prop where
  coh : ∀ a b, swingRightA opp a = some b → a ≠ c → a ≠ act → vget ctv a = vget ctv b
  prev : ∀ l, swingRightA opp act = some l → act ≠ c → vget ctv l = v
  start : act ≠ c → vget ctv c = v

theorem cvcLeft_coh (hP : PInj n (swingRightA opp) (swingLeftA opp)) (c v : Nat) :
    ∀ (m act : Nat), TermIn (swingLeftA opp) c m act → ∀ (fuel : Nat) (st : VCState), m < fuel →
      st.ctv.size = n → act < n → PreL opp c v st.ctv act →
      (cvcLeft opp c v true fuel act st).1.ctv.size = n ∧
      ((cvcLeft opp c v true fuel act st).2 = false → LInv opp (cvcLeft opp c v true fuel act st).1.ctv) ∧
      ((cvcLeft opp c v true fuel act st).2 = true →
        (∀ a b, swingRightA opp a = some b → a ≠ c →
          vget (cvcLeft opp c v true fuel act st).1.ctv a = vget (cvcLeft opp c v true fuel act st).1.ctv b) ∧
        vget (cvcLeft opp c v true fuel act st).1.ctv c = v) := by
  intro m
  induction m with
  | zero =>
    intro act ht fuel st hf hsz hact hpre
    cases fuel with
    | zero => omega
    | succ fuel =>
      have hg := markL_ctv_true v st act
      have hsz' : (markL v true st act).ctv.size = n := by rw [markL_ctv_size]; exact hsz
      -- coherence of the pairs whose first corner is neither `c` nor … after marking `act`
      have hpair : ∀ a b, swingRightA opp a = some b → a ≠ c → b ≠ act →
          vget (markL v true st act).ctv a = vget (markL v true st act).ctv b := by
        intro a b hab hac hba
        rw [hg a (by omega), hg b (by omega)]
        by_cases haa : act = a
        · subst haa
          simp only [if_true, Ne.symm hba, if_false]
          exact (hpre.prev b hab hac).symm
        · simp only [haa, if_false, Ne.symm hba]
          exact hpre.coh a b hab hac (Ne.symm haa)
      have hcv : vget (markL v true st act).ctv c = v := by
        rw [hg c (by omega)]
        by_cases hac : act = c
        · simp [hac]
        · simp only [hac, if_false]; exact hpre.start hac
      unfold cvcLeft
      simp only []
      unfold TermIn at ht
      rcases ht with ht | ht
      · simp only [ht]
        refine ⟨hsz', (fun h => by cases h), fun _ => ⟨?_, hcv⟩⟩
        intro a b hab hac
        refine hpair a b hab hac ?_
        intro hba
        subst hba
        have := (hP.fg a b hab).1
        rw [ht] at this; cases this
      · simp only [ht, if_true]
        refine ⟨hsz', fun _ => ?_, fun h => by cases h⟩
        intro a b hab
        by_cases hac : a = c
        · subst hac
          -- sr c = act since sl act = c
          have := (hP.gf act a ht).1
          rw [hab] at this
          injection this with this
          subst this
          rw [hcv, hg b (by omega)]; simp
        · refine hpair a b hab hac ?_
          intro hba
          subst hba
          have := (hP.fg a b hab).1
          rw [ht] at this
          injection this with this
          exact hac this.symm
  | succ m ih =>
    intro act ht fuel st hf hsz hact hpre
    cases fuel with
    | zero => omega
    | succ fuel =>
      have hg := markL_ctv_true v st act
      have hsz' : (markL v true st act).ctv.size = n := by rw [markL_ctv_size]; exact hsz
      have hpair : ∀ a b, swingRightA opp a = some b → a ≠ c → b ≠ act →
          vget (markL v true st act).ctv a = vget (markL v true st act).ctv b := by
        intro a b hab hac hba
        rw [hg a (by omega), hg b (by omega)]
        by_cases haa : act = a
        · subst haa
          simp only [if_true, Ne.symm hba, if_false]
          exact (hpre.prev b hab hac).symm
        · simp only [haa, if_false, Ne.symm hba]
          exact hpre.coh a b hab hac (Ne.symm haa)
      have hcv : vget (markL v true st act).ctv c = v := by
        rw [hg c (by omega)]
        by_cases hac : act = c
        · simp [hac]
        · simp only [hac, if_false]; exact hpre.start hac
      conv => unfold cvcLeft
      simp only []
      unfold TermIn at ht
      rcases ht with ht | ht | ⟨nx, h1, h2⟩
      · simp only [ht]
        refine ⟨hsz', (fun h => by cases h), fun _ => ⟨?_, hcv⟩⟩
        intro a b hab hac
        refine hpair a b hab hac ?_
        intro hba
        subst hba
        have := (hP.fg a b hab).1
        rw [ht] at this; cases this
      · simp only [ht, if_true]
        refine ⟨hsz', fun _ => ?_, fun h => by cases h⟩
        intro a b hab
        by_cases hac : a = c
        · subst hac
          have := (hP.gf act a ht).1
          rw [hab] at this
          injection this with this
          subst this
          rw [hcv, hg b (by omega)]; simp
        · refine hpair a b hab hac ?_
          intro hba
          subst hba
          have := (hP.fg a b hab).1
          rw [ht] at this
          injection this with this
          exact hac this.symm
      · simp only [h1]
        split
        · -- `nx = c`: the cycle closes
          rename_i hnc
          subst hnc
          refine ⟨hsz', fun _ => ?_, fun h => by cases h⟩
          intro a b hab
          by_cases hac : a = nx
          · subst hac
            have := (hP.gf act a h1).1
            rw [hab] at this
            injection this with this
            subst this
            rw [hcv, hg b (by omega)]; simp
          · refine hpair a b hab hac ?_
            intro hba
            subst hba
            have := (hP.fg a b hab).1
            rw [h1] at this
            injection this with this
            exact hac this.symm
        · rename_i hnc
          obtain ⟨hsr, hnxlt⟩ := hP.gf act nx h1
          refine ih nx h2 fuel (markL v true st act) (by omega) hsz' hnxlt ⟨?_, ?_, fun _ => hcv⟩
          · intro a b hab hac hanx
            refine hpair a b hab hac ?_
            intro hba
            subst hba
            have := (hP.fg a b hab).1
            rw [h1] at this
            injection this with this
            exact hanx this.symm
          · intro l hl _
            rw [hsr] at hl
            injection hl with hl
            subst hl
            rw [hg _ (by omega)]; simp

/-- precondition of the swing-right walk before marking `act` (relabelling case) -/
structure PreR (opp : Array (Option Nat)) (v : Nat) (ctv : Array Nat) (act : Option Nat) : Prop where
  coh : ∀ a b, swingRightA opp a = some b → act ≠ some b → vget ctv a = vget ctv b
  prev : ∀ x l, act = some x → swingLeftA opp x = some l → vget ctv l = v

theorem cvcRight_coh (hP : PInj n (swingRightA opp) (swingLeftA opp)) (v : Nat) :
    ∀ (j : Nat) (act : Option Nat), iter (lift (swingRightA opp)) j act = none →
      ∀ (fuel : Nat) (st : VCState), j ≤ fuel → st.ctv.size = n → (∀ x, act = some x → x < n) →
      PreR opp v st.ctv act → LInv opp (cvcRight opp v true fuel act st).ctv := by
  intro j
  induction j with
  | zero =>
    intro act h fuel st _ _ _ hpre
    simp only [iter] at h
    subst h
    have : cvcRight opp v true fuel none st = st := by cases fuel <;> simp [cvcRight]
    rw [this]
    intro a b hab
    exact hpre.coh a b hab (fun h => by cases h)
  | succ j ih =>
    intro act h fuel st hf hsz hlt hpre
    cases act with
    | none =>
      have : cvcRight opp v true fuel none st = st := by cases fuel <;> simp [cvcRight]
      rw [this]
      intro a b hab
      exact hpre.coh a b hab (fun h => by cases h)
    | some x =>
      cases fuel with
      | zero => omega
      | succ fuel =>
        unfold cvcRight
        have hx := hlt x rfl
        have hg := markR_ctv_true v st x
        simp only [iter, lift_some] at h
        refine ih _ h fuel _ (by omega) (by rw [markR_ctv_size]; exact hsz) ?_ ⟨?_, ?_⟩
        · intro y hy; exact (hP.fg x y hy).2
        · intro a b hab hne
          rw [hg a (by omega), hg b (by omega)]
          by_cases hxb : x = b
          · subst hxb
            simp only [if_true]
            by_cases hxa : x = a
            · simp [hxa]
            · simp only [hxa, if_false]
              exact hpre.prev x a rfl (hP.fg a x hab).1
          · simp only [hxb, if_false]
            by_cases hxa : x = a
            · subst hxa
              exact absurd hab.symm (by intro h'; exact hne (h'.symm ▸ rfl))
            · simp only [hxa, if_false]
              exact hpre.coh a b hab (fun h' => by injection h' with h'; exact hxb h')
        · intro y l hy hl
          have : swingLeftA opp y = some x := by
            have := hP.fg x y hy
            exact this.1
          rw [this] at hl
          injection hl with hl
          subst hl
          rw [hg _ (by omega)]; simp

end

section
variable {ctv0 : Array Nat} {opp : Array (Option Nat)} {k : Nat}

theorem cvcCorner_linv {numOrig : Nat} (hn : ctv0.size = 3 * k) (hopp : OppOK ctv0 ctv0.size opp)
    (fuel : Nat) (hf : ctv0.size ≤ fuel) (st : VCState) (c : Nat) (hc : c < ctv0.size)
    (hV : VInv ctv0 numOrig st) (hL : LInv opp st.ctv) : LInv opp (cvcCorner opp fuel st c).ctv := by
  cases hvis : st.visitedC.getD c false with
  | true => unfold cvcCorner; simp only [hvis, if_true]; exact hL
  | false =>
    obtain ⟨nm, v, st1, _, e2, e3⟩ := cvcCorner_eq opp fuel st c hvis
    rw [e3]
    have hP := swing_pinj hn hopp
    cases nm with
    | false =>
      split
      · rw [cvcRight_ctv_false, cvcLeft_ctv_false, e2]; exact hL
      · rw [cvcLeft_ctv_false, e2]; exact hL
    | true =>
      have ht := hP.symm.termIn hc
      have hsz1 : st1.ctv.size = ctv0.size := by rw [e2]; exact hV.size_ctv
      have hpre : PreL opp c v st1.ctv c :=
        ⟨fun a b hab _ hac => by rw [e2]; exact hL a b hab, fun _ _ h => absurd rfl h, fun h => absurd rfl h⟩
      obtain ⟨r1, r2, r3⟩ := cvcLeft_coh hP c v _ _ ht fuel st1 (by omega) hsz1 hc hpre
      split
      · rename_i hflag
        obtain ⟨i, L, h1, h2⟩ := cvcLeft_flag opp c v true _ _ _ hflag
        obtain ⟨j, hj, hnone⟩ := right_dies hn hopp c hc i L h1 h2
        obtain ⟨q1, q2⟩ := r3 hflag
        refine cvcRight_coh hP v j _ hnone fuel _ (by omega) r1 ?_ ⟨?_, ?_⟩
        · intro x hx; exact (hP.fg c x hx).2
        · intro a b hab hne
          refine q1 a b hab ?_
          intro hac
          subst hac
          exact hne hab
        · intro x l hx hl
          have := (hP.fg c x hx).1
          rw [this] at hl
          injection hl with hl
          subst hl
          exact q2
      · rename_i hflag
        exact r2 (by simpa using hflag)

theorem computeVertexCornersF_linv (hn : ctv0.size = 3 * k) (hopp : OppOK ctv0 ctv0.size opp)
    (fuel : Nat) (hf : ctv0.size ≤ fuel) :
    LInv opp (computeVertexCornersF ctv0 opp (numVerticesOf ctv0) fuel).ctv := by
  have key := foldl_range_inv' (fun st => VInv ctv0 (numVerticesOf ctv0) st ∧ LInv opp st.ctv)
    (cvcFace opp fuel)
    { ctv := ctv0, vc := Array.replicate (numVerticesOf ctv0) none, parents := #[],
      visitedV := Array.replicate (numVerticesOf ctv0) false,
      visitedC := Array.replicate ctv0.size false } (ctv0.size / 3) ?_ ?_
  · exact key.2
  · refine ⟨⟨rfl, by simp, by simp, ?_, fun c _ => rfl⟩, ?_⟩
    · intro c hc
      have := vget_lt_numVerticesOf ctv0 c hc
      simp only [Array.size_empty, Nat.add_zero]
      refine ⟨this, ?_⟩
      unfold vparent; simp [this]
    · intro a b hab
      exact ((swingRightA_facts hn hopp hab).2.1).symm
  · intro f hf' s hs
    refine ⟨cvcFace_inv _ hn hopp fuel s f hf' hs.1, ?_⟩
    unfold cvcFace
    split
    · exact hs.2
    · have hV0 := hs.1
      have hV1 := cvcCorner_inv (numVerticesOf ctv0) hn hopp fuel s (3 * f) (by omega) hV0
      have hV2 := cvcCorner_inv (numVerticesOf ctv0) hn hopp fuel _ (3 * f + 1) (by omega) hV1
      have l1 := cvcCorner_linv hn hopp fuel hf s (3 * f) (by omega) hV0 hs.2
      have l2 := cvcCorner_linv hn hopp fuel hf _ (3 * f + 1) (by omega) hV1 l1
      exact cvcCorner_linv hn hopp fuel hf _ (3 * f + 2) (by omega) hV2 l2

end

namespace CornerTable

/-- the vertex is constant along `SwingRight` on a created table -/
theorem create_swingRight_vertex {faces : Faces} {ct : CornerTable} (h : create faces = some ct)
    (a b : Nat) (hab : ct.swingRight (some a) = some b) :
    vget ct.cornerToVertex a = vget ct.cornerToVertex b := by
  obtain ⟨h1, h2, _, _, _⟩ := createF_eq h
  have hsz := size_initCtv faces
  have hl := computeVertexCornersF_linv hsz (finalOpp_inv (initCtv faces) (3 * faces.size + 1))
    (3 * faces.size + 1) (by rw [hsz]; omega)
  rw [h1]
  apply hl a b
  rw [← h2]
  have := swingRight_eq_lift ct
  rw [this] at hab
  exact hab

/-- I2 in the table's own (split) vertex ids -/
theorem create_opposite_edge_strong {faces : Faces} {ct : CornerTable} (h : create faces = some ct)
    (c o : Nat) (hco : ct.opposite (some c) = some o) :
    vget ct.cornerToVertex (nextC c) = vget ct.cornerToVertex (prevC o) ∧
    vget ct.cornerToVertex (prevC c) = vget ct.cornerToVertex (nextC o) := by
  obtain ⟨_, _, hoc, _, _⟩ := createF_opposite_symm h c o hco
  constructor
  · -- SwingRight (next c) = prev (opp (prev (next c))) = prev (opp c) = prev o
    apply create_swingRight_vertex h
    simp only [swingRight, previous, Option.map_some, prevC_nextC]
    rw [hco]; rfl
  · -- SwingRight (next o) = prev (opp o) = prev c
    symm
    apply create_swingRight_vertex h
    simp only [swingRight, previous, Option.map_some, prevC_nextC]
    rw [hoc]; rfl

theorem create_iter_swingRight_vertex {faces : Faces} {ct : CornerTable} (h : create faces = some ct) :
    ∀ (k s x : Nat), iter ct.swingRight k (some s) = some x →
      vget ct.cornerToVertex x = vget ct.cornerToVertex s := by
  intro k
  induction k with
  | zero => intro s x hx; simp only [iter] at hx; injection hx with hx; rw [hx]
  | succ k ih =>
    intro s x hx
    rw [iter_succ'] at hx
    cases hy : iter ct.swingRight k (some s) with
    | none => rw [hy] at hx; cases hx
    | some y =>
      rw [hy] at hx
      rw [← create_swingRight_vertex h y x hx]
      exact ih s y hy

/-- converse of I5: the walk from `LeftMostCorner(Vertex c)` only meets corners of that vertex;
    with I5 the fan of every used vertex `v` is exactly the set of (non-degenerate face) corners
    with `Vertex = v` -/
theorem create_fan_exact {faces : Faces} {ct : CornerTable} (h : create faces = some ct)
    (c : Nat) (hc : c < 3 * faces.size) (hnd : faceDegenerate faces (c / 3) = false)
    (k x : Nat) (hx : iter ct.swingRight k (ct.leftMostCorner (vget ct.cornerToVertex c)) = some x) :
    vget ct.cornerToVertex x = vget ct.cornerToVertex c := by
  obtain ⟨⟨k0, hk0⟩, _⟩ := createF_fan_complete (Nat.succ_pos _) h c hc hnd
  cases hs : ct.leftMostCorner (vget ct.cornerToVertex c) with
  | none =>
    rw [hs, swingRight_eq_lift, iter_lift_none] at hk0; cases hk0
  | some L =>
    rw [hs] at hx hk0
    rw [create_iter_swingRight_vertex h k L x hx, create_iter_swingRight_vertex h k0 L c hk0]

end CornerTable
end Draco
