import DracoModel.KdTreeAttr
import DracoProofs.KdTreeStack
import DracoProofs.RobustValid
/-
  C03 for the kd-tree point cloud decoder model: whenever `decodeKdGeometry` reports success the
  geometry is structurally valid (`Geometry.valid`), for every input.
-/
namespace Draco.Kd
open DecM TreeStack

/-! ### inverting the decoder monad -/

theorem bind_some {α β} {m : DecM α} {f : α → DecM β} {s s' : DSt} {b : β}
    (h : (m >>= f) s = (some b, s')) : ∃ a s1, m s = (some a, s1) ∧ f a s1 = (some b, s') := by
  have : (m >>= f) s = match m s with
      | (none, s') => (none, s')
      | (some a, s') => f a s' := rfl
  rw [this] at h
  split at h
  · cases h
  · rename_i a s1 hm
    exact ⟨a, s1, hm, h⟩

theorem require_some {c : Bool} {s s' : DSt} {u : Unit} (h : require c s = (some u, s')) :
    c = true ∧ s' = s := by
  unfold require at h
  split at h
  · rename_i hc; simp only [ret, Prod.mk.injEq] at h; exact ⟨hc, h.2.symm⟩
  · simp [fail] at h

theorem mapM'_spec {α β} (f : α → DecM β) (Q : α → β → Prop)
    (hf : ∀ a s b s', f a s = (some b, s') → Q a b) :
    ∀ (l : List α) (s : DSt) (bs : List β) (s' : DSt), mapM' f l s = (some bs, s') →
    List.Forall₂ Q l bs := by
  intro l
  induction l with
  | nil =>
    intro s bs s' h
    simp only [mapM', pure, ret, Prod.mk.injEq, Option.some.injEq] at h
    rw [← h.1]; exact List.Forall₂.nil
  | cons a l ih =>
    intro s bs s' h
    simp only [mapM'] at h
    obtain ⟨b, s1, h1, h⟩ := bind_some h
    obtain ⟨bs', s2, h2, h⟩ := bind_some h
    simp only [pure, ret, Prod.mk.injEq, Option.some.injEq] at h
    rw [← h.1]
    exact List.Forall₂.cons (hf a s b s1 h1) (ih s1 bs' s2 h2)

theorem forall2_len {α β} {R : α → β → Prop} {l₁ : List α} {l₂ : List β}
    (h : List.Forall₂ R l₁ l₂) : l₁.length = l₂.length := by
  induction h with
  | nil => rfl
  | cons _ _ ih => simp [ih]

theorem forall2_mem_right {α β} {R : α → β → Prop} {l₁ : List α} {l₂ : List β}
    (h : List.Forall₂ R l₁ l₂) : ∀ b ∈ l₂, ∃ a ∈ l₁, R a b := by
  induction h with
  | nil => intro b hb; simp at hb
  | @cons a b l₁ l₂ hr _ ih =>
    intro x hx
    simp only [List.mem_cons] at hx
    rcases hx with hx | hx
    · subst hx; exact ⟨a, by simp, hr⟩
    · obtain ⟨y, hy, hxy⟩ := ih x hx
      exact ⟨y, by simp [hy], hxy⟩

theorem replicateM'_spec {β} (f : DecM β) (Q : β → Prop)
    (hf : ∀ s b s', f s = (some b, s') → Q b) (n : Nat) (s : DSt) (bs : List β) (s' : DSt)
    (h : replicateM' n f s = (some bs, s')) : bs.length = n ∧ ∀ b ∈ bs, Q b := by
  have := mapM'_spec (fun _ => f) (fun (_ : Unit) b => Q b) (fun _ s b s' h => hf s b s' h)
    (List.replicate n ()) s bs s' h
  constructor
  · have := forall2_len this; simpa using this.symm
  · intro b hb
    clear h
    generalize List.replicate n () = l at this
    induction this with
    | nil => simp at hb
    | cons hq _ ih =>
      simp only [List.mem_cons] at hb
      rcases hb with hb | hb
      · subst hb; exact hq
      · exact ih hb

/-! ### what the tree decoder writes -/

variable {σ : Type}

theorem leafPoint_length (S : Src σ) (P : Params) (base levels : List Nat) :
    ∀ (axes q : List Nat) (s : σ) (q' : List Nat) (s' : σ),
    leafPoint S P base levels axes q s = some (q', s') → q'.length = q.length := by
  intro axes
  induction axes with
  | nil => intro q s q' s' h; simp only [leafPoint, Option.some.injEq, Prod.mk.injEq] at h; rw [← h.1]
  | cons a axes ih =>
    intro q s q' s' h
    simp only [leafPoint] at h
    split at h
    · have := ih _ _ _ _ h; simpa using this
    · split at h
      · cases h
      · have := ih _ _ _ _ h; simpa using this

theorem leafPoints_length (S : Src σ) (P : Params) (base levels axes : List Nat) :
    ∀ (k : Nat) (s : σ) (pts : List (List Nat)) (s' : σ),
    leafPoints S P base levels axes k s = some (pts, s') →
    pts.length = k ∧ ∀ p ∈ pts, p.length = P.dim := by
  intro k
  induction k with
  | zero =>
    intro s pts s' h
    simp only [leafPoints, Option.some.injEq, Prod.mk.injEq] at h
    rw [← h.1]; simp
  | succ k ih =>
    intro s pts s' h
    simp only [leafPoints] at h
    split at h
    · cases h
    · rename_i p s1 hp
      split at h
      · cases h
      · rename_i ps s2 hps
        simp only [Option.some.injEq, Prod.mk.injEq] at h
        obtain ⟨i1, i2⟩ := ih _ _ _ hps
        have hl := leafPoint_length S P base levels axes _ _ _ _ hp
        rw [← h.1]
        refine ⟨by simp [i1], ?_⟩
        intro x hx
        simp only [List.mem_cons] at hx
        rcases hx with hx | hx
        · subst hx; simpa using hl
        · exact i2 x hx

/-- a leaf step writes `n` points of the right dimension -/
theorem node_leaf (S : Src σ) (P : Params) (fr : Frame) (st : St σ) (out : List (List Nat))
    (st1 : St σ) (hb : fr.base.length = P.dim) (h : node S P fr st = some (.leaf out st1)) :
    out.length = fr.n ∧ (∀ p ∈ out, p.length = P.dim) ∧ st1.decoded = st.decoded + fr.n := by
  unfold node at h
  split at h
  · cases h
  simp only at h
  generalize (getAxis S P st.src fr.n fr.levels fr.lastAxis).1 = axis at h
  generalize (getAxis S P st.src fr.n fr.levels fr.lastAxis).2 = s0 at h
  unfold nodeAt at h
  split at h
  · cases h
  split at h
  · simp only [Option.some.injEq, Step.leaf.injEq] at h
    obtain ⟨h1, h2⟩ := h
    rw [← h1, ← h2]
    refine ⟨by simp, ?_, rfl⟩
    intro p hp
    rw [List.eq_of_mem_replicate hp]; exact hb
  split at h
  · split at h
    · cases h
    · rename_i pts s1 hl
      simp only [Option.some.injEq, Step.leaf.injEq] at h
      obtain ⟨h1, h2⟩ := h
      obtain ⟨l1, l2⟩ := leafPoints_length S P _ _ _ _ _ _ _ hl
      rw [← h1, ← h2]
      exact ⟨l1, l2, rfl⟩
  split at h
  · cases h
  unfold splitNode at h
  simp only at h
  split at h
  · cases h
  split at h
  · split at h <;> simp [pushChildren] at h
  · simp [pushChildren] at h

/-- every point written by the tree decoder has `dimension_` coordinates, and
    `num_decoded_points_` counts them -/
theorem tree_out (S : Src σ) (P : Params) : ∀ (d : Nat) (fr : Frame) (st : St σ)
    (pts : List (List Nat)) (st' : St σ), fr.base.length = P.dim →
    tree S P d fr st = some (pts, st') →
    (∀ p ∈ pts, p.length = P.dim) ∧ st'.decoded = st.decoded + pts.length := by
  intro d
  induction d with
  | zero => intro fr st pts st' _ h; simp [tree, TreeStack.tree] at h
  | succ d ih =>
    intro fr st pts st' hb h
    unfold tree at h
    rw [tree_succ] at h
    cases hstep : node S P fr st with
    | none => rw [hstep] at h; cases h
    | some stp =>
      rw [hstep] at h
      cases stp with
      | leaf out st1 =>
        simp only [Option.some.injEq, Prod.mk.injEq] at h
        obtain ⟨l1, l2, l3⟩ := node_leaf S P fr st out st1 hb hstep
        rw [← h.1, ← h.2]
        exact ⟨l2, by omega⟩
      | split out f sn st1 =>
        obtain ⟨axis, n1, n2, base2, _, _, _, _, hout, hf, hs, hb2, hdec⟩ := node_split S P fr st out f sn st1 hstep
        simp only at h
        have hsub : ∀ (c : Option Frame) (s0 : St σ) (pc : List (List Nat)) (sc : St σ),
            (∀ x, c = some x → x.base.length = P.dim) → sub (node S P) d c s0 = some (pc, sc) →
            (∀ p ∈ pc, p.length = P.dim) ∧ sc.decoded = s0.decoded + pc.length := by
          intro c s0 pc sc hc hs
          cases c with
          | none =>
            simp only [sub, Option.some.injEq, Prod.mk.injEq] at hs
            rw [← hs.1, ← hs.2]; simp
          | some x => exact ih x s0 pc sc (hc x rfl) hs
        cases h2 : sub (node S P) d sn st1 with
        | none => rw [h2] at h; cases h
        | some r2 =>
          obtain ⟨o2, s2⟩ := r2
          rw [h2] at h
          simp only at h
          cases h1 : sub (node S P) d f s2 with
          | none => rw [h1] at h; cases h
          | some r1 =>
            obtain ⟨o1, s3⟩ := r1
            rw [h1] at h
            simp only [Option.some.injEq, Prod.mk.injEq] at h
            obtain ⟨a1, a2⟩ := hsub sn st1 o2 s2 (by
              intro x hx; rw [hs] at hx; split at hx
              · cases hx; simp only; omega
              · cases hx) h2
            obtain ⟨b1, b2⟩ := hsub f s2 o1 s3 (by
              intro x hx; rw [hf] at hx; split at hx
              · cases hx; exact hb
              · cases hx) h1
            rw [← h.1, ← h.2, hout]
            refine ⟨?_, by simp only [List.nil_append, List.length_append]; omega⟩
            intro p hp
            simp only [List.nil_append, List.mem_append] at hp
            rcases hp with hp | hp
            · exact a1 p hp
            · exact b1 p hp

theorem decodeInternal_out (S : Src σ) (P : Params) (s : σ) (pts : List (List Nat)) (st : St σ)
    (h : decodeInternal S P s = some (pts, st)) :
    (∀ p ∈ pts, p.length = P.dim) ∧ st.decoded = pts.length := by
  rw [decodeInternal_eq_tree S P s (runFuel P) (Nat.le_refl _)] at h
  have := tree_out S P _ _ _ _ _ (by simp) h
  simpa using this

theorem decodePointsL_false (level dim maxPoints : Nat) :
    decodePointsL false level dim maxPoints = decodePoints level dim maxPoints := rfl

/-- `DecodePoints` (every bitstream version): the points written and `num_decoded_points()` -/
theorem decodePointsL_out (legacy : Bool) (level dim maxPoints : Nat) (s s' : DSt) (n : Nat) (pts : List (List Nat))
    (h : decodePointsL legacy level dim maxPoints s = (some (n, pts), s')) :
    pts.length = n ∧ ∀ p ∈ pts, p.length = dim := by
  unfold decodePointsL at h
  obtain ⟨bl, s1, _, h⟩ := bind_some h
  obtain ⟨_, s2, _, h⟩ := bind_some h
  obtain ⟨np, s3, _, h⟩ := bind_some h
  split at h
  · simp only [pure, ret, Prod.mk.injEq, Option.some.injEq] at h
    rw [← h.1.1, ← h.1.2]; simp
  · obtain ⟨_, s4, _, h⟩ := bind_some h
    obtain ⟨num, s5, _, h⟩ := bind_some h
    obtain ⟨rem, s6, _, h⟩ := bind_some h
    obtain ⟨axis, s7, _, h⟩ := bind_some h
    obtain ⟨half, s8, _, h⟩ := bind_some h
    simp only at h
    cases hdi : decodeInternal (coders legacy) ⟨dim, bl, level == 6, np⟩ ⟨num, rem, axis, half⟩ with
    | none => rw [hdi] at h; simp [fail] at h
    | some r =>
      obtain ⟨pts', st⟩ := r
      rw [hdi] at h
      simp only [pure, ret, Prod.mk.injEq, Option.some.injEq] at h
      obtain ⟨d1, d2⟩ := decodeInternal_out _ _ _ _ _ hdi
      rw [← h.1.1, ← h.1.2]
      exact ⟨d2.symm, d1⟩

/-- `DecodePoints`: the points written and `num_decoded_points()` -/
theorem decodePoints_out (level dim maxPoints : Nat) (s s' : DSt) (n : Nat) (pts : List (List Nat))
    (h : decodePoints level dim maxPoints s = (some (n, pts), s')) :
    pts.length = n ∧ ∀ p ∈ pts, p.length = dim :=
  decodePointsL_out false level dim maxPoints s s' n pts h

/-! ### the attribute layer -/

theorem wle_length (n : Nat) : ∀ v, (writeLE n v).length = n := by
  induction n with
  | zero => intro v; simp [writeLE]
  | succ n ih => intro v; simp [writeLE, ih]

theorem flatMap_length_const {α β} (g : α → List β) (c : Nat) : ∀ (l : List α),
    (∀ r ∈ l, (g r).length = c) → (l.flatMap g).length = l.length * c := by
  intro l
  induction l with
  | nil => intro _; simp
  | cons x xs ih =>
    intro h
    simp only [List.flatMap_cons, List.length_append, List.length_cons]
    rw [h x (by simp), ih (fun r hr => h r (by simp [hr])), Nat.add_mul]
    omega

theorem mapRow_length {α} (f : α → Nat → Nat) : ∀ (ms : List α) (vs : List Nat),
    ms.length = vs.length → (mapRow f ms vs).length = vs.length := by
  intro ms
  induction ms with
  | nil => intro vs h; cases vs <;> simp_all [mapRow]
  | cons m ms ih =>
    intro vs h
    cases vs with
    | nil => simp at h
    | cons v vs => simp only [mapRow, List.length_cons] at h ⊢; rw [ih vs (by omega)]

/-- every descriptor accepted by `DecodeAttributesDecoderData` has at least one component -/
theorem decodeAttDescs_nc (s s' : DSt) (ds : List AttDesc) (h : decodeAttDescs s = (some ds, s')) :
    ∀ d ∈ ds, 1 ≤ d.numComponents := by
  unfold decodeAttDescs at h
  obtain ⟨ver, s1, _, h⟩ := bind_some h
  simp only at h
  have key : ∀ (n : Nat) (s2 : DSt), (do
        require (n != 0)
        let rem ← remaining
        require (decide (n ≤ 5 * rem))
        alloc "attributes_decoder.point_attribute_ids" (4 * n)
        replicateM' n (do
          let t ← rdU8
          let dt ← rdU8
          let nc ← rdU8
          let nz ← rdU8
          require (decide (t < Generated.geometryAttribute_NAMED_ATTRIBUTES_COUNT.toNat))
          require (dt != 0 && decide (dt < Generated.DT_TYPES_COUNT.toNat))
          require (nc != 0)
          let uid ← if ver < bsVersion 1 3 then rdU16 else varint 32
          pure (⟨t, dt, nc, nz > 0, uid⟩ : AttDesc)) : DecM (List AttDesc)) s2 = (some ds, s') →
      ∀ d ∈ ds, 1 ≤ d.numComponents := by
    intro n s2 h
    obtain ⟨_, s3, _, h⟩ := bind_some h
    obtain ⟨rem, s4, _, h⟩ := bind_some h
    obtain ⟨_, s5, _, h⟩ := bind_some h
    obtain ⟨_, s6, _, h⟩ := bind_some h
    refine (replicateM'_spec _ (fun d : AttDesc => 1 ≤ d.numComponents) ?_ n s6 ds s' h).2
    intro t0 d t1 hd
    obtain ⟨t, u1, _, hd⟩ := bind_some hd
    obtain ⟨dt, u2, _, hd⟩ := bind_some hd
    obtain ⟨nc, u3, _, hd⟩ := bind_some hd
    obtain ⟨nz, u4, _, hd⟩ := bind_some hd
    obtain ⟨_, u5, _, hd⟩ := bind_some hd
    obtain ⟨_, u6, _, hd⟩ := bind_some hd
    obtain ⟨_, u7, hr, hd⟩ := bind_some hd
    have hnc := (require_some hr).1
    simp only [bne_iff_ne, ne_eq] at hnc
    simp only at hd
    split at hd
    · obtain ⟨uid, u8, _, hd⟩ := bind_some hd
      simp only [pure, ret, Prod.mk.injEq, Option.some.injEq] at hd
      rw [← hd.1]; simp only; omega
    · obtain ⟨uid, u8, _, hd⟩ := bind_some hd
      simp only [pure, ret, Prod.mk.injEq, Option.some.injEq] at hd
      rw [← hd.1]; simp only; omega
  split at h
  · obtain ⟨n, s2, _, h⟩ := bind_some h
    exact key n s2 h
  · obtain ⟨n, s2, _, h⟩ := bind_some h
    exact key n s2 h

/-- facts about one `AttributeTuple` -/
structure KdAttOK (dim : Nat) (ka : KdAtt) : Prop where
  nc : 1 ≤ ka.desc.numComponents
  kind : ka.kind = 0 ∨ ka.kind = 1 ∨ ka.kind = 2
  size : ka.kind ≠ 2 → ka.dataSize = dataTypeLength ka.desc.dataType ∧ 1 ≤ ka.dataSize
  float : ka.kind = 2 → ka.desc.dataType = 9 ∧ ka.dataSize = 4
  fits : ka.offset + ka.desc.numComponents ≤ dim

theorem KdAttOK.mono {d1 d2 : Nat} {ka : KdAtt} (h : KdAttOK d1 ka) (hd : d1 ≤ d2) : KdAttOK d2 ka :=
  ⟨h.nc, h.kind, h.size, h.float, by have := h.fits; omega⟩

theorem classifyOne_ok (numPoints : Nat) (d : AttDesc) (dim : Nat) (s s' : DSt) (ka : KdAtt)
    (hd : 1 ≤ d.numComponents) (h : classifyOne numPoints d dim s = (some ka, s')) :
    KdAttOK (dim + d.numComponents) ka := by
  unfold classifyOne at h
  obtain ⟨_, s1, _, hka⟩ := bind_some h
  simp only at hka
  split at hka
  · rename_i hdt
    simp only [pure, ret, Prod.mk.injEq, Option.some.injEq] at hka
    rw [← hka.1]
    refine ⟨hd, Or.inl rfl, fun _ => ⟨rfl, ?_⟩, by simp, by simp⟩
    simp only
    rcases hdt with h1 | h1 | h1 <;> rw [h1] <;> decide
  · split at hka
    · rename_i hdt
      simp only [pure, ret, Prod.mk.injEq, Option.some.injEq] at hka
      rw [← hka.1]
      refine ⟨hd, Or.inr (Or.inl rfl), fun _ => ⟨rfl, ?_⟩, by simp, by simp⟩
      simp only
      rcases hdt with h1 | h1 | h1 <;> rw [h1] <;> decide
    · split at hka
      · rename_i hdt
        obtain ⟨_, s9, _, hka⟩ := bind_some hka
        simp only [pure, ret, Prod.mk.injEq, Option.some.injEq] at hka
        rw [← hka.1]
        exact ⟨hd, Or.inr (Or.inr rfl), by simp, fun _ => ⟨hdt, rfl⟩, by simp⟩
      · simp [fail] at hka

theorem classify_ok (numPoints : Nat) : ∀ (descs : List AttDesc) (dim : Nat) (s s' : DSt)
    (r : List KdAtt × Nat), (∀ d ∈ descs, 1 ≤ d.numComponents) →
    classify numPoints descs dim s = (some r, s') →
    dim ≤ r.2 ∧ ∀ ka ∈ r.1, KdAttOK r.2 ka := by
  intro descs
  induction descs with
  | nil =>
    intro dim s s' r _ h
    simp only [classify, pure, ret, Prod.mk.injEq, Option.some.injEq] at h
    rw [← h.1]; simp
  | cons d ds ih =>
    intro dim s s' r hnc h
    have hd : 1 ≤ d.numComponents := hnc d (by simp)
    simp only [classify] at h
    obtain ⟨ka, s2, hka, h⟩ := bind_some h
    obtain ⟨r2, s3, hr, h⟩ := bind_some h
    simp only [pure, ret, Prod.mk.injEq, Option.some.injEq] at h
    obtain ⟨i1, i2⟩ := ih (dim + d.numComponents) s2 s3 r2 (fun x hx => hnc x (by simp [hx])) hr
    have hka' := classifyOne_ok numPoints d dim s s2 ka hd hka
    rw [← h.1]
    refine ⟨by simp only; omega, ?_⟩
    intro x hx
    simp only [List.mem_cons] at hx
    rcases hx with hx | hx
    · subst hx; exact hka'.mono i1
    · exact i2 x hx

/-- the transform data matches the attribute's kind -/
def TransOK (ka : KdAtt) (t : KdTransform) : Prop :=
  match t with
  | .none => ka.kind = 0
  | .signed mins => ka.kind = 1 ∧ mins.length = ka.desc.numComponents
  | .quant _ mins _ => ka.kind = 2 ∧ mins.length = ka.desc.numComponents

/-- after the first loop of `DecodeDataNeededByPortableTransforms` -/
def TransOK1 (ka : KdAtt) (t : KdTransform) : Prop :=
  match t with
  | .none => ka.kind ≠ 2
  | .signed _ => False
  | .quant _ mins _ => ka.kind = 2 ∧ mins.length = ka.desc.numComponents

theorem decodeQuantParams_ok : ∀ (kas : List KdAtt) (s s' : DSt) (ts : List KdTransform),
    decodeQuantParams kas s = (some ts, s') → List.Forall₂ TransOK1 kas ts := by
  intro kas
  induction kas with
  | nil =>
    intro s s' ts h
    simp only [decodeQuantParams, pure, ret, Prod.mk.injEq, Option.some.injEq] at h
    rw [← h.1]; exact List.Forall₂.nil
  | cons ka kas ih =>
    intro s s' ts h
    simp only [decodeQuantParams] at h
    obtain ⟨t, s1, ht, h⟩ := bind_some h
    obtain ⟨ts', s2, hts, h⟩ := bind_some h
    simp only [pure, ret, Prod.mk.injEq, Option.some.injEq] at h
    rw [← h.1]
    refine List.Forall₂.cons ?_ (ih s1 s2 ts' hts)
    unfold quantParamsOf at ht
    split at ht
    · rename_i hk
      obtain ⟨mins, u1, hm, ht⟩ := bind_some ht
      obtain ⟨range, u2, _, ht⟩ := bind_some ht
      obtain ⟨bits, u3, _, ht⟩ := bind_some ht
      obtain ⟨_, u4, _, ht⟩ := bind_some ht
      obtain ⟨_, u5, _, ht⟩ := bind_some ht
      simp only [pure, ret, Prod.mk.injEq, Option.some.injEq] at ht
      rw [← ht.1]
      exact ⟨hk, (replicateM'_spec _ (fun _ => True) (fun _ _ _ _ => trivial) _ _ _ _ hm).1⟩
    · rename_i hk
      simp only [pure, ret, Prod.mk.injEq, Option.some.injEq] at ht
      rw [← ht.1]
      exact hk

theorem decodeSignedMins_ok : ∀ (kas : List KdAtt) (ts : List KdTransform) (s s' : DSt)
    (ts' : List KdTransform), (∀ ka ∈ kas, ka.kind = 0 ∨ ka.kind = 1 ∨ ka.kind = 2) →
    List.Forall₂ TransOK1 kas ts → decodeSignedMins kas ts s = (some ts', s') →
    List.Forall₂ TransOK kas ts' := by
  intro kas ts s s' ts' hk hrel
  induction hrel generalizing s s' ts' with
  | nil =>
    intro h
    simp only [decodeSignedMins, pure, ret, Prod.mk.injEq, Option.some.injEq] at h
    rw [← h.1]; exact List.Forall₂.nil
  | @cons ka t kas ts h1 _ ih =>
    intro h
    simp only [decodeSignedMins] at h
    obtain ⟨t', s1, ht, h⟩ := bind_some h
    obtain ⟨ts2, s2, hts, h⟩ := bind_some h
    simp only [pure, ret, Prod.mk.injEq, Option.some.injEq] at h
    rw [← h.1]
    refine List.Forall₂.cons ?_ (ih s1 s2 ts2 (fun x hx => hk x (by simp [hx])) hts)
    unfold signedMinsOf at ht
    split at ht
    · rename_i hk1
      obtain ⟨mins, u1, hm, ht⟩ := bind_some ht
      simp only [pure, ret, Prod.mk.injEq, Option.some.injEq] at ht
      rw [← ht.1]
      exact ⟨hk1, (replicateM'_spec _ (fun _ => True) (fun _ _ _ _ => trivial) _ _ _ _ hm).1⟩
    · rename_i hk1
      simp only [pure, ret, Prod.mk.injEq, Option.some.injEq] at ht
      rw [← ht.1]
      cases t with
      | none =>
        simp only [TransOK1] at h1
        simp only [TransOK]
        have := hk ka (by simp)
        omega
      | signed m => simp [TransOK1] at h1
      | quant b m r => exact h1

/-- `TransformAttributesToOriginalFormat` leaves a valid attribute -/
theorem finishAttribute_valid (opts : DecOpts) (numPoints dim : Nat) (ka : KdAtt) (t : KdTransform)
    (rows : List (List Nat)) (hka : KdAttOK dim ka) (ht : TransOK ka t)
    (hrows : rows.length = numPoints) (hrow : ∀ r ∈ rows, r.length = ka.desc.numComponents) :
    (finishAttribute opts numPoints ka t rows).valid numPoints = true := by
  have hnc := hka.nc
  cases t with
  | none =>
    simp only [TransOK] at ht
    obtain ⟨hs1, hs2⟩ := hka.size (by omega)
    have hlen : (rows.flatMap fun r => r.flatMap (writeLE ka.dataSize)).length =
        numPoints * (ka.desc.numComponents * ka.dataSize) := by
      rw [flatMap_length_const _ (ka.desc.numComponents * ka.dataSize) rows, hrows]
      intro r hr
      rw [flatMap_length_const _ ka.dataSize r (fun x _ => wle_length _ _), hrow r hr]
    simp only [finishAttribute, AttDesc.toAttribute, Attribute.valid, Attribute.stride, hlen, ← hs1]
    simp only [Bool.and_eq_true, decide_eq_true_eq, ge_iff_le]
    exact ⟨⟨⟨hnc, hs2⟩, by rw [Nat.mul_comm ka.dataSize]⟩, Nat.le_refl _⟩
  | signed mins =>
    simp only [TransOK] at ht
    obtain ⟨hs1, hs2⟩ := hka.size (by omega)
    have hlen : (rows.flatMap fun r => (mapRow (fun (m : Int) v => (v + toUnsigned 32 m) % 2^32) mins r).flatMap
        (writeLE ka.dataSize)).length = numPoints * (ka.desc.numComponents * ka.dataSize) := by
      rw [flatMap_length_const _ (ka.desc.numComponents * ka.dataSize) rows, hrows]
      intro r hr
      rw [flatMap_length_const _ ka.dataSize _ (fun x _ => wle_length _ _),
        mapRow_length _ _ _ (by rw [ht.2, hrow r hr]), hrow r hr]
    simp only [finishAttribute, AttDesc.toAttribute, Attribute.valid, Attribute.stride, hlen, ← hs1]
    simp only [Bool.and_eq_true, decide_eq_true_eq, ge_iff_le]
    exact ⟨⟨⟨hnc, hs2⟩, by rw [Nat.mul_comm ka.dataSize]⟩, Nat.le_refl _⟩
  | quant bits mins range =>
    simp only [TransOK] at ht
    obtain ⟨hf1, hf2⟩ := hka.float ht.1
    simp only [finishAttribute]
    split
    · have hlen : (rows.flatMap fun r => r.flatMap (writeLE 4)).length =
          numPoints * (ka.desc.numComponents * 4) := by
        rw [flatMap_length_const _ (ka.desc.numComponents * 4) rows, hrows]
        intro r hr
        rw [flatMap_length_const _ 4 r (fun x _ => wle_length _ _), hrow r hr]
      simp only [Attribute.valid, Attribute.stride, hlen]
      have : dataTypeLength Generated.DT_UINT32.toNat = 4 := by decide
      simp only [this, Bool.and_eq_true, decide_eq_true_eq, ge_iff_le]
      exact ⟨⟨⟨hnc, by decide⟩, by rw [Nat.mul_comm 4]⟩, Nat.le_refl _⟩
    · have hlen : (rows.flatMap fun r => (mapRow (fun m v => Leaf.dequant range bits m (toSigned 32 v)) mins r).flatMap
          (writeLE 4)).length = numPoints * (ka.desc.numComponents * 4) := by
        rw [flatMap_length_const _ (ka.desc.numComponents * 4) rows, hrows]
        intro r hr
        rw [flatMap_length_const _ 4 _ (fun x _ => wle_length _ _),
          mapRow_length _ _ _ (by rw [ht.2, hrow r hr]), hrow r hr]
      simp only [AttDesc.toAttribute, Attribute.valid, Attribute.stride, hlen, hf1]
      have : dataTypeLength 9 = 4 := by decide
      simp only [this, Bool.and_eq_true, decide_eq_true_eq, ge_iff_le]
      exact ⟨⟨⟨hnc, by decide⟩, by rw [Nat.mul_comm 4]⟩, Nat.le_refl _⟩

theorem attRow_length (dim : Nat) (ka : KdAtt) (hka : KdAttOK dim ka) (p : List Nat) (hp : p.length = dim) :
    (attRow ka p).length = ka.desc.numComponents := by
  have := hka.fits
  simp only [attRow, List.length_map, List.length_take, List.length_drop]
  omega

theorem zip3With_valid (opts : DecOpts) (numPoints dim : Nat) (pts : List (List Nat))
    (hpl : pts.length = numPoints) (hp : ∀ p ∈ pts, p.length = dim) :
    ∀ (kas : List KdAtt) (ts : List KdTransform), List.Forall₂ TransOK kas ts →
    (∀ ka ∈ kas, KdAttOK dim ka) →
    ∀ a ∈ zip3With (finishAttribute opts numPoints) kas ts (kas.map fun ka => pts.map (attRow ka)),
      a.valid numPoints = true := by
  intro kas ts hrel
  induction hrel with
  | nil => intro _ a ha; simp [zip3With] at ha
  | @cons ka t kas ts h1 _ ih =>
    intro hok a ha
    simp only [List.map_cons, zip3With, List.mem_cons] at ha
    rcases ha with ha | ha
    · rw [ha]
      have hka := hok ka (by simp)
      apply finishAttribute_valid opts numPoints dim ka t _ hka h1 (by simp [hpl])
      intro r hr
      simp only [List.mem_map] at hr
      obtain ⟨p, hpm, rfl⟩ := hr
      exact attRow_length dim ka hka p (hp p hpm)
    · exact ih (fun x hx => hok x (by simp [hx])) a ha

theorem decodeKdAttributes_valid (opts : DecOpts) (numPoints : Nat) (descs : List AttDesc) (s s' : DSt)
    (atts : List Attribute) (hnc : ∀ d ∈ descs, 1 ≤ d.numComponents)
    (h : decodeKdAttributes opts numPoints descs s = (some atts, s')) :
    ∀ a ∈ atts, a.valid numPoints = true := by
  unfold decodeKdAttributes at h
  obtain ⟨level, s1, _, h⟩ := bind_some h
  obtain ⟨_, s2, _, h⟩ := bind_some h
  obtain ⟨cl, s3, hcl, h⟩ := bind_some h
  simp only at h
  obtain ⟨_, s4, _, h⟩ := bind_some h
  obtain ⟨_, s5, _, h⟩ := bind_some h
  obtain ⟨_, s6, _, h⟩ := bind_some h
  obtain ⟨_, s7, _, h⟩ := bind_some h
  obtain ⟨_, s8, _, h⟩ := bind_some h
  obtain ⟨_, s9, _, h⟩ := bind_some h
  obtain ⟨dp, s10, hdp, h⟩ := bind_some h
  obtain ⟨_, s11, hreq, h⟩ := bind_some h
  obtain ⟨ts1, s12, hq, h⟩ := bind_some h
  obtain ⟨ts2, s13, hsm, h⟩ := bind_some h
  simp only [pure, ret, Prod.mk.injEq, Option.some.injEq] at h
  obtain ⟨_, hkas⟩ := classify_ok numPoints descs 0 s2 s3 cl hnc hcl
  obtain ⟨dp1, dp2⟩ := dp
  obtain ⟨hp1, hp2⟩ := decodePoints_out level cl.2 numPoints s9 s10 dp1 dp2 hdp
  have hn : dp1 = numPoints := by
    have := (require_some hreq).1
    simpa using this
  have hrel := decodeSignedMins_ok cl.1 ts1 s12 s13 ts2 (fun ka hka => (hkas ka hka).kind)
    (decodeQuantParams_ok cl.1 s11 s12 ts1 hq) hsm
  rw [← h.1]
  exact zip3With_valid opts numPoints cl.2 dp2 (by omega) hp2 cl.1 ts2 hrel hkas

/-! ### bitstreams older than 2.3 (DracoModel/KdTreeLegacy.lean) -/

section legacy
open Draco.Robust

theorem classifyLegacy_ok : ∀ (descs : List AttDesc) (dim : Nat) (r : List KdAtt × Nat),
    (∀ d ∈ descs, DescOk d) → classifyLegacy descs dim = some r →
    dim ≤ r.2 ∧ ∀ ka ∈ r.1, KdAttOK r.2 ka ∧ ka.kind = 0 ∧ ka.dataSize ≤ 4 := by
  intro descs
  induction descs with
  | nil =>
    intro dim r _ h
    simp only [classifyLegacy, Option.some.injEq] at h
    rw [← h]; simp
  | cons d ds ih =>
    intro dim r hd h
    obtain ⟨hnc, hdt1, hdt2⟩ := hd d (by simp)
    simp only [classifyLegacy] at h
    split at h
    · cases h
    · rename_i hle
      cases hr : classifyLegacy ds (dim + d.numComponents) with
      | none => rw [hr] at h; cases h
      | some r2 =>
        rw [hr] at h
        simp only [Option.some.injEq] at h
        obtain ⟨i1, i2⟩ := ih (dim + d.numComponents) r2 (fun x hx => hd x (by simp [hx])) hr
        rw [← h]
        refine ⟨by simp only; omega, ?_⟩
        intro ka hka
        simp only [List.mem_cons] at hka
        rcases hka with rfl | hka
        · exact ⟨⟨hnc, Or.inl rfl, fun _ => ⟨rfl, dataTypeLength_pos _ hdt1 hdt2⟩, by simp, by simp only; omega⟩,
            rfl, by simp only; omega⟩
        · exact i2 ka hka

theorem post_decodePointsL (legacy : Bool) (level dim maxPoints : Nat) :
    Post (decodePointsL legacy level dim maxPoints)
      (fun dp => dp.2.length = dp.1 ∧ ∀ p ∈ dp.2, p.length = dim) := by
  intro s dp s' h
  obtain ⟨n, pts⟩ := dp
  exact decodePointsL_out legacy level dim maxPoints s s' n pts h

theorem legacyRowBytes_length (dim : Nat) (ka : KdAtt) (hka : KdAttOK dim ka) (p : List Nat)
    (hp : p.length = dim) : (legacyRowBytes ka p).length = ka.desc.numComponents * ka.dataSize := by
  unfold legacyRowBytes
  rw [flatMap_length_const _ ka.dataSize _ (fun x _ => wle_length _ _), attRow_length dim ka hka p hp]

theorem legacy_attribute_valid (np : Nat) (ka : KdAtt) (dim : Nat) (hka : KdAttOK dim ka) (hk : ka.kind = 0)
    (rows : List Bytes) (hl : rows.length = np)
    (hr : ∀ r ∈ rows, r.length = ka.desc.numComponents * ka.dataSize) :
    (ka.desc.toAttribute np rows.flatten).valid np = true := by
  obtain ⟨hs1, hs2⟩ := hka.size (by omega)
  have hlen : rows.flatten.length = np * (ka.desc.numComponents * ka.dataSize) := by
    have := flatMap_length_const (fun (r : Bytes) => r) _ rows hr
    rw [List.flatMap_id'] at this
    rw [this, hl]
  simp only [Attribute.valid, AttDesc.toAttribute, Attribute.stride, Bool.and_eq_true, decide_eq_true_eq,
    ge_iff_le]
  refine ⟨⟨⟨hka.nc, by rw [← hs1]; exact hs2⟩, ?_⟩, Nat.le_refl _⟩
  rw [hlen, ← hs1, Nat.mul_comm ka.dataSize]

theorem post_decodeLegacyInt (legacy : Bool) (numPoints : Nat) (kas : List KdAtt) (dim : Nat)
    (hkas : ∀ ka ∈ kas, KdAttOK dim ka ∧ ka.kind = 0 ∧ ka.dataSize ≤ 4) :
    Post (decodeLegacyInt legacy numPoints kas dim) (fun atts => ∀ a ∈ atts, a.valid numPoints = true) := by
  unfold decodeLegacyInt
  apply post_bind_any; intro level
  apply post_bind_require; intro _
  apply post_bind_any; intro np
  apply post_bind_require; intro hnp
  have hnp : np = numPoints := by simpa using hnp
  subst hnp
  apply post_bind_any; intro _
  apply post_bind_any; intro _
  apply post_bind_any; intro _
  refine post_bind (post_decodePointsL legacy level dim np) ?_
  intro dp ⟨hp1, hp2⟩
  apply post_bind_require; intro hreq
  have hreq : dp.1 = np := by simpa using hreq
  apply post_pure
  intro a ha
  simp only [List.mem_map] at ha
  obtain ⟨ka, hka, rfl⟩ := ha
  obtain ⟨hok, hk, _⟩ := hkas ka hka
  have := legacy_attribute_valid np ka dim hok hk (dp.2.map (legacyRowBytes ka)) (by simp [hp1, hreq])
    (by
      intro r hr
      simp only [List.mem_map] at hr
      obtain ⟨p, hp, rfl⟩ := hr
      exact legacyRowBytes_length dim ka hok p (hp2 p hp))
  rwa [← List.flatMap_def] at this

theorem floatPointBytes_length (r b : Nat) (p : List Nat) : (floatPointBytes r b p).length = 12 := by
  simp [floatPointBytes, wle_length]

theorem post_floatTreeInternal (legacy : Bool) (np : Nat) :
    Post (floatTreeInternal legacy np) (fun r => r.2.2.length = np) := by
  unfold floatTreeInternal
  apply post_bind_any; intro _
  apply post_bind_require; intro _
  apply post_bind_any; intro _
  apply post_bind_any; intro np2
  apply post_bind_require; intro h1
  have h1 : np2 = np := by simpa using h1
  apply post_bind_any; intro _
  apply post_bind_require; intro _
  apply post_bind_any; intro pts
  apply post_bind_require; intro h2
  have h2 : pts.length = np2 := by simpa using h2
  apply post_pure
  simp only
  omega

theorem post_decodeLegacyFloat (legacy : Bool) (numPoints : Nat) (ka : KdAtt) (dim : Nat)
    (hka : KdAttOK dim ka) (hk : ka.kind = 0) (h4 : ka.dataSize ≤ 4) (h3 : ka.desc.numComponents = 3) :
    Post (decodeLegacyFloat legacy numPoints ka) (fun a => a.valid numPoints = true) := by
  unfold decodeLegacyFloat
  apply post_bind_any; intro _
  apply post_bind_any; intro np
  apply post_bind_require; intro hnp
  have hnp : np = numPoints := by simpa using hnp
  subst hnp
  apply post_bind_any; intro _
  apply post_bind_any; intro _
  apply post_bind_any; intro _
  refine post_bind (post_floatTreeInternal legacy np) ?_
  intro r hr
  apply post_pure
  have := legacy_attribute_valid np ka dim hka hk
    (r.2.2.map fun p => (floatPointBytes r.2.1 r.1 p).take (ka.dataSize * ka.desc.numComponents))
    (by simp [hr])
    (by
      intro x hx
      simp only [List.mem_map] at hx
      obtain ⟨p, _, rfl⟩ := hx
      rw [List.length_take, floatPointBytes_length, h3]
      omega)
  rwa [← List.flatMap_def] at this

theorem post_decodeKdAttributesLegacy (numPoints : Nat) (descs : List AttDesc) (hd : ∀ d ∈ descs, DescOk d) :
    Post (decodeKdAttributesLegacy numPoints descs) (fun atts => ∀ a ∈ atts, a.valid numPoints = true) := by
  unfold decodeKdAttributesLegacy
  apply post_bind_any; intro _
  cases hcl : classifyLegacy descs 0 with
  | none => exact post_fail
  | some cl =>
    obtain ⟨_, hkas⟩ := classifyLegacy_ok descs 0 cl hd hcl
    simp only
    apply post_bind_any; intro ver
    apply post_bind_any; intro method
    unfold decodeLegacyMethod
    apply post_ite
    · intro _
      rcases hk1 : cl.1 with _ | ⟨ka, _ | ⟨kb, rest⟩⟩
      · exact post_fail
      · obtain ⟨hok, hk, h4⟩ := hkas ka (by rw [hk1]; simp)
        simp only
        apply post_ite
        · intro h3
          refine post_bind (post_decodeLegacyFloat _ numPoints ka cl.2 hok hk h4 h3) ?_
          intro a ha
          apply post_pure
          intro x hx
          simp only [List.mem_singleton] at hx
          rw [hx]; exact ha
        · intro _; exact post_fail
      · exact post_fail
    · intro _
      apply post_ite
      · intro _; exact post_decodeLegacyInt _ numPoints cl.1 cl.2 hkas
      · intro _; exact post_fail

/-- **C03 for the legacy kd-tree decoder model** (bitstreams 1.0 … 2.2, integer and float
    method): a geometry returned with success is valid -/
theorem decodeKdGeometryLegacy_valid (s s' : DSt) (g : Geometry)
    (h : decodeKdGeometryLegacy s = (some g, s')) : g.valid = true := by
  have hpost : Post decodeKdGeometryLegacy (fun g => g.valid = true) := by
    unfold decodeKdGeometryLegacy
    apply post_bind_any; intro np
    apply post_bind_require; intro _
    apply post_bind_any; intro _
    refine post_bind (P := fun atts => ∀ a ∈ atts, a.valid np.toNat = true) ?_ ?_
    · unfold decodePointAttributesKdLegacy
      apply post_bind_any; intro nd
      refine post_bind (post_replicateM' _ _ decodeAttDescs_post nd) ?_
      intro descss hds
      refine post_bind (post_mapM' (decodeKdAttributesLegacy np.toNat) (fun ds => ∀ d ∈ ds, DescOk d) _
        (fun ds hd => post_decodeKdAttributesLegacy np.toNat ds hd) descss hds.2) ?_
      intro attss hatt
      apply post_pure
      intro a ha
      simp only [List.mem_flatten] at ha
      obtain ⟨l, hl, hal⟩ := ha
      exact hatt.2 l hl a hal
    · intro atts hatts
      apply post_pure
      simp only [Geometry.valid, List.all_nil, Bool.true_and, List.all_eq_true]
      exact hatts
  exact hpost s g s' h

end legacy

/-- **C03 for the kd-tree decoder model**: a geometry returned with success is valid -/
theorem decodeKdGeometry_valid (opts : DecOpts) (s s' : DSt) (g : Geometry)
    (h : decodeKdGeometry opts s = (some g, s')) : g.valid = true := by
  unfold decodeKdGeometry at h
  obtain ⟨ver, s1, _, h⟩ := bind_some h
  split at h
  · exact decodeKdGeometryLegacy_valid s1 s' g h
  obtain ⟨np, s2, _, h⟩ := bind_some h
  obtain ⟨_, s3, _, h⟩ := bind_some h
  simp only at h
  obtain ⟨_, s4, _, h⟩ := bind_some h
  obtain ⟨atts, s5, hatts, h⟩ := bind_some h
  simp only [pure, ret, Prod.mk.injEq, Option.some.injEq] at h
  rw [← h.1]
  simp only [Geometry.valid, List.all_nil, Bool.true_and, List.all_eq_true]
  -- DecodePointAttributes
  unfold decodePointAttributesKd at hatts
  obtain ⟨nd, t1, _, hatts⟩ := bind_some hatts
  obtain ⟨descss, t2, hds, hatts⟩ := bind_some hatts
  obtain ⟨attss, t3, hmap, hatts⟩ := bind_some hatts
  simp only [pure, ret, Prod.mk.injEq, Option.some.injEq] at hatts
  rw [← hatts.1]
  have hd := (replicateM'_spec decodeAttDescs (fun ds => ∀ d ∈ ds, 1 ≤ d.numComponents)
    (fun s b s' hb => decodeAttDescs_nc s s' b hb) nd t1 descss t2 hds).2
  have hrel := mapM'_spec (decodeKdAttributes opts np.toNat)
    (fun descs atts => (∀ d ∈ descs, 1 ≤ d.numComponents) → ∀ a ∈ atts, a.valid np.toNat = true)
    (fun descs s atts s' hda hnc => decodeKdAttributes_valid opts np.toNat descs s s' atts hnc hda)
    descss t2 attss t3 hmap
  intro a ha
  simp only [List.mem_flatten] at ha
  obtain ⟨l, hl, hal⟩ := ha
  obtain ⟨ds, hds', hR⟩ := forall2_mem_right hrel l hl
  exact hR (hd ds hds') a hal

end Draco.Kd
