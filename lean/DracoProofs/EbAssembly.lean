import DracoProofs.EbEncStages
import DracoProofs.EbAttSection
import DracoProofs.EbSpecCheck
import DracoProofs.EbCtrlInv
/-
  Assembly of the stream-level statement: the attribute section the ENCODER model writes is the byte layout
  `AttPlan.bytes` of the plan made of the encoder's items and the decoder's sequences / point maps; hence
  (`runs_decodeAttributes`, `runs_decodeGeometry_eb`) the complete decoder on the encoder's stream returns the
  geometry described by the plan, given the connectivity link and `PlanOK`.
-/
namespace Draco.EbEnc
open Draco Draco.SeqEnc DecM
open Draco.Eb hiding iabs nextC prevC

/-- the attribute decoder the stream announces for a controller -/
def decOfController (conn : ConnEnc) (c : Controller) : AttDecoder :=
  { attDataId := c.attDataId,
    cornerDecoder := !(decide (c.attDataId < 0) || (conn.atts[c.attDataId.toNat]!).conn.noInteriorSeams),
    traversalMethod := c.traversalMethod }

/-- the transform the stream declares for an item -/
def transformOfItem (o : EbOpts) (a : Attribute) (it : EncItem) : TransformData :=
  if it.kind == 2 then
    match quantizationParams a (o.base.att it.attId) with
    | some (mins, range, q) => .quantization (q % 256 : Nat) mins range
    | none => .none
  else if it.kind == 3 then .octahedron ((o.base.att it.attId).quantBits.toNat % 256 : Nat)
  else .none

def itemOf (o : EbOpts) (atts : Array Attribute) (it : EncItem) : AttItem :=
  { desc := descOf (atts[it.attId]!), decoderType := it.kind, valueBytes := it.valueBytes, portable := it.portable,
    paramBytes := it.trBytes, transform := transformOfItem o (atts[it.attId]!) it }

/-- one decoder of the plan: the encoder's items with the decoder's sequence and point map -/
def decoderItemOf (o : EbOpts) (atts : Array Attribute) (conn : ConnEnc) (cs : Array Controller) (c : CtrlOut)
    (side : SeqOut × Array Nat) : DecoderItem :=
  { dec := decOfController conn (cs[c.ctrl]!), seq := side.1, map := side.2, items := c.items.toList.map (itemOf o atts) }

def planOf (o : EbOpts) (atts : Array Attribute) (conn : ConnEnc) (cs : Array Controller) (couts : List CtrlOut)
    (sides : List (SeqOut × Array Nat)) : AttPlan :=
  List.zipWith (decoderItemOf o atts conn cs) couts sides

theorem zipWith_flatMap {α β γ δ : Type} (f : α → β → γ) (g : γ → List δ) (g' : α → List δ)
    (h : ∀ a b, g (f a b) = g' a) : ∀ (as : List α) (bs : List β), as.length = bs.length →
    (List.zipWith f as bs).flatMap g = as.flatMap g' := by
  intro as
  induction as with
  | nil => intro bs _; cases bs <;> rfl
  | cons a as ih =>
    intro bs hl
    cases bs with
    | nil => simp at hl
    | cons b bs =>
      simp only [List.zipWith_cons_cons, List.flatMap_cons, h, ih bs (by simpa using hl)]

theorem chain_ctrl {ch : EbChoices} {o : EbOpts} {g : Geometry} {conn : ConnEnc} {cs : Array Controller} {anp : Bool}
    {posId : Option Nat} : ∀ {es : List Nat} {p : Option ParentAtt} {couts : List CtrlOut},
    CtrlChain ch o g conn cs anp posId es p couts → couts.map (·.ctrl) = es := by
  intro es p couts h
  induction h with
  | nil => rfl
  | cons e es p c cs' hc _ ih =>
    obtain ⟨_, _, _, _, _, _, _, hctrl⟩ := encodeController_spec ch o g conn cs anp posId e p c hc
    simp [hctrl, ih]

/-- the per-controller facts the byte layout needs (what `encodeController` and `generateControllers` guarantee) -/
structure CtrlShape (atts : Array Attribute) (cs : Array Controller) (c : CtrlOut) : Prop where
  attIds : (cs[c.ctrl]!).attIds.toList = c.items.toList.map (·.attId)
  kinds : (cs[c.ctrl]!).encs.toList.map (·.kind) = c.items.toList.map (·.kind)

theorem idBytes_eq (o : EbOpts) (atts : Array Attribute) (conn : ConnEnc) (cs : Array Controller) (c : CtrlOut)
    (side : SeqOut × Array Nat) :
    (decoderItemOf o atts conn cs c side).idBytes = ctrlIdBytes conn (cs[c.ctrl]!) := by
  unfold DecoderItem.idBytes decoderItemOf decOfController ctrlIdBytes
  simp only []
  cases hb : (decide ((cs[c.ctrl]!).attDataId < 0) || (conn.atts[(cs[c.ctrl]!).attDataId.toNat]!).conn.noInteriorSeams) <;>
    simp [Generated.MESH_VERTEX_ATTRIBUTE, Generated.MESH_CORNER_ATTRIBUTE]

theorem headBytes_eq (o : EbOpts) (atts : Array Attribute) (conn : ConnEnc) (cs : Array Controller) (c : CtrlOut)
    (side : SeqOut × Array Nat) (h : CtrlShape atts cs c) :
    (decoderItemOf o atts conn cs c side).headBytes = ctrlDataBytes atts (cs[c.ctrl]!) := by
  unfold DecoderItem.headBytes decoderItemOf ctrlDataBytes
  simp only [List.length_map, List.flatMap_map, List.map_map]
  have hlen : c.items.toList.length = (cs[c.ctrl]!).attIds.size := by
    have := congrArg List.length h.attIds
    simpa using this.symm
  rw [hlen, h.attIds, h.kinds, List.flatMap_map]
  rfl

theorem dataBytes_eq (o : EbOpts) (atts : Array Attribute) (conn : ConnEnc) (cs : Array Controller) (c : CtrlOut)
    (side : SeqOut × Array Nat) : (decoderItemOf o atts conn cs c side).dataBytes = c.bytes := by
  unfold DecoderItem.dataBytes decoderItemOf CtrlOut.bytes
  simp only [List.flatMap_map]
  rfl

/-- **the attribute section of the encoder's stream is the byte layout of the plan** -/
theorem planOf_bytes (o : EbOpts) (atts : Array Attribute) (conn : ConnEnc) (cs : Array Controller) (order : Array Nat)
    (couts : List CtrlOut) (sides : List (SeqOut × Array Nat)) (hsides : couts.length = sides.length)
    (hctrl : couts.map (·.ctrl) = order.toList) (hsize : order.size = cs.size) (h255 : cs.size ≤ 255)
    (hshape : ∀ c ∈ couts, CtrlShape atts cs c) :
    (planOf o atts conn cs couts sides).bytes = attHeaderBytes atts conn cs order ++ couts.flatMap (·.bytes) := by
  unfold AttPlan.bytes planOf attHeaderBytes
  have hlen : (List.zipWith (decoderItemOf o atts conn cs) couts sides).length = cs.size := by
    rw [List.length_zipWith, ← hsides, Nat.min_self, ← hsize]
    have := congrArg List.length hctrl
    simpa using this
  rw [hlen, Nat.mod_eq_of_lt (by omega)]
  rw [zipWith_flatMap _ DecoderItem.idBytes (fun c => ctrlIdBytes conn (cs[c.ctrl]!)) (idBytes_eq o atts conn cs) _ _ hsides,
    zipWith_flatMap _ DecoderItem.dataBytes (·.bytes) (dataBytes_eq o atts conn cs) _ _ hsides]
  have hhead : (List.zipWith (decoderItemOf o atts conn cs) couts sides).flatMap DecoderItem.headBytes =
      couts.flatMap (fun c => ctrlDataBytes atts (cs[c.ctrl]!)) := by
    clear hlen hctrl
    induction couts generalizing sides with
    | nil => cases sides <;> rfl
    | cons c couts ih =>
      cases sides with
      | nil => simp at hsides
      | cons sd sides =>
        simp only [List.zipWith_cons_cons, List.flatMap_cons]
        rw [headBytes_eq o atts conn cs c sd (hshape c (List.mem_cons_self)),
          ih sides (by simpa using hsides) (fun c hc => hshape c (List.mem_cons_of_mem _ hc))]
  rw [hhead, ← hctrl]
  simp only [List.flatMap_map, List.cons_append, List.nil_append, List.append_assoc]

theorem encodeItem_ids (ch : EbChoices) (o : EbOpts) (g : Geometry) (e : Nat) (mdata : MeshData) (pids : Array Nat)
    (parent : Option ParentAtt) (s : SeqEncSt) (pt : Array Int × Bytes) (it : EncItem)
    (h : encodeItem ch o g e mdata pids parent s pt = .ok it) : it.attId = s.attId ∧ it.kind = s.kind := by
  unfold encodeItem at h
  simp only [] at h
  split at h
  · rename_i hk
    rw [bind_ok_iff] at h
    obtain ⟨rows, _, h⟩ := h
    simp only [pure, Except.pure, Except.ok.injEq] at h
    subst h
    exact ⟨rfl, by have : s.kind = 0 := by simpa using hk
                   exact this.symm⟩
  · rw [bind_ok_iff] at h
    obtain ⟨⟨sch, vb⟩, _, h⟩ := h
    simp only [pure, Except.pure, Except.ok.injEq] at h
    subst h
    exact ⟨rfl, rfl⟩

/-- the shape facts from the encoder run, given the relation between `attIds` and `encs` of a controller
    (`generateControllers`) -/
theorem ctrlShape_of_run (ch : EbChoices) (o : EbOpts) (g : Geometry) (conn : ConnEnc) (cs : Array Controller) (anp : Bool)
    (posId : Option Nat) (e : Nat) (p : Option ParentAtt) (c : CtrlOut)
    (hg1 : (cs[e]!).encs.toList.map (·.attId) = (cs[e]!).attIds.toList)
    (h : encodeController ch o g conn cs anp posId e p = .ok c) : CtrlShape g.atts.toArray cs c := by
  obtain ⟨pts, items, _, _, hpts, hitems, hci, hctrl⟩ := encodeController_spec ch o g conn cs anp posId e p c h
  have hl := portablePass_length o g anp posId c.seq.pointIds _ p pts c.parent hpts
  obtain ⟨i1, i2⟩ := encodePass_spec ch o g e _ c.seq.pointIds c.parent _ pts items hl hitems
  have hitemsL : c.items.toList = items := by rw [hci]
  have key : items.map (·.attId) = (cs[e]!).encs.toList.map (·.attId) ∧
      items.map (·.kind) = (cs[e]!).encs.toList.map (·.kind) := by
    constructor <;>
    · apply List.ext_getElem
      · simp [i1]
      · intro k h1 h2
        simp only [List.getElem_map]
        have hk : k < (cs[e]!).encs.toList.length := by simpa using h2
        have := encodeItem_ids ch o g e _ c.seq.pointIds c.parent _ _ _
          (i2 k hk (by rw [hl]; exact hk) (by rw [i1]; exact hk))
        first | exact this.1 | exact this.2
  exact ⟨by rw [hctrl, hitemsL, key.1, hg1], by rw [hctrl, hitemsL, key.2]⟩

theorem chain_shape {ch : EbChoices} {o : EbOpts} {g : Geometry} {conn : ConnEnc} {cs : Array Controller} {anp : Bool}
    {posId : Option Nat} (hg1 : ∀ e : Nat, (cs[e]!).encs.toList.map (·.attId) = (cs[e]!).attIds.toList) :
    ∀ {es : List Nat} {p : Option ParentAtt} {couts : List CtrlOut},
    CtrlChain ch o g conn cs anp posId es p couts → ∀ c ∈ couts, CtrlShape g.atts.toArray cs c := by
  intro es p couts h
  induction h with
  | nil => intro c hc; cases hc
  | cons e es p c cs' hc _ ih =>
    intro c' hc'
    rcases List.mem_cons.mp hc' with rfl | hm
    · exact ctrlShape_of_run ch o g conn cs anp posId e p _ (hg1 e) hc
    · exact ih c' hm

theorem hg1_of_generate {o : EbOpts} {atts : Array Attribute} {np : Nat} {conn : ConnEnc} {cs : Array Controller}
    (h : generateControllers o atts np conn = .ok cs) :
    ∀ e : Nat, (cs[e]!).encs.toList.map (·.attId) = (cs[e]!).attIds.toList := by
  intro e
  by_cases he : e < cs.size
  · have hm : cs[e]! ∈ cs := by
      rw [getElem!_pos cs e he]; exact Array.getElem_mem he
    rw [generateControllers_encs_eq h _ hm]
    have : ((fun x : SeqEncSt => x.attId) ∘ mkSeqEnc o atts np) = id := by funext a; rfl
    simp [this]
  · have : cs[e]! = default := by
      rw [getElem!_neg cs e he]
    rw [this]
    rfl

/-- **the complete decoder on the encoder's stream**: given the connectivity link (`hconn`: the decoder's
    connectivity stage reads the encoder's connectivity bytes and builds `mesh`) and `PlanOK` for the plan made of the
    encoder's items and the decoder's sequences / point maps, `decodeGeometry` consumes exactly the stream and returns
    the geometry the plan describes, with the metadata -/
theorem eb_stream_decodes (ch : EbChoices) (g : Geometry) (md : Option GeometryMetadata) (o : EbOpts) (enc : Encoded)
    (henc : encodeEdgebreaker ch g md o = .ok enc) (hmd : ∀ m, md = some m → m.WF')
    (opts : DecOpts) (mesh : Mesh) (sides : List (SeqOut × Array Nat)) (hsides : enc.couts.size = sides.length)
    (hconn : ∀ coder, traversalCoder o g.faces.length = some coder →
      Runs decodeConnectivity 514 ([coder] ++ enc.conn.bytes) mesh 514)
    (hok : PlanOK opts mesh (planOf o g.atts.toArray enc.conn enc.controllers enc.couts.toList sides)) :
    Runs (decodeGeometry opts) 0 enc.bytes
      ⟨{ isMesh := true, numPoints := mesh.numPoints, faces := facesOf mesh,
         atts := (planOf o g.atts.toArray enc.conn enc.controllers enc.couts.toList sides).attributes opts }, md⟩ 514 := by
  obtain ⟨mdBytes, coder, posFaces, acv, cs, couts, h1, h2, h3, h4, h5, h6, h7, h8, h9, h10, h11, h12, h13, h14⟩ :=
    (encodeEdgebreaker_stages ch g md o enc henc).stages
  have hchain := encodeControllers_chain ch o g enc.conn cs _ _ _ _ _ h8
  have hg1 := hg1_of_generate h5
  have hsize := (rearrangeEncoders_order h7).1
  rw [h9] at hok
  rw [h10] at hsides hok
  simp only [] at hok
  have hshape := chain_shape (g := g) hg1 hchain
  have hbytes := planOf_bytes o g.atts.toArray enc.conn cs enc.order couts sides (by simpa using hsides)
    (chain_ctrl hchain) hsize h6 hshape
  rw [h11, ← hbytes]
  rw [h9, h10]
  simp only []
  exact runs_decodeGeometry_eb opts md mdBytes _ _ mesh _ hmd h1 (hconn coder h2) (runs_decodeAttributes opts mesh _ hok)

/-- the geometry the decoder returns for the plan under the decoder options `opts` -/
def planGeometry (opts : DecOpts) (mesh : Mesh) (plan : AttPlan) : Geometry :=
  { isMesh := true, numPoints := mesh.numPoints, faces := facesOf mesh, atts := plan.attributes opts }

/-- **eb_roundtrip_conditional** (stream level).  For a successful run of the Edgebreaker encoder model, IF
    * `hconn` — the CONNECTIVITY LINK: the decoder's connectivity stage reads the encoder's connectivity bytes and builds
      `mesh` (evaluated per case: `iso-ok` says this `mesh` is `ctIso` to the encoder's table),
    * `hok`, `hokS` — `PlanOK` of the plan made of the encoder's items and the decoder's sequences / point maps, for the
      ordinary and the transform-skipped decode (its value-block fields are `eb_value_block_conditional_iso`, its
      parameter fields the sequential transform-parameter lemmas, its sequence / map fields the decoder's own runs),
    * the FACE CORRESPONDENCE `σ` / `hface` / `hcover` — every decoded face is, corner tuple by corner tuple, an input
      face (`EbTuples.row_corr_kind0…3` per attribute + `canonTri_rot`), no two decoded faces come from the same input
      face, and every non-degenerate input face is decoded (`processed` covers them),
    THEN the complete decoder, on the encoder's stream followed by arbitrary bytes, returns the plan's geometry and the
    metadata, consumes exactly the stream — for both option sets — and the executable specification RoundTripOK
    (`Spec.checkCore .edgebreaker`) accepts. -/
theorem eb_roundtrip_conditional (ch : EbChoices) (g : Geometry) (md : Option GeometryMetadata) (o : EbOpts) (enc : Encoded)
    (henc : encodeEdgebreaker ch g md o = .ok enc) (hmd : ∀ m, md = some m → m.WF')
    (mesh : Mesh) (sides : List (SeqOut × Array Nat)) (hsides : enc.couts.size = sides.length)
    (hconn : ∀ coder, traversalCoder o g.faces.length = some coder →
      Runs decodeConnectivity 514 ([coder] ++ enc.conn.bytes) mesh 514)
    (plan : AttPlan) (hplan : plan = planOf o g.atts.toArray enc.conn enc.controllers enc.couts.toList sides)
    (hok : PlanOK {} mesh plan) (hokS : PlanOK { skip := allTypes } mesh plan)
    (req : Spec.QuantReq) (ms : List Spec.Matched)
    (hlen : g.atts.length = (plan.attributes {}).length)
    (huid : (g.atts.map (·.uniqueId)).Nodup)
    (hms : Spec.collect (g.atts.map (Spec.matchOne req (planGeometry {} mesh plan)
      (planGeometry { skip := allTypes } mesh plan))) = some ms)
    (σ : Nat → Nat)
    (hσlt : ∀ i, i < (facesOf mesh).length → σ i < g.faces.length)
    (hσinj : ∀ i j, i < (facesOf mesh).length → j < (facesOf mesh).length → σ i = σ j → i = j)
    (hface : ∀ i (hi : i < (facesOf mesh).length), T_dec ms ((facesOf mesh)[i]) = T_exp ms (g.faces[σ i]'(hσlt i hi)))
    (hcover : ∀ j (hj : j < g.faces.length), nondegFace g (g.faces[j]) = true →
      ∃ i, i < (facesOf mesh).length ∧ σ i = j)
    (extra : Bytes) :
    ∃ st st',
      decodeGeometry {} { rest := enc.bytes ++ extra } = (some ⟨planGeometry {} mesh plan, md⟩, st) ∧ st.rest = extra ∧
      decodeGeometry { skip := allTypes } { rest := enc.bytes ++ extra } =
        (some ⟨planGeometry { skip := allTypes } mesh plan, md⟩, st') ∧ st'.rest = extra ∧
      Spec.checkCore .edgebreaker req g (planGeometry {} mesh plan) (planGeometry { skip := allTypes } mesh plan) = true := by
  subst hplan
  obtain ⟨st, a1, a2, _⟩ := (eb_stream_decodes ch g md o enc henc hmd {} mesh sides hsides hconn hok).run
    { rest := enc.bytes ++ extra } extra rfl rfl
  obtain ⟨st', b1, b2, _⟩ := (eb_stream_decodes ch g md o enc henc hmd { skip := allTypes } mesh sides hsides hconn hokS).run { rest := enc.bytes ++ extra } extra rfl rfl
  refine ⟨st, st', a1, a2, b1, b2, ?_⟩
  exact checkCore_edgebreaker_of_faces req g _ _ ms hlen huid hms σ hσlt hσinj hface hcover

end Draco.EbEnc
