import DracoModel.RansSymbol
import DracoProofs.RansTable
/-
  `RAnsSymbolEncoder::Create`: whatever the floating point oracle answers, a table that is
  returned sums to the precision and gives every occurring symbol a non zero probability.
-/
namespace Draco

/-- `a` is positive wherever `Q` holds -/
def PosOn (Q : Nat → Prop) (a : Array Nat) : Prop := ∀ i, Q i → 1 ≤ a.getD i 0

theorem getD_setIfInBounds (a : Array Nat) (k v i : Nat) :
    (a.setIfInBounds k v).getD i 0 = if i = k ∧ k < a.size then v else a.getD i 0 := by
  simp only [Array.getD_eq_getD_getElem?, Array.getElem?_setIfInBounds]
  by_cases h : k = i
  · subst h
    by_cases h2 : k < a.size
    · simp [h2]
    · simp [h2]
  · have : ¬ (i = k ∧ k < a.size) := by intro ⟨h', _⟩; exact h h'.symm
    simp [h, this]

theorem posOn_set (Q : Nat → Prop) (a : Array Nat) (k v : Nat) (h : PosOn Q a) (hv : 1 ≤ v) :
    PosOn Q (a.setIfInBounds k v) := by
  intro i hi
  rw [getD_setIfInBounds]
  split
  · exact hv
  · exact h i hi

theorem rescaleFix_le (p np : Nat) (err : Int) (hp : 1 < p) :
    1 ≤ ((p : Int) - rescaleFix p np err).toNat := by
  have : rescaleFix p np err ≤ (p : Int) - 1 := by
    simp only [rescaleFix]
    split <;> split <;> split <;> omega
  omega

theorem rescalePass_pos (o : ProbOracle) (prec actTotal : Nat) (Q : Nat → Prop) :
    ∀ (ids : List Nat) (first : Bool) (st st' : RescaleSt), PosOn Q st.probs →
      rescalePass o prec actTotal ids first st = some st' →
      PosOn Q st'.probs ∧ st'.probs.size = st.probs.size := by
  intro ids
  induction ids with
  | nil =>
    intro first st st' hpos h
    simp only [rescalePass, Option.some.injEq] at h
    subst h; exact ⟨hpos, rfl⟩
  | cons s ids ih =>
    intro first st st' hpos h
    simp only [rescalePass] at h
    split at h
    · split at h
      · simp at h
      · simp only [Option.some.injEq] at h; subst h; exact ⟨hpos, rfl⟩
    · rename_i hp
      split at h
      · simp only [Option.some.injEq] at h; subst h
        exact ⟨posOn_set Q _ _ _ hpos (rescaleFix_le _ _ _ (by omega)), by simp⟩
      · have := ih false _ st' (posOn_set Q _ s _ hpos (rescaleFix_le _ _ _ (by omega))) h
        simpa using this

theorem rescaleLoop_pos (o : ProbOracle) (prec : Nat) (ids : List Nat) (Q : Nat → Prop) :
    ∀ (fuel : Nat) (st st' : RescaleSt), PosOn Q st.probs →
      rescaleLoop o prec ids fuel st = some st' →
      PosOn Q st'.probs ∧ st'.probs.size = st.probs.size := by
  intro fuel
  induction fuel with
  | zero =>
    intro st st' hpos h
    simp only [rescaleLoop] at h
    split at h
    · simp at h
    · simp only [Option.some.injEq] at h; subst h; exact ⟨hpos, rfl⟩
  | succ f ih =>
    intro st st' hpos h
    simp only [rescaleLoop] at h
    split at h
    · cases hp : rescalePass o prec st.total.toNat ids true st with
      | none => simp [hp] at h
      | some st1 =>
        simp only [hp] at h
        obtain ⟨p1, s1⟩ := rescalePass_pos o prec _ Q ids true st st1 hpos hp
        obtain ⟨p2, s2⟩ := ih st1 st' p1 h
        exact ⟨p2, by omega⟩
    · simp only [Option.some.injEq] at h; subst h; exact ⟨hpos, rfl⟩

/-! ### max_valid_symbol -/

theorem maxValidSymbolAux_spec : ∀ (fs : List Nat) (i m : Nat),
    (maxValidSymbolAux fs i m = m ∨ i ≤ maxValidSymbolAux fs i m) ∧
    ∀ j, 0 < fs.getD j 0 → i + j ≤ maxValidSymbolAux fs i m := by
  intro fs
  induction fs with
  | nil => intro i m; simp [maxValidSymbolAux]
  | cons f fs ih =>
    intro i m
    obtain ⟨h1, h2⟩ := ih (i + 1) (if f > 0 then i else m)
    simp only [maxValidSymbolAux]
    constructor
    · rcases h1 with h1 | h1
      · rw [h1]; split <;> simp
      · right; omega
    · intro j hj
      cases j with
      | zero =>
        simp only [List.getD_cons_zero] at hj
        rcases h1 with h1 | h1
        · rw [h1]; simp [hj]
        · omega
      | succ j =>
        simp only [List.getD_cons_succ] at hj
        have := h2 j hj; omega

theorem le_maxValidSymbol (fs : List Nat) (j : Nat) (h : 0 < fs.getD j 0) : j ≤ maxValidSymbol fs := by
  have := (maxValidSymbolAux_spec fs 0 0).2 j h
  simpa [maxValidSymbol] using this

/-! ### Create -/

theorem list_getD_toArray (l : List Nat) (i : Nat) : l.toArray.getD i 0 = l.getD i 0 := by
  simp

theorem normaliseProbs_pos (o : ProbOracle) (prec : Nat) (Q : Nat → Prop) (probs0 probs : List Nat)
    (hpos : ∀ i, Q i → 1 ≤ probs0.getD i 0) (h : normaliseProbs o prec probs0 = some probs) :
    (∀ i, Q i → 1 ≤ probs.getD i 0) ∧ probs.length = probs0.length := by
  have hposA : PosOn Q probs0.toArray := fun i hi => by rw [list_getD_toArray]; exact hpos i hi
  simp only [normaliseProbs] at h
  split at h
  · simp only [Option.some.injEq] at h; subst h; exact ⟨hpos, rfl⟩
  · split at h
    · simp only [Option.some.injEq] at h; subst h
      constructor
      · intro i hi
        rw [← array_getD_toList]
        refine posOn_set Q _ _ _ hposA ?_ i hi
        by_cases hq : (sortedIds probs0.toArray).getLastD 0 < probs0.length
        · omega
        · omega
      · simp
    · split at h
      · simp at h
      · rename_i st hl
        simp only [Option.some.injEq] at h; subst h
        obtain ⟨p1, s1⟩ := rescaleLoop_pos o prec _ Q _ _ st hposA hl
        constructor
        · intro i hi; rw [← array_getD_toList]; exact p1 i hi
        · simpa using s1

theorem initialProbs_pos (o : ProbOracle) (prec total : Nat) (fs : List Nat) (i : Nat)
    (h : 0 < fs.getD i 0) : 1 ≤ (initialProbs o prec total fs).getD i 0 := by
  have hi : i < fs.length := getD_pos_lt_length fs i h
  simp only [initialProbs, List.getD_eq_getElem?_getD, List.getElem?_map,
    List.getElem?_eq_getElem hi, Option.map_some, Option.getD_some] at h ⊢
  split <;> omega

theorem getD_take_of_le (fs : List Nat) (n i : Nat) (h : i < n) :
    (fs.take n).getD i 0 = fs.getD i 0 := by
  simp [List.getD_eq_getElem?_getD, h]

/-- `create_sound`: for every oracle, a table returned by `Create` sums to the precision, is
    not longer than the frequency table and is positive on every symbol that occurs. -/
theorem createProbs_sound (o : ProbOracle) (pb : Nat) (freqs probs : List Nat)
    (h : createProbs o pb freqs = some probs) :
    probs.sum = 2 ^ pb ∧ probs.length ≤ freqs.length ∧
      ∀ i, 0 < freqs.getD i 0 → 1 ≤ probs.getD i 0 := by
  simp only [createProbs] at h
  split at h
  · simp at h
  · cases hn : normaliseProbs o (2 ^ pb)
        (initialProbs o (2 ^ pb) (sumNat freqs) (freqs.take (maxValidSymbol freqs + 1))) with
    | none => simp [hn] at h
    | some ps =>
      simp only [hn] at h
      split at h
      · simp at h
      · rename_i hsum
        simp only [Option.some.injEq] at h; subst h
        have hsum' : ps.sum = 2 ^ pb := by
          rw [sumNat_eq_sum] at hsum; simpa using hsum
        obtain ⟨p1, l1⟩ := normaliseProbs_pos o (2 ^ pb) (fun i => 0 < freqs.getD i 0) _ ps
          (fun i hi => by
            apply initialProbs_pos
            rw [getD_take_of_le _ _ _ (by have := le_maxValidSymbol freqs i hi; omega)]
            exact hi) hn
        refine ⟨hsum', ?_, p1⟩
        rw [l1]; simp [initialProbs, List.length_take]

end Draco
