import DracoProofs.KdAlloc
import DracoProofs.SkipEquiv
/-
  Every allocation event of the kd-tree body decoder `Kd.decodeKdGeometry` — accepted or rejected
  streams — is within the linear bound `A + K·(input length + declared)` of C18, EXCEPT the four
  member vectors the constructor of `DynamicIntegerPointsKdTreeDecoder` sizes by the declared total
  dimension `d` (`p_`, `axes_`, `base_stack_`, `levels_stack_`): those are bounded by
  `(32·d+1)·(24+4·d)` with `d ≤ 1275 · input length` — quadratic, the known finding
  `peak:draco::DynamicIntegerPointsKdTreeDecoder::DynamicIntegerPointsKdTreeDecoder`.
-/
namespace Draco.Robust
open Draco Draco.DecM Draco.Kd

/-- bytes of one of the two stacks for total dimension `d`: `32·d+1` vectors (24 bytes each) of `d`
    `uint32_t` -/
def kdStackBytes (d : Nat) : Nat := (32 * d + 1) * (24 + 4 * d)

theorem kdStackBytes_mono {a b : Nat} (h : a ≤ b) : kdStackBytes a ≤ kdStackBytes b := by
  unfold kdStackBytes
  exact Nat.mul_le_mul (by omega) (by omega)

/-- the exceptional events: the dimension-sized members of the tree decoder, for a dimension of at
    most `D` -/
def kdX (D : Nat) (e : String × Nat) : Prop :=
  (e.1 = "kd_tree_decoder.p" ∨ e.1 = "kd_tree_decoder.axes" ∨ e.1 = "kd_tree_decoder.base_stack" ∨
    e.1 = "kd_tree_decoder.levels_stack") ∧ e.2 ≤ kdStackBytes D

variable {bs : Bytes} {X : String × Nat → Prop}

/-! ### readers of the bit decoders -/

theorem readWords32_length : ∀ (n : Nat) (b : Bytes), (readWords32 n b).length = n := by
  intro n
  induction n with
  | zero => intro b; rfl
  | succ n ih => intro b; simp [readWords32, ih]

theorem directStart_spec (x : Bytes) (d : DirectDec) (rest : Bytes) (h : directStart x = some (d, rest)) :
    rest <:+ x ∧ 4 * d.pos.length ≤ x.length := by
  unfold directStart at h
  split at h
  · cases h
  · rename_i size bs1 hr
    have hs := readLE_suf 4 _ _ _ hr
    split at h
    · cases h
    · split at h
      · cases h
      · rename_i h1 h2
        simp only [Option.some.injEq, Prod.mk.injEq] at h
        obtain ⟨rfl, rfl⟩ := h
        refine ⟨(suf_drop size bs1).trans hs, ?_⟩
        simp only [readWords32_length]
        have := hs.length_le
        omega

theorem directStart_suf : SufRd directStart := fun x a rest h => (directStart_spec x a rest h).1

theorem ransBitStart_suf (legacy : Bool) : SufRd (ransBitStart legacy) := by
  intro x a rest h
  unfold ransBitStart at h
  split at h
  · cases h
  · rename_i pz bs1 h1
    have s1 := readU8_suf _ _ _ h1
    split at h
    · cases h
    · rename_i size bs2 h2
      have s2 : bs2 <:+ bs1 := by
        unfold readSize32 at h2
        split at h2
        · exact readLE_suf 4 _ _ _ h2
        · exact decVarint_suf 32 _ _ _ h2
      split at h
      · cases h
      · split at h
        · cases h
        · simp only [Option.some.injEq, Prod.mk.injEq] at h
          rw [← h.2]
          exact ((suf_drop size bs2).trans s2).trans s1

theorem startMany_suf {δ : Type} (start : Rd δ) (hs : SufRd start) : ∀ n, SufRd (startMany start n) := by
  intro n
  induction n with
  | zero => intro x a rest h; simp only [startMany, Option.some.injEq, Prod.mk.injEq] at h; rw [← h.2]; exact List.suffix_refl _
  | succ n ih =>
    intro x a rest h
    simp only [startMany] at h
    split at h
    · cases h
    · rename_i d bs1 h1
      split at h
      · cases h
      · rename_i ds bs2 h2
        simp only [Option.some.injEq, Prod.mk.injEq] at h
        rw [← h.2]
        exact (ih _ _ _ h2).trans (hs _ _ _ h1)

theorem foldedStart_suf {δ : Type} (I : BitDecIface δ) (hs : SufRd I.start) : SufRd (foldedStart I) := by
  intro x a rest h
  unfold foldedStart at h
  split at h
  · cases h
  · rename_i ds bs1 h1
    split at h
    · cases h
    · rename_i d bs2 h2
      simp only [Option.some.injEq, Prod.mk.injEq] at h
      rw [← h.2]
      exact (hs _ _ _ h2).trans (startMany_suf I.start hs 32 _ _ _ h1)

theorem decVarintSigned_suf (w : Nat) : SufRd (decVarintSigned w) := by
  intro x a rest h
  unfold decVarintSigned at h
  split at h
  · cases h
  · rename_i s r hr
    simp only [Option.some.injEq, Prod.mk.injEq] at h
    rw [← h.2]
    exact decVarint_suf w _ _ _ hr

/-! ### the tree decoder -/

theorem trc_startDirect (d : Nat) : TrC bs X d startDirect (fun _ => d) (fun _ => True) := by
  unfold startDirect
  refine trc_bind (trc_lift (F := fun dd : DirectDec => 4 * dd.pos.length ≤ bs.length) directStart_suf
    (fun x a rest hx h => Nat.le_trans (directStart_spec x a rest h).2 hx.length_le)) (fun dd hdd => ?_)
  have hK : allocK = 2048 := rfl
  refine trc_bind (trc_alloc (allocBound_of_le (by rw [hK]; omega))) (fun _ _ => ?_)
  exact trc_pure trivial

theorem trc_startNumbers (legacy : Bool) (level d : Nat) :
    TrC bs X d (startNumbers legacy level) (fun _ => d) (fun _ => True) := by
  unfold startNumbers
  apply trc_ite <;> intro _
  · exact trc_bind (trc_startDirect d) (fun _ _ => trc_pure trivial)
  apply trc_ite <;> intro _
  · exact trc_bind (trc_lift_any (ransBitStart_suf legacy)) (fun _ _ => trc_pure trivial)
  · exact trc_bind (trc_lift_any (foldedStart_suf _ (ransBitStart_suf legacy))) (fun _ _ => trc_pure trivial)

theorem trc_decodePointsL (legacy : Bool) (level dim maxPoints d : Nat) :
    TrC bs X d (decodePointsL legacy level dim maxPoints) (fun _ => d) (fun _ => True) := by
  unfold decodePointsL
  refine trc_bind trc_rdU32 (fun bl _ => ?_)
  refine trc_bind trc_require (fun _ _ => ?_)
  refine trc_bind trc_rdU32 (fun np _ => ?_)
  apply trc_ite <;> intro _
  · exact trc_pure trivial
  refine trc_bind trc_require (fun _ _ => ?_)
  refine trc_bind (trc_startNumbers legacy level d) (fun num _ => ?_)
  refine trc_bind (trc_startDirect d) (fun rem _ => ?_)
  refine trc_bind (trc_startDirect d) (fun axis _ => ?_)
  refine trc_bind (trc_startDirect d) (fun half _ => ?_)
  simp only []
  split
  · exact trc_fail
  · exact trc_pure trivial

theorem trc_decodePoints (level dim maxPoints d : Nat) :
    TrC bs X d (decodePoints level dim maxPoints) (fun _ => d) (fun _ => True) :=
  trc_decodePointsL false level dim maxPoints d

/-! ### the attribute layer -/

theorem trc_decodeAttDescs (hb : IsBytes bs) (d : Nat) :
    TrC bs X d decodeAttDescs (fun _ => d) (fun descs => descs.length ≤ 5 * bs.length ∧ ∀ x ∈ descs, DescB x) := by
  unfold decodeAttDescs
  refine trc_bind trc_version (fun ver _ => ?_)
  extract_lets jp
  have hjp : ∀ n, TrC bs X d (jp n) (fun _ => d) (fun descs => descs.length ≤ 5 * bs.length ∧ ∀ x ∈ descs, DescB x) := by
    intro n
    simp -zeta only [jp]
    refine trc_bind trc_require (fun _ _ => ?_)
    refine trc_bind trc_remaining (fun rem hrem => ?_)
    refine trc_bind trc_require (fun _ hn => ?_)
    have hn : n ≤ 5 * rem := by simpa using hn
    have hK : allocK = 2048 := rfl
    refine trc_bind (trc_alloc (allocBound_of_le (by rw [hK]; omega))) (fun _ _ => ?_)
    refine trc_weaken (trc_replicateM' _ DescB d ?_ n) (fun _ _ => Nat.le_refl _) (fun l h => ⟨by rw [h.1]; omega, h.2⟩)
    refine trc_bind trc_rdU8_any (fun t _ => ?_)
    refine trc_bind (trc_rdU8 hb) (fun dt hdt => ?_)
    refine trc_bind (trc_rdU8 hb) (fun nc hnc => ?_)
    refine trc_bind trc_rdU8_any (fun nz _ => ?_)
    refine trc_bind trc_require (fun _ _ => ?_)
    refine trc_bind trc_require (fun _ hdt2 => ?_)
    refine trc_bind trc_require (fun _ _ => ?_)
    extract_lets jp2
    have hjp2 : ∀ uid, TrC bs X d (jp2 uid) (fun _ => d) DescB := by
      intro uid
      simp -zeta only [jp2]
      refine trc_pure ⟨hnc, ?_⟩
      simp only [Bool.and_eq_true, decide_eq_true_eq] at hdt2
      have h12 : Generated.DT_TYPES_COUNT.toNat = 12 := by decide
      rw [h12] at hdt2
      exact hdt2.2
    apply trc_ite <;> intro _
    · exact trc_bind trc_rdU16 (fun uid _ => hjp2 uid)
    · exact trc_bind trc_varint (fun uid _ => hjp2 uid)
  apply trc_ite <;> intro _
  · exact trc_bind trc_rdU32 (fun n _ => hjp n)
  · exact trc_bind trc_varint (fun n _ => hjp n)

/-- what the bound needs to know about an attribute tuple -/
def KaB (ka : KdAtt) : Prop := ka.desc.numComponents < 256 ∧ ka.dataSize ≤ 8

theorem trc_classifyOne (np d : Nat) (hnp : np ≤ d) (x : AttDesc) (hx : DescB x) (dim : Nat) :
    TrC bs X d (classifyOne np x dim) (fun _ => d) KaB := by
  have hK : allocK = 2048 := rfl
  have hl := dataTypeLength_le x.dataType
  unfold classifyOne
  refine trc_bind (trc_alloc (allocBound_of_decl (c := 2040) (by rw [hK]; omega) (by
    have h1 : dataTypeLength x.dataType * x.numComponents ≤ 8 * 255 := Nat.mul_le_mul hl (by have := hx.1; omega)
    calc np * (dataTypeLength x.dataType * x.numComponents) ≤ d * 2040 := Nat.mul_le_mul hnp h1
      _ = 2040 * d := Nat.mul_comm _ _))) (fun _ _ => ?_)
  simp only []
  apply trc_ite <;> intro _
  · exact trc_pure ⟨hx.1, hl⟩
  apply trc_ite <;> intro _
  · exact trc_pure ⟨hx.1, hl⟩
  apply trc_ite <;> intro _
  · refine trc_bind (trc_alloc (allocBound_of_decl (c := 1020) (by rw [hK]; omega) (by
      have h1 : 4 * x.numComponents ≤ 1020 := by have := hx.1; omega
      calc np * (4 * x.numComponents) ≤ d * 1020 := Nat.mul_le_mul hnp h1
        _ = 1020 * d := Nat.mul_comm _ _))) (fun _ _ => ?_)
    exact trc_pure ⟨hx.1, by simp⟩
  · exact trc_fail

theorem trc_classify (np d : Nat) (hnp : np ≤ d) : ∀ (descs : List AttDesc) (dim : Nat), (∀ x ∈ descs, DescB x) →
    TrC bs X d (classify np descs dim) (fun _ => d)
      (fun r => r.2 ≤ dim + 255 * descs.length ∧ ∀ ka ∈ r.1, KaB ka) := by
  intro descs
  induction descs with
  | nil => intro dim _; simp only [classify]; exact trc_pure ⟨by simp, by simp⟩
  | cons x xs ih =>
    intro dim hd
    simp only [classify]
    refine trc_bind (trc_classifyOne np d hnp x (hd x (by simp)) dim) (fun ka hka => ?_)
    refine trc_bind (ih (dim + x.numComponents) (fun y hy => hd y (by simp [hy]))) (fun r hr => ?_)
    refine trc_pure ⟨?_, ?_⟩
    · have := (hd x (by simp)).1
      simp only [List.length_cons]
      omega
    · intro k hk
      simp only [List.mem_cons] at hk
      rcases hk with rfl | hk
      · exact hka
      · exact hr.2 k hk

theorem trc_decodeQuantParams (d : Nat) : ∀ (kas : List KdAtt),
    TrC bs X d (decodeQuantParams kas) (fun _ => d) (fun _ => True) := by
  intro kas
  induction kas with
  | nil => simp only [decodeQuantParams]; exact trc_pure trivial
  | cons ka kas ih =>
    simp only [decodeQuantParams]
    refine trc_bind (F := fun _ => True) ?_ (fun t _ => trc_bind ih (fun _ _ => trc_pure trivial))
    unfold quantParamsOf
    apply trc_ite <;> intro _
    · refine trc_bind (trc_replicateM' _ (fun _ => True) d trc_rdU32 _) (fun _ _ => ?_)
      refine trc_bind trc_rdU32 (fun _ _ => ?_)
      refine trc_bind trc_rdU8_any (fun _ _ => ?_)
      refine trc_bind trc_require (fun _ _ => ?_)
      refine trc_bind trc_require (fun _ _ => ?_)
      exact trc_pure trivial
    · exact trc_pure trivial

theorem trc_decodeSignedMins (d : Nat) : ∀ (kas : List KdAtt) (ts : List KdTransform),
    TrC bs X d (decodeSignedMins kas ts) (fun _ => d) (fun _ => True) := by
  intro kas
  induction kas with
  | nil => intro ts; simp only [decodeSignedMins]; exact trc_pure trivial
  | cons ka kas ih =>
    intro ts
    cases ts with
    | nil => simp only [decodeSignedMins]; exact trc_pure trivial
    | cons t ts =>
      simp only [decodeSignedMins]
      refine trc_bind (F := fun _ => True) ?_ (fun t _ => trc_bind (ih ts) (fun _ _ => trc_pure trivial))
      unfold signedMinsOf
      apply trc_ite <;> intro _
      · refine trc_bind (trc_replicateM' _ (fun _ => True) d (trc_lift_any (decVarintSigned_suf 32)) _) (fun _ _ => ?_)
        exact trc_pure trivial
      · exact trc_pure trivial

theorem foldl_max_le (kas : List KdAtt) (h : ∀ ka ∈ kas, KaB ka) : ∀ (m : Nat), m ≤ 2040 →
    kas.foldl (fun m ka => max m (ka.dataSize * ka.desc.numComponents)) m ≤ 2040 := by
  induction kas with
  | nil => intro m hm; exact hm
  | cons ka kas ih =>
    intro m hm
    simp only [List.foldl_cons]
    apply ih (fun x hx => h x (by simp [hx]))
    have := h ka (by simp)
    have h1 : ka.dataSize * ka.desc.numComponents ≤ 8 * 255 := Nat.mul_le_mul this.2 (by have := this.1; omega)
    omega

theorem trc_decodeKdAttributes (opts : DecOpts) (np d : Nat) (hnp : np ≤ d) (descs : List AttDesc)
    (hlen : descs.length ≤ 5 * bs.length) (hd : ∀ x ∈ descs, DescB x) :
    TrC bs (kdX (1275 * bs.length)) d (decodeKdAttributes opts np descs) (fun _ => d) (fun _ => True) := by
  have hK : allocK = 2048 := rfl
  have hA : allocA = 4259840 := by decide
  unfold decodeKdAttributes
  refine trc_bind trc_rdU8_any (fun level _ => ?_)
  refine trc_bind (trc_alloc (allocBound_of_le (by rw [hK]; omega))) (fun _ _ => ?_)
  refine trc_bind (trc_classify np d hnp descs 0 hd) (fun cl hcl => ?_)
  simp only []
  have hdim : cl.2 ≤ 1275 * bs.length := by
    have := hcl.1
    omega
  refine trc_bind (trc_alloc (allocBound_of_le (by
    have := foldl_max_le cl.1 hcl.2 0 (by omega)
    rw [hA]; omega))) (fun _ _ => ?_)
  refine trc_bind trc_require (fun _ _ => ?_)
  have hstack : kdStackBytes cl.2 ≤ kdStackBytes (1275 * bs.length) := kdStackBytes_mono hdim
  have hsmall : 4 * cl.2 ≤ kdStackBytes cl.2 := by
    unfold kdStackBytes
    have : 1 * (4 * cl.2) ≤ (32 * cl.2 + 1) * (24 + 4 * cl.2) := Nat.mul_le_mul (by omega) (by omega)
    omega
  refine trc_bind (trc_allocX ⟨Or.inl rfl, by simp only; omega⟩) (fun _ _ => ?_)
  refine trc_bind (trc_allocX ⟨Or.inr (Or.inl rfl), by simp only; omega⟩) (fun _ _ => ?_)
  refine trc_bind (trc_allocX ⟨Or.inr (Or.inr (Or.inl rfl)), hstack⟩) (fun _ _ => ?_)
  refine trc_bind (trc_allocX ⟨Or.inr (Or.inr (Or.inr rfl)), hstack⟩) (fun _ _ => ?_)
  refine trc_bind (trc_decodePoints level cl.2 np d) (fun dp _ => ?_)
  refine trc_bind trc_require (fun _ _ => ?_)
  refine trc_bind (trc_decodeQuantParams d cl.1) (fun ts _ => ?_)
  refine trc_bind (trc_decodeSignedMins d cl.1 ts) (fun ts2 _ => ?_)
  exact trc_pure trivial

theorem trc_decodePointAttributesKd (hb : IsBytes bs) (opts : DecOpts) (np d : Nat) (hnp : np ≤ d) :
    TrC bs (kdX (1275 * bs.length)) d (decodePointAttributesKd opts np) (fun _ => d) (fun _ => True) := by
  unfold decodePointAttributesKd
  refine trc_bind trc_rdU8_any (fun nd _ => ?_)
  refine trc_bind (trc_replicateM' _ _ d (trc_decodeAttDescs hb d) nd) (fun descss hds => ?_)
  refine trc_bind (trc_mapM' (decodeKdAttributes opts np)
    (fun descs => descs.length ≤ 5 * bs.length ∧ ∀ x ∈ descs, DescB x) (fun _ => True) d
    (fun descs h => trc_decodeKdAttributes opts np d hnp descs h.1 h.2) descss hds.2) (fun attss _ => ?_)
  exact trc_pure trivial

/-! ### bitstreams older than 2.3 (DracoModel/KdTreeLegacy.lean) -/

theorem classifyLegacy_bound : ∀ (descs : List AttDesc) (dim : Nat) (r : List KdAtt × Nat),
    (∀ x ∈ descs, DescB x) → classifyLegacy descs dim = some r →
    r.2 ≤ dim + 255 * descs.length ∧ ∀ ka ∈ r.1, KaB ka := by
  intro descs
  induction descs with
  | nil =>
    intro dim r _ h
    simp only [classifyLegacy, Option.some.injEq] at h
    rw [← h]; simp
  | cons x xs ih =>
    intro dim r hd h
    have hx := hd x (by simp)
    simp only [classifyLegacy] at h
    split at h
    · cases h
    · cases hr : classifyLegacy xs (dim + x.numComponents) with
      | none => rw [hr] at h; cases h
      | some r2 =>
        rw [hr] at h
        simp only [Option.some.injEq] at h
        obtain ⟨i1, i2⟩ := ih (dim + x.numComponents) r2 (fun y hy => hd y (by simp [hy])) hr
        rw [← h]
        refine ⟨by have := hx.1; simp only [List.length_cons]; omega, ?_⟩
        intro ka hka
        simp only [List.mem_cons] at hka
        rcases hka with rfl | hka
        · exact ⟨hx.1, dataTypeLength_le _⟩
        · exact i2 ka hka

/-- the members of the tree decoder for a total dimension of at most `1275 · length`: the
    exceptional class -/
theorem trc_allocTreeDecoder (dim d : Nat) (hdim : dim ≤ 1275 * bs.length) :
    TrC bs (kdX (1275 * bs.length)) d (allocTreeDecoder dim) (fun _ => d) (fun _ => True) := by
  have hstack : kdStackBytes dim ≤ kdStackBytes (1275 * bs.length) := kdStackBytes_mono hdim
  have hsmall : 4 * dim ≤ kdStackBytes dim := by
    unfold kdStackBytes
    have : 1 * (4 * dim) ≤ (32 * dim + 1) * (24 + 4 * dim) := Nat.mul_le_mul (by omega) (by omega)
    omega
  unfold allocTreeDecoder
  refine trc_bind (trc_allocX ⟨Or.inl rfl, by simp only; omega⟩) (fun _ _ => ?_)
  refine trc_bind (trc_allocX ⟨Or.inr (Or.inl rfl), by simp only; omega⟩) (fun _ _ => ?_)
  refine trc_bind (trc_allocX ⟨Or.inr (Or.inr (Or.inl rfl)), hstack⟩) (fun _ _ => ?_)
  exact trc_allocX ⟨Or.inr (Or.inr (Or.inr rfl)), hstack⟩

/-- the embedded three-dimensional tree decoder of the float method: constant sizes, within the
    linear bound -/
theorem trc_allocTreeDecoder3 (d : Nat) :
    TrC bs X d (allocTreeDecoder 3) (fun _ => d) (fun _ => True) := by
  have hA : allocA = 4259840 := by decide
  unfold allocTreeDecoder
  refine trc_bind (trc_alloc (allocBound_of_le (by rw [hA]; omega))) (fun _ _ => ?_)
  refine trc_bind (trc_alloc (allocBound_of_le (by rw [hA]; omega))) (fun _ _ => ?_)
  refine trc_bind (trc_alloc (allocBound_of_le (by rw [hA]; omega))) (fun _ _ => ?_)
  exact trc_alloc (allocBound_of_le (by rw [hA]; omega))

theorem trc_allocOutputIterator (d : Nat) (kas : List KdAtt) (h : ∀ ka ∈ kas, KaB ka) :
    TrC bs X d (allocOutputIterator kas) (fun _ => d) (fun _ => True) := by
  have hA : allocA = 4259840 := by decide
  unfold allocOutputIterator
  exact trc_alloc (allocBound_of_le (by
    have := foldl_max_le kas h 0 (by omega)
    rw [hA]; omega))

theorem reset_bound (np d : Nat) (hnp : np ≤ d) (ka : KdAtt) (h : KaB ka) :
    np * (ka.dataSize * ka.desc.numComponents) ≤ 2040 * d := by
  have h1 : ka.dataSize * ka.desc.numComponents ≤ 8 * 255 := Nat.mul_le_mul h.2 (by have := h.1; omega)
  calc np * (ka.dataSize * ka.desc.numComponents) ≤ d * 2040 := Nat.mul_le_mul hnp h1
    _ = 2040 * d := Nat.mul_comm _ _

theorem trc_resetAll (np d : Nat) (hnp : np ≤ d) : ∀ (kas : List KdAtt), (∀ ka ∈ kas, KaB ka) →
    TrC bs X d (resetAll np kas) (fun _ => d) (fun _ => True) := by
  have hK : allocK = 2048 := rfl
  intro kas
  induction kas with
  | nil => intro _; simp only [resetAll]; exact trc_pure trivial
  | cons ka kas ih =>
    intro h
    simp only [resetAll]
    refine trc_bind (trc_alloc (allocBound_of_decl (c := 2040) (by rw [hK]; omega)
      (reset_bound np d hnp ka (h ka (by simp))))) (fun _ _ => ?_)
    exact ih (fun x hx => h x (by simp [hx]))

theorem trc_decodeLegacyInt (legacy : Bool) (numPoints d : Nat) (hnp : numPoints ≤ d) (kas : List KdAtt)
    (dim : Nat) (hk : ∀ ka ∈ kas, KaB ka) (hdim : dim ≤ 1275 * bs.length) :
    TrC bs (kdX (1275 * bs.length)) d (decodeLegacyInt legacy numPoints kas dim) (fun _ => d) (fun _ => True) := by
  unfold decodeLegacyInt
  refine trc_bind trc_rdU8_any (fun level _ => ?_)
  refine trc_bind trc_require (fun _ _ => ?_)
  refine trc_bind trc_rdU32 (fun np _ => ?_)
  refine trc_bind trc_require (fun _ hreq => ?_)
  have hreq : np = numPoints := by simpa using hreq
  subst hreq
  refine trc_bind (trc_resetAll np d hnp kas hk) (fun _ _ => ?_)
  refine trc_bind (trc_allocOutputIterator d kas hk) (fun _ _ => ?_)
  refine trc_bind (trc_allocTreeDecoder dim d hdim) (fun _ _ => ?_)
  refine trc_bind (trc_decodePointsL legacy level dim np d) (fun dp _ => ?_)
  refine trc_bind trc_require (fun _ _ => ?_)
  exact trc_pure trivial

theorem trc_floatTreeInternal (legacy : Bool) (headerPoints d : Nat) (hnp : headerPoints ≤ d) :
    TrC bs X d (floatTreeInternal legacy headerPoints) (fun _ => d) (fun _ => True) := by
  have hK : allocK = 2048 := rfl
  unfold floatTreeInternal
  refine trc_bind trc_rdU32 (fun _ _ => ?_)
  refine trc_bind trc_require (fun _ _ => ?_)
  refine trc_bind trc_rdU32 (fun _ _ => ?_)
  refine trc_bind trc_rdU32 (fun np _ => ?_)
  refine trc_bind trc_require (fun _ hreq => ?_)
  have hreq : np = headerPoints := by simpa using hreq
  subst hreq
  refine trc_bind trc_rdU32 (fun level _ => ?_)
  refine trc_bind trc_require (fun _ _ => ?_)
  refine trc_bind (F := fun _ => True) (D1 := fun _ => d) ?_ (fun pts _ => ?_)
  · unfold floatTreePoints
    apply trc_ite <;> intro _
    · exact trc_pure trivial
    refine trc_bind (trc_alloc (allocBound_of_decl (c := 12) (by rw [hK]; omega)
      (Nat.mul_le_mul_left 12 hnp))) (fun _ _ => ?_)
    refine trc_bind (trc_allocTreeDecoder3 d) (fun _ _ => ?_)
    refine trc_bind (trc_decodePointsL legacy level 3 np d) (fun dp _ => ?_)
    exact trc_pure trivial
  · refine trc_bind trc_require (fun _ _ => ?_)
    exact trc_pure trivial

theorem trc_decodeLegacyFloat (legacy : Bool) (numPoints d : Nat) (hnp : numPoints ≤ d) (ka : KdAtt)
    (hk : KaB ka) :
    TrC bs X d (decodeLegacyFloat legacy numPoints ka) (fun _ => d) (fun _ => True) := by
  have hK : allocK = 2048 := rfl
  unfold decodeLegacyFloat
  refine trc_bind trc_rdU8_any (fun _ _ => ?_)
  refine trc_bind trc_rdU32 (fun np _ => ?_)
  refine trc_bind trc_require (fun _ hreq => ?_)
  have hreq : np = numPoints := by simpa using hreq
  subst hreq
  refine trc_bind (trc_alloc (allocBound_of_decl (c := 2040) (by rw [hK]; omega)
    (reset_bound np d hnp ka hk))) (fun _ _ => ?_)
  refine trc_bind (trc_allocOutputIterator d [ka] (fun x hx => by
    simp only [List.mem_singleton] at hx; rw [hx]; exact hk)) (fun _ _ => ?_)
  refine trc_bind (F := fun _ => True) (D1 := fun _ => d) ?_ (fun _ _ => ?_)
  · unfold floatTreeHeader
    refine trc_bind trc_rdU32 (fun v _ => ?_)
    apply trc_ite <;> intro _
    · refine trc_bind trc_rdU8_any (fun _ _ => ?_)
      exact trc_weaken trc_require (fun _ _ => Nat.le_refl _) (fun _ _ => trivial)
    apply trc_ite <;> intro _
    · exact trc_pure trivial
    · exact trc_fail
  refine trc_bind (trc_floatTreeInternal legacy np d hnp) (fun r _ => ?_)
  exact trc_pure trivial

theorem trc_decodeKdAttributesLegacy (np d : Nat) (hnp : np ≤ d) (descs : List AttDesc)
    (hlen : descs.length ≤ 5 * bs.length) (hd : ∀ x ∈ descs, DescB x) :
    TrC bs (kdX (1275 * bs.length)) d (decodeKdAttributesLegacy np descs) (fun _ => d) (fun _ => True) := by
  have hK : allocK = 2048 := rfl
  unfold decodeKdAttributesLegacy
  refine trc_bind (trc_alloc (allocBound_of_le (by rw [hK]; omega))) (fun _ _ => ?_)
  cases hcl : classifyLegacy descs 0 with
  | none => exact trc_fail
  | some cl =>
    obtain ⟨hdim0, hk⟩ := classifyLegacy_bound descs 0 cl hd hcl
    have hdim : cl.2 ≤ 1275 * bs.length := by omega
    simp only
    refine trc_bind trc_version (fun ver _ => ?_)
    refine trc_bind trc_rdU8_any (fun method _ => ?_)
    unfold decodeLegacyMethod
    apply trc_ite <;> intro _
    · rcases hk1 : cl.1 with _ | ⟨ka, _ | ⟨kb, rest⟩⟩
      · exact trc_fail
      · simp only
        apply trc_ite <;> intro _
        · refine trc_bind (trc_decodeLegacyFloat _ np d hnp ka (hk ka (by rw [hk1]; simp))) (fun a _ => ?_)
          exact trc_pure trivial
        · exact trc_fail
      · exact trc_fail
    apply trc_ite <;> intro _
    · exact trc_decodeLegacyInt _ np d hnp cl.1 cl.2 hk hdim
    · exact trc_fail

theorem trc_decodeKdGeometryLegacy (hb : IsBytes bs) :
    TrC bs (kdX (1275 * bs.length)) 0 decodeKdGeometryLegacy (fun _ => 0) (fun _ => True) := by
  unfold decodeKdGeometryLegacy
  refine trc_bind trc_rdI32 (fun np _ => ?_)
  refine trc_bind trc_require (fun _ _ => ?_)
  simp only []
  refine trc_bind trc_declare (fun _ _ => ?_)
  refine trc_bind (F := fun _ => True) (D1 := fun _ => 0 + np.toNat) ?_ (fun atts _ => ?_)
  · unfold decodePointAttributesKdLegacy
    refine trc_bind trc_rdU8_any (fun nd _ => ?_)
    refine trc_bind (trc_replicateM' _ _ _ (trc_decodeAttDescs hb _) nd) (fun descss hds => ?_)
    refine trc_bind (trc_mapM' (decodeKdAttributesLegacy np.toNat)
      (fun descs => descs.length ≤ 5 * bs.length ∧ ∀ x ∈ descs, DescB x) (fun _ => True) _
      (fun descs h => trc_decodeKdAttributesLegacy np.toNat _ (by omega) descs h.1 h.2) descss hds.2) (fun attss _ => ?_)
    exact trc_pure trivial
  · exact trc_weaken (trc_pure (F := fun _ => True) trivial) (fun _ _ => Nat.zero_le _) (fun _ h => h)

/-- the kd-tree body decoder keeps the allocation invariant with the exceptional class `kdX` -/
theorem trc_decodeKdGeometry (hb : IsBytes bs) (opts : DecOpts) :
    TrC bs (kdX (1275 * bs.length)) 0 (decodeKdGeometry opts) (fun _ => 0) (fun _ => True) := by
  unfold decodeKdGeometry
  refine trc_bind trc_version (fun ver _ => ?_)
  apply trc_ite <;> intro _
  · exact trc_decodeKdGeometryLegacy hb
  refine trc_bind trc_rdI32 (fun np _ => ?_)
  refine trc_bind trc_require (fun _ _ => ?_)
  simp only []
  refine trc_bind trc_declare (fun _ _ => ?_)
  refine trc_bind (trc_decodePointAttributesKd hb opts np.toNat (0 + np.toNat) (by omega)) (fun atts _ => ?_)
  exact trc_weaken (trc_pure (F := fun _ => True) trivial) (fun _ _ => Nat.zero_le _) (fun _ h => h)

/-! ### the complete decoder -/

/-- the dispatcher with a kd-tree body that accepts everything without reading: its run shows in
    which state the real kd-tree body is entered -/
def kdStub : DecOpts → DecM Geometry := fun _ => pure { isMesh := false, numPoints := 0, faces := [], atts := [] }

/-- **C18 for the dispatcher with the real kd-tree body decoder**: for every byte string and option
    set, every allocation event of `decodeStreamWith eb Kd.decodeKdGeometry` — accepted or rejected — is
    within `A + K·(length + declared)` or is one of the four dimension-sized members of the kd-tree
    decoder (`kdX`), provided the Edgebreaker body keeps the (linear) invariant -/
theorem decodeStreamWith_kd_alloc_classified (eb : DecOpts → DecM Geometry) (opts : DecOpts) (bs : Bytes)
    (hb : IsBytes bs) (heb : Tr bs 0 (eb opts) (fun _ => 0) (fun _ => True)) :
    ∀ e ∈ (decodeStreamWith eb decodeKdGeometry opts { rest := bs }).2.allocs,
      e.2 ≤ allocBound bs.length (decodeStreamWith eb decodeKdGeometry opts { rest := bs }).2.declared ∨
        kdX (1275 * bs.length) e := by
  have h0 : Inv bs 0 { rest := bs } := ⟨List.suffix_refl _, Nat.le_refl _, by simp⟩
  -- the run with the stub body satisfies the linear invariant
  have hstub := tr_decodeStreamWith hb eb kdStub opts heb (tr_pure trivial) _ h0
  rw [decodeStreamWith_eq] at hstub ⊢
  simp only [bind] at hstub ⊢
  cases hf : streamFront { rest := bs } with
  | mk fo s1 =>
    simp only [DecM.andThen, hf] at hstub ⊢
    cases fo with
    | none =>
      simp only at hstub ⊢
      intro e he
      exact Or.inl ((hstub.1 s1 rfl).allocs e he)
    | some fg =>
      simp only at hstub ⊢
      cases fg with
      | seq fr =>
        -- the sequential rest does not look at the kd-tree body
        simp only [finishStream] at hstub ⊢
        intro e he
        rcases hr : finishGeom opts fr s1 with ⟨r, s'⟩
        rw [hr] at he
        cases r with
        | none => exact Or.inl ((hstub.1 s' hr).allocs e he)
        | some a => exact Or.inl ((hstub.2 a s' hr).1.allocs e he)
      | eb md =>
        simp only [finishStream] at hstub ⊢
        intro e he
        rcases hr : (do let g ← eb opts; pure (⟨g, md⟩ : DecodeResult)) s1 with ⟨r, s'⟩
        rw [hr] at he ⊢
        cases r with
        | none => exact Or.inl ((hstub.1 s' hr).allocs e he)
        | some a => exact Or.inl ((hstub.2 a s' hr).1.allocs e he)
      | kd md =>
        -- the stub run ends in `s1`: the real body starts from a state satisfying the invariant
        have hs1 : Inv bs 0 s1 := by
          have := hstub.2 ⟨{ isMesh := false, numPoints := 0, faces := [], atts := [] }, md⟩ s1 rfl
          exact this.1
        have hbody := (trc_bind (trc_decodeKdGeometry hb opts)
          (fun g _ => trc_weaken (trc_pure (F := fun _ => True) (a := (⟨g, md⟩ : DecodeResult)) trivial)
            (fun _ _ => Nat.le_refl _) (fun _ h => h))) s1 hs1.toC
        simp only [finishStream]
        intro e he
        rcases hr : (do let g ← decodeKdGeometry opts; pure (⟨g, md⟩ : DecodeResult)) s1 with ⟨r, s'⟩
        rw [hr] at he ⊢
        cases r with
        | none => exact (hbody.1 s' hr).allocs e he
        | some a => exact (hbody.2 a s' hr).1.allocs e he

end Draco.Robust
